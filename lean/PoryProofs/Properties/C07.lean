import PoryProofs.FormatLemmas
/-
C07 — `format()` only turns spaces into line breaks, and every line fits the box.

All theorems are about the Lean model `PoryModel/FormatText.lean` of `parser/formattext.go`
and hold for EVERY font table `fc`, font id, and `maxWidth overlap numLines spaceW : Int`.
Helper definitions and lemmas are in `PoryProofs/FormatLemmas.lean`.

Layer 1 (word level; the scanner is abstracted to a list of non-empty words).
`runWords` folds `formatStep` over the words, each step seeing the next word as look-ahead.
`trace` is the abstract output (list of `OutItem`: `word w`, or `brk origin code` with origin
`explicit` (`\n` `\l` `\p` of the input), `auto` (`\N` resolved) or `wrap` (inserted)).
* `output_is_render`, `runWords_refines`, `step_preserves_invariant` :
      the characters `runWords` produces are `render` of the trace (words joined by one space,
      every break code followed by a newline character);
* W1 `content_preserved` : dropping the inserted wraps, the items are the input words one for
      one, in order (`\N` replaced by the `\n`/`\l` it resolved to); corollaries
      `words_preserved`, `output_adds_only_separators`;
* W4 `break_discipline`, `break_discipline_inv` : every wrap / resolved `\N` is `\n` iff
      `lineNum < numLines-1`, else `\l`; `\p` resets the line number, every other break
      increments it (`step_break`, `step_word`: the same for one `formatStep`);
* W2 `width_invariant`, `width`, `lines_fit`;
* W3 `greedy`.
Layer 2 (the real loop and the scanner).
* `formatLoop_eq_runWords`, `formatText_eq` : the real loop / `formatText` is `runWords` on the
  words obtained by iterating `getNextWord` (`allWords`); no extra hypothesis (in particular the
  fuel `text.length + 1` of the model never cuts the loop short: `getNextWord_progress`);
* `getNextWord_facts`, `getNextWord_skips_only_spaces` : end position inside the text; the word is
  a non-empty contiguous slice ending there and everything skipped before it is a space; an empty
  word means the whole remaining text is spaces;
* `scanner_covers_text` : for EVERY text, the scanned words contain exactly the non-space
  characters of the text, in order (the scanner loses nothing);
* `format_correct` : W1..W4 for `formatText` itself (only hypothesis: the font id is accepted).

Status: NOTHING IS PARTIAL.  Finding F15 (a word starting with two backslashes lost the first one:
`aa \\n bb` came out as `aa \n⏎bb`) has been FIXED in `formattext.go` and in the model; the former
theorems `getNextWord_drops_backslash` / `scanner_covers_text_full_false` (which exhibited the
defect) are false of the fixed model and were removed; the former hypothesis `NoDoubleBS` is gone
(`getNextWord_skips_only_spaces_partial` / `scanner_covers_text_partial` are kept only as trivial
corollaries under their old names).  `f15_fixed_example` shows the repaired behaviour on
`aa \\n bb`: the words are `aa`, `\`, `\n`, `bb`.
Limits of what is claimed:
* "width of a line" is the formatter's own measure `lineW`: the sum of `getWordPixelWidth` of
  the words plus `spaceW` between neighbours;
* a line consisting of a single word may exceed `maxWidth` (by design); `lines_fit` speaks about
  lines with at least two words, and charges the cursor overlap exactly when the model does
  (the line is the last of the box, or `\p` follows it).
-/
namespace Pory.C07
open Pory Pory.Fmt

section
variable (fc : FontConfig) (fontID : String) (maxWidth overlap numLines spaceW : Int)

/-- Width of a word in the given font. -/
abbrev wd : List Char → Int := fun w => getWordPixelWidth fc w fontID

/-- Abstract output for the word list `ws`, from the initial state. -/
abbrev trace (ws : List (List Char)) : List OutItem :=
  traceA (wd fc fontID) maxWidth overlap numLines spaceW ws {}

/-- The output of the word-level loop. -/
def output (ws : List (List Char)) : List Char :=
  (runWords fc fontID maxWidth overlap numLines spaceW ws {}).formatted ++
  (runWords fc fontID maxWidth overlap numLines spaceW ws {}).curLine

/-! ### Refinement: concrete characters = rendering of the abstract output -/

theorem output_is_render (ws : List (List Char)) (hws : ∀ w ∈ ws, w ≠ []) :
    output fc fontID maxWidth overlap numLines spaceW ws =
      render false (trace fc fontID maxWidth overlap numLines spaceW ws) := by
  have := (sim fc fontID maxWidth overlap numLines spaceW ws hws {} {} (R_init fc fontID spaceW)).2
  simpa [output] using this

/-- General form (an invariant of `runWords`): from any related pair of states, the final
states are related and the appended characters are the rendering of the trace. -/
theorem runWords_refines (ws : List (List Char)) (hws : ∀ w ∈ ws, w ≠ []) (as : AS) (st : FS)
    (hR : R fc fontID spaceW as st) :
    R fc fontID spaceW (finalA (wd fc fontID) maxWidth overlap numLines spaceW ws as)
      (runWords fc fontID maxWidth overlap numLines spaceW ws st) ∧
    (runWords fc fontID maxWidth overlap numLines spaceW ws st).formatted ++
      (runWords fc fontID maxWidth overlap numLines spaceW ws st).curLine =
    st.formatted ++ st.curLine ++ render (!as.line.isEmpty)
      (traceA (wd fc fontID) maxWidth overlap numLines spaceW ws as) :=
  sim fc fontID maxWidth overlap numLines spaceW ws hws as st hR

/-- The invariant `R` (`curLine` = the line's words joined by spaces, `curWidth` = their width
`lineW`, `curLineNum` = abstract line number, `isFirstWord` ↔ the line is empty) is preserved by
every single `formatStep`, whatever the look-ahead word. -/
theorem step_preserves_invariant (as : AS) (st : FS) (w nx : List Char)
    (hR : R fc fontID spaceW as st) (hw : w ≠ []) :
    R fc fontID spaceW (stepA (wd fc fontID) maxWidth overlap numLines spaceW w nx as).2
      (formatStep fc fontID maxWidth overlap numLines spaceW w nx st) :=
  (step_sim fc fontID maxWidth overlap numLines spaceW as st w nx hR hw).1

/-! ### W1 — nothing lost, duplicated, reordered or split -/

/-- Dropping the inserted wrap codes, the output items correspond one for one, in order, to
the input words: an ordinary word is itself, `\n` `\l` `\p` are themselves, `\N` is `\n` or `\l`. -/
theorem content_preserved (ws : List (List Char)) :
    AllMatch ((trace fc fontID maxWidth overlap numLines spaceW ws).filter (fun i => !i.isWrap))
      ws :=
  trace_content _ _ _ _ _ ws {}

/-- The ordinary words of the output are exactly the ordinary words of the input, in order. -/
theorem words_preserved (ws : List (List Char)) :
    (trace fc fontID maxWidth overlap numLines spaceW ws).filterMap OutItem.word? =
      ws.filter (fun w => !isLineBreak w) := by
  have h := content_preserved fc fontID maxWidth overlap numLines spaceW ws
  rw [← filterMap_word_filter_wrap]
  exact allMatch_words _ _ h

/-- Rendering only adds spaces and newline characters: with those erased, the output is the
concatenation of the items (input words, break codes, inserted wrap codes) in order. -/
theorem output_adds_only_separators (ws : List (List Char)) (hws : ∀ w ∈ ws, w ≠ []) :
    (output fc fontID maxWidth overlap numLines spaceW ws).filter (fun c => !isSep c) =
      (((trace fc fontID maxWidth overlap numLines spaceW ws).map OutItem.text).flatten).filter
        (fun c => !isSep c) := by
  rw [output_is_render fc fontID maxWidth overlap numLines spaceW ws hws]
  exact render_nonsep false _

/-! ### W4 — break discipline -/

/-- One `formatStep` on a break word: the code written is `\n`/`\l` by the discipline for `\N`,
the word itself otherwise; `\p` resets the line number, any other break increments it. -/
theorem step_break (word nextWord : List Char) (st : FS) (h : isLineBreak word = true) :
    formatStep fc fontID maxWidth overlap numLines spaceW word nextWord st =
      { formatted := st.formatted ++ st.curLine ++
          (if isAutoLineBreak word then expectedBreak numLines st.curLineNum else word) ++ ['\n'],
        curLine := [], curWidth := 0,
        curLineNum := nextLineNum st.curLineNum word, isFirstWord := true } :=
  formatStep_break fc fontID maxWidth overlap numLines spaceW word nextWord st h

/-- One `formatStep` on an ordinary word: it wraps (writing the code prescribed by the
discipline, incrementing the line number) iff the tested width exceeds `maxWidth` and the
current line is non-empty; otherwise the word is appended (W3 and W4 at step level). -/
theorem step_word (word nextWord : List Char) (st : FS) (h : isLineBreak word = false) :
    formatStep fc fontID maxWidth overlap numLines spaceW word nextWord st =
      if nextWidthC fc fontID overlap numLines spaceW word nextWord st > maxWidth ∧ st.curLine ≠ []
      then
        { formatted := st.formatted ++ st.curLine ++ expectedBreak numLines st.curLineNum ++ ['\n'],
          curLine := word, curWidth := getWordPixelWidth fc word fontID,
          curLineNum := st.curLineNum + 1, isFirstWord := false }
      else
        { st with
          curWidth := st.curWidth + (if st.isFirstWord then 0 else spaceW) +
            getWordPixelWidth fc word fontID,
          curLine := (if st.isFirstWord then st.curLine else st.curLine ++ [' ']) ++ word,
          isFirstWord := false } :=
  formatStep_word fc fontID maxWidth overlap numLines spaceW word nextWord st h

/-- Every break in the output that is not an explicit `\n` `\l` `\p` of the input (i.e. every
wrap and every resolved `\N`) is `\n` when the line number at that moment is `< numLines-1` and
`\l` otherwise, where the line number is 0 at the start and after `\p`, and one more after every
other break; and that line number is the model's `curLineNum`. -/
theorem break_discipline (ws : List (List Char)) (hws : ∀ w ∈ ws, w ≠ []) :
    Disciplined numLines 0 (trace fc fontID maxWidth overlap numLines spaceW ws) ∧
    (runWords fc fontID maxWidth overlap numLines spaceW ws {}).curLineNum =
      numOf 0 (trace fc fontID maxWidth overlap numLines spaceW ws) := by
  refine ⟨trace_disciplined _ _ _ _ _ ws {}, ?_⟩
  have h := (sim fc fontID maxWidth overlap numLines spaceW ws hws {} {} (R_init fc fontID spaceW)).1
  rw [h.num]
  exact (finalA_eq _ _ _ _ _ ws {}).1

/-- Invariant form, from any related states. -/
theorem break_discipline_inv (ws : List (List Char)) (hws : ∀ w ∈ ws, w ≠ []) (as : AS) (st : FS)
    (hR : R fc fontID spaceW as st) :
    Disciplined numLines st.curLineNum
      (traceA (wd fc fontID) maxWidth overlap numLines spaceW ws as) ∧
    (runWords fc fontID maxWidth overlap numLines spaceW ws st).curLineNum =
      numOf st.curLineNum (traceA (wd fc fontID) maxWidth overlap numLines spaceW ws as) := by
  rw [hR.num]
  refine ⟨trace_disciplined _ _ _ _ _ ws as, ?_⟩
  rw [(sim fc fontID maxWidth overlap numLines spaceW ws hws as st hR).1.num]
  exact (finalA_eq _ _ _ _ _ ws as).1

/-! ### W2 — widths -/

/-- `curWidth` is the width of the current line (word widths plus `spaceW` between words), and
`curLine` is those words joined by single spaces. -/
theorem width_invariant (ws : List (List Char)) (hws : ∀ w ∈ ws, w ≠ []) :
    (runWords fc fontID maxWidth overlap numLines spaceW ws {}).curWidth =
      lineW (wd fc fontID) spaceW
        (curOf [] (trace fc fontID maxWidth overlap numLines spaceW ws)) ∧
    (runWords fc fontID maxWidth overlap numLines spaceW ws {}).curLine =
      joinSp (curOf [] (trace fc fontID maxWidth overlap numLines spaceW ws)) := by
  have h := (sim fc fontID maxWidth overlap numLines spaceW ws hws {} {} (R_init fc fontID spaceW)).1
  have e := (finalA_eq (wd fc fontID) maxWidth overlap numLines spaceW ws {}).2
  exact ⟨by rw [h.width, e], by rw [h.line, e]⟩

/-- Whenever a word joins a non-empty line, the line with that word, plus the cursor overlap
when the look-ahead rule fires (there is a following item and the line is the last of the box or
`\p` follows), is at most `maxWidth`. -/
theorem width (ws : List (List Char)) (hws : ∀ w ∈ ws, w ≠ []) :
    Fits (wd fc fontID) maxWidth overlap numLines spaceW 0 []
      (trace fc fontID maxWidth overlap numLines spaceW ws) :=
  trace_fits _ _ _ _ _ ws hws {}

/-- Every completed line with at least two words fits in `maxWidth`, the cursor overlap
included when the line is the last of the box (`lineNum ≥ numLines-1`) or is ended by `\p`;
the unfinished last line fits as well. -/
theorem lines_fit (ws : List (List Char)) (hws : ∀ w ∈ ws, w ≠ []) :
    LinesFit (wd fc fontID) maxWidth overlap numLines spaceW 0 []
      (trace fc fontID maxWidth overlap numLines spaceW ws) :=
  trace_linesFit _ _ _ _ _ ws hws

/-! ### W3 — a word moves to a new line only when it does not fit -/

/-- Every inserted wrap comes after a non-empty line and before a word `w` such that the line
with `w` appended (plus the cursor overlap under the same rule) would exceed `maxWidth`. -/
theorem greedy (ws : List (List Char)) (hws : ∀ w ∈ ws, w ≠ []) :
    Greedy (wd fc fontID) maxWidth overlap numLines spaceW 0 []
      (trace fc fontID maxWidth overlap numLines spaceW ws) :=
  trace_greedy _ _ _ _ _ ws hws {}

/-! ### Layer 2 — the real loop and the scanner -/

/-- The main loop of `FormatText` is the word-level loop over the words `getNextWord` yields. -/
theorem formatLoop_eq_runWords (n : Nat) (rest word : List Char) (st : FS)
    (hw : word ≠ []) (hn : rest.length < n) :
    formatLoop fc fontID maxWidth overlap numLines spaceW (n + 1) rest word st =
      runWords fc fontID maxWidth overlap numLines spaceW (word :: wordsOf n rest) st :=
  Fmt.formatLoop_eq_runWords fc fontID maxWidth overlap numLines spaceW n rest word st hw hn

/-- `getNextWord`: the end position is inside the text; the word is a contiguous slice `[a, end)`
of the text and is then non-empty, and every position skipped before `a` holds a space; if the
word is empty, everything was consumed and the text consists of spaces only. -/
theorem getNextWord_facts (text : List Char) :
    (getNextWord text).1 ≤ text.length ∧
    (((getNextWord text).2 = [] ∧ (getNextWord text).1 = text.length ∧ ∀ c ∈ text, c = ' ') ∨
     (∃ a, a < (getNextWord text).1 ∧
        (getNextWord text).2 = slice text a (getNextWord text).1 ∧
        ∀ i, i < a → text[i]? = some ' ')) :=
  getNextWord_spec text

/-- A non-empty word consumes at least one and at most all characters (the loop terminates). -/
theorem getNextWord_progress (text : List Char) (h : (getNextWord text).2 ≠ []) :
    1 ≤ (getNextWord text).1 ∧ (getNextWord text).1 ≤ text.length :=
  Fmt.getNextWord_progress text h

/-- A non-empty word is the slice `[a, end)` of the text and is preceded by spaces only: the
scanner drops nothing but spaces (every text). -/
theorem getNextWord_skips_only_spaces (text : List Char) (hw : (getNextWord text).2 ≠ []) :
    ∃ a, a < (getNextWord text).1 ∧ (getNextWord text).1 ≤ text.length ∧
      (getNextWord text).2 = slice text a (getNextWord text).1 ∧
      ∀ c ∈ text.take a, c = ' ' :=
  Fmt.getNextWord_skips_only_spaces text hw

/-- The text splits as: spaces, the word, the rest on which the scanner continues. -/
theorem getNextWord_decomp (text : List Char) (hw : (getNextWord text).2 ≠ []) :
    ∃ sp, (∀ c ∈ sp, c = ' ') ∧
      text = sp ++ (getNextWord text).2 ++ text.drop (getNextWord text).1 :=
  Fmt.getNextWord_decomp text hw

/-- For every text, the scanned words contain exactly the non-space characters of the text, in
order: the scanner loses nothing, duplicates nothing, reorders nothing. -/
theorem scanner_covers_text (text : List Char) :
    ((allWords text).flatten).filter (fun c => c != ' ') = text.filter (fun c => c != ' ') :=
  wordsOf_cover _ text (Nat.lt_succ_self _)

/-- Old name (before the fix of F15 the hypothesis was needed); now a corollary. -/
theorem getNextWord_skips_only_spaces_partial (text : List Char) (_hbs : NoDoubleBS text)
    (hw : (getNextWord text).2 ≠ []) :
    ∃ a, a < (getNextWord text).1 ∧ (getNextWord text).1 ≤ text.length ∧
      (getNextWord text).2 = slice text a (getNextWord text).1 ∧
      ∀ c ∈ text.take a, c = ' ' :=
  getNextWord_skips_only_spaces text hw

/-- Old name (before the fix of F15 the hypothesis was needed); now a corollary. -/
theorem scanner_covers_text_partial (text : List Char) (_hbs : NoDoubleBS text) :
    ((allWords text).flatten).filter (fun c => c != ' ') = text.filter (fun c => c != ' ') :=
  scanner_covers_text text

/-- All scanned words are non-empty. -/
theorem allWords_nonempty (text : List Char) : ∀ w ∈ allWords text, w ≠ [] :=
  wordsOf_ne _ _

/-- `formatText` with an accepted font id returns the rendering of the abstract output for the
scanned words of the text (newlines first replaced by spaces). -/
theorem formatText_eq (text : List Char)
    (hv : (!fc.isFontIDValid fontID && fontID.length > 0 && fontID != Facts.testFontID) = false) :
    formatText fc text maxWidth overlap fontID numLines =
      .ok (render false (trace fc fontID maxWidth overlap numLines
              (getRunePixelWidth fc ' ' fontID) (allWords (normalize text)))) := by
  rw [formatText_eq_runWords fc maxWidth overlap numLines text fontID hv]
  have := output_is_render fc fontID maxWidth overlap numLines (getRunePixelWidth fc ' ' fontID)
    (allWords (normalize text)) (allWords_nonempty _)
  rw [← this]; rfl

/-- C07 for `formatText` itself: the result is the rendering of an abstract output that keeps
the scanned words in order (W1), obeys the break discipline (W4), fits (W2) and is greedy (W3). -/
theorem format_correct (text : List Char)
    (hv : (!fc.isFontIDValid fontID && fontID.length > 0 && fontID != Facts.testFontID) = false) :
    ∃ its : List OutItem,
      formatText fc text maxWidth overlap fontID numLines = .ok (render false its) ∧
      AllMatch (its.filter (fun i => !i.isWrap)) (allWords (normalize text)) ∧
      Disciplined numLines 0 its ∧
      Fits (wd fc fontID) maxWidth overlap numLines (getRunePixelWidth fc ' ' fontID) 0 [] its ∧
      LinesFit (wd fc fontID) maxWidth overlap numLines (getRunePixelWidth fc ' ' fontID) 0 [] its ∧
      Greedy (wd fc fontID) maxWidth overlap numLines (getRunePixelWidth fc ' ' fontID) 0 [] its :=
  ⟨_, formatText_eq fc fontID maxWidth overlap numLines text hv,
    content_preserved _ _ _ _ _ _ _,
    (break_discipline _ _ _ _ _ _ _ (allWords_nonempty _)).1,
    width _ _ _ _ _ _ _ (allWords_nonempty _),
    lines_fit _ _ _ _ _ _ _ (allWords_nonempty _),
    greedy _ _ _ _ _ _ _ (allWords_nonempty _)⟩

end

/-! ### Concrete instances (TEST font: every rune is 10 wide, a control code 100) -/

/-- `aaa bbb ccc \N dd \p e`, box of 2 lines, 70 pixels. -/
def exWords : List (List Char) :=
  ["aaa".toList, "bbb".toList, "ccc".toList, "\\N".toList, "dd".toList, "\\p".toList, "e".toList]

example : ∀ w ∈ exWords, w ≠ [] := by decide

example : trace {} "TEST" 70 0 2 10 exWords =
    [.word "aaa".toList, .word "bbb".toList, .brk .wrap "\\n".toList, .word "ccc".toList,
     .brk .auto "\\l".toList, .word "dd".toList, .brk .explicit "\\p".toList, .word "e".toList] := by
  decide

example : output {} "TEST" 70 0 2 10 exWords = "aaa bbb\\n\nccc\\l\ndd\\p\ne".toList := by decide

example : (trace {} "TEST" 70 0 2 10 exWords).filterMap OutItem.word? =
    ["aaa".toList, "bbb".toList, "ccc".toList, "dd".toList, "e".toList] := by decide

example : numOf 0 (trace {} "TEST" 70 0 2 10 exWords) = 0 ∧
    curOf [] (trace {} "TEST" 70 0 2 10 exWords) = ["e".toList] := by decide

/-- With a cursor overlap of 10 the second box line `ccc dd` (3+1+2 runes = 60, +10 = 70) still
fits in 70, but not in 69: the overlap is charged on the last line of the box. -/
example : output {} "TEST" 70 10 2 10 ["aaa".toList, "bbb".toList, "ccc".toList, "dd".toList, "e".toList]
    = "aaa bbb\\n\nccc dd\\l\ne".toList := by decide
example : output {} "TEST" 69 10 2 10 ["aaa".toList, "bbb".toList, "ccc".toList, "dd".toList, "e".toList]
    = "aaa\\n\nbbb\\l\nccc\\l\ndd e".toList := by decide

example : allWords "aaa bbb  ccc\\Ndd \\p e".toList = exWords := by decide

/-! The theorems instantiated on the example (hypotheses discharged by `decide`). -/
example : AllMatch ((trace {} "TEST" 70 0 2 10 exWords).filter (fun i => !i.isWrap)) exWords :=
  content_preserved {} "TEST" 70 0 2 10 exWords
example : Disciplined 2 0 (trace {} "TEST" 70 0 2 10 exWords) :=
  (break_discipline {} "TEST" 70 0 2 10 exWords (by decide)).1
example : (runWords {} "TEST" 70 0 2 10 exWords {}).curWidth = 10 :=
  (width_invariant {} "TEST" 70 0 2 10 exWords (by decide)).1.trans (by decide)
example : Fits (wd {} "TEST") 70 0 2 10 0 [] (trace {} "TEST" 70 0 2 10 exWords) :=
  width {} "TEST" 70 0 2 10 exWords (by decide)
example : LinesFit (wd {} "TEST") 70 0 2 10 0 [] (trace {} "TEST" 70 0 2 10 exWords) :=
  lines_fit {} "TEST" 70 0 2 10 exWords (by decide)
example : Greedy (wd {} "TEST") 70 0 2 10 0 [] (trace {} "TEST" 70 0 2 10 exWords) :=
  greedy {} "TEST" 70 0 2 10 exWords (by decide)
/-- The wrap before `ccc` in the example is justified: `aaa bbb ccc` is 110 > 70 wide. -/
example : lineW (wd {} "TEST") 10 ["aaa".toList, "bbb".toList, "ccc".toList] = 110 := by decide
/-- The font-id guard of `format_correct` holds for the TEST font. -/
example : (!({} : FontConfig).isFontIDValid "TEST" && ("TEST" : String).length > 0 &&
    "TEST" != Facts.testFontID) = false := by decide

example : getNextWord "  ab{c d}e f".toList = (10, "ab{c d}e".toList) := by decide
example : slice "  ab{c d}e f".toList 2 10 = "ab{c d}e".toList := by decide
example : getNextWord "   ".toList = (3, []) := by decide

example : formatText {} "aaa bbb\nccc\\Ndd \\p e".toList 70 0 "TEST" 2 =
    .ok "aaa bbb\\n\nccc\\l\ndd\\p\ne".toList := by rfl

/-- F15 is fixed: on `aa \\n bb` the scanner yields the words `aa`, `\`, `\n`, `bb` (the first
backslash of `\\n` is an ordinary one-character word, the second starts the break code `\n`),
each word is the announced slice, and the concatenation law holds. -/
theorem f15_fixed_example :
    allWords "aa \\\\n bb".toList = ["aa".toList, "\\".toList, "\\n".toList, "bb".toList] ∧
    getNextWord "\\\\n bb".toList = (1, "\\".toList) ∧
    getNextWord "\\n bb".toList = (2, "\\n".toList) ∧
    ((allWords "aa \\\\n bb".toList).flatten).filter (fun c => c != ' ') =
      "aa\\\\nbb".toList := by decide

/-- The same through `formatText`: `\` stays a word on the first line, `\n` breaks the line. -/
example : formatText {} "aa \\\\n bb".toList 70 0 "TEST" 2 = .ok "aa \\\\n\nbb".toList := by rfl

/-- A word that starts with two backslashes and goes on with ordinary characters keeps both. -/
example : getNextWord "  \\\\ab c".toList = (6, "\\\\ab".toList) := by decide

/-- Non-vacuity of `getNextWord_skips_only_spaces` / `scanner_covers_text` on a text with adjacent
backslashes. -/
example : ∃ a, a < 6 ∧ "\\\\ab".toList = slice "  \\\\ab c".toList a 6 ∧
    ∀ c ∈ "  \\\\ab c".toList.take a, c = ' ' := ⟨2, by decide, by decide, by decide⟩
example : (getNextWord "  \\\\ab c".toList).2 ≠ [] := by decide
example : ((allWords "  \\\\ab c \\\\\\p".toList).flatten).filter (fun c => c != ' ') =
    "\\\\abc\\\\\\p".toList := scanner_covers_text _

example : ((allWords "aaa bbb  ccc\\Ndd \\p e".toList).flatten).filter (fun c => c != ' ') =
    "aaabbbccc\\Ndd\\pe".toList := by decide

end Pory.C07
