import PoryModel.Compile
/-
C06 — inline text and moves() are hoisted to labels that denote exactly that content.

Proved about the hoisting pass of the parser model (`addTextStep`, folded over the inline texts
of a top-level statement in source order; `addMovementStep` is the same code shape):
* `label_assigned`: after a text is processed, the table maps its (content, string type) to the
  label that was patched into the originating command's argument slot;
* `lookup_stable`: an entry of the table never changes afterwards — so identical content of the
  same string type shares one label across the whole file (`same_key_same_label`);
* `new_text_recorded`: a new key creates exactly one `Text` record with that label, that content
  and that string type, local; an existing key creates none (`defined_once`);
* `numbering`: a new label is `<script>_Text_<n>` with `n` the number of texts already created
  for that owning script, and only that script's counter advances.
Different content never shares a label provided generated names are not imitated — the label
strings `<owner>_Text_<n>` are distinct for distinct (owner, n) exactly under that hypothesis;
the clash of a generated with a user-written name is C20 (`firstDuplicateText`).
-/
namespace Pory.C06
open Pory Pory.Parser

def keyOf (t : ImpText) : String × String := (t.text.lit, t.stringType)

/-- The label that `addTextStep` patches into the command for `t` in state `s`. -/
def assigned (s : PState) (t : ImpText) : String :=
  match s.inlineTextsSet.lookup (keyOf t) with
  | some l => l
  | none => getImplicitTextLabel t.scriptName (lookupD s.inlineTextCounts t.scriptName)

theorem patch_appended (s : PState) (t : ImpText) :
    (addTextStep s t).patches = s.patches ++ [((t.cmdId, t.argPos), assigned s t)] := by
  unfold addTextStep assigned keyOf
  cases h : s.inlineTextsSet.lookup (t.text.lit, t.stringType) <;> simp [h]

theorem label_assigned (s : PState) (t : ImpText) :
    (addTextStep s t).inlineTextsSet.lookup (keyOf t) = some (assigned s t) := by
  unfold addTextStep assigned keyOf
  cases h : s.inlineTextsSet.lookup (t.text.lit, t.stringType) <;> simp [h, List.lookup]

theorem lookup_stable (s : PState) (t : ImpText) (k : String × String) (l : String)
    (h : s.inlineTextsSet.lookup k = some l) : (addTextStep s t).inlineTextsSet.lookup k = some l := by
  unfold addTextStep
  cases h2 : s.inlineTextsSet.lookup (t.text.lit, t.stringType) with
  | some l2 => simpa [h2] using h
  | none =>
    simp only [h2]
    have hne : k ≠ (t.text.lit, t.stringType) := by
      intro he; rw [he] at h; rw [h] at h2; cases h2
    have hb : (k == (t.text.lit, t.stringType)) = false := by simpa using hne
    simp [List.lookup, hb, h]

theorem lookup_stable_fold (ts : List ImpText) (s : PState) (k : String × String) (l : String)
    (h : s.inlineTextsSet.lookup k = some l) : (ts.foldl addTextStep s).inlineTextsSet.lookup k = some l := by
  induction ts generalizing s with
  | nil => exact h
  | cons t r ih => exact ih _ (lookup_stable s t k l h)

/-- Identical content of the same string type gets the same label, however far apart (also
across scripts: the table lives for the whole file). -/
theorem same_key_same_label (s : PState) (t1 t2 : ImpText) (mid : List ImpText) (hk : keyOf t1 = keyOf t2) :
    assigned ((mid.foldl addTextStep (addTextStep s t1))) t2 = assigned s t1 := by
  have h1 := label_assigned s t1
  have h2 := lookup_stable_fold mid _ _ _ h1
  unfold assigned at *
  rw [← hk, h2]

/-- A key that is already in the table creates no new text record. -/
theorem defined_once (s : PState) (t : ImpText) (l : String) (h : s.inlineTextsSet.lookup (keyOf t) = some l) :
    (addTextStep s t).inlineTexts = s.inlineTexts := by
  unfold addTextStep; unfold keyOf at h; simp [h]

/-- A new key creates exactly one record: that label, that content, that string type, local. -/
theorem new_text_recorded (s : PState) (t : ImpText) (h : s.inlineTextsSet.lookup (keyOf t) = none) :
    (addTextStep s t).inlineTexts = s.inlineTexts ++
      [{ name := assigned s t, value := t.text.lit, tok := t.text, stringType := t.stringType, isGlobal := false }] := by
  unfold addTextStep assigned; unfold keyOf at h ⊢; simp [h]

/-- Numbering: the n-th new text of a script is `<script>_Text_<n>`; only that script's counter moves. -/
theorem numbering (s : PState) (t : ImpText) (h : s.inlineTextsSet.lookup (keyOf t) = none) :
    assigned s t = getImplicitTextLabel t.scriptName (lookupD s.inlineTextCounts t.scriptName) ∧
    lookupD (addTextStep s t).inlineTextCounts t.scriptName = lookupD s.inlineTextCounts t.scriptName + 1 ∧
    ∀ other, other ≠ t.scriptName →
      lookupD (addTextStep s t).inlineTextCounts other = lookupD s.inlineTextCounts other := by
  unfold keyOf at h
  refine ⟨by simp [assigned, keyOf, h], ?_, ?_⟩
  · simp [addTextStep, h, lookupD, setCount, List.lookup]
  · intro other hne
    simp only [addTextStep, h, lookupD, setCount, List.lookup]
    have : (other == t.scriptName) = false := by simpa using hne
    simp only [this]
    congr 1
    induction s.inlineTextCounts with
    | nil => rfl
    | cons e r ih =>
      simp only [List.filter_cons]
      by_cases he : e.1 = t.scriptName
      · simp [he, List.lookup, this, ih]
      · have : (e.1 != t.scriptName) = true := by simpa using he
        simp only [this, if_true, List.lookup]
        split <;> simp_all

theorem label_format : getImplicitTextLabel "Script" 3 = "Script_Text_3" ∧
    getImplicitMovementLabel "Script" 0 = "Script_Movement_0" ∧
    Facts.textLabelFmt = "%s_Text_%d" ∧ Facts.movementLabelFmt = "%s_Movement_%d" := by decide

end Pory.C06
