import PoryModel.Compile
/-
C13 — using a constant is the same as writing its value.

Proved about the substitution primitive of the parser model:
* `tryReplaceWithConstant` returns the recorded value of a defined constant and the token's own
  literal otherwise, and never changes the parser state (`replace_defined`, `replace_undefined`);
* a constant's value is stored already expanded: `sbAdd` joins the (substituted) value tokens
  with single spaces, so a constant defined from constants holds the fully expanded text
  (`sbAdd_spec`), and a multi-token constant contains a space — which is exactly the test the
  `value(...)` form uses to decide on parentheses (`multi_token_has_space`, finding F19);
* definitions are only ever added in front of the table: an earlier definition is never
  overwritten (redefinition is rejected before the table is touched — C20).
Partial: that *every* documented use site calls the primitive and the non-sites do not is
checked by correspondence and by the metamorphic oracle `oracle_C13_group` (compile with
constants vs. compile the hand-expanded program; non-sites; redefinition).
-/
namespace Pory.C13
open Pory Pory.Parser

theorem replace_defined (s : PState) (name value : String) (h : s.constants.lookup name = some value) :
    (tryReplaceWithConstant name).run s = .ok (value, s) := by
  simp [tryReplaceWithConstant, bind, StateT.bind, StateT.run, get, getThe, MonadStateOf.get, StateT.get, pure,
    StateT.pure, Except.pure, Except.bind, h]

theorem replace_undefined (s : PState) (name : String) (h : s.constants.lookup name = none) :
    (tryReplaceWithConstant name).run s = .ok (name, s) := by
  simp [tryReplaceWithConstant, bind, StateT.bind, StateT.run, get, getThe, MonadStateOf.get, StateT.get, pure,
    StateT.pure, Except.pure, Except.bind, h]

theorem sbAdd_spec (acc x : String) :
    sbAdd acc x = if acc.isEmpty then x else acc ++ " " ++ x := by
  unfold sbAdd; split <;> simp_all

theorem multi_token_has_space (a b : String) (ha : a.isEmpty = false) :
    (sbAdd a b).toList.contains ' ' = true := by
  simp [sbAdd, ha, String.toList_append]

/-- A definition is added in front of the table and never overwrites an older one: looking up a
different name is unaffected. -/
theorem define_keeps_others (consts : List (String × String)) (n v other : String) (h : other ≠ n) :
    ((n, v) :: consts).lookup other = consts.lookup other := by
  have : (other == n) = false := by simpa using h
  simp [List.lookup, this]

example : sbAdd (sbAdd "" "BASE") "+" = "BASE +" := by decide

end Pory.C13
