import PoryProofs.PorySelectMore
import PoryProofs.EmitIds
/-
C12 (statement position): "Compiling a program equals compiling the same program with every poryswitch
replaced by the content of the case that matches the `-s` value, or of `_` when none matches."

For text / movement / mart positions this is C12b / C14b (on the parser). For STATEMENT position the reference
elaboration of P1 (`StmtG.elabE`, = the parser on printed blocks by `P1.parse_block_elab`) makes it a
statement about a pure function; this file proves it for `elabE`.

DEFINITIONS (PoryProofs/PorySelect.lean)
* `selectB env b : Option (List SStmt)` — every statement-level poryswitch replaced, recursively (inside the
  selected case and inside `if` / `elif` / `else` / `while` / `do` / `switch` bodies), by the statements of the
  selected case (newest case whose key is the `-s` value, else newest `_`); `none` when a poryswitch has no
  selected case (no `-s` switches / switch undefined / no matching key and no `_`, environment errors on;
  with environment errors off such a poryswitch becomes the empty list).
* `ContLast b'` (decidable) — every `continue` of `b'` is directly followed by a `}` (the parser's own rule,
  `elabS … (.cont t)`), see the finding below.
* `Ren` = a correspondence of command ids (`R.c new old`) and of scope ids (`R.s new old`);
  `RelL R stmts' stmts` / `relImp R imp' imp` — the same statements (shape, tokens, names, arguments,
  conditions, case values) / the same implicit texts and movements (argument position, text, type, script
  name, steps), where `Cmd.id` (also of the preamble command of an auto-var condition) and
  `ImpText.cmdId` / `ImpMovement.cmdId` correspond under `R.c` and every `sid` (of `while` / `do` / `switch`
  and of the `break` / `continue` that name them) under `R.s`.
* `SameUpToIds c c'' c' stmts' imp' stmts imp` — `∃ R`, both correspondences ORDER PRESERVING (`Mono`: hence
  functional and injective), the identity below the counters of the entry context `c`, relating otherwise only
  ids handed out by the two elaborations (new run: `[c.next…, c''.next…)`, original: `[c.next…, c'.next…)`),
  every id below the final counters of the new run having a partner, with
  `RelL R stmts' stmts ∧ relImp R imp' imp`.

PROVED
* `elab_poryswitch_selected` (main): `CtxWF c` (the stacks name scope ids below `c.nextSid` — true of every
  parser state: the stacks are empty at a script body), `elabE env sn c b = .ok (stmts, imp, c')` ⟹
  `selectB env b = some b'` and, when `ContLast b'`, `elabE env sn c b' = .ok (stmts', imp', c'')` with
  `SameUpToIds …`, the same stacks / constants, and `c''.nextSid ≤ c'.nextSid`, `c''.nextCmdId ≤ c'.nextCmdId`
  (the gaps: the ids the unselected cases consumed).
* `elab_poryswitch_selected_fn`: the same with renumbering FUNCTIONS: `∃ f g : Nat → Nat`, strictly increasing
  on all ids below the final counters of the new run (`StrictMonoBelow`), the identity below the entry
  counters, sending the ids handed out by the new run into those handed out by the original run,
  `mapL f g stmts' = stmts` and `mapImp f imp' = imp`.
* `elab_ok_contLast`: `elabE env sn c b' = .ok _ → ContLast b'` (for EVERY block): so in the main theorem the
  side condition is exactly "`b'` elaborates": `elab_poryswitch_selected_iff`.
* `elabS_pory`: the per-poryswitch equation (result of a poryswitch statement = entry of the table of ALL
  elaborated cases selected by the `-s` value; counters = after all cases).
* FINDING (`splice_continue_rejected`, `elab_poryswitch_selected_full_false`): the statement WITHOUT the side
  condition is FALSE. `while { poryswitch (V) { A { continue } } foo }` with `-s V=A` compiles (the `continue`
  is followed by the `}` of its case), while the same program with the poryswitch replaced by the selected
  case, `while { continue foo }`, is rejected: "'continue' must be the last statement in block scope".
  (Source-level substitution and poryswitch are not interchangeable for a trailing `continue`. Checked
  against the Go binary built from /repo: the first source compiles with `-s V=A`, the second is rejected
  with exactly this message.)
* `selected_may_succeed_alone` (the F18 direction): `poryswitch (V) { A: break  _: foo }` with `-s V=B` is
  rejected ("'break' statement outside of any break-able scope", in the case that is NOT selected) although
  the selected program `foo` compiles; `selected_may_succeed_alone_continue`: `while { poryswitch (V) { A:
  continue  B: foo } }` with `-s V=A` is rejected (the `continue` of a `key :` case that is followed by
  another key) although the selected program `while { continue }` compiles.

* THROUGH THE EMITTER (stretch 3; PoryProofs/EmitIds.lean):
  `emit_ids_irrelevant`: for an order-preserving correspondence `R` (`Mono R.c`, `Mono R.s`), two scripts with
  the same name and scope whose bodies are `RelL R`, emitted with patch lists that correspond under `R.c`
  (`All2 (relPatch R)`: same argument positions and labels, corresponding command ids), give the same
  `Emit.emitScript` result — the same lines or the same error; for all options (optimised or not, with or
  without line markers) and text labels. Proof: a simulation through `PoryModel/Emitter.lean` (`RelWS`:
  counters equal, chunk tables related chunk by chunk — ids, return ids, branch structure equal, statements
  `RelL R` —, the `brk` / `cont` lists keyed by `R.s`-related scope ids; preserved by `splitBool`,
  `createIf`, `splitElifs`, `createWhile`, `createDoWhile`, `createSwitch`, `processChunk`, `runWorklist`;
  `stmtsSize` is id-independent) and `PoryModel/EmitRender.lean` (`optimizeChunkOrder` never reads a statement;
  `patchedArgs` reads ids only through `p.1.1 == c.id`, equal on both sides because `R.c` is functional and
  injective).
  `rel_addImp`: `addImplicitData` on corresponding implicit data gives the same parser state except for
  corresponding patch lists.
  `compile_poryswitch_selected`: for one script body: original and selected body give the same parser state
  after `addImplicitData` (up to the renumbered patches) and the same `emitScript` result.

Nothing is partial, but note the scope: one script body (`elabE` = the parser on a printed `{ … }` block by
P1, for the grammar covered by P1), one `emitScript` call; the whole-program corollary (all scripts, the text
/ movement / mart positions of C12b / C14b, the lexer) is not assembled here.
-/
namespace Pory.C12c
open Pory Pory.Parser Pory.C02P Pory.C10b Pory.SwitchParse Pory.StmtG
open Pory.C14b (swVal)
open Pory.C10c

/-! ### the statement -/

/-- The stacks of the context name scope ids that were handed out before. -/
def CtxWF (c : Ctx) : Prop :=
  (∀ n ∈ c.breakStack, n < c.nextSid) ∧ (∀ n ∈ c.continueStack, n < c.nextSid)

/-- `stmts', imp'` (elaborated from `c` to `c''`) are `stmts, imp` (elaborated from `c` to `c'`) up to an
order-preserving renumbering of the command ids and scope ids handed out by the two elaborations. -/
def SameUpToIds (c c'' c' : Ctx) (stmts' : List Stmt) (imp' : ImpData) (stmts : List Stmt) (imp : ImpData) :
    Prop :=
  ∃ R : Ren, Mono R.c ∧ Mono R.s ∧
    (∀ n, n < c.nextCmdId → R.c n n) ∧ (∀ n, n < c.nextSid → R.s n n) ∧
    (∀ n o, R.c n o → (n < c.nextCmdId ∧ o = n) ∨
      (c.nextCmdId ≤ n ∧ n < c''.nextCmdId ∧ c.nextCmdId ≤ o ∧ o < c'.nextCmdId)) ∧
    (∀ n o, R.s n o → (n < c.nextSid ∧ o = n) ∨
      (c.nextSid ≤ n ∧ n < c''.nextSid ∧ c.nextSid ≤ o ∧ o < c'.nextSid)) ∧
    (∀ n, n < c''.nextCmdId → ∃ o, R.c n o) ∧ (∀ n, n < c''.nextSid → ∃ o, R.s n o) ∧
    RelL R stmts' stmts ∧ relImp R imp' imp

/-- The identity below the two counters. -/
def Ren.idBelow (s c : Nat) : Ren := { c := fun n o => n = o ∧ n < c, s := fun n o => n = o ∧ n < s }

theorem Ren.idBelow_inv (s c : Nat) : (Ren.idBelow s c).Inv ⟨s, c, s, c⟩ := by
  refine ⟨?_, ?_, ?_, ?_, fun n hn => ⟨n, rfl, hn⟩, fun n hn => ⟨n, rfl, hn⟩⟩
  · intro n o n2 o2 h1 h2; obtain ⟨rfl, _⟩ := h1; obtain ⟨rfl, _⟩ := h2; exact Iff.rfl
  · intro n o n2 o2 h1 h2; obtain ⟨rfl, _⟩ := h1; obtain ⟨rfl, _⟩ := h2; exact Iff.rfl
  · intro n o h; obtain ⟨rfl, h⟩ := h; exact ⟨h, h⟩
  · intro n o h; obtain ⟨rfl, h⟩ := h; exact ⟨h, h⟩

theorem all2_idBelow (s c : Nat) : ∀ (l : List Nat), (∀ n ∈ l, n < s) → All2 (Ren.idBelow s c).s l l
  | [], _ => trivial
  | x :: r, h =>
    ⟨⟨rfl, h x (List.mem_cons_self ..)⟩, all2_idBelow s c r (fun n hn => h n (List.mem_cons_of_mem _ hn))⟩

/-- **C12c, main theorem.** -/
theorem elab_poryswitch_selected {env : Env} {sn : String} {c : Ctx} {b : List SStmt} {stmts : List Stmt}
    {imp : ImpData} {c' : Ctx} (hwf : CtxWF c) (h : elabE env sn c b = .ok (stmts, imp, c')) :
    ∃ b', selectB env b = some b' ∧
      (ContLast b' →
        ∃ stmts' imp' c'', elabE env sn c b' = .ok (stmts', imp', c'') ∧
          SameUpToIds c c'' c' stmts' imp' stmts imp ∧
          c''.nextSid ≤ c'.nextSid ∧ c''.nextCmdId ≤ c'.nextCmdId ∧
          c''.breakStack = c'.breakStack ∧ c''.continueStack = c'.continueStack ∧ c''.consts = c'.consts) := by
  unfold elabE at h
  cases hl : elabL env sn (substC c.consts) c.breakStack c.continueStack true b c.nextSid c.nextCmdId with
  | error e => simp [hl] at h
  | ok q =>
    obtain ⟨a, m, s1, c1⟩ := q
    simp only [hl, Except.ok.injEq, Prod.mk.injEq] at h
    obtain ⟨rfl, rfl, rfl⟩ := h
    obtain ⟨l1, l2, bs, hsel, hg⟩ := selL_ok env sn (substC c.consts) b _ _ _ _ _ _ _ _ _ hl
    refine ⟨bs, hsel, fun hcl => ?_⟩
    obtain ⟨a', m', s1', c1', R, e, le, inv, ra, rm⟩ :=
      hg true hcl c.breakStack c.continueStack c.nextSid c.nextCmdId (Ren.idBelow c.nextSid c.nextCmdId)
        (Ren.idBelow_inv _ _) (all2_idBelow _ _ _ hwf.1) (all2_idBelow _ _ _ hwf.2)
    simp only at e
    have hgs := le.gs
    have hgc := le.gc
    simp only at hgs hgc
    refine ⟨a', m', { c with nextSid := s1', nextCmdId := c1' }, ?_, ⟨R, inv.cm, inv.sm, ?_, ?_, ?_, ?_, inv.ct, inv.st, ra, rm⟩,
      by simp only; omega, by simp only; omega, rfl, rfl, rfl⟩
    · unfold elabE; simp only [e]
    · intro n hn; exact le.csub _ _ ⟨rfl, hn⟩
    · intro n hn; exact le.ssub _ _ ⟨rfl, hn⟩
    · intro n o hr
      have hb := inv.cb n o hr
      rcases le.cnew n o hr with ⟨rfl, h0⟩ | h0
      · exact .inl ⟨h0, rfl⟩
      · simp only at h0 hb ⊢; right; omega
    · intro n o hr
      have hb := inv.sb n o hr
      rcases le.snew n o hr with ⟨rfl, h0⟩ | h0
      · exact .inl ⟨h0, rfl⟩
      · simp only at h0 hb ⊢; right; omega

/-- `f` is strictly increasing on the ids below `hi`. -/
def StrictMonoBelow (f : Nat → Nat) (hi : Nat) : Prop := ∀ n n2, n < n2 → n2 < hi → f n < f n2

/-- From a correspondence to renumbering functions. -/
theorem SameUpToIds.fn {c c'' c' : Ctx} {stmts' : List Stmt} {imp' : ImpData} {stmts : List Stmt}
    {imp : ImpData} (h : SameUpToIds c c'' c' stmts' imp' stmts imp) :
    ∃ f g : Nat → Nat, mapL f g stmts' = stmts ∧ mapImp f imp' = imp ∧
      (∀ n, n < c.nextCmdId → f n = n) ∧ (∀ n, n < c.nextSid → g n = n) ∧
      StrictMonoBelow f c''.nextCmdId ∧ StrictMonoBelow g c''.nextSid ∧
      (∀ n, c.nextCmdId ≤ n → n < c''.nextCmdId → c.nextCmdId ≤ f n ∧ f n < c'.nextCmdId) ∧
      (∀ n, c.nextSid ≤ n → n < c''.nextSid → c.nextSid ≤ g n ∧ g n < c'.nextSid) := by
  obtain ⟨R, cm, sm, ci, si, cr, sr, ct, st, ra, rm⟩ := h
  have hg := Ren.graph_pick cm sm
  refine ⟨pick R.c, pick R.s, ra.map_eq hg, rm.map_eq hg, fun n hn => hg.1 _ _ (ci n hn),
    fun n hn => hg.2 _ _ (si n hn), ?_, ?_, ?_, ?_⟩
  · intro n n2 hlt hhi
    obtain ⟨o, ho⟩ := ct n (by omega)
    obtain ⟨o2, ho2⟩ := ct n2 hhi
    rw [hg.1 _ _ ho, hg.1 _ _ ho2]
    exact (cm n o n2 o2 ho ho2).1 hlt
  · intro n n2 hlt hhi
    obtain ⟨o, ho⟩ := st n (by omega)
    obtain ⟨o2, ho2⟩ := st n2 hhi
    rw [hg.2 _ _ ho, hg.2 _ _ ho2]
    exact (sm n o n2 o2 ho ho2).1 hlt
  · intro n h1 h2
    obtain ⟨o, ho⟩ := ct n h2
    rw [hg.1 _ _ ho]
    rcases cr n o ho with h | h <;> omega
  · intro n h1 h2
    obtain ⟨o, ho⟩ := st n h2
    rw [hg.2 _ _ ho]
    rcases sr n o ho with h | h <;> omega

/-- **C12c with renumbering functions**: `stmts = mapL f g stmts'`, `imp = mapImp f imp'` for strictly
increasing `f` (command ids) and `g` (scope ids) that fix the ids below the entry counters and send the ids
handed out by the elaboration of the selected block into those handed out by the original elaboration. -/
theorem elab_poryswitch_selected_fn {env : Env} {sn : String} {c : Ctx} {b : List SStmt} {stmts : List Stmt}
    {imp : ImpData} {c' : Ctx} (hwf : CtxWF c) (h : elabE env sn c b = .ok (stmts, imp, c')) :
    ∃ b', selectB env b = some b' ∧
      (ContLast b' →
        ∃ stmts' imp' c'' f g, elabE env sn c b' = .ok (stmts', imp', c'') ∧
          mapL f g stmts' = stmts ∧ mapImp f imp' = imp ∧
          (∀ n, n < c.nextCmdId → f n = n) ∧ (∀ n, n < c.nextSid → g n = n) ∧
          StrictMonoBelow f c''.nextCmdId ∧ StrictMonoBelow g c''.nextSid ∧
          (∀ n, c.nextCmdId ≤ n → n < c''.nextCmdId → c.nextCmdId ≤ f n ∧ f n < c'.nextCmdId) ∧
          (∀ n, c.nextSid ≤ n → n < c''.nextSid → c.nextSid ≤ g n ∧ g n < c'.nextSid)) := by
  obtain ⟨b', hsel, hrest⟩ := elab_poryswitch_selected hwf h
  refine ⟨b', hsel, fun hcl => ?_⟩
  obtain ⟨stmts', imp', c'', he, hsame, _⟩ := hrest hcl
  obtain ⟨f, g, hfg⟩ := hsame.fn
  exact ⟨stmts', imp', c'', f, g, he, hfg⟩

/-- A block that elaborates obeys the `continue` rule (every block, with or without poryswitch). -/
theorem elab_ok_contLast {env : Env} {sn : String} {c : Ctx} {b : List SStmt}
    {r : List Stmt × ImpData × Ctx} (h : elabE env sn c b = .ok r) : ContLast b := by
  unfold elabE at h
  cases hl : elabL env sn (substC c.consts) c.breakStack c.continueStack true b c.nextSid c.nextCmdId with
  | error e => simp [hl] at h
  | ok q => exact elabL_cl env sn _ b _ _ _ _ _ _ hl

/-- The side condition of the main theorem is exactly "the selected block elaborates". -/
theorem elab_poryswitch_selected_iff {env : Env} {sn : String} {c : Ctx} {b : List SStmt}
    {stmts : List Stmt} {imp : ImpData} {c' : Ctx} (hwf : CtxWF c)
    (h : elabE env sn c b = .ok (stmts, imp, c')) :
    ∃ b', selectB env b = some b' ∧ ((∃ r, elabE env sn c b' = .ok r) ↔ ContLast b') := by
  obtain ⟨b', hsel, hrest⟩ := elab_poryswitch_selected hwf h
  refine ⟨b', hsel, fun ⟨r, hr⟩ => elab_ok_contLast hr, fun hcl => ?_⟩
  obtain ⟨stmts', imp', c'', he, _⟩ := hrest hcl
  exact ⟨_, he⟩

/-- The per-poryswitch equation: ALL cases are elaborated (in source order, from the counters at the
poryswitch), the result is the entry of the table selected by the `-s` value (newest entry for the value, else
newest `_`), the counters are those after ALL cases. -/
theorem elabS_pory (env : Env) (sn : String) (σ : String → String) (B C : List Nat) (nx : Bool)
    (ps lp x rp lb : Tok) (cases : List SPCase) (rb : Tok) (sid cid : Nat)
    (h1 : (env.envErrors && env.switches.isEmpty) = false)
    (h2 : (env.envErrors && (env.switches.lookup x.lit).isNone) = false) :
    elabS env sn σ B C nx (.pory ps lp x rp lb cases rb) sid cid =
      match elabPCases env sn σ B C cases [] sid cid with
      | .error e => .error e
      | .ok (table, sid1, cid1) =>
        match selectCase env table (swVal env x.lit) with
        | some r => .ok (r.1, r.2, sid1, cid1)
        | none =>
          if env.envErrors then .error (noPoryCaseErr ps x (swVal env x.lit)) else .ok ([], {}, sid1, cid1) := by
  rw [elabS, h1, h2]
  simp only [Bool.false_eq_true, if_false]
  rfl

/-! ### through the emitter (stretch 3) -/

theorem all2_refl_of_mem {α : Type} {P : α → α → Prop} : ∀ (l : List α), (∀ a ∈ l, P a a) → All2 P l l
  | [], _ => trivial
  | x :: r, h => ⟨h x (List.mem_cons_self ..), all2_refl_of_mem r (fun a ha => h a (List.mem_cons_of_mem _ ha))⟩

/-- **C12c through the emitter, for one script body.** If the body `b` of script `sn` elaborates, and the
selected body `b'` obeys the `continue` rule, then `b'` elaborates and, from ANY parser state `s` whose
earlier patches belong to earlier commands,
* recording the implicit texts / movements (`addImplicitData`, = `addImp`) of the two elaborations gives the
  same parser state (the same inline texts, movements, label counters, …) except for the patch list, and the
  two patch lists have the same length (they correspond: same argument positions and labels, renumbered
  command ids);
* `Emit.emitScript` gives the SAME RESULT (the same lines, or the same error) for the script with the
  selected body and its patches as for the script with the original body and its patches — for all emitter
  options, text labels, script tokens and scopes. -/
theorem compile_poryswitch_selected {env : Env} {sn : String} {c : Ctx} {b : List SStmt} {stmts : List Stmt}
    {imp : ImpData} {c' : Ctx} (hwf : CtxWF c) (h : elabE env sn c b = .ok (stmts, imp, c')) :
    ∃ b', selectB env b = some b' ∧
      (ContLast b' →
        ∃ stmts' imp' c'', elabE env sn c b' = .ok (stmts', imp', c'') ∧
          ∀ (s : PState), (∀ p ∈ s.patches, p.1.1 < c.nextCmdId) →
            (∃ ps, addImp imp' s = { addImp imp s with patches := ps } ∧
              ps.length = (addImp imp s).patches.length) ∧
            ∀ (o : Emit.Opts) (textLabels : List String) (tok : Tok) (scope : TT),
              Emit.emitScript o (addImp imp' s).patches textLabels
                  { tok := tok, name := sn, body := stmts', scope := scope } =
                Emit.emitScript o (addImp imp s).patches textLabels
                  { tok := tok, name := sn, body := stmts, scope := scope }) := by
  obtain ⟨b', hsel, hrest⟩ := elab_poryswitch_selected hwf h
  refine ⟨b', hsel, fun hcl => ?_⟩
  obtain ⟨stmts', imp', c'', he, hsame, _⟩ := hrest hcl
  refine ⟨stmts', imp', c'', he, fun s hs => ?_⟩
  obtain ⟨R, cm, sm, ci, _, _, _, _, _, ra, rm⟩ := hsame
  have h0 : RelPS R s s :=
    ⟨s.patches, rfl, all2_refl_of_mem _ (fun p hp => ⟨ci _ (hs p hp), rfl, rfl⟩)⟩
  obtain ⟨ps, e, hps⟩ := rel_addImp h0 rm
  refine ⟨⟨ps, e, hps.length_eq⟩, fun o textLabels tok scope => ?_⟩
  refine emit_ids_irrelevant R cm sm o ?_ textLabels rfl rfl ra
  rw [e]
  exact hps

/-! ### the unconditional statement is false; the F18 direction -/

/-- The statement of the task without the `ContLast` side condition. -/
def elab_poryswitch_selected_full : Prop :=
  ∀ (env : Env) (sn : String) (c : Ctx) (b : List SStmt) (stmts : List Stmt) (imp : ImpData) (c' : Ctx),
    CtxWF c → elabE env sn c b = .ok (stmts, imp, c') →
    ∃ b', selectB env b = some b' ∧
      ∃ stmts' imp' c'', elabE env sn c b' = .ok (stmts', imp', c'') ∧
        SameUpToIds c c'' c' stmts' imp' stmts imp

theorem ctxWF_of_empty {c : Ctx} (h1 : c.breakStack = []) (h2 : c.continueStack = []) : CtxWF c := by
  simp [CtxWF, h1, h2]

section Example

private def lp : Tok := tk .LPAREN "("
private def rp : Tok := tk .RPAREN ")"
private def lb : Tok := tk .LBRACE "{"
private def rb : Tok := tk .RBRACE "}"
private def colon : Tok := tk .COLON ":"
private def z : Nat → TPos := fun _ => {}
private def cond (lf : Leaf) : SCond := .plain (.one (.one (.leaf lf)))
private def cmdS (id : Nat) (name : String) : Stmt :=
  .cmd { id := id, tok := tk .IDENT name, name := name, args := [] }
private def pory (x : String) (cases : List SPCase) : SStmt :=
  .pory (tk .PORYSWITCH "poryswitch") lp (tk .IDENT x) rp lb cases rb

/-- compile with `-s V=v` -/
def exEnv (v : String) : Env := { switches := [("V", v)] }

/-- `while { poryswitch (V) { A { continue } } foo }` -/
def exCont : List SStmt :=
  [.whileInf (tk .WHILE "while") lb
    [pory "V" [.brace (tk .IDENT "A") lb [.cont (tk .CONTINUE "continue")] rb], .cmd0 (tk .IDENT "foo")] rb]

/-- `while { continue foo }` -/
def exContSel : List SStmt :=
  [.whileInf (tk .WHILE "while") lb [.cont (tk .CONTINUE "continue"), .cmd0 (tk .IDENT "foo")] rb]

#guard (Lexer.lexAll "while { poryswitch (V) { A { continue } } foo } }".toList).map (fun t => (t.type, t.lit)) ==
  (printStmts exCont ++ [rb, tk .EOF ""]).map (fun t => (t.type, t.lit))

/-- **Finding.** With `-s V=A`, `while { poryswitch (V) { A { continue } } foo }` compiles (to `continue`, `foo`
inside the loop; the `continue` is followed by the `}` of its case), but the program with the poryswitch
replaced by its selected case, `while { continue foo }`, is rejected. -/
theorem splice_continue_rejected :
    elabE (exEnv "A") "S" {} exCont =
      .ok ([.while_ (tk .WHILE "while") 0 none [.cont (tk .CONTINUE "continue") 0, cmdS 0 "foo"]], {},
        { nextSid := 1, nextCmdId := 1 }) ∧
    selectB (exEnv "A") exCont = some exContSel ∧
    elabE (exEnv "A") "S" {} exContSel =
      .error (newParseError (tk .CONTINUE "continue") "'continue' must be the last statement in block scope") ∧
    ¬ ContLast exContSel :=
  ⟨rfl, rfl, rfl, by decide⟩

/-- The statement without the side condition is false. -/
theorem elab_poryswitch_selected_full_false : ¬ elab_poryswitch_selected_full := by
  intro H
  obtain ⟨h1, h2, h3, _⟩ := splice_continue_rejected
  obtain ⟨b', hb', stmts', imp', c'', he, _⟩ := H _ _ _ _ _ _ _ (ctxWF_of_empty rfl rfl) h1
  rw [h2] at hb'
  cases hb'
  rw [h3] at he
  cases he

/-- **The F18 direction**: an error inside a case that is NOT selected. `poryswitch (V) { A: break  _: foo }`
with `-s V=B` is rejected although the selected program `foo` compiles. -/
theorem selected_may_succeed_alone :
    let b := [pory "V" [.colon (tk .IDENT "A") colon (.brk (tk .BREAK "break")),
                        .colon (tk .IDENT "_") colon (.cmd0 (tk .IDENT "foo"))]]
    elabE (exEnv "B") "S" {} b =
      .error (newParseError (tk .BREAK "break") "'break' statement outside of any break-able scope") ∧
    selectB (exEnv "B") b = some [.cmd0 (tk .IDENT "foo")] ∧
    elabE (exEnv "B") "S" {} [.cmd0 (tk .IDENT "foo")] = .ok ([cmdS 0 "foo"], {}, { nextCmdId := 1 }) :=
  ⟨rfl, rfl, rfl⟩

/-- … and the same direction through the `continue` rule: `while { poryswitch (V) { A: continue  B: foo } }`
with `-s V=A` is rejected (the `continue` of a `key :` case followed by another key is not followed by `}`)
although the selected program `while { continue }` compiles. -/
theorem selected_may_succeed_alone_continue :
    let b := [.whileInf (tk .WHILE "while") lb
      [pory "V" [.colon (tk .IDENT "A") colon (.cont (tk .CONTINUE "continue")),
                 .colon (tk .IDENT "B") colon (.cmd0 (tk .IDENT "foo"))]] rb]
    let b' := [.whileInf (tk .WHILE "while") lb [.cont (tk .CONTINUE "continue")] rb]
    elabE (exEnv "A") "S" {} b =
      .error (newParseError (tk .CONTINUE "continue") "'continue' must be the last statement in block scope") ∧
    selectB (exEnv "A") b = some b' ∧
    elabE (exEnv "A") "S" {} b' =
      .ok ([.while_ (tk .WHILE "while") 0 none [.cont (tk .CONTINUE "continue") 0]], {}, { nextSid := 1 }) :=
  ⟨rfl, rfl, rfl⟩

/-! ### non-vacuity: `lock poryswitch (V) { A { msgbox("a") while (flag(F)) { x } } B: y _ { z } } release` -/

def exB : List SStmt :=
  [.cmd0 (tk .IDENT "lock"),
   pory "V"
     [.brace (tk .IDENT "A") lb
        [.cmdI (tk .IDENT "msgbox") lp [.str (tk .STRING "a")] [] rp,
         .while_ (tk .WHILE "while") lp (cond (.flagBare z false "F")) rp lb [.cmd0 (tk .IDENT "x")] rb] rb,
      .colon (tk .IDENT "B") colon (.cmd0 (tk .IDENT "y")),
      .brace (tk .IDENT "_") lb [.cmd0 (tk .IDENT "z")] rb],
   .cmd0 (tk .IDENT "release")]

#guard (Lexer.lexAll ("lock poryswitch (V) { A { msgbox(\"a\") while (flag(F)) { x } } B: y _ { z } } " ++
    "release }").toList).map (fun t => (t.type, t.lit)) ==
  (printStmts exB ++ [rb, tk .EOF ""]).map (fun t => (t.type, t.lit))

private def flagF : BoolExpr :=
  .leaf { type := .FLAG, operand := tk .IDENT "F", operator := .EQ, cmpValue := "TRUE" }

/-- `-s V=B`: the original run hands out command ids 0 … 5 and scope id 0 (`lock` 0, `msgbox` 1, the loop 0,
`x` 2, `y` 3, `z` 4, `release` 5) and keeps `lock` 0, `y` 3, `release` 5; the selected block is
`lock y release` with the ids 0, 1, 2. -/
example :
    elabE (exEnv "B") "S" {} exB =
      .ok ([cmdS 0 "lock", cmdS 3 "y", cmdS 5 "release"], {}, { nextSid := 1, nextCmdId := 6 }) ∧
    selectB (exEnv "B") exB =
      some [.cmd0 (tk .IDENT "lock"), .cmd0 (tk .IDENT "y"), .cmd0 (tk .IDENT "release")] ∧
    elabE (exEnv "B") "S" {} [.cmd0 (tk .IDENT "lock"), .cmd0 (tk .IDENT "y"), .cmd0 (tk .IDENT "release")] =
      .ok ([cmdS 0 "lock", cmdS 1 "y", cmdS 2 "release"], {}, { nextCmdId := 3 }) :=
  ⟨rfl, rfl, rfl⟩

/-- `-s V=A`: `lock` 0, `msgbox` 1 (its text recorded for command 1), the loop (scope id 0) with `x` 2,
`release` 5; the selected block gives `release` the id 3. -/
example :
    (∃ imp, elabE (exEnv "A") "S" {} exB =
      .ok ([cmdS 0 "lock", .cmd { id := 1, tok := tk .IDENT "msgbox", name := "msgbox", args := [""] },
            .while_ (tk .WHILE "while") 0 (some flagF) [cmdS 2 "x"], cmdS 5 "release"], imp,
           { nextSid := 1, nextCmdId := 6 }) ∧
      imp.texts.map (fun t => (t.cmdId, t.argPos, t.text.lit)) = [(1, 0, "a$")]) ∧
    (∃ b', selectB (exEnv "A") exB = some b' ∧ ∃ imp', elabE (exEnv "A") "S" {} b' =
      .ok ([cmdS 0 "lock", .cmd { id := 1, tok := tk .IDENT "msgbox", name := "msgbox", args := [""] },
            .while_ (tk .WHILE "while") 0 (some flagF) [cmdS 2 "x"], cmdS 3 "release"], imp',
           { nextSid := 1, nextCmdId := 4 }) ∧
      imp'.texts.map (fun t => (t.cmdId, t.argPos, t.text.lit)) = [(1, 0, "a$")]) :=
  ⟨⟨_, rfl, by decide⟩, _, rfl, _, rfl, by decide⟩

/-- `-s V=ZZ` (no case `ZZ`: the `_` case): `lock` 0, `z` 4, `release` 5; selected block: 0, 1, 2 and no scope
id at all. -/
example :
    elabE (exEnv "ZZ") "S" {} exB =
      .ok ([cmdS 0 "lock", cmdS 4 "z", cmdS 5 "release"], {}, { nextSid := 1, nextCmdId := 6 }) ∧
    selectB (exEnv "ZZ") exB =
      some [.cmd0 (tk .IDENT "lock"), .cmd0 (tk .IDENT "z"), .cmd0 (tk .IDENT "release")] ∧
    elabE (exEnv "ZZ") "S" {} [.cmd0 (tk .IDENT "lock"), .cmd0 (tk .IDENT "z"), .cmd0 (tk .IDENT "release")] =
      .ok ([cmdS 0 "lock", cmdS 1 "z", cmdS 2 "release"], {}, { nextCmdId := 3 }) :=
  ⟨rfl, rfl, rfl⟩

/-- the selected block for `-s V=A`: `lock msgbox("a") while (flag(F)) { x } release` -/
def exBselA : List SStmt :=
  [.cmd0 (tk .IDENT "lock"),
   .cmdI (tk .IDENT "msgbox") lp [.str (tk .STRING "a")] [] rp,
   .while_ (tk .WHILE "while") lp (cond (.flagBare z false "F")) rp lb [.cmd0 (tk .IDENT "x")] rb,
   .cmd0 (tk .IDENT "release")]

/-- a context inside a loop with scope id 2, after 10 command ids and 3 scope ids -/
def exCtx : Ctx := { nextSid := 3, nextCmdId := 10, breakStack := [2], continueStack := [2] }

/-- The main theorem instantiated (`-s V=A`, from `exCtx`): its hypotheses hold, the side condition holds, and
the renumbering it gives sends `release` 13 ↦ 15 and fixes `x` 12 and the loop's scope id 3. -/
example :
    ∃ stmts' imp' c'' f g, selectB (exEnv "A") exB = some exBselA ∧ ContLast exBselA ∧
        elabE (exEnv "A") "S" exCtx exBselA = .ok (stmts', imp', c'') ∧
        mapL f g stmts' =
          [cmdS 10 "lock", .cmd { id := 11, tok := tk .IDENT "msgbox", name := "msgbox", args := [""] },
           .while_ (tk .WHILE "while") 3 (some flagF) [cmdS 12 "x"], cmdS 15 "release"] ∧
        c''.nextCmdId = 14 ∧ f 13 = 15 ∧ f 12 = 12 ∧ g 3 = 3 := by
  have hwf : CtxWF exCtx := by unfold CtxWF exCtx; simp
  have h : ∃ imp, elabE (exEnv "A") "S" exCtx exB =
      .ok ([cmdS 10 "lock", .cmd { id := 11, tok := tk .IDENT "msgbox", name := "msgbox", args := [""] },
           .while_ (tk .WHILE "while") 3 (some flagF) [cmdS 12 "x"], cmdS 15 "release"], imp,
           { exCtx with nextSid := 4, nextCmdId := 16 }) := ⟨_, rfl⟩
  obtain ⟨imp, h⟩ := h
  obtain ⟨b', hsel, hrest⟩ := elab_poryswitch_selected_fn hwf h
  have hsel2 : selectB (exEnv "A") exB = some exBselA := rfl
  have hb' : b' = exBselA := by
    rw [hsel2] at hsel
    exact (Option.some.inj hsel).symm
  subst hb'
  have hcl : ContLast exBselA := by decide
  obtain ⟨stmts', imp', c'', f, g, he, hm, _, _, _, _, _, _, _⟩ := hrest hcl
  have he2 : ∃ imp2, elabE (exEnv "A") "S" exCtx exBselA =
      .ok ([cmdS 10 "lock", .cmd { id := 11, tok := tk .IDENT "msgbox", name := "msgbox", args := [""] },
           .while_ (tk .WHILE "while") 3 (some flagF) [cmdS 12 "x"], cmdS 13 "release"], imp2,
           { exCtx with nextSid := 4, nextCmdId := 14 }) := ⟨_, rfl⟩
  obtain ⟨imp2, he2⟩ := he2
  rw [he2] at he
  simp only [Except.ok.injEq, Prod.mk.injEq] at he
  obtain ⟨rfl, rfl, rfl⟩ := he
  refine ⟨_, _, _, f, g, hsel2, hcl, he2, hm, rfl, ?_, ?_, ?_⟩
  · simp only [mapL, mapS, mapCmd, cmdS, List.cons.injEq, Stmt.cmd.injEq, Cmd.mk.injEq] at hm
    exact hm.2.2.2.1.1
  · simp only [mapL, mapS, mapCmd, cmdS, List.cons.injEq, Stmt.cmd.injEq, Cmd.mk.injEq, Stmt.while_.injEq] at hm
    exact hm.2.2.1.2.2.2.1.1
  · simp only [mapL, mapS, mapCmd, cmdS, List.cons.injEq, Stmt.cmd.injEq, Cmd.mk.injEq, Stmt.while_.injEq] at hm
    exact hm.2.2.1.2.1

/-! ### non-vacuity through the emitter:
`poryswitch (V) { B { while (flag(G)) { y } } A { msgbox("a") while (flag(F)) { x break } } } release`, `-s V=A` -/

def exE : List SStmt :=
  [pory "V"
     [.brace (tk .IDENT "B") lb
        [.while_ (tk .WHILE "while") lp (cond (.flagBare z false "G")) rp lb [.cmd0 (tk .IDENT "y")] rb] rb,
      .brace (tk .IDENT "A") lb
        [.cmdI (tk .IDENT "msgbox") lp [.str (tk .STRING "a")] [] rp,
         .while_ (tk .WHILE "while") lp (cond (.flagBare z false "F")) rp lb
           [.cmd0 (tk .IDENT "x"), .brk (tk .BREAK "break")] rb] rb],
   .cmd0 (tk .IDENT "release")]

/-- `msgbox("a") while (flag(F)) { x break } release` -/
def exEsel : List SStmt :=
  [.cmdI (tk .IDENT "msgbox") lp [.str (tk .STRING "a")] [] rp,
   .while_ (tk .WHILE "while") lp (cond (.flagBare z false "F")) rp lb
     [.cmd0 (tk .IDENT "x"), .brk (tk .BREAK "break")] rb,
   .cmd0 (tk .IDENT "release")]

#guard (Lexer.lexAll ("poryswitch (V) { B { while (flag(G)) { y } } A { msgbox(\"a\") while (flag(F)) { x break } } } " ++
    "release }").toList).map (fun t => (t.type, t.lit)) ==
  (printStmts exE ++ [rb, tk .EOF ""]).map (fun t => (t.type, t.lit))

/-- a parser state without patches -/
def exS0 : PState := { toks := [], eof := tk .EOF "" }

/-- The original elaboration numbers `msgbox` 1, the loop 1, `x` 2, `release` 3 (case `B` took command id 0 and
scope id 0) and records the patch `((1, 0), "S_Text_0")`; the selected block numbers them 0, 0, 1, 2 and
records `((0, 0), "S_Text_0")`; the emitted lines are the same (`compile_poryswitch_selected`). -/
example :
    ∃ stmts imp c' stmts' imp' c'',
      elabE (exEnv "A") "S" {} exE = .ok (stmts, imp, c') ∧ selectB (exEnv "A") exE = some exEsel ∧
      ContLast exEsel ∧ elabE (exEnv "A") "S" {} exEsel = .ok (stmts', imp', c'') ∧
      stmts = [.cmd { id := 1, tok := tk .IDENT "msgbox", name := "msgbox", args := [""] },
               .while_ (tk .WHILE "while") 1 (some flagF) [cmdS 2 "x", .brk (tk .BREAK "break") 1],
               cmdS 3 "release"] ∧
      stmts' = [.cmd { id := 0, tok := tk .IDENT "msgbox", name := "msgbox", args := [""] },
               .while_ (tk .WHILE "while") 0 (some flagF) [cmdS 1 "x", .brk (tk .BREAK "break") 0],
               cmdS 2 "release"] ∧
      (addImp imp exS0).patches = [((1, 0), "S_Text_0")] ∧
      (addImp imp' exS0).patches = [((0, 0), "S_Text_0")] ∧
      (addImp imp' exS0).inlineTexts = (addImp imp exS0).inlineTexts ∧
      ∀ (o : Emit.Opts) (textLabels : List String) (tok : Tok) (scope : TT),
        Emit.emitScript o (addImp imp' exS0).patches textLabels
            { tok := tok, name := "S", body := stmts', scope := scope } =
          Emit.emitScript o (addImp imp exS0).patches textLabels
            { tok := tok, name := "S", body := stmts, scope := scope } := by
  have h : ∃ stmts imp c', elabE (exEnv "A") "S" {} exE = .ok (stmts, imp, c') ∧
      stmts = [.cmd { id := 1, tok := tk .IDENT "msgbox", name := "msgbox", args := [""] },
               .while_ (tk .WHILE "while") 1 (some flagF) [cmdS 2 "x", .brk (tk .BREAK "break") 1],
               cmdS 3 "release"] ∧
      (addImp imp exS0).patches = [((1, 0), "S_Text_0")] := ⟨_, _, _, rfl, rfl, by decide⟩
  obtain ⟨stmts, imp, c', h, hst, hp⟩ := h
  obtain ⟨b', hsel, hrest⟩ := compile_poryswitch_selected (ctxWF_of_empty rfl rfl) h
  have hsel2 : selectB (exEnv "A") exE = some exEsel := rfl
  have hb' : b' = exEsel := by
    rw [hsel2] at hsel
    exact (Option.some.inj hsel).symm
  subst hb'
  have hcl : ContLast exEsel := by decide
  obtain ⟨stmts', imp', c'', he, hemit⟩ := hrest hcl
  have he2 : ∃ imp2 c2, elabE (exEnv "A") "S" {} exEsel =
      .ok ([.cmd { id := 0, tok := tk .IDENT "msgbox", name := "msgbox", args := [""] },
               .while_ (tk .WHILE "while") 0 (some flagF) [cmdS 1 "x", .brk (tk .BREAK "break") 0],
               cmdS 2 "release"], imp2, c2) ∧
      (addImp imp2 exS0).patches = [((0, 0), "S_Text_0")] := ⟨_, _, rfl, by decide⟩
  obtain ⟨imp2, c2, he2, hp2⟩ := he2
  rw [he2] at he
  simp only [Except.ok.injEq, Prod.mk.injEq] at he
  obtain ⟨rfl, rfl, rfl⟩ := he
  obtain ⟨⟨ps, hps, _⟩, hem⟩ := hemit exS0 (fun p hp => nomatch hp)
  exact ⟨_, _, _, _, _, _, h, hsel2, hcl, he2, hst, rfl, hp, hp2, by rw [hps], hem⟩

/-- … and these are the lines (unoptimised chunk order), for the original and for the selected body. -/
example :
    ∃ stmts imp c' stmts' imp' c'',
      elabE (exEnv "A") "S" {} exE = .ok (stmts, imp, c') ∧
      elabE (exEnv "A") "S" {} exEsel = .ok (stmts', imp', c'') ∧
      (Emit.emitScript { optimize := false } (addImp imp exS0).patches [] { name := "S", body := stmts }).toOption =
        some [.labelDef "S" true, .command "msgbox" ["S_Text_0"], .goto_ "S_2", .blank,
              .labelDef "S_1" false, .command "release" [], .terminator false, .blank,
              .labelDef "S_2" false, .goto_ "S_4", .blank,
              .labelDef "S_3" false, .command "x" [], .goto_ "S_1", .blank,
              .labelDef "S_4" false, .gotoIfSet "F" "S_3", .goto_ "S_1", .blank] ∧
      (Emit.emitScript { optimize := false } (addImp imp' exS0).patches [] { name := "S", body := stmts' }).toOption =
        some [.labelDef "S" true, .command "msgbox" ["S_Text_0"], .goto_ "S_2", .blank,
              .labelDef "S_1" false, .command "release" [], .terminator false, .blank,
              .labelDef "S_2" false, .goto_ "S_4", .blank,
              .labelDef "S_3" false, .command "x" [], .goto_ "S_1", .blank,
              .labelDef "S_4" false, .gotoIfSet "F" "S_3", .goto_ "S_1", .blank] :=
  ⟨_, _, _, _, _, _, rfl, rfl, by decide, by decide⟩

/-- `elab_ok_contLast` / `elab_poryswitch_selected_iff` on the example: the selected block elaborates, hence
obeys the `continue` rule. -/
example : ContLast exBselA :=
  elab_ok_contLast (env := exEnv "A") (sn := "S") (c := exCtx) (r := _) rfl

example : ∃ b', selectB (exEnv "A") exB = some b' ∧ ((∃ r, elabE (exEnv "A") "S" {} b' = .ok r) ↔ ContLast b') :=
  elab_poryswitch_selected_iff (ctxWF_of_empty rfl rfl) (stmts := _) (imp := _) (c' := _) rfl

/-- `elabS_pory` on the poryswitch of the example (`-s V=B`): the table has the three cases (newest first),
the counters are those after all of them. -/
example :
    elabS (exEnv "B") "S" id [] [] false
        (pory "V"
          [.brace (tk .IDENT "A") lb
             [.cmdI (tk .IDENT "msgbox") lp [.str (tk .STRING "a")] [] rp,
              .while_ (tk .WHILE "while") lp (cond (.flagBare z false "F")) rp lb [.cmd0 (tk .IDENT "x")] rb] rb,
           .colon (tk .IDENT "B") colon (.cmd0 (tk .IDENT "y")),
           .brace (tk .IDENT "_") lb [.cmd0 (tk .IDENT "z")] rb]) 0 1 =
      .ok ([cmdS 3 "y"], {}, 1, 5) := by
  unfold pory
  rw [elabS_pory _ _ _ _ _ _ _ _ _ _ _ _ _ _ _ rfl rfl]
  rfl

end Example

#print axioms elab_poryswitch_selected
#print axioms emit_ids_irrelevant
#print axioms compile_poryswitch_selected
#print axioms elab_poryswitch_selected_fn
#print axioms elab_poryswitch_selected_iff
#print axioms elab_ok_contLast
#print axioms elabS_pory
#print axioms splice_continue_rejected
#print axioms elab_poryswitch_selected_full_false
#print axioms selected_may_succeed_alone
#print axioms selected_may_succeed_alone_continue

end Pory.C12c
