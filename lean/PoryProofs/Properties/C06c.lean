import PoryProofs.HoistFrame
import PoryProofs.HoistModel
import PoryProofs.HoistIds2
/-
C06c — hoisting of inline texts and `moves()`, closing the chain of C06 / C06b: the hoisting invariants
hold for the final state of EVERY parse, hence the label ↔ content correspondence holds for every parsed
program.  Helper modules: PoryProofs/HoistFrame.lean (frame over the 13 statement functions),
PoryProofs/HoistModel.lean (closed form of the tables), PoryProofs/HoistIds.lean + HoistIds2.lean
(command ids).  Everything is proved in full; nothing is `_partial`.

1. Frame.  `hoist_frame` (`KHAll n` for every fuel `n`): each of the 13 mutually recursive statement
   functions — and so every parser function they call — leaves `inlineTexts`, `inlineTextsSet`,
   `inlineTextCounts`, `inlineMovements`, `inlineMovementsSet`, `inlineMovementCounts`, `patches` and
   `textStatements` unchanged (`block_hoist_frame`: field by field for `parseBlockStatement`); the same for
   `parseScriptStatement`, `parseMapscriptsStatement` (+ its two loops), `parseConstant`
   (HoistFrame.lean); `parseTextStatement` keeps the seven hoisting fields and appends the returned text to
   `textStatements`.  `topLevel_step`: after a top-level statement the state is
   `stepData s₁ (impOfTop env fuel s)` with `hz7 s₁ = hz7 s`, where `impOfTop` is the `ImpData` returned by
   `parseScriptStatement` / `parseMapscriptsStatement` at that state, and `stepData` is the state change of
   `addImplicitData` (`C06b.wp_addImplicitData`).  Hence `topLevel_hoistInv`, `topLoop_hoistInv`,
   `parseProgram_hoistInv` and `parsed_state_hoistInv`: the state in which `parseProgramM` reads
   `inlineTexts`, `inlineMovements`, `patches` satisfies `C06b.HoistInv`, for every successful
   `parseTokens`.

2. Closed form.  `history env fuel n s` = the implicit data of the top-level statements the loop parses, in
   order; `collected env toks` = the history of `parseTokens env toks`; `inlineTextsOf` / `inlineMovesOf` /
   `inlineItemsOf` = its texts / movements / items (per statement: texts, then movements).
   `parseTokens_model`: the final state satisfies `HoistModel.Model` for them, i.e.
   `inlineTexts = hoistedTexts (inlineTextsOf …)`: one record per FIRST occurrence of a
   `(content, string type)` key (`firstOccBy keyOf`), in order of first appearance, record `i` named
   `getImplicitTextLabel owner_i (number of earlier first occurrences with the same owner)`.
   `parsed_program_shape`: `p.texts = hoistedTexts … ++ textsOf tops` (`textsOf tops` = the `text` statements)
   and `p.tops = tops ++ (hoistedMoves …).map .movement`.
   `parsed_texts_bijection` / `parsed_movements_bijection`: names pairwise distinct, keys pairwise distinct,
   keys = keys of the inline items (as sets; in order of first appearance as lists), name `i` =
   `label owner_i ((owners.take i).count owner_i)`, and NO GAPS:
   `label o k ∈ names ↔ k < owners.count o`; all hoisted records are local.

3. Patches.  `parsed_patches_point_to_texts`: `p.patches` corresponds one-to-one, in order, to
   `inlineItemsOf env toks`; patch `i` is for the slot `(cmdId, argPos)` of item `i`, and its label is the
   name of exactly one hoisted text (movement) of `p`, whose value and string type (movement key) are
   those of the item, which is local, and no record of the other kind has that name (`Defines`).
   `parsed_text_labels_iff` / `parsed_move_labels_iff`: two patches carry the same label IFF their items
   have the same content key — identical content shares one label across the whole file, different content
   never shares one; `parsed_text_move_labels_ne`.
   The link to the source text is `impOfTop`: it is literally the `ImpData` the model's
   `parseScriptStatement` returns; P1 (`parse_block_elab`, `parse_script_print`) describes that value for
   programs in the reference syntax.

4. Slots.  Slots are NOT always distinct (finding F21, `C06b.same_slot_last_wins`: two inline items in one
   argument share `(cmdId, argPos)`).  What holds:
   * `command_items_slots`: `parseCommandStatement` takes the id `nextCmdId`, increments the counter by
     exactly one, and every item it collects has that `cmdId`, `argPos < args.length` (the patched slot
     exists) and `scriptName` = the script name passed down;
   * `block_items_ids` (from `idsAll`, HoistIds2.lean: an invariant over the 13 statement functions): no
     statement function decreases `nextCmdId`; the items a block collects have ids in
     `[nextCmdId at entry, nextCmdId at exit)` and are owned by the block's script name;
   * `topLevel_ids`, `history_ids`, `patches_of_distinct_statements_disjoint`: the items of different
     top-level statements have different command ids (later statement ⇒ larger ids); the items of a
     `script` statement are owned by that script's name.
   NOT proved: the AST-level statement "the `Cmd` nodes of a parsed program have pairwise distinct ids and
   every patch's `cmdId` is the id of a `Cmd` node of the program" (needs a traversal of the nested
   `Stmt` type as in TokProvenance*.lean); the per-command and per-block statements above are its
   ingredients.

Observations about the model: (a) all cases of a statement-level `poryswitch` are parsed (each consumes
command ids) but only the selected case's implicit data is kept, so command ids of a parsed program may
have gaps — harmless; (b) a hoisted text keeps the token of the FIRST occurrence of its content
(`hoistedTexts_toks`), a hoisted movement the command token of the first `moves()` with that key; (c) the
owner of a shared record is the script of the first occurrence: in the example below script `B`'s
`"Hi"` is `A_Text_0`, and `B`'s own numbering starts at `B_Text_0` with its first NEW content.
-/
namespace Pory.C06c
open Pory Pory.Parser Pory.Hoist Pory.C06 Pory.C06b Pory.HoistModel

/-! ## 1. Only `addImplicitData` writes the hoisting fields -/

/-- **hoist_frame**: each of the 13 mutually recursive statement functions — and therefore every parser
function they call — leaves `inlineTexts`, `inlineTextsSet`, `inlineTextCounts`, `inlineMovements`,
`inlineMovementsSet`, `inlineMovementCounts`, `patches` (and `textStatements`) unchanged, at every fuel. -/
theorem hoist_frame (n : Nat) : KHAll n := khAll n

/-- The frame, field by field. -/
theorem hz_fields {s s' : PState} (h : hz s' = hz s) :
    s'.inlineTexts = s.inlineTexts ∧ s'.inlineTextsSet = s.inlineTextsSet ∧
    s'.inlineTextCounts = s.inlineTextCounts ∧ s'.inlineMovements = s.inlineMovements ∧
    s'.inlineMovementsSet = s.inlineMovementsSet ∧ s'.inlineMovementCounts = s.inlineMovementCounts ∧
    s'.patches = s.patches ∧ s'.textStatements = s.textStatements := by
  simpa [hz, hz7, and_assoc] using h

theorem hz7_fields {s s' : PState} (h : hz7 s' = hz7 s) :
    s'.inlineTexts = s.inlineTexts ∧ s'.inlineTextsSet = s.inlineTextsSet ∧
    s'.inlineTextCounts = s.inlineTextCounts ∧ s'.inlineMovements = s.inlineMovements ∧
    s'.inlineMovementsSet = s.inlineMovementsSet ∧ s'.inlineMovementCounts = s.inlineMovementCounts ∧
    s'.patches = s.patches := by
  simpa [hz7] using h

/-- `parseBlockStatement` (the body of every script), field by field. -/
theorem block_hoist_frame (env : Env) (sn : String) (tok : Tok) (n : Nat) (acc : List Stmt) (imp : ImpData)
    (s : PState) :
    wp (parseBlockStatement env sn tok n acc imp) s (fun _ s' =>
      s'.inlineTexts = s.inlineTexts ∧ s'.inlineTextsSet = s.inlineTextsSet ∧
      s'.inlineTextCounts = s.inlineTextCounts ∧ s'.inlineMovements = s.inlineMovements ∧
      s'.inlineMovementsSet = s.inlineMovementsSet ∧ s'.inlineMovementCounts = s.inlineMovementCounts ∧
      s'.patches = s.patches ∧ s'.textStatements = s.textStatements) :=
  wp_mono ((hoist_frame n).block env sn tok acc imp s) fun _ _ h => hz_fields h

theorem hoistInv_congr {s s' : PState} (h : hz7 s' = hz7 s) (hi : HoistInv s) : HoistInv s' := by
  obtain ⟨a1, a2, a3, b1, b2, b3, _⟩ := hz7_fields h
  exact ⟨textInv_congr a1 a2 a3 hi.1, moveInv_congr b1 b2 b3 hi.2⟩

theorem hfields_of_hz7 {s s' : PState} (h : hz7 s' = hz7 s) : hfields s' = hfields s := by
  obtain ⟨a1, a2, a3, b1, b2, b3, c⟩ := hz7_fields h
  simp [hfields, textFields, moveFields, a1, a2, a3, b1, b2, b3, c]

theorem hoistInv_stepData (s : PState) (d : ImpData) (h : HoistInv s) : HoistInv (stepData s d) :=
  (wp_addImplicitData d s _).1 (hoistInv_addImplicitData d s h)

theorem textStatements_stepData (s : PState) (d : ImpData) :
    (stepData s d).textStatements = s.textStatements := by
  have h1 : ∀ (l : List ImpText) (s : PState), (l.foldl addTextStep s).textStatements = s.textStatements := by
    intro l
    induction l with
    | nil => intro s; rfl
    | cons x r ih =>
      intro s
      rw [List.foldl_cons, ih]
      cases hlk : s.inlineTextsSet.lookup (x.text.lit, x.stringType) <;> simp [addTextStep, hlk]
  have h2 : ∀ (l : List ImpMovement) (s : PState),
      (l.foldl addMovementStep s).textStatements = s.textStatements := by
    intro l
    induction l with
    | nil => intro s; rfl
    | cons x r ih =>
      intro s
      rw [List.foldl_cons, ih]
      cases hlk : s.inlineMovementsSet.lookup (getMovementsKey x.movements) <;> simp [addMovementStep, hlk]
  unfold stepData
  rw [h2, h1]

/-! ### the implicit data of a top-level statement -/

/-- The implicit data the parser collects for the top-level statement that starts at `s`: what
`parseScriptStatement` / `parseMapscriptsStatement` return there (nothing for other statements). -/
def impOfTop (env : Env) (fuel : Nat) (s : PState) : ImpData :=
  match (s.toks.headD s.eof).type with
  | .SCRIPT =>
    match (parseScriptStatement env fuel).run s with
    | .ok ((_, imp), _) => imp
    | .error _ => {}
  | .MAPSCRIPTS =>
    match (parseMapscriptsStatement env fuel).run s with
    | .ok ((_, imp), _) => imp
    | .error _ => {}
  | _ => {}

/-- The `text` statements among top-level statements. -/
def textOfTop : Option Top → List Text
  | some (.text t) => [t]
  | _ => []

def textsOf (tops : List Top) : List Text := tops.flatMap fun t => textOfTop (some t)

theorem stepData_empty (s : PState) : stepData s {} = s := rfl

theorem raw_notText (s : PState) : wp parseRawStatement s (fun r _ => textOfTop (some r) = []) := by
  unfold parseRawStatement
  swp
  vc

theorem movement_notText (env : Env) (n : Nat) (s : PState) :
    wp (parseMovementStatement env n) s (fun r _ => textOfTop (some r) = []) := by
  unfold parseMovementStatement
  swp [(frame_parseScopeModifier _).wp_iff, (frame_parseListValue _ _ _ _ _).wp_iff]
  vc
  all_goals (intros; rfl)

theorem mart_notText (env : Env) (n : Nat) (s : PState) :
    wp (parseMartStatement env n) s (fun r _ => textOfTop (some r) = []) := by
  unfold parseMartStatement
  swp [(frame_parseScopeModifier _).wp_iff, (frame_parseListValue _ _ _ _ _).wp_iff,
    (frame_mapM_tryReplace _).wp_iff]
  vc
  all_goals (intros; rfl)

/-- **One top-level statement**: the state after it is `stepData s₁ (impOfTop … s)` for a state `s₁`
with the hoisting fields of the state before; `textStatements` grows by the statement itself when it is
a `text` statement and not otherwise. -/
theorem topLevel_step (env : Env) (fuel : Nat) (s : PState) :
    wp (parseTopLevelStatement env fuel) s (fun r s' =>
      (∃ s1, hz7 s1 = hz7 s ∧ s' = stepData s1 (impOfTop env fuel s)) ∧
      s'.textStatements = s.textStatements ++ textOfTop r) := by
  unfold parseTopLevelStatement
  swp
  split
  · next hty =>
    swp [(kh_parseScriptStatement _ _).wp_iff, wp_addImplicitData]
    intro a s1 hr h
    have himp : impOfTop env fuel s = a.2 := by
      unfold impOfTop; simp only [hty, hr]
    refine ⟨⟨s1, hz7_of_hz h, by rw [himp]; rfl⟩, ?_⟩
    show (stepData s1 a.2).textStatements = _
    rw [textStatements_stepData, (hz_fields h).2.2.2.2.2.2.2]
    simp [textOfTop]
  · next hty =>
    have himp : impOfTop env fuel s = {} := by unfold impOfTop; simp only [hty]
    swp [wp_spec (wp_and (frame_parseRawStatement s) (raw_notText s))]
    intro a s' _ h
    obtain ⟨⟨l, k, rfl⟩, hp⟩ := h
    exact ⟨⟨upd s l k, rfl, by rw [himp]; rfl⟩, by rw [hp]; simp [upd]⟩
  · next hty =>
    have himp : impOfTop env fuel s = {} := by unfold impOfTop; simp only [hty]
    swp [wp_spec (parseTextStatement_hoist env fuel s)]
    intro a s' _ h
    obtain ⟨h7, t, rfl, ht⟩ := h
    exact ⟨⟨_, h7, by rw [himp]; rfl⟩, by rw [ht]; rfl⟩
  · next hty =>
    have himp : impOfTop env fuel s = {} := by unfold impOfTop; simp only [hty]
    swp [wp_spec (wp_and (frame_parseMovementStatement env fuel s) (movement_notText env fuel s))]
    intro a s' _ h
    obtain ⟨⟨l, k, rfl⟩, hp⟩ := h
    exact ⟨⟨upd s l k, rfl, by rw [himp]; rfl⟩, by rw [hp]; simp [upd]⟩
  · next hty =>
    have himp : impOfTop env fuel s = {} := by unfold impOfTop; simp only [hty]
    swp [wp_spec (wp_and (frame_parseMartStatement env fuel s) (mart_notText env fuel s))]
    intro a s' _ h
    obtain ⟨⟨l, k, rfl⟩, hp⟩ := h
    exact ⟨⟨upd s l k, rfl, by rw [himp]; rfl⟩, by rw [hp]; simp [upd]⟩
  · next hty =>
    swp [(kh_parseMapscriptsStatement _ _).wp_iff, wp_addImplicitData]
    intro a s1 hr h
    have himp : impOfTop env fuel s = a.2 := by
      unfold impOfTop; simp only [hty, hr]
    refine ⟨⟨s1, hz7_of_hz h, by rw [himp]; rfl⟩, ?_⟩
    show (stepData s1 a.2).textStatements = _
    rw [textStatements_stepData, (hz_fields h).2.2.2.2.2.2.2]
    simp [textOfTop]
  · next hty =>
    have himp : impOfTop env fuel s = {} := by unfold impOfTop; simp only [hty]
    swp [(kh_parseConstant _).wp_iff]
    intro a s1 _ h
    exact ⟨⟨_, hz7_of_hz h, by rw [himp]; rfl⟩, by rw [(hz_fields h).2.2.2.2.2.2.2]; simp [textOfTop]⟩
  · swp

/-- **topLevel_hoistInv**: `parseTopLevelStatement` preserves `HoistInv`; `text` statements only append
to `textStatements`. -/
theorem topLevel_hoistInv (env : Env) (fuel : Nat) (s : PState) (h : HoistInv s) :
    wp (parseTopLevelStatement env fuel) s (fun r s' =>
      HoistInv s' ∧ s'.textStatements = s.textStatements ++ textOfTop r) := by
  refine wp_mono (topLevel_step env fuel s) ?_
  rintro r s' ⟨⟨s1, h7, rfl⟩, ht⟩
  exact ⟨hoistInv_stepData _ _ (hoistInv_congr h7 h), ht⟩

/-- `topLoop` preserves `HoistInv`. -/
theorem topLoop_hoistInv (env : Env) (fuel : Nat) : ∀ (n : Nat) (acc : List Top) (s : PState),
    HoistInv s → wp (topLoop env fuel n acc) s (fun _ s' => HoistInv s') := by
  intro n
  induction n with
  | zero => intro acc s _; rw [topLoop]; swp
  | succ n ih =>
    intro acc s h
    rw [topLoop]
    swp [wp_spec (topLevel_hoistInv _ _ _ h)]
    split
    · exact h
    · intro a s' _ hp
      exact ih _ _ (hoistInv_congr (s := s') rfl hp.1)

/-- **parsed_state_hoistInv** (general form): the state in which `parseProgramM` reads `inlineTexts`,
`inlineMovements` and `patches` — its final state — satisfies `HoistInv`, and the program is read off
that state. -/
theorem parseProgram_hoistInv (env : Env) (fuel : Nat) (s : PState) (h : HoistInv s) :
    wp (parseProgramM env fuel) s (fun p s' => HoistInv s' ∧
      p.texts = s'.inlineTexts ++ s'.textStatements ∧ p.patches = s'.patches ∧
      ∃ tops, p.tops = tops ++ s'.inlineMovements.map Top.movement) := by
  unfold parseProgramM
  swp [wp_spec (topLoop_hoistInv _ _ _ [] _ h)]
  intro tops s' _ hi
  repeat' (first | trivial | (intros; split))
  all_goals first | swp | skip
  all_goals first | exact ⟨hi, tops, rfl⟩ | skip

/-! ### the history of a parse: the implicit data of its top-level statements -/

/-- The implicit data of the top-level statements that `topLoop env fuel n` parses from `s`, in order
(each one is what `parseScriptStatement` / `parseMapscriptsStatement` returned: `impOfTop`). -/
def history (env : Env) (fuel : Nat) : Nat → PState → List ImpData
  | 0, _ => []
  | n + 1, s =>
    if (s.toks.headD s.eof).type == .EOF then []
    else
      match (parseTopLevelStatement env fuel).run s with
      | .ok (_, s1) => impOfTop env fuel s :: history env fuel n (upd s1 s1.toks.tail s1.nextCmdId)
      | .error _ => []

def histTexts (H : List ImpData) : List ImpText := H.flatMap (·.texts)
def histMoves (H : List ImpData) : List ImpMovement := H.flatMap (·.movements)
def histItems (H : List ImpData) : List Item := H.flatMap itemsOf

/-- One top-level statement extends the model by its implicit data. -/
theorem topLevel_model (env : Env) (fuel : Nat) (s : PState) {P M items} (h : Model s P M items) :
    wp (parseTopLevelStatement env fuel) s (fun r s' =>
      Model s' (P ++ (impOfTop env fuel s).texts) (M ++ (impOfTop env fuel s).movements)
        (items ++ itemsOf (impOfTop env fuel s)) ∧
      s'.textStatements = s.textStatements ++ textOfTop r) := by
  refine wp_mono (topLevel_step env fuel s) ?_
  rintro r s' ⟨⟨s1, h7, rfl⟩, ht⟩
  exact ⟨model_stepData _ (model_congr (hfields_of_hz7 h7) h), ht⟩

/-- The whole top-level loop: the final state is modelled by the history, and `textStatements` has
grown by the `text` statements among the parsed top-level statements. -/
theorem topLoop_model (env : Env) (fuel : Nat) : ∀ (n : Nat) (acc : List Top) (s : PState) (P M items)
    (base : List Text), Model s P M items → s.textStatements = base ++ textsOf acc →
    wp (topLoop env fuel n acc) s (fun r s' =>
      Model s' (P ++ histTexts (history env fuel n s)) (M ++ histMoves (history env fuel n s))
        (items ++ histItems (history env fuel n s)) ∧
      s'.textStatements = base ++ textsOf r) := by
  intro n
  induction n with
  | zero => intro acc s P M items base _ _; rw [topLoop]; swp
  | succ n ih =>
    intro acc s P M items base h hb
    rw [topLoop]
    swp [wp_spec (topLevel_model _ _ _ h)]
    split
    · next hc =>
      have : history env fuel (n + 1) s = [] := by simp only [history, hc, if_true]
      rw [this]
      exact ⟨by simpa [histTexts, histMoves, histItems] using h, hb⟩
    · next hc =>
      intro a s' hr hp
      have hh : history env fuel (n + 1) s =
          impOfTop env fuel s :: history env fuel n (upd s' s'.toks.tail s'.nextCmdId) := by
        simp only [history, hc, hr]; rfl
      rw [hh]
      refine wp_mono (ih _ (upd s' s'.toks.tail s'.nextCmdId) _ _ _ base
        (model_congr (s := s') rfl hp.1) ?_) ?_
      · show s'.textStatements = _
        rw [hp.2, hb]
        cases a with
        | none => simp [textOfTop]
        | some t => simp [textsOf, textOfTop]
      · intro r s'' hq
        simpa [histTexts, histMoves, histItems, List.append_assoc] using hq

/-- `ParseProgram` from a modelled state. -/
theorem parseProgram_model (env : Env) (fuel : Nat) (s : PState) {P M items} (h : Model s P M items)
    (hb : s.textStatements = []) :
    wp (parseProgramM env fuel) s (fun p s' =>
      Model s' (P ++ histTexts (history env fuel fuel s)) (M ++ histMoves (history env fuel fuel s))
        (items ++ histItems (history env fuel fuel s)) ∧
      ∃ tops, p.texts = s'.inlineTexts ++ textsOf tops ∧
        p.tops = tops ++ s'.inlineMovements.map Top.movement ∧ p.patches = s'.patches) := by
  unfold parseProgramM
  swp [wp_spec (topLoop_model _ _ _ [] _ _ _ _ [] h (by simpa [textsOf] using hb))]
  intro tops s' _ hi
  repeat' (first | trivial | (intros; split))
  all_goals first | swp | skip
  all_goals first | exact ⟨hi.1, tops, by rw [hi.2]; rfl, rfl⟩ | skip

/-! ## 2. Every parsed program -/

/-- The state `parseTokens` starts from, its fuel, and the implicit data its parse collects. -/
def initState (toks : List Tok) : PState := { toks := toks, eof := toks.getLastD { type := .EOF } }
def fuelOf (toks : List Tok) : Nat := 4 * toks.length + 50
def collected (env : Env) (toks : List Tok) : List ImpData :=
  history env (fuelOf toks) (fuelOf toks) (initState toks)

/-- All inline texts / `moves()` items of the file, in the order in which the parser hoists them
(per script or mapscripts statement: its texts, then its movements — `itemsOf`). -/
def inlineTextsOf (env : Env) (toks : List Tok) : List ImpText := histTexts (collected env toks)
def inlineMovesOf (env : Env) (toks : List Tok) : List ImpMovement := histMoves (collected env toks)
def inlineItemsOf (env : Env) (toks : List Tok) : List Item := histItems (collected env toks)

theorem parseTokens_run (env : Env) (toks : List Tok) (p : Program) (h : parseTokens env toks = .ok p) :
    ∃ s', (parseProgramM env (fuelOf toks)).run (initState toks) = .ok (p, s') := by
  unfold parseTokens at h
  simp only [StateT.run'] at h
  generalize hr : (parseProgramM env (4 * toks.length + 50))
    { toks := toks, eof := toks.getLastD { type := .EOF } } = res at h
  cases res with
  | error e => simp [Functor.map, Except.map] at h
  | ok r =>
    obtain ⟨p', s'⟩ := r
    simp only [Functor.map, Except.map, Except.ok.injEq] at h
    subst h
    exact ⟨s', hr⟩

/-- **parsed_state_hoistInv**: the state in which `parseProgramM` reads `inlineTexts`, `inlineMovements`
and `patches` satisfies `HoistInv`, for every successful parse. -/
theorem parsed_state_hoistInv (env : Env) (toks : List Tok) (p : Program)
    (h : parseTokens env toks = .ok p) :
    ∃ s', (parseProgramM env (fuelOf toks)).run (initState toks) = .ok (p, s') ∧ HoistInv s' ∧
      p.texts = s'.inlineTexts ++ s'.textStatements ∧ p.patches = s'.patches ∧
      ∃ tops, p.tops = tops ++ s'.inlineMovements.map Top.movement := by
  obtain ⟨s', hr⟩ := parseTokens_run env toks p h
  exact ⟨s', hr, parseProgram_hoistInv env _ _ (hoistInv_initial _ _) p s' hr⟩

/-- The final state of a successful parse is modelled by the collected implicit data. -/
theorem parseTokens_model (env : Env) (toks : List Tok) (p : Program) (h : parseTokens env toks = .ok p) :
    ∃ s' tops, Model s' (inlineTextsOf env toks) (inlineMovesOf env toks) (inlineItemsOf env toks) ∧
      p.texts = s'.inlineTexts ++ textsOf tops ∧
      p.tops = tops ++ s'.inlineMovements.map Top.movement ∧ p.patches = s'.patches := by
  obtain ⟨s', hr⟩ := parseTokens_run env toks p h
  have := parseProgram_model env (fuelOf toks) (initState toks) (model_init _ _) rfl p s' hr
  obtain ⟨hm, tops, h1, h2, h3⟩ := this
  exact ⟨s', tops, by simpa [inlineTextsOf, inlineMovesOf, inlineItemsOf, collected] using hm, h1, h2, h3⟩

/-- **Shape of a parsed program**: its texts are the hoisted texts followed by the `text` statements
(`textsOf tops`); its top-level statements are the parsed ones followed by the hoisted movements. -/
theorem parsed_program_shape (env : Env) (toks : List Tok) (p : Program)
    (h : parseTokens env toks = .ok p) :
    ∃ tops, p.texts = hoistedTexts (inlineTextsOf env toks) ++ textsOf tops ∧
      p.tops = tops ++ (hoistedMoves (inlineMovesOf env toks)).map Top.movement := by
  obtain ⟨s', tops, hm, h1, h2, _⟩ := parseTokens_model env toks p h
  exact ⟨tops, by rw [h1, model_inlineTexts hm], by rw [h2, model_inlineMovements hm]⟩

/-- **parsed_texts_bijection**: for a parsed program, the hoisted part `T` of `p.texts`

* has pairwise distinct names and pairwise distinct `(value, stringType)` keys — a bijection between
  labels and contents;
* holds exactly the contents of the inline texts of the file, in order of first appearance;
* is numbered per owner: the `i`-th name is `getImplicitTextLabel owner_i k` with `k` the number of
  earlier hoisted texts with the same owner, so owner `o` holds exactly `o_Text_0 … o_Text_(n-1)`,
  `n` its number of hoisted texts (no gaps);
* consists of local texts. -/
theorem parsed_texts_bijection (env : Env) (toks : List Tok) (p : Program)
    (h : parseTokens env toks = .ok p) :
    let T := hoistedTexts (inlineTextsOf env toks)
    let owners := textOwners (inlineTextsOf env toks)
    (∃ tops, p.texts = T ++ textsOf tops ∧
      p.tops = tops ++ (hoistedMoves (inlineMovesOf env toks)).map Top.movement) ∧
    (T.map (·.name)).Nodup ∧ (T.map fun x => (x.value, x.stringType)).Nodup ∧
    T.map (fun x => (x.value, x.stringType)) = (firstOccBy keyOf (inlineTextsOf env toks)).map keyOf ∧
    (∀ k, k ∈ T.map (fun x => (x.value, x.stringType)) ↔ k ∈ (inlineTextsOf env toks).map keyOf) ∧
    T.map (·.name) = numFrom getImplicitTextLabel [] owners ∧
    (∀ i, (T.map (·.name))[i]? =
      owners[i]?.map fun o => getImplicitTextLabel o ((owners.take i).count o)) ∧
    (∀ o k, getImplicitTextLabel o k ∈ T.map (·.name) ↔ k < owners.count o) ∧
    (∀ x ∈ T, x.isGlobal = false) := by
  intro T owners
  refine ⟨parsed_program_shape env toks p h, hoistedTexts_names_nodup _, hoistedTexts_keys_nodup _,
    hoistedTexts_keys _, ?_, hoistedTexts_names _, ?_, ?_, hoistedTexts_local _⟩
  · intro k
    show k ∈ (hoistedTexts _).map _ ↔ _
    rw [hoistedTexts_keys]; exact firstOccBy_keys _ _ _
  · intro i
    show ((hoistedTexts _).map _)[i]? = _
    rw [hoistedTexts_names, numFrom_get]; simp; rfl
  · intro o k
    show _ ∈ (hoistedTexts _).map _ ↔ _
    rw [hoistedTexts_names, mem_numFrom_iff _ text_lbl_inj]; simp; rfl

/-- **parsed_movements_bijection**: the same for the hoisted movements (the `.movement` suffix of
`p.tops`); the content of a movement is its list of steps, compared by `getMovementsKey`. -/
theorem parsed_movements_bijection (env : Env) (toks : List Tok) (p : Program)
    (h : parseTokens env toks = .ok p) :
    let Mv := hoistedMoves (inlineMovesOf env toks)
    let owners := moveOwners (inlineMovesOf env toks)
    (∃ tops, p.tops = tops ++ Mv.map Top.movement) ∧
    (Mv.map (·.name)).Nodup ∧ (Mv.map fun x => getMovementsKey x.cmds).Nodup ∧
    Mv.map (fun x => getMovementsKey x.cmds) = (firstOccBy mkeyOf (inlineMovesOf env toks)).map mkeyOf ∧
    Mv.map (·.cmds) = (firstOccBy mkeyOf (inlineMovesOf env toks)).map (·.movements) ∧
    (∀ k, k ∈ Mv.map (fun x => getMovementsKey x.cmds) ↔ k ∈ (inlineMovesOf env toks).map mkeyOf) ∧
    Mv.map (·.name) = numFrom getImplicitMovementLabel [] owners ∧
    (∀ i, (Mv.map (·.name))[i]? =
      owners[i]?.map fun o => getImplicitMovementLabel o ((owners.take i).count o)) ∧
    (∀ o k, getImplicitMovementLabel o k ∈ Mv.map (·.name) ↔ k < owners.count o) ∧
    (∀ x ∈ Mv, x.scope = .LOCAL) := by
  intro Mv owners
  obtain ⟨tops, _, h2⟩ := parsed_program_shape env toks p h
  refine ⟨⟨tops, h2⟩, hoistedMoves_names_nodup _, hoistedMoves_keys_nodup _, hoistedMoves_keys _,
    hoistedMoves_cmds _, ?_, hoistedMoves_names _, ?_, ?_, hoistedMoves_local _⟩
  · intro k
    show k ∈ (hoistedMoves _).map _ ↔ _
    rw [hoistedMoves_keys]; exact firstOccBy_keys _ _ _
  · intro i
    show ((hoistedMoves _).map _)[i]? = _
    rw [hoistedMoves_names, numFrom_get]; simp; rfl
  · intro o k
    show _ ∈ (hoistedMoves _).map _ ↔ _
    rw [hoistedMoves_names, mem_numFrom_iff _ move_lbl_inj]; simp; rfl

/-! ## 3. Patches point to the hoisted records -/

/-- **parsed_patches_point_to_texts**: the patches of a parsed program correspond one-to-one, in order,
to the inline items the parse collected (`inlineItemsOf`: for every script / mapscripts statement its
inline texts, then its `moves()`); the `i`-th patch is for the slot `(cmdId, argPos)` of the `i`-th item
and its label is the name of exactly one hoisted text / movement of `p`, which holds the content of that
item and is local; no record of the other kind carries that name (`Defines`). -/
theorem parsed_patches_point_to_texts (env : Env) (toks : List Tok) (p : Program)
    (h : parseTokens env toks = .ok p) :
    p.patches.length = (inlineItemsOf env toks).length ∧
    ∀ (i : Nat) (q : (Nat × Nat) × String) (it : Item),
      p.patches[i]? = some q → (inlineItemsOf env toks)[i]? = some it →
      q.1 = slotOf it ∧
      Defines (hoistedTexts (inlineTextsOf env toks)) (hoistedMoves (inlineMovesOf env toks)) it q.2 := by
  obtain ⟨s', tops, hm, _, _, h3⟩ := parseTokens_model env toks p h
  have := model_patches hm
  rw [← h3, model_inlineTexts hm, model_inlineMovements hm] at this
  exact this

/-- **Identical content shares one label, different content never shares one** — across the whole
file: two patches for inline texts carry the same label iff the texts have the same
`(content, string type)`. -/
theorem parsed_text_labels_iff (env : Env) (toks : List Tok) (p : Program)
    (h : parseTokens env toks = .ok p) (i j : Nat) (q1 q2 : (Nat × Nat) × String) (t1 t2 : ImpText)
    (hq1 : p.patches[i]? = some q1) (hq2 : p.patches[j]? = some q2)
    (ht1 : (inlineItemsOf env toks)[i]? = some (.inl t1))
    (ht2 : (inlineItemsOf env toks)[j]? = some (.inl t2)) :
    q1.2 = q2.2 ↔ keyOf t1 = keyOf t2 := by
  obtain ⟨_, hp⟩ := parsed_patches_point_to_texts env toks p h
  exact defines_text_label_iff (hoistedTexts_keys_nodup _) (hp i q1 _ hq1 ht1).2 (hp j q2 _ hq2 ht2).2

/-- The same for `moves()`: same label iff same movement key (same step names, `C06b.movement_key_injective`). -/
theorem parsed_move_labels_iff (env : Env) (toks : List Tok) (p : Program)
    (h : parseTokens env toks = .ok p) (i j : Nat) (q1 q2 : (Nat × Nat) × String) (m1 m2 : ImpMovement)
    (hq1 : p.patches[i]? = some q1) (hq2 : p.patches[j]? = some q2)
    (ht1 : (inlineItemsOf env toks)[i]? = some (.inr m1))
    (ht2 : (inlineItemsOf env toks)[j]? = some (.inr m2)) :
    q1.2 = q2.2 ↔ mkeyOf m1 = mkeyOf m2 := by
  obtain ⟨_, hp⟩ := parsed_patches_point_to_texts env toks p h
  exact defines_move_label_iff (hoistedMoves_keys_nodup _) (hp i q1 _ hq1 ht1).2 (hp j q2 _ hq2 ht2).2

/-- A patch for an inline text and a patch for a `moves()` never carry the same label. -/
theorem parsed_text_move_labels_ne (env : Env) (toks : List Tok) (p : Program)
    (h : parseTokens env toks = .ok p) (i j : Nat) (q1 q2 : (Nat × Nat) × String) (t : ImpText)
    (m : ImpMovement) (hq1 : p.patches[i]? = some q1) (hq2 : p.patches[j]? = some q2)
    (ht1 : (inlineItemsOf env toks)[i]? = some (.inl t))
    (ht2 : (inlineItemsOf env toks)[j]? = some (.inr m)) : q1.2 ≠ q2.2 := by
  obtain ⟨_, hp⟩ := parsed_patches_point_to_texts env toks p h
  exact defines_text_ne_move (hp i q1 _ hq1 ht1).2 (hp j q2 _ hq2 ht2).2

/-! ## 4. Command ids and argument slots of the patches -/

theorem nextCmdId_stepData (s : PState) (d : ImpData) : (stepData s d).nextCmdId = s.nextCmdId := by
  have h1 : ∀ (l : List ImpText) (s : PState), (l.foldl addTextStep s).nextCmdId = s.nextCmdId := by
    intro l
    induction l with
    | nil => intro s; rfl
    | cons x r ih =>
      intro s
      rw [List.foldl_cons, ih]
      cases hlk : s.inlineTextsSet.lookup (x.text.lit, x.stringType) <;> simp [addTextStep, hlk]
  have h2 : ∀ (l : List ImpMovement) (s : PState), (l.foldl addMovementStep s).nextCmdId = s.nextCmdId := by
    intro l
    induction l with
    | nil => intro s; rfl
    | cons x r ih =>
      intro s
      rw [List.foldl_cons, ih]
      cases hlk : s.inlineMovementsSet.lookup (getMovementsKey x.movements) <;> simp [addMovementStep, hlk]
  unfold stepData
  rw [h2, h1]

/-- **One command**: `parseCommandStatement` gives the command the id `nextCmdId` and increments the
counter; every inline item it collects carries that id, an argument index that exists in the command
(`argPos < args.length`, so the patch does replace an argument: `C06b.patched_slot`), and the name of
the script. Two items inside one argument share the slot (finding F21, `C06b.same_slot_last_wins`). -/
theorem command_items_slots (env : Env) (sn : String) (n : Nat) (s : PState) :
    wp (parseCommandStatement env sn n) s (fun r s' =>
      r.1.id = s.nextCmdId ∧ s'.nextCmdId = s.nextCmdId + 1 ∧
      (∀ t ∈ r.2.texts, t.cmdId = r.1.id ∧ t.argPos < r.1.args.length ∧ t.scriptName = sn) ∧
      (∀ m ∈ r.2.movements, m.cmdId = r.1.id ∧ m.argPos < r.1.args.length ∧ m.scriptName = sn)) :=
  parseCommandStatement_slots env sn n s

/-- **Statement functions**: no function of the statement block decreases `nextCmdId`, and the items a
block collects have ids in `[nextCmdId at entry, nextCmdId at exit)` and are owned by the script name of
the block — so a command parsed later (from a later state) gets a larger id than every id used before. -/
theorem block_items_ids (env : Env) (sn : String) (tok : Tok) (n : Nat) (acc : List Stmt) (s : PState) :
    wp (parseBlockStatement env sn tok n acc {}) s (fun r s' =>
      s.nextCmdId ≤ s'.nextCmdId ∧
      (∀ t ∈ r.2.texts, s.nextCmdId ≤ t.cmdId ∧ t.cmdId < s'.nextCmdId ∧ t.scriptName = sn) ∧
      (∀ m ∈ r.2.movements, s.nextCmdId ≤ m.cmdId ∧ m.cmdId < s'.nextCmdId ∧ m.scriptName = sn)) :=
  ids_parseBlockStatement env sn tok n acc s

theorem idsIn_items {lo hi : Nat} {d : ImpData} (h : IdsIn lo hi d) :
    ∀ it ∈ itemsOf d, lo ≤ (slotOf it).1 ∧ (slotOf it).1 < hi := by
  intro it hit
  simp only [itemsOf, List.mem_append, List.mem_map] at hit
  rcases hit with ⟨t, ht, rfl⟩ | ⟨m, hm, rfl⟩
  · exact h.1 t ht
  · exact h.2 m hm

/-- One top-level statement: the counter does not decrease, the ids of its items lie between the
counter values before and after, and the items of a `script` statement are owned by that script. -/
theorem topLevel_ids (env : Env) (fuel : Nat) (s : PState) :
    wp (parseTopLevelStatement env fuel) s (fun r s' =>
      s.nextCmdId ≤ s'.nextCmdId ∧ IdsIn s.nextCmdId s'.nextCmdId (impOfTop env fuel s) ∧
      ∀ scr, r = some (.script scr) → ItemsIn s.nextCmdId s'.nextCmdId scr.name (impOfTop env fuel s)) := by
  unfold parseTopLevelStatement
  swp
  split
  · next hty =>
    swp [wp_spec (ids_parseScriptStatement _ _ _), wp_addImplicitData]
    intro a s1 hr h
    have himp : impOfTop env fuel s = a.2 := by
      unfold impOfTop; simp only [hty, hr]
    have hn : (List.foldl addMovementStep (List.foldl addTextStep s1 a.2.texts) a.2.movements).nextCmdId =
        s1.nextCmdId := nextCmdId_stepData s1 a.2
    rw [hn, himp]
    refine ⟨h.1, h.2.idsIn, ?_⟩
    intro scr hscr
    cases hscr
    exact h.2
  · next hty =>
    have himp : impOfTop env fuel s = {} := by unfold impOfTop; simp only [hty]
    swp [(tframe_parseRawStatement).wp_iff]
    intro a l _
    rw [himp]
    exact ⟨IdsIn.empty _ _, fun scr _ => ItemsIn.empty _ _ _⟩
  · next hty =>
    have himp : impOfTop env fuel s = {} := by unfold impOfTop; simp only [hty]
    swp [wp_spec (kn_parseTextStatement env fuel s)]
    intro a s' _ h
    rw [himp, h]
    exact ⟨Nat.le_refl _, IdsIn.empty _ _, fun scr _ => ItemsIn.empty _ _ _⟩
  · next hty =>
    have himp : impOfTop env fuel s = {} := by unfold impOfTop; simp only [hty]
    swp [(tframe_parseMovementStatement _ _).wp_iff]
    intro a l _
    rw [himp]
    exact ⟨IdsIn.empty _ _, fun scr _ => ItemsIn.empty _ _ _⟩
  · next hty =>
    have himp : impOfTop env fuel s = {} := by unfold impOfTop; simp only [hty]
    swp [(tframe_parseMartStatement _ _).wp_iff]
    intro a l _
    rw [himp]
    exact ⟨IdsIn.empty _ _, fun scr _ => ItemsIn.empty _ _ _⟩
  · next hty =>
    swp [wp_spec (ids_parseMapscriptsStatement _ _ _), wp_addImplicitData]
    intro a s1 hr h
    have himp : impOfTop env fuel s = a.2 := by
      unfold impOfTop; simp only [hty, hr]
    have hn : (List.foldl addMovementStep (List.foldl addTextStep s1 a.2.texts) a.2.movements).nextCmdId =
        s1.nextCmdId := nextCmdId_stepData s1 a.2
    rw [hn, himp]
    exact ⟨h.1, h.2, fun scr hscr => by cases hscr⟩
  · next hty =>
    have himp : impOfTop env fuel s = {} := by unfold impOfTop; simp only [hty]
    swp [wp_spec (kn_parseConstant fuel s)]
    intro a s' _ h
    rw [himp, h]
    exact ⟨Nat.le_refl _, IdsIn.empty _ _, fun scr _ => ItemsIn.empty _ _ _⟩
  · swp

/-- The items of later top-level statements have larger command ids than the items of earlier ones. -/
def Separated (H : List ImpData) : Prop :=
  H.Pairwise fun d1 d2 => ∀ i1 ∈ itemsOf d1, ∀ i2 ∈ itemsOf d2, (slotOf i1).1 < (slotOf i2).1

theorem history_ids (env : Env) (fuel : Nat) : ∀ (n : Nat) (s : PState),
    Separated (history env fuel n s) ∧
    ∀ d ∈ history env fuel n s, ∀ it ∈ itemsOf d, s.nextCmdId ≤ (slotOf it).1 := by
  intro n
  induction n with
  | zero => intro s; exact ⟨List.Pairwise.nil, fun _ h => absurd h List.not_mem_nil⟩
  | succ n ih =>
    intro s
    unfold history
    split
    · exact ⟨List.Pairwise.nil, fun _ h => absurd h List.not_mem_nil⟩
    · split
      · next a s1 hr =>
        obtain ⟨hle, hids, _⟩ := topLevel_ids env fuel s _ _ hr
        obtain ⟨ih1, ih2⟩ := ih (upd s1 s1.toks.tail s1.nextCmdId)
        have hit := idsIn_items hids
        refine ⟨List.Pairwise.cons ?_ ih1, ?_⟩
        · intro d hd i1 hi1 i2 hi2
          have h1 := (hit i1 hi1).2
          have h2 := ih2 d hd i2 hi2
          simp only [upd_nextCmdId] at h2
          omega
        · intro d hd it hit'
          rcases List.mem_cons.1 hd with rfl | hd
          · exact (hit it hit').1
          · have h2 := ih2 d hd it hit'
            simp only [upd_nextCmdId] at h2
            omega
      · exact ⟨List.Pairwise.nil, fun _ h => absurd h List.not_mem_nil⟩

/-- **patches_of_distinct_statements_disjoint**: in every parse, the inline items collected for
different top-level statements (scripts, mapscripts) carry different command ids — those of a later
statement are larger — so the patches of one script never hit a command of another. Inside one
statement the same holds command by command (`command_items_slots`, `block_items_ids`: each command
statement takes one fresh id and `nextCmdId` never decreases); two items of ONE command differ in
`argPos` exactly when a top-level comma of the argument list separates them (F21 otherwise). -/
theorem patches_of_distinct_statements_disjoint (env : Env) (toks : List Tok) :
    Separated (collected env toks) := (history_ids env _ _ _).1

/-! ## Non-vacuity: two scripts, a repeated text under two string types, a repeated `moves()` -/

def tk (t : TT) (l : String) : Tok := { type := t, lit := l }

/-- ```
script A { msgbox("Hi") msgbox(braille"Hi") applymovement(1, moves(walk_up walk_down)) }
text T { "named" }
script B { msgbox("Hi") applymovement(2, moves(walk_up walk_down)) msgbox("Yo", braille"Hi") }
``` -/
def exToks : List Tok :=
  [tk .SCRIPT "script", tk .IDENT "A", tk .LBRACE "{",
   tk .IDENT "msgbox", tk .LPAREN "(", tk .STRING "Hi", tk .RPAREN ")",
   tk .IDENT "msgbox", tk .LPAREN "(", tk .STRINGTYPE "braille", tk .STRING "Hi", tk .RPAREN ")",
   tk .IDENT "applymovement", tk .LPAREN "(", tk .INT "1", tk .COMMA ",", tk .MOVES "moves", tk .LPAREN "(",
     tk .IDENT "walk_up", tk .IDENT "walk_down", tk .RPAREN ")", tk .RPAREN ")",
   tk .RBRACE "}",
   tk .TEXT "text", tk .IDENT "T", tk .LBRACE "{", tk .STRING "named", tk .RBRACE "}",
   tk .SCRIPT "script", tk .IDENT "B", tk .LBRACE "{",
   tk .IDENT "msgbox", tk .LPAREN "(", tk .STRING "Hi", tk .RPAREN ")",
   tk .IDENT "applymovement", tk .LPAREN "(", tk .INT "2", tk .COMMA ",", tk .MOVES "moves", tk .LPAREN "(",
     tk .IDENT "walk_up", tk .IDENT "walk_down", tk .RPAREN ")", tk .RPAREN ")",
   tk .IDENT "msgbox", tk .LPAREN "(", tk .STRING "Yo", tk .COMMA ",", tk .STRINGTYPE "braille",
     tk .STRING "Hi", tk .RPAREN ")",
   tk .RBRACE "}",
   tk .EOF ""]

def movementsOf (tops : List Top) : List (String × List String) :=
  tops.filterMap fun t => match t with
    | Top.movement m => some (m.name, m.cmds.map (·.lit))
    | _ => none

/-- What the parser produces for the example: texts (hoisted, then the `text` statement), patches,
movements. The same `"Hi"` is `A_Text_0` as a plain string and `A_Text_1` as a braille string, in both
scripts; script `B`'s own first text is `B_Text_0`; the repeated `moves()` is `A_Movement_0` in both. -/
theorem ex_key :
    (match parseTokens {} exToks with
     | .ok p => some (p.texts.map (fun (t : Text) => (t.name, t.value, t.stringType)), p.patches)
     | .error _ => none) =
    some ([("A_Text_0", "Hi$", ""), ("A_Text_1", "Hi$", "braille"), ("B_Text_0", "Yo$", ""),
           ("T", "named$", "")],
          [((0, 0), "A_Text_0"), ((1, 0), "A_Text_1"), ((2, 1), "A_Movement_0"), ((3, 0), "A_Text_0"),
           ((5, 0), "B_Text_0"), ((5, 1), "A_Text_1"), ((4, 1), "A_Movement_0")]) := by
  decide +kernel

theorem ex_key_movements :
    (match parseTokens {} exToks with
     | .ok p => some (movementsOf p.tops)
     | .error _ => none) = some [("A_Movement_0", ["walk_up", "walk_down"])] := by
  decide +kernel

theorem ex_parses : ∃ p, parseTokens {} exToks = .ok p := by
  have key := ex_key
  cases h : parseTokens {} exToks with
  | error e => rw [h] at key; cases key
  | ok p => exact ⟨p, rfl⟩

/-- A decidable view of an item: kind, slot, content key, owner. -/
def itemView : Item → Bool × (Nat × Nat) × (String × String) × String
  | .inl t => (true, (t.cmdId, t.argPos), keyOf t, t.scriptName)
  | .inr m => (false, (m.cmdId, m.argPos), (mkeyOf m, ""), m.scriptName)

/-- The implicit data the parse of the example collects. -/
theorem ex_items :
    (inlineItemsOf {} exToks).map itemView =
      [(true, (0, 0), ("Hi$", ""), "A"), (true, (1, 0), ("Hi$", "braille"), "A"),
       (false, (2, 1), ("walk_up:walk_down:", ""), "A"),
       (true, (3, 0), ("Hi$", ""), "B"), (true, (5, 0), ("Yo$", ""), "B"),
       (true, (5, 1), ("Hi$", "braille"), "B"), (false, (4, 1), ("walk_up:walk_down:", ""), "B")] := by
  decide +kernel

theorem ex_owners : textOwners (inlineTextsOf {} exToks) = ["A", "A", "B"] ∧
    moveOwners (inlineMovesOf {} exToks) = ["A"] := by
  decide +kernel

/-- `parsed_state_hoistInv`, `parsed_texts_bijection` and `parsed_movements_bijection` on the example. -/
example : ∃ p, parseTokens {} exToks = .ok p ∧
    (∃ s', (parseProgramM {} (fuelOf exToks)).run (initState exToks) = .ok (p, s') ∧ HoistInv s') ∧
    (hoistedTexts (inlineTextsOf {} exToks)).map (·.name) = ["A_Text_0", "A_Text_1", "B_Text_0"] ∧
    (∃ tops, p.texts = hoistedTexts (inlineTextsOf {} exToks) ++ textsOf tops) ∧
    (∀ k, getImplicitTextLabel "A" k ∈ (hoistedTexts (inlineTextsOf {} exToks)).map (·.name) ↔ k < 2) ∧
    (∀ k, getImplicitMovementLabel "A" k ∈ (hoistedMoves (inlineMovesOf {} exToks)).map (·.name) ↔
      k < 1) := by
  obtain ⟨p, hp⟩ := ex_parses
  obtain ⟨s', hr, hi, _⟩ := parsed_state_hoistInv {} exToks p hp
  obtain ⟨⟨tops, ht, _⟩, _, _, _, _, hn, _, hgap, _⟩ := parsed_texts_bijection {} exToks p hp
  obtain ⟨_, _, _, _, _, _, _, _, hgapM, _⟩ := parsed_movements_bijection {} exToks p hp
  refine ⟨p, hp, ⟨s', hr, hi⟩, ?_, ⟨tops, ht⟩, ?_, ?_⟩
  · rw [hn, ex_owners.1]; decide
  · intro k; rw [hgap "A" k, ex_owners.1]; exact Iff.rfl
  · intro k; rw [hgapM "A" k, ex_owners.2]; exact Iff.rfl

theorem getElem?_some_of_lt {α : Type} {l : List α} {i : Nat} (h : i < l.length) : ∃ x, l[i]? = some x :=
  ⟨l[i], List.getElem?_eq_getElem h⟩

/-- `parsed_patches_point_to_texts` and `parsed_text_labels_iff` on the example: patch 3 — the `"Hi"`
of script `B` — is for slot `(3, 0)` and points to the one hoisted text with its content, which is the
text that patch 0 — the `"Hi"` of script `A` — points to. -/
example : ∃ p q0 q3 t0 t3, parseTokens {} exToks = .ok p ∧ p.patches[0]? = some q0 ∧
    p.patches[3]? = some q3 ∧ (inlineItemsOf {} exToks)[0]? = some (.inl t0) ∧
    (inlineItemsOf {} exToks)[3]? = some (.inl t3) ∧ t3.scriptName = "B" ∧ q3.1 = (3, 0) ∧
    q0.2 = q3.2 ∧
    ∃ x ∈ hoistedTexts (inlineTextsOf {} exToks), x.name = q3.2 ∧ x.value = "Hi$" ∧ x.stringType = "" := by
  obtain ⟨p, hp⟩ := ex_parses
  obtain ⟨hlen, hpt⟩ := parsed_patches_point_to_texts {} exToks p hp
  have hv := ex_items
  have hl : (inlineItemsOf {} exToks).length = 7 := by
    have := congrArg List.length hv; simpa using this
  have hv0 := congrArg (fun l => l[0]?) hv
  have hv3 := congrArg (fun l => l[3]?) hv
  simp only [List.getElem?_map] at hv0 hv3
  obtain ⟨it0, hit0⟩ := getElem?_some_of_lt (l := inlineItemsOf {} exToks) (i := 0) (by rw [hl]; omega)
  obtain ⟨it3, hit3⟩ := getElem?_some_of_lt (l := inlineItemsOf {} exToks) (i := 3) (by rw [hl]; omega)
  obtain ⟨q0, hq0⟩ := getElem?_some_of_lt (l := p.patches) (i := 0) (by rw [hlen, hl]; omega)
  obtain ⟨q3, hq3⟩ := getElem?_some_of_lt (l := p.patches) (i := 3) (by rw [hlen, hl]; omega)
  rw [hit0] at hv0; rw [hit3] at hv3
  cases it0 with
  | inr m => simp [itemView] at hv0
  | inl t0 =>
    cases it3 with
    | inr m => simp [itemView] at hv3
    | inl t3 =>
      simp [itemView] at hv0 hv3
      obtain ⟨⟨a0, b0⟩, k0, o0⟩ := hv0
      obtain ⟨⟨a3, b3⟩, k3, o3⟩ := hv3
      obtain ⟨hs, hd⟩ := hpt 3 q3 _ hq3 hit3
      obtain ⟨⟨x, hx, h1, h2, h3, _⟩, _⟩ := hd
      refine ⟨p, q0, q3, t0, t3, hp, hq0, hq3, hit0, hit3, o3, ?_, ?_, x, hx, h1, ?_, ?_⟩
      · rw [hs]; simp [slotOf, a3, b3]
      · exact (parsed_text_labels_iff {} exToks p hp 0 3 q0 q3 t0 t3 hq0 hq3 hit0 hit3).2
          (k0.trans k3.symm)
      · rw [h2]; exact (Prod.mk.inj k3).1
      · rw [h3]; exact (Prod.mk.inj k3).2

/-- `patches_of_distinct_statements_disjoint` on the example: three top-level statements (`script A`,
`text T`, `script B`); script `A` uses the command ids 0–2, script `B` 3–5 (`ex_items`). -/
example : Separated (collected {} exToks) ∧ (collected {} exToks).length = 3 :=
  ⟨patches_of_distinct_statements_disjoint _ _, by decide +kernel⟩

/-- `topLevel_ids` on the first statement of the example: ids in `[0, 3)`, owner `A`. -/
example : ∃ scr s', (parseTopLevelStatement {} (fuelOf exToks)).run (initState exToks) =
      .ok (some (.script scr), s') ∧ scr.name = "A" ∧ s'.nextCmdId = 3 ∧
    ItemsIn 0 3 "A" (impOfTop {} (fuelOf exToks) (initState exToks)) ∧
    (impOfTop {} (fuelOf exToks) (initState exToks)).texts.length = 2 := by
  have key : (match (parseTopLevelStatement {} (fuelOf exToks)).run (initState exToks) with
      | .ok (some (.script scr), s') => some (scr.name, s'.nextCmdId)
      | _ => none) = some ("A", 3) := by decide +kernel
  have hlen : (impOfTop {} (fuelOf exToks) (initState exToks)).texts.length = 2 := by decide +kernel
  cases h : (parseTopLevelStatement {} (fuelOf exToks)).run (initState exToks) with
  | error e => rw [h] at key; cases key
  | ok r =>
    obtain ⟨o, s'⟩ := r
    rw [h] at key
    cases o with
    | none => cases key
    | some t =>
      cases t <;> simp at key
      rename_i scr
      obtain ⟨hn, hc⟩ := key
      have := topLevel_ids {} (fuelOf exToks) (initState exToks) _ _ h
      refine ⟨scr, s', rfl, hn, hc, ?_, hlen⟩
      have h3 := this.2.2 scr rfl
      rw [hn, hc] at h3
      exact h3

/-- `command_items_slots` on `msgbox("Hi", moves(walk_up))` parsed with `nextCmdId = 7` in script `A`:
the command gets id 7 and two arguments; the text patches slot `(7, 0)`, the movement slot `(7, 1)`. -/
def cmdState : PState :=
  { toks := [tk .IDENT "msgbox", tk .LPAREN "(", tk .STRING "Hi", tk .COMMA ",", tk .MOVES "moves",
             tk .LPAREN "(", tk .IDENT "walk_up", tk .RPAREN ")", tk .RPAREN ")", tk .RBRACE "}"],
    eof := tk .EOF "", nextCmdId := 7 }

example : ∃ r s', (parseCommandStatement {} "A" 20).run cmdState = .ok (r, s') ∧
    r.1.id = 7 ∧ r.1.args.length = 2 ∧ s'.nextCmdId = 8 ∧
    r.2.texts.map (fun t => (t.cmdId, t.argPos)) = [(7, 0)] ∧
    r.2.movements.map (fun m => (m.cmdId, m.argPos)) = [(7, 1)] ∧
    (∀ t ∈ r.2.texts, t.cmdId = r.1.id ∧ t.argPos < r.1.args.length ∧ t.scriptName = "A") := by
  have key : (match (parseCommandStatement {} "A" 20).run cmdState with
      | .ok (r, _) => some (r.1.args.length, r.2.texts.map (fun t => (t.cmdId, t.argPos)),
          r.2.movements.map (fun m => (m.cmdId, m.argPos)))
      | .error _ => none) = some (2, [(7, 0)], [(7, 1)]) := by decide +kernel
  cases h : (parseCommandStatement {} "A" 20).run cmdState with
  | error e => rw [h] at key; cases key
  | ok x =>
    obtain ⟨r, s'⟩ := x
    rw [h] at key
    simp only [Option.some.injEq, Prod.mk.injEq] at key
    obtain ⟨h1, h2, h3, h4⟩ := command_items_slots {} "A" 20 cmdState r s' h
    exact ⟨r, s', rfl, h1, key.1, h2, key.2.1, key.2.2, h3⟩

/-- `hoist_frame` (`block_hoist_frame`) on a block `msgbox("Hi", moves(walk_up)) }` parsed in a state
whose hoisting tables are not empty: the block collects two inline items but leaves the tables alone. -/
def frameState : PState :=
  { cmdState with inlineTexts := [{ name := "X_Text_0", value := "old$" }],
                  inlineTextsSet := [(("old$", ""), "X_Text_0")], inlineTextCounts := [("X", 1)],
                  patches := [((0, 0), "X_Text_0")] }

example : ∃ r s', (parseBlockStatement {} "A" (tk .LBRACE "{") 30 [] {}).run frameState = .ok (r, s') ∧
    r.2.texts.length = 1 ∧ r.2.movements.length = 1 ∧
    s'.inlineTexts = frameState.inlineTexts ∧ s'.inlineTextsSet = frameState.inlineTextsSet ∧
    s'.inlineTextCounts = frameState.inlineTextCounts ∧ s'.patches = frameState.patches := by
  have key : (match (parseBlockStatement {} "A" (tk .LBRACE "{") 30 [] {}).run frameState with
      | .ok (r, _) => some (r.2.texts.length, r.2.movements.length)
      | .error _ => none) = some (1, 1) := by decide +kernel
  cases h : (parseBlockStatement {} "A" (tk .LBRACE "{") 30 [] {}).run frameState with
  | error e => rw [h] at key; cases key
  | ok x =>
    obtain ⟨r, s'⟩ := x
    rw [h] at key
    simp only [Option.some.injEq, Prod.mk.injEq] at key
    obtain ⟨a1, a2, a3, _, _, _, a7, _⟩ := block_hoist_frame {} "A" (tk .LBRACE "{") 30 [] {} frameState r s' h
    exact ⟨r, s', rfl, key.1, key.2, a1, a2, a3, a7⟩

/-- `topLevel_hoistInv` on the first statement of the example. -/
example : ∃ r s', (parseTopLevelStatement {} (fuelOf exToks)).run (initState exToks) = .ok (r, s') ∧
    HoistInv s' ∧ s'.patches.length = 3 := by
  have key : (match (parseTopLevelStatement {} (fuelOf exToks)).run (initState exToks) with
      | .ok (_, s') => some s'.patches.length
      | .error _ => none) = some 3 := by decide +kernel
  cases h : (parseTopLevelStatement {} (fuelOf exToks)).run (initState exToks) with
  | error e => rw [h] at key; cases key
  | ok x =>
    obtain ⟨r, s'⟩ := x
    rw [h] at key
    exact ⟨r, s', rfl, (topLevel_hoistInv {} _ _ (hoistInv_initial _ _) r s' h).1, Option.some.inj key⟩

end Pory.C06c
