import PoryProofs.TopParse
import PoryProofs.Properties.C14b
import PoryProofs.Properties.C15
/-
C15 (parser half) — "labels are exported or local exactly as written or as documented by default":
the scope stored in the AST by the top-level statement parsers.

Reference syntax: `kw [ '(' ('global'|'local') ')' ] Name '{' … '}'` with `Mod` (the optional
modifier, `PoryProofs/TopParse.lean`); tokens are arbitrary records (any positions / literals)
constrained only by their types.

Proved (for every surrounding parser state, every fuel ≥ the stated bound):
* `scope_modifier_absent / _present / _bad / _missing_rparen` : `parseScopeModifier` — no `(`:
  default, nothing consumed; `( global )` / `( local )`: GLOBAL / LOCAL, three tokens consumed;
  a wrong modifier is an error located on that token; a missing `)` is an error located on the
  modifier token (Go: `p.curToken`) naming the offending token;
* `parse_movement_statement` (lists with poryswitch, `Items`), `parse_movement_statement_plain`
  (`List Item`): the statement is `.movement { tok := kw, name := Name.lit, cmds := expansion,
  scope := written modifier | documented default (LOCAL) }`, parser stops on the closing `}`;
* `parse_mart_statement_partial` : the same for mart (default LOCAL), items = IDENT tokens, item
  strings after constant substitution. Restricted to lists without poryswitch (the mart list
  parse∘print theorem of C14b is); `parse_mart_statement_gen` is the unrestricted scope fact:
  whatever list `parseListValue` returns, the statement carries the written / default scope;
* `parse_text_statement` : string-literal bodies `STRING` / `STRINGTYPE STRING`; `isGlobal` is
  `true` iff the written modifier is `global`, or absent (documented default GLOBAL); the text is
  also appended to `textStatements`. `parse_text_statement_gen`: any body (poryswitch / format);
* `parse_script_statement_gen`, `parse_mapscripts_statement_gen` : the same scope fact for
  `script` and `mapscripts` statements (default GLOBAL), for whatever body the block / entry
  parsers return;
* `parse_raw_statement`, `raw_takes_no_modifier` : `raw` has no scope and accepts no modifier;
* `scope_is_written_or_default` : the scope of these statements is never anything but the default,
  GLOBAL or LOCAL;
* `mapscript_inline_scripts_local`, `table_inline_scripts_local` : every inline script built by
  `parseMapScriptEntries` / `parseTableEntries` has `scope = LOCAL` (invariant over the loops).
-/
namespace Pory.C15b
open Pory Pory.Parser Pory.C02P Pory.TopParse Pory.C14b

/-! ### `parseScopeModifier` -/

/-- No `(` follows the keyword: the default scope, nothing consumed. -/
theorem scope_modifier_absent (d : TT) (s : PState) (h : (s.toks.getD 1 s.eof).type ≠ .LPAREN) :
    (parseScopeModifier d).run s = .ok (d, s) := scope_absent d s h

/-- `kw ( global )` ↦ GLOBAL, `kw ( local )` ↦ LOCAL; three tokens consumed (the window now
starts at the `)`). -/
theorem scope_modifier_present (d : TT) (s : PState) (kw lp m rp : Tok) (tl : List Tok)
    (hlp : lp.type = .LPAREN) (hrp : rp.type = .RPAREN) :
    (m.type = .GLOBAL → (parseScopeModifier d).run (st s (kw :: lp :: m :: rp :: tl)) =
        .ok (.GLOBAL, st s (rp :: tl))) ∧
    (m.type = .LOCAL → (parseScopeModifier d).run (st s (kw :: lp :: m :: rp :: tl)) =
        .ok (.LOCAL, st s (rp :: tl))) := by
  constructor
  · intro hm; rw [scope_present d s kw lp m rp tl hlp (Or.inl hm) hrp, hm]
  · intro hm; rw [scope_present d s kw lp m rp tl hlp (Or.inr hm) hrp, hm]

/-- Anything else in the modifier position: error located on the offending token. -/
theorem scope_modifier_bad (d : TT) (s : PState) (kw lp m : Tok) (tl : List Tok)
    (hlp : lp.type = .LPAREN) (h1 : m.type ≠ .GLOBAL) (h2 : m.type ≠ .LOCAL) :
    (parseScopeModifier d).run (st s (kw :: lp :: m :: tl)) =
      .error (newParseError m s!"scope modifier must be 'global' or 'local', but got '{m.lit}' instead") :=
  scope_bad_modifier d s kw lp m tl hlp h1 h2

/-- A missing `)`: error located on the modifier token (Go reports `p.curToken` here), the
message names the offending token. -/
theorem scope_modifier_missing_rparen (d : TT) (s : PState) (kw lp m x : Tok) (tl : List Tok)
    (hlp : lp.type = .LPAREN) (hm : m.type = .GLOBAL ∨ m.type = .LOCAL) (hx : x.type ≠ .RPAREN) :
    (parseScopeModifier d).run (st s (kw :: lp :: m :: x :: tl)) =
      .error (newParseError m s!"missing ')' after scope modifier. Got '{x.lit}' instead") :=
  scope_missing_rparen d s kw lp m x tl hlp hm hx

/-- The scope a written-or-absent modifier yields is the default, GLOBAL or LOCAL. -/
theorem scope_is_written_or_default (d : TT) (md : Mod) (h : md.WF) :
    md.scope d = d ∨ md.scope d = .GLOBAL ∨ md.scope d = .LOCAL := Mod.scope_cases d md h

theorem scope_written_global (d : TT) (lp m rp : Tok) (h : m.type = .GLOBAL) :
    (Mod.written lp m rp).scope d = .GLOBAL := h
theorem scope_written_local (d : TT) (lp m rp : Tok) (h : m.type = .LOCAL) :
    (Mod.written lp m rp).scope d = .LOCAL := h
theorem scope_default (d : TT) : Mod.absent.scope d = d := rfl

/-! ### movement statements -/

/-- The scope fact without any assumption on the list: whatever `parseListValue` returns for the
body, the statement carries the written / default scope, the keyword token and the name. -/
theorem parse_movement_statement_gen (env : Env) (fuel : Nat) (s : PState) (kw : Tok) (md : Mod)
    (name lb : Tok) (body : List Tok) (hmd : md.WF) (hname : name.type = .IDENT)
    (hlb : lb.type = .LBRACE) (cmds : List Tok) (s1 : PState)
    (hbody : (parseListValue env (.movement .RBRACE) true fuel []).run (st s body) = .ok (cmds, s1)) :
    (parseMovementStatement env fuel).run (st s (kw :: (md.toks ++ name :: lb :: body))) =
      .ok (.movement { tok := kw, name := name.lit, cmds := cmds,
                       scope := md.scope (defaultScopeOf "parseMovementStatement") }, s1) := by
  unfold parseMovementStatement
  simp [scope_mod _ s kw md name (lb :: body) hmd (by simp [hname]), hname, hlb, hbody]

/-- **C15, movement.** `movement [(mod)] Name { items }` (items may contain poryswitch). -/
theorem parse_movement_statement (env : Env) (s : PState) (kw : Tok) (md : Mod) (name lb : Tok)
    (items : Items) (rb : Tok) (rest : List Tok) (hmd : md.WF) (hname : name.type = .IDENT)
    (hlb : lb.type = .LBRACE) (hrb : rb.type = .RBRACE) (hwf : wfItems env items)
    (out : List Tok) (hex : expItems env items = some out) (fuel : Nat)
    (hf : items.toks.length + 1 ≤ fuel) :
    (parseMovementStatement env fuel).run
        (st s (kw :: (md.toks ++ name :: lb :: (items.toks ++ rb :: rest)))) =
      .ok (.movement { tok := kw, name := name.lit, cmds := out,
                       scope := md.scope (defaultScopeOf "parseMovementStatement") },
           st s (rb :: rest)) := by
  have hb := parse_movement_list_switch env .RBRACE (Or.inl rfl) s items rb rest hwf hrb out hex []
    fuel hf
  simpa using parse_movement_statement_gen env fuel s kw md name lb _ hmd hname hlb _ _ hb

/-- The poryswitch-free instance, on the `printItems` / `expand` of C14b. -/
theorem parse_movement_statement_plain (env : Env) (s : PState) (kw : Tok) (md : Mod)
    (name lb : Tok) (items : List Item) (rb : Tok) (rest : List Tok) (hmd : md.WF)
    (hname : name.type = .IDENT) (hlb : lb.type = .LBRACE) (hrb : rb.type = .RBRACE)
    (hwf : ∀ i ∈ items, i.WF) (out : List Tok) (hex : expand items = some out) (fuel : Nat)
    (hf : (printItems items).length + 1 ≤ fuel) :
    (parseMovementStatement env fuel).run
        (st s (kw :: (md.toks ++ name :: lb :: (printItems items ++ rb :: rest)))) =
      .ok (.movement { tok := kw, name := name.lit, cmds := out,
                       scope := md.scope (defaultScopeOf "parseMovementStatement") },
           st s (rb :: rest)) := by
  have hb := parse_movement_list env .RBRACE (Or.inl rfl) s items rb rest hwf hrb out hex [] fuel hf
  simpa using parse_movement_statement_gen env fuel s kw md name lb _ hmd hname hlb _ _ hb

/-- Default of a movement statement: LOCAL. -/
theorem movement_default_local : defaultScopeOf "parseMovementStatement" = .LOCAL := by decide

/-! ### mart statements -/

theorem parse_mart_statement_gen (env : Env) (fuel : Nat) (s : PState) (kw : Tok) (md : Mod)
    (name lb : Tok) (body : List Tok) (hmd : md.WF) (hname : name.type = .IDENT)
    (hlb : lb.type = .LBRACE) (items : List Tok) (s1 : PState)
    (hbody : (parseListValue env .mart true fuel []).run (st s body) = .ok (items, s1)) :
    (parseMartStatement env fuel).run (st s (kw :: (md.toks ++ name :: lb :: body))) =
      .ok (.mart kw name.lit items (items.map fun t => substC s1.constants t.lit)
             (md.scope (defaultScopeOf "parseMartStatement")), s1) := by
  unfold parseMartStatement
  simp [scope_mod _ s kw md name (lb :: body) hmd (by simp [hname]), hname, hlb, hbody,
    mapM_tryReplace]

/-- **C15, mart.** `mart [(mod)] Name { ITEM* }`. Partial: items are plain IDENT tokens (no
poryswitch inside the list). -/
theorem parse_mart_statement_partial (env : Env) (s : PState) (kw : Tok) (md : Mod) (name lb : Tok)
    (items : List Tok) (rb : Tok) (rest : List Tok) (hmd : md.WF) (hname : name.type = .IDENT)
    (hlb : lb.type = .LBRACE) (hrb : rb.type = .RBRACE) (hi : ∀ t ∈ items, t.type = .IDENT)
    (fuel : Nat) (hf : items.length + 1 ≤ fuel) :
    (parseMartStatement env fuel).run
        (st s (kw :: (md.toks ++ name :: lb :: (items ++ rb :: rest)))) =
      .ok (.mart kw name.lit items (items.map fun t => substC s.constants t.lit)
             (md.scope (defaultScopeOf "parseMartStatement")), st s (rb :: rest)) := by
  have hb := parse_mart_list env s items rb rest hi hrb [] fuel hf
  simpa using parse_mart_statement_gen env fuel s kw md name lb _ hmd hname hlb _ _ hb

/-- The full statement (mart lists with poryswitch elements), not proved here: it needs the mart
analogue of `C14b.parse_movement_list_switch`. -/
def parse_mart_statement_full : Prop :=
  ∀ (env : Env) (s : PState) (kw : Tok) (md : Mod) (name lb : Tok) (body : List Tok) (rb : Tok)
    (rest : List Tok) (items : List Tok) (fuel : Nat),
    md.WF → name.type = .IDENT → lb.type = .LBRACE → rb.type = .RBRACE →
    (parseListValue env .mart true fuel []).run (st s (body ++ rb :: rest)) =
      .ok (items, st s (rb :: rest)) →
    (parseMartStatement env fuel).run (st s (kw :: (md.toks ++ name :: lb :: (body ++ rb :: rest)))) =
      .ok (.mart kw name.lit items (items.map fun t => substC s.constants t.lit)
             (md.scope (defaultScopeOf "parseMartStatement")), st s (rb :: rest))

/-- … which, as a statement about the scope alone, does hold (it is `parse_mart_statement_gen`). -/
theorem parse_mart_statement_full_holds : parse_mart_statement_full := by
  intro env s kw md name lb body rb rest items fuel hmd hname hlb _ hb
  simpa using parse_mart_statement_gen env fuel s kw md name lb _ hmd hname hlb _ _ hb

theorem mart_default_local : defaultScopeOf "parseMartStatement" = .LOCAL := by decide

/-! ### text statements -/

/-- The text record a text statement produces. -/
def mkText (kw name : Tok) (scope : TT) (v : String × String) : Text :=
  { name := name.lit, value := v.1, stringType := v.2, isGlobal := scope == .GLOBAL, tok := kw }

/-- Any body: if the body parser (`parsePoryswitchTextStatement` when the body starts with
`poryswitch`, `parseTextValue` otherwise) returns `v` and stops on a token followed by `}`, the
statement is the text with the written / default scope. -/
theorem parse_text_statement_gen (env : Env) (fuel : Nat) (s : PState) (kw : Tok) (md : Mod)
    (name lb : Tok) (body : List Tok) (hmd : md.WF) (hname : name.type = .IDENT)
    (hlb : lb.type = .LBRACE) (v : String × String) (last rb : Tok) (rest : List Tok)
    (hrb : rb.type = .RBRACE)
    (hbody : (if (body.headD s.eof).type = .PORYSWITCH then parsePoryswitchTextStatement env fuel
              else parseTextValue env fuel).run (st s body) = .ok (v, st s (last :: rb :: rest))) :
    (parseTextStatement env fuel).run (st s (kw :: (md.toks ++ name :: lb :: body))) =
      .ok (.text (mkText kw name (md.scope (defaultScopeOf "parseTextStatement")) v),
           { st s (rb :: rest) with textStatements := s.textStatements ++
               [mkText kw name (md.scope (defaultScopeOf "parseTextStatement")) v] }) := by
  unfold parseTextStatement
  by_cases hp : (body.headD s.eof).type = .PORYSWITCH
  · simp only [hp, if_true] at hbody
    simp only [List.headD_eq_head?_getD] at hp
    simp [scope_mod _ s kw md name (lb :: body) hmd (by simp [hname]), hname, hlb, hp, hbody, hrb,
      mkText]
    try rfl
  · simp only [hp, if_false] at hbody
    simp only [List.headD_eq_head?_getD] at hp
    simp [scope_mod _ s kw md name (lb :: body) hmd (by simp [hname]), hname, hlb, hp, hbody, hrb,
      mkText]
    try rfl

/-- **C15, text.** `text [(mod)] Name { STRING }` / `{ STRINGTYPE STRING }`: `isGlobal` iff the
scope (written, else the documented default) is GLOBAL. -/
theorem parse_text_statement (env : Env) (fuel : Nat) (s : PState) (kw : Tok) (md : Mod)
    (name lb : Tok) (v : TextVal) (rb : Tok) (rest : List Tok) (hmd : md.WF)
    (hname : name.type = .IDENT) (hlb : lb.type = .LBRACE) (hv : v.WF) (hrb : rb.type = .RBRACE) :
    (parseTextStatement env fuel).run
        (st s (kw :: (md.toks ++ name :: lb :: (v.toks ++ rb :: rest)))) =
      .ok (.text (mkText kw name (md.scope (defaultScopeOf "parseTextStatement")) v.value),
           { st s (rb :: rest) with textStatements := s.textStatements ++
               [mkText kw name (md.scope (defaultScopeOf "parseTextStatement")) v.value] }) := by
  refine parse_text_statement_gen env fuel s kw md name lb _ hmd hname hlb v.value v.str rb rest hrb ?_
  have hh : ((v.toks ++ rb :: rest).headD s.eof).type ≠ .PORYSWITCH := by
    cases v with
    | plain str => simp only [TextVal.WF] at hv; simp [TextVal.toks, hv]
    | typed ty str => simp only [TextVal.WF] at hv; simp [TextVal.toks, hv.1]
  simp only [hh, if_false]
  exact textValue_run env fuel s v (rb :: rest) hv

/-- Default of a text statement: GLOBAL; so `isGlobal` without a modifier. -/
theorem text_default_global (kw name : Tok) (v : String × String) :
    (mkText kw name (Mod.absent.scope (defaultScopeOf "parseTextStatement")) v).isGlobal = true := by
  have : defaultScopeOf "parseTextStatement" = .GLOBAL := by decide
  simp [mkText, Mod.scope, this]

theorem text_isGlobal_iff (kw name : Tok) (v : String × String) (sc : TT) :
    (mkText kw name sc v).isGlobal = true ↔ sc = .GLOBAL := by simp [mkText]

/-! ### raw statements -/

/-- **C15, raw.** `raw RAWSTRING`: no scope, no name; stops on the raw string token. -/
theorem parse_raw_statement (s : PState) (kw v : Tok) (rest : List Tok) (hv : v.type = .RAWSTRING) :
    parseRawStatement.run (st s (kw :: v :: rest)) = .ok (.raw kw v v.lit, st s (v :: rest)) := by
  unfold parseRawStatement
  simp [hv]

/-- `raw` accepts no scope modifier (nor anything else but a raw string): range error from the
`raw` token to the offending token. -/
theorem raw_takes_no_modifier (s : PState) (kw x : Tok) (rest : List Tok) (hx : x.type ≠ .RAWSTRING) :
    parseRawStatement.run (st s (kw :: x :: rest)) =
      .error (newRangeParseError kw x "raw statement must begin with a backtick character '`'") := by
  unfold parseRawStatement
  simp [hx]

/-! ### script and mapscripts statements -/

/-- **C15, script.** `script [(mod)] Name { … }`: whatever block `parseBlockStatement` returns for
the body, the script carries the written scope, else the documented default (GLOBAL). -/
theorem parse_script_statement_gen (env : Env) (fuel : Nat) (s : PState) (kw : Tok) (md : Mod)
    (name lb : Tok) (body : List Tok) (hmd : md.WF) (hname : name.type = .IDENT)
    (hlb : lb.type = .LBRACE) (r : List Stmt × ImpData) (s1 : PState)
    (hbody : (parseBlockStatement env name.lit lb fuel [] {}).run (st s body) = .ok (r, s1)) :
    (parseScriptStatement env fuel).run (st s (kw :: (md.toks ++ name :: lb :: body))) =
      .ok (({ tok := kw, name := name.lit, body := r.1,
              scope := md.scope (defaultScopeOf "parseScriptStatement") }, r.2), s1) := by
  unfold parseScriptStatement
  simp [scope_mod _ s kw md name (lb :: body) hmd (by simp [hname]), hname, hlb, hbody]

/-- **C15, mapscripts.** `mapscripts [(mod)] Name { … }`: written scope, else GLOBAL; the
statement's token is the name token (as in Go). -/
theorem parse_mapscripts_statement_gen (env : Env) (fuel : Nat) (s : PState) (kw : Tok) (md : Mod)
    (name lb : Tok) (body : List Tok) (hmd : md.WF) (hname : name.type = .IDENT)
    (hlb : lb.type = .LBRACE) (r : List MapScript × List TableMapScript × ImpData) (s1 : PState)
    (hbody : (parseMapScriptEntries env name.lit fuel [] [] {}).run (st s body) = .ok (r, s1)) :
    (parseMapscriptsStatement env fuel).run (st s (kw :: (md.toks ++ name :: lb :: body))) =
      .ok (({ tok := name, name := name.lit, mapScripts := r.1, tables := r.2.1,
              scope := md.scope (defaultScopeOf "parseMapscriptsStatement") }, r.2.2), s1) := by
  unfold parseMapscriptsStatement
  simp [scope_mod _ s kw md name (lb :: body) hmd (by simp [hname]), hname, hlb, hbody]

theorem script_mapscripts_default_global :
    defaultScopeOf "parseScriptStatement" = .GLOBAL ∧
    defaultScopeOf "parseMapscriptsStatement" = .GLOBAL := by decide

/-! ### inline scripts of mapscripts are local -/

/-- Every inline script among map-script entries / table entries is LOCAL. -/
def MsLocal (mss : List MapScript) : Prop := ∀ m ∈ mss, ∀ scr, m.script = some scr → scr.scope = .LOCAL
def TeLocal (es : List TableEntry) : Prop := ∀ e ∈ es, ∀ scr, e.script = some scr → scr.scope = .LOCAL
def TblLocal (ts : List TableMapScript) : Prop := ∀ t ∈ ts, TeLocal t.entries

theorem wp_any {α} (m : PM α) (s : PState) (Q : α → PState → Prop) (h : ∀ a s', Q a s') : wp m s Q :=
  fun a s' _ => h a s'

theorem TeLocal.snoc {es : List TableEntry} {e : TableEntry} (h : TeLocal es)
    (he : ∀ scr, e.script = some scr → scr.scope = .LOCAL) : TeLocal (es ++ [e]) := by
  intro x hx
  rcases List.mem_append.mp hx with hx | hx
  · exact h x hx
  · simp at hx; subst hx; exact he

theorem MsLocal.snoc {es : List MapScript} {e : MapScript} (h : MsLocal es)
    (he : ∀ scr, e.script = some scr → scr.scope = .LOCAL) : MsLocal (es ++ [e]) := by
  intro x hx
  rcases List.mem_append.mp hx with hx | hx
  · exact h x hx
  · simp at hx; subst hx; exact he

/-- `parseTableEntries`: every entry it adds either has no inline script or a LOCAL one. -/
theorem table_inline_scripts_local (env : Env) (ms ty : String) : ∀ (n i : Nat)
    (acc : List TableEntry) (imp : ImpData) (s : PState), TeLocal acc →
    wp (parseTableEntries env ms ty n i acc imp) s (fun r _ => TeLocal r.1) := by
  intro n
  induction n with
  | zero => intro i acc imp s _; rw [parseTableEntries]; exact fun _ _ h => by simp at h
  | succ n ih =>
    intro i acc imp s hacc
    rw [parseTableEntries]
    simp only [wp_bind, wp_curIs, wp_cur, wp_ite, wp_pure, wp_fail, wp_nextToken, wp_expectPeek,
      wp_peek, Bool.not_eq_true']
    split
    · exact hacc
    · apply wp_any; intro cv s1
      split
      · trivial
      · apply wp_any; intro cmp s2
        split
        · trivial
        · split
          · split
            · exact ih _ _ _ _ (hacc.snoc (by intro scr h; cases h))
            · trivial
          · apply wp_any; intro r s3
            exact ih _ _ _ _ (hacc.snoc (by intro scr h; cases h; rfl))

/-- `parseMapScriptEntries`: every inline script (directly under a map-script type, or in a table
entry) is LOCAL. -/
theorem mapscript_inline_scripts_local (env : Env) (ms : String) : ∀ (n : Nat)
    (mss : List MapScript) (tables : List TableMapScript) (imp : ImpData) (s : PState),
    MsLocal mss → TblLocal tables →
    wp (parseMapScriptEntries env ms n mss tables imp) s (fun r _ => MsLocal r.1 ∧ TblLocal r.2.1) := by
  intro n
  induction n with
  | zero => intro mss tables imp s _ _; rw [parseMapScriptEntries]; exact fun _ _ h => by simp at h
  | succ n ih =>
    intro mss tables imp s hm ht
    rw [parseMapScriptEntries]
    simp only [wp_bind, wp_cur, wp_ite, wp_pure, wp_fail, wp_nextToken, wp_expectPeek,
      wp_peek, Bool.not_eq_true']
    split
    · exact ⟨hm, ht⟩
    · split
      · trivial
      · split
        · split
          · exact ih _ _ _ _ (hm.snoc (by intro scr h; cases h)) ht
          · trivial
        · split
          · apply wp_any; intro r s3
            exact ih _ _ _ _ (hm.snoc (by intro scr h; cases h; rfl)) ht
          · split
            · refine wp_mono (table_inline_scripts_local env ms _ n 0 [] {} _ (by intro e he; cases he)) ?_
              intro r s4 hr
              refine ih _ _ _ _ hm ?_
              intro t htm
              rcases List.mem_append.mp htm with htm | htm
              · exact ht t htm
              · simp at htm; subst htm; exact hr
            · trivial

/-! ### non-vacuity -/

/-- `movement (global) Walk { walk_up , walk_down * 0x3 face_left * 010 }` -/
example (env : Env) (s : PState) (rest : List Tok) :
    (parseMovementStatement env 9).run
        (st s (tk .MOVEMENT "movement" :: tk .LPAREN "(" :: tk .GLOBAL "global" :: tk .RPAREN ")" ::
          tk .IDENT "Walk" :: tk .LBRACE "{" :: (printItems exItems ++ tk .RBRACE "}" :: rest))) =
      .ok (.movement { tok := tk .MOVEMENT "movement", name := "Walk",
                       cmds := [tk .IDENT "walk_up"] ++ List.replicate 3 (tk .IDENT "walk_down") ++
                         List.replicate 8 (tk .IDENT "face_left"),
                       scope := .GLOBAL }, st s (tk .RBRACE "}" :: rest)) := by
  have := parse_movement_statement_plain env s (tk .MOVEMENT "movement")
    (.written (tk .LPAREN "(") (tk .GLOBAL "global") (tk .RPAREN ")")) (tk .IDENT "Walk")
    (tk .LBRACE "{") exItems (tk .RBRACE "}") rest ⟨rfl, Or.inl rfl, rfl⟩ rfl rfl rfl exItems_wf _
    exItems_expand 9 (by decide)
  simpa [Mod.toks, Mod.scope] using this

/-- `movement Walk { poryswitch … }` with `-s GAME=EMERALD`: no modifier ↦ LOCAL. -/
example (s : PState) (rest : List Tok) :
    (parseMovementStatement exEnv 23).run
        (st s (tk .MOVEMENT "movement" :: tk .IDENT "Walk" :: tk .LBRACE "{" ::
          (exSwitch.toks ++ tk .RBRACE "}" :: rest))) =
      .ok (.movement { tok := tk .MOVEMENT "movement", name := "Walk",
                       cmds := [tk .IDENT "walk_up", tk .IDENT "walk_down", tk .IDENT "walk_down",
                         tk .IDENT "walk_right"],
                       scope := .LOCAL }, st s (tk .RBRACE "}" :: rest)) := by
  have := parse_movement_statement exEnv s (tk .MOVEMENT "movement") .absent (tk .IDENT "Walk")
    (tk .LBRACE "{") exSwitch (tk .RBRACE "}") rest trivial rfl rfl rfl exSwitch_wf _ exSwitch_exp 23
    (by decide)
  simpa [Mod.toks, Mod.scope, movement_default_local] using this

/-- `mart (global) Shop { ITEM_A ITEM_B }` with `const ITEM_B = 7`. -/
example (env : Env) (s : PState) (rest : List Tok) (hc : s.constants = [("ITEM_B", "7")]) :
    (parseMartStatement env 3).run
        (st s (tk .MART "mart" :: tk .LPAREN "(" :: tk .GLOBAL "global" :: tk .RPAREN ")" ::
          tk .IDENT "Shop" :: tk .LBRACE "{" :: tk .IDENT "ITEM_A" :: tk .IDENT "ITEM_B" ::
          tk .RBRACE "}" :: rest)) =
      .ok (.mart (tk .MART "mart") "Shop" [tk .IDENT "ITEM_A", tk .IDENT "ITEM_B"] ["ITEM_A", "7"]
             .GLOBAL, st s (tk .RBRACE "}" :: rest)) := by
  have := parse_mart_statement_partial env s (tk .MART "mart")
    (.written (tk .LPAREN "(") (tk .GLOBAL "global") (tk .RPAREN ")")) (tk .IDENT "Shop")
    (tk .LBRACE "{") [tk .IDENT "ITEM_A", tk .IDENT "ITEM_B"] (tk .RBRACE "}") rest
    ⟨rfl, Or.inl rfl, rfl⟩ rfl rfl rfl (by simp) 3 (by decide)
  have h1 : substC [("ITEM_B", "7")] "ITEM_A" = "ITEM_A" := by decide
  have h2 : substC [("ITEM_B", "7")] "ITEM_B" = "7" := by decide
  simpa [Mod.toks, Mod.scope, hc, h1, h2] using this

/-- `text (local) Msg { braille "HI" }` ↦ not exported; `text Msg { "Hi" }` ↦ exported. -/
example (env : Env) (s : PState) (rest : List Tok) :
    ∃ s', (parseTextStatement env 0).run
        (st s (tk .TEXT "text" :: tk .LPAREN "(" :: tk .LOCAL "local" :: tk .RPAREN ")" ::
          tk .IDENT "Msg" :: tk .LBRACE "{" :: tk .STRINGTYPE "braille" :: tk .STRING "HI" ::
          tk .RBRACE "}" :: rest)) =
      .ok (.text { name := "Msg", value := formatTextTerminator "HI" "braille",
                   stringType := "braille", isGlobal := false, tok := tk .TEXT "text" }, s') := by
  have := parse_text_statement env 0 s (tk .TEXT "text")
    (.written (tk .LPAREN "(") (tk .LOCAL "local") (tk .RPAREN ")")) (tk .IDENT "Msg")
    (tk .LBRACE "{") (.typed (tk .STRINGTYPE "braille") (tk .STRING "HI")) (tk .RBRACE "}") rest
    ⟨rfl, Or.inr rfl, rfl⟩ rfl rfl ⟨rfl, rfl⟩ rfl
  exact ⟨_, this⟩

example (env : Env) (s : PState) (rest : List Tok) :
    ∃ s', (parseTextStatement env 0).run
        (st s (tk .TEXT "text" :: tk .IDENT "Msg" :: tk .LBRACE "{" :: tk .STRING "Hi" ::
          tk .RBRACE "}" :: rest)) =
      .ok (.text { name := "Msg", value := formatTextTerminator "Hi" "",
                   stringType := "", isGlobal := true, tok := tk .TEXT "text" }, s') := by
  have := parse_text_statement env 0 s (tk .TEXT "text") .absent (tk .IDENT "Msg")
    (tk .LBRACE "{") (.plain (tk .STRING "Hi")) (tk .RBRACE "}") rest trivial rfl rfl rfl rfl
  exact ⟨_, this⟩

example (s : PState) (rest : List Tok) :
    parseRawStatement.run (st s (tk .RAW "raw" :: tk .RAWSTRING "step_end" :: rest)) =
      .ok (.raw (tk .RAW "raw") (tk .RAWSTRING "step_end") "step_end",
           st s (tk .RAWSTRING "step_end" :: rest)) :=
  parse_raw_statement s _ _ rest rfl

/-- `movement ( static )` — error on `static`. -/
example (s : PState) (rest : List Tok) :
    (parseScopeModifier .LOCAL).run
        (st s (tk .MOVEMENT "movement" :: tk .LPAREN "(" :: tk .IDENT "static" :: rest)) =
      .error (newParseError (tk .IDENT "static")
        "scope modifier must be 'global' or 'local', but got 'static' instead") := by
  have := scope_modifier_bad .LOCAL s (tk .MOVEMENT "movement") (tk .LPAREN "(") (tk .IDENT "static")
    rest rfl (by decide) (by decide)
  exact this.trans (congrArg (fun m => Except.error (newParseError (tk .IDENT "static") m)) (by decide))

end Pory.C15b
