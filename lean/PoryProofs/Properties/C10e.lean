import PoryProofs.SourceCensus
import PoryProofs.SourceCensusIds
import PoryProofs.Properties.P1c
import PoryProofs.Properties.C10d
/-
C10e — THE COMMAND CENSUS FOR PARSED PROGRAMS, FROM SOURCE TOKENS (closing the parser side of C10d).
Property C10: "commands pass through verbatim: name and arguments as written (constants substituted, inline
texts / moves() replaced by their labels), never dropped, duplicated or reordered within straight-line code".

Helper modules: PoryProofs/SourceCensus.lean (definitions `surfS` / `surfL` / …, the 7-function mutual induction
over `P1c.elabS` … `elabPCases`, the condition grammar `GOr CLeaf`, the poryswitch table invariant) and
PoryProofs/SourceCensusIds.lean (the ids increase strictly; the id-free recursion `writtenS` / `writtenL` / … and
its agreement with `surfL`).

SURFACE SYNTAX: `P1c.SStmt` (PoryProofs/StmtGrammarMS.lean) — the WHOLE statement grammar of P1c (commands whose
arguments may hold strings, typed strings, `format( … )`, `moves( … )` with nested poryswitch; labels; `if` /
`elif` / `else`; `while`; `do … while`; `break`; `continue`; `switch` on `var( … )` or on an AutoVar command;
statement-level `poryswitch`; conditions with AutoVar leaves anywhere).

1. `surfaceCmds env b cid0 : List (CmdM × Nat)` — the command forms the author wrote in the body `b`, in source
   order at any depth, EACH WITH THE COMMAND ID the parser hands out to it when the body starts at command id
   `cid0`.  A statement `poryswitch` contributes the commands of its SELECTED case only (newest case with the
   `-s` value, else `_`, else nothing) — but all its cases consume command ids, so the ids of the listed commands
   need not be contiguous.  AutoVar condition leaves (`CLeaf.auto` / `CLeaf.autoV`) contribute their command at
   the place of the condition (for `do … while` after the body), `switch ( cmd )` contributes `cmd` before its
   cases.  `surfaceForms` = the same without the ids = `writtenCmds env b` (`surfaceForms_eq`), a plain recursion
   over the surface syntax without counters.  `surfaceCmds_ids` : the ids increase strictly in source order, within
   [counter at `{`, counter at `}`).
2. `elab_cmds` : if the reference elaboration succeeds, `C10d.cmdsOf body` IS the list
   `(surfaceCmds …).map fun (c, cid) => c.node σ cid` (equality of lists: one-to-one, in order), every listed
   command elaborates — `c.elabC env sn σ cid = .ok (c.node σ cid, c.imp env sn cid)` —, and the command-id counter
   after the body is the one `surfL` computes.  `elab_cmds_forms` : names / arguments of `cmdsOf body` = those of
   `writtenCmds env b`, and the ids of `cmdsOf body` increase strictly (nothing duplicated).
   `elab_cmds_pointwise` : the same position by position, through
   `CmdM.elabC`, with name / number of arguments / arguments spelled out; `written_arg` : an argument is the
   blank-joined list of the parts of its elements, `argPart σ t` (constant substituted) for a plain token and the
   EMPTY string for a string / typed string / `format( … )` / `moves( … )` element (`written_part_moves`,
   `P1c.moves_arg_imp`), which the hoisting patches fill (`renderCommand patches`, keyed by (command id, position)).
3. `source_command_census` : for `script [mod] Name { b }` printed as tokens — if the parser (`parseScriptStatement`)
   accepts them with result `scr` and the emitter accepts `scr` (any options: both chunk orders, any patches) —
   then with `W := (surfaceCmds env b s.nextCmdId).map (nd σ)`:
     `cmdsOf scr.body = W`;
     `cmdLinesOf ls ++ (absorbedCmds scr.body).map render ~ W.map render`   (every written command once);
     `cmdLinesOf ls ~ (emittedCmds scr.body).map render`, `emittedCmds scr.body <+ W` (source order kept),
     the commands left out (`absorbedCmds`) are block-final `end` / `return` only.
   `source_command_census_orders` : the optimised and the unoptimised output have the same command lines up to
   order, both a permutation of the written commands minus the absorbed ones.
   `no_written_command_dropped` : every written (selected) command that is not `end` / `return` has its line.

NOTHING IS PARTIAL for the statement level.  NOT DONE: lifting to whole FILES (`L2.compile_source`, several
scripts, the hoisting pass that computes `patches` from the implicit data): the statements here stop at one
`script` statement, like `P1c.parse_script_print`; `patches` is arbitrary.

BEHAVIOUR WORTH KNOWING: the cases of a statement poryswitch that are NOT selected still consume command ids
(and their inline texts would be dropped with them, P1c); so command ids in the output are not dense.
-/
namespace Pory.C10e
open Pory Pory.Parser Pory.P1c Pory.C02P Pory.C10b Pory.BoolGen Pory.C10d Pory.CmdGen Pory.Emit Pory.LeafGen
open Pory.TextValueParse
open Pory.StmtG (Ctx ctxOf)

/-- **The written commands** of a surface body, each with its command id (`cid0` = the counter at the `{`). -/
def surfaceCmds (env : Env) (b : List SStmt) (cid0 : Nat) : List SCmd := (surfL env b cid0).1

/-- … the command forms alone. -/
def surfaceForms (env : Env) (b : List SStmt) (cid0 : Nat) : List CmdM := (surfaceCmds env b cid0).map (·.1)

/-- **The written command forms — a plain recursion over the surface syntax, no counters** (item 1 literally):
`writtenL env b` (PoryProofs/SourceCensusIds.lean) lists `SStmt.cmd c ↦ c`, AutoVar leaves of conditions left to
right, `switch ( cmd )` operands, bodies at any depth in source order, and for a statement `poryswitch` the
commands of the case `selectCase` picks.  It is `surfaceForms` whatever the start counter. -/
abbrev writtenCmds (env : Env) (b : List SStmt) : List CmdM := writtenL env b

theorem surfaceForms_eq (env : Env) (b : List SStmt) (cid0 : Nat) : surfaceForms env b cid0 = writtenCmds env b :=
  surfL_fst env b cid0

/-- **The command ids of the written commands** increase strictly in source order and lie between the counter at
the `{` and the counter at the `}`: no written command is listed twice, and different written commands have
different hoisting-patch keys. -/
theorem surfaceCmds_ids (env : Env) (b : List SStmt) (cid0 : Nat) :
    cid0 ≤ (surfL env b cid0).2 ∧ ((surfaceCmds env b cid0).map (·.2)).Pairwise (· < ·) ∧
    ∀ p ∈ surfaceCmds env b cid0, cid0 ≤ p.2 ∧ p.2 < (surfL env b cid0).2 :=
  surfL_rng env b cid0

/-- **elab_cmds.** -/
theorem elab_cmds (env : Env) (sn : String) (c : Ctx) (b : List SStmt) (body : List Stmt) (data : ImpData)
    (c' : Ctx) (h : elabE env sn c b = .ok (body, data, c')) :
    cmdsOf body = (surfaceCmds env b c.nextCmdId).map (fun p => p.1.node (substC c.consts) p.2) ∧
    (∀ p ∈ surfaceCmds env b c.nextCmdId,
      p.1.elabC env sn (substC c.consts) p.2 = .ok (p.1.node (substC c.consts) p.2, p.1.imp env sn p.2)) ∧
    c'.nextCmdId = (surfL env b c.nextCmdId).2 := by
  unfold elabE at h
  split at h
  · cases h
  · rename_i stmts imp sid cid hl
    simp only [Except.ok.injEq, Prod.mk.injEq] at h
    obtain ⟨hb, _, hc⟩ := h
    subst hb hc
    obtain ⟨⟨h1, h2⟩, h3⟩ := elabL_cmds env sn (substC c.consts) b _ _ true _ _ _ _ _ _ hl
    refine ⟨h1, ?_, h3⟩
    intro p hp
    unfold CmdM.elabC
    rw [h2 p hp]

/-- `elab_cmds` without ids: names and arguments of `cmdsOf body` are those of the written forms, in order; and
the ids of `cmdsOf body` increase strictly (never duplicated). -/
theorem elab_cmds_forms (env : Env) (sn : String) (c : Ctx) (b : List SStmt) (body : List Stmt) (data : ImpData)
    (c' : Ctx) (h : elabE env sn c b = .ok (body, data, c')) :
    (cmdsOf body).map (fun x => (x.name, x.args)) =
      (writtenCmds env b).map (fun w => (w.name.lit, w.rendered (substC c.consts))) ∧
    ((cmdsOf body).map (·.id)).Pairwise (· < ·) := by
  obtain ⟨h1, -, -⟩ := elab_cmds env sn c b body data c' h
  rw [h1, ← surfaceForms_eq env b c.nextCmdId]
  unfold surfaceForms
  simp only [List.map_map]
  exact ⟨rfl, (surfaceCmds_ids env b c.nextCmdId).2.1⟩

/-- An argument as rendered in the command node: the parts of its elements joined by blanks. -/
theorem written_arg (σ : String → String) (a : List MElem) :
    renderArgM σ a = joinSp (a.map fun e => C10c.partE σ e.skel) := by
  simp [renderArgM, C10c.renderArgE, List.map_map, Function.comp_def]

/-- A plain token contributes its text with constants substituted … -/
theorem written_part_tok (σ : String → String) (t : Tok) : C10c.partE σ (.tok t) = C10b.argPart σ t := rfl
/-- … a `moves( … )` with poryswitch elements the EMPTY string. -/
theorem written_part_moves (σ : String → String) (mv lp : Tok) (items : C14b.Items) (rp : Tok) :
    C10c.partE σ (MElem.movesS mv lp items rp).skel = "" := by
  simp [MElem.skel, C10c.partE]

/-- **elab_cmds, position by position, through `CmdM.elabC`.** -/
theorem elab_cmds_pointwise (env : Env) (sn : String) (c : Ctx) (b : List SStmt) (body : List Stmt)
    (data : ImpData) (c' : Ctx) (h : elabE env sn c b = .ok (body, data, c')) :
    (cmdsOf body).length = (surfaceCmds env b c.nextCmdId).length ∧
    ∀ (i : Nat) (cmd : Cmd), (cmdsOf body)[i]? = some cmd →
      ∃ w cid, (surfaceCmds env b c.nextCmdId)[i]? = some (w, cid) ∧
        w.elabC env sn (substC c.consts) cid = .ok (cmd, w.imp env sn cid) ∧
        cmd.id = cid ∧ cmd.name = w.name.lit ∧ cmd.args.length = w.nargs ∧
        cmd.args = w.argList.map (renderArgM (substC c.consts)) := by
  obtain ⟨h1, h2, -⟩ := elab_cmds env sn c b body data c' h
  refine ⟨by rw [h1, List.length_map], ?_⟩
  intro i cmd hi
  rw [h1, List.getElem?_map] at hi
  cases hg : (surfaceCmds env b c.nextCmdId)[i]? with
  | none => rw [hg] at hi; cases hi
  | some p =>
    rw [hg] at hi
    simp only [Option.map_some, Option.some.injEq] at hi
    obtain ⟨w, cid⟩ := p
    have := h2 (w, cid) (List.mem_of_getElem? hg)
    subst hi
    exact ⟨w, cid, rfl, this, rfl, rfl, node_args_length _ _ _, rfl⟩

/-- **source_command_census.** -/
theorem source_command_census (env : Env) (o : Opts) (patches : List ((Nat × Nat) × String)) (tl : List String)
    (fuel : Nat) (s : PState) (kw : Tok) (md : TopParse.Mod) (name lb : Tok) (b : List SStmt) (rb : Tok)
    (rest : List Tok) (hmd : md.WF) (hname : name.type = .IDENT) (hlb : lb.type = .LBRACE) (hwf : SWF b)
    (hrb : rb.type = .RBRACE) (hfuel : needL b ≤ fuel)
    (scr : Script) (imp : ImpData) (s' : PState)
    (hparse : (parseScriptStatement env fuel).run
        (st s (kw :: (md.toks ++ name :: lb :: (printStmts b ++ rb :: rest)))) = .ok ((scr, imp), s'))
    (ls : List Line) (hemit : emitScript o patches tl scr = .ok ls) :
    cmdsOf scr.body = (surfaceCmds env b s.nextCmdId).map (nd (substC s.constants)) ∧
    (cmdLinesOf ls ++ (absorbedCmds scr.body).map (renderCommand patches)).Perm
      (((surfaceCmds env b s.nextCmdId).map (nd (substC s.constants))).map (renderCommand patches)) ∧
    (cmdLinesOf ls).Perm ((emittedCmds scr.body).map (renderCommand patches)) ∧
    (emittedCmds scr.body).Sublist ((surfaceCmds env b s.nextCmdId).map (nd (substC s.constants))) ∧
    (∀ x ∈ absorbedCmds scr.body, isTerm x = true) ∧
    (∀ p ∈ surfaceCmds env b s.nextCmdId, p.1.elabC env name.lit (substC s.constants) p.2 =
        .ok (nd (substC s.constants) p, p.1.imp env name.lit p.2)) ∧
    scr.name = name.lit ∧ s'.nextCmdId = (surfL env b s.nextCmdId).2 := by
  cases helab : elabE env name.lit (ctxOf s) b with
  | error e =>
    rw [parse_script_reject env fuel s kw md name lb b rb rest hmd hname hlb hwf hrb hfuel e helab] at hparse
    cases hparse
  | ok r =>
    obtain ⟨stmts, imp0, c'⟩ := r
    have hel : elaborate env name.lit (ctxOf s) b = some (stmts, imp0, c') := by
      unfold elaborate; rw [helab]; rfl
    rw [parse_script_print env fuel s kw md name lb b rb rest hmd hname hlb hwf hrb hfuel stmts imp0 c' hel]
      at hparse
    simp only [Except.ok.injEq, Prod.mk.injEq] at hparse
    obtain ⟨⟨hscr, _⟩, hs'⟩ := hparse
    subst hscr hs'
    obtain ⟨h1, h2, h3⟩ := elab_cmds env name.lit (ctxOf s) b stmts imp0 c' helab
    have h1' : cmdsOf stmts = (surfaceCmds env b s.nextCmdId).map (nd (substC s.constants)) := h1
    refine ⟨h1', ?_, command_census o patches tl _ ls hemit, ?_, absorbedCmds_isTerm _, h2, rfl, h3⟩
    · rw [← h1']
      exact command_census_all o patches tl _ ls hemit
    · rw [← h1']
      exact emittedCmds_sublist _

/-- Both chunk orders: the optimised and the unoptimised output carry the same command lines up to order, each
a permutation of the written commands minus the absorbed block-final `end` / `return`. -/
theorem source_command_census_orders (env : Env) (o : Opts) (patches : List ((Nat × Nat) × String))
    (tl : List String) (fuel : Nat) (s : PState) (kw : Tok) (md : TopParse.Mod) (name lb : Tok) (b : List SStmt)
    (rb : Tok) (rest : List Tok) (hmd : md.WF) (hname : name.type = .IDENT) (hlb : lb.type = .LBRACE)
    (hwf : SWF b) (hrb : rb.type = .RBRACE) (hfuel : needL b ≤ fuel)
    (scr : Script) (imp : ImpData) (s' : PState)
    (hparse : (parseScriptStatement env fuel).run
        (st s (kw :: (md.toks ++ name :: lb :: (printStmts b ++ rb :: rest)))) = .ok ((scr, imp), s'))
    (lsT lsF : List Line)
    (hT : emitScript { o with optimize := true } patches tl scr = .ok lsT)
    (hF : emitScript { o with optimize := false } patches tl scr = .ok lsF) :
    (cmdLinesOf lsT).Perm (cmdLinesOf lsF) ∧
    (cmdLinesOf lsT ++ (absorbedCmds scr.body).map (renderCommand patches)).Perm
      (((surfaceCmds env b s.nextCmdId).map (nd (substC s.constants))).map (renderCommand patches)) ∧
    (cmdLinesOf lsF ++ (absorbedCmds scr.body).map (renderCommand patches)).Perm
      (((surfaceCmds env b s.nextCmdId).map (nd (substC s.constants))).map (renderCommand patches)) :=
  ⟨both_orders_same_commands o patches tl scr lsT lsF hT hF,
   (source_command_census env _ patches tl fuel s kw md name lb b rb rest hmd hname hlb hwf hrb hfuel scr imp s'
      hparse lsT hT).2.1,
   (source_command_census env _ patches tl fuel s kw md name lb b rb rest hmd hname hlb hwf hrb hfuel scr imp s'
      hparse lsF hF).2.1⟩

/-- No written command is dropped: every written (selected) command other than `end` / `return` has its line in
the output. -/
theorem no_written_command_dropped (env : Env) (o : Opts) (patches : List ((Nat × Nat) × String))
    (tl : List String) (fuel : Nat) (s : PState) (kw : Tok) (md : TopParse.Mod) (name lb : Tok) (b : List SStmt)
    (rb : Tok) (rest : List Tok) (hmd : md.WF) (hname : name.type = .IDENT) (hlb : lb.type = .LBRACE)
    (hwf : SWF b) (hrb : rb.type = .RBRACE) (hfuel : needL b ≤ fuel)
    (scr : Script) (imp : ImpData) (s' : PState)
    (hparse : (parseScriptStatement env fuel).run
        (st s (kw :: (md.toks ++ name :: lb :: (printStmts b ++ rb :: rest)))) = .ok ((scr, imp), s'))
    (ls : List Line) (hemit : emitScript o patches tl scr = .ok ls) :
    ∀ p ∈ surfaceCmds env b s.nextCmdId, isTerm (nd (substC s.constants) p) = false →
      renderCommand patches (nd (substC s.constants) p) ∈ ls := by
  intro p hp hterm
  obtain ⟨h1, -, -, -, habs, -⟩ := source_command_census env o patches tl fuel s kw md name lb b rb rest hmd hname
    hlb hwf hrb hfuel scr imp s' hparse ls hemit
  have hmem : nd (substC s.constants) p ∈ cmdsOf scr.body := by
    rw [h1]; exact List.mem_map.2 ⟨p, hp, rfl⟩
  rcases List.mem_append.1 ((cmdsOf_perm scr.body).mem_iff.1 hmem) with h | h
  · exact no_command_dropped o patches tl scr ls hemit _ h
  · rw [habs _ h] at hterm; cases hterm

/-! ### non-vacuity -/
section Example

private def lp : Tok := tk .LPAREN "("
private def rp : Tok := tk .RPAREN ")"
private def lb : Tok := tk .LBRACE "{"
private def rb : Tok := tk .RBRACE "}"
private def colon : Tok := tk .COLON ":"
private def tokM (t : TT) (l : String) : MElem := .base (.base (.tok (tk t l)))
private def bare (n : String) : SStmt := .cmd (.bare (tk .IDENT n))

/-- `checkitem(ITEM_X)` -/
def exCheck : CmdM := .args (tk .IDENT "checkitem") lp [tokM .IDENT "ITEM_X"] [] rp
/-- `msgbox("hi")` -/
def exMsg : CmdM := .args (tk .IDENT "msgbox") lp [.base (.base (.str (tk .STRING "hi")))] [] rp

/-- `flag(1) && checkitem(ITEM_X) == 2` -/
def exCond : SCond :=
  .one (.more (.leaf (.kw ⟨none, tk .FLAG "flag", lp, tk .INT "1", [], rp, .none⟩)) {}
    (.one (.leaf (.auto (.cmp {} {} "==" .eq ⟨true, "2"⟩) exCheck))))

/-- `lock if (flag(1) && checkitem(ITEM_X) == 2) { msgbox("hi") poryswitch(V) { A: nop1 _: nop2 } } release end` -/
def exBody : List SStmt :=
  [bare "lock",
   .ite (tk .IF "if") lp exCond rp lb
     [.cmd exMsg,
      .pory (tk .PORYSWITCH "poryswitch") lp (tk .IDENT "V") rp lb
        [.colon (tk .IDENT "A") colon (bare "nop1"), .colon (tk .IDENT "_") colon (bare "nop2")] rb] rb [] .none,
   bare "release", bare "end"]

-- sanity check (evaluation, not a proof): the printed tokens are what the model lexer produces
#guard (Lexer.lexAll ("lock if (flag(1) && checkitem(ITEM_X) == 2) { msgbox(\"hi\") poryswitch(V) { A: nop1 _: nop2 } } " ++
    "release end }").toList).map (fun t => (t.type, t.lit)) ==
  (printStmts exBody ++ [rb, tk .EOF ""]).map (fun t => (t.type, t.lit))

theorem exBody_wf : SWF exBody := by decide

/-- `-s V=A`, `checkitem` configured as AutoVar command -/
def envA : Env := { switches := [("V", "A")], autoVars := [("checkitem", { varName := "VAR_RESULT" })] }
/-- `-s V=B`: the `_` case -/
def envB : Env := { switches := [("V", "B")], autoVars := [("checkitem", { varName := "VAR_RESULT" })] }

/-- the parser state at `script`: the constant `ITEM_X = 7` is defined, five command ids are used -/
def exState : PState := { toks := [], eof := tk .EOF "", constants := [("ITEM_X", "7")], nextCmdId := 5 }

def exToks : List Tok := tk .SCRIPT "script" :: tk .IDENT "S" :: lb :: (printStmts exBody ++ [rb])

/-- what the examples look at: command id, name, arguments -/
def view (c : Cmd) : Nat × String × List String := (c.id, c.name, c.args)

/-- **The written commands**, by evaluation: `nop2` (id 9) is not listed under `-s V=A`, but it consumed an id
(`release` is 10); the constant is substituted; the inline text leaves an EMPTY argument. -/
theorem ex_surface_A : ((surfaceCmds envA exBody 5).map (nd (substC exState.constants))).map view =
    [(5, "lock", []), (6, "checkitem", ["7"]), (7, "msgbox", [""]), (8, "nop1", []), (10, "release", []),
     (11, "end", [])] := by decide

theorem ex_surface_B : ((surfaceCmds envB exBody 5).map (nd (substC exState.constants))).map view =
    [(5, "lock", []), (6, "checkitem", ["7"]), (7, "msgbox", [""]), (9, "nop2", []), (10, "release", []),
     (11, "end", [])] := by decide

/-- **Non-vacuity by evaluation of the parser model** (`decide`): the commands of the parsed script. -/
theorem ex_parsed_decide :
    ((parseScriptStatement envA 200).run (st exState exToks)).toOption.map (fun r => (cmdsOf r.1.1.body).map view) =
      some [(5, "lock", []), (6, "checkitem", ["7"]), (7, "msgbox", [""]), (8, "nop1", []), (10, "release", []),
            (11, "end", [])] := by decide

/-- **Non-vacuity by the theorem**: whatever the parser returns on these tokens (any sufficient fuel) and whatever
the emitter makes of it (any options, any patches), the census holds … -/
example (o : Opts) (patches : List ((Nat × Nat) × String)) (tl : List String) (fuel : Nat) (hf : 200 ≤ fuel)
    (scr : Script) (imp : ImpData) (s' : PState)
    (hparse : (parseScriptStatement envA fuel).run (st exState exToks) = .ok ((scr, imp), s'))
    (ls : List Line) (hemit : emitScript o patches tl scr = .ok ls) :
    (cmdsOf scr.body).map view =
      [(5, "lock", []), (6, "checkitem", ["7"]), (7, "msgbox", [""]), (8, "nop1", []), (10, "release", []),
       (11, "end", [])] ∧
    (cmdLinesOf ls ++ (absorbedCmds scr.body).map (renderCommand patches)).Perm
      (((surfaceCmds envA exBody 5).map (nd (substC exState.constants))).map (renderCommand patches)) := by
  have h := source_command_census envA o patches tl fuel exState (tk .SCRIPT "script") .absent (tk .IDENT "S") lb
    exBody rb [] trivial rfl rfl exBody_wf rfl (Nat.le_trans (by decide) hf) scr imp s' hparse ls hemit
  exact ⟨by rw [h.1]; exact ex_surface_A, h.2.1⟩

/-- … and the hypotheses can be met: the parser accepts (by `P1c.parse_script_print`, any fuel ≥ 200) … -/
theorem ex_parse_ok (fuel : Nat) (hf : 200 ≤ fuel) :
    ∃ scr imp s', (parseScriptStatement envA fuel).run (st exState exToks) = .ok ((scr, imp), s') := by
  have hs : (elaborate envA "S" (ctxOf exState) exBody).isSome = true := by decide
  cases h : elaborate envA "S" (ctxOf exState) exBody with
  | none => rw [h] at hs; cases hs
  | some r =>
    obtain ⟨stmts, imp, c'⟩ := r
    exact ⟨_, _, _, parse_script_print envA fuel exState (tk .SCRIPT "script") .absent (tk .IDENT "S") lb exBody rb []
      trivial rfl rfl exBody_wf rfl (Nat.le_trans (by decide) hf) stmts imp c' h⟩

/-- … and the emitter accepts the parsed script; its command lines, by evaluation (unoptimised chunk order,
the inline text of `msgbox` patched): the written commands of `ex_surface_A` minus the block-final `end`, permuted
(the AutoVar command `checkitem` of the second `&&` operand sits in a later chunk). -/
theorem ex_lines_decide :
    ((parseScriptStatement envA 200).run (st exState exToks)).toOption.bind (fun r =>
      (emitScript { optimize := false } [((7, 0), "S_Text_0")] [] r.1.1).toOption.map cmdLinesOf) =
      some [.command "lock" [], .command "release" [], .command "msgbox" ["S_Text_0"], .command "nop1" [],
            .command "checkitem" ["7"]] := by decide

/-- `elab_cmds` on the example: the commands of the elaborated body are the written ones. -/
example (body : List Stmt) (data : ImpData) (c' : Ctx)
    (h : elabE envA "S" (ctxOf exState) exBody = .ok (body, data, c')) :
    (cmdsOf body).map view =
      [(5, "lock", []), (6, "checkitem", ["7"]), (7, "msgbox", [""]), (8, "nop1", []), (10, "release", []),
       (11, "end", [])] ∧ c'.nextCmdId = 12 := by
  obtain ⟨h1, -, h3⟩ := elab_cmds envA "S" (ctxOf exState) exBody body data c' h
  exact ⟨by rw [h1]; exact ex_surface_A, by rw [h3]; decide⟩

/-- `elab_cmds_pointwise` on the example: position 1 is `checkitem(ITEM_X)` with id 6, through `CmdM.elabC`. -/
example (body : List Stmt) (data : ImpData) (c' : Ctx)
    (h : elabE envA "S" (ctxOf exState) exBody = .ok (body, data, c')) (cmd : Cmd)
    (hc : (cmdsOf body)[1]? = some cmd) :
    exCheck.elabC envA "S" (substC exState.constants) 6 = .ok (cmd, exCheck.imp envA "S" 6) ∧
      cmd.name = "checkitem" ∧ cmd.args = ["7"] := by
  obtain ⟨w, cid, hw, he, -, hn, -, ha⟩ := (elab_cmds_pointwise envA "S" (ctxOf exState) exBody body data c' h).2 1 cmd hc
  have : (surfaceCmds envA exBody 5)[1]? = some (exCheck, 6) := rfl
  rw [show (ctxOf exState).nextCmdId = 5 from rfl, this] at hw
  cases hw
  exact ⟨he, hn, ha⟩

/-- the id-free written forms of the example, by evaluation -/
example : (writtenCmds envA exBody).map (fun w => w.name.lit) = ["lock", "checkitem", "msgbox", "nop1", "release", "end"] ∧
    (writtenCmds envB exBody).map (fun w => w.name.lit) = ["lock", "checkitem", "msgbox", "nop2", "release", "end"] := by
  decide

example (body : List Stmt) (data : ImpData) (c' : Ctx)
    (h : elabE envA "S" (ctxOf exState) exBody = .ok (body, data, c')) :
    (cmdsOf body).map (fun x => (x.name, x.args)) =
      [("lock", []), ("checkitem", ["7"]), ("msgbox", [""]), ("nop1", []), ("release", []), ("end", [])] := by
  rw [(elab_cmds_forms envA "S" (ctxOf exState) exBody body data c' h).1]
  decide

end Example

#print axioms elab_cmds
#print axioms elab_cmds_pointwise
#print axioms elab_cmds_forms
#print axioms surfaceForms_eq
#print axioms surfaceCmds_ids
#print axioms written_arg
#print axioms source_command_census
#print axioms source_command_census_orders
#print axioms no_written_command_dropped
#print axioms ex_surface_A
#print axioms ex_parsed_decide
#print axioms ex_parse_ok
#print axioms ex_lines_decide

end Pory.C10e
