import PoryProofs.ProgramParseE
import PoryProofs.Properties.P1c
import PoryProofs.Properties.P2
import PoryProofs.StmtEmbed2
import PoryProofs.StmtEmbedMS
/-
P2e — P1c's body grammar plugged into the whole-FILE grammar of P2 … P2d: "parse ∘ print = elaborate" for whole
files whose top-level `script` statements AND the inline scripts of whose `mapscripts` statements carry `P1c.SStmt`
bodies (AutoVar leaves anywhere, `value( … )`, inline `format()`, and `moves( … )` arguments with nested
`poryswitch`).

Helper modules (new; nothing existing was edited):
  PoryProofs/ProgramGrammarEMS.lean entries / table rows of `mapscripts` with P1c bodies (`SEntryE`, `SRowE`,
                                    printers, `EntriesWFE`, `elabEntriesE` / `elabRowsE`, fuel);
  PoryProofs/ProgramGrammarE.lean   grammar `STopE`, printer, `TWFE`, reference elaboration `stepTopE / elabTopsE /
                                    elabFileE`, fuel;
  PoryProofs/ProgramParseEMS.lean   the entry loop / row loop on printed entries (`block_runE`, `rows_runE`,
                                    `entries_runE`);
  PoryProofs/ProgramParseE.lean     the parser on printed files (`top_scriptE`, `top_mapscriptsE`, `parse_top_step_e`,
                                    the loop, the post-passes, the model's fuel), `compileFileE`, `compileToks_printE`.

HOW. P2 enters a script body only through three interface lemmas: the block window lemma
(`StmtG.parse_block_elab`), `C15b.parse_script_statement_gen` (a successful body run is a successful
`parseScriptStatement` run, whatever the body tokens are) and `P2.parse_script_statement_err` (a failing body run is
the failure of the statement), plus `C12c.addImplicitData_run` / `P2.addImp_st` for the hoisting tables. All but
the first do not mention the body grammar at all; `P1c.parse_block_elab` has literally the shape of
`StmtG.parse_block_elab`. So `top_scriptE` is the proof of `P2.top_script` with `P1c` in the place of `StmtG`, and
every other statement kind goes through the embedding `STopE.base : P2d.STopP → STopE`
(`P2d.parse_top_step_ps`); the loop / post-pass / fuel lemmas are those of P2d re-run over `STopE`.
P2b enters the inline bodies of a `mapscripts` statement through `block_run` (= the block window lemma written with
`setC`) and `elabE_stacks` (the body elaboration changes the two counters only); the one-step lemmas of the entry /
row loops (`MapScriptsParse.trow_*`, `ment_*`), `C15b.parse_mapscripts_statement_gen` and
`P2b.parse_mapscripts_statement_err` do not mention the body grammar. ProgramGrammarEMS / ProgramParseEMS re-run the
two loop inductions of P2b over `P1c` (the text of P2b's files with `StmtG` replaced by `P1c`, names suffixed `E`).

COVERED GRAMMAR  `STopE` = `base t` (`t : P2d.STopP`: everything P2 … P2d cover — script with P1 bodies, raw, const,
movement / mart / text with or without poryswitch, `format()` texts, mapscripts (inline scripts with P1 bodies);
`embedP`, `printTopsE_embed`, `TWFE_embed`, `elabTopsE_embed`, `compileFileE_embed`) plus
    scriptE      `script [(global|local)] Name { body }`,  body : `List P1c.SStmt` (the whole statement grammar of
                 P1c, PoryProofs/StmtGrammarMS.lean);
    mapscriptsE  `mapscripts [(global|local)] Name { entry* }`
                   entry ::= `TYPE : Name` | `TYPE { body }` | `TYPE [ row* ]`
                   row   ::= `c₁ … cₖ , v₁ … vₗ : Name` | `c₁ … cₖ , v₁ … vₗ { body }`      (P2b's forms, `RowSyn`)
                 with `body : List P1c.SStmt`.
  `TopWFE` / `TWFE` (decidable) fix token types only (`P1c.SWF` for the bodies; a `const` is not the last statement).
REFERENCE ELABORATION: `stepTopE` on `scriptE` = P2's script step with `P1c.elabE`: script node
`P2.scriptOf kw md name stmts`, state `P2.afterScript s imp c'` (counters advanced — NOT reset between scripts —,
implicit texts / movements recorded with `C12c.addImp` = `addImplicitData`: a `moves( … poryswitch … )` argument
becomes a hoisted movement holding the SELECTED steps, deduplicated by its step list, labelled per script name).
All located errors of `P1c.elabE` (P1's violations, bad `format()`, the four `ListViolation`s of a `moves( … )` list)
are errors of the file, the first violation in source order wins.
`stepTopE` on `mapscriptsE` = P2b's mapscripts step with `elabEntriesE`: the inline bodies through `P1c.elabE` under
the generated names `<Name>_<TYPE>` / `<Name>_<TYPE>_<i>`, the counters threaded from body to body, the implicit
data of all bodies recorded ONCE after the statement; errors: those of the bodies + P2b's `emptyCondErr` /
`emptyCmpErr`.

PROVED (nothing is partial for the covered grammar)
* `parse_top_elab_e`     : `parseTopLevelStatement` on one printed statement of `STopE` = `stepTopE` (result, state
                           with the window on the last token, or located error); `parse_scriptE_elab`,
                           `parse_mapscriptsE_elab` spelled out;
* `parse_tops_elab_e`, `parse_program_elab_e` : the top-level loop, the post-passes;
* `parse_file_elab_e`    : `parseTokens env (printTopsE ts ++ [eofT]) = elabFileE env ts (initState eofT)` for every
                           `TWFE` file, with the model's own fuel `4 * tokens + 50` (shown sufficient), all outcomes;
                           `parse_file_embed_e`: on embedded files this is P2d's elaboration;
                           `parse_file_program_e`: the documented `Program` of an accepted file;
* `script_reject_file`   : a body violation of the first failing script is the error of `parseTokens`
                           (`script_reject_file_documented`: and it is a `P1c.Violation`);
* `compile_print_e`      : `parseTokens` + `emitProgram` on the printed tokens IS `compileFileE` (all emitter options);
* `parse_error_left_e`   : a parse error of a prefix is the parse error of the file;
* `scriptE_extends_P2`, `mapscriptsE_extends_P2b`, `liftTops_spec` : nothing of P2 … P2d is lost — a script
                           statement of P2 (body in P1's grammar) IS the `scriptE` statement of its lifted body
                           (`liftBody` = `P1c.ofL ∘ P1b.ofL`), a `mapscripts` statement of P2b IS the `mapscriptsE`
                           statement of its lifted entries: same printed tokens, same well-formedness, same
                           `stepTopE` in every state; rewriting all old script / mapscripts statements of a file
                           (`liftTop`) changes neither tokens nor `TWFE` nor `elabTopsE`. So `scriptE`, `mapscriptsE`
                           and `base` of the four non-script kinds already generate the whole grammar.

NOT DONE (honest list)
* The lift of `tops_independent` / `statement_independent` (C17) to `STopE` is NOT proved. P2's proof needs, for the
  body grammar, the shift lemma of the id counters (`elabL_shift`), "ids lie between the counters" and "the
  elaboration reads the constant table only at its own tokens" (ProgramShift / ProgramIds / ProgramConst) — three
  13-function inductions over `StmtG.SStmt` that would have to be re-run over `P1c.SStmt`; and the `Indep` side
  condition would have to mention the hoisted movements of `moves( … poryswitch … )` arguments (selected steps)
  exactly as it mentions inline texts / `moves()` of P1 bodies. For files that only use `base` statements the
  theorems of P2d apply through `compileFileE_embed`.
* What P2 … P2d / P1c list as not covered (a `const` as last statement, token sequences outside the grammar, the
  lexer: `#guard` checks the example tokens against the model lexer).

NOTICED IN THE MODEL: nothing new. (As P1c records: a bad multiplier in an UNSELECTED case of a poryswitch inside
`moves( … )` rejects the whole file; the hoisted movement holds the selected steps only, so two scripts whose
`moves( … )` differ only in unselected cases share ONE hoisted movement — see `exShare`.)
-/
namespace Pory.P2e
open Pory Pory.Parser Pory.C02P Pory.TopParse Pory.P2 Pory.P2b Pory.P2d Pory.Emit
open Pory.StmtG (Ctx ctxOf)

/-! ## 1. the window lemma -/

/-- **One printed top-level statement** (followed by `nx :: rest`; after a `const`, `nx` is a top-level keyword):
result, state (window left on the last token of the statement), or located error. -/
theorem parse_top_elab_e (env : Env) (fuel : Nat) (t : STopE) (s : PState) (nx : Tok) (rest : List Tok)
    (hwf : TopWFE t) (hnx : t.isConst = true → nx.type ∈ Facts.topLevelTokens) (hf : needTopE t ≤ fuel) :
    (parseTopLevelStatement env fuel).run (st s (printTopE t ++ nx :: rest)) =
      match stepTopE env t s with
      | .error e => .error e
      | .ok (o, s') => .ok (o, st s' (t.last :: nx :: rest)) :=
  parse_top_step_e env fuel t s nx rest hwf hnx hf

/-- … spelled out for a script statement with a body of P1c's grammar: the script node, the counters advanced, the
implicit data (texts, `moves( … )` movements with the selected steps) recorded; or the located error of the body. -/
theorem parse_scriptE_elab (env : Env) (fuel : Nat) (kw : Tok) (md : Mod) (name lb : Tok) (b : List P1c.SStmt)
    (rb : Tok) (s : PState) (rest : List Tok) (hwf : TopWFE (.scriptE kw md name lb b rb))
    (hf : P1c.needL b ≤ fuel) :
    (parseTopLevelStatement env fuel).run
        (st s (kw :: (md.toks ++ name :: lb :: (P1c.printStmts b ++ rb :: rest)))) =
      match P1c.elabE env name.lit (ctxOf s) b with
      | .error e => .error e
      | .ok (stmts, imp, c') =>
        .ok (some (.script { tok := kw, name := name.lit, body := stmts,
                             scope := md.scope (defaultScopeOf "parseScriptStatement") }),
             st (C12c.addImp imp { s with nextSid := c'.nextSid, nextCmdId := c'.nextCmdId }) (rb :: rest)) := by
  obtain ⟨h1, h2, h3, h4, h5, h6⟩ := hwf
  rw [top_scriptE env fuel s kw md name lb b rb rest h1 h2 h3 h4 h5 h6 hf]
  simp only [stepTopE]
  cases P1c.elabE env name.lit (ctxOf s) b <;> rfl

/-- … and for a `mapscripts` statement whose inline scripts have bodies of P1c's grammar. -/
theorem parse_mapscriptsE_elab (env : Env) (fuel : Nat) (kw : Tok) (md : Mod) (name lb : Tok) (es : List SEntryE)
    (rb : Tok) (s : PState) (rest : List Tok) (hwf : TopWFE (.mapscriptsE kw md name lb es rb))
    (hf : needEntriesE es ≤ fuel) :
    (parseTopLevelStatement env fuel).run
        (st s (kw :: (md.toks ++ name :: lb :: (printEntriesE es ++ rb :: rest)))) =
      match elabEntriesE env name.lit es (ctxOf s) with
      | .error e => .error e
      | .ok (mss, tbs, imp, c') =>
        .ok (some (.mapscripts { tok := name, name := name.lit, mapScripts := mss, tables := tbs,
                                 scope := md.scope (defaultScopeOf "parseMapscriptsStatement") }),
             st (C12c.addImp imp { s with nextSid := c'.nextSid, nextCmdId := c'.nextCmdId }) (rb :: rest)) := by
  obtain ⟨h1, h2, h3, h4, h5, h6⟩ := hwf
  rw [top_mapscriptsE env fuel s kw md name lb es rb rest h1 h2 h3 h4 h5 h6 hf]
  simp only [stepTopE]
  cases elabEntriesE env name.lit es (ctxOf s) <;> rfl

/-! ## 2. whole files -/

/-- **The top-level loop** on a printed file. -/
theorem parse_tops_elab_e (env : Env) (fuel : Nat) (eofT : Tok) (tl : List Tok) (heof : eofT.type = .EOF)
    (ts : List STopE) (n : Nat) (acc : List Top) (s : PState) (hwf : TWFE ts) (hn : ts.length + 1 ≤ n)
    (hf : ∀ t ∈ ts, needTopE t ≤ fuel) :
    (topLoop env fuel n acc).run (st s (printTopsE ts ++ eofT :: tl)) =
      match elabTopsE env ts s with
      | .error e => .error e
      | .ok (tops, s') => .ok (acc ++ tops, st s' (eofT :: tl)) :=
  topLoopE_elab env fuel eofT tl heof ts n acc s hwf hn hf

/-- … followed by the post-passes of `ParseProgram`. -/
theorem parse_program_elab_e (env : Env) (fuel : Nat) (eofT : Tok) (tl : List Tok) (heof : eofT.type = .EOF)
    (ts : List STopE) (s : PState) (hwf : TWFE ts) (hn : ts.length + 1 ≤ fuel)
    (hf : ∀ t ∈ ts, needTopE t ≤ fuel) :
    (parseProgramM env fuel).run (st s (printTopsE ts ++ eofT :: tl)) =
      match elabTopsE env ts s with
      | .error e => .error e
      | .ok (tops, s') =>
        match finish tops s' with
        | .error e => .error e
        | .ok p => .ok (p, st s' (eofT :: tl)) :=
  parseProgramM_elabE env fuel eofT tl heof ts s hwf hn hf

/-- **P2e, whole files**: `parseTokens` (with its own fuel `4 * tokens + 50`) on the printed tokens of a well-formed
file whose script bodies are written in P1c's grammar is the reference elaboration followed by the post-passes: the
documented `Program`, or the located error of the first violation. -/
theorem parse_file_elab_e (env : Env) (eofT : Tok) (heof : eofT.type = .EOF) (ts : List STopE) (hwf : TWFE ts) :
    parseTokens env (printTopsE ts ++ [eofT]) = elabFileE env ts (initState eofT) :=
  parseTokens_elabE env eofT heof ts hwf

/-- On embedded files of the grammar of P2d: P2d's elaboration. -/
theorem parse_file_embed_e (env : Env) (eofT : Tok) (heof : eofT.type = .EOF) (ts : List STopP) (hwf : TWFP ts) :
    parseTokens env (printTopsE (embedP ts) ++ [eofT]) = elabFileP env ts (initState eofT) := by
  rw [parse_file_elab_e env eofT heof _ ((TWFE_embed ts).2 hwf), elabFileE_embed]

/-- The documented `Program` of an accepted file. -/
theorem parse_file_program_e (env : Env) (ts : List STopE) (s0 : PState) (p : Program)
    (h : elabFileE env ts s0 = .ok p) :
    ∃ tops s, elabTopsE env ts s0 = .ok (tops, s) ∧
      p = { tops := tops ++ s.inlineMovements.map Top.movement, texts := s.inlineTexts ++ s.textStatements,
            patches := s.patches } ∧
      (textNames s).Nodup ∧ (allMvNames tops s).Nodup := by
  unfold elabFileE at h
  cases he : elabTopsE env ts s0 with
  | error e => rw [he] at h; cases h
  | ok q =>
    obtain ⟨tops, s⟩ := q
    rw [he] at h
    obtain ⟨h1, h2⟩ := (finish_ok_iff tops s).1 ⟨p, h⟩
    exact ⟨tops, s, rfl, finish_eq tops s p h, h1, h2⟩

/-- A parse error of a prefix is the parse error of the file (no side condition). -/
theorem parse_error_left_e (env : Env) (s0 : PState) (ts1 ts2 : List STopE) (e : PFail)
    (h : elabTopsE env ts1 s0 = .error e) : elabTopsE env (ts1 ++ ts2) s0 = .error e := by
  rw [elabTopsE_append, h]

/-- **Rejection, whole files**: if the statements before a script elaborate and the body of the script has a
violation (`P1c.elabE … = .error e`: P1's violations, a bad `format()`, a `ListViolation` inside `moves( … )`), then
`parseTokens` on the printed file fails with exactly that located error — whatever follows the script. -/
theorem script_reject_file (env : Env) (eofT : Tok) (heof : eofT.type = .EOF) (pre : List STopE) (kw : Tok)
    (md : Mod) (name lb : Tok) (b : List P1c.SStmt) (rb : Tok) (post : List STopE)
    (hwf : TWFE (pre ++ .scriptE kw md name lb b rb :: post)) (tops : List Top) (s1 : PState)
    (hpre : elabTopsE env pre (initState eofT) = .ok (tops, s1)) (e : PFail)
    (hb : P1c.elabE env name.lit (ctxOf s1) b = .error e) :
    parseTokens env (printTopsE (pre ++ .scriptE kw md name lb b rb :: post) ++ [eofT]) = .error e := by
  rw [parse_file_elab_e env eofT heof _ hwf]
  unfold elabFileE
  rw [elabTopsE_append, hpre]
  simp only [elabTopsE, stepTopE, hb]

/-- … and that error is one of the documented located errors of P1c (`P1c.Violation env`: the violations of P1 /
P1b and the four `ListViolation`s of a `moves( … )` list). -/
theorem script_reject_file_documented (env : Env) (eofT : Tok) (heof : eofT.type = .EOF) (pre : List STopE)
    (kw : Tok) (md : Mod) (name lb : Tok) (b : List P1c.SStmt) (rb : Tok) (post : List STopE)
    (hwf : TWFE (pre ++ .scriptE kw md name lb b rb :: post)) (tops : List Top) (s1 : PState)
    (hpre : elabTopsE env pre (initState eofT) = .ok (tops, s1)) (e : PFail)
    (hb : P1c.elabE env name.lit (ctxOf s1) b = .error e) :
    parseTokens env (printTopsE (pre ++ .scriptE kw md name lb b rb :: post) ++ [eofT]) = .error e ∧
      P1c.Violation env e :=
  ⟨script_reject_file env eofT heof pre kw md name lb b rb post hwf tops s1 hpre e hb,
    P1c.violations_documented env _ _ b e hb⟩

/-! ## 3. the pipeline -/

/-- `parseTokens` + `emitProgram` on the printed tokens of a file IS `compileFileE` (the pipeline on the reference
elaboration, output as `P2.Sections`), for all emitter options. -/
theorem compile_print_e (env : Env) (o : Opts) (eofT : Tok) (heof : eofT.type = .EOF) (ts : List STopE)
    (hwf : TWFE ts) :
    compileToks env o (printTopsE ts ++ [eofT]) =
      match compileFileE env o eofT ts with
      | .error e => .error e
      | .ok S => .ok S.lines :=
  compileToks_printE env o eofT heof ts hwf

/-- The lift of C17 that is NOT proved here (see the header): the statement of `P2d.tops_independent_ps` over
`STopE`, for a side condition `Indep` still to be defined (it must speak about the hoisted movements of
`moves( … poryswitch … )` arguments — selected steps — as P2's `Indep` does about inline texts / movements). -/
def tops_independent_e_full (Indep : Env → Tok → List STopE → List STopE → Prop) : Prop :=
  ∀ (env : Env) (_ : env.envErrors = true) (o : Opts) (eofT : Tok) (ts1 ts2 : List STopE)
    (_ : Indep env eofT ts1 ts2) (S : Sections),
    compileFileE env o eofT (ts1 ++ ts2) = .ok S ↔
      ∃ S1 S2, compileFileE env o eofT ts1 = .ok S1 ∧ compileFileE env o eofT ts2 = .ok S2 ∧ S = S1.append S2

/-! ## 3b. nothing of P2 … P2d is lost -/

/-- A body of P1's grammar written in P1c's grammar (P1 ⊂ P1b ⊂ P1c: `P1b.ofL`, `P1c.ofL`). -/
def liftBody (b : List StmtG.SStmt) : List P1c.SStmt := P1c.ofL (P1b.ofL b)

theorem liftBody_print (b : List StmtG.SStmt) : P1c.printStmts (liftBody b) = StmtG.printStmts b := by
  unfold liftBody
  show P1c.printL _ = StmtG.printL b
  rw [P1c.ofL_print, P1b.ofL_print]

theorem liftBody_swf (b : List StmtG.SStmt) : P1c.SWF (liftBody b) ↔ StmtG.SWF b := by
  unfold liftBody P1c.SWF StmtG.SWF
  rw [P1c.ofL_swf, P1b.ofL_swf]

theorem liftBody_elabE (env : Env) (sn : String) (c : Ctx) (b : List StmtG.SStmt) :
    P1c.elabE env sn c (liftBody b) = StmtG.elabE env sn c b := by
  unfold liftBody
  rw [P1c.ofL_elabE, P1b.ofL_elabE]

/-- A script statement of P2 (body in P1's grammar) as an element of `STopE`. -/
abbrev oldScript (kw : Tok) (md : Mod) (name lb : Tok) (b : List StmtG.SStmt) (rb : Tok) : STopE :=
  .base (.base (.base (.script kw md name lb b rb)))

/-- **Nothing of P2 is lost**: P2's script statement IS the `scriptE` statement of its lifted body — same tokens,
same well-formedness, same reference elaboration in every state. -/
theorem scriptE_extends_P2 (kw : Tok) (md : Mod) (name lb : Tok) (b : List StmtG.SStmt) (rb : Tok) :
    printTopE (.scriptE kw md name lb (liftBody b) rb) = printTopE (oldScript kw md name lb b rb) ∧
    (TopWFE (.scriptE kw md name lb (liftBody b) rb) ↔ TopWFE (oldScript kw md name lb b rb)) ∧
    ∀ (env : Env) (s : PState),
      stepTopE env (.scriptE kw md name lb (liftBody b) rb) s = stepTopE env (oldScript kw md name lb b rb) s := by
  refine ⟨?_, ?_, ?_⟩
  · simp only [printTopE, printTopP, printTopM, printTop, liftBody_print]
  · simp only [TopWFE, TopWFP, TopWFM, TopWF, liftBody_swf]
  · intro env s
    simp only [stepTopE, stepTopP, stepTopM, stepTop, liftBody_elabE]
    cases StmtG.elabE env name.lit (ctxOf s) b with
    | error e => rfl
    | ok r => rfl

/-- P2b's table rows / entries (inline bodies in P1's grammar) written with lifted bodies. -/
def liftRow : SRow → SRowE
  | .plain cs comma vs colon name => .plain cs comma vs colon name
  | .inline cs comma vs lb body rb => .inline cs comma vs lb (liftBody body) rb

def liftEntry : SEntry → SEntryE
  | .plain ty colon name => .plain ty colon name
  | .inline ty lb body rb => .inline ty lb (liftBody body) rb
  | .table ty lbr rows rbr => .table ty lbr (rows.map liftRow) rbr

theorem liftRows_print : ∀ rows : List SRow, printRowsE (rows.map liftRow) = printRows rows
  | [] => rfl
  | .plain .. :: rs => by simp only [List.map_cons, liftRow, printRowsE, printRows, printRowE, printRow, liftRows_print rs]
  | .inline .. :: rs => by
    simp only [List.map_cons, liftRow, printRowsE, printRows, printRowE, printRow, liftRows_print rs, liftBody_print]

theorem liftRows_wf : ∀ rows : List SRow, RowsWFE (rows.map liftRow) ↔ RowsWF rows
  | [] => Iff.rfl
  | .plain .. :: rs => by simp only [List.map_cons, liftRow, RowsWFE, RowsWF, RowWFE, RowWF, liftRows_wf rs]
  | .inline .. :: rs => by
    simp only [List.map_cons, liftRow, RowsWFE, RowsWF, RowWFE, RowWF, liftRows_wf rs, liftBody_swf]

theorem liftRows_elab (env : Env) (ms ty : String) :
    ∀ (rows : List SRow) (i : Nat) (c : Ctx), elabRowsE env ms ty (rows.map liftRow) i c = elabRows env ms ty rows i c
  | [], _, _ => rfl
  | .plain cs comma vs colon name :: rs, i, c => by
    simp only [List.map_cons, liftRow, elabRowsE, elabRows, liftRows_elab env ms ty rs]
    split
    · rfl
    · split
      · rfl
      · cases elabRows env ms ty rs (i + 1) c with
        | error e => rfl
        | ok r => rfl
  | .inline cs comma vs lb body rb :: rs, i, c => by
    simp only [List.map_cons, liftRow, elabRowsE, elabRows, liftBody_elabE]
    split
    · rfl
    · split
      · rfl
      · cases StmtG.elabE env (MapScriptsParse.rowName ms ty i) c body with
        | error e => rfl
        | ok r =>
          obtain ⟨stmts, bimp, c1⟩ := r
          simp only [liftRows_elab env ms ty rs]
          cases elabRows env ms ty rs (i + 1) c1 with
          | error e => rfl
          | ok r => rfl

theorem liftEntries_print : ∀ es : List SEntry, printEntriesE (es.map liftEntry) = printEntries es
  | [] => rfl
  | .plain .. :: es => by
    simp only [List.map_cons, liftEntry, printEntriesE, printEntries, printEntryE, printEntry, liftEntries_print es]
  | .inline .. :: es => by
    simp only [List.map_cons, liftEntry, printEntriesE, printEntries, printEntryE, printEntry, liftEntries_print es,
      liftBody_print]
  | .table .. :: es => by
    simp only [List.map_cons, liftEntry, printEntriesE, printEntries, printEntryE, printEntry, liftEntries_print es,
      liftRows_print]

theorem liftEntries_wf : ∀ es : List SEntry, EntriesWFE (es.map liftEntry) ↔ EntriesWF es
  | [] => Iff.rfl
  | .plain .. :: es => by
    simp only [List.map_cons, liftEntry, EntriesWFE, EntriesWF, EntryWFE, EntryWF, liftEntries_wf es]
  | .inline .. :: es => by
    simp only [List.map_cons, liftEntry, EntriesWFE, EntriesWF, EntryWFE, EntryWF, liftEntries_wf es, liftBody_swf]
  | .table .. :: es => by
    simp only [List.map_cons, liftEntry, EntriesWFE, EntriesWF, EntryWFE, EntryWF, liftEntries_wf es, liftRows_wf]

theorem liftEntries_elab (env : Env) (ms : String) :
    ∀ (es : List SEntry) (c : Ctx), elabEntriesE env ms (es.map liftEntry) c = elabEntries env ms es c
  | [], _ => rfl
  | .plain ty colon name :: es, c => by
    simp only [List.map_cons, liftEntry, elabEntriesE, elabEntries, liftEntries_elab env ms es]
    cases elabEntries env ms es c with
    | error e => rfl
    | ok r => rfl
  | .inline ty lb body rb :: es, c => by
    simp only [List.map_cons, liftEntry, elabEntriesE, elabEntries, liftBody_elabE]
    cases StmtG.elabE env (MapScriptsParse.entryName ms ty.lit) c body with
    | error e => rfl
    | ok r =>
      obtain ⟨stmts, bimp, c1⟩ := r
      simp only [liftEntries_elab env ms es]
      cases elabEntries env ms es c1 with
      | error e => rfl
      | ok r => rfl
  | .table ty lbr rows rbr :: es, c => by
    simp only [List.map_cons, liftEntry, elabEntriesE, elabEntries, liftRows_elab]
    cases elabRows env ms ty.lit rows 0 c with
    | error e => rfl
    | ok r =>
      obtain ⟨entries, rimp, c1⟩ := r
      simp only [liftEntries_elab env ms es]
      cases elabEntries env ms es c1 with
      | error e => rfl
      | ok r => rfl

/-- A `mapscripts` statement of P2b (inline bodies in P1's grammar) as an element of `STopE`. -/
abbrev oldMapscripts (kw : Tok) (md : Mod) (name lb : Tok) (es : List SEntry) (rb : Tok) : STopE :=
  .base (.base (.mapscripts kw md name lb es rb))

/-- … and P2b's `mapscripts` statement IS the `mapscriptsE` statement of its lifted entries. -/
theorem mapscriptsE_extends_P2b (kw : Tok) (md : Mod) (name lb : Tok) (es : List SEntry) (rb : Tok) :
    printTopE (.mapscriptsE kw md name lb (es.map liftEntry) rb) = printTopE (oldMapscripts kw md name lb es rb) ∧
    (TopWFE (.mapscriptsE kw md name lb (es.map liftEntry) rb) ↔ TopWFE (oldMapscripts kw md name lb es rb)) ∧
    ∀ (env : Env) (s : PState),
      stepTopE env (.mapscriptsE kw md name lb (es.map liftEntry) rb) s =
        stepTopE env (oldMapscripts kw md name lb es rb) s := by
  refine ⟨?_, ?_, ?_⟩
  · simp only [printTopE, printTopP, printTopM, liftEntries_print]
  · simp only [TopWFE, TopWFP, TopWFM, liftEntries_wf]
  · intro env s
    simp only [stepTopE, stepTopP, stepTopM, liftEntries_elab]
    cases elabEntries env name.lit es (ctxOf s) with
    | error e => rfl
    | ok r => rfl

/-- Every script statement of P2 and every `mapscripts` statement of P2b of a file rewritten as a `scriptE` /
`mapscriptsE` statement. -/
def liftTop : STopE → STopE
  | .base (.base (.base (.script kw md name lb b rb))) => .scriptE kw md name lb (liftBody b) rb
  | .base (.base (.mapscripts kw md name lb es rb)) => .mapscriptsE kw md name lb (es.map liftEntry) rb
  | t => t

theorem liftTop_spec (t : STopE) :
    printTopE (liftTop t) = printTopE t ∧ (TopWFE (liftTop t) ↔ TopWFE t) ∧ (liftTop t).isConst = t.isConst ∧
    ∀ (env : Env) (s : PState), stepTopE env (liftTop t) s = stepTopE env t s := by
  unfold liftTop
  split
  · next kw md name lb b rb =>
    exact ⟨(scriptE_extends_P2 kw md name lb b rb).1, (scriptE_extends_P2 kw md name lb b rb).2.1, rfl,
      (scriptE_extends_P2 kw md name lb b rb).2.2⟩
  · next kw md name lb es rb =>
    exact ⟨(mapscriptsE_extends_P2b kw md name lb es rb).1, (mapscriptsE_extends_P2b kw md name lb es rb).2.1, rfl,
      (mapscriptsE_extends_P2b kw md name lb es rb).2.2⟩
  · exact ⟨rfl, Iff.rfl, rfl, fun _ _ => rfl⟩

/-- **Nothing of P2 … P2d is lost, whole files**: rewriting every old script / mapscripts statement as a `scriptE` /
`mapscriptsE` statement changes neither the printed tokens, nor well-formedness, nor the reference elaboration. -/
theorem liftTops_spec (ts : List STopE) :
    printTopsE (ts.map liftTop) = printTopsE ts ∧ (TWFE (ts.map liftTop) ↔ TWFE ts) ∧
    ∀ (env : Env) (s : PState), elabTopsE env (ts.map liftTop) s = elabTopsE env ts s := by
  induction ts with
  | nil => exact ⟨rfl, Iff.rfl, fun _ _ => rfl⟩
  | cons t r ih =>
    obtain ⟨h1, h2, h3, h4⟩ := liftTop_spec t
    obtain ⟨i1, i2, i3⟩ := ih
    refine ⟨?_, ?_, ?_⟩
    · simp only [List.map_cons, printTopsE, h1, i1]
    · simp only [List.map_cons, TWFE, h2, h3, i2, ne_eq, List.map_eq_nil_iff]
    · intro env s
      simp only [List.map_cons, elabTopsE, h4, i3]

/-! ## 4. examples, non-vacuity -/
section Example
open Pory.C14b (Items ItemP)

private def lp : Tok := tk .LPAREN "("
private def rp : Tok := tk .RPAREN ")"
private def lb : Tok := tk .LBRACE "{"
private def rb : Tok := tk .RBRACE "}"
private def id (s : String) : Tok := tk .IDENT s
/-- the final token -/
def eofT : Tok := tk .EOF ""

/-- `const N = 2` -/
def exConst : STopE := .base (.base (.base (.const (tk .CONST "const") (id "N") (tk .ASSIGN "=") [tk .INT "2"])))
/-- `movement Mv { face_up * 2 }` -/
def exMove : STopE :=
  .base (.movementP (tk .MOVEMENT "movement") .absent (id "Mv") lb
    (.cons (.plain (.stepMul (id "face_up") (tk .MUL "*") (tk .INT "2"))) .nil) rb)
/-- `if (flag(1)) { msgbox("hi") }` -/
def exIf : P1c.SStmt :=
  .ite (tk .IF "if") lp
    (.one (.one (.leaf (.kw { nt := none, kw := tk .FLAG "flag", lp := lp, o := tk .INT "1", ops := [], rp := rp,
                              post := .none })))) rp lb
    [.cmd (.args (id "msgbox") lp [.base (.base (.str (tk .STRING "hi")))] [] rp)] rb [] .none
/-- `applymovement(1, moves(walk_up poryswitch(V) { A: walk_left * 2 _ { face_down } } walk_down))
if (flag(1)) { msgbox("hi") }` (`P1c.exCmd` is the command of P1c's example) -/
def exBody : List P1c.SStmt := [.cmd P1c.exCmd, exIf]
def exScript : STopE := .scriptE (tk .SCRIPT "script") .absent (id "S") lb exBody rb
/-- the required file: a `const`, a `movement`, and the script -/
def exFile : List STopE := [exConst, exMove, exScript]

-- sanity check (evaluation, not a proof): the printed tokens are what the model lexer produces
#guard (Lexer.lexAll ("const N = 2\nmovement Mv { face_up * 2 }\n" ++
    "script S { applymovement(1, moves(walk_up poryswitch(V) { A: walk_left * 2 _ { face_down } } walk_down)) " ++
    "if (flag(1)) { msgbox(\"hi\") } }").toList).map (fun t => (t.type, t.lit)) ==
  (printTopsE exFile ++ [eofT]).map (fun t => (t.type, t.lit))

theorem exFile_wf : TWFE exFile := by decide

/-- a program as the examples look at it: number of top-level statements (hoisted movements included), the
movement statements with their steps, the hoisted texts, the patches `(command id, argument position) ↦ label`. -/
structure PV where
  n : Nat
  moves : List (String × List String)
  texts : List (String × String)
  patches : List ((Nat × Nat) × String)
  deriving DecidableEq, Repr

def progView (p : Program) : PV :=
  ⟨p.tops.length,
   p.tops.filterMap (fun | .movement m => some (m.name, m.cmds.map (·.lit)) | _ => none),
   p.texts.map (fun t => (t.name, t.value)),
   p.patches⟩

/-- under `-s V=A` (`P1c.envA`): the `A` case with its multiplier expanded, hoisted as `S_Movement_0` and patched
into argument 1 of command 0; the string of `msgbox` hoisted as `S_Text_0` (command 1, argument 0) -/
def viewA : PV :=
  { n := 3
    moves := [("Mv", ["face_up", "face_up"]), ("S_Movement_0", ["walk_up", "walk_left", "walk_left", "walk_down"])]
    texts := [("S_Text_0", "hi$")]
    patches := [((1, 0), "S_Text_0"), ((0, 1), "S_Movement_0")] }

/-- under `-s V=B` (`P1c.envB`; no case `B`): the `_` case -/
def viewB : PV :=
  { viewA with
    moves := [("Mv", ["face_up", "face_up"]), ("S_Movement_0", ["walk_up", "face_down", "walk_down"])] }

/-- **Non-vacuity, by evaluation of the parser model** (`decide` on `parseTokens`), two `-s` values. -/
theorem exFile_parsed_decide_A :
    (parseTokens P1c.envA (printTopsE exFile ++ [eofT])).toOption.map progView = some viewA := by decide

theorem exFile_parsed_decide_B :
    (parseTokens P1c.envB (printTopsE exFile ++ [eofT])).toOption.map progView = some viewB := by decide

/-- **Non-vacuity, by the theorem**: the same through `parse_file_elab_e` (the reference elaboration evaluated). -/
theorem exFile_parsed_theorem_A :
    ∃ p, parseTokens P1c.envA (printTopsE exFile ++ [eofT]) = .ok p ∧ progView p = viewA := by
  rw [parse_file_elab_e P1c.envA eofT rfl exFile exFile_wf]
  exact ⟨_, rfl, by decide⟩

theorem exFile_parsed_theorem_B :
    ∃ p, parseTokens P1c.envB (printTopsE exFile ++ [eofT]) = .ok p ∧ progView p = viewB := by
  rw [parse_file_elab_e P1c.envB eofT rfl exFile exFile_wf]
  exact ⟨_, rfl, by decide⟩

/-- `parse_top_elab_e` instantiated on the script statement, in a state where 7 command ids and 3 scope ids are
used and `N = 2` is defined: the counters go on from there (the `if` takes one scope id). -/
example :
    ((parseTopLevelStatement P1c.envA 200).run
        (st { initState eofT with constants := [("N", "2")], nextCmdId := 7, nextSid := 3 }
          (printTopE exScript ++ [eofT]))).toOption.map
      (fun r => (r.2.toks.map (·.lit), r.2.nextCmdId, r.2.patches, r.2.inlineMovements.map (·.name))) =
    some (["}", ""], 9, [((8, 0), "S_Text_0"), ((7, 1), "S_Movement_0")], ["S_Movement_0"]) := by
  rw [parse_top_elab_e P1c.envA 200 exScript _ eofT [] (by decide) (fun h => by cases h) (by decide)]
  rfl

/-! ### the located errors, through `parseTokens` -/

/-- no `-s` option at all: located on the `poryswitch` token inside `moves( … )` (line 3, columns 33–43) -/
example :
    parseTokens {} (printTopsE exFile ++ [eofT]) =
      .error (.err { lineStart := 3, lineEnd := 3, charStart := 33, utf8Start := 33, charEnd := 43, utf8End := 43,
                     msg := "poryswitch used, but no compile switches were specified with the '-s' option" }) := by
  rw [parse_file_elab_e {} eofT rfl exFile exFile_wf]
  rfl

/-- the switch `V` is not defined: located on its name — through `script_reject_file` (prefix `const`, `movement`) -/
example :
    parseTokens { switches := [("W", "1")] } (printTopsE exFile ++ [eofT]) =
      .error (newParseError (tk .IDENT "V") "no poryswitch for 'V' was specified with the '-s' option") :=
  script_reject_file { switches := [("W", "1")] } eofT rfl [exConst, exMove] _ _ _ _ exBody _ [] exFile_wf _ _ rfl _ rfl

/-! ### two scripts whose `moves( … )` differ only in the unselected case -/

/-- `walk_up poryswitch(V) { A: walk_left * 2 _: jump } walk_down` -/
def exItems2 : Items :=
  .cons (.plain (.step (id "walk_up")))
    (.cons (.sw (tk .PORYSWITCH "poryswitch") lp (id "V") rp lb
        (.colon (id "A") (tk .COLON ":") (.plain (.stepMul (id "walk_left") (tk .MUL "*") (tk .INT "2")))
          (.colon (id "_") (tk .COLON ":") (.plain (.step (id "jump"))) .nil)) rb)
      (.cons (.plain (.step (id "walk_down"))) .nil))
/-- `script T { applymovement(2, moves( … )) }` -/
def exScript2 : STopE :=
  .scriptE (tk .SCRIPT "script") .absent (id "T") lb
    [.cmd (.args (id "applymovement") lp [.base (.base (.tok (tk .INT "2")))]
      [(tk .COMMA ",", [.movesS (tk .MOVES "moves") lp exItems2 rp])] rp)] rb

/-- `exShare`: under `-s V=A` both lists select the same steps — ONE hoisted movement, labelled after the first
script, patched into both commands (the command ids go on across scripts: command 2); … -/
theorem exShare :
    ∃ p, parseTokens P1c.envA (printTopsE (exFile ++ [exScript2]) ++ [eofT]) = .ok p ∧
      progView p =
        { viewA with
          n := 4
          patches := [((1, 0), "S_Text_0"), ((0, 1), "S_Movement_0"), ((2, 1), "S_Movement_0")] } := by
  rw [parse_file_elab_e P1c.envA eofT rfl _ (by decide)]
  exact ⟨_, rfl, by decide⟩

/-- … under `-s V=B` they differ: two hoisted movements. -/
example :
    ∃ p, parseTokens P1c.envB (printTopsE (exFile ++ [exScript2]) ++ [eofT]) = .ok p ∧
      progView p =
        { viewB with
          n := 5
          moves := viewB.moves ++ [("T_Movement_0", ["walk_up", "jump", "walk_down"])]
          patches := [((1, 0), "S_Text_0"), ((0, 1), "S_Movement_0"), ((2, 1), "T_Movement_0")] } := by
  rw [parse_file_elab_e P1c.envB eofT rfl _ (by decide)]
  exact ⟨_, rfl, by decide⟩

/-! ### a `mapscripts` statement whose inline scripts use `moves( … poryswitch … )` -/

/-- `applymovement(2, moves(walk_up poryswitch(V) { A: walk_left * 2 _: jump } walk_down))` -/
def exCmd2 : P1c.SStmt :=
  .cmd (.args (id "applymovement") lp [.base (.base (.tok (tk .INT "2")))]
      [(tk .COMMA ",", [.movesS (tk .MOVES "moves") lp exItems2 rp])] rp)

/-- `mapscripts M { MAP_SCRIPT_ON_LOAD { applymovement(1, moves( … )) }
MAP_SCRIPT_ON_FRAME_TABLE [ VAR_TEMP_0, 0 { applymovement(2, moves( … )) if (flag(1)) { msgbox("hi") } } ] }` -/
def exMap : STopE :=
  .mapscriptsE (tk .MAPSCRIPTS "mapscripts") .absent (id "M") lb
    [.inline (id "MAP_SCRIPT_ON_LOAD") lb [.cmd P1c.exCmd] rb,
     .table (id "MAP_SCRIPT_ON_FRAME_TABLE") (tk .LBRACKET "[")
       [.inline [id "VAR_TEMP_0"] (tk .COMMA ",") [tk .INT "0"] lb [exCmd2, exIf] rb] (tk .RBRACKET "]")] rb

#guard (Lexer.lexAll ("mapscripts M { MAP_SCRIPT_ON_LOAD { applymovement(1, moves(walk_up poryswitch(V) " ++
    "{ A: walk_left * 2 _ { face_down } } walk_down)) } MAP_SCRIPT_ON_FRAME_TABLE [ VAR_TEMP_0, 0 { " ++
    "applymovement(2, moves(walk_up poryswitch(V) { A: walk_left * 2 _: jump } walk_down)) " ++
    "if (flag(1)) { msgbox(\"hi\") } } ] }").toList).map (fun t => (t.type, t.lit)) ==
  (printTopsE [exMap] ++ [eofT]).map (fun t => (t.type, t.lit))

/-- under `-s V=A`: the two inline scripts share ONE hoisted movement, labelled after the generated name of the
first; by evaluation of the model … -/
example :
    (parseTokens P1c.envA (printTopsE [exConst, exMap] ++ [eofT])).toOption.map progView =
      some { n := 2
             moves := [("M_MAP_SCRIPT_ON_LOAD_Movement_0", ["walk_up", "walk_left", "walk_left", "walk_down"])]
             texts := [("M_MAP_SCRIPT_ON_FRAME_TABLE_0_Text_0", "hi$")]
             patches := [((2, 0), "M_MAP_SCRIPT_ON_FRAME_TABLE_0_Text_0"),
                         ((0, 1), "M_MAP_SCRIPT_ON_LOAD_Movement_0"), ((1, 1), "M_MAP_SCRIPT_ON_LOAD_Movement_0")] } := by
  decide

/-- … and by the theorem, under `-s V=B`: two hoisted movements. -/
example :
    ∃ p, parseTokens P1c.envB (printTopsE [exConst, exMap] ++ [eofT]) = .ok p ∧
      progView p =
        { n := 3
          moves := [("M_MAP_SCRIPT_ON_LOAD_Movement_0", ["walk_up", "face_down", "walk_down"]),
                    ("M_MAP_SCRIPT_ON_FRAME_TABLE_0_Movement_0", ["walk_up", "jump", "walk_down"])]
          texts := [("M_MAP_SCRIPT_ON_FRAME_TABLE_0_Text_0", "hi$")]
          patches := [((2, 0), "M_MAP_SCRIPT_ON_FRAME_TABLE_0_Text_0"), ((0, 1), "M_MAP_SCRIPT_ON_LOAD_Movement_0"),
                      ((1, 1), "M_MAP_SCRIPT_ON_FRAME_TABLE_0_Movement_0")] } := by
  rw [parse_file_elab_e P1c.envB eofT rfl _ (by decide)]
  exact ⟨_, rfl, by decide⟩

/-- the switch is not defined: the error of the FIRST inline body is the error of the file -/
example :
    parseTokens { switches := [("W", "1")] } (printTopsE [exConst, exMap] ++ [eofT]) =
      .error (newParseError (tk .IDENT "V") "no poryswitch for 'V' was specified with the '-s' option") := by
  rw [parse_file_elab_e _ eofT rfl _ (by decide)]
  rfl

/-! ### compiled output -/

/-- emitter options of the examples: chunk order not optimised (`optimizeChunkOrder` does not reduce under
`decide`), no line markers -/
def exO : Opts := { optimize := false }

/-- the file compiled under `-s V=A`: two top-level blocks, the hoisted movement, the hoisted text -/
theorem exFile_compiled_A :
    (compileFileE P1c.envA exO eofT exFile).toOption.map (fun S => (S.tops.length, S.moves, S.inl, S.stm)) =
      some (2,
        [[.labelDef "S_Movement_0" false, .step "walk_up", .step "walk_left", .step "walk_left", .step "walk_down",
          .step "step_end"]],
        [[.labelDef "S_Text_0" false, .textLine "string" "hi$"]], []) := by decide

/-- `compile_print_e` instantiated: the model's pipeline on the printed tokens renders exactly these sections. -/
example :
    (compileToks P1c.envA exO (printTopsE exFile ++ [eofT])).toOption =
      (compileFileE P1c.envA exO eofT exFile).toOption.map Sections.lines := by
  rw [compile_print_e P1c.envA exO eofT rfl exFile exFile_wf]
  cases compileFileE P1c.envA exO eofT exFile <;> rfl

/-- `liftTops_spec` instantiated on P2's example file (two scripts with P1 bodies and a movement): the file with
its scripts rewritten as `scriptE` statements has the same tokens and is parsed to the same result. -/
example (env : Env) :
    parseTokens env (printTopsE ((embedP (embedM (embed P2.exFile))).map liftTop) ++ [eofT]) =
      elabFile env P2.exFile (initState eofT) := by
  obtain ⟨h1, h2, h3⟩ := liftTops_spec (embedP (embedM (embed P2.exFile)))
  have hwf : TWFE (embedP (embedM (embed P2.exFile))) :=
    (TWFE_embed _).2 ((TWFP_embed _).2 ((TWFM_embed _).2 P2.exFile_wf))
  rw [parse_file_elab_e env eofT rfl _ (h2.2 hwf)]
  unfold elabFileE
  rw [h3, elabTopsE_embed, elabTopsP_embed, elabTopsM_embed]
  rfl

/-- embedded files: P2d's example file through `parse_file_embed_e` -/
example : parseTokens P2d.env1 (printTopsE (embedP P2d.exFile) ++ [eofT]) =
    elabFileP P2d.env1 P2d.exFile (initState eofT) :=
  parse_file_embed_e P2d.env1 eofT rfl P2d.exFile P2d.exFile_wf

end Example

#print axioms parse_top_elab_e
#print axioms parse_scriptE_elab
#print axioms parse_mapscriptsE_elab
#print axioms parse_tops_elab_e
#print axioms parse_program_elab_e
#print axioms parse_file_elab_e
#print axioms parse_file_embed_e
#print axioms parse_file_program_e
#print axioms parse_error_left_e
#print axioms script_reject_file
#print axioms script_reject_file_documented
#print axioms compile_print_e
#print axioms scriptE_extends_P2
#print axioms mapscriptsE_extends_P2b
#print axioms liftTops_spec
#print axioms exFile_parsed_decide_A
#print axioms exFile_parsed_theorem_A

end Pory.P2e
