import PoryProofs.TokProvenance4
import PoryProofs.StmtFirstTok
import PoryProofs.DefaultTok
import PoryProofs.Properties.C16b
import PoryProofs.Properties.C18
import PoryProofs.LexEof
import PoryProofs.LexRawLines
/-
C16 (marker lines), parser side — "every token stored in the AST of a parsed program is a token
of the input".

`FromInput toks t` : `t` agrees in all six position fields (line, endLine, startChar, endChar,
startUtf8, endUtf8) with a token of `toks` or with the end-of-input token
`toks.getLastD {type := .EOF}` that `parseTokens` uses.

FINDING (the statement as first posed is FALSE of the model, and of the Go parser it mirrors):
the value token of the `default` case of a `switch` statement is the zero token `{}` (line 0), not
a token of the input (`parseSwitchCases`: `cases ++ [(({} : Tok), true, body)]`; in Go,
`parser.go`: `&ast.SwitchCase{IsDefault: true, Body: body}` — `Value` stays the zero `token.Token`).  `C16b.progToks p` counts the value token of every
case, also of the default case, so `∀ t ∈ C16b.progToks p, FromInput toks t` fails:
`parsed_tokens_from_input_literal_false` (witness: `script S { switch (var(V)) { default: end } }`).
The emitter never writes a marker for that token (`switchBranchCases` / `switchTrailing` only take
the non-default cases), so nothing is wrong with the output; only the token set of C16b was too big.

What is proved instead, at full strength, for the token set `C16nd.progToks p` = `C16b.progToks p`
without the value tokens of default cases (`PoryProofs/MarkerTokensND.lean`; the emitter-side
theorems of C16b are re-proved for this smaller set in `PoryProofs/MarkerLinesND.lean`):
1. `parsed_tokens_from_input` : `parseTokens env toks = .ok p → ∀ t ∈ C16nd.progToks p, FromInput toks t`
   (one induction on the fuel through the 13 mutually recursive statement functions:
   `PoryProofs/TokProvenance3.lean`, `provAll`; below: `TokProvenance.lean`, `TokProvenance2.lean`;
   top level, implicit texts / movements, program: `TokProvenance4.lean`).
   `raw_tokens_from_input` : the value token of a raw statement IS a `RAWSTRING` token of the
   input (not only positioned at one) and the value is its literal.
   `parsed_tokens_from_input_or_zero` : for the token set of C16b as it stands,
   `∀ t ∈ C16b.progToks p, FromInput toks t ∨ t = {}` — the zero token of `default` cases is the only
   exception (`PoryProofs/DefaultTok.lean`: in a parsed program every `default` case carries `{}`,
   `dzAll`, a second induction through the statement block; `progToks_nd_subset`: the smaller set is
   a subset of the C16b set, and the C16b set is the smaller set plus those zero tokens).
2. `parsed_mart_wf` : `C16b.MartWF p` (and the same for the copy `C16nd.MartWF`).
3. `marker_lines_in_input` : for `toks = lexAll src`, every marker of `emitProgram o p` names
   `o.inputPath` and a line `1 ≤ n ≤ lineOf src` (`lineOf src` = number of lines of `src`), for every
   source, environment and option set — no hypothesis left.  The raw-block part (the emitter writes
   the marker `vtok.line + i` for the `i`-th line of the value) needs a fact about the lexer alone:
   a `RAWSTRING` token does not have more lines than the source has from its start line on.  It is
   proved in `PoryProofs/LexRawLines.lean` (`lexAll_raw_splitLines`); the version of the theorem
   with that fact as hypothesis `hraw` is kept as `marker_lines_in_input_of`.
4. `statement_token_is_first` (stretch, proved in full in the form that is true): when
   `parseStatement` succeeds from `s` and the current token is not `poryswitch`, it returns
   `pre ++ [st]` where the token stored in `st` (command token / label token / `if`, `while`, `do`,
   `switch`, `break`, `continue` keyword token: `stmtTok st`) IS the current token
   `s.toks.headD s.eof` — the whole token, not only its position — and `pre = []`, except for a
   `switch` over an auto-var command, where `pre = [.cmd c]` is the preamble command and `c.tok` is
   the third token of the window (`switch ( cmd …`).  A `poryswitch` statement splices the statements
   of the selected case (none, one or several, each parsed by `parseStatement` at a later position)
   and is excluded; for it only theorem 1 applies.  (`PoryProofs/StmtFirstTok.lean`.)
-/
namespace Pory.C16c
open Pory Pory.Parser Pory.Emit

/-- Agreement in all six position fields. -/
def SamePos (a b : Tok) : Prop :=
  a.line = b.line ∧ a.endLine = b.endLine ∧ a.startChar = b.startChar ∧ a.endChar = b.endChar ∧
  a.startUtf8 = b.startUtf8 ∧ a.endUtf8 = b.endUtf8

instance (a b : Tok) : Decidable (SamePos a b) := by unfold SamePos; exact inferInstance

/-- `t` stands at the position of a token of the input (`inputToks toks` = `toks` followed by the
end-of-input token `toks.getLastD {type := .EOF}`). -/
def FromInput (toks : List Tok) (t : Tok) : Prop := ∃ t0 ∈ inputToks toks, SamePos t t0

instance (toks : List Tok) (t : Tok) : Decidable (FromInput toks t) := by unfold FromInput; exact inferInstance

theorem fromInput_iff (toks : List Tok) (t : Tok) :
    FromInput toks t ↔ ∃ t0, (t0 ∈ toks ∨ t0 = toks.getLastD { type := .EOF }) ∧ SamePos t t0 := by
  simp only [FromInput, inputToks, List.mem_append, List.mem_singleton]

theorem samePos_iff (a b : Tok) : SamePos a b ↔ tpos a = tpos b := by
  simp only [SamePos, tpos, Prod.mk.injEq]

theorem fromInput_iff_pos (toks : List Tok) (t : Tok) : FromInput toks t ↔ Pos (inputToks toks) t := by
  simp only [FromInput, Pos, samePos_iff]

/-! ### 1. tokens of the AST are tokens of the input -/

theorem mem_progToks {p : Program} {t : Tok} (h : t ∈ C16nd.progToks p) :
    (∃ top ∈ p.tops, t ∈ C16nd.topToks top) ∨ ∃ x ∈ p.texts, t = x.tok := by
  simp only [C16nd.progToks, List.mem_append, List.mem_flatMap, List.mem_map] at h
  rcases h with ⟨top, h1, h2⟩ | ⟨x, h1, h2⟩
  · exact Or.inl ⟨top, h1, h2⟩
  · exact Or.inr ⟨x, h1, h2.symm⟩

/-- **C16, parser side.** Every token stored in the AST of a parsed program (command, label,
condition operand, switch operand and non-default case value tokens, recursively through all
bodies; movement steps, mart items, text tokens incl. the implicit ones, map-script types and
table conditions, keyword / name tokens of the top-level statements) stands at the position of a
token of the input. -/
theorem parsed_tokens_from_input (env : Env) (toks : List Tok) (p : Program)
    (h : parseTokens env toks = .ok p) : ∀ t ∈ C16nd.progToks p, FromInput toks t := by
  have hp := parseTokens_progOK h
  intro t ht
  rw [fromInput_iff_pos]
  rcases mem_progToks ht with ⟨top, h1, h2⟩ | ⟨x, h1, rfl⟩
  · exact (hp.tops top h1).1 t h2
  · exact hp.texts x h1

/-- The token set of C16b as it stands: every token is positioned at an input token or is the zero
token (the value token of a `default` switch case). -/
theorem parsed_tokens_from_input_or_zero (env : Env) (toks : List Tok) (p : Program)
    (h : parseTokens env toks = .ok p) : ∀ t ∈ C16b.progToks p, FromInput toks t ∨ t = {} := by
  intro t ht
  rcases mem_progToks_b (parseTokens_dz h) ht with h1 | h1
  · exact Or.inl (parsed_tokens_from_input env toks p h t h1)
  · exact Or.inr h1

/-- The smaller token set is a subset of the token set of C16b (for every program). -/
theorem progToks_nd_subset (p : Program) : ∀ t ∈ C16nd.progToks p, t ∈ C16b.progToks p :=
  fun _ h => mem_progToks_nd h

/-- The value token of a raw statement is a `RAWSTRING` token of the input itself, and the value is
its literal. -/
theorem raw_tokens_from_input (env : Env) (toks : List Tok) (p : Program)
    (h : parseTokens env toks = .ok p) (tok vtok : Tok) (v : String) (hr : Top.raw tok vtok v ∈ p.tops) :
    vtok ∈ inputToks toks ∧ v = vtok.lit ∧ vtok.type = .RAWSTRING :=
  ((parseTokens_progOK h).tops _ hr).2

/-! ### 2. mart statements -/

theorem parsed_mart_wf_nd (env : Env) (toks : List Tok) (p : Program) (h : parseTokens env toks = .ok p) :
    C16nd.MartWF p := by
  intro tok name tis items scope hm
  exact ((parseTokens_progOK h).tops _ hm).2

/-- A parsed mart statement has a token for every item. -/
theorem parsed_mart_wf (env : Env) (toks : List Tok) (p : Program) (h : parseTokens env toks = .ok p) :
    C16b.MartWF p := parsed_mart_wf_nd env toks p h

/-! ### 3. marker lines are lines of the source -/

theorem mem_inputToks_lexAll (src : List Char) (t : Tok) (h : t ∈ inputToks (Lexer.lexAll src)) :
    t ∈ Lexer.lexAll src := by
  simp only [inputToks, List.mem_append, List.mem_singleton] at h
  rcases h with h | h
  · exact h
  · have hne := (Lexer.lexAll_ends_with_eof src).2
    rw [h, List.getLastD_eq_getLast?, List.getLast?_eq_some_getLast hne, Option.getD_some]
    exact List.getLast_mem hne

/-- End-to-end statement with the lexer fact about raw strings as a hypothesis. -/
theorem marker_lines_in_input_of (src : List Char) (env : Env) (o : Opts) (p : Program) (ls : List Line)
    (hp : parseTokens env (Lexer.lexAll src) = .ok p) (he : emitProgram o p = .ok ls)
    (hraw : ∀ t ∈ Lexer.lexAll src, t.type = .RAWSTRING →
      t.line + (splitLines t.lit.toList).length ≤ LexPos.lineOf src + 1) :
    ∀ n path, Line.marker n path ∈ ls → path = o.inputPath ∧ 1 ≤ n ∧ n ≤ LexPos.lineOf src := by
  have hwf := parsed_mart_wf_nd env _ p hp
  intro n path hm
  refine ⟨(C16nd.marker_lines_from_tokens o p hwf ls he n path hm).1, ?_⟩
  refine C16nd.marker_lines_when_tokens_in_range o p hwf (LexPos.lineOf src) ?_ ?_ ls he n path hm
  · intro t ht
    obtain ⟨t0, h0, hs⟩ := parsed_tokens_from_input env _ p hp t ht
    rw [hs.1]
    exact C18.token_line_in_range src t0 (mem_inputToks_lexAll src t0 h0)
  · intro tok vtok v hr
    obtain ⟨h1, rfl, h3⟩ := raw_tokens_from_input env _ p hp tok vtok v hr
    exact hraw vtok (mem_inputToks_lexAll src vtok h1) h3

/-- **C16, end to end.** Source → tokens → AST → output: every line marker names the input path and
a line of the source. -/
theorem marker_lines_in_input (src : List Char) (env : Env) (o : Opts) (p : Program) (ls : List Line)
    (hp : parseTokens env (Lexer.lexAll src) = .ok p) (he : emitProgram o p = .ok ls) :
    ∀ n path, Line.marker n path ∈ ls → path = o.inputPath ∧ 1 ≤ n ∧ n ≤ LexPos.lineOf src :=
  marker_lines_in_input_of src env o p ls hp he (LexRaw.lexAll_raw_splitLines src)

/-- The same for programs without `raw` statements, without using the lexer fact. -/
theorem marker_lines_in_input_no_raw (src : List Char) (env : Env) (o : Opts) (p : Program) (ls : List Line)
    (hp : parseTokens env (Lexer.lexAll src) = .ok p) (he : emitProgram o p = .ok ls)
    (hnr : ∀ tok vtok v, Top.raw tok vtok v ∉ p.tops) :
    ∀ n path, Line.marker n path ∈ ls → path = o.inputPath ∧ 1 ≤ n ∧ n ≤ LexPos.lineOf src := by
  have hwf := parsed_mart_wf_nd env _ p hp
  intro n path hm
  refine ⟨(C16nd.marker_lines_from_tokens o p hwf ls he n path hm).1, ?_⟩
  refine C16nd.marker_lines_when_tokens_in_range o p hwf (LexPos.lineOf src) ?_ ?_ ls he n path hm
  · intro t ht
    obtain ⟨t0, h0, hs⟩ := parsed_tokens_from_input env _ p hp t ht
    rw [hs.1]
    exact C18.token_line_in_range src t0 (mem_inputToks_lexAll src t0 h0)
  · intro tok vtok v hr
    exact absurd hr (hnr tok vtok v)

/-! ### the statement as first posed is false: the `default` case carries the zero token -/

def mk (ty : TT) (lit : String) (line sc su el ec eu : Nat) : Tok :=
  { type := ty, lit := lit, line := line, startChar := sc, startUtf8 := su, endLine := el, endChar := ec,
    endUtf8 := eu }

/-- ```
script S {
  switch (var(V)) { default: end }
}
``` -/
def cexToks : List Tok :=
  [mk .SCRIPT "script" 1 0 0 1 6 6, mk .IDENT "S" 1 7 7 1 8 8, mk .LBRACE "{" 1 9 9 1 10 10,
   mk .SWITCH "switch" 2 2 2 2 8 8, mk .LPAREN "(" 2 9 9 2 10 10, mk .VAR "var" 2 10 10 2 13 13,
   mk .LPAREN "(" 2 13 13 2 14 14, mk .IDENT "V" 2 14 14 2 15 15, mk .RPAREN ")" 2 15 15 2 16 16,
   mk .RPAREN ")" 2 16 16 2 17 17, mk .LBRACE "{" 2 18 18 2 19 19, mk .DEFAULT "default" 2 20 20 2 27 27,
   mk .COLON ":" 2 27 27 2 28 28, mk .IDENT "end" 2 29 29 2 32 32, mk .RBRACE "}" 2 33 33 2 34 34,
   mk .RBRACE "}" 3 0 0 3 1 1, mk .EOF "" 3 1 1 3 1 1]

theorem cex_key :
    (match parseTokens {} cexToks with
     | .ok p => decide (∃ t ∈ C16b.progToks p, t = {} ∧ ¬ FromInput cexToks t) &&
                decide (∀ t ∈ C16nd.progToks p, FromInput cexToks t)
     | .error _ => false) = true := by decide +kernel

/-- **The literal statement is false**: for the token set of C16b (which counts the value token of
the `default` case) there is a parsed program with a stored token — the zero token — that does not
stand at the position of any input token. -/
theorem parsed_tokens_from_input_literal_false :
    ¬ ∀ (env : Env) (toks : List Tok) (p : Program), parseTokens env toks = .ok p →
        ∀ t ∈ C16b.progToks p, FromInput toks t := by
  intro hall
  have key := cex_key
  cases h : parseTokens {} cexToks with
  | error e => rw [h] at key; cases key
  | ok p =>
    rw [h] at key
    simp only [Bool.and_eq_true, decide_eq_true_eq] at key
    obtain ⟨⟨t, ht, _, hn⟩, _⟩ := key
    exact hn (hall {} cexToks p h t ht)

/-! ### non-vacuity: a script with an `if`, a command with a string, a switch with a default case, a
movement statement and a raw block, through lexer, parser and emitter -/

def exSrc : String :=
  "script S {\n  if (flag(F)) {\n    msgbox(\"hi\")\n  }\n  switch (var(V)) {\n    case 1: lock\n    default: release\n  }\n}\nmovement M { walk_up * 2 }\nraw `a\nb`\n"

def exToks : List Tok :=
  [mk .SCRIPT "script" 1 0 0 1 6 6, mk .IDENT "S" 1 7 7 1 8 8, mk .LBRACE "{" 1 9 9 1 10 10,
   mk .IF "if" 2 2 2 2 4 4, mk .LPAREN "(" 2 5 5 2 6 6, mk .FLAG "flag" 2 6 6 2 10 10,
   mk .LPAREN "(" 2 10 10 2 11 11, mk .IDENT "F" 2 11 11 2 12 12, mk .RPAREN ")" 2 12 12 2 13 13,
   mk .RPAREN ")" 2 13 13 2 14 14, mk .LBRACE "{" 2 15 15 2 16 16, mk .IDENT "msgbox" 3 4 4 3 10 10,
   mk .LPAREN "(" 3 10 10 3 11 11, mk .STRING "hi" 3 11 11 3 15 15, mk .RPAREN ")" 3 15 15 3 16 16,
   mk .RBRACE "}" 4 2 2 4 3 3, mk .SWITCH "switch" 5 2 2 5 8 8, mk .LPAREN "(" 5 9 9 5 10 10,
   mk .VAR "var" 5 10 10 5 13 13, mk .LPAREN "(" 5 13 13 5 14 14, mk .IDENT "V" 5 14 14 5 15 15,
   mk .RPAREN ")" 5 15 15 5 16 16, mk .RPAREN ")" 5 16 16 5 17 17, mk .LBRACE "{" 5 18 18 5 19 19,
   mk .CASE "case" 6 4 4 6 8 8, mk .INT "1" 6 9 9 6 10 10, mk .COLON ":" 6 10 10 6 11 11,
   mk .IDENT "lock" 6 12 12 6 16 16, mk .DEFAULT "default" 7 4 4 7 11 11, mk .COLON ":" 7 11 11 7 12 12,
   mk .IDENT "release" 7 13 13 7 20 20, mk .RBRACE "}" 8 2 2 8 3 3, mk .RBRACE "}" 9 0 0 9 1 1,
   mk .MOVEMENT "movement" 10 0 0 10 8 8, mk .IDENT "M" 10 9 9 10 10 10, mk .LBRACE "{" 10 11 11 10 12 12,
   mk .IDENT "walk_up" 10 13 13 10 20 20, mk .MUL "*" 10 21 21 10 22 22, mk .INT "2" 10 23 23 10 24 24,
   mk .RBRACE "}" 10 25 25 10 26 26, mk .RAW "raw" 11 0 0 11 3 3, mk .RAWSTRING "a\nb" 11 4 4 12 3 3,
   mk .EOF "" 13 0 1 13 0 1]

/-- The token list is what the lexer model produces for the source. -/
theorem exToks_eq : Lexer.lexAll exSrc.toList = exToks := by decide +kernel

def exOpts : Opts := { optimize := false, lineMarkers := true, inputPath := "f.pory" }

/-- Literal and line of the stored tokens, and the markers of the output. -/
theorem ex_key :
    (match parseTokens {} exToks with
     | .ok p =>
       some ((C16nd.progToks p).map (fun (t : Tok) => (t.lit, t.line)),
             match emitProgram exOpts p with
             | .ok ls => C16nd.markers ls
             | .error _ => [])
     | .error _ => none) =
    some ([("script", 1), ("F", 2), ("msgbox", 3), ("V", 5), ("1", 6), ("lock", 6), ("release", 7),
           ("movement", 10), ("walk_up", 10), ("walk_up", 10), ("raw", 11), ("a\nb", 11), ("hi$", 3)],
          [(3, "f.pory"), (2, "f.pory"), (5, "f.pory"), (6, "f.pory"), (6, "f.pory"), (7, "f.pory"),
           (10, "f.pory"), (10, "f.pory"), (10, "f.pory"), (11, "f.pory"), (12, "f.pory"), (3, "f.pory")]) := by
  decide +kernel

theorem ex_parses : ∃ p, parseTokens {} exToks = .ok p := by
  have key := ex_key
  cases h : parseTokens {} exToks with
  | error e => rw [h] at key; cases key
  | ok p => exact ⟨p, rfl⟩

/-- Theorem 1 on the example: the premise holds and the 13 stored tokens stand at input positions. -/
example : ∃ p, parseTokens {} exToks = .ok p ∧ (C16nd.progToks p).length = 13 ∧
    ∀ t ∈ C16nd.progToks p, FromInput exToks t := by
  have key := ex_key
  cases h : parseTokens {} exToks with
  | error e => rw [h] at key; cases key
  | ok p =>
    rw [h] at key
    simp only [Option.some.injEq, Prod.mk.injEq] at key
    refine ⟨p, rfl, ?_, parsed_tokens_from_input {} exToks p h⟩
    have := congrArg List.length key.1
    simpa using this

/-- Theorem 3 on the example: source → tokens → AST → output; all 12 markers are in `1 … 13`. -/
example : ∃ p ls, parseTokens {} (Lexer.lexAll exSrc.toList) = .ok p ∧ emitProgram exOpts p = .ok ls ∧
    (C16nd.markers ls).length = 12 ∧
    ∀ n path, Line.marker n path ∈ ls → path = "f.pory" ∧ 1 ≤ n ∧ n ≤ 13 := by
  have key := ex_key
  rw [exToks_eq]
  cases h : parseTokens {} exToks with
  | error e => rw [h] at key; cases key
  | ok p =>
    rw [h] at key
    dsimp only at key
    cases he : emitProgram exOpts p with
    | error e => rw [he] at key; simp at key
    | ok ls =>
      rw [he] at key
      simp only [Option.some.injEq, Prod.mk.injEq] at key
      refine ⟨p, ls, rfl, he, by rw [key.2]; rfl, ?_⟩
      have h' : parseTokens {} (Lexer.lexAll exSrc.toList) = .ok p := by rw [exToks_eq]; exact h
      have hl : LexPos.lineOf exSrc.toList = 13 := by decide +kernel
      have := marker_lines_in_input exSrc.toList {} exOpts p ls h' he
      rw [hl] at this
      exact this

/-! ### 4. the token of a statement is the token the parser started at -/

/-- **Stretch.** See the file header. -/
theorem statement_token_is_first (env : Env) (sn : String) (fuel : Nat) (s s' : PState) (sts : List Stmt)
    (imp : ImpData) (h : (parseStatement env sn fuel).run s = .ok ((sts, imp), s'))
    (hps : (s.toks.headD s.eof).type ≠ .PORYSWITCH) :
    ∃ pre st, sts = pre ++ [st] ∧ stmtTok st = s.toks.headD s.eof ∧
      (pre = [] ∨ ((s.toks.headD s.eof).type = .SWITCH ∧
        ∃ c, pre = [.cmd c] ∧ c.tok = s.toks.tail.tail.headD s.eof)) :=
  parseStatement_first_tok_run h hps

/-- The state in which the parser starts the `if` statement of the example (4th token). -/
def exStmtState : PState := { toks := exToks.drop 3, eof := mk .EOF "" 13 0 1 13 0 1, breakStack := [] }

/-- Non-vacuity: the `if` statement of the example parses from that state, to one statement. -/
theorem ex_stmt_parses :
    (match (parseStatement {} "S" 60).run exStmtState with
     | .ok ((sts, _), _) => sts.length == 1
     | .error _ => false) = true := by decide +kernel

example : ∃ sts imp s', (parseStatement {} "S" 60).run exStmtState = .ok ((sts, imp), s') ∧
    ∃ st, sts = [st] ∧ stmtTok st = mk .IF "if" 2 2 2 2 4 4 := by
  have key := ex_stmt_parses
  cases h : (parseStatement {} "S" 60).run exStmtState with
  | error e => rw [h] at key; cases key
  | ok r =>
    obtain ⟨⟨sts, imp⟩, s'⟩ := r
    refine ⟨sts, imp, s', rfl, ?_⟩
    obtain ⟨pre, st, h1, h2, h3⟩ := statement_token_is_first {} "S" 60 exStmtState s' sts imp h (by decide)
    rcases h3 with rfl | ⟨hsw, _⟩
    · exact ⟨st, h1, h2⟩
    · exact absurd hsw (by decide)

end Pory.C16c
