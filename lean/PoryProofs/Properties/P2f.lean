import PoryProofs.ProgramIndepE
import PoryProofs.ProgramInsertE
import PoryProofs.Properties.P2e
/-
P2f — the C17 independence theorem lifted to the file grammar of P2e (`P2e.STopE`: every statement kind of
P2 … P2d, plus `script` statements and inline `mapscripts` scripts whose bodies are written in P1c's grammar —
AutoVar leaves anywhere, `value( … )`, inline `format()`, `moves( … )` arguments with nested `poryswitch`).

Helper modules (all new; nothing existing was edited):
  PoryProofs/ProgramShiftE.lean  `elabL_shiftE`  : P1c's body elaboration commutes with a shift of the two id counters
                                 (interface lemmas `elabC_shift` for `CmdM.elabC` — the hoisted movement of a `movesS`
                                 element carries the command id and is shifted with it —, `res_shift`, `elabOr_shift`);
  PoryProofs/ProgramIdsE.lean    `elabL_idsE`    : all ids of an elaborated P1c body lie between the counters
                                 (`elabC_ids`, `res_ids`, `elabOr_ids`);
  PoryProofs/ProgramConstE.lean  `elabL_congrE`  : the elaboration reads the constant table only at its own tokens
                                 (`elabC_congr`, `res_congr`, `elabOr_congr`);
  PoryProofs/ProgramFrameE.lean  `body_frameE`, `rows_frameE`, `entries_frameE`, `StepUsesE`, `UsesE`,
                                 `stepTopE_frame`, `elabTopsE_frame` : the frame lemma of the file elaboration;
  PoryProofs/ProgramIndepE.lean  `IndepE` (decidable), `indep_parseE`, `indep_mainE`;
  PoryProofs/ProgramInsertE.lean `UnrelatedE` (decidable), `remove_statementE` (ProgramInsertMS re-run over `STopE`).
The three inductions are ProgramShift / ProgramIds / ProgramConst re-run over `P1c.SStmt` (six mutual functions
each, plus four-function inductions over the condition grammar `BoolGen.GOr` for ANY leaf type); the frame /
independence layer is ProgramFrameMS / ProgramIndepMS re-run over `STopE`; the emitter side of P2b
(`topBlocksM_frame`, `indep_blocksM`, `labelNamesM`) speaks about elaborated programs only and is reused as is.

THE SIDE CONDITION `IndepE env eofT ts1 ts2` (decidable; vacuous when a part does not elaborate) is P2b's `IndepM`
read on `STopE`:
* `UsesE env (domOf s1) ts2 (initState eofT)` — along the run of `ts2` alone: no token of `ts2` is spelled like a
  constant defined in `ts1`; every text / movement the scripts and inline scripts of `ts2` hoist is one `ts1` has
  not hoisted, and they hoist under a name `ts1` did not hoist under. For a `moves( … poryswitch … )` argument the
  hoisted movement is keyed by its SELECTED steps (`ImpUses` on the implicit data of `P1c.elabE`), exactly as
  inline `moves()` of P1 bodies: so the condition does mention the selected steps. Statements of P2d's grammar
  (`base t`) are read on their hand-selected plain statement `P2d.selTop env t` (as in P2d.IndepP);
* text names of the two parts disjoint; movement names (statements and hoisted) disjoint;
* no label statement of a script / inline script of one part is a text name of the other (`P2b.labelNamesM`).

PROVED (nothing partial)
* `tops_independent_e : P2e.tops_independent_e_full IndepE` — exactly the statement P2e left open, with
  `Indep := IndepE`: for `env.envErrors = true` and `IndepE env eofT ts1 ts2`,
  `compileFileE (ts1 ++ ts2) = .ok S ↔ ∃ S1 S2, compileFileE ts1 = .ok S1 ∧ compileFileE ts2 = .ok S2 ∧ S = S1.append S2`;
* `tops_independent_e_tokens` : the same through `compileToks` on the printed tokens;
* `parse_error_right_e` : a parse error of the second part alone is the parse error of the file;
* `statement_independent_e` : for `UnrelatedE env eofT pre t post` (decidable; P2b's `UnrelatedM` read on `STopE`: `t` is
  not a `const`; the scripts of `post` hoist only texts / movements — for `moves( … poryswitch … )`: SELECTED steps —
  whose dedupe entry `t` has not created, under names `t` has not hoisted under; no label statement of `pre` / `post` is
  a text name `t` contributes): if `pre ++ t :: post` compiles to `S'` then `S' = P ++ (T ++ Q)` section-wise, `T` the
  blocks of `t` (at most one top-level block), and `pre ++ post` compiles to `P ++ Q`;
  `insert_statement_e` : read as insertion when both files compile.
* `shared_moves_not_independent` (by `decide`): why the hoisted movements must be in the side condition — two
  scripts whose `moves( … poryswitch … )` select the same steps share ONE hoisted movement; `IndepE` fails and the
  output of the file is NOT the section-wise concatenation.

NOT DONE (as in P2 … P2d): the theorems compare successful compilations and the parse errors of the elaboration
(`parse_error_left_e` of P2e, `parse_error_right_e`); `statement_independent_e` is proved in the "remove" direction.
`env.envErrors = true` is used in one place only: a `base` statement without hand-selected form fails with one
located error whatever the state (`selTop_none_errU`).
-/
namespace Pory.P2f
open Pory Pory.Parser Pory.C02P Pory.TopParse Pory.P2 Pory.P2b Pory.P2d Pory.P2e Pory.Emit
open Pory.StmtG (Ctx ctxOf)

/-- **C17, independence, files with P1c bodies** — the statement `P2e.tops_independent_e_full` with the side
condition `IndepE`. -/
theorem tops_independent_e : P2e.tops_independent_e_full IndepE :=
  fun env henv o eofT ts1 ts2 h S => indep_mainE env henv o eofT ts1 ts2 h S

/-- … spelled out. -/
theorem tops_independent_e' (env : Env) (henv : env.envErrors = true) (o : Opts) (eofT : Tok)
    (ts1 ts2 : List STopE) (h : IndepE env eofT ts1 ts2) (S : Sections) :
    compileFileE env o eofT (ts1 ++ ts2) = .ok S ↔
      ∃ S1 S2, compileFileE env o eofT ts1 = .ok S1 ∧ compileFileE env o eofT ts2 = .ok S2 ∧
        S = S1.append S2 :=
  tops_independent_e env henv o eofT ts1 ts2 h S

/-- … through the model's pipeline on tokens. -/
theorem tops_independent_e_tokens (env : Env) (henv : env.envErrors = true) (o : Opts) (eofT : Tok)
    (heof : eofT.type = .EOF) (ts1 ts2 : List STopE) (hwf1 : TWFE ts1) (hwf2 : TWFE ts2)
    (hwf : TWFE (ts1 ++ ts2)) (h : IndepE env eofT ts1 ts2) (L : List Line) :
    compileToks env o (printTopsE (ts1 ++ ts2) ++ [eofT]) = .ok L ↔
      ∃ S1 S2, compileToks env o (printTopsE ts1 ++ [eofT]) = .ok S1.lines ∧
        compileToks env o (printTopsE ts2 ++ [eofT]) = .ok S2.lines ∧
        compileFileE env o eofT ts1 = .ok S1 ∧ compileFileE env o eofT ts2 = .ok S2 ∧
        L = (S1.append S2).lines := by
  rw [compile_print_e env o eofT heof _ hwf, compile_print_e env o eofT heof _ hwf1,
    compile_print_e env o eofT heof _ hwf2]
  constructor
  · intro hL
    cases hc : compileFileE env o eofT (ts1 ++ ts2) with
    | error e => rw [hc] at hL; cases hL
    | ok S =>
      rw [hc] at hL
      simp only [Except.ok.injEq] at hL
      obtain ⟨S1, S2, h1, h2, rfl⟩ := (tops_independent_e env henv o eofT ts1 ts2 h S).1 hc
      exact ⟨S1, S2, by rw [h1], by rw [h2], h1, h2, hL.symm⟩
  · rintro ⟨S1, S2, _, _, h1, h2, rfl⟩
    rw [(tops_independent_e env henv o eofT ts1 ts2 h _).2 ⟨S1, S2, h1, h2, rfl⟩]

/-- A parse error of the second part (compiled alone) is the parse error of the file. -/
theorem parse_error_right_e (env : Env) (henv : env.envErrors = true) (eofT : Tok) (ts1 ts2 : List STopE)
    (h : IndepE env eofT ts1 ts2) (tops1 : List Top) (s1 : PState)
    (h1 : elabTopsE env ts1 (initState eofT) = .ok (tops1, s1)) (e : PFail)
    (h2 : elabTopsE env ts2 (initState eofT) = .error e) :
    elabTopsE env (ts1 ++ ts2) (initState eofT) = .error e := by
  unfold IndepE at h
  rw [h1] at h
  have := indep_parseE env henv eofT ts1 ts2 tops1 s1 h1 h.1
  rw [h2] at this
  exact this

/-- **C17, one statement, files with P1c bodies.** Removing an unrelated statement removes exactly its own blocks. -/
theorem statement_independent_e (env : Env) (henv : env.envErrors = true) (o : Opts) (eofT : Tok)
    (pre : List STopE) (t : STopE) (post : List STopE) (h : UnrelatedE env eofT pre t post) (S' : Sections)
    (hc : compileFileE env o eofT (pre ++ t :: post) = .ok S') :
    ∃ P T Q : Sections, S' = P.append (T.append Q) ∧ T.tops.length ≤ 1 ∧
      compileFileE env o eofT (pre ++ post) = .ok (P.append Q) :=
  remove_statementE env henv o eofT pre t post h S' hc

/-- … read as insertion: when both files compile, the bigger output is the smaller one with the blocks of `t`
inserted (in each section, at the position of `t`). -/
theorem insert_statement_e (env : Env) (henv : env.envErrors = true) (o : Opts) (eofT : Tok) (pre : List STopE)
    (t : STopE) (post : List STopE) (h : UnrelatedE env eofT pre t post) (S S' : Sections)
    (hc : compileFileE env o eofT (pre ++ post) = .ok S)
    (hc' : compileFileE env o eofT (pre ++ t :: post) = .ok S') :
    ∃ P T Q : Sections, S = P.append Q ∧ S' = P.append (T.append Q) ∧ T.tops.length ≤ 1 := by
  obtain ⟨P, T, Q, h1, h2, h3⟩ := statement_independent_e env henv o eofT pre t post h S' hc'
  rw [hc] at h3
  simp only [Except.ok.injEq] at h3
  exact ⟨P, T, Q, h3, h1, h2⟩

/-! ## examples, non-vacuity -/
section Example
open Pory.C14b (Items ItemP)

private def lp : Tok := tk .LPAREN "("
private def rp : Tok := tk .RPAREN ")"
private def lb : Tok := tk .LBRACE "{"
private def rb : Tok := tk .RBRACE "}"
private def id (s : String) : Tok := tk .IDENT s
def eofT : Tok := tk .EOF ""

/-- `walk_up poryswitch(V) { A: walk_left _ { face_down } }` -/
def exItems : Items :=
  .cons (.plain (.step (id "walk_up")))
    (.cons (.sw (tk .PORYSWITCH "poryswitch") lp (id "V") rp lb
        (.colon (id "A") (tk .COLON ":") (.plain (.step (id "walk_left")))
          (.brace (id "_") lb (.cons (.plain (.step (id "face_down"))) .nil) rb .nil)) rb)
      .nil)

/-- `applymovement(1, moves(walk_up poryswitch(V) { A: walk_left _ { face_down } }))` -/
def exCmd : P1c.CmdM :=
  .args (id "applymovement") lp [.base (.base (.tok (tk .INT "1")))]
    [(tk .COMMA ",", [.movesS (tk .MOVES "moves") lp exItems rp])] rp

/-- `script S { applymovement(1, moves( … )) if (flag(1)) { msgbox("hi") } }` (`P2e.exIf`: the `if` with the inline
text) -/
def exS : STopE := .scriptE (tk .SCRIPT "script") .absent (id "S") lb [.cmd exCmd, P2e.exIf] rb
/-- `movement Mv { face_up * 2 }` -/
def exM : STopE := P2e.exMove

#guard (Lexer.lexAll ("script S { applymovement(1, moves(walk_up poryswitch(V) { A: walk_left _ { face_down } })) " ++
    "if (flag(1)) { msgbox(\"hi\") } }\nmovement Mv { face_up * 2 }").toList).map (fun t => (t.type, t.lit)) ==
  (printTopsE [exS, exM] ++ [eofT]).map (fun t => (t.type, t.lit))

theorem ex_wf : TWFE [exS, exM] := by decide

def exO : Opts := { optimize := false }

/-- the two parts are independent (`IndepE` is decidable), under both `-s` values -/
theorem ex_indep_A : IndepE P1c.envA eofT [exS] [exM] := by decide
theorem ex_indep_B : IndepE P1c.envB eofT [exS] [exM] := by decide
/-- … and in the other order (the script second: its command / scope ids do not move here, but the hoisting tables
are compared) -/
theorem ex_indep_A' : IndepE P1c.envA eofT [exM] [exS] := by decide

/-- the sections of the script alone under `-s V=A`: one block, the hoisted movement with the SELECTED steps, the
hoisted text -/
theorem exS_compiled_A :
    (compileFileE P1c.envA exO eofT [exS]).toOption.map (fun S => (S.tops.length, S.moves, S.inl, S.stm)) =
      some (1, [[.labelDef "S_Movement_0" false, .step "walk_up", .step "walk_left", .step "step_end"]],
        [[.labelDef "S_Text_0" false, .textLine "string" "hi$"]], []) := by decide

theorem exM_compiled_A :
    (compileFileE P1c.envA exO eofT [exM]).toOption.map (fun S => (S.tops, S.moves, S.inl, S.stm)) =
      some ([[.labelDef "Mv" false, .step "face_up", .step "face_up", .step "step_end"]], [], [], []) := by decide

/-- **Non-vacuity, by evaluation** (`decide` on the reference pipeline): the file compiles, both parts compile, and
the output is the section-wise concatenation. -/
theorem ex_concat_decide :
    (compileFileE P1c.envA exO eofT ([exS] ++ [exM])).toOption =
      (do let S1 ← (compileFileE P1c.envA exO eofT [exS]).toOption
          let S2 ← (compileFileE P1c.envA exO eofT [exM]).toOption
          pure (S1.append S2)) ∧
    (compileFileE P1c.envA exO eofT ([exS] ++ [exM])).toOption.isSome = true := by decide

/-- **Non-vacuity, by the theorem**: the same from `tops_independent_e` (any emitter options). -/
theorem ex_concat_theorem (o : Opts) (S : Sections) :
    compileFileE P1c.envA o eofT ([exS] ++ [exM]) = .ok S ↔
      ∃ S1 S2, compileFileE P1c.envA o eofT [exS] = .ok S1 ∧ compileFileE P1c.envA o eofT [exM] = .ok S2 ∧
        S = S1.append S2 :=
  tops_independent_e P1c.envA rfl o eofT [exS] [exM] ex_indep_A S

/-- … through the model's pipeline on the printed tokens, under `-s V=B` (the `_` case is selected). -/
example (o : Opts) (L : List Line) :
    compileToks P1c.envB o (printTopsE ([exS] ++ [exM]) ++ [eofT]) = .ok L ↔
      ∃ S1 S2, compileToks P1c.envB o (printTopsE [exS] ++ [eofT]) = .ok S1.lines ∧
        compileToks P1c.envB o (printTopsE [exM] ++ [eofT]) = .ok S2.lines ∧
        compileFileE P1c.envB o eofT [exS] = .ok S1 ∧ compileFileE P1c.envB o eofT [exM] = .ok S2 ∧
        L = (S1.append S2).lines :=
  tops_independent_e_tokens P1c.envB rfl o eofT rfl [exS] [exM] (by decide) (by decide) (by decide) ex_indep_B L

/-- both directions are inhabited: the file does compile -/
example : ∃ S, compileFileE P1c.envA exO eofT ([exS] ++ [exM]) = .ok S := by
  obtain ⟨S1, h1⟩ : ∃ S1, compileFileE P1c.envA exO eofT [exS] = .ok S1 :=
    ⟨_, P2.toOption_some (x := compileFileE P1c.envA exO eofT [exS]) (a := _) rfl⟩
  obtain ⟨S2, h2⟩ : ∃ S2, compileFileE P1c.envA exO eofT [exM] = .ok S2 :=
    ⟨_, P2.toOption_some (x := compileFileE P1c.envA exO eofT [exM]) (a := _) rfl⟩
  exact ⟨_, (ex_concat_theorem exO _).2 ⟨S1, S2, h1, h2, rfl⟩⟩

/-- `parse_error_right_e` instantiated: no `-s` option — the script alone fails at the `poryswitch` inside
`moves( … )`, and so does the file that has the movement statement in front. -/
example :
    elabTopsE {} ([exM] ++ [exS]) (initState eofT) =
      .error (newParseError (tk .PORYSWITCH "poryswitch")
        "poryswitch used, but no compile switches were specified with the '-s' option") :=
  parse_error_right_e {} rfl eofT [exM] [exS] (by decide) _ _ rfl _ rfl

/-! ### why the hoisted movements of `moves( … poryswitch … )` are in the side condition -/

/-- `script T { applymovement(2, moves(walk_up poryswitch(V) { A: walk_left _: jump })) }` — under `-s V=A` it selects
the same steps as `exS`. -/
def exT : STopE :=
  .scriptE (tk .SCRIPT "script") .absent (id "T") lb
    [.cmd (.args (id "applymovement") lp [.base (.base (.tok (tk .INT "2")))]
      [(tk .COMMA ",", [.movesS (tk .MOVES "moves") lp
        (.cons (.plain (.step (id "walk_up")))
          (.cons (.sw (tk .PORYSWITCH "poryswitch") lp (id "V") rp lb
            (.colon (id "A") (tk .COLON ":") (.plain (.step (id "walk_left")))
              (.colon (id "_") (tk .COLON ":") (.plain (.step (id "jump"))) .nil)) rb) .nil)) rp])] rp)] rb

/-- Under `-s V=A` the two scripts select the same steps: ONE hoisted movement. `IndepE` fails (its `UsesE` clause:
`T` hoists a movement whose key `exS` has hoisted), and the conclusion of the theorem is FALSE for this file: both
parts compile, the file compiles, but not to the section-wise concatenation. Under `-s V=B` the selected steps differ
and the parts are independent. -/
theorem shared_moves_not_independent :
    ¬ IndepE P1c.envA eofT [exS] [exT] ∧
    (∃ S S1 S2, compileFileE P1c.envA exO eofT ([exS] ++ [exT]) = .ok S ∧
      compileFileE P1c.envA exO eofT [exS] = .ok S1 ∧ compileFileE P1c.envA exO eofT [exT] = .ok S2 ∧
      S.moves.length = 1 ∧ (S1.append S2).moves.length = 2) ∧
    IndepE P1c.envB eofT [exS] [exT] := by
  refine ⟨by decide, ?_, by decide⟩
  refine ⟨_, _, _, P2.toOption_some (x := compileFileE P1c.envA exO eofT ([exS] ++ [exT])) (a := _) rfl,
    P2.toOption_some (x := compileFileE P1c.envA exO eofT [exS]) (a := _) rfl,
    P2.toOption_some (x := compileFileE P1c.envA exO eofT [exT]) (a := _) rfl, ?_, ?_⟩ <;> decide

/-- a `mapscriptsE` statement (P2e's example: two inline scripts with `moves( … poryswitch … )`, an inline text) as second
part: independent of the movement statement; NOT independent of the script `S`, which hoists the same text `"hi"`. -/
example : IndepE P1c.envB eofT [exM] [P2e.exMap] ∧ ¬ IndepE P1c.envB eofT [exS] [P2e.exMap] := by
  constructor <;> decide

example (o : Opts) (S : Sections) :
    compileFileE P1c.envB o eofT ([exM] ++ [P2e.exMap]) = .ok S ↔
      ∃ S1 S2, compileFileE P1c.envB o eofT [exM] = .ok S1 ∧ compileFileE P1c.envB o eofT [P2e.exMap] = .ok S2 ∧
        S = S1.append S2 :=
  tops_independent_e P1c.envB rfl o eofT [exM] [P2e.exMap] (by decide) S

/-! ### one statement removed -/

/-- under `-s V=B` (`S` selects `face_down`, `T` selects `jump`): the script `S` — with its hoisted movement and its
hoisted text — is unrelated to the movement statement before it and the script `T` after it … -/
theorem ex_unrelated_B : UnrelatedE P1c.envB eofT [exM] exS [exT] := by decide
/-- … but not under `-s V=A`, where `T` re-uses the movement `S` hoisted. -/
theorem ex_related_A : ¬ UnrelatedE P1c.envA eofT [exM] exS [exT] := by decide

/-- `statement_independent_e` instantiated: the file `Mv, S, T` compiles, so `Mv, T` compiles and its sections are those
of the file without the blocks of `S` — although `T`'s command id (2 in the file, 0 without `S`) and its patch change. -/
example : ∃ P T Q : Sections, T.tops.length ≤ 1 ∧
    compileFileE P1c.envB exO eofT ([exM] ++ exS :: [exT]) = .ok (P.append (T.append Q)) ∧
    compileFileE P1c.envB exO eofT ([exM] ++ [exT]) = .ok (P.append Q) := by
  have hc := P2.toOption_some (x := compileFileE P1c.envB exO eofT ([exM] ++ exS :: [exT])) (a := _) rfl
  obtain ⟨P, T, Q, h1, h2, h3⟩ := statement_independent_e P1c.envB rfl exO eofT [exM] exS [exT] ex_unrelated_B _ hc
  exact ⟨P, T, Q, h2, by rw [hc, h1], h3⟩

/-- the same by evaluation: the sections of the two files (hoisted movements of `S` and `T`; without `S` only `T`'s) -/
example :
    ((compileFileE P1c.envB exO eofT [exM, exS, exT]).toOption.map (fun S => (S.tops.length, S.moves.length, S.inl.length)),
     (compileFileE P1c.envB exO eofT [exM, exT]).toOption.map (fun S => (S.tops.length, S.moves.length, S.inl.length))) =
      (some (3, 2, 1), some (2, 1, 0)) := by decide

end Example

#print axioms tops_independent_e
#print axioms tops_independent_e_tokens
#print axioms parse_error_right_e
#print axioms statement_independent_e
#print axioms insert_statement_e
#print axioms ex_concat_decide
#print axioms ex_concat_theorem
#print axioms shared_moves_not_independent

end Pory.P2f
