import PoryProofs.TextValueParse
/-
C09c — text values, parser side: what `parseTextValue`, `parseTextStatement` and the inline string
branches of `cmdArgsLoop` hand to the emitter, and (composition with C09) what is emitted for it.

C09 (emitter: terminator, line splitting, `emitText`), C09b (lexer: one STRING token per literal),
C12b (poryswitch text selection) and C07b (`format()` parameter resolution) are proved elsewhere;
this file closes the gap between them.  Helpers: `PoryProofs/TextValueParse.lean`
(`TVal` = `STRING | STRINGTYPE STRING | format ( [STRINGTYPE] STRING <params> )`, `TVal.raw` = the
text before the terminator, `IElem` = command-argument elements including inline `format(…)`).

All statements hold for every environment, every surrounding parser state `s`, every fuel ≥ the
stated bound and every assignment of positions / literals to the tokens (only token TYPES are
constrained).

1. `parseTextValue`
   * `parse_text_value_plain`, `parse_text_value_typed`, `parse_text_value_format`
     (+ `parse_text_value_format_ok`, `parse_text_value_format_correct`), unified: `parse_text_value`;
     the result is `(formatTextTerminator value type, type)`, the window ends ON the last token of
     the value (the string literal / the `)` of `format(`).
   * errors: `parse_text_value_prefix_without_string` (+ `_eof`), `parse_text_value_not_a_string`,
     `parse_text_value_format_unknown_font`.
2. `parse_text_statement` (+ `parse_text_statement_err`, `parse_text_statement_missing_rbrace`).
3. `text_emitted_as_written` (one record) and `text_statement_end_to_end` (source tokens → lines).
4. `inline_literals_terminated` (corollary of `C10c.parse_command_imp`), its extension to inline
   `format(…)` `inline_literals_terminated_format`, and `inline_text_record` /
   `inline_text_emitted` (the `Text` record `addImplicitTexts` makes of an `ImpText`, and its lines).

Nothing is partial.
-/
namespace Pory.C09c
open Pory Pory.Parser Pory.Emit Pory.C02P Pory.TopParse Pory.C07b Pory.C10b Pory.C10c
open Pory.TextValueParse

/-! ### 1. `parseTextValue` -/

/-- cur = a STRING token: the literal with the terminator of plain text, no string type; nothing is
consumed (the window stays on the literal, the last token of the value). -/
theorem parse_text_value_plain (env : Env) (fuel : Nat) (s : PState) (str : Tok) (tl : List Tok)
    (h : str.type = .STRING) :
    (parseTextValue env fuel).run (st s (str :: tl)) =
      .ok ((formatTextTerminator str.lit "", ""), st s (str :: tl)) :=
  ptv_plain env fuel s str tl h

/-- cur = a STRINGTYPE token followed by a STRING token: the literal with the terminator of the
prefix's type, the prefix; the window ends on the literal. -/
theorem parse_text_value_typed (env : Env) (fuel : Nat) (s : PState) (ty str : Tok) (tl : List Tok)
    (hty : ty.type = .STRINGTYPE) (h : str.type = .STRING) :
    (parseTextValue env fuel).run (st s (ty :: str :: tl)) =
      .ok ((formatTextTerminator str.lit ty.lit, ty.lit), st s (str :: tl)) :=
  ptv_typed env fuel s ty str tl hty h

/-- cur = `format`, followed by `( [STRINGTYPE] STRING <params> )`: `Fmt.formatText` is applied to
the literal with the parameters resolved as in C07b; the value is the formatted text with the
terminator of the string type written INSIDE `format(`; the window ends on the closing parenthesis.
If `formatText` fails (unknown font): error at the font-id token in force (else the text token)
when environment errors are on, else the empty text — which still gets its terminator. -/
theorem parse_text_value_format (env : Env) (s : PState) (fm lp : Tok) (sty : Option Tok) (text : Tok)
    (P : Params) (rp : Tok) (tl : List Tok) (hfm : fm.type = .FORMAT) (hlp : lp.type = .LPAREN)
    (hsty : ∀ t, sty = some t → t.type = .STRINGTYPE) (htext : text.type = .STRING) (hP : P.WF)
    (hrep : P.NoRep) (hrp : rp.type = .RPAREN) (fuel : Nat) (hf : P.named.length + 1 ≤ fuel) :
    (parseTextValue env fuel).run (st s (fm :: lp :: (sty.toList ++ text :: (P.toks ++ rp :: tl)))) =
      match Fmt.formatText env.fonts text.lit.toList (resolve env P.written).maxLineLength
          (resolve env P.written).cursorOverlapWidth (resolve env P.written).fontID
          (resolve env P.written).numLines with
      | .ok out =>
        .ok ((formatTextTerminator (String.ofList out) (styLit sty), styLit sty), st s (rp :: tl))
      | .error msg =>
        if env.envErrors then .error (newParseError (P.written.font?.getD text) msg)
        else .ok ((formatTextTerminator "" (styLit sty), styLit sty), st s (rp :: tl)) := by
  have h := tval_run env fuel s (.format fm lp sty text P rp) tl
    ⟨hfm, hlp, hsty, htext, hP, hrep, hrp⟩ hf
  rw [TVal.format_toks_append] at h
  rw [h]
  simp only [TVal.raw, TVal.strType, TVal.last]
  cases Fmt.formatText env.fonts text.lit.toList (resolve env P.written).maxLineLength
      (resolve env P.written).cursorOverlapWidth (resolve env P.written).fontID
      (resolve env P.written).numLines with
  | ok out => rfl
  | error msg => cases env.envErrors <;> rfl

/-- The successful case spelled out. -/
theorem parse_text_value_format_ok (env : Env) (s : PState) (fm lp : Tok) (sty : Option Tok) (text : Tok)
    (P : Params) (rp : Tok) (tl : List Tok) (hfm : fm.type = .FORMAT) (hlp : lp.type = .LPAREN)
    (hsty : ∀ t, sty = some t → t.type = .STRINGTYPE) (htext : text.type = .STRING) (hP : P.WF)
    (hrep : P.NoRep) (hrp : rp.type = .RPAREN) (fuel : Nat) (hf : P.named.length + 1 ≤ fuel)
    (out : List Char)
    (hout : Fmt.formatText env.fonts text.lit.toList (resolve env P.written).maxLineLength
      (resolve env P.written).cursorOverlapWidth (resolve env P.written).fontID
      (resolve env P.written).numLines = .ok out) :
    (parseTextValue env fuel).run (st s (fm :: lp :: (sty.toList ++ text :: (P.toks ++ rp :: tl)))) =
      .ok ((formatTextTerminator (String.ofList out) (styLit sty), styLit sty), st s (rp :: tl)) := by
  rw [parse_text_value_format env s fm lp sty text P rp tl hfm hlp hsty htext hP hrep hrp fuel hf, hout]

/-- Composition with C07 (`format_correct`): for a font `formatText` knows, the value is the
rendering — plus terminator — of an output that keeps the words of the literal, obeys the break
discipline, fits the resolved box and is greedy. -/
theorem parse_text_value_format_correct (env : Env) (s : PState) (fm lp : Tok) (sty : Option Tok)
    (text : Tok) (P : Params) (rp : Tok) (tl : List Tok) (hfm : fm.type = .FORMAT)
    (hlp : lp.type = .LPAREN) (hsty : ∀ t, sty = some t → t.type = .STRINGTYPE)
    (htext : text.type = .STRING) (hP : P.WF) (hrep : P.NoRep) (hrp : rp.type = .RPAREN) (fuel : Nat)
    (hf : P.named.length + 1 ≤ fuel)
    (hv : (!env.fonts.isFontIDValid (resolve env P.written).fontID &&
            (resolve env P.written).fontID.length > 0 &&
            (resolve env P.written).fontID != Facts.testFontID) = false) :
    ∃ its : List Fmt.OutItem,
      (parseTextValue env fuel).run (st s (fm :: lp :: (sty.toList ++ text :: (P.toks ++ rp :: tl)))) =
        .ok ((formatTextTerminator (String.ofList (Fmt.render false its)) (styLit sty), styLit sty),
             st s (rp :: tl)) ∧
      Fmt.AllMatch (its.filter (fun i => !i.isWrap)) (Fmt.allWords (Fmt.normalize text.lit.toList)) ∧
      Fmt.Disciplined (resolve env P.written).numLines 0 its ∧
      Fmt.Fits (C07.wd env.fonts (resolve env P.written).fontID) (resolve env P.written).maxLineLength
        (resolve env P.written).cursorOverlapWidth (resolve env P.written).numLines
        (Fmt.getRunePixelWidth env.fonts ' ' (resolve env P.written).fontID) 0 [] its ∧
      Fmt.Greedy (C07.wd env.fonts (resolve env P.written).fontID)
        (resolve env P.written).maxLineLength (resolve env P.written).cursorOverlapWidth
        (resolve env P.written).numLines
        (Fmt.getRunePixelWidth env.fonts ' ' (resolve env P.written).fontID) 0 [] its := by
  obtain ⟨its, h1, h2, h3, h4, _, h6⟩ :=
    C07.format_correct env.fonts (resolve env P.written).fontID
      (resolve env P.written).maxLineLength (resolve env P.written).cursorOverlapWidth
      (resolve env P.written).numLines text.lit.toList hv
  exact ⟨its, parse_text_value_format_ok env s fm lp sty text P rp tl hfm hlp hsty htext hP hrep hrp
    fuel hf _ h1, h2, h3, h4, h6⟩

/-- All three shapes at once (`TVal`): `(formatTextTerminator value type, type)` where `value` is
`TVal.raw` (the literal, resp. the formatted text) and `type` is `TVal.strType` (`""`, resp. the
prefix); the window ends on `TVal.last`, the last token of the value. -/
theorem parse_text_value (env : Env) (fuel : Nat) (s : PState) (v : TVal) (tl : List Tok) (hv : v.WF)
    (hf : v.need ≤ fuel) :
    (parseTextValue env fuel).run (st s (v.toks ++ tl)) =
      match v.raw env with
      | .ok raw => .ok ((formatTextTerminator raw v.strType, v.strType), st s (v.last :: tl))
      | .error e => .error e :=
  tval_run env fuel s v tl hv hf

/-- The last token of the value really is the last printed token. -/
theorem tval_toks_last (v : TVal) : ∃ pre, v.toks = pre ++ [v.last] := by
  cases v with
  | plain str => exact ⟨[], rfl⟩
  | typed ty str => exact ⟨[ty], rfl⟩
  | format fm lp sty text P rp => exact ⟨fm :: lp :: (sty.toList ++ text :: P.toks), by simp [TVal.toks, TVal.last]⟩

/-- A prefix not followed by a string literal: error located on the offending token. -/
theorem parse_text_value_prefix_without_string (env : Env) (fuel : Nat) (s : PState) (ty x : Tok)
    (tl : List Tok) (hty : ty.type = .STRINGTYPE) (h : x.type ≠ .STRING) :
    (parseTextValue env fuel).run (st s (ty :: x :: tl)) =
      .error (newParseError x
        s!"expected a string literal after string type '{ty.lit}'. Got '{x.lit}' instead") :=
  ptv_typed_err env fuel s ty x tl hty h

/-- … at the very end of the token list the offending token is the EOF token. -/
theorem parse_text_value_prefix_without_string_eof (env : Env) (fuel : Nat) (s : PState) (ty : Tok)
    (hty : ty.type = .STRINGTYPE) (h : s.eof.type ≠ .STRING) :
    (parseTextValue env fuel).run (st s [ty]) =
      .error (newParseError s.eof
        s!"expected a string literal after string type '{ty.lit}'. Got '{s.eof.lit}' instead") :=
  ptv_typed_err_eof env fuel s ty hty h

/-- Something else than a string, a prefix or `format`: error located on that token. -/
theorem parse_text_value_not_a_string (env : Env) (fuel : Nat) (s : PState) (x : Tok) (tl : List Tok)
    (h1 : x.type ≠ .FORMAT) (h2 : x.type ≠ .STRING) (h3 : x.type ≠ .STRINGTYPE) :
    (parseTextValue env fuel).run (st s (x :: tl)) =
      .error (newParseError x
        s!"body of text statement must be a string or formatted string. Got '{x.lit}' instead") :=
  ptv_other_err env fuel s x tl h1 h2 h3

/-- `format` with an unknown font and environment errors on: the located error of C07b (F13). -/
theorem parse_text_value_format_unknown_font (env : Env) (s : PState) (fm lp : Tok) (sty : Option Tok)
    (text : Tok) (P : Params) (rp : Tok) (tl : List Tok) (hfm : fm.type = .FORMAT)
    (hlp : lp.type = .LPAREN) (hsty : ∀ t, sty = some t → t.type = .STRINGTYPE)
    (htext : text.type = .STRING) (hP : P.WF) (hrep : P.NoRep) (hrp : rp.type = .RPAREN) (fuel : Nat)
    (hf : P.named.length + 1 ≤ fuel) (herr : env.envErrors = true)
    (hunk : UnknownFont env.fonts (resolve env P.written).fontID) :
    (parseTextValue env fuel).run (st s (fm :: lp :: (sty.toList ++ text :: (P.toks ++ rp :: tl)))) =
      .error (newParseError (P.written.font?.getD text)
        (unknownFontMsg env.fonts (resolve env P.written).fontID)) := by
  rw [parse_text_value_format env s fm lp sty text P rp tl hfm hlp hsty htext hP hrep hrp fuel hf,
    formatText_unknown _ _ _ _ _ _ hunk]
  simp [herr]

/-! ### 2. `parseTextStatement` -/

/-- The record of `text [(mod)] Name { <value> }`. -/
def textOf (kw : Tok) (md : Mod) (name : Tok) (v : TVal) (raw : String) : Text :=
  { name := name.lit
    value := formatTextTerminator raw v.strType
    stringType := v.strType
    isGlobal := md.scope (defaultScopeOf "parseTextStatement") == .GLOBAL
    tok := kw }

/-- `text [(mod)] Name { <value> }` parses to `Top.text` of the record: the name, the value with its
terminator, the string type, exported iff the scope (written, else the documented default GLOBAL)
is GLOBAL, located at the `text` keyword token; the same record is appended to `textStatements`;
the window is left on the closing brace. -/
theorem parse_text_statement (env : Env) (fuel : Nat) (s : PState) (kw : Tok) (md : Mod)
    (name lb : Tok) (v : TVal) (rb : Tok) (rest : List Tok) (hmd : md.WF)
    (hname : name.type = .IDENT) (hlb : lb.type = .LBRACE) (hv : v.WF) (hrb : rb.type = .RBRACE)
    (hf : v.need ≤ fuel) (raw : String) (hraw : v.raw env = .ok raw) :
    (parseTextStatement env fuel).run
        (st s (kw :: (md.toks ++ name :: lb :: (v.toks ++ rb :: rest)))) =
      .ok (.text (textOf kw md name v raw),
           { st s (rb :: rest) with
             textStatements := s.textStatements ++ [textOf kw md name v raw] }) := by
  refine C15b.parse_text_statement_gen env fuel s kw md name lb _ hmd hname hlb
    (formatTextTerminator raw v.strType, v.strType) v.last rb rest hrb ?_
  have hh : ((v.toks ++ rb :: rest).headD s.eof).type ≠ .PORYSWITCH := by
    rcases v.head_type hv (rb :: rest) s.eof with h | h | h <;> rw [h] <;> decide
  simp only [hh, if_false]
  rw [tval_run env fuel s v (rb :: rest) hv hf, hraw]

/-- A value that cannot be formatted: the statement fails with that error. -/
theorem parse_text_statement_err (env : Env) (fuel : Nat) (s : PState) (kw : Tok) (md : Mod)
    (name lb : Tok) (v : TVal) (tl : List Tok) (hmd : md.WF)
    (hname : name.type = .IDENT) (hlb : lb.type = .LBRACE) (hv : v.WF)
    (hf : v.need ≤ fuel) (e : PFail) (hraw : v.raw env = .error e) :
    (parseTextStatement env fuel).run (st s (kw :: (md.toks ++ name :: lb :: (v.toks ++ tl)))) =
      .error e := by
  refine text_statement_err env fuel s kw md name lb _ hmd hname hlb e ?_
  have hh : ((v.toks ++ tl).headD s.eof).type ≠ .PORYSWITCH := by
    rcases v.head_type hv tl s.eof with h | h | h <;> rw [h] <;> decide
  simp only [hh, if_false]
  rw [tval_run env fuel s v tl hv hf, hraw]

/-- The value is not followed by `}` (a second string, say): error located on the offending token;
nothing is returned (the registration in `textStatements` is lost with the failing run). -/
theorem parse_text_statement_missing_rbrace (env : Env) (fuel : Nat) (s : PState) (kw : Tok) (md : Mod)
    (name lb : Tok) (v : TVal) (x : Tok) (rest : List Tok) (hmd : md.WF)
    (hname : name.type = .IDENT) (hlb : lb.type = .LBRACE) (hv : v.WF) (hx : x.type ≠ .RBRACE)
    (hf : v.need ≤ fuel) (raw : String) (hraw : v.raw env = .ok raw) :
    (parseTextStatement env fuel).run
        (st s (kw :: (md.toks ++ name :: lb :: (v.toks ++ x :: rest)))) =
      .error (newParseError x s!"expected closing curly brace for text. Got '{x.lit}' instead") := by
  refine text_statement_missing_rbrace env fuel s kw md name lb _ hmd hname hlb
    (formatTextTerminator raw v.strType, v.strType) v.last x rest hx ?_
  have hh : ((v.toks ++ x :: rest).headD s.eof).type ≠ .PORYSWITCH := by
    rcases v.head_type hv (x :: rest) s.eof with h | h | h <;> rw [h] <;> decide
  simp only [hh, if_false]
  rw [tval_run env fuel s v (x :: rest) hv hf, hraw]

/-! ### 3. end to end for one text -/

/-- The directive of a string type: `.string` unless a prefix names another. -/
def directive (ty : String) : String := if ty.length > 0 then ty else "string"

theorem directive_none : directive "" = "string" := by decide

theorem directive_prefix (ty : String) (h : ty ≠ "") : directive ty = ty := by
  unfold directive
  have : ty.length ≠ 0 := by
    intro h0
    apply h
    have := String.length_eq_zero_iff.mp h0
    exact this
  simp [Nat.pos_of_ne_zero this]

/-- **One text, as written.** For the record `t` of a text with value `raw` and string type `ty`:
`emitText o t` is the label line (exported iff global), the optional line marker, and one
`.<directive> "<line>"` line per line of the terminated value; the line contents joined by newline
give back `formatTextTerminator raw ty` and contain no newline themselves; that value ends with the
type's terminator, which was added iff the author had not written it (never doubled, idempotent);
for types without terminator nothing is added. -/
theorem text_emitted_as_written (o : Opts) (nm : String) (g : Bool) (kw : Tok) (raw ty : String) :
    let t : Text := { name := nm, value := formatTextTerminator raw ty, stringType := ty,
                      isGlobal := g, tok := kw }
    let ls := splitLines (formatTextTerminator raw ty).toList
    emitText o t = Line.labelDef nm g :: (marker o kw ++
        ls.map fun l => Line.textLine (directive ty) (String.ofList l)) ∧
    C09.joinLines ls = (formatTextTerminator raw ty).toList ∧
    (∀ l ∈ ls, '\n' ∉ l) ∧
    (∀ suf, Facts.textSuffixes.lookup ty = some suf →
      hasSuffix (formatTextTerminator raw ty).toList suf.toList = true ∧
      (hasSuffix raw.toList suf.toList = true → formatTextTerminator raw ty = raw) ∧
      (hasSuffix raw.toList suf.toList = false → formatTextTerminator raw ty = raw ++ suf)) ∧
    (Facts.textSuffixes.lookup ty = none → formatTextTerminator raw ty = raw) ∧
    formatTextTerminator (formatTextTerminator raw ty) ty = formatTextTerminator raw ty := by
  refine ⟨?_, C09.splitLines_join _, C09.splitLines_no_newline _, ?_, ?_, C09.terminator_idempotent _ _⟩
  · rw [C09.emitText_shape]; rfl
  · intro suf h; exact C09.terminator_once raw ty suf h
  · intro h; exact C09.terminator_other_types raw ty h

/-- The terminator table: `$` for plain and braille text, `\0` for ascii, none otherwise. -/
theorem terminator_table (ty : String) :
    Facts.textSuffixes.lookup ty =
      if ty = "" ∨ ty = "braille" then some "$" else if ty = "ascii" then some "\\0" else none := by
  simp only [Facts.textSuffixes, List.lookup]
  by_cases h1 : ty = ""
  · subst h1; decide
  · by_cases h2 : ty = "ascii"
    · subst h2; decide
    · by_cases h3 : ty = "braille"
      · subst h3; decide
      · simp [h1, h2, h3, beq_eq_false_iff_ne.mpr h1, beq_eq_false_iff_ne.mpr h2,
          beq_eq_false_iff_ne.mpr h3]

/-- How a text line is written in the output file. -/
theorem textLine_render (d c : String) :
    (Line.textLine d c).render = "\t." ++ d ++ " \"" ++ c ++ "\"\n" := rfl

/-- **From the source tokens to the emitted lines.** `text [(mod)] Name { <value> }` parses to a text
record that is also registered in `textStatements`, and the emitter writes it as the label and one
directive per line of `formatTextTerminator value type`. -/
theorem text_statement_end_to_end (env : Env) (fuel : Nat) (s : PState) (o : Opts) (kw : Tok) (md : Mod)
    (name lb : Tok) (v : TVal) (rb : Tok) (rest : List Tok) (hmd : md.WF)
    (hname : name.type = .IDENT) (hlb : lb.type = .LBRACE) (hv : v.WF) (hrb : rb.type = .RBRACE)
    (hf : v.need ≤ fuel) (raw : String) (hraw : v.raw env = .ok raw) :
    ∃ t s',
      (parseTextStatement env fuel).run
        (st s (kw :: (md.toks ++ name :: lb :: (v.toks ++ rb :: rest)))) = .ok (.text t, s') ∧
      s'.textStatements = s.textStatements ++ [t] ∧ s'.toks = rb :: rest ∧
      emitText o t =
        Line.labelDef name.lit (md.scope (defaultScopeOf "parseTextStatement") == .GLOBAL) ::
          (marker o kw ++ (splitLines (formatTextTerminator raw v.strType).toList).map fun l =>
            Line.textLine (directive v.strType) (String.ofList l)) ∧
      C09.joinLines (splitLines (formatTextTerminator raw v.strType).toList) =
        (formatTextTerminator raw v.strType).toList :=
  ⟨_, _, parse_text_statement env fuel s kw md name lb v rb rest hmd hname hlb hv hrb hf raw hraw,
    rfl, rfl, (text_emitted_as_written o _ _ kw raw v.strType).1, C09.splitLines_join _⟩

/-! ### 4. inline texts of commands -/

theorem lit?_some (e : AElem) (x : Tok × String × String) (h : AElem.lit? e = some x) :
    (∃ t, e = .str t ∧ x = (t, t.lit, "")) ∨ (∃ ty t, e = .tstr ty t ∧ x = (t, t.lit, ty.lit)) := by
  cases e with
  | tok t => simp [AElem.lit?] at h
  | str t => simp only [AElem.lit?, Option.some.injEq] at h; exact .inl ⟨t, rfl, h.symm⟩
  | tstr ty t => simp only [AElem.lit?, Option.some.injEq] at h; exact .inr ⟨ty, t, rfl, h.symm⟩
  | moves mv lp items rp => simp [AElem.lit?] at h

theorem textsOfArgsE_eq_I (env : Env) (sn : String) (cid pos : Nat) (args : List (List AElem)) :
    textsOfArgsE sn cid pos args = textsOfArgsI env sn cid pos (args.map (·.map .base)) := by
  induction args generalizing pos with
  | nil => rfl
  | cons a r ih =>
    simp only [textsOfArgsE, textsOfArgsI, List.map_cons, ih]
    congr 1
    simp [textsOfArgE, textsOfArgI, List.filterMap_map, Function.comp_def, IElem.lit?]

/-- **Inline literals (corollary of `C10c.parse_command_imp`).** For a command
`name ( a0 , a1 , … )` whose arguments are made of plain tokens, parentheses, string literals, typed
string literals and `moves(…)`: the implicit texts of the command are, in source order, one per
inline literal — `"lit"` ↦ type `""`, `ty"lit"` ↦ type `ty` — with `text` = the STRING token whose
literal is replaced by `formatTextTerminator lit type`, `argPos` = the index of the argument it
stands in, the command's id and the script name. -/
theorem inline_literals_terminated (env : Env) (sn : String) (s : PState) (name lp : Tok)
    (a0 : List AElem) (more : List (Tok × List AElem)) (rp : Tok) (rest : List Tok)
    (hlp : lp.type = .LPAREN) (hrp : rp.type = .RPAREN) (h0 : argEOK a0 = true)
    (hm : ∀ p ∈ more, p.1.type = .COMMA ∧ argEOK p.2 = true) (fuel : Nat)
    (hf : needCmdE a0 more ≤ fuel) :
    ∃ cmd imp,
      (parseCommandStatement env sn fuel).run (st s (printCmdE name lp a0 more rp ++ rest)) =
        .ok ((cmd, imp), st (bump s) (rp :: rest)) ∧
      imp.texts = textsOfArgsE sn s.nextCmdId 0 (a0 :: more.map (·.2)) ∧
      ∀ it ∈ imp.texts, ∃ k a e, (a0 :: more.map (·.2))[k]? = some a ∧ e ∈ a ∧
        ((∃ t, e = .str t ∧
            it = { cmdId := s.nextCmdId, argPos := k, text := { t with lit := formatTextTerminator t.lit "" },
                   stringType := "", scriptName := sn }) ∨
         (∃ ty t, e = .tstr ty t ∧
            it = { cmdId := s.nextCmdId, argPos := k,
                   text := { t with lit := formatTextTerminator t.lit ty.lit },
                   stringType := ty.lit, scriptName := sn })) := by
  refine ⟨_, _, parse_command_imp env sn s name lp a0 more rp rest hlp hrp h0 hm fuel hf,
    impArgs_texts _ _ _ _ _, ?_⟩
  intro it hit
  rw [impArgs_texts, textsOfArgsE_eq_I env] at hit
  obtain ⟨k, a, e, x, hk, he, hx, rfl⟩ := textsOfArgsI_mem env sn _ 0 _ it hit
  rw [List.getElem?_map] at hk
  obtain ⟨a', ha', rfl⟩ := Option.map_eq_some_iff.mp hk
  obtain ⟨e', he', rfl⟩ := List.mem_map.mp he
  refine ⟨k, a', e', ha', he', ?_⟩
  rcases lit?_some e' x hx with ⟨t, rfl, rfl⟩ | ⟨ty, t, rfl, rfl⟩
  · exact .inl ⟨t, rfl, by simp [mkImpText]⟩
  · exact .inr ⟨ty, t, rfl, by simp [mkImpText]⟩

/-- **… extended by inline `format(…)`** (`IElem`, `parse_command_inline`): an inline
`format([ty]"lit", …)` yields the STRING token with its literal replaced by
`formatTextTerminator (formatted lit) ty`, string type `ty` (`""` without prefix). -/
theorem inline_literals_terminated_format (env : Env) (sn : String) (s : PState) (name lp : Tok)
    (a0 : List IElem) (more : List (Tok × List IElem)) (rp : Tok) (rest : List Tok)
    (hlp : lp.type = .LPAREN) (hrp : rp.type = .RPAREN) (h0 : ArgIOK env a0)
    (hm : ∀ p ∈ more, p.1.type = .COMMA ∧ ArgIOK env p.2) (fuel : Nat)
    (hf : needCmdI a0 more ≤ fuel) :
    ∃ cmd imp,
      (parseCommandStatement env sn fuel).run (st s (printCmdI name lp a0 more rp ++ rest)) =
        .ok ((cmd, imp), st (bump s) (rp :: rest)) ∧
      cmd.args = (a0 :: more.map (·.2)).map (renderArgI (substC s.constants)) ∧
      imp.texts = textsOfArgsI env sn s.nextCmdId 0 (a0 :: more.map (·.2)) ∧
      ∀ it ∈ imp.texts, ∃ k a e x, (a0 :: more.map (·.2))[k]? = some a ∧ e ∈ a ∧
        e.lit? env = some x ∧
        it = { cmdId := s.nextCmdId, argPos := k,
               text := { x.1 with lit := formatTextTerminator x.2.1 x.2.2 },
               stringType := x.2.2, scriptName := sn } := by
  refine ⟨_, _, parse_command_inline env sn s name lp a0 more rp rest hlp hrp h0 hm fuel hf, rfl,
    impArgsI_texts _ _ _ _ _ _, ?_⟩
  intro it hit
  rw [impArgsI_texts] at hit
  obtain ⟨k, a, e, x, hk, he, hx, rfl⟩ := textsOfArgsI_mem env sn _ 0 _ it hit
  exact ⟨k, a, e, x, hk, he, hx, by simp [mkImpText]⟩

/-- What `e.lit? env` is for an inline `format(…)`: the text token, the formatted text, the prefix
inside `format(`. -/
theorem lit?_fmt (env : Env) (fm lp : Tok) (sty : Option Tok) (text : Tok) (P : Params) (rp : Tok)
    (raw : String) (hraw : (TVal.format fm lp sty text P rp).raw env = .ok raw) :
    (IElem.fmt fm lp sty text P rp).lit? env = some (text, raw, styLit sty) := by
  simp [IElem.lit?, rawD, hraw]

/-- The `Text` record `addImplicitTexts` makes of an inline text that was not seen before: value =
the terminated text, the string type, never exported; the command argument is patched with its
label. A text seen before (same value and type) is shared: no new record. -/
theorem inline_text_record (s : PState) (sn : String) (cid pos : Nat) (x : Tok × String × String) :
    (s.inlineTextsSet.lookup (formatTextTerminator x.2.1 x.2.2, x.2.2) = none →
      (addTextStep s (mkImpText sn cid pos x)).inlineTexts = s.inlineTexts ++
        [{ name := getImplicitTextLabel sn (lookupD s.inlineTextCounts sn),
           value := formatTextTerminator x.2.1 x.2.2,
           tok := { x.1 with lit := formatTextTerminator x.2.1 x.2.2 },
           stringType := x.2.2, isGlobal := false }] ∧
      (addTextStep s (mkImpText sn cid pos x)).patches = s.patches ++
        [((cid, pos), getImplicitTextLabel sn (lookupD s.inlineTextCounts sn))]) ∧
    (∀ label, s.inlineTextsSet.lookup (formatTextTerminator x.2.1 x.2.2, x.2.2) = some label →
      (addTextStep s (mkImpText sn cid pos x)).inlineTexts = s.inlineTexts ∧
      (addTextStep s (mkImpText sn cid pos x)).patches = s.patches ++ [((cid, pos), label)]) := by
  constructor
  · intro h; simp [addTextStep, mkImpText, h]
  · intro label h; simp [addTextStep, mkImpText, h]

/-- … and its lines: a local label, then one directive per line of the terminated text. -/
theorem inline_text_emitted (o : Opts) (label : String) (t : Tok) (raw ty : String) :
    emitText o { name := label, value := formatTextTerminator raw ty,
                 tok := { t with lit := formatTextTerminator raw ty }, stringType := ty,
                 isGlobal := false } =
      Line.labelDef label false :: (marker o { t with lit := formatTextTerminator raw ty } ++
        (splitLines (formatTextTerminator raw ty).toList).map fun l =>
          Line.textLine (directive ty) (String.ofList l)) :=
  (text_emitted_as_written o label false _ raw ty).1

/-! ### non-vacuity -/

/-- Without line markers: the label and the text lines only. -/
theorem emit_no_markers (o : Opts) (ho : o.markers = false) (t : Text) :
    emitText o t = Line.labelDef t.name t.isGlobal ::
      (splitLines t.value.toList).map fun l => Line.textLine (directive t.stringType) (String.ofList l) := by
  simp [C09.emitText_shape, marker, ho, directive]

/-- `parseTextValue` on `"Hi" }` and `ascii "Price 100" }`. -/
example (env : Env) (s : PState) :
    (parseTextValue env 0).run (st s [tk .STRING "Hi", tk .RBRACE "}"]) =
      .ok (("Hi$", ""), st s [tk .STRING "Hi", tk .RBRACE "}"]) :=
  (parse_text_value_plain env 0 s (tk .STRING "Hi") [tk .RBRACE "}"] rfl).trans (by
    have : formatTextTerminator "Hi" "" = "Hi$" := by decide
    simp [this])

example (env : Env) (s : PState) :
    (parseTextValue env 0).run (st s [tk .STRINGTYPE "ascii", tk .STRING "Price 100", tk .RBRACE "}"]) =
      .ok (("Price 100\\0", "ascii"), st s [tk .STRING "Price 100", tk .RBRACE "}"]) :=
  (parse_text_value_typed env 0 s (tk .STRINGTYPE "ascii") (tk .STRING "Price 100") [tk .RBRACE "}"]
    rfl rfl).trans (by
    have : formatTextTerminator "Price 100" "ascii" = "Price 100\\0" := by decide
    simp [this])

/-- `braille }` — a prefix without a string: error on `}`; `text T { 5 }`: error on `5`. -/
example (env : Env) (s : PState) :
    (parseTextValue env 0).run (st s [tk .STRINGTYPE "braille", tk .RBRACE "}"]) =
      .error (newParseError (tk .RBRACE "}")
        "expected a string literal after string type 'braille'. Got '}' instead") :=
  (parse_text_value_prefix_without_string env 0 s (tk .STRINGTYPE "braille") (tk .RBRACE "}") [] rfl
    (by decide)).trans (congrArg (fun m => Except.error (newParseError (tk .RBRACE "}") m)) (by decide))

example (env : Env) (s : PState) :
    (parseTextValue env 0).run (st s [tk .INT "5", tk .RBRACE "}"]) =
      .error (newParseError (tk .INT "5")
        "body of text statement must be a string or formatted string. Got '5' instead") :=
  (parse_text_value_not_a_string env 0 s (tk .INT "5") [tk .RBRACE "}"] (by decide) (by decide)
    (by decide)).trans (congrArg (fun m => Except.error (newParseError (tk .INT "5") m)) (by decide))

/-- A prefix cannot be put in front of `format(`: `ascii format("x")` is rejected at `format` (the
prefix belongs INSIDE: `format(ascii"x")`). -/
example (env : Env) (s : PState) (tl : List Tok) :
    (parseTextValue env 0).run (st s (tk .STRINGTYPE "ascii" :: tk .FORMAT "format" :: tl)) =
      .error (newParseError (tk .FORMAT "format")
        "expected a string literal after string type 'ascii'. Got 'format' instead") :=
  (parse_text_value_prefix_without_string env 0 s (tk .STRINGTYPE "ascii") (tk .FORMAT "format") tl rfl
    (by decide)).trans (congrArg (fun m => Except.error (newParseError (tk .FORMAT "format") m)) (by decide))

/-- `text T { "Hi" }`: exported, `$` appended, one `.string` line. -/
example (env : Env) (s : PState) (o : Opts) (ho : o.markers = false) :
    ∃ t, (parseTextStatement env 0).run
        (st s [tk .TEXT "text", tk .IDENT "T", tk .LBRACE "{", tk .STRING "Hi", tk .RBRACE "}"]) =
      .ok (.text t, { st s [tk .RBRACE "}"] with textStatements := s.textStatements ++ [t] }) ∧
    t = { name := "T", value := "Hi$", stringType := "", isGlobal := true, tok := tk .TEXT "text" } ∧
    emitText o t = [.labelDef "T" true, .textLine "string" "Hi$"] := by
  refine ⟨_, parse_text_statement env 0 s (tk .TEXT "text") .absent (tk .IDENT "T") (tk .LBRACE "{")
    (.plain (tk .STRING "Hi")) (tk .RBRACE "}") [] trivial rfl rfl rfl rfl (by decide) "Hi" rfl, ?_, ?_⟩
  · decide
  · have : textOf (tk .TEXT "text") .absent (tk .IDENT "T") (.plain (tk .STRING "Hi")) "Hi" =
        { name := "T", value := "Hi$", stringType := "", isGlobal := true, tok := tk .TEXT "text" } := by
      decide
    rw [this, emit_no_markers o ho]
    decide

/-- `text T { ascii"Price 100" }`: `\0` appended, directive `.ascii`. -/
example (env : Env) (s : PState) (o : Opts) (ho : o.markers = false) :
    ∃ t, (parseTextStatement env 0).run
        (st s [tk .TEXT "text", tk .IDENT "T", tk .LBRACE "{", tk .STRINGTYPE "ascii",
               tk .STRING "Price 100", tk .RBRACE "}"]) =
      .ok (.text t, { st s [tk .RBRACE "}"] with textStatements := s.textStatements ++ [t] }) ∧
    t = { name := "T", value := "Price 100\\0", stringType := "ascii", isGlobal := true,
          tok := tk .TEXT "text" } ∧
    emitText o t = [.labelDef "T" true, .textLine "ascii" "Price 100\\0"] := by
  refine ⟨_, parse_text_statement env 0 s (tk .TEXT "text") .absent (tk .IDENT "T") (tk .LBRACE "{")
    (.typed (tk .STRINGTYPE "ascii") (tk .STRING "Price 100")) (tk .RBRACE "}") [] trivial rfl rfl
    ⟨rfl, rfl⟩ rfl (by decide) "Price 100" rfl, ?_, ?_⟩
  · decide
  · have : textOf (tk .TEXT "text") .absent (tk .IDENT "T")
        (.typed (tk .STRINGTYPE "ascii") (tk .STRING "Price 100")) "Price 100" =
        { name := "T", value := "Price 100\\0", stringType := "ascii", isGlobal := true,
          tok := tk .TEXT "text" } := by decide
    rw [this, emit_no_markers o ho]
    decide

/-- `text(local) T { braille"A$" }`: already terminated — nothing is added; not exported. -/
example (env : Env) (s : PState) (o : Opts) (ho : o.markers = false) :
    ∃ t, (parseTextStatement env 0).run
        (st s [tk .TEXT "text", tk .LPAREN "(", tk .LOCAL "local", tk .RPAREN ")", tk .IDENT "T",
               tk .LBRACE "{", tk .STRINGTYPE "braille", tk .STRING "A$", tk .RBRACE "}"]) =
      .ok (.text t, { st s [tk .RBRACE "}"] with textStatements := s.textStatements ++ [t] }) ∧
    t = { name := "T", value := "A$", stringType := "braille", isGlobal := false,
          tok := tk .TEXT "text" } ∧
    emitText o t = [.labelDef "T" false, .textLine "braille" "A$"] := by
  refine ⟨_, parse_text_statement env 0 s (tk .TEXT "text")
    (.written (tk .LPAREN "(") (tk .LOCAL "local") (tk .RPAREN ")")) (tk .IDENT "T") (tk .LBRACE "{")
    (.typed (tk .STRINGTYPE "braille") (tk .STRING "A$")) (tk .RBRACE "}") [] ⟨rfl, .inr rfl, rfl⟩ rfl
    rfl ⟨rfl, rfl⟩ rfl (by decide) "A$" rfl, ?_, ?_⟩
  · decide
  · have : textOf (tk .TEXT "text") (.written (tk .LPAREN "(") (tk .LOCAL "local") (tk .RPAREN ")"))
        (tk .IDENT "T") (.typed (tk .STRINGTYPE "braille") (tk .STRING "A$")) "A$" =
        { name := "T", value := "A$", stringType := "braille", isGlobal := false,
          tok := tk .TEXT "text" } := by decide
    rw [this, emit_no_markers o ho]
    decide

/-- The value `format("aa bb", "TEST", 100)` and `format("aa bb cc", "TEST", 50)`. -/
def exFmt (lit len : String) : TVal :=
  .format (tk .FORMAT "format") (tk .LPAREN "(") none (tk .STRING lit)
    ⟨.fontLen (tk .COMMA ",") (tk .STRING "TEST") (tk .COMMA ",") (tk .INT len), tk .COMMA ",", []⟩
    (tk .RPAREN ")")

theorem exFmt_wf (lit len : String) : (exFmt lit len).WF :=
  ⟨rfl, rfl, by simp, rfl, ⟨⟨rfl, rfl, rfl, rfl⟩, by simp, by simp⟩, by simp [Params.NoRep], rfl⟩

theorem exFmt_toks (lit len : String) :
    (exFmt lit len).toks = [tk .FORMAT "format", tk .LPAREN "(", tk .STRING lit, tk .COMMA ",",
      tk .STRING "TEST", tk .COMMA ",", tk .INT len, tk .RPAREN ")"] := rfl

/-- `text T { format("aa bb", "TEST", 100) }`: fits on one line. -/
example (s : PState) (o : Opts) (ho : o.markers = false) :
    ∃ t, (parseTextStatement {} 1).run
        (st s [tk .TEXT "text", tk .IDENT "T", tk .LBRACE "{", tk .FORMAT "format", tk .LPAREN "(",
               tk .STRING "aa bb", tk .COMMA ",", tk .STRING "TEST", tk .COMMA ",", tk .INT "100",
               tk .RPAREN ")", tk .RBRACE "}"]) =
      .ok (.text t, { st s [tk .RBRACE "}"] with textStatements := s.textStatements ++ [t] }) ∧
    t = { name := "T", value := "aa bb$", stringType := "", isGlobal := true, tok := tk .TEXT "text" } ∧
    emitText o t = [.labelDef "T" true, .textLine "string" "aa bb$"] := by
  have hraw : (exFmt "aa bb" "100").raw {} = .ok "aa bb" := by rfl
  refine ⟨_, parse_text_statement {} 1 s (tk .TEXT "text") .absent (tk .IDENT "T") (tk .LBRACE "{")
    (exFmt "aa bb" "100") (tk .RBRACE "}") [] trivial rfl rfl (exFmt_wf _ _) rfl (by decide) "aa bb"
    hraw, ?_, ?_⟩
  · decide
  · have : textOf (tk .TEXT "text") .absent (tk .IDENT "T") (exFmt "aa bb" "100") "aa bb" =
        { name := "T", value := "aa bb$", stringType := "", isGlobal := true, tok := tk .TEXT "text" } := by
      decide
    rw [this, emit_no_markers o ho]
    decide

/-- `text T { format("aa bb cc", "TEST", 50) }`: the formatter breaks the line; two directives, the
terminator on the last. -/
example (s : PState) (o : Opts) (ho : o.markers = false) :
    ∃ t, (parseTextStatement {} 1).run
        (st s ([tk .TEXT "text", tk .IDENT "T", tk .LBRACE "{"] ++ (exFmt "aa bb cc" "50").toks ++
          [tk .RBRACE "}"])) =
      .ok (.text t, { st s [tk .RBRACE "}"] with textStatements := s.textStatements ++ [t] }) ∧
    emitText o t = [.labelDef "T" true, .textLine "string" "aa bb\\n", .textLine "string" "cc$"] := by
  have hraw : (exFmt "aa bb cc" "50").raw {} = .ok "aa bb\\n\ncc" := by rfl
  refine ⟨_, parse_text_statement {} 1 s (tk .TEXT "text") .absent (tk .IDENT "T") (tk .LBRACE "{")
    (exFmt "aa bb cc" "50") (tk .RBRACE "}") [] trivial rfl rfl (exFmt_wf _ _) rfl (by decide) _
    hraw, ?_⟩
  have : textOf (tk .TEXT "text") .absent (tk .IDENT "T") (exFmt "aa bb cc" "50") "aa bb\\n\ncc" =
      { name := "T", value := "aa bb\\n\ncc$", stringType := "", isGlobal := true,
        tok := tk .TEXT "text" } := by decide
  rw [this, emit_no_markers o ho]
  decide

/-- `text_emitted_as_written` on a two-line ascii text. -/
example (o : Opts) (ho : o.markers = false) :
    emitText o { name := "T", value := formatTextTerminator "Hello\nWorld" "ascii", stringType := "ascii",
                 isGlobal := true, tok := tk .TEXT "text" } =
      [.labelDef "T" true, .textLine "ascii" "Hello", .textLine "ascii" "World\\0"] := by
  rw [(text_emitted_as_written o "T" true (tk .TEXT "text") "Hello\nWorld" "ascii").1]
  have : formatTextTerminator "Hello\nWorld" "ascii" = "Hello\nWorld\\0" := by decide
  simp [marker, ho, this]
  decide

/-- With line markers (`-lm`, input path known) the marker of the `text` keyword's line comes
between the label and the text lines. -/
example :
    emitText { inputPath := "a.pory" }
        { name := "T", value := formatTextTerminator "Hi" "", stringType := "", isGlobal := true,
          tok := { tk .TEXT "text" with line := 3 } } =
      [.labelDef "T" true, .marker 3 "a.pory", .textLine "string" "Hi$"] := by
  rw [(text_emitted_as_written { inputPath := "a.pory" } "T" true { tk .TEXT "text" with line := 3 }
    "Hi" "").1]
  decide

/-- `text T { "a" "b" }` after the lexer is ONE string token (C09b); two STRING tokens (which the
lexer never produces next to each other) are rejected at the second. -/
example (env : Env) (s : PState) :
    (parseTextStatement env 0).run
        (st s [tk .TEXT "text", tk .IDENT "T", tk .LBRACE "{", tk .STRING "a", tk .STRING "b",
               tk .RBRACE "}"]) =
      .error (newParseError (tk .STRING "b") "expected closing curly brace for text. Got 'b' instead") :=
  (parse_text_statement_missing_rbrace env 0 s (tk .TEXT "text") .absent (tk .IDENT "T")
    (tk .LBRACE "{") (.plain (tk .STRING "a")) (tk .STRING "b") [tk .RBRACE "}"] trivial rfl rfl rfl
    (by decide) (by decide) "a" rfl).trans
    (congrArg (fun m => Except.error (newParseError (tk .STRING "b") m)) (by decide))

/-- `msgbox ( "Hi" , ascii "x" )` in script `Main`, command id 7. -/
example : ∃ cmd imp s', (parseCommandStatement {} "Main" 10).run
      (st { (default : PState) with nextCmdId := 7 }
        (printCmdE (tk .IDENT "msgbox") (tk .LPAREN "(") [.str (tk .STRING "Hi")]
          [(tk .COMMA ",", [.tstr (tk .STRINGTYPE "ascii") (tk .STRING "x")])] (tk .RPAREN ")") ++
          [tk .RBRACE "}"])) = .ok ((cmd, imp), s') ∧
    imp.texts.map (fun t => (t.cmdId, t.argPos, t.text.lit, t.stringType, t.scriptName)) =
      [(7, 0, "Hi$", "", "Main"), (7, 1, "x\\0", "ascii", "Main")] := by
  obtain ⟨cmd, imp, h, ht, -⟩ := inline_literals_terminated {} "Main"
    { (default : PState) with nextCmdId := 7 } (tk .IDENT "msgbox") (tk .LPAREN "(")
    [.str (tk .STRING "Hi")] [(tk .COMMA ",", [.tstr (tk .STRINGTYPE "ascii") (tk .STRING "x")])]
    (tk .RPAREN ")") [tk .RBRACE "}"] rfl rfl (by decide) (by decide) 10 (by decide)
  refine ⟨cmd, imp, _, h, ?_⟩
  rw [ht]
  decide

/-- `msgbox ( format ( "aa bb cc" , "TEST" , 50 ) , MSGBOX_DEFAULT )`. -/
def exInline : IElem :=
  .fmt (tk .FORMAT "format") (tk .LPAREN "(") none (tk .STRING "aa bb cc")
    ⟨.fontLen (tk .COMMA ",") (tk .STRING "TEST") (tk .COMMA ",") (tk .INT "50"), tk .COMMA ",", []⟩
    (tk .RPAREN ")")

example : ∃ cmd imp s', (parseCommandStatement {} "Main" 10).run
      (st { (default : PState) with nextCmdId := 7 }
        (printCmdI (tk .IDENT "msgbox") (tk .LPAREN "(") [exInline]
          [(tk .COMMA ",", [.base (.tok (tk .IDENT "MSGBOX_DEFAULT"))])] (tk .RPAREN ")") ++
          [tk .RBRACE "}"])) = .ok ((cmd, imp), s') ∧
    cmd.args = ["", "MSGBOX_DEFAULT"] ∧
    imp.texts.map (fun t => (t.cmdId, t.argPos, t.text.lit, t.stringType, t.scriptName)) =
      [(7, 0, "aa bb\\n\ncc$", "", "Main")] := by
  have hraw : (exFmt "aa bb cc" "50").raw {} = .ok "aa bb\\n\ncc" := by rfl
  have h0 : ArgIOK {} [exInline] := by
    refine ⟨by simp, ?_, by decide⟩
    intro e he
    simp only [List.mem_singleton] at he
    subst he
    exact ⟨exFmt_wf _ _, _, hraw⟩
  have h1 : ArgIOK {} [IElem.base (.tok (tk .IDENT "MSGBOX_DEFAULT"))] := by
    refine ⟨by simp, ?_, by decide⟩
    intro e he
    simp only [List.mem_singleton] at he
    subst he
    show AElem.ok _ = true
    decide
  obtain ⟨cmd, imp, h, ha, ht, -⟩ := inline_literals_terminated_format {} "Main"
    { (default : PState) with nextCmdId := 7 } (tk .IDENT "msgbox") (tk .LPAREN "(")
    [exInline] [(tk .COMMA ",", [.base (.tok (tk .IDENT "MSGBOX_DEFAULT"))])]
    (tk .RPAREN ")") [tk .RBRACE "}"] rfl rfl h0
    (by intro p hp; simp only [List.mem_singleton] at hp; subst hp; exact ⟨rfl, h1⟩)
    10 (by decide)
  refine ⟨cmd, imp, _, h, ?_, ?_⟩
  · rw [ha]; decide
  · rw [ht]
    have : textsOfArgsI {} "Main" 7 0 [[exInline], [.base (.tok (tk .IDENT "MSGBOX_DEFAULT"))]] =
        [mkImpText "Main" 7 0 (tk .STRING "aa bb cc", "aa bb\\n\ncc", "")] := by
      simp [textsOfArgsI, textsOfArgI, exInline, IElem.lit?, AElem.lit?, rawD,
        show (TVal.format (tk .FORMAT "format") (tk .LPAREN "(") none (tk .STRING "aa bb cc")
          ⟨.fontLen (tk .COMMA ",") (tk .STRING "TEST") (tk .COMMA ",") (tk .INT "50"), tk .COMMA ",", []⟩
          (tk .RPAREN ")")).raw {} = .ok "aa bb\\n\ncc" from hraw, styLit]
    simp only [List.map_cons, List.map_nil] at this ⊢
    rw [this]
    decide

end Pory.C09c
