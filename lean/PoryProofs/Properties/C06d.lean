import PoryProofs.Properties.C10e
import PoryProofs.Properties.C06c
import PoryProofs.HoistSourceImp
import PoryProofs.HoistSource
/-
C06d — EVERY HOISTED TEXT / MOVEMENT IS REFERENCED EXACTLY FROM THE ARGUMENT WHERE IT WAS WRITTEN, for every
PARSED script, from the source tokens.  Property C06: "an inline string / moves() argument is replaced by a local
label that is defined exactly once in the output with exactly that content; equal content (same string type)
shares one label; labels are numbered per script in source order".

Helper modules: PoryProofs/HoistSourceImp.lean (the IMPLICIT-DATA census: the 7-function mutual induction of
SourceCensus.lean re-run with the invariant `IC`: the `ImpData` of an elaborated body = the concatenation, in
source order, of `CmdM.imp` of the written commands `surfaceCmds`), PoryProofs/HoistSource.lean (slots of the
items of ONE written command; `last_patch_of_unique_slot`).

Setting (hypotheses as in `C10e.source_command_census`): `script [mod] Name { b }` printed as tokens from a P1c
surface body `b` (`SWF b`), accepted by `parseScriptStatement` with result `(scr, imp)`.

1. `parsed_command_ids_distinct`: the command ids of `cmdsOf scr.body` ARE the ids of `surfaceCmds` (position by
   position), strictly increasing, hence pairwise distinct, within `[s.nextCmdId, s'.nextCmdId)`.  This closes the
   item "AST-level distinctness of command ids" of DESIGN for scripts in the P1c surface syntax.
   `parsed_imp_census`: `imp.texts` / `imp.movements` = the texts / movements of the written commands, in source
   order.  `script_slot_items`: the items of the script at the slot `(cid, i)` of a written command `(w, cid)` whose
   argument `i` is ONE element `e` are exactly the items of `e` (at most one: `impOfM_le_one`) — different written
   commands, and different arguments of one command, have disjoint patch keys.
2. `written_item_referenced` (texts and movements at once; instances `written_text_referenced` for a string
   literal, `written_moves_referenced` for `moves( … )`; `item_of_str` / `item_of_tstr` / `item_of_fmt` /
   `item_of_moves` / `item_of_movesS` spell out the hoisted record of each kind of element: content with the
   terminator of C09, string type, expanded steps).  "The patches of the parsed program" are phrased as C06c does:
   a hoisting state `sF` with `HoistModel.Model sF PF MF items` (what `C06c.parseTokens_model` proves of the state
   `p.texts` / `p.tops` / `p.patches` are read off), where `items = A ++ itemsOf imp ++ Cc` and the items of the
   OTHER statements (`A`, `Cc`) have other command ids (what `C06c.patches_of_distinct_statements_disjoint`
   proves).  Conclusion: the LAST patch for `(cid, i)` carries a label with `Defines … it label` (exactly one
   hoisted text / movement with that name, with exactly the written content and string type, local, no record of
   the other kind with that name) and `renderCommand sF.patches (node of w)` shows that label at argument `i`.
   `written_line_emitted`: that rendered line is in the output of `emitScript` (unless block-final `end` /
   `return`).  `written_item_referenced_file`: the same with `p.patches`, `p.texts`, `p.tops` of a program `p`
   parsed by `parseTokens` from a whole file, given `hcol : collected env toks = Hpre ++ imp :: Hpost`.
   F21 stated honestly: `AloneInArg w i` (decidable; `aloneElem w i = some e`: argument `i` is one element) is a
   hypothesis; `aloneInArg_needed`: on F21's witness `msgbox("a" ascii"b")` the predicate fails, both patches have
   slot `(0, 0)`, the command shows `S_Text_1` only and NO label at argument 0 defines the text `a$`.
3. `written_text_labels_iff`, `equal_content_shares_label`, `different_content_different_label`: for two written
   commands of one script, the labels shown are equal IFF content (with terminator) and string type are equal.

NOTHING is `_partial`.  NOT DONE (the one remaining link, a hypothesis of `written_item_referenced_file`):
deriving `hcol` — "the `ImpData` of this `script` statement is one of `C06c.collected env toks`, i.e. the state `s`
is the state in which `topLoop` reaches this statement of the file" — from the token list of a whole file
(needs the top-level loop over a file grammar: `ProgramParse*.lean` territory).  The label NUMBERING in source
vocabulary (`S_Text_k` = k-th new content of script S) is C06c.`parsed_texts_bijection` + `parsed_imp_census`
(order of `imp.texts`), not restated here.  A statement `poryswitch` contributes the commands (and inline items)
of its selected case only (C10e), so does `surfaceCmds`.
-/
namespace Pory.C06d
open Pory Pory.Parser Pory.P1c Pory.C02P Pory.C10b Pory.BoolGen Pory.C10d Pory.CmdGen Pory.Emit Pory.LeafGen
open Pory.TextValueParse Pory.C10c Pory.C10e Pory.HoistModel Pory.C06 Pory.C06b Pory.C06c Pory.Hoist
open Pory.StmtG (Ctx ctxOf)

theorem pairwise_lt_nodup (l : List Nat) (h : l.Pairwise (· < ·)) : l.Nodup :=
  h.imp (fun hab => Nat.ne_of_lt hab)

/-- What the parser returns for a printed script: the reference elaboration. -/
theorem parsed_script_elab (env : Env) (fuel : Nat) (s : PState) (kw : Tok) (md : TopParse.Mod)
    (name lb : Tok) (b : List SStmt) (rb : Tok)
    (rest : List Tok) (hmd : md.WF) (hname : name.type = .IDENT) (hlb : lb.type = .LBRACE) (hwf : SWF b)
    (hrb : rb.type = .RBRACE) (hfuel : needL b ≤ fuel)
    (scr : Script) (imp : ImpData) (s' : PState)
    (hparse : (parseScriptStatement env fuel).run
        (st s (kw :: (md.toks ++ name :: lb :: (printStmts b ++ rb :: rest)))) = .ok ((scr, imp), s')) :
    ∃ c', elabE env name.lit (ctxOf s) b = .ok (scr.body, imp, c') ∧ scr.name = name.lit ∧
      s'.nextCmdId = c'.nextCmdId := by
  cases helab : elabE env name.lit (ctxOf s) b with
  | error e =>
    rw [parse_script_reject env fuel s kw md name lb b rb rest hmd hname hlb hwf hrb hfuel e helab] at hparse
    cases hparse
  | ok r =>
    obtain ⟨stmts, imp0, c'⟩ := r
    have hel : elaborate env name.lit (ctxOf s) b = some (stmts, imp0, c') := by
      unfold elaborate; rw [helab]; rfl
    rw [parse_script_print env fuel s kw md name lb b rb rest hmd hname hlb hwf hrb hfuel stmts imp0 c' hel]
      at hparse
    simp only [Except.ok.injEq, Prod.mk.injEq] at hparse
    obtain ⟨⟨hscr, himp⟩, hs'⟩ := hparse
    subst hscr hs' himp
    exact ⟨c', rfl, rfl, rfl⟩

/-- **parsed_command_ids_distinct.** -/
theorem parsed_command_ids_distinct (env : Env) (fuel : Nat) (s : PState) (kw : Tok) (md : TopParse.Mod)
    (name lb : Tok) (b : List SStmt) (rb : Tok)
    (rest : List Tok) (hmd : md.WF) (hname : name.type = .IDENT) (hlb : lb.type = .LBRACE) (hwf : SWF b)
    (hrb : rb.type = .RBRACE) (hfuel : needL b ≤ fuel)
    (scr : Script) (imp : ImpData) (s' : PState)
    (hparse : (parseScriptStatement env fuel).run
        (st s (kw :: (md.toks ++ name :: lb :: (printStmts b ++ rb :: rest)))) = .ok ((scr, imp), s')) :
    (cmdsOf scr.body).map (·.id) = (surfaceCmds env b s.nextCmdId).map (·.2) ∧
    ((cmdsOf scr.body).map (·.id)).Pairwise (· < ·) ∧ ((cmdsOf scr.body).map (·.id)).Nodup ∧
    (∀ c ∈ cmdsOf scr.body, s.nextCmdId ≤ c.id ∧ c.id < s'.nextCmdId) := by
  obtain ⟨c', hel, -, hs'⟩ := parsed_script_elab env fuel s kw md name lb b rb rest hmd hname hlb hwf hrb hfuel
    scr imp s' hparse
  obtain ⟨h1, -, h3⟩ := elab_cmds env name.lit (ctxOf s) b scr.body imp c' hel
  obtain ⟨-, hpw, hrng⟩ := surfaceCmds_ids env b s.nextCmdId
  have hids : (cmdsOf scr.body).map (·.id) = (surfaceCmds env b s.nextCmdId).map (·.2) := by
    rw [h1, List.map_map]; rfl
  refine ⟨hids, by rw [hids]; exact hpw, by rw [hids]; exact pairwise_lt_nodup _ hpw, ?_⟩
  intro c hc
  rw [h1] at hc
  obtain ⟨p, hp, rfl⟩ := List.mem_map.1 hc
  have := hrng p hp
  rw [hs', h3]
  exact this

/-! ## 2. The implicit data of a parsed script = the implicit data of its written commands -/

/-- **parsed_imp_census**: the inline texts (movements) the parser returns for the script are, in source order,
those of the written commands. -/
theorem parsed_imp_census (env : Env) (fuel : Nat) (s : PState) (kw : Tok) (md : TopParse.Mod)
    (name lb : Tok) (b : List SStmt) (rb : Tok)
    (rest : List Tok) (hmd : md.WF) (hname : name.type = .IDENT) (hlb : lb.type = .LBRACE) (hwf : SWF b)
    (hrb : rb.type = .RBRACE) (hfuel : needL b ≤ fuel)
    (scr : Script) (imp : ImpData) (s' : PState)
    (hparse : (parseScriptStatement env fuel).run
        (st s (kw :: (md.toks ++ name :: lb :: (printStmts b ++ rb :: rest)))) = .ok ((scr, imp), s')) :
    imp.texts = (surfaceCmds env b s.nextCmdId).flatMap (fun p => (p.1.imp env name.lit p.2).texts) ∧
    imp.movements = (surfaceCmds env b s.nextCmdId).flatMap (fun p => (p.1.imp env name.lit p.2).movements) := by
  obtain ⟨c', hel, -, -⟩ := parsed_script_elab env fuel s kw md name lb b rb rest hmd hname hlb hwf hrb hfuel
    scr imp s' hparse
  unfold elabE at hel
  split at hel
  · cases hel
  · rename_i stmts imp0 sid cid hl
    simp only [Except.ok.injEq, Prod.mk.injEq] at hel
    obtain ⟨_, hi, _⟩ := hel
    subst hi
    exact (elabL_imp env name.lit _ b _ _ true _ _ _ _ _ _ hl).1

theorem mem_items_of_census {env : Env} {sn : String} {imp : ImpData} {L : List SCmd}
    (h1 : imp.texts = L.flatMap (fun p => (p.1.imp env sn p.2).texts))
    (h2 : imp.movements = L.flatMap (fun p => (p.1.imp env sn p.2).movements)) (it : Item) :
    it ∈ itemsOf imp ↔ ∃ p ∈ L, it ∈ itemsOf (p.1.imp env sn p.2) := by
  cases it with
  | inl t => simp [itemsOf, h1, List.mem_flatMap]
  | inr m => simp [itemsOf, h2, List.mem_flatMap]

theorem mem_same_id : ∀ (L : List SCmd), (L.map (·.2)).Pairwise (· < ·) → ∀ p ∈ L, ∀ q ∈ L, p.2 = q.2 → p = q := by
  intro L
  induction L with
  | nil => intro _ p hp; cases hp
  | cons x r ih =>
    intro hpw p hp q hq he
    rw [List.map_cons] at hpw
    have hpw := List.pairwise_cons.1 hpw
    rcases List.mem_cons.1 hp with hp' | hp' <;> rcases List.mem_cons.1 hq with hq' | hq'
    · rw [hp', hq']
    · have := hpw.1 q.2 (List.mem_map.2 ⟨q, hq', rfl⟩); rw [hp'] at he; omega
    · have := hpw.1 p.2 (List.mem_map.2 ⟨p, hp', rfl⟩); rw [hq'] at he; omega
    · exact ih hpw.2 p hp' q hq' he

/-! ## 3. `AloneInArg` -/

/-- The single element of argument `i` of a written command, if that argument consists of ONE element. -/
def aloneElem (w : CmdM) (i : Nat) : Option MElem :=
  match w.argList[i]? with
  | some [e] => some e
  | _ => none

/-- **AloneInArg**: argument `i` of the written command exists and consists of exactly one element (one token,
one string literal, one typed string, one `format( … )`, one `moves( … )`). Decidable. F21: for an argument that
mixes an inline item with other elements the reference may be lost (`aloneInArg_needed`). -/
def AloneInArg (w : CmdM) (i : Nat) : Prop := (aloneElem w i).isSome = true

instance (w : CmdM) (i : Nat) : Decidable (AloneInArg w i) := inferInstanceAs (Decidable (_ = true))

theorem aloneElem_some {w : CmdM} {i : Nat} {e : MElem} (h : aloneElem w i = some e) : w.argList[i]? = some [e] := by
  unfold aloneElem at h
  split at h
  · cases h; assumption
  · cases h

theorem aloneInArg_iff (w : CmdM) (i : Nat) : AloneInArg w i ↔ ∃ e, w.argList[i]? = some [e] := by
  unfold AloneInArg
  constructor
  · intro h
    cases he : aloneElem w i with
    | none => rw [he] at h; cases h
    | some e => exact ⟨e, aloneElem_some he⟩
  · rintro ⟨e, he⟩
    unfold aloneElem
    rw [he]; rfl

/-- One element holds at most one inline item. -/
theorem impOfM_le_one (env : Env) (sn : String) (cid : Nat) (tok : Tok) (pos : Nat) (e : MElem) (x y : Item)
    (hx : x ∈ itemsOf (impOfM env sn cid tok pos e)) (hy : y ∈ itemsOf (impOfM env sn cid tok pos e)) : x = y := by
  cases e with
  | movesS mv lp items rp =>
    simp only [impOfM, movImp, itemsOf, List.map_nil, List.nil_append, List.map_cons, List.mem_singleton] at hx hy
    rw [hx, hy]
  | base ie =>
    cases ie with
    | fmt fm lp sty text P rp =>
      simp only [impOfM, impOfI, fmtImp, itemsOf, List.map_nil, List.append_nil, List.map_cons,
        List.mem_singleton] at hx hy
      rw [hx, hy]
    | base ae =>
      cases ae with
      | tok t => simp [impOfM, impOfI, impOf, itemsOf] at hx
      | str t =>
        simp only [impOfM, impOfI, impOf, itemsOf, List.map_nil, List.append_nil, List.map_cons,
          List.mem_singleton] at hx hy
        rw [hx, hy]
      | tstr ty t =>
        simp only [impOfM, impOfI, impOf, itemsOf, List.map_nil, List.append_nil, List.map_cons,
          List.mem_singleton] at hx hy
        rw [hx, hy]
      | moves mv lp items rp =>
        simp only [impOfM, impOfI, impOf, itemsOf, List.map_nil, List.nil_append, List.map_cons,
          List.mem_singleton] at hx hy
        rw [hx, hy]

/-! ## 4. The slot of an item written alone in its argument is written once in the script -/

/-- Within the script: every item the parser collected for the slot `(cid, i)` of the written command `(w, cid)`
comes from the single element `e` of argument `i`. -/
theorem script_slot_items (env : Env) (fuel : Nat) (s : PState) (kw : Tok) (md : TopParse.Mod)
    (name lb : Tok) (b : List SStmt) (rb : Tok)
    (rest : List Tok) (hmd : md.WF) (hname : name.type = .IDENT) (hlb : lb.type = .LBRACE) (hwf : SWF b)
    (hrb : rb.type = .RBRACE) (hfuel : needL b ≤ fuel)
    (scr : Script) (imp : ImpData) (s' : PState)
    (hparse : (parseScriptStatement env fuel).run
        (st s (kw :: (md.toks ++ name :: lb :: (printStmts b ++ rb :: rest)))) = .ok ((scr, imp), s'))
    (w : CmdM) (cid : Nat) (hw : (w, cid) ∈ surfaceCmds env b s.nextCmdId) (i : Nat) (e : MElem)
    (halone : aloneElem w i = some e) (it : Item) :
    (it ∈ itemsOf imp ∧ slotOf it = (cid, i)) ↔ it ∈ itemsOf (impOfM env name.lit cid w.name i e) := by
  obtain ⟨h1, h2⟩ := parsed_imp_census env fuel s kw md name lb b rb rest hmd hname hlb hwf hrb hfuel
    scr imp s' hparse
  have hal := aloneElem_some halone
  constructor
  · rintro ⟨hit, hs⟩
    obtain ⟨p, hp, hpi⟩ := (mem_items_of_census h1 h2 it).1 hit
    have hid := (imp_items_slot env name.lit p.2 p.1 it hpi).1
    rw [hs] at hid
    have : p = (w, cid) := mem_same_id _ (surfaceCmds_ids env b s.nextCmdId).2.1 p hp _ hw hid.symm
    subst this
    exact (imp_items_at env name.lit cid w i e hal it).1 ⟨hpi, by rw [hs]⟩
  · intro h
    obtain ⟨hm, hi⟩ := (imp_items_at env name.lit cid w i e hal it).2 h
    refine ⟨(mem_items_of_census h1 h2 it).2 ⟨(w, cid), hw, hm⟩, ?_⟩
    exact (impOfM_atSlot env name.lit cid w.name i e it h).1

/-! ## 5. written_item_referenced -/

/-- **written_item_referenced** (texts AND movements; `written_text_referenced` / `written_moves_referenced` are
its instances).  A script is parsed from its printed tokens; `(w, cid)` is one of its written commands; argument
`i` of `w` consists of the single element `e`; `it` is the inline item of `e` (its hoisted record: content with
terminator, string type / movement steps).  `sF` is ANY hoisting state whose item history contains the items of
this script (`HoistModel.Model`: what C06c proves of the state the program is read off), the other statements'
items having other command ids (C06c.`patches_of_distinct_statements_disjoint`).  Then: the last patch for the slot
`(cid, i)` carries a label that `Defines` the item (exactly one hoisted text / movement of that name, with exactly
that content and string type, local, no record of the other kind with that name), and the command rendered with
these patches shows that label at argument `i`. -/
theorem written_item_referenced (env : Env) (fuel : Nat) (s : PState) (kw : Tok) (md : TopParse.Mod)
    (name lb : Tok) (b : List SStmt) (rb : Tok)
    (rest : List Tok) (hmd : md.WF) (hname : name.type = .IDENT) (hlb : lb.type = .LBRACE) (hwf : SWF b)
    (hrb : rb.type = .RBRACE) (hfuel : needL b ≤ fuel)
    (scr : Script) (imp : ImpData) (s' : PState)
    (hparse : (parseScriptStatement env fuel).run
        (st s (kw :: (md.toks ++ name :: lb :: (printStmts b ++ rb :: rest)))) = .ok ((scr, imp), s'))
    (w : CmdM) (cid : Nat) (hw : (w, cid) ∈ surfaceCmds env b s.nextCmdId) (i : Nat) (e : MElem)
    (halone : aloneElem w i = some e) (it : Item) (hit : it ∈ itemsOf (impOfM env name.lit cid w.name i e))
    (sF : PState) (PF : List ImpText) (MF : List ImpMovement) (A Cc : List Item)
    (hmodel : Model sF PF MF (A ++ itemsOf imp ++ Cc)) (hother : ∀ x ∈ A ++ Cc, (slotOf x).1 ≠ cid) :
    ∃ label args, lastPatch sF.patches cid i = some label ∧
      Defines sF.inlineTexts sF.inlineMovements it label ∧
      renderCommand sF.patches (nd (substC s.constants) (w, cid)) = .command w.name.lit args ∧
      args[i]? = some label ∧ args.length = w.nargs := by
  have hslot : slotOf it = (cid, i) := (impOfM_atSlot env name.lit cid w.name i e it hit).1
  have hsi := script_slot_items env fuel s kw md name lb b rb rest hmd hname hlb hwf hrb hfuel scr imp s' hparse
    w cid hw i e halone
  have hmem : it ∈ A ++ itemsOf imp ++ Cc :=
    List.mem_append_left _ (List.mem_append_right _ ((hsi it).2 hit).1)
  obtain ⟨hlen, hpt⟩ := model_patches hmodel
  obtain ⟨label, hl, hd⟩ := last_patch_of_unique_slot sF.patches _ hlen hpt it hmem (by
    intro it' hit' hs'
    rw [hslot] at hs'
    rcases List.mem_append.1 hit' with h | h
    · rcases List.mem_append.1 h with h | h
      · exact absurd (by rw [hs']) (hother it' (List.mem_append_left _ h))
      · exact impOfM_le_one env name.lit cid w.name i e _ _ ((hsi it').1 ⟨h, hs'⟩) hit
    · exact absurd (by rw [hs']) (hother it' (List.mem_append_right _ h)))
  rw [hslot] at hl
  have hilt : i < (nd (substC s.constants) (w, cid)).args.length := by
    show i < (w.node (substC s.constants) cid).args.length
    rw [node_args_length]
    have hal := aloneElem_some halone
    rcases Nat.lt_or_ge i w.argList.length with h | h
    · exact h
    · rw [List.getElem?_eq_none h] at hal; cases hal
  refine ⟨label, patchedArgs sF.patches (nd (substC s.constants) (w, cid)), hl, hd, rfl, ?_, ?_⟩
  · rw [patchedArgs_get _ _ _ hilt]
    show some ((lastPatch sF.patches cid i).getD _) = _
    rw [hl]; rfl
  · rw [patchedArgs_length]
    exact node_args_length _ _ _

/-- The inline item of a string literal / typed string / inline `format( … )` / `moves( … )` element, spelled out
(content with the terminator of C09, string type; for `moves` the expanded steps). -/
theorem item_of_str (env : Env) (sn : String) (cid : Nat) (tok : Tok) (i : Nat) (t : Tok) :
    itemsOf (impOfM env sn cid tok i (.base (.base (.str t)))) =
      [.inl { cmdId := cid, argPos := i, text := { t with lit := formatTextTerminator t.lit "" },
              stringType := "", scriptName := sn }] := rfl
theorem item_of_tstr (env : Env) (sn : String) (cid : Nat) (tok : Tok) (i : Nat) (ty t : Tok) :
    itemsOf (impOfM env sn cid tok i (.base (.base (.tstr ty t)))) =
      [.inl { cmdId := cid, argPos := i, text := { t with lit := formatTextTerminator t.lit ty.lit },
              stringType := ty.lit, scriptName := sn }] := rfl
theorem item_of_fmt (env : Env) (sn : String) (cid : Nat) (tok : Tok) (i : Nat) (fm lp : Tok) (sty : Option Tok)
    (text : Tok) (P : C07b.Params) (rp : Tok) :
    itemsOf (impOfM env sn cid tok i (.base (.fmt fm lp sty text P rp))) =
      [.inl { cmdId := cid, argPos := i,
              text := { text with lit := formatTextTerminator (rawD env (.format fm lp sty text P rp)) (C07b.styLit sty) },
              stringType := C07b.styLit sty, scriptName := sn }] := rfl
theorem item_of_moves (env : Env) (sn : String) (cid : Nat) (tok : Tok) (i : Nat) (mv lp : Tok)
    (items : List C14b.Item) (rp : Tok) :
    itemsOf (impOfM env sn cid tok i (.base (.base (.moves mv lp items rp)))) =
      [.inr { cmdId := cid, cmdTok := tok, argPos := i, movements := (C14b.expand items).getD [], scriptName := sn }] :=
  rfl
theorem item_of_movesS (env : Env) (sn : String) (cid : Nat) (tok : Tok) (i : Nat) (mv lp : Tok)
    (items : C14b.Items) (rp : Tok) :
    itemsOf (impOfM env sn cid tok i (.movesS mv lp items rp)) =
      [.inr { cmdId := cid, cmdTok := tok, argPos := i, movements := stepsD env items, scriptName := sn }] := rfl

/-- **written_text_referenced** — the instance for a string literal `"…"` written alone in argument `i`: the
rendered command shows at `i` the name of exactly one hoisted text; its value is the literal with the terminator
`$` appended (C09), its string type is empty, it is local. -/
theorem written_text_referenced (env : Env) (fuel : Nat) (s : PState) (kw : Tok) (md : TopParse.Mod)
    (name lb : Tok) (b : List SStmt) (rb : Tok)
    (rest : List Tok) (hmd : md.WF) (hname : name.type = .IDENT) (hlb : lb.type = .LBRACE) (hwf : SWF b)
    (hrb : rb.type = .RBRACE) (hfuel : needL b ≤ fuel)
    (scr : Script) (imp : ImpData) (s' : PState)
    (hparse : (parseScriptStatement env fuel).run
        (st s (kw :: (md.toks ++ name :: lb :: (printStmts b ++ rb :: rest)))) = .ok ((scr, imp), s'))
    (w : CmdM) (cid : Nat) (hw : (w, cid) ∈ surfaceCmds env b s.nextCmdId) (i : Nat) (t : Tok)
    (halone : aloneElem w i = some (.base (.base (.str t))))
    (sF : PState) (PF : List ImpText) (MF : List ImpMovement) (A Cc : List Item)
    (hmodel : Model sF PF MF (A ++ itemsOf imp ++ Cc)) (hother : ∀ x ∈ A ++ Cc, (slotOf x).1 ≠ cid) :
    ∃ label args x, renderCommand sF.patches (nd (substC s.constants) (w, cid)) = .command w.name.lit args ∧
      args[i]? = some label ∧ x ∈ sF.inlineTexts ∧ x.name = label ∧
      x.value = formatTextTerminator t.lit "" ∧ x.stringType = "" ∧ x.isGlobal = false ∧
      (∀ y ∈ sF.inlineTexts, y.name = label → y = x) ∧ (∀ m ∈ sF.inlineMovements, m.name ≠ label) := by
  obtain ⟨label, args, -, hd, hr, ha, -⟩ := written_item_referenced env fuel s kw md name lb b rb rest hmd hname
    hlb hwf hrb hfuel scr imp s' hparse w cid hw i _ halone _
    (by rw [item_of_str]; exact List.mem_singleton.2 rfl) sF PF MF A Cc hmodel hother
  obtain ⟨⟨x, hx, h1, h2, h3, h4, h5⟩, h6⟩ := hd
  exact ⟨label, args, x, hr, ha, hx, h1, h2, h3, h4, h5, h6⟩

/-- **written_moves_referenced** — the instance for `moves( … )` written alone in argument `i`. -/
theorem written_moves_referenced (env : Env) (fuel : Nat) (s : PState) (kw : Tok) (md : TopParse.Mod)
    (name lb : Tok) (b : List SStmt) (rb : Tok)
    (rest : List Tok) (hmd : md.WF) (hname : name.type = .IDENT) (hlb : lb.type = .LBRACE) (hwf : SWF b)
    (hrb : rb.type = .RBRACE) (hfuel : needL b ≤ fuel)
    (scr : Script) (imp : ImpData) (s' : PState)
    (hparse : (parseScriptStatement env fuel).run
        (st s (kw :: (md.toks ++ name :: lb :: (printStmts b ++ rb :: rest)))) = .ok ((scr, imp), s'))
    (w : CmdM) (cid : Nat) (hw : (w, cid) ∈ surfaceCmds env b s.nextCmdId) (i : Nat) (mv lp : Tok)
    (items : List C14b.Item) (rp : Tok)
    (halone : aloneElem w i = some (.base (.base (.moves mv lp items rp))))
    (sF : PState) (PF : List ImpText) (MF : List ImpMovement) (A Cc : List Item)
    (hmodel : Model sF PF MF (A ++ itemsOf imp ++ Cc)) (hother : ∀ x ∈ A ++ Cc, (slotOf x).1 ≠ cid) :
    ∃ label args x, renderCommand sF.patches (nd (substC s.constants) (w, cid)) = .command w.name.lit args ∧
      args[i]? = some label ∧ x ∈ sF.inlineMovements ∧ x.name = label ∧
      getMovementsKey x.cmds = getMovementsKey ((C14b.expand items).getD []) ∧ x.scope = .LOCAL ∧
      (∀ y ∈ sF.inlineMovements, y.name = label → y = x) ∧ (∀ y ∈ sF.inlineTexts, y.name ≠ label) := by
  obtain ⟨label, args, -, hd, hr, ha, -⟩ := written_item_referenced env fuel s kw md name lb b rb rest hmd hname
    hlb hwf hrb hfuel scr imp s' hparse w cid hw i _ halone _
    (by rw [item_of_moves]; exact List.mem_singleton.2 rfl) sF PF MF A Cc hmodel hother
  obtain ⟨⟨x, hx, h1, h2, h3, h4⟩, h5⟩ := hd
  exact ⟨label, args, x, hr, ha, hx, h1, h2, h3, h4, h5⟩

/-- The patched line is in the output of `emitScript` (unless the command is a block-final `end` / `return`,
which the emitter absorbs: C10d). -/
theorem written_line_emitted (env : Env) (o : Opts) (patches : List ((Nat × Nat) × String)) (tl : List String)
    (fuel : Nat) (s : PState) (kw : Tok) (md : TopParse.Mod) (name lb : Tok) (b : List SStmt)
    (rb : Tok) (rest : List Tok) (hmd : md.WF) (hname : name.type = .IDENT) (hlb : lb.type = .LBRACE)
    (hwf : SWF b) (hrb : rb.type = .RBRACE) (hfuel : needL b ≤ fuel)
    (scr : Script) (imp : ImpData) (s' : PState)
    (hparse : (parseScriptStatement env fuel).run
        (st s (kw :: (md.toks ++ name :: lb :: (printStmts b ++ rb :: rest)))) = .ok ((scr, imp), s'))
    (ls : List Line) (hemit : emitScript o patches tl scr = .ok ls)
    (w : CmdM) (cid : Nat) (hw : (w, cid) ∈ surfaceCmds env b s.nextCmdId)
    (hterm : isTerm (nd (substC s.constants) (w, cid)) = false) :
    renderCommand patches (nd (substC s.constants) (w, cid)) ∈ ls :=
  no_written_command_dropped env o patches tl fuel s kw md name lb b rb rest hmd hname hlb hwf hrb hfuel scr imp s'
    hparse ls hemit (w, cid) hw hterm

/-! ## 6. Equal content shares one label, different content never does (source vocabulary) -/

/-- **labels_iff** for two inline texts written alone in arguments of two written commands of one script: the
labels shown in the two rendered commands are equal IFF content (with terminator) and string type are equal. -/
theorem written_text_labels_iff (env : Env) (fuel : Nat) (s : PState) (kw : Tok) (md : TopParse.Mod)
    (name lb : Tok) (b : List SStmt) (rb : Tok)
    (rest : List Tok) (hmd : md.WF) (hname : name.type = .IDENT) (hlb : lb.type = .LBRACE) (hwf : SWF b)
    (hrb : rb.type = .RBRACE) (hfuel : needL b ≤ fuel)
    (scr : Script) (imp : ImpData) (s' : PState)
    (hparse : (parseScriptStatement env fuel).run
        (st s (kw :: (md.toks ++ name :: lb :: (printStmts b ++ rb :: rest)))) = .ok ((scr, imp), s'))
    (w1 w2 : CmdM) (c1 c2 : Nat) (hw1 : (w1, c1) ∈ surfaceCmds env b s.nextCmdId)
    (hw2 : (w2, c2) ∈ surfaceCmds env b s.nextCmdId) (i1 i2 : Nat) (e1 e2 : MElem)
    (ha1 : aloneElem w1 i1 = some e1) (ha2 : aloneElem w2 i2 = some e2) (t1 t2 : ImpText)
    (ht1 : .inl t1 ∈ itemsOf (impOfM env name.lit c1 w1.name i1 e1))
    (ht2 : .inl t2 ∈ itemsOf (impOfM env name.lit c2 w2.name i2 e2))
    (sF : PState) (PF : List ImpText) (MF : List ImpMovement) (A Cc : List Item)
    (hmodel : Model sF PF MF (A ++ itemsOf imp ++ Cc))
    (hother : ∀ x ∈ A ++ Cc, (slotOf x).1 ≠ c1 ∧ (slotOf x).1 ≠ c2)
    (l1 l2 : String) (hl1 : lastPatch sF.patches c1 i1 = some l1) (hl2 : lastPatch sF.patches c2 i2 = some l2) :
    l1 = l2 ↔ (t1.text.lit = t2.text.lit ∧ t1.stringType = t2.stringType) := by
  obtain ⟨l1', _, hl1', hd1, -⟩ := written_item_referenced env fuel s kw md name lb b rb rest hmd hname
    hlb hwf hrb hfuel scr imp s' hparse w1 c1 hw1 i1 e1 ha1 _ ht1 sF PF MF A Cc hmodel
    (fun x hx => (hother x hx).1)
  obtain ⟨l2', _, hl2', hd2, -⟩ := written_item_referenced env fuel s kw md name lb b rb rest hmd hname
    hlb hwf hrb hfuel scr imp s' hparse w2 c2 hw2 i2 e2 ha2 _ ht2 sF PF MF A Cc hmodel
    (fun x hx => (hother x hx).2)
  rw [hl1] at hl1'
  rw [hl2] at hl2'
  cases hl1'
  cases hl2'
  have hk : (sF.inlineTexts.map (fun x => (x.value, x.stringType))).Nodup := by
    rw [model_inlineTexts hmodel]; exact hoistedTexts_keys_nodup _
  rw [defines_text_label_iff hk hd1 hd2]
  simp [keyOf]

/-- **equal_content_shares_label.** -/
theorem equal_content_shares_label (env : Env) (fuel : Nat) (s : PState) (kw : Tok) (md : TopParse.Mod)
    (name lb : Tok) (b : List SStmt) (rb : Tok)
    (rest : List Tok) (hmd : md.WF) (hname : name.type = .IDENT) (hlb : lb.type = .LBRACE) (hwf : SWF b)
    (hrb : rb.type = .RBRACE) (hfuel : needL b ≤ fuel)
    (scr : Script) (imp : ImpData) (s' : PState)
    (hparse : (parseScriptStatement env fuel).run
        (st s (kw :: (md.toks ++ name :: lb :: (printStmts b ++ rb :: rest)))) = .ok ((scr, imp), s'))
    (w1 w2 : CmdM) (c1 c2 : Nat) (hw1 : (w1, c1) ∈ surfaceCmds env b s.nextCmdId)
    (hw2 : (w2, c2) ∈ surfaceCmds env b s.nextCmdId) (i1 i2 : Nat) (e1 e2 : MElem)
    (ha1 : aloneElem w1 i1 = some e1) (ha2 : aloneElem w2 i2 = some e2) (t1 t2 : ImpText)
    (ht1 : .inl t1 ∈ itemsOf (impOfM env name.lit c1 w1.name i1 e1))
    (ht2 : .inl t2 ∈ itemsOf (impOfM env name.lit c2 w2.name i2 e2))
    (sF : PState) (PF : List ImpText) (MF : List ImpMovement) (A Cc : List Item)
    (hmodel : Model sF PF MF (A ++ itemsOf imp ++ Cc))
    (hother : ∀ x ∈ A ++ Cc, (slotOf x).1 ≠ c1 ∧ (slotOf x).1 ≠ c2)
    (l1 l2 : String) (hl1 : lastPatch sF.patches c1 i1 = some l1) (hl2 : lastPatch sF.patches c2 i2 = some l2)
    (hc : t1.text.lit = t2.text.lit) (hty : t1.stringType = t2.stringType) : l1 = l2 :=
  (written_text_labels_iff env fuel s kw md name lb b rb rest hmd hname hlb hwf hrb hfuel scr imp s' hparse
    w1 w2 c1 c2 hw1 hw2 i1 i2 e1 e2 ha1 ha2 t1 t2 ht1 ht2 sF PF MF A Cc hmodel hother l1 l2 hl1 hl2).2 ⟨hc, hty⟩

/-- **different_content_different_label.** -/
theorem different_content_different_label (env : Env) (fuel : Nat) (s : PState) (kw : Tok) (md : TopParse.Mod)
    (name lb : Tok) (b : List SStmt) (rb : Tok)
    (rest : List Tok) (hmd : md.WF) (hname : name.type = .IDENT) (hlb : lb.type = .LBRACE) (hwf : SWF b)
    (hrb : rb.type = .RBRACE) (hfuel : needL b ≤ fuel)
    (scr : Script) (imp : ImpData) (s' : PState)
    (hparse : (parseScriptStatement env fuel).run
        (st s (kw :: (md.toks ++ name :: lb :: (printStmts b ++ rb :: rest)))) = .ok ((scr, imp), s'))
    (w1 w2 : CmdM) (c1 c2 : Nat) (hw1 : (w1, c1) ∈ surfaceCmds env b s.nextCmdId)
    (hw2 : (w2, c2) ∈ surfaceCmds env b s.nextCmdId) (i1 i2 : Nat) (e1 e2 : MElem)
    (ha1 : aloneElem w1 i1 = some e1) (ha2 : aloneElem w2 i2 = some e2) (t1 t2 : ImpText)
    (ht1 : .inl t1 ∈ itemsOf (impOfM env name.lit c1 w1.name i1 e1))
    (ht2 : .inl t2 ∈ itemsOf (impOfM env name.lit c2 w2.name i2 e2))
    (sF : PState) (PF : List ImpText) (MF : List ImpMovement) (A Cc : List Item)
    (hmodel : Model sF PF MF (A ++ itemsOf imp ++ Cc))
    (hother : ∀ x ∈ A ++ Cc, (slotOf x).1 ≠ c1 ∧ (slotOf x).1 ≠ c2)
    (l1 l2 : String) (hl1 : lastPatch sF.patches c1 i1 = some l1) (hl2 : lastPatch sF.patches c2 i2 = some l2)
    (hne : t1.text.lit ≠ t2.text.lit ∨ t1.stringType ≠ t2.stringType) : l1 ≠ l2 := by
  intro h
  have := (written_text_labels_iff env fuel s kw md name lb b rb rest hmd hname hlb hwf hrb hfuel scr imp s' hparse
    w1 w2 c1 c2 hw1 hw2 i1 i2 e1 e2 ha1 ha2 t1 t2 ht1 ht2 sF PF MF A Cc hmodel hother l1 l2 hl1 hl2).1 h
  rcases hne with h' | h'
  · exact h' this.1
  · exact h' this.2

/-! ## 7. In a whole parsed file -/

theorem histItems_split (Hpre Hpost : List ImpData) (imp : ImpData) :
    histItems (Hpre ++ imp :: Hpost) = histItems Hpre ++ itemsOf imp ++ histItems Hpost := by
  simp [histItems, List.flatMap_append, List.flatMap_cons]

/-- The items of the other top-level statements of a file have other command ids than the items of this one
(from `C06c.patches_of_distinct_statements_disjoint`). -/
theorem other_statements_other_ids (env : Env) (toks : List Tok) (Hpre Hpost : List ImpData) (imp : ImpData)
    (hcol : collected env toks = Hpre ++ imp :: Hpost) (it : Item) (hit : it ∈ itemsOf imp) :
    ∀ x ∈ histItems Hpre ++ histItems Hpost, (slotOf x).1 ≠ (slotOf it).1 := by
  have hsep := patches_of_distinct_statements_disjoint env toks
  rw [hcol] at hsep
  unfold Separated at hsep
  obtain ⟨-, h2, h3⟩ := List.pairwise_append.1 hsep
  have h2 := List.pairwise_cons.1 h2
  intro x hx
  rcases List.mem_append.1 hx with hx | hx
  · obtain ⟨d, hd, hxd⟩ := List.mem_flatMap.1 hx
    have := h3 d hd imp (List.mem_cons_self) x hxd it hit
    omega
  · obtain ⟨d, hd, hxd⟩ := List.mem_flatMap.1 hx
    have := h2.1 d hd it hit x hxd
    omega

/-- **written_item_referenced_file**: the script is one of the top-level statements of a file `toks` that
`parseTokens` accepts with program `p` (hypothesis `hcol`: its implicit data is one of the `collected` ones, see the
header for what links `hcol` to the token list).  Then with the patches `p.patches` of the parsed program: the
command rendered by the emitter shows at argument `i` the label that the LAST patch for `(cid, i)` carries, and
that label names exactly one hoisted text / movement of `p` with the written content. -/
theorem written_item_referenced_file (env : Env) (fuel : Nat) (s : PState) (kw : Tok) (md : TopParse.Mod)
    (name lb : Tok) (b : List SStmt) (rb : Tok)
    (rest : List Tok) (hmd : md.WF) (hname : name.type = .IDENT) (hlb : lb.type = .LBRACE) (hwf : SWF b)
    (hrb : rb.type = .RBRACE) (hfuel : needL b ≤ fuel)
    (scr : Script) (imp : ImpData) (s' : PState)
    (hparse : (parseScriptStatement env fuel).run
        (st s (kw :: (md.toks ++ name :: lb :: (printStmts b ++ rb :: rest)))) = .ok ((scr, imp), s'))
    (w : CmdM) (cid : Nat) (hw : (w, cid) ∈ surfaceCmds env b s.nextCmdId) (i : Nat) (e : MElem)
    (halone : aloneElem w i = some e) (it : Item) (hit : it ∈ itemsOf (impOfM env name.lit cid w.name i e))
    (toks : List Tok) (p : Program) (hp : parseTokens env toks = .ok p) (Hpre Hpost : List ImpData)
    (hcol : collected env toks = Hpre ++ imp :: Hpost) :
    ∃ label args, lastPatch p.patches cid i = some label ∧
      Defines (hoistedTexts (inlineTextsOf env toks)) (hoistedMoves (inlineMovesOf env toks)) it label ∧
      renderCommand p.patches (nd (substC s.constants) (w, cid)) = .command w.name.lit args ∧
      args[i]? = some label ∧ args.length = w.nargs ∧
      ∃ tops, p.texts = hoistedTexts (inlineTextsOf env toks) ++ textsOf tops ∧
        p.tops = tops ++ (hoistedMoves (inlineMovesOf env toks)).map Top.movement := by
  obtain ⟨sF, tops, hm, h1, h2, h3⟩ := parseTokens_model env toks p hp
  have hitems : inlineItemsOf env toks = histItems Hpre ++ itemsOf imp ++ histItems Hpost := by
    unfold inlineItemsOf; rw [hcol, histItems_split]
  rw [hitems] at hm
  have hslot : slotOf it = (cid, i) := (impOfM_atSlot env name.lit cid w.name i e it hit).1
  have hin : it ∈ itemsOf imp :=
    ((script_slot_items env fuel s kw md name lb b rb rest hmd hname hlb hwf hrb hfuel scr imp s' hparse
      w cid hw i e halone it).2 hit).1
  have hother := other_statements_other_ids env toks Hpre Hpost imp hcol it hin
  rw [hslot] at hother
  obtain ⟨label, args, hl, hd, hr, ha, hlen⟩ := written_item_referenced env fuel s kw md name lb b rb rest hmd
    hname hlb hwf hrb hfuel scr imp s' hparse w cid hw i e halone it hit sF _ _ _ _ hm hother
  rw [model_inlineTexts hm, model_inlineMovements hm] at hd
  rw [← h3] at hl hr
  exact ⟨label, args, hl, hd, hr, ha, hlen, tops, by rw [h1, model_inlineTexts hm],
    by rw [h2, model_inlineMovements hm]⟩

/-! ## Non-vacuity -/
section Example

private def lp : Tok := C02P.tk .LPAREN "("
private def rp : Tok := C02P.tk .RPAREN ")"
private def lb : Tok := C02P.tk .LBRACE "{"
private def rb : Tok := C02P.tk .RBRACE "}"
private def comma : Tok := C02P.tk .COMMA ","

def strE (l : String) : MElem := .base (.base (.str (C02P.tk .STRING l)))
def asciiE (l : String) : MElem := .base (.base (.tstr (C02P.tk .STRINGTYPE "ascii") (C02P.tk .STRING l)))
def movesE : MElem :=
  .base (.base (.moves (C02P.tk .MOVES "moves") lp [.stepMul (C02P.tk .IDENT "walk_up") (C02P.tk .MUL "*") (C02P.tk .INT "2")] rp))
/-- `msgbox("hi")` -/
def msgHi : CmdM := .args (C02P.tk .IDENT "msgbox") lp [strE "hi"] [] rp
/-- `msgbox(ascii"hi")` -/
def msgAscii : CmdM := .args (C02P.tk .IDENT "msgbox") lp [asciiE "hi"] [] rp
/-- `applymovement(1, moves(walk_up * 2))` -/
def applyMv : CmdM :=
  .args (C02P.tk .IDENT "applymovement") lp [.base (.base (.tok (C02P.tk .INT "1")))] [(comma, [movesE])] rp
/-- F21's witness `msgbox("a" ascii"b")`: two inline texts in ONE argument -/
def msgTwo : CmdM := .args (C02P.tk .IDENT "msgbox") lp [strE "a", asciiE "b"] [] rp

/-- `flag(1)` -/
def exCond : SCond := .one (.one (.leaf (.kw ⟨none, C02P.tk .FLAG "flag", lp, C02P.tk .INT "1", [], rp, .none⟩)))

/-- `msgbox("hi") if (flag(1)) { applymovement(1, moves(walk_up * 2)) msgbox("hi") msgbox(ascii"hi") }` -/
def exBody : List SStmt :=
  [.cmd msgHi, .ite (C02P.tk .IF "if") lp exCond rp lb [.cmd applyMv, .cmd msgHi, .cmd msgAscii] rb [] .none]

-- sanity check (evaluation, not a proof): the printed tokens are what the model lexer produces
#guard (Lexer.lexAll ("msgbox(\"hi\") if (flag(1)) { applymovement(1, moves(walk_up * 2)) msgbox(\"hi\") " ++
    "msgbox(ascii\"hi\") } }").toList).map (fun t => (t.type, t.lit)) ==
  (printStmts exBody ++ [rb, C02P.tk .EOF ""]).map (fun t => (t.type, t.lit))

theorem exBody_wf : SWF exBody := by decide

def exState : PState := { toks := [], eof := C02P.tk .EOF "", nextCmdId := 3 }
def exToks : List Tok := C02P.tk .SCRIPT "script" :: C02P.tk .IDENT "S" :: lb :: (printStmts exBody ++ [rb])

/-- the written commands with their ids -/
theorem ex_surface : surfaceCmds {} exBody 3 = [(msgHi, 3), (applyMv, 4), (msgHi, 5), (msgAscii, 6)] := rfl

/-- the state in which the hoisting pass of the example starts (nothing hoisted yet) -/
def s0 : PState := { toks := [], eof := C02P.tk .EOF "" }

/-- **Non-vacuity by evaluation of the model**: parse, hoist, emit.  Patches, hoisted texts, hoisted movements: -/
theorem ex_hoist_decide :
    ((parseScriptStatement {} 200).run (st exState exToks)).toOption.map (fun r => (stepData s0 r.1.2).patches) =
      some [((3, 0), "S_Text_0"), ((5, 0), "S_Text_0"), ((6, 0), "S_Text_1"), ((4, 1), "S_Movement_0")] ∧
    ((parseScriptStatement {} 200).run (st exState exToks)).toOption.map (fun r =>
      (stepData s0 r.1.2).inlineTexts.map (fun x => (x.name, x.value, x.stringType))) =
      some [("S_Text_0", "hi$", ""), ("S_Text_1", "hi\\0", "ascii")] ∧
    ((parseScriptStatement {} 200).run (st exState exToks)).toOption.map (fun r =>
      (stepData s0 r.1.2).inlineMovements.map (fun x => (x.name, x.cmds.map (·.lit)))) =
      some [("S_Movement_0", ["walk_up", "walk_up"])] := by
  refine ⟨by decide, by decide, by decide⟩

/-- … and the command lines `emitScript` renders with these patches. -/
theorem ex_lines_decide :
    ((parseScriptStatement {} 200).run (st exState exToks)).toOption.bind (fun r =>
      (emitScript { optimize := false } (stepData s0 r.1.2).patches [] r.1.1).toOption.map cmdLinesOf) =
    some [.command "msgbox" ["S_Text_0"], .command "applymovement" ["1", "S_Movement_0"],
          .command "msgbox" ["S_Text_0"], .command "msgbox" ["S_Text_1"]] := by decide

/-- the parser accepts the example (any fuel ≥ 200) -/
theorem ex_parse_ok (fuel : Nat) (hf : 200 ≤ fuel) :
    ∃ scr imp s', (parseScriptStatement {} fuel).run (st exState exToks) = .ok ((scr, imp), s') := by
  have hs : (elaborate {} "S" (ctxOf exState) exBody).isSome = true := by decide
  cases h : elaborate {} "S" (ctxOf exState) exBody with
  | none => rw [h] at hs; cases hs
  | some r =>
    obtain ⟨stmts, imp, c'⟩ := r
    exact ⟨_, _, _, parse_script_print {} fuel exState (C02P.tk .SCRIPT "script") .absent (C02P.tk .IDENT "S") lb
      exBody rb [] trivial rfl rfl exBody_wf rfl (Nat.le_trans (by decide) hf) stmts imp c' h⟩

theorem ex_model (imp : ImpData) : Model (stepData s0 imp) imp.texts imp.movements ([] ++ itemsOf imp ++ []) := by
  have := model_stepData imp (model_init [] (C02P.tk .EOF ""))
  unfold s0
  simpa using this

/-- **Non-vacuity by the theorems**: whatever the parser returns on these tokens (any sufficient fuel): the ids
are distinct, the second `msgbox("hi")` (id 5) shows the label of a hoisted text `hi$`, `applymovement` (id 4) shows
at argument 1 the label of a hoisted movement `walk_up walk_up`. -/
example (fuel : Nat) (hf : 200 ≤ fuel) (scr : Script) (imp : ImpData) (s' : PState)
    (hparse : (parseScriptStatement {} fuel).run (st exState exToks) = .ok ((scr, imp), s')) :
    (cmdsOf scr.body).map (·.id) = [3, 4, 5, 6] ∧
    (∃ label args x, renderCommand (stepData s0 imp).patches (nd (substC exState.constants) (msgHi, 5)) =
        .command "msgbox" args ∧ args[0]? = some label ∧ x ∈ (stepData s0 imp).inlineTexts ∧ x.name = label ∧
        x.value = "hi$" ∧ x.stringType = "") ∧
    (∃ label args x, renderCommand (stepData s0 imp).patches (nd (substC exState.constants) (applyMv, 4)) =
        .command "applymovement" args ∧ args[1]? = some label ∧ x ∈ (stepData s0 imp).inlineMovements ∧
        x.name = label ∧ getMovementsKey x.cmds = "walk_up:walk_up:") := by
  have hfu : needL exBody ≤ fuel := Nat.le_trans (by decide) hf
  refine ⟨?_, ?_, ?_⟩
  · rw [(parsed_command_ids_distinct {} fuel exState (C02P.tk .SCRIPT "script") .absent (C02P.tk .IDENT "S") lb
      exBody rb [] trivial rfl rfl exBody_wf rfl hfu scr imp s' hparse).1]
    rfl
  · obtain ⟨label, args, x, h1, h2, h3, h4, h5, h6, -⟩ := written_text_referenced {} fuel exState
      (C02P.tk .SCRIPT "script") .absent (C02P.tk .IDENT "S") lb exBody rb [] trivial rfl rfl exBody_wf rfl hfu
      scr imp s' hparse msgHi 5 (by rw [show exState.nextCmdId = 3 from rfl, ex_surface]; simp) 0
      (C02P.tk .STRING "hi") rfl (stepData s0 imp) _ _ [] [] (ex_model imp) (by simp)
    exact ⟨label, args, x, h1, h2, h3, h4, by rw [h5]; decide, h6⟩
  · obtain ⟨label, args, x, h1, h2, h3, h4, h5, -⟩ := written_moves_referenced {} fuel exState
      (C02P.tk .SCRIPT "script") .absent (C02P.tk .IDENT "S") lb exBody rb [] trivial rfl rfl exBody_wf rfl hfu
      scr imp s' hparse applyMv 4 (by rw [show exState.nextCmdId = 3 from rfl, ex_surface]; simp) 1
      (C02P.tk .MOVES "moves") lp [.stepMul (C02P.tk .IDENT "walk_up") (C02P.tk .MUL "*") (C02P.tk .INT "2")] rp rfl
      (stepData s0 imp) _ _ [] [] (ex_model imp) (by simp)
    exact ⟨label, args, x, h1, h2, h3, h4, by rw [h5]; decide⟩

def hiItem (cid : Nat) : ImpText :=
  { cmdId := cid, argPos := 0, text := { C02P.tk .STRING "hi" with lit := formatTextTerminator "hi" "" },
    stringType := "", scriptName := "S" }
def asciiItem (cid : Nat) : ImpText :=
  { cmdId := cid, argPos := 0, text := { C02P.tk .STRING "hi" with lit := formatTextTerminator "hi" "ascii" },
    stringType := "ascii", scriptName := "S" }

/-- equal content shares the label (`msgbox("hi")` twice: ids 3 and 5), a different string type does not
(`msgbox(ascii"hi")`: id 6) — by the theorems. -/
example (fuel : Nat) (hf : 200 ≤ fuel) (scr : Script) (imp : ImpData) (s' : PState)
    (hparse : (parseScriptStatement {} fuel).run (st exState exToks) = .ok ((scr, imp), s'))
    (l3 l5 l6 : String) (h3 : lastPatch (stepData s0 imp).patches 3 0 = some l3)
    (h5 : lastPatch (stepData s0 imp).patches 5 0 = some l5)
    (h6 : lastPatch (stepData s0 imp).patches 6 0 = some l6) : l3 = l5 ∧ l5 ≠ l6 := by
  have hfu : needL exBody ≤ fuel := Nat.le_trans (by decide) hf
  have hm3 : (msgHi, 3) ∈ surfaceCmds {} exBody exState.nextCmdId := by
    rw [show exState.nextCmdId = 3 from rfl, ex_surface]; simp
  have hm5 : (msgHi, 5) ∈ surfaceCmds {} exBody exState.nextCmdId := by
    rw [show exState.nextCmdId = 3 from rfl, ex_surface]; simp
  have hm6 : (msgAscii, 6) ∈ surfaceCmds {} exBody exState.nextCmdId := by
    rw [show exState.nextCmdId = 3 from rfl, ex_surface]; simp
  constructor
  · exact equal_content_shares_label {} fuel exState (C02P.tk .SCRIPT "script") .absent (C02P.tk .IDENT "S") lb
      exBody rb [] trivial rfl rfl exBody_wf rfl hfu scr imp s' hparse msgHi msgHi 3 5 hm3 hm5 0 0 _ _ rfl rfl (hiItem 3) (hiItem 5)
      List.mem_cons_self List.mem_cons_self
      (stepData s0 imp) _ _ [] [] (ex_model imp) (by simp) l3 l5 h3 h5 rfl rfl
  · exact different_content_different_label {} fuel exState (C02P.tk .SCRIPT "script") .absent
      (C02P.tk .IDENT "S") lb exBody rb [] trivial rfl rfl exBody_wf rfl hfu scr imp s' hparse msgHi msgAscii 5 6
      hm5 hm6 0 0 _ _ rfl rfl (hiItem 5) (asciiItem 6)
      List.mem_cons_self List.mem_cons_self
      (stepData s0 imp) _ _ [] [] (ex_model imp) (by simp) l5 l6 h5 h6 (Or.inr (by decide))

/-! ### F21: `AloneInArg` is needed -/

/-- the single argument of `msgbox("a" ascii"b")` is not one element -/
theorem msgTwo_not_alone : ¬ AloneInArg msgTwo 0 := by decide

/-- the first inline text of `msgbox("a" ascii"b")` -/
def itemA : Item := .inl { cmdId := 0, argPos := 0, text := { C02P.tk .STRING "a" with lit := "a$" },
                           stringType := "", scriptName := "S" }

/-- **aloneInArg_needed** (finding F21 on its witness): `"a"` IS an inline text of argument 0 of the written
command, both texts are hoisted (`S_Text_0` = `a$`, `S_Text_1` = `b\0` ascii), both patches have the slot `(0, 0)`,
the rendered command shows `S_Text_1` only — so NO label shown at argument 0 defines the text `a$`: the conclusion
of `written_item_referenced` fails without `AloneInArg`. -/
theorem aloneInArg_needed :
    itemA ∈ itemsOf (msgTwo.imp {} "S" 0) ∧
    (itemsOf (msgTwo.imp {} "S" 0)).map slotOf = [(0, 0), (0, 0)] ∧
    (stepData s0 (msgTwo.imp {} "S" 0)).inlineTexts.map (fun x => (x.name, x.value, x.stringType)) =
      [("S_Text_0", "a$", ""), ("S_Text_1", "b\\0", "ascii")] ∧
    renderCommand (stepData s0 (msgTwo.imp {} "S" 0)).patches (msgTwo.node id 0) = .command "msgbox" ["S_Text_1"] ∧
    ¬ ∃ label, lastPatch (stepData s0 (msgTwo.imp {} "S" 0)).patches 0 0 = some label ∧
        Defines (stepData s0 (msgTwo.imp {} "S" 0)).inlineTexts (stepData s0 (msgTwo.imp {} "S" 0)).inlineMovements
          itemA label := by
  have hT : (stepData s0 (msgTwo.imp {} "S" 0)).inlineTexts.map (fun x => (x.name, x.value, x.stringType)) =
      [("S_Text_0", "a$", ""), ("S_Text_1", "b\\0", "ascii")] := by decide
  refine ⟨List.mem_cons_self, by decide, hT, by decide, ?_⟩
  rintro ⟨label, hl, hd⟩
  have hl' : lastPatch (stepData s0 (msgTwo.imp {} "S" 0)).patches 0 0 = some "S_Text_1" := by decide
  rw [hl'] at hl
  cases hl
  obtain ⟨⟨x, hx, hn, hv, -⟩, -⟩ := hd
  have hT2 : (stepData s0 (msgTwo.imp {} "S" 0)).inlineTexts.map (fun x => (x.name, x.value)) =
      [("S_Text_0", "a$"), ("S_Text_1", "b\\0")] := by decide
  have : (x.name, x.value) ∈ (stepData s0 (msgTwo.imp {} "S" 0)).inlineTexts.map (fun x => (x.name, x.value)) :=
    List.mem_map.2 ⟨x, hx, rfl⟩
  rw [hT2, hn, hv] at this
  revert this
  decide

/-! ### the example as a whole file -/

/-- `script S { … }` followed by the end of the file -/
def fileToks : List Tok := exToks ++ [C02P.tk .EOF ""]

/-- By evaluation: `parseTokens` accepts the file; patches and hoisted texts of the program; the file has one
top-level statement with inline items (`collected`), and they are the items `parseScriptStatement` returns in the
initial state — the hypothesis `hcol` of `written_item_referenced_file` in this instance. -/
theorem ex_file_decide :
    (parseTokens {} fileToks).toOption.map
        (fun p => (p.patches, p.texts.map (fun x => (x.name, x.value, x.stringType)))) =
      some ([((0, 0), "S_Text_0"), ((2, 0), "S_Text_0"), ((3, 0), "S_Text_1"), ((1, 1), "S_Movement_0")],
            [("S_Text_0", "hi$", ""), ("S_Text_1", "hi\\0", "ascii")]) ∧
    (collected {} fileToks).map (fun d => (itemsOf d).map slotOf) = [[(0, 0), (2, 0), (3, 0), (1, 1)]] ∧
    ((parseScriptStatement {} (fuelOf fileToks)).run (initState fileToks)).toOption.map
      (fun r => (itemsOf r.1.2).map slotOf) = some [(0, 0), (2, 0), (3, 0), (1, 1)] := by
  refine ⟨by decide, by decide, by decide⟩

/-- `written_item_referenced_file` on the file: the second `msgbox("hi")` (id 2) shows, with the patches of the
parsed PROGRAM, a label that names exactly one hoisted text of the program, with value `hi$`. -/
example (p : Program) (hp : parseTokens {} fileToks = .ok p) (scr : Script) (imp : ImpData) (s' : PState)
    (hparse : (parseScriptStatement {} (fuelOf fileToks)).run
      (st (initState fileToks) (C02P.tk .SCRIPT "script" :: ([] ++ C02P.tk .IDENT "S" :: lb ::
        (printStmts exBody ++ rb :: [C02P.tk .EOF ""])))) = .ok ((scr, imp), s'))
    (hcol : collected {} fileToks = [] ++ imp :: []) :
    ∃ label args, renderCommand p.patches (nd (substC (initState fileToks).constants) (msgHi, 2)) =
        .command "msgbox" args ∧ args[0]? = some label ∧
      Defines (hoistedTexts (inlineTextsOf {} fileToks)) (hoistedMoves (inlineMovesOf {} fileToks))
        (.inl (hiItem 2)) label := by
  obtain ⟨label, args, -, hd, hr, ha, -⟩ := written_item_referenced_file {} (fuelOf fileToks) (initState fileToks)
    (C02P.tk .SCRIPT "script") .absent (C02P.tk .IDENT "S") lb exBody rb [C02P.tk .EOF ""] trivial rfl rfl
    exBody_wf rfl (by decide) scr imp s' hparse msgHi 2
    (show (msgHi, 2) ∈ [(msgHi, 0), (applyMv, 1), (msgHi, 2), (msgAscii, 3)] by simp) 0 _ rfl (.inl (hiItem 2))
    List.mem_cons_self fileToks p hp [] [] hcol
  exact ⟨label, args, hr, ha, hd⟩

end Example

#print axioms parsed_command_ids_distinct
#print axioms parsed_imp_census
#print axioms script_slot_items
#print axioms written_item_referenced
#print axioms written_text_referenced
#print axioms written_moves_referenced
#print axioms written_line_emitted
#print axioms written_text_labels_iff
#print axioms equal_content_shares_label
#print axioms different_content_different_label
#print axioms written_item_referenced_file
#print axioms ex_hoist_decide
#print axioms ex_lines_decide
#print axioms ex_parse_ok
#print axioms aloneInArg_needed
#print axioms ex_file_decide

end Pory.C06d
