import PoryModel.Compile
/-
C09 — text is emitted line by line with exactly one correct terminator.

Proved:
* `formatTextTerminator` (the one function every text origin goes through — `text` statements,
  inline strings, poryswitch cases, `format()`): for plain / braille / ascii text the result
  ends with the type's terminator, a terminator the author wrote is not doubled, nothing else
  changes; other string types are left untouched; the suffix table is the documented one;
* `splitLines` / `emitText`: one directive per `\n`-separated line, in order, and the lines
  joined by `\n` are exactly the text; the directive is the string type, or `.string`.
Lexer half (multi-part literals joined by newline, newline+indentation inside a part becoming
one space) is exercised by correspondence (`gen_C09`) — see DESIGN.md.
-/
namespace Pory.C09
open Pory Pory.Parser Pory.Emit

/-- The documented terminator table (tie to the Go `textSuffixes` map). -/
theorem suffix_table :
    Facts.textSuffixes.lookup "" = some "$" ∧ Facts.textSuffixes.lookup "braille" = some "$" ∧
    Facts.textSuffixes.lookup "ascii" = some "\\0" ∧ Facts.textSuffixes.length = 3 := by decide

theorem hasSuffix_append (t s : List Char) : hasSuffix (t ++ s) s = true := by
  simp [hasSuffix, List.reverse_append]

/-- Types without a terminator are left alone. -/
theorem terminator_other_types (text ty : String) (h : Facts.textSuffixes.lookup ty = none) :
    formatTextTerminator text ty = text := by
  simp [formatTextTerminator, h]

/-- For a type with terminator `suf`: the result ends with `suf`, and it is the text itself when
the author already wrote the terminator, else the text followed by `suf` — never doubled. -/
theorem terminator_once (text ty suf : String) (h : Facts.textSuffixes.lookup ty = some suf) :
    hasSuffix (formatTextTerminator text ty).toList suf.toList = true ∧
    (hasSuffix text.toList suf.toList = true → formatTextTerminator text ty = text) ∧
    (hasSuffix text.toList suf.toList = false → formatTextTerminator text ty = text ++ suf) := by
  simp only [formatTextTerminator, h]
  by_cases hs : hasSuffix text.toList suf.toList = true
  · simp [hs]
  · simp only [hs]
    simp [String.toList_append, hasSuffix_append]

/-- Applying the terminator twice changes nothing (idempotence: no doubling on re-processing). -/
theorem terminator_idempotent (text ty : String) :
    formatTextTerminator (formatTextTerminator text ty) ty = formatTextTerminator text ty := by
  cases h : Facts.textSuffixes.lookup ty with
  | none => simp [formatTextTerminator, h]
  | some suf =>
    have := (terminator_once text ty suf h).1
    exact (terminator_once (formatTextTerminator text ty) ty suf h).2.1 this

def joinLines : List (List Char) → List Char
  | [] => []
  | [l] => l
  | l :: r => l ++ '\n' :: joinLines r

theorem splitLines_ne_nil (cs : List Char) : splitLines cs ≠ [] := by
  induction cs with
  | nil => simp [splitLines]
  | cons c r ih =>
    unfold splitLines
    split
    · simp
    · split <;> simp

/-- The emitted lines, joined by newlines, are exactly the text. -/
theorem splitLines_join (cs : List Char) : joinLines (splitLines cs) = cs := by
  induction cs with
  | nil => simp [splitLines, joinLines]
  | cons c r ih =>
    unfold splitLines
    split
    · next h => exact absurd h (splitLines_ne_nil r)
    · next l ls h =>
      rw [h] at ih
      by_cases hc : c = '\n'
      · subst hc; simp [joinLines, ih]
      · simp only [hc, beq_iff_eq, if_false]
        cases ls with
        | nil => simp [joinLines] at ih ⊢; exact ih
        | cons l2 ls2 => simp [joinLines] at ih ⊢; exact ih

/-- No emitted line contains a newline. -/
theorem splitLines_no_newline (cs : List Char) : ∀ l ∈ splitLines cs, '\n' ∉ l := by
  induction cs with
  | nil => simp [splitLines]
  | cons c r ih =>
    unfold splitLines
    split
    · next h => exact absurd h (splitLines_ne_nil r)
    · next l ls h =>
      rw [h] at ih
      by_cases hc : c = '\n'
      · subst hc; intro x hx; simp at hx; rcases hx with rfl | rfl | hx
        · simp
        · exact ih _ (by simp)
        · exact ih _ (by simp [hx])
      · simp only [hc, beq_iff_eq, if_false]
        intro x hx; simp at hx; rcases hx with rfl | hx
        · have := ih l (by simp); simp [this]; intro h; exact hc h.symm
        · exact ih _ (by simp [hx])

/-- `emitText`: label (exported iff global), optional marker, then one directive per line,
named after the string type (`.string` when there is none). -/
theorem emitText_shape (o : Opts) (t : Text) :
    emitText o t = [.labelDef t.name t.isGlobal] ++ marker o t.tok ++
      (splitLines t.value.toList).map fun l =>
        .textLine (if t.stringType.length > 0 then t.stringType else "string") (String.ofList l) := rfl

example : formatTextTerminator "Hello" "" = "Hello$" ∧ formatTextTerminator "Hello$" "" = "Hello$" ∧
    formatTextTerminator "x" "ascii" = "x\\0" ∧ formatTextTerminator "x" "custom" = "x" := by decide

example : splitLines "ab\ncd".toList = ["ab".toList, "cd".toList] := by decide

end Pory.C09
