import PoryProofs.ScopeBridge
import PoryProofs.Properties.C20b
import PoryProofs.Properties.C01c
/-
C01d — the pipeline theorem: from SOURCE TEXT to rendered assembly.

For every source text `src : List Char` and parser environment `env`: if lexing + parsing
succeeds (`parseTokens env (Lexer.lexAll src) = .ok prog`) then for EVERY script of the program
(`ScriptOf prog s`: a `script` statement, or an inline script of a `mapscripts` statement, table
entries included)

* `parsed_script_hyps`: the three static hypotheses of the compiler-correctness chain hold —
  `ScopeIdsDistinct s.body`, `OneDefaultL s.body`, `Sem.WellScoped ⟨s.body, [], []⟩` — by
  `C20b.program_wellscoped` (parser side) and `ScopeBridge` (the parser's and the worklist's
  copies of `bindersL` / `OneDefault` agree);
* `pipeline_lowering`: hence `scriptChunks s.body = .ok chunks` implies source ≈ chunk graph for
  every world (`C01b.lowering_correct` without static hypotheses);
* `pipeline_end_to_end`: hence, with `emitScript … = .ok ls`, source ≈ rendered assembly for every
  pair of compatible worlds, for either chunk order (`C01c.end_to_end_iff` without static
  hypotheses): finished runs correspond in both directions, divergence is preserved both ways, and
  no assembly run ends in `runOff` / `stuck` (`pipeline_no_runoff`).

Hypotheses that remain explicit (they cannot be discharged from the parser's guarantees proved so
far):
* `PreamblesPlain s.body` — configuration: no AutoVar command (taken from `env.autoVars`) attached
  to a condition leaf is named `end` / `return` / `goto`;
* `Compat o patches s.name chunks w aw` — the source-level world and the assembly-level world
  agree on the tests (for the world induced by an assembly world it follows from
  `LeavesWellFormed`, see `C01c.end_to_end_induced`);
* success of `emitScript` (a label clash makes it fail).
The statements are for arbitrary `patches` / text labels; `emitProgram` calls `emitScript` with
`prog.patches` and `prog.texts.map (·.name)` (`pipeline_end_to_end_prog`).
-/
namespace Pory.C01d
open Pory Pory.Parser Pory.Emit Pory.Sem Pory.Asm Pory.RenderSim

/-- `s` is a script of the program: a `script` statement or an inline script of a `mapscripts`
statement (directly, or as a table entry). -/
def ScriptOf (prog : Program) (s : Script) : Prop :=
  Top.script s ∈ prog.tops ∨
  ∃ m, Top.mapscripts m ∈ prog.tops ∧
    ((∃ ms ∈ m.mapScripts, ms.script = some s) ∨ ∃ t ∈ m.tables, ∃ e ∈ t.entries, e.script = some s)

/-- the parser's guarantee for one body, in the worklist's vocabulary -/
theorem bodyOK_hyps {body : List Stmt} (h : C20b.BodyOK body) :
    ScopeIdsDistinct body ∧ OneDefaultL body ∧ WellScoped ⟨body, [], []⟩ :=
  ⟨ScopeBridge.scopeIdsDistinct_of_parser h.2.1, (ScopeBridge.oneDefault_iff body).1 h.2.2, h.1⟩

/-- every script of a parsed program has a well-formed body -/
theorem scriptOf_bodyOK {env : Env} {toks : List Tok} {prog : Program}
    (h : parseTokens env toks = .ok prog) {s : Script} (hs : ScriptOf prog s) : C20b.BodyOK s.body := by
  have hall := C20b.program_wellscoped h
  rcases hs with hs | ⟨m, hm, hs⟩
  · exact hall _ hs
  · have hm' : C20b.TopBodiesOK (.mapscripts m) := hall _ hm
    rcases hs with ⟨ms, hms, he⟩ | ⟨t, ht, e, he, hes⟩
    · exact hm'.1 ms hms s he
    · exact hm'.2 t ht e he s hes

/-- **The static hypotheses of the correctness chain hold for every script the parser produces.** -/
theorem parsed_script_hyps (env : Env) (src : List Char) (prog : Program)
    (h : parseTokens env (Lexer.lexAll src) = .ok prog) (s : Script) (hs : ScriptOf prog s) :
    ScopeIdsDistinct s.body ∧ OneDefaultL s.body ∧ WellScoped ⟨s.body, [], []⟩ :=
  bodyOK_hyps (scriptOf_bodyOK h hs)

/-- **Source text → chunk graph**: for every script of a parsed program that the worklist accepts,
the source machine and the chunk-graph machine agree in every world (finished runs, divergence,
reached histories). -/
theorem pipeline_lowering (env : Env) (src : List Char) (prog : Program)
    (h : parseTokens env (Lexer.lexAll src) = .ok prog) (s : Script) (hs : ScriptOf prog s)
    (chunks : List Chunk) (hc : scriptChunks s.body = .ok chunks) (w : SWorld) :
    (∀ o hist, (∃ n, siter w n ⟨s.body, [], []⟩ = .fin o hist) ↔
      (∃ m, giter w chunks m ⟨0, 0, []⟩ = .fin o hist)) ∧
    ((∀ n, ∃ s', siter w n ⟨s.body, [], []⟩ = .next s') ↔
      (∀ m, ∃ g', giter w chunks m ⟨0, 0, []⟩ = .next g')) ∧
    (∀ n, ∃ m, C01.histG (giter w chunks m ⟨0, 0, []⟩) = C01.histS (siter w n ⟨s.body, [], []⟩)) := by
  obtain ⟨h1, h2, h3⟩ := parsed_script_hyps env src prog h s hs
  exact C01b.lowering_correct s.body chunks h1 h2 h3 hc w

/-- **Source text → rendered assembly.**  For every script of a parsed program that the emitter
accepts (either chunk order, any line-marker setting, any patches / text labels), and every pair
of compatible worlds: finished runs of the source machine and of the assembly machine started at
the first line correspond in both directions (outcome up to `ORel`, history up to rendering), and
one diverges iff the other does. -/
theorem pipeline_end_to_end (env : Env) (src : List Char) (prog : Program)
    (h : parseTokens env (Lexer.lexAll src) = .ok prog) (s : Script) (hs : ScriptOf prog s)
    (o : Opts) (patches : List ((Nat × Nat) × String)) (tl : List String) (ls : List Line)
    (hp : PreamblesPlain s.body) (he : emitScript o patches tl s = .ok ls) :
    ∃ chunks, scriptChunks s.body = .ok chunks ∧
      ∀ (w : SWorld) (aw : AWorld), Compat o patches s.name chunks w aw →
        ∀ (regs : Spec.Regs) (sw : String),
          (∀ oc h, (∃ n, siter w n ⟨s.body, [], []⟩ = .fin oc h) →
            ∃ m oc', aiter aw ls m ⟨0, [], regs, sw⟩ = .fin oc' (rh patches h) ∧ ORel patches oc oc') ∧
          (∀ m oc' ah, aiter aw ls m ⟨0, [], regs, sw⟩ = .fin oc' ah →
            ∃ n oc h, siter w n ⟨s.body, [], []⟩ = .fin oc h ∧ ORel patches oc oc' ∧ ah = rh patches h) ∧
          ((∀ m, ∃ a', aiter aw ls m ⟨0, [], regs, sw⟩ = .next a') ↔
            (∀ n, ∃ s', siter w n ⟨s.body, [], []⟩ = .next s')) := by
  obtain ⟨h1, h2, h3⟩ := parsed_script_hyps env src prog h s hs
  exact C01c.end_to_end_iff o patches tl s ls h1 h2 h3 hp he

/-- … with the patches and text labels `emitProgram` really passes to `emitScript`. -/
theorem pipeline_end_to_end_prog (env : Env) (src : List Char) (prog : Program)
    (h : parseTokens env (Lexer.lexAll src) = .ok prog) (s : Script) (hs : ScriptOf prog s)
    (o : Opts) (ls : List Line) (hp : PreamblesPlain s.body)
    (he : emitScript o prog.patches (prog.texts.map (·.name)) s = .ok ls) :
    ∃ chunks, scriptChunks s.body = .ok chunks ∧
      ∀ (w : SWorld) (aw : AWorld), Compat o prog.patches s.name chunks w aw →
        ∀ (regs : Spec.Regs) (sw : String),
          (∀ oc h, (∃ n, siter w n ⟨s.body, [], []⟩ = .fin oc h) →
            ∃ m oc', aiter aw ls m ⟨0, [], regs, sw⟩ = .fin oc' (rh prog.patches h) ∧
              ORel prog.patches oc oc') ∧
          (∀ m oc' ah, aiter aw ls m ⟨0, [], regs, sw⟩ = .fin oc' ah →
            ∃ n oc h, siter w n ⟨s.body, [], []⟩ = .fin oc h ∧ ORel prog.patches oc oc' ∧
              ah = rh prog.patches h) ∧
          ((∀ m, ∃ a', aiter aw ls m ⟨0, [], regs, sw⟩ = .next a') ↔
            (∀ n, ∃ s', siter w n ⟨s.body, [], []⟩ = .next s')) :=
  pipeline_end_to_end env src prog h s hs o prog.patches _ ls hp he

/-- **No run-off, from source text**: no assembly run of an emitted script of a parsed program ends
in `runOff` or `stuck` (compatible worlds). -/
theorem pipeline_no_runoff (env : Env) (src : List Char) (prog : Program)
    (h : parseTokens env (Lexer.lexAll src) = .ok prog) (s : Script) (hs : ScriptOf prog s)
    (o : Opts) (patches : List ((Nat × Nat) × String)) (tl : List String) (ls : List Line)
    (hp : PreamblesPlain s.body) (he : emitScript o patches tl s = .ok ls) :
    ∃ chunks, scriptChunks s.body = .ok chunks ∧
      ∀ (w : SWorld) (aw : AWorld), Compat o patches s.name chunks w aw →
        ∀ (regs : Spec.Regs) (sw : String) (m : Nat) (oc' : AOutcome) (ah : AHist),
          aiter aw ls m ⟨0, [], regs, sw⟩ = .fin oc' ah → oc' ≠ .runOff ∧ ∀ why, oc' ≠ .stuck why := by
  obtain ⟨chunks, hc, hall⟩ := pipeline_end_to_end env src prog h s hs o patches tl ls hp he
  refine ⟨chunks, hc, ?_⟩
  intro w aw C regs sw m oc' ah hm
  obtain ⟨n, oc, hh, _, hrel, _⟩ := (hall w aw C regs sw).2.1 m oc' ah hm
  constructor
  · intro e; subst e; cases oc <;> exact hrel
  · intro why e; subst e; cases oc <;> exact hrel

/-! ### non-vacuity: a real source text -/

/-- a script with a loop and a `break` (kept short: the kernel evaluates lexer and parser on it) -/
def exSrc : List Char := "script S { while (flag(F)) { break } }".toList

def isScriptTop : Top → Bool
  | .script _ => true
  | _ => false

/-- the text lexes and parses to a program with a script, to which `parsed_script_hyps` applies -/
example : ∃ prog, parseTokens {} (Lexer.lexAll exSrc) = .ok prog ∧
    ∃ s, ScriptOf prog s ∧
      ScopeIdsDistinct s.body ∧ OneDefaultL s.body ∧ WellScoped ⟨s.body, [], []⟩ := by
  have hk : (parseTokens {} (Lexer.lexAll exSrc)).toOption.map (fun p => p.tops.any isScriptTop) = some true := by
    decide +kernel
  cases hp : parseTokens {} (Lexer.lexAll exSrc) with
  | error e => rw [hp] at hk; cases hk
  | ok prog =>
    rw [hp] at hk
    have hany : prog.tops.any isScriptTop = true := by simpa [Except.toOption] using hk
    obtain ⟨t, ht, hts⟩ := List.any_eq_true.1 hany
    cases t with
    | script s =>
      have hs : ScriptOf prog s := .inl ht
      exact ⟨prog, rfl, s, hs, parsed_script_hyps {} exSrc prog hp s hs⟩
    | raw _ _ _ => cases hts
    | text _ => cases hts
    | movement _ => cases hts
    | mart _ _ _ _ _ => cases hts
    | mapscripts _ => cases hts

#print axioms parsed_script_hyps
#print axioms pipeline_lowering
#print axioms pipeline_end_to_end
#print axioms pipeline_no_runoff

end Pory.C01d
