import PoryProofs.GotoNext
import PoryProofs.FwdUnique
/-
C05c — the textual clause of C05: "In either form (-optimize on or off) no compiler-generated goto
targets the label on the very next line and no generated sub-label is emitted that nothing refers
to."  Everything is about `emitScript o patches tl s = .ok lines`, for every option set `o` (both
values of `o.optimize`, line markers on or off), patches and text labels.

"Next line": `GotoNext.nextVisible post` — the first line after the `goto` that is neither
`.blank` nor a `.marker`.  Generated jumps are the `goto_` lines (a user-written `goto(L)` is a
`Line.command`).

1. NO GOTO TO THE NEXT LABEL
* `no_goto_to_next_label` (MAIN, both orders): for a script whose `break` / `continue` are well
  scoped (`ScopesWellFormed`) and whose scope ids are pairwise distinct (`ScopeIdsDistinct`) — both
  guaranteed by the parser — if `lines = pre ++ .goto_ L :: post` then the next visible line of
  `post` is not `.labelDef L g`.  `no_goto_to_next_label_idx`: the same with `lines[k]?`.
* `no_goto_to_next_label_opt`: with `o.optimize = true` the statement holds for EVERY script `s`
  (no hypothesis on the AST), because the optimised order follows tails (`GotoNext.tail_follow`).
* `no_goto_to_next_label_of_fwdUnique`: both orders, from the table property `FwdUnique` alone.
* `no_goto_to_next_chunk` (every script, both orders; the chunk-level form): a `goto_ L` line is
  the exit of a chunk `k` of the order towards `d = tailId k`, `L = name_d`, `d ≠ 0`; it is followed
  by a blank line and the layout of the remaining chunks, the first of which (if any) is not `d`,
  and whose label line (if present) is therefore not `L:`.
* FALSE WITHOUT THE SCOPING HYPOTHESIS (`unscoped_counterexample`, `no_goto_to_next_label_full`
  is refuted by `not_no_goto_to_next_label_full`): for the ill-scoped AST `cexScript` (a `continue`
  that names a loop it is not inside of — the parser cannot produce it) the unoptimised output
  contains `goto s_6`, a blank line, `s_6:`.  Reason: the dead chunk after a `continue` renders to
  nothing (no label, no statements, falls through), so the chunk laid out before it is followed by
  the label of the chunk after it.  `FwdUnique` (PoryProofs/FwdUnique.lean) is exactly what
  excludes this, and it needs the `break` / `continue` targets to be allocated before the chunk.

2. NO UNREFERENCED SUB-LABEL
* `sub_label_referenced` (MAIN, both orders): if every condition leaf of the script renders a
  conditional jump (`LeavesL RefLeaf s.body`; true for parser-built leaves: `sub_label_referenced_wf`
  takes `LeavesL Spec.WellFormedLeaf s.body`), then for every chunk id `id ≠ 0` of the table: if the
  line `name_id:` is among `lines` then some generated jump / `case` line of `lines` names `name_id`
  (`C04.refOf l = some (jumpLabel s.name id)`).  A user label statement cannot be such a line:
  `renderStatements` rejects user labels that clash with chunk labels.
* `every_label_accounted`: every label line of `lines` is the script's own label, a user label
  statement of a chunk, or is named by a generated jump / `case` line.
* FALSE WITHOUT THE LEAF HYPOTHESIS (`badLeaf_counterexample`): a leaf whose `type` is not
  FLAG / VAR / DEFEATED (or a VAR leaf with an operator outside `varCompareOpcode`) registers its
  `true` target but renders no jump, so the label `s_2:` is emitted and nothing names it.  The
  parser never builds such leaves.

3. Whole programs (`emitProgram`): NOT lifted.  The first statement does not lift without a
   global label-uniqueness hypothesis: the line after the last blank line of a script is the label
   of the next top-level statement, which may be *named* `s_3`.

Nothing is `sorry`; nothing is partial beyond what is said above (3 is optional and omitted).
Helper files: PoryProofs/GotoNext.lean (rendering shape, layout decomposition, tail-following of
the optimised order, the abstract theorems), PoryProofs/FwdUnique.lean (the worklist invariant).
-/
namespace Pory.C05c
open Pory Pory.Emit Pory.RenderSim Pory.GotoNext

/-! ### the facts about one successful `emitScript` that the proofs use -/

structure EmitFacts (o : Opts) (patches : List ((Nat × Nat) × String)) (s : Script)
    (lines : List Line) (chunks : List Chunk) (order : List Nat) : Prop where
  hc : scriptChunks s.body = .ok chunks
  ho : C05.chunkOrder o chunks = .ok order
  hls : lines = layout o patches s.name chunks (s.scope == .GLOBAL)
    (regsOf o patches s.name chunks order) order
  closed : Closed chunks
  nodupG : (chunks.map (·.id)).Nodup
  zero : 0 ∈ chunks.map (·.id)
  perm : order.Perm (chunks.map (·.id))
  nodup : order.Nodup
  found : ∀ id ∈ order, findChunk chunks id = some (chunkOf chunks id)
  hyg : ∀ id ∈ order, ∀ n ∈ stmtLabels (chunkOf chunks id).statements,
    n.1 ∉ chunks.map (fun c => chunkLabel s.name c.id)

theorem emit_facts (o : Opts) (patches : List ((Nat × Nat) × String)) (tl : List String) (s : Script)
    (lines : List Line) (he : emitScript o patches tl s = .ok lines) :
    ∃ chunks order, EmitFacts o patches s lines chunks order := by
  rw [C05.emitScript_eq] at he
  cases hc : scriptChunks s.body with
  | error e => rw [hc] at he; cases he
  | ok chunks =>
    rw [hc] at he
    simp only at he
    obtain ⟨order, ho, hls, hall⟩ := renderChunks_ok o patches s.name chunks (s.scope == .GLOBAL) tl lines he
    obtain ⟨hn, h0⟩ := C05.scriptChunks_ids s.body chunks hc
    obtain ⟨hperm, _⟩ := C05.chunkOrder_perm o chunks order h0 ho
    have hfound : ∀ id ∈ order, findChunk chunks id = some (chunkOf chunks id) := by
      intro id hid
      obtain ⟨c, sl, hc', _⟩ := hall id hid
      simp [chunkOf, hc']
    refine ⟨chunks, order, ⟨hc, ho, hls, scriptChunks_closed s.body chunks hc, hn, h0, hperm,
      hperm.nodup_iff.2 hn, hfound, ?_⟩⟩
    intro id hid n hn'
    obtain ⟨c, sl, hc', hs⟩ := hall id hid
    have hco : chunkOf chunks id = c := by simp [chunkOf, hc']
    rw [hco] at hn'
    exact (renderStatements_ok o patches _ tl _ _ hs).2.2 n hn'

theorem chunkOf_id {G : List Chunk} {id : Nat} (h : findChunk G id = some (chunkOf G id)) :
    (chunkOf G id).id = id := by
  have := List.find?_some h
  simpa using this

/-! ### `HX` for the two orders -/

/-- In the optimised order the tail of `k`, when it is laid out after `k`, is laid out directly
after `k`. -/
theorem hx_optimized {G : List Chunk} {order : List Nat} (h0 : 0 ∈ G.map (·.id))
    (ho : optimizeChunkOrder G = .ok order) (hperm : order.Perm (G.map (·.id))) (hnd : order.Nodup)
    (hfound : ∀ id ∈ order, findChunk G id = some (chunkOf G id)) :
    ∀ opre k mid b c rest', order = opre ++ k :: (mid ++ b :: c :: rest') →
      tailId (chunkOf G k) = some c → tailId (chunkOf G b) ≠ some c := by
  intro opre k mid b c rest' hord htail _
  have htf := tail_follow G order h0 ho
  have hk : k ∈ order := by rw [hord]; simp
  have hc : c ∈ order := by rw [hord]; simp
  rw [hord] at hnd
  have hnd' := hnd
  rw [List.nodup_append] at hnd'
  obtain ⟨_, hnd2, hdisj⟩ := hnd'
  rw [List.nodup_cons] at hnd2
  have hcpre : c ∉ opre := fun hm => hdisj c hm c (by simp) rfl
  have hck : c ≠ k := by
    intro e; subst e
    exact hnd2.1 (by simp)
  -- the chunk laid out directly after `k`
  cases mid with
  | nil =>
    have := htf opre k b (c :: rest') (by rw [hord]; rfl) _ (hfound k hk) c htail
      (hperm.mem_iff.1 hc) hcpre hck
    subst this
    have hn := hnd2.2
    simp at hn
  | cons x mid' =>
    have := htf opre k x (mid' ++ b :: c :: rest') (by rw [hord]; rfl) _ (hfound k hk) c htail
      (hperm.mem_iff.1 hc) hcpre hck
    subst this
    have hn := hnd2.2
    simp at hn

/-- In the sorted order, `HX` is the uniqueness of forward tail edges. -/
theorem hx_sorted {G : List Chunk} {order : List Nat} (hfu : FwdUnique G)
    (hs : order.Pairwise (· ≤ ·)) (hnd : order.Nodup)
    (hfound : ∀ id ∈ order, findChunk G id = some (chunkOf G id)) :
    ∀ opre k mid b c rest', order = opre ++ k :: (mid ++ b :: c :: rest') →
      tailId (chunkOf G k) = some c → tailId (chunkOf G b) ≠ some c := by
  intro opre k mid b c rest' hord htk htb
  have hk : k ∈ order := by rw [hord]; simp
  have hb : b ∈ order := by rw [hord]; simp
  have hlt : order.Pairwise (· < ·) :=
    (hs.and hnd).imp (fun ⟨h1, h2⟩ => Nat.lt_of_le_of_ne h1 h2)
  rw [hord, List.pairwise_append, List.pairwise_cons] at hlt
  obtain ⟨_, ⟨hk1, hk2⟩, _⟩ := hlt
  have hkb : k < b := hk1 b (by simp)
  have hkc : k < c := hk1 c (by simp)
  rw [List.pairwise_append, List.pairwise_cons] at hk2
  have hbc : b < c := hk2.2.1.1 c (by simp)
  have hidk := chunkOf_id (hfound k hk)
  have hidb := chunkOf_id (hfound b hb)
  have := hfu _ (List.mem_of_find?_eq_some (hfound k hk)) _ (List.mem_of_find?_eq_some (hfound b hb)) c
    htk htb (by omega) (by omega)
  omega

/-! ### 1. no generated `goto` targets the label on the very next line -/

/-- Statement 1, **optimised order, every script**: the first line after a generated `goto L`
that is neither blank nor a line marker is not the label line `L:`. -/
theorem no_goto_to_next_label_opt (o : Opts) (patches : List ((Nat × Nat) × String))
    (tl : List String) (s : Script) (lines : List Line) (hopt : o.optimize = true)
    (he : emitScript o patches tl s = .ok lines) :
    ∀ pre post L, lines = pre ++ .goto_ L :: post → ∀ g, nextVisible post ≠ some (.labelDef L g) := by
  obtain ⟨chunks, order, F⟩ := emit_facts o patches tl s lines he
  have ho : optimizeChunkOrder chunks = .ok order := by
    have := F.ho
    unfold C05.chunkOrder at this
    rwa [if_pos hopt] at this
  exact no_goto_next_of o patches s.name chunks _ _ order lines F.hls F.closed F.found F.hyg
    (hx_optimized F.zero ho F.perm F.nodup F.found)

/-- Statement 1, **either order**, for scripts whose chunk table has unique forward tail edges
(`Emit.FwdUnique`, proved for well-scoped scripts in PoryProofs/FwdUnique.lean: `scriptChunks_fwdUnique`). -/
theorem no_goto_to_next_label_of_fwdUnique (o : Opts) (patches : List ((Nat × Nat) × String))
    (tl : List String) (s : Script) (lines : List Line)
    (hfu : ∀ chunks, scriptChunks s.body = .ok chunks → FwdUnique chunks)
    (he : emitScript o patches tl s = .ok lines) :
    ∀ pre post L, lines = pre ++ .goto_ L :: post → ∀ g, nextVisible post ≠ some (.labelDef L g) := by
  by_cases hopt : o.optimize = true
  · exact no_goto_to_next_label_opt o patches tl s lines hopt he
  · obtain ⟨chunks, order, F⟩ := emit_facts o patches tl s lines he
    have ho : order = sortNat (chunks.map (·.id)) := by
      have := F.ho
      unfold C05.chunkOrder at this
      rw [if_neg hopt] at this
      injection this with this
      exact this.symm
    exact no_goto_next_of o patches s.name chunks _ _ order lines F.hls F.closed F.found F.hyg
      (hx_sorted (hfu chunks F.hc) (ho ▸ C05.sortNat_sorted _) F.nodup F.found)

/-- **Statement 1 (main theorem), either order**: for a script with well-scoped `break` /
`continue` and pairwise distinct scope ids (parser guarantees), the first line after a generated
`goto L` that is neither blank nor a line marker is not the label line `L:`. -/
theorem no_goto_to_next_label (o : Opts) (patches : List ((Nat × Nat) × String))
    (tl : List String) (s : Script) (lines : List Line)
    (hs : ScopeIdsDistinct s.body) (hw : ScopesWellFormed s.body)
    (he : emitScript o patches tl s = .ok lines) :
    ∀ pre post L, lines = pre ++ .goto_ L :: post → ∀ g, nextVisible post ≠ some (.labelDef L g) :=
  no_goto_to_next_label_of_fwdUnique o patches tl s lines
    (fun chunks hc => scriptChunks_fwdUnique s.body chunks hs hw hc) he

theorem split_at_index {α} : ∀ (l : List α) (k : Nat) (x : α), l[k]? = some x →
    l = l.take k ++ x :: l.drop (k + 1) := by
  intro l
  induction l with
  | nil => intro k x h; simp at h
  | cons a r ih =>
    intro k x h
    cases k with
    | zero => simp at h; simp [h]
    | succ k =>
      simp only [List.getElem?_cons_succ] at h
      have := ih k x h
      simp only [List.take_succ_cons, List.drop_succ_cons, List.cons_append]
      rw [← this]

/-- Statement 1 with line indices: if line `k` is `goto L`, the next visible line after it is not
`L:`. -/
theorem no_goto_to_next_label_idx (o : Opts) (patches : List ((Nat × Nat) × String))
    (tl : List String) (s : Script) (lines : List Line)
    (hs : ScopeIdsDistinct s.body) (hw : ScopesWellFormed s.body)
    (he : emitScript o patches tl s = .ok lines) :
    ∀ k L, lines[k]? = some (.goto_ L) → ∀ g, nextVisible (lines.drop (k + 1)) ≠ some (.labelDef L g) :=
  fun k L hk g => no_goto_to_next_label o patches tl s lines hs hw he _ _ L (split_at_index lines k _ hk) g

/-- Statement 1, **chunk-level form, every script, either order**: a generated `goto L` is the
exit of a chunk `k` towards its tail `d ≠ 0` with `L = name_d`; what follows is a blank line and
the layout of the remaining chunks; the chunk laid out next (if any) is not `d`, and its label
line — `chunkLabel name id'`, if it is there at all — is not `L:`. -/
theorem no_goto_to_next_chunk (o : Opts) (patches : List ((Nat × Nat) × String))
    (tl : List String) (s : Script) (lines : List Line) (he : emitScript o patches tl s = .ok lines) :
    ∃ chunks order, scriptChunks s.body = .ok chunks ∧ C05.chunkOrder o chunks = .ok order ∧
      ∀ pre post L, lines = pre ++ .goto_ L :: post →
        ∃ opre k orest d, order = opre ++ k :: orest ∧ tailId (chunkOf chunks k) = some d ∧ d ≠ 0 ∧
          L = jumpLabel s.name d ∧
          post = .blank :: layout o patches s.name chunks (s.scope == .GLOBAL)
            (regsOf o patches s.name chunks order) orest ∧
          ∀ id', orest.head? = some id' → id' ≠ d ∧
            ∀ g, Line.labelDef L g ∉ lbl s.name (s.scope == .GLOBAL) (regsOf o patches s.name chunks order) id' := by
  obtain ⟨chunks, order, F⟩ := emit_facts o patches tl s lines he
  refine ⟨chunks, order, F.hc, F.ho, ?_⟩
  intro pre post L hsplit
  rw [F.hls] at hsplit
  obtain ⟨opre, k, orest, d, hord, htail, hnext, hL, hpost⟩ :=
    goto_in_layout o patches s.name chunks _ _ order pre post L hsplit
  have hk : k ∈ order := by rw [hord]; simp
  have hkG : chunkOf chunks k ∈ chunks := List.mem_of_find?_eq_some (F.found k hk)
  obtain ⟨hd0, _⟩ := F.closed _ hkG d (tailId_mem_targets htail)
  refine ⟨opre, k, orest, d, hord, htail, hd0, hL, hpost, ?_⟩
  intro id' hid'
  have hne : id' ≠ d := by
    intro e; subst e
    exact hnext hid'.symm
  refine ⟨hne, ?_⟩
  intro g hm
  unfold lbl at hm
  split at hm
  · simp only [List.mem_singleton, Line.labelDef.injEq] at hm
    have hjl : jumpLabel s.name d = chunkLabel s.name d := by simp [chunkLabel, jumpLabel, hd0]
    exact hne (labelsInjective s.name id' d (by rw [← hm.1, hL, hjl]))
  · simp at hm

/-! ### the scoping hypothesis of statement 1 cannot be dropped -/

/-- An ill-scoped AST (the parser cannot produce it): the `continue`s with scope id 9 are not
inside the loop with scope id 9. -/
def cexScript : Script :=
  { name := "s",
    body := [ .switch_ {} 1 { lit := "VAR_0" }
      [ ({ lit := "1" }, false, [.cont {} 1, .cont {} 9]),
        ({ lit := "2" }, false, [.while_ {} 9 none []]),
        ({ lit := "3" }, false, [.cont {} 9]) ] ] }

def cexLines : List Line :=
  [ .labelDef "s" true, .labelDef "s_1" false, .switch_ "VAR_0", .case_ "1" "s_2", .case_ "2" "s_3",
    .case_ "3" "s_4", .terminator false, .blank,
    .labelDef "s_2" false, .goto_ "s_1", .blank,
    .labelDef "s_3" false, .goto_ "s_6", .blank,
    .labelDef "s_4" false, .goto_ "s_6", .blank,
    .labelDef "s_6" false, .goto_ "s_6", .blank ]

theorem cex_emit : emitScript { optimize := false } [] [] cexScript = .ok cexLines := by rfl

/-- **Counterexample**: without `-optimize`, the ill-scoped `cexScript` is compiled to
`… goto s_6`, a blank line, `s_6: …` (chunk 5, the dead code after the first `continue`, renders
to nothing). -/
theorem unscoped_counterexample :
    emitScript { optimize := false } [] [] cexScript = .ok cexLines ∧
    cexLines[15]? = some (.goto_ "s_6") ∧
    nextVisible (cexLines.drop 16) = some (.labelDef "s_6" false) :=
  ⟨cex_emit, by decide, by decide⟩

/-- Statement 1 for ALL scripts (without the scoping hypotheses). -/
def no_goto_to_next_label_full : Prop :=
  ∀ (o : Opts) (patches : List ((Nat × Nat) × String)) (tl : List String) (s : Script)
    (lines : List Line), emitScript o patches tl s = .ok lines →
    ∀ k L, lines[k]? = some (.goto_ L) → ∀ g, nextVisible (lines.drop (k + 1)) ≠ some (.labelDef L g)

/-- … is false of the model (witness: the ill-scoped `cexScript`, unoptimised). -/
theorem not_no_goto_to_next_label_full : ¬ no_goto_to_next_label_full := by
  intro h
  exact h { optimize := false } [] [] cexScript cexLines cex_emit 15 "s_6" (by decide) false (by decide)

/-- the hypothesis that fails for `cexScript`: it is not well scoped (its scope ids are distinct) -/
example : ¬ ScopesWellFormed cexScript.body := by
  simp [ScopesWellFormed, cexScript, WFL, WFS, WFC]
example : ScopeIdsDistinct cexScript.body := by unfold ScopeIdsDistinct; decide

def cexTable : List Chunk :=
  match scriptChunks cexScript.body with | .ok c => c | .error _ => []

theorem cexTable_ok : scriptChunks cexScript.body = .ok cexTable := rfl

/-- … and indeed its chunk table violates `FwdUnique`: chunks 4 and 5 (positions 3 and 2 of the
table) both have tail 6 -/
example : ¬ FwdUnique cexTable := by
  intro h
  have := h (cexTable[3]'(by decide)) (List.getElem_mem _) (cexTable[2]'(by decide)) (List.getElem_mem _) 6
    (by decide) (by decide) (by decide) (by decide)
  revert this
  decide

/-! ### 2. no generated sub-label that nothing refers to -/

theorem leaves_of_facts {o : Opts} {patches : List ((Nat × Nat) × String)} {s : Script}
    {lines : List Line} {chunks : List Chunk} {order : List Nat}
    (F : EmitFacts o patches s lines chunks order) (hl : LeavesL RefLeaf s.body) :
    ∀ id ∈ order, ∀ t e f, (chunkOf chunks id).branch = .leaf t e f → RefLeaf e := by
  intro id hid t e f hb
  exact scriptChunks_leaves s.body chunks hl F.hc _ (List.mem_of_find?_eq_some (F.found id hid)) t e f hb

/-- **Statement 2 (main theorem), either order**: if the line `name_id:` for a chunk id `id ≠ 0` of
the table is among the emitted lines, some generated jump / `case` line names `name_id` — provided
every condition leaf renders a conditional jump (`RefLeaf`). -/
theorem sub_label_referenced (o : Opts) (patches : List ((Nat × Nat) × String))
    (tl : List String) (s : Script) (lines : List Line) (hl : LeavesL RefLeaf s.body)
    (he : emitScript o patches tl s = .ok lines) :
    ∀ chunks, scriptChunks s.body = .ok chunks →
      ∀ id g, id ≠ 0 → id ∈ chunks.map (·.id) → Line.labelDef (jumpLabel s.name id) g ∈ lines →
        ∃ l ∈ lines, C04.refOf l = some (jumpLabel s.name id) := by
  obtain ⟨chunks, order, F⟩ := emit_facts o patches tl s lines he
  intro chunks' hc'
  have : chunks' = chunks := by
    have := hc'.symm.trans F.hc
    injection this
  subst this
  exact sub_label_referenced_of o patches s.name chunks' _ order lines F.hls F.hyg (leaves_of_facts F hl)

/-- Statement 2 for leaves as the parser builds them. -/
theorem sub_label_referenced_wf (o : Opts) (patches : List ((Nat × Nat) × String))
    (tl : List String) (s : Script) (lines : List Line) (hl : LeavesL Spec.WellFormedLeaf s.body)
    (he : emitScript o patches tl s = .ok lines) :
    ∀ chunks, scriptChunks s.body = .ok chunks →
      ∀ id g, id ≠ 0 → id ∈ chunks.map (·.id) → Line.labelDef (jumpLabel s.name id) g ∈ lines →
        ∃ l ∈ lines, C04.refOf l = some (jumpLabel s.name id) := by
  obtain ⟨chunks, order, F⟩ := emit_facts o patches tl s lines he
  intro chunks' hc'
  have : chunks' = chunks := by
    have := hc'.symm.trans F.hc
    injection this
  subst this
  refine sub_label_referenced_of o patches s.name chunks' _ order lines F.hls F.hyg ?_
  intro id hid t e f hb
  exact wellFormed_refLeaf e (scriptChunks_leaves s.body chunks' hl F.hc _
    (List.mem_of_find?_eq_some (F.found id hid)) t e f hb)

/-- Statement 2, chunk-level form: the label line emitted in front of the body of a chunk `id ≠ 0`
of the order (`lbl … id`, non-empty exactly when `id` was registered) comes with a generated
jump / `case` line naming it. -/
theorem sub_label_referenced_chunk (o : Opts) (patches : List ((Nat × Nat) × String))
    (tl : List String) (s : Script) (lines : List Line) (hl : LeavesL RefLeaf s.body)
    (he : emitScript o patches tl s = .ok lines) :
    ∃ chunks order, scriptChunks s.body = .ok chunks ∧ C05.chunkOrder o chunks = .ok order ∧
      lines = layout o patches s.name chunks (s.scope == .GLOBAL) (regsOf o patches s.name chunks order) order ∧
      ∀ id ∈ order, id ≠ 0 →
        lbl s.name (s.scope == .GLOBAL) (regsOf o patches s.name chunks order) id ≠ [] →
        ∃ l ∈ lines, C04.refOf l = some (jumpLabel s.name id) := by
  obtain ⟨chunks, order, F⟩ := emit_facts o patches tl s lines he
  refine ⟨chunks, order, F.hc, F.ho, F.hls, ?_⟩
  intro id _ hid0 hne
  have hreg : id ∈ regsOf o patches s.name chunks order := by
    unfold lbl at hne
    split at hne
    · rename_i hc
      simpa [hid0] using hc
    · exact absurd rfl hne
  rw [F.hls]
  exact regsOf_referenced o patches s.name chunks _ _ order (leaves_of_facts F hl) id hreg

/-- Every label line of an emitted script is the script's own label, a label statement of one of
its chunks, or is named by a generated jump / `case` line. -/
theorem every_label_accounted (o : Opts) (patches : List ((Nat × Nat) × String))
    (tl : List String) (s : Script) (lines : List Line) (hl : LeavesL RefLeaf s.body)
    (he : emitScript o patches tl s = .ok lines) :
    ∃ chunks, scriptChunks s.body = .ok chunks ∧
      ∀ L g, Line.labelDef L g ∈ lines →
        L = s.name ∨ (∃ c ∈ chunks, (L, g) ∈ stmtLabels c.statements) ∨
        ∃ l ∈ lines, C04.refOf l = some L := by
  obtain ⟨chunks, order, F⟩ := emit_facts o patches tl s lines he
  refine ⟨chunks, F.hc, ?_⟩
  intro L g hm
  have hm' := hm
  rw [F.hls] at hm'
  obtain ⟨pre, c, rest, hord, hp⟩ := (mem_layout o patches s.name chunks _ _ order _).1 hm'
  have hc : c ∈ order := by rw [hord]; simp
  rcases label_in_piece' o patches s.name chunks _ _ c _ _ g hp with ⟨h1, h2⟩ | h
  · rcases h2 with rfl | h2
    · left; rw [h1]; simp [chunkLabel]
    · by_cases hc0 : c = 0
      · left; rw [h1, hc0]; simp [chunkLabel]
      · right; right
        have hjl : jumpLabel s.name c = chunkLabel s.name c := by simp [chunkLabel, jumpLabel, hc0]
        rw [h1, ← hjl, F.hls]
        exact regsOf_referenced o patches s.name chunks _ _ order (leaves_of_facts F hl) c h2
  · exact .inr (.inl ⟨_, List.mem_of_find?_eq_some (F.found c hc), h⟩)

/-! ### the leaf hypothesis of statement 2 cannot be dropped -/

/-- A leaf the parser cannot build: its type is none of FLAG / VAR / DEFEATED. -/
def badLeaf : Script :=
  { name := "s",
    body := [.ite {} (.leaf { type := .ILLEGAL, operand := { lit := "X" } }) [cmdS "a"] [] none, cmdS "b"] }

def badLeafLines : List Line :=
  [ .labelDef "s" true, .goto_ "s_3", .blank,
    .labelDef "s_1" false, .command "b" [], .terminator false, .blank,
    .labelDef "s_2" false, .command "a" [], .goto_ "s_1", .blank,
    .labelDef "s_3" false, .goto_ "s_1", .blank ]

/-- **Counterexample**: the label `s_2:` (the body of the `if`) is emitted — the leaf chunk
registered it — but the malformed leaf renders no conditional jump, so nothing names `s_2`. -/
theorem badLeaf_counterexample :
    emitScript { optimize := false } [] [] badLeaf = .ok badLeafLines ∧
    Line.labelDef (jumpLabel "s" 2) false ∈ badLeafLines ∧
    ∀ l ∈ badLeafLines, C04.refOf l ≠ some (jumpLabel "s" 2) := by
  refine ⟨by rfl, by decide, by decide⟩

/-! ### non-vacuity: a script with an `if` and a `while` (with a `break`), both orders -/

def flagE (n : String) : OpExpr :=
  { type := .FLAG, operator := .EQ, cmpValue := "TRUE", operand := { lit := n } }

def c5Body : List Stmt :=
  [ cmdS "lock",
    .ite {} (.leaf (flagE "F")) [cmdS "msgbox"] [] none,
    .while_ {} 1 (some (.leaf (flagE "G")))
      [cmdS "step", .ite {} (.leaf (flagE "H")) [.brk {} 1] [] none],
    cmdS "release" ]

def c5Script : Script := { name := "S", body := c5Body }

def c5Table : List Chunk :=
  [ { id := 9, branch := .leaf 8 (flagE "H") (some 5) },
    { id := 8, returnID := some 5, branch := .breakCtx (some 4) },
    { id := 5, returnID := some 4, branch := .jump 7 },
    { id := 6, returnID := some 5, statements := [cmdS "step"], branch := .jump 9 },
    { id := 7, branch := .leaf 6 (flagE "G") (some 4) },
    { id := 4, statements := [cmdS "release"] },
    { id := 3, branch := .leaf 2 (flagE "F") (some 1) },
    { id := 2, returnID := some 1, statements := [cmdS "msgbox"] },
    { id := 1, returnID := some 4, branch := .jump 5 },
    { id := 0, returnID := some 1, statements := [cmdS "lock"], branch := .jump 3 } ]

theorem c5Table_ok : scriptChunks c5Body = .ok c5Table := rfl

theorem c5_order : C05.chunkOrder { optimize := true } c5Table = .ok [0, 3, 1, 5, 7, 4, 2, 6, 9, 8] := by
  simp [C05.chunkOrder, optimizeChunkOrder, c5Table, optimizeLoop, optimizeLoop.pick, scanUnvisited,
    findChunk, tailId]

def c5LinesOpt : List Line :=
  match renderBodies { optimize := true } [] "S" c5Table (c5Table.map fun c => chunkLabel "S" c.id) []
      [0, 3, 1, 5, 7, 4, 2, 6, 9, 8] with
  | .ok (bodies, jumps) =>
    bodies.flatMap fun (id, ls) =>
      (if id == 0 || jumps.contains id then [Line.labelDef (chunkLabel "S" id) (id == 0 && true)] else []) ++ ls
  | .error _ => []

def c5Lines (b : Bool) : List Line :=
  if b then c5LinesOpt
  else
    match renderChunks { optimize := false } [] c5Table "S" true [] with
    | .ok l => l
    | .error _ => []

theorem c5_emit (b : Bool) : emitScript { optimize := b } [] [] c5Script = .ok (c5Lines b) := by
  rw [C05.emitScript_eq]
  simp only [c5Script, c5Table_ok]
  cases b
  · rfl
  · rw [C05.renderChunks_eq, c5_order]
    rfl

theorem c5_scopes : ScopeIdsDistinct c5Body := by unfold ScopeIdsDistinct; decide
theorem c5_wellFormed : ScopesWellFormed c5Body := by
  simp [ScopesWellFormed, c5Body, WFL, WFS, WFE, cmdS]
theorem c5_leaves : LeavesL RefLeaf c5Body := by
  simp [c5Body, LeavesL, LeavesS, LeavesE, CondLeaves, leavesOf, RefLeaf, flagE, cmdS]

/-- the table property behind statement 1 for the unoptimised order -/
example : FwdUnique c5Table := scriptChunks_fwdUnique c5Body c5Table c5_scopes c5_wellFormed c5Table_ok

/-- all hypotheses of the two main theorems hold for `c5Script`, for both chunk orders -/
example (b : Bool) := no_goto_to_next_label { optimize := b } [] [] c5Script (c5Lines b)
  c5_scopes c5_wellFormed (c5_emit b)
example (b : Bool) := no_goto_to_next_label_idx { optimize := b } [] [] c5Script (c5Lines b)
  c5_scopes c5_wellFormed (c5_emit b)
example := no_goto_to_next_label_opt { optimize := true } [] [] c5Script (c5Lines true) rfl (c5_emit true)
example (b : Bool) := no_goto_to_next_chunk { optimize := b } [] [] c5Script (c5Lines b) (c5_emit b)
example (b : Bool) := sub_label_referenced { optimize := b } [] [] c5Script (c5Lines b) c5_leaves
  (c5_emit b) c5Table c5Table_ok
example (b : Bool) := every_label_accounted { optimize := b } [] [] c5Script (c5Lines b) c5_leaves (c5_emit b)

/-- … and the conclusions are not vacuous: unoptimised, line 2 is `goto S_3` and the next visible
line is `S_1:`; optimised, line 12 is `goto S_1` and the next visible line is `S_6:`. -/
example : (c5Lines false)[2]? = some (.goto_ "S_3") ∧
    nextVisible ((c5Lines false).drop 3) = some (.labelDef "S_1" false) := by decide
example : (c5Lines true)[12]? = some (.goto_ "S_1") ∧
    nextVisible ((c5Lines true).drop 13) = some (.labelDef "S_6" false) := by decide
/-- the sub-label `S_2:` is emitted for both orders, and `goto_if_set F, S_2` names it -/
example (b : Bool) : Line.labelDef (jumpLabel "S" 2) false ∈ c5Lines b ∧
    Line.gotoIfSet "F" (jumpLabel "S" 2) ∈ c5Lines b := by
  cases b <;> decide

#print axioms no_goto_to_next_label
#print axioms no_goto_to_next_label_idx
#print axioms no_goto_to_next_label_opt
#print axioms no_goto_to_next_label_of_fwdUnique
#print axioms no_goto_to_next_chunk
#print axioms not_no_goto_to_next_label_full
#print axioms unscoped_counterexample
#print axioms sub_label_referenced
#print axioms sub_label_referenced_wf
#print axioms sub_label_referenced_chunk
#print axioms every_label_accounted
#print axioms badLeaf_counterexample

end Pory.C05c
