import PoryProofs.GotoNext
/-
C05c — PLACEHOLDER HEADER (rewritten at the end)
-/
namespace Pory.C05c
open Pory Pory.Emit Pory.RenderSim Pory.GotoNext

/-! ### the facts about one successful `emitScript` that the proofs use -/

/-- Forward tail edges of the chunk table are unique: two chunks whose `tailId` is the same chunk
`d` with a larger id than both are the same chunk. -/
def FwdUnique (G : List Chunk) : Prop :=
  ∀ a ∈ G, ∀ b ∈ G, ∀ d, tailId a = some d → tailId b = some d → a.id < d → b.id < d → a.id = b.id

structure EmitFacts (o : Opts) (patches : List ((Nat × Nat) × String)) (s : Script)
    (lines : List Line) (chunks : List Chunk) (order : List Nat) : Prop where
  hc : scriptChunks s.body = .ok chunks
  ho : C05.chunkOrder o chunks = .ok order
  hls : lines = layout o patches s.name chunks (s.scope == .GLOBAL)
    (regsOf o patches s.name chunks order) order
  closed : Closed chunks
  nodupG : (chunks.map (·.id)).Nodup
  zero : 0 ∈ chunks.map (·.id)
  perm : order.Perm (chunks.map (·.id))
  nodup : order.Nodup
  found : ∀ id ∈ order, findChunk chunks id = some (chunkOf chunks id)
  hyg : ∀ id ∈ order, ∀ n ∈ stmtLabels (chunkOf chunks id).statements,
    n.1 ∉ chunks.map (fun c => chunkLabel s.name c.id)

theorem emit_facts (o : Opts) (patches : List ((Nat × Nat) × String)) (tl : List String) (s : Script)
    (lines : List Line) (he : emitScript o patches tl s = .ok lines) :
    ∃ chunks order, EmitFacts o patches s lines chunks order := by
  rw [C05.emitScript_eq] at he
  cases hc : scriptChunks s.body with
  | error e => rw [hc] at he; cases he
  | ok chunks =>
    rw [hc] at he
    simp only at he
    obtain ⟨order, ho, hls, hall⟩ := renderChunks_ok o patches s.name chunks (s.scope == .GLOBAL) tl lines he
    obtain ⟨hn, h0⟩ := C05.scriptChunks_ids s.body chunks hc
    obtain ⟨hperm, _⟩ := C05.chunkOrder_perm o chunks order h0 ho
    have hfound : ∀ id ∈ order, findChunk chunks id = some (chunkOf chunks id) := by
      intro id hid
      obtain ⟨c, sl, hc', _⟩ := hall id hid
      simp [chunkOf, hc']
    refine ⟨chunks, order, ⟨hc, ho, hls, scriptChunks_closed s.body chunks hc, hn, h0, hperm,
      hperm.nodup_iff.2 hn, hfound, ?_⟩⟩
    intro id hid n hn'
    obtain ⟨c, sl, hc', hs⟩ := hall id hid
    have hco : chunkOf chunks id = c := by simp [chunkOf, hc']
    rw [hco] at hn'
    exact (renderStatements_ok o patches _ tl _ _ hs).2.2 n hn'

theorem chunkOf_id {G : List Chunk} {id : Nat} (h : findChunk G id = some (chunkOf G id)) :
    (chunkOf G id).id = id := by
  have := List.find?_some h
  simpa using this

/-! ### `HX` for the two orders -/

/-- In the optimised order the tail of `k`, when it is laid out after `k`, is laid out directly
after `k`. -/
theorem hx_optimized {G : List Chunk} {order : List Nat} (h0 : 0 ∈ G.map (·.id))
    (ho : optimizeChunkOrder G = .ok order) (hperm : order.Perm (G.map (·.id))) (hnd : order.Nodup)
    (hfound : ∀ id ∈ order, findChunk G id = some (chunkOf G id)) :
    ∀ opre k mid b c rest', order = opre ++ k :: (mid ++ b :: c :: rest') →
      tailId (chunkOf G k) = some c → tailId (chunkOf G b) ≠ some c := by
  intro opre k mid b c rest' hord htail _
  have htf := tail_follow G order h0 ho
  have hk : k ∈ order := by rw [hord]; simp
  have hc : c ∈ order := by rw [hord]; simp
  rw [hord] at hnd
  have hnd' := hnd
  rw [List.nodup_append] at hnd'
  obtain ⟨_, hnd2, hdisj⟩ := hnd'
  rw [List.nodup_cons] at hnd2
  have hcpre : c ∉ opre := fun hm => hdisj c hm c (by simp) rfl
  have hck : c ≠ k := by
    intro e; subst e
    exact hnd2.1 (by simp)
  -- the chunk laid out directly after `k`
  cases mid with
  | nil =>
    have := htf opre k b (c :: rest') (by rw [hord]; rfl) _ (hfound k hk) c htail
      (hperm.mem_iff.1 hc) hcpre hck
    subst this
    have hn := hnd2.2
    simp at hn
  | cons x mid' =>
    have := htf opre k x (mid' ++ b :: c :: rest') (by rw [hord]; rfl) _ (hfound k hk) c htail
      (hperm.mem_iff.1 hc) hcpre hck
    subst this
    have hn := hnd2.2
    simp at hn

/-- In the sorted order, `HX` is the uniqueness of forward tail edges. -/
theorem hx_sorted {G : List Chunk} {order : List Nat} (hfu : FwdUnique G)
    (hs : order.Pairwise (· ≤ ·)) (hnd : order.Nodup)
    (hfound : ∀ id ∈ order, findChunk G id = some (chunkOf G id)) :
    ∀ opre k mid b c rest', order = opre ++ k :: (mid ++ b :: c :: rest') →
      tailId (chunkOf G k) = some c → tailId (chunkOf G b) ≠ some c := by
  intro opre k mid b c rest' hord htk htb
  have hk : k ∈ order := by rw [hord]; simp
  have hb : b ∈ order := by rw [hord]; simp
  have hlt : order.Pairwise (· < ·) :=
    (hs.and hnd).imp (fun ⟨h1, h2⟩ => Nat.lt_of_le_of_ne h1 h2)
  rw [hord, List.pairwise_append, List.pairwise_cons] at hlt
  obtain ⟨_, ⟨hk1, hk2⟩, _⟩ := hlt
  have hkb : k < b := hk1 b (by simp)
  have hkc : k < c := hk1 c (by simp)
  rw [List.pairwise_append, List.pairwise_cons] at hk2
  have hbc : b < c := hk2.2.1.1 c (by simp)
  have hidk := chunkOf_id (hfound k hk)
  have hidb := chunkOf_id (hfound b hb)
  have := hfu _ (List.mem_of_find?_eq_some (hfound k hk)) _ (List.mem_of_find?_eq_some (hfound b hb)) c
    htk htb (by omega) (by omega)
  omega

/-! ### 1. no generated `goto` targets the label on the very next line -/

/-- Statement 1, **optimised order, every script**: the first line after a generated `goto L`
that is neither blank nor a line marker is not the label line `L:`. -/
theorem no_goto_to_next_label_opt (o : Opts) (patches : List ((Nat × Nat) × String))
    (tl : List String) (s : Script) (lines : List Line) (hopt : o.optimize = true)
    (he : emitScript o patches tl s = .ok lines) :
    ∀ pre post L, lines = pre ++ .goto_ L :: post → ∀ g, nextVisible post ≠ some (.labelDef L g) := by
  obtain ⟨chunks, order, F⟩ := emit_facts o patches tl s lines he
  have ho : optimizeChunkOrder chunks = .ok order := by
    have := F.ho
    unfold C05.chunkOrder at this
    rwa [if_pos hopt] at this
  exact no_goto_next_of o patches s.name chunks _ _ order lines F.hls F.closed F.found F.hyg
    (hx_optimized F.zero ho F.perm F.nodup F.found)

/-- Statement 1, **either order**, for scripts whose chunk table has unique forward tail edges
(`FwdUnique`; see `FwdUnique.lean`/`scriptChunks_fwdUnique` for when this holds). -/
theorem no_goto_to_next_label_of_fwdUnique (o : Opts) (patches : List ((Nat × Nat) × String))
    (tl : List String) (s : Script) (lines : List Line)
    (hfu : ∀ chunks, scriptChunks s.body = .ok chunks → FwdUnique chunks)
    (he : emitScript o patches tl s = .ok lines) :
    ∀ pre post L, lines = pre ++ .goto_ L :: post → ∀ g, nextVisible post ≠ some (.labelDef L g) := by
  by_cases hopt : o.optimize = true
  · exact no_goto_to_next_label_opt o patches tl s lines hopt he
  · obtain ⟨chunks, order, F⟩ := emit_facts o patches tl s lines he
    have ho : order = sortNat (chunks.map (·.id)) := by
      have := F.ho
      unfold C05.chunkOrder at this
      rw [if_neg hopt] at this
      injection this with this
      exact this.symm
    exact no_goto_next_of o patches s.name chunks _ _ order lines F.hls F.closed F.found F.hyg
      (hx_sorted (hfu chunks F.hc) (ho ▸ C05.sortNat_sorted _) F.nodup F.found)

end Pory.C05c
