import PoryProofs.FormatParamsShapes
import PoryProofs.Properties.C07
/-
C07b — parameter resolution of `format("…", …)`: which box geometry reaches `Fmt.formatText`.

Helpers: `PoryProofs/FormatParams.lean` (reference syntax `Pos` / `NamedP` / `Params`, `Written`,
`resolve`, `outcome`, run-lemmas for the named-parameter loop) and
`PoryProofs/FormatParamsShapes.lean` (`parseFormatStringOperator` shape by shape).

Everything is about the Lean model `parseFormatStringOperator` (`PoryModel/ParserLists.lean`) of
`parser.go`; all statements hold for every environment `env`, every parser state `s`, every
assignment of positions / literals to the tokens (only the token TYPES and the literals of the
parameter names are constrained: `Params.WF`), with and without a string type (`ascii"…"`), and
for every fuel `≥ named parameters + 1`.

Written shapes covered (`Params`): no parameter; `, "font"`; `, 100`; `, "font", 100`;
`, 100, "font"`; each of these followed by `,` and named parameters `name = value` in any order,
or named parameters only.  MORE than documented is covered (and accepted by the model and by
`parser.go`): the comma between two named parameters is optional and a trailing comma after the
last one is allowed (`NamedP.sep : Option Tok`).

Main results
* `format_params_resolved` : the run equals `outcome env text stringType (resolve env P.written) …`
  i.e. `Fmt.formatText` is called with exactly the resolved font id / line length / cursor overlap
  / number of lines; on `.ok out` the result is (text token, `out`, string type); the window is
  left on the closing parenthesis. Corollaries `format_params_succeeds_iff`,
  `format_params_result`, and `format_params_correct` (composition with C07 `format_correct`:
  for a known font the returned text is the rendering of an output satisfying W1–W4 for the
  RESOLVED geometry).
* `unknown_font_error_location` (finding F13): with environment errors on and an unknown font, the
  error is at the font-id token that is in force when one was written, else at the text token.
* Rejections, each with its located error: `reject_duplicate`, `reject_unknown_name`,
  `reject_positional_after_named`, `reject_no_parameter` (`format("t",)`), `reject_missing_paren`,
  and further `reject_missing_assign`, `reject_bad_value`, plus (in FormatParamsShapes)
  `reject_no_lparen`, `reject_no_text`, `reject_after_font` (`format("t","f",)`), `reject_after_len`.

DEVIATIONS of the model (= `parser.go`) from the documented rule, all stated and proved below:
1. `-l` versus an explicit non-positive length (`resolve` ≠ `resolveDoc`): a written
   `maxLineLength ≤ 0` falls back to the FONT's `maxLineLength`, not to `-l`; `-l` is only used when
   no length is written. `resolve_eq_resolveDoc` (they agree when no length is written, or the
   written one is positive, or `-l ≤ 0`), witness `deviation_explicit_zero_skips_l`:
   `format("aaa bbb ccc ddd", 0)` with `-l 40` and a font of maxLineLength 100 is formatted for 100.
2. Repetition: only the FIRST positional parameter is recorded as specified
   (`Params.NoRep`, weaker than the documented `Params.NoRepDoc`): `format("t", "f", 100,
   maxLineLength=40)` and `format("t", 100, "f", fontId="g")` are accepted, the named value wins
   (`deviation_second_positional_overridable`). The first positional one is protected
   (`reject_duplicate` with `hdup = .inl …`).
3. Commas between named parameters are optional and a trailing comma is accepted after named
   parameters and after two positional ones, but not after one (`deviation_optional_commas`,
   `reject_after_font`).
Nothing is partial: every statement asked for is proved for the model's actual rule.
-/
namespace Pory.C07b
open Pory Pory.Parser Pory.C02P Pory.Fmt

/-! ### small facts -/

theorem fpOf_hadParam (env : Env) (w : Written) (spec : List String) (had : Bool) :
    (fpOf env w spec had).hadParam = had := rfl

theorem fpOf_specified (env : Env) (w : Written) (spec : List String) (had : Bool) :
    (fpOf env w spec had).specified = spec := rfl

theorem Pos.mem_spec (p : Pos) (x : String) : x ∈ p.spec ↔ ∃ q, p.first = some q ∧ q.str = x := by
  unfold Pos.spec
  cases p.first <;> simp [eq_comm]

theorem fresh_of_first (pos : Pos) (ns : List NamedP) (h : ∀ n ∈ ns, pos.first ≠ some n.name) :
    ∀ n ∈ ns, n.name.str ∉ pos.spec := by
  intro m hm hin
  obtain ⟨q, hq, hqs⟩ := (Pos.mem_spec _ _).mp hin
  exact h m hm (by rw [hq, PName.str_inj hqs])

theorem outcome_ok_iff (env : Env) (text : Tok) (sty : String) (r : Resolved) (et : Tok) (s' : PState) :
    (∃ res, outcome env text sty r et s' = .ok res) ↔
      (∃ out, Fmt.formatText env.fonts text.lit.toList r.maxLineLength r.cursorOverlapWidth
          r.fontID r.numLines = .ok out) ∨ env.envErrors = false := by
  unfold outcome
  cases Fmt.formatText env.fonts text.lit.toList r.maxLineLength r.cursorOverlapWidth r.fontID
      r.numLines with
  | ok out => simp
  | error msg => cases env.envErrors <;> simp

theorem outcome_result (env : Env) (text : Tok) (sty : String) (r : Resolved) (et : Tok)
    (s' : PState) (a : Tok × String × String) (s'' : PState)
    (h : outcome env text sty r et s' = .ok (a, s'')) :
    a.1 = text ∧ a.2.2 = sty ∧ s'' = s' ∧
    a.2.1 = (match Fmt.formatText env.fonts text.lit.toList r.maxLineLength r.cursorOverlapWidth
                r.fontID r.numLines with
             | .ok out => String.ofList out
             | .error _ => "") := by
  unfold outcome at h
  cases hf : Fmt.formatText env.fonts text.lit.toList r.maxLineLength r.cursorOverlapWidth r.fontID
      r.numLines with
  | ok out =>
    simp only [hf, Except.ok.injEq, Prod.mk.injEq] at h
    obtain ⟨rfl, rfl⟩ := h
    simp
  | error msg =>
    cases he : env.envErrors with
    | true => simp [hf, he] at h
    | false =>
      simp only [hf, he, Bool.false_eq_true, if_false, Except.ok.injEq, Prod.mk.injEq] at h
      obtain ⟨rfl, rfl⟩ := h
      simp

/-- The font id is unknown to `formatText`: not in the font config, not empty, not `TEST`. -/
def UnknownFont (fc : Fmt.FontConfig) (fontID : String) : Prop :=
  (!fc.isFontIDValid fontID && decide (fontID.length > 0) && fontID != Facts.testFontID) = true

instance (fc : Fmt.FontConfig) (fontID : String) : Decidable (UnknownFont fc fontID) := by
  unfold UnknownFont; infer_instance

/-- The message of `formatText` for an unknown font. -/
def unknownFontMsg (fc : Fmt.FontConfig) (fontID : String) : String :=
  s!"unknown fontID '{fontID}' used in format(). List of valid fontIDs are '{goStringSlice (sortStrings (fc.fonts.map (·.1)))}'"

theorem formatText_unknown (fc : Fmt.FontConfig) (text : List Char) (mw ov : Int) (fontID : String)
    (nl : Int) (h : UnknownFont fc fontID) :
    Fmt.formatText fc text mw ov fontID nl = .error (unknownFontMsg fc fontID) := by
  unfold UnknownFont at h
  unfold Fmt.formatText
  rw [if_pos h]
  rfl

/-! ### the core: a written parameter list followed by any token `x` -/

section
variable (env : Env) (s : PState) (f : Nat) (fm lp : Tok) (sty : Option Tok) (text : Tok)
  (hlp : lp.type = .LPAREN) (hsty : ∀ t, sty = some t → t.type = .STRINGTYPE)
  (htext : text.type = .STRING)
include hlp hsty htext

/-- `format ( [stringtype] "text" <params> x`: if `x` is `)` the parameters are resolved and the
text formatted, otherwise (x not a comma / name, and no trailing comma before it) the error is
"missing closing parenthesis" at `x`. -/
theorem format_params_core (P : Params) (x : Tok) (rest : List Tok) (hP : P.WF) (hrep : P.NoRep)
    (hx1 : x.type ≠ .COMMA) (hx2 : x.type ≠ .IDENT) (hx3 : LastOK P.named x) :
    (parseFormatStringOperator env (P.named.length + (f + 1))).run
        (st s (fm :: lp :: (sty.toList ++ text :: (P.toks ++ x :: rest)))) =
      if x.type = .RPAREN then
        outcome env text (styLit sty) (resolve env P.written) (P.written.font?.getD text)
          (st s (x :: rest))
      else .error (missingParen x) := by
  obtain ⟨pos, comma, named⟩ := P
  have hfont : (named.foldl NamedP.set pos.written).FontOK :=
    Params.written_fontOK ⟨pos, comma, named⟩ hP
  obtain ⟨hpos, hcomma, hwf⟩ := hP
  obtain ⟨hnd, hfirst⟩ := hrep
  simp only at hpos hcomma hwf hnd hfirst hx3
  cases named with
  | nil =>
    simp only [Params.toks, List.append_nil, List.length_nil, Nat.zero_add]
    rw [posOnly env _ s fm lp sty text hlp hsty htext pos x rest hpos hx1, tailM_run,
      resolveFp_fpOf, errTokFp_fpOf _ _ _ _ _ (Pos.written_fontOK pos hpos)]
    rfl
  | cons n r =>
    have hn := hwf n (by simp)
    have hlist : fm :: lp :: (sty.toList ++ text ::
          ((Params.toks ⟨pos, comma, n :: r⟩) ++ x :: rest)) =
        fm :: lp :: (sty.toList ++ text :: (pos.toks ++ comma :: n.nameTok ::
          (n.eq :: n.val :: n.sep.toList ++ printNamed r ++ x :: rest))) := by
      simp [Params.toks, printNamed, NamedP.toks, List.append_assoc]
    have hback : comma :: n.nameTok :: (n.eq :: n.val :: n.sep.toList ++ printNamed r ++ x :: rest) =
        comma :: printNamed (n :: r) ++ x :: rest := by
      simp [printNamed, NamedP.toks, List.append_assoc]
    have hnew : ∀ m ∈ n :: r, m.name.str ∉ (fpOf env pos.written pos.spec pos.had).specified :=
      fresh_of_first pos _ hfirst
    have hhad : (pos.had || !(n :: r).isEmpty) = true := by simp
    rw [hlist, reach env _ s fm lp sty text hlp hsty htext pos comma n.nameTok _ hpos
        (hcomma (by simp)) (Pos.reachOK_ident _ _ hn.1), hback, StateT.run_bind,
      fnp_all (n :: r) f _ s comma x rest hwf hnd hnew hx3 hx2]
    simp only [ex_bind_ok]
    rw [namedTail_run, foldl_applyNamed_fpOf, hhad, fpOf_hadParam, if_pos rfl, tailM_run,
      resolveFp_fpOf, errTokFp_fpOf _ _ _ _ _ hfont]
    rfl

/-! ### 2. acceptance: the resolved parameters reach `formatText` -/

/-- **C07b main theorem.** On `format ( [stringtype] "text" <printed params> )` the parser's run is
`outcome … (resolve env P.written) …`: `Fmt.formatText` is applied to the text with the resolved
font id, line length, cursor overlap and number of lines; if it succeeds the result is the text
token, the formatted text and the string type; if it fails (unknown font) the result is an error at
the font-id token in force (else the text token) when environment errors are on, and the empty
text otherwise; in every successful case the window is left at the closing parenthesis. -/
theorem format_params_resolved (P : Params) (rp : Tok) (rest : List Tok) (hP : P.WF)
    (hrep : P.NoRep) (hrp : rp.type = .RPAREN) :
    (parseFormatStringOperator env (P.named.length + (f + 1))).run
        (st s (fm :: lp :: (sty.toList ++ text :: (P.toks ++ rp :: rest)))) =
      outcome env text (styLit sty) (resolve env P.written) (P.written.font?.getD text)
        (st s (rp :: rest)) := by
  rw [format_params_core env s f fm lp sty text hlp hsty htext P rp rest hP hrep (by simp [hrp])
    (by simp [hrp]) (lastOK_of rp (fun n => stepOK_rparen n rp hrp) _), if_pos hrp]

/-- The run succeeds exactly when `formatText` succeeds for the resolved parameters, or
environment errors are off. -/
theorem format_params_succeeds_iff (P : Params) (rp : Tok) (rest : List Tok) (hP : P.WF)
    (hrep : P.NoRep) (hrp : rp.type = .RPAREN) :
    (∃ res, (parseFormatStringOperator env (P.named.length + (f + 1))).run
        (st s (fm :: lp :: (sty.toList ++ text :: (P.toks ++ rp :: rest)))) = .ok res) ↔
      (∃ out, Fmt.formatText env.fonts text.lit.toList (resolve env P.written).maxLineLength
          (resolve env P.written).cursorOverlapWidth (resolve env P.written).fontID
          (resolve env P.written).numLines = .ok out) ∨ env.envErrors = false := by
  rw [format_params_resolved env s f fm lp sty text hlp hsty htext P rp rest hP hrep hrp]
  exact outcome_ok_iff _ _ _ _ _ _

/-- A successful run returns the text token, the string type, the text formatted for the resolved
parameters (empty if the font is unknown and environment errors are off), and leaves the window
at the closing parenthesis with the rest of the state unchanged. -/
theorem format_params_result (P : Params) (rp : Tok) (rest : List Tok) (hP : P.WF)
    (hrep : P.NoRep) (hrp : rp.type = .RPAREN) (a : Tok × String × String) (s' : PState)
    (h : (parseFormatStringOperator env (P.named.length + (f + 1))).run
        (st s (fm :: lp :: (sty.toList ++ text :: (P.toks ++ rp :: rest)))) = .ok (a, s')) :
    a.1 = text ∧ a.2.2 = styLit sty ∧ s' = st s (rp :: rest) ∧
    a.2.1 = (match Fmt.formatText env.fonts text.lit.toList (resolve env P.written).maxLineLength
                (resolve env P.written).cursorOverlapWidth (resolve env P.written).fontID
                (resolve env P.written).numLines with
             | .ok out => String.ofList out
             | .error _ => "") := by
  rw [format_params_resolved env s f fm lp sty text hlp hsty htext P rp rest hP hrep hrp] at h
  exact outcome_result _ _ _ _ _ _ _ _ h

/-- Composition with C07 `format_correct`: for a font id `formatText` accepts, the returned text is
the rendering of an abstract output that keeps the words of the text (W1), obeys the break
discipline (W4), fits (W2) and is greedy (W3) — for the RESOLVED box geometry. -/
theorem format_params_correct (P : Params) (rp : Tok) (rest : List Tok) (hP : P.WF)
    (hrep : P.NoRep) (hrp : rp.type = .RPAREN)
    (hv : (!env.fonts.isFontIDValid (resolve env P.written).fontID &&
            (resolve env P.written).fontID.length > 0 &&
            (resolve env P.written).fontID != Facts.testFontID) = false) :
    ∃ its : List OutItem,
      (parseFormatStringOperator env (P.named.length + (f + 1))).run
          (st s (fm :: lp :: (sty.toList ++ text :: (P.toks ++ rp :: rest)))) =
        .ok ((text, String.ofList (render false its), styLit sty), st s (rp :: rest)) ∧
      AllMatch (its.filter (fun i => !i.isWrap)) (allWords (normalize text.lit.toList)) ∧
      Disciplined (resolve env P.written).numLines 0 its ∧
      Fits (C07.wd env.fonts (resolve env P.written).fontID) (resolve env P.written).maxLineLength
        (resolve env P.written).cursorOverlapWidth (resolve env P.written).numLines
        (getRunePixelWidth env.fonts ' ' (resolve env P.written).fontID) 0 [] its ∧
      LinesFit (C07.wd env.fonts (resolve env P.written).fontID)
        (resolve env P.written).maxLineLength (resolve env P.written).cursorOverlapWidth
        (resolve env P.written).numLines
        (getRunePixelWidth env.fonts ' ' (resolve env P.written).fontID) 0 [] its ∧
      Greedy (C07.wd env.fonts (resolve env P.written).fontID)
        (resolve env P.written).maxLineLength (resolve env P.written).cursorOverlapWidth
        (resolve env P.written).numLines
        (getRunePixelWidth env.fonts ' ' (resolve env P.written).fontID) 0 [] its := by
  obtain ⟨its, h1, h2, h3, h4, h5, h6⟩ :=
    C07.format_correct env.fonts (resolve env P.written).fontID
      (resolve env P.written).maxLineLength (resolve env P.written).cursorOverlapWidth
      (resolve env P.written).numLines text.lit.toList hv
  refine ⟨its, ?_, h2, h3, h4, h5, h6⟩
  rw [format_params_resolved env s f fm lp sty text hlp hsty htext P rp rest hP hrep hrp]
  unfold outcome
  rw [h1]

/-! ### 4. location of the unknown-font error (finding F13) -/

/-- With environment errors on and a font id unknown to `formatText`, the run fails with
`formatText`'s message located at the font-id token in force (`P.written.font?`: the last written
one) when a font id was written, else at the text token. -/
theorem unknown_font_error_location (P : Params) (rp : Tok) (rest : List Tok) (hP : P.WF)
    (hrep : P.NoRep) (hrp : rp.type = .RPAREN) (herr : env.envErrors = true)
    (hunk : UnknownFont env.fonts (resolve env P.written).fontID) :
    (parseFormatStringOperator env (P.named.length + (f + 1))).run
        (st s (fm :: lp :: (sty.toList ++ text :: (P.toks ++ rp :: rest)))) =
      .error (newParseError
        (match P.written.font? with
         | some fontTok => fontTok
         | none => text)
        (unknownFontMsg env.fonts (resolve env P.written).fontID)) := by
  rw [format_params_resolved env s f fm lp sty text hlp hsty htext P rp rest hP hrep hrp]
  unfold outcome
  rw [formatText_unknown _ _ _ _ _ _ hunk]
  simp only [herr, if_true]
  cases P.written.font? <;> rfl

/-! ### 3. rejections with located errors -/

/-- `… "text" <params> x` where `x` is not `)` (nor a comma / name, and `<params>` does not end with
a comma): "missing closing parenthesis" located at `x`. -/
theorem reject_missing_paren (P : Params) (x : Tok) (rest : List Tok) (hP : P.WF) (hrep : P.NoRep)
    (hx0 : x.type ≠ .RPAREN) (hx1 : x.type ≠ .COMMA) (hx2 : x.type ≠ .IDENT)
    (hx3 : LastOK P.named x) :
    (parseFormatStringOperator env (P.named.length + (f + 1))).run
        (st s (fm :: lp :: (sty.toList ++ text :: (P.toks ++ x :: rest)))) =
      .error (newParseError x "missing closing parenthesis ')' for format()") := by
  rw [format_params_core env s f fm lp sty text hlp hsty htext P x rest hP hrep hx1 hx2 hx3,
    if_neg hx0]
  rfl

/-- `format("t", x` with `x` neither a positional parameter nor a name (`format("t",)` in
particular): "invalid format() parameter" located at `x`. -/
theorem reject_no_parameter (c x : Tok) (rest : List Tok) (hc : c.type = .COMMA)
    (hx1 : x.type ≠ .INT) (hx2 : x.type ≠ .STRING) (hx3 : x.type ≠ .IDENT) :
    (parseFormatStringOperator env (f + 1)).run
        (st s (fm :: lp :: (sty.toList ++ text :: c :: x :: rest))) =
      .error (newParseError x s!"invalid format() parameter '{x.lit}'") := by
  rw [reach_none env _ s fm lp sty text hlp hsty htext c x rest hc hx1 hx2, StateT.run_bind,
    fnp_stop _ _ _ _ _ _ hx3]
  simp only [ex_bind_ok]
  rw [namedTail_run, fpOf_hadParam]
  rfl

/-- Generic form of the rejections inside the named-parameter list: after the positional prefix
`pos`, a comma and the valid named parameters `ns`, the remaining tokens `bad` (starting with an
identifier) make the loop fail with `e`; then the whole operator fails with `e`. -/
theorem named_fail (pos : Pos) (comma : Tok) (ns : List NamedP) (bad : List Tok) (e : PFail)
    (hpos : pos.WF) (hc : comma.type = .COMMA) (hwf : ∀ n ∈ ns, n.WF)
    (hnd : (ns.map (·.name)).Nodup) (hfirst : ∀ n ∈ ns, pos.first ≠ some n.name)
    (hhead : ∃ nt tl, bad = nt :: tl ∧ nt.type = .IDENT)
    (hbad : ∀ c, (formatNamedParams (f + 1)
        (fpOf env (ns.foldl NamedP.set pos.written) (specAfter pos.spec ns)
          (pos.had || !ns.isEmpty))).run (st s (c :: bad)) = .error e) :
    (parseFormatStringOperator env (ns.length + (f + 1))).run
        (st s (fm :: lp :: (sty.toList ++ text :: (pos.toks ++ comma :: (printNamed ns ++ bad))))) =
      .error e := by
  obtain ⟨nt, tl, rfl, hnt⟩ := hhead
  have hh : ∃ a l, printNamed ns ++ nt :: tl = a :: l ∧ a.type = .IDENT := by
    cases ns with
    | nil => exact ⟨nt, tl, rfl, hnt⟩
    | cons n r => exact ⟨n.nameTok, _, rfl, (hwf n (by simp)).1⟩
  obtain ⟨a, l, heq, ha⟩ := hh
  have hnew : ∀ m ∈ ns, m.name.str ∉ (fpOf env pos.written pos.spec pos.had).specified :=
    fresh_of_first pos _ hfirst
  rw [heq, reach env _ s fm lp sty text hlp hsty htext pos comma a l hpos hc
      (Pos.reachOK_ident _ _ ha), ← heq, StateT.run_bind, ← List.cons_append,
    fnp_prefix ns (f + 1) _ s comma nt tl hwf hnd hnew
      (lastOK_of nt (fun n => stepOK_ident n nt hnt) _),
    foldl_applyNamed_fpOf, hbad]
  rfl

/-- Duplicate parameter: a name that was already given by name or as the FIRST positional
parameter. The error is located at the second occurrence's name token. -/
theorem reject_duplicate (pos : Pos) (comma : Tok) (ns : List NamedP) (name : PName)
    (nameTok eq : Tok) (tl : List Tok)
    (hpos : pos.WF) (hc : comma.type = .COMMA) (hwf : ∀ n ∈ ns, n.WF)
    (hnd : (ns.map (·.name)).Nodup) (hfirst : ∀ n ∈ ns, pos.first ≠ some n.name)
    (h1 : nameTok.type = .IDENT) (h2 : nameTok.lit = name.str) (h3 : eq.type = .ASSIGN)
    (hdup : pos.first = some name ∨ ∃ n ∈ ns, n.name = name) :
    (parseFormatStringOperator env (ns.length + (f + 1))).run
        (st s (fm :: lp :: (sty.toList ++ text ::
          (pos.toks ++ comma :: (printNamed ns ++ nameTok :: eq :: tl))))) =
      .error (newParseError nameTok s!"duplicate parameter '{name.str}'") := by
  refine named_fail env s f fm lp sty text hlp hsty htext pos comma ns _ _ hpos hc hwf hnd hfirst
    ⟨nameTok, _, rfl, h1⟩ (fun c => ?_)
  refine fnp_dup f _ s c nameTok eq tl name h1 h2 h3 ?_
  rw [fpOf_specified, mem_specAfter]
  rcases hdup with h | ⟨n, hn, rfl⟩
  · exact .inl ((Pos.mem_spec _ _).mpr ⟨name, h, rfl⟩)
  · exact .inr ⟨n, hn, rfl⟩

/-- Unknown named parameter: located at the name token. -/
theorem reject_unknown_name (pos : Pos) (comma : Tok) (ns : List NamedP) (nameTok : Tok)
    (tl : List Tok)
    (hpos : pos.WF) (hc : comma.type = .COMMA) (hwf : ∀ n ∈ ns, n.WF)
    (hnd : (ns.map (·.name)).Nodup) (hfirst : ∀ n ∈ ns, pos.first ≠ some n.name)
    (h1 : nameTok.type = .IDENT) (h2 : nameTok.lit ∉ Facts.namedParameters) :
    (parseFormatStringOperator env (ns.length + (f + 1))).run
        (st s (fm :: lp :: (sty.toList ++ text ::
          (pos.toks ++ comma :: (printNamed ns ++ nameTok :: tl))))) =
      .error (newParseError nameTok s!"invalid format() named parameter '{nameTok.lit}'") :=
  named_fail env s f fm lp sty text hlp hsty htext pos comma ns _ _ hpos hc hwf hnd hfirst
    ⟨nameTok, _, rfl, h1⟩ (fun c => fnp_unknown f _ s c nameTok tl h1 h2)

/-- A known name not followed by `=`: located at the token after the name. -/
theorem reject_missing_assign (pos : Pos) (comma : Tok) (ns : List NamedP) (name : PName)
    (nameTok nx : Tok) (tl : List Tok)
    (hpos : pos.WF) (hc : comma.type = .COMMA) (hwf : ∀ n ∈ ns, n.WF)
    (hnd : (ns.map (·.name)).Nodup) (hfirst : ∀ n ∈ ns, pos.first ≠ some n.name)
    (h1 : nameTok.type = .IDENT) (h2 : nameTok.lit = name.str) (h3 : nx.type ≠ .ASSIGN) :
    (parseFormatStringOperator env (ns.length + (f + 1))).run
        (st s (fm :: lp :: (sty.toList ++ text ::
          (pos.toks ++ comma :: (printNamed ns ++ nameTok :: nx :: tl))))) =
      .error (newParseError nx s!"missing '=' after format() named parameter '{name.str}'") :=
  named_fail env s f fm lp sty text hlp hsty htext pos comma ns _ _ hpos hc hwf hnd hfirst
    ⟨nameTok, _, rfl, h1⟩ (fun c => fnp_noassign f _ s c nameTok nx tl name h1 h2 h3)

/-- A value of the wrong token type (`fontId=3`, `numLines="x"`): located at the value token. -/
theorem reject_bad_value (pos : Pos) (comma : Tok) (ns : List NamedP) (name : PName)
    (nameTok eq val : Tok) (tl : List Tok)
    (hpos : pos.WF) (hc : comma.type = .COMMA) (hwf : ∀ n ∈ ns, n.WF)
    (hnd : (ns.map (·.name)).Nodup) (hfirst : ∀ n ∈ ns, pos.first ≠ some n.name)
    (h1 : nameTok.type = .IDENT) (h2 : nameTok.lit = name.str) (h3 : eq.type = .ASSIGN)
    (hnew : pos.first ≠ some name ∧ ∀ n ∈ ns, n.name ≠ name) (h4 : val.type ≠ name.valTT) :
    (parseFormatStringOperator env (ns.length + (f + 1))).run
        (st s (fm :: lp :: (sty.toList ++ text ::
          (pos.toks ++ comma :: (printNamed ns ++ nameTok :: eq :: val :: tl))))) =
      .error (newParseError val (badValueMsg name val.lit)) := by
  refine named_fail env s f fm lp sty text hlp hsty htext pos comma ns _ _ hpos hc hwf hnd hfirst
    ⟨nameTok, _, rfl, h1⟩ (fun c => ?_)
  refine fnp_badval f _ s c nameTok eq val tl name h1 h2 h3 ?_ h4
  rw [fpOf_specified, mem_specAfter]
  rintro (h | ⟨n, hn, hs⟩)
  · obtain ⟨q, hq, hqs⟩ := (Pos.mem_spec _ _).mp h
    exact hnew.1 (by rw [hq, PName.str_inj hqs])
  · exact hnew.2 n hn (PName.str_inj hs)

/-- A named parameter followed by a comma and a positional parameter (anything that is neither a
name nor `)`): "Expected named parameter" located at that token. -/
theorem reject_positional_after_named (pos : Pos) (comma : Tok) (ns : List NamedP) (n : NamedP)
    (cm nx : Tok) (tl : List Tok)
    (hpos : pos.WF) (hc : comma.type = .COMMA) (hwf : ∀ m ∈ ns, m.WF)
    (hnd : (ns.map (·.name)).Nodup) (hfirst : ∀ m ∈ ns, pos.first ≠ some m.name)
    (hn : n.WF) (hsep : n.sep = some cm)
    (hnew : pos.first ≠ some n.name ∧ ∀ m ∈ ns, m.name ≠ n.name)
    (hx1 : nx.type ≠ .IDENT) (hx2 : nx.type ≠ .RPAREN) :
    (parseFormatStringOperator env (ns.length + (f + 1))).run
        (st s (fm :: lp :: (sty.toList ++ text ::
          (pos.toks ++ comma :: (printNamed ns ++ (n.toks ++ nx :: tl)))))) =
      .error (newParseError nx s!"invalid parameter '{nx.lit}'. Expected named parameter") := by
  refine named_fail env s f fm lp sty text hlp hsty htext pos comma ns _ _ hpos hc hwf hnd hfirst
    ⟨n.nameTok, _, rfl, hn.1⟩ (fun c => ?_)
  refine fnp_afterComma f _ s c n cm nx tl hn hsep ?_ hx1 hx2
  rw [fpOf_specified, mem_specAfter]
  rintro (h | ⟨m, hm, hs⟩)
  · obtain ⟨q, hq, hqs⟩ := (Pos.mem_spec _ _).mp h
    exact hnew.1 (by rw [hq, PName.str_inj hqs])
  · exact hnew.2 m hm (PName.str_inj hs)

end

/-! ### deviation 1: `-l` and an explicit non-positive length -/

/-- The model's rule and the documented one agree unless a non-positive length is written while
`-l` is positive. -/
theorem resolve_eq_resolveDoc (env : Env) (w : Written)
    (h : w.maxLen? = none ∨ (∃ t, w.maxLen? = some t ∧ 0 < valOf t) ∨ env.maxLineLength ≤ 0) :
    resolve env w = resolveDoc env w := by
  obtain ⟨fo, ml, nl, ov⟩ := w
  cases ml with
  | none => rfl
  | some t =>
    rcases h with h | ⟨t', ht, hpos⟩ | h
    · simp at h
    · simp only [Option.some.injEq] at ht
      subst ht
      simp [resolve, resolveDoc, hpos]
    · have h' : ¬ 0 < env.maxLineLength := by omega
      simp [resolve, resolveDoc, h']

/-! ### concrete instances (non-vacuity) -/

/-- Font config with one font `f`: line length 100, 3 lines, every character 10 wide. -/
def exFonts : Fmt.FontConfig :=
  { defaultFontID := "f"
    fonts := [("f", { widths := [("default", 10)], cursorOverlapWidth := 0, maxLineLength := 100,
                      numLines := 3 })] }

/-- `-l 40`, no `-f`. -/
def exEnv : Env := { fonts := exFonts, maxLineLength := 40 }

def tFormat : Tok := tkp ⟨1, 0, 0, 1, 6, 6⟩ .FORMAT "format"
def tLp : Tok := tkp ⟨1, 6, 6, 1, 7, 7⟩ .LPAREN "("
def tText : Tok := tkp ⟨1, 7, 7, 1, 24, 24⟩ .STRING "aaa bbb ccc ddd"
def tC (k : Nat) : Tok := tkp ⟨1, k, k, 1, k + 1, k + 1⟩ .COMMA ","
def tRp : Tok := tkp ⟨1, 60, 60, 1, 61, 61⟩ .RPAREN ")"
def tStr (k : Nat) (l : String) : Tok := tkp ⟨1, k, k, 1, k + 5, k + 5⟩ .STRING l
def tInt (k : Nat) (l : String) : Tok := tkp ⟨1, k, k, 1, k + 3, k + 3⟩ .INT l
def tId (k : Nat) (l : String) : Tok := tkp ⟨1, k, k, 1, k + 8, k + 8⟩ .IDENT l
def tEq (k : Nat) : Tok := tkp ⟨1, k, k, 1, k + 1, k + 1⟩ .ASSIGN "="
def s0 : PState := { toks := [], eof := tk .EOF "" }

def named (name : PName) (k : Nat) (val : Tok) (sep : Option Tok) : NamedP :=
  { name := name, nameTok := tId k name.str, eq := tEq (k + 8), val := val, sep := sep }

theorem named_wf_int (name : PName) (k j : Nat) (l : String) (sep : Option Tok)
    (hname : name ≠ .fontId) (hsep : ∀ c, sep = some c → c.type = .COMMA) :
    (named name k (tInt j l) sep).WF := by
  refine ⟨rfl, rfl, rfl, ?_, hsep⟩
  cases name <;> first | rfl | exact absurd rfl hname

theorem named_wf_font (k j : Nat) (l : String) (sep : Option Tok)
    (hsep : ∀ c, sep = some c → c.type = .COMMA) : (named .fontId k (tStr j l) sep).WF :=
  ⟨rfl, rfl, rfl, rfl, hsep⟩

/-- Shape 1 — `format("aaa bbb ccc ddd", "f", 110)`: font `f`, 110 pixels, the font's 3 lines. -/
def exP1 : Params := ⟨.fontLen (tC 24) (tStr 26 "f") (tC 31) (tInt 33 "110"), tC 0, []⟩

example : exP1.WF ∧ exP1.NoRep :=
  ⟨⟨⟨rfl, rfl, rfl, rfl⟩, by simp [exP1], by simp [exP1]⟩, by simp [exP1, Params.NoRep]⟩

example : resolve exEnv exP1.written = ⟨"f", 110, 0, 3⟩ := by decide

example :
    (parseFormatStringOperator exEnv 1).run
        (st s0 [tFormat, tLp, tText, tC 24, tStr 26 "f", tC 31, tInt 33 "110", tRp]) =
      .ok ((tText, "aaa bbb ccc\\n\nddd", ""), st s0 [tRp]) :=
  (format_params_resolved exEnv s0 0 tFormat tLp none tText rfl (by simp) rfl exP1 tRp []
    ⟨⟨rfl, rfl, rfl, rfl⟩, by simp [exP1], by simp [exP1]⟩ (by simp [exP1, Params.NoRep]) rfl).trans
    (by rfl)

/-- Shape 2 — `format(ascii"aaa bbb ccc ddd", 70, numLines=1, cursorOverlapWidth=10)`: no font
written (falls back to the config's default `f` since `-f` is empty), 70 pixels, 1 line,
overlap 10. -/
def exP2 : Params :=
  ⟨.len (tC 24) (tInt 26 "70"), tC 29,
   [named .numLines 31 (tInt 40 "1") (some (tC 41)),
    named .cursorOverlapWidth 43 (tInt 62 "10") none]⟩

theorem exP2_ok : exP2.WF ∧ exP2.NoRep := by
  refine ⟨⟨⟨rfl, rfl⟩, fun _ => rfl, ?_⟩, ?_, ?_⟩
  · intro n hn
    simp only [exP2, List.mem_cons, List.not_mem_nil, or_false] at hn
    rcases hn with rfl | rfl
    · exact named_wf_int _ _ _ _ _ (by decide) (by intro c hc; cases hc; rfl)
    · exact named_wf_int _ _ _ _ _ (by decide) (by simp)
  · simp [exP2, named]
  · intro n hn
    simp only [exP2, List.mem_cons, List.not_mem_nil, or_false] at hn
    rcases hn with rfl | rfl <;> simp [exP2, Pos.first, named]

example : resolve exEnv exP2.written = ⟨"f", 70, 10, 1⟩ := by decide

example :
    (parseFormatStringOperator exEnv 3).run
        (st s0 ([tFormat, tLp, tk .STRINGTYPE "ascii", tText] ++ exP2.toks ++ [tRp])) =
      .ok ((tText, "aaa\\l\nbbb\\l\nccc ddd", "ascii"), st s0 [tRp]) :=
  (format_params_resolved exEnv s0 0 tFormat tLp (some (tk .STRINGTYPE "ascii")) tText rfl
    (by intro t ht; cases ht; rfl) rfl exP2 tRp [] exP2_ok.1 exP2_ok.2 rfl).trans (by rfl)

/-- Shape 3 — named parameters only, `format("aaa bbb ccc ddd", maxLineLength=70, fontId="g")`
with the unknown font `g`: error located at the token `"g"` (F13); with no font written and an
unknown `-f` font the error is located at the text token. -/
def exP3 : Params :=
  ⟨.none, tC 24,
   [named .maxLineLength 26 (tInt 40 "70") (some (tC 42)), named .fontId 44 (tStr 51 "g") none]⟩

theorem exP3_ok : exP3.WF ∧ exP3.NoRep := by
  refine ⟨⟨trivial, fun _ => rfl, ?_⟩, ?_, ?_⟩
  · intro n hn
    simp only [exP3, List.mem_cons, List.not_mem_nil, or_false] at hn
    rcases hn with rfl | rfl
    · exact named_wf_int _ _ _ _ _ (by decide) (by intro c hc; cases hc; rfl)
    · exact named_wf_font _ _ _ _ (by simp)
  · simp [exP3, named]
  · intro n _
    simp [exP3, Pos.first]

example : UnknownFont exEnv.fonts (resolve exEnv exP3.written).fontID := by decide

example :
    (parseFormatStringOperator exEnv 3).run (st s0 ([tFormat, tLp, tText] ++ exP3.toks ++ [tRp])) =
      .error (newParseError (tStr 51 "g") (unknownFontMsg exFonts "g")) :=
  unknown_font_error_location exEnv s0 0 tFormat tLp none tText rfl (by simp) rfl exP3 tRp []
    exP3_ok.1 exP3_ok.2 rfl rfl (by decide)

example :
    (parseFormatStringOperator { exEnv with defaultFontID := "h" } 1).run
        (st s0 [tFormat, tLp, tText, tRp]) =
      .error (newParseError tText (unknownFontMsg exFonts "h")) :=
  unknown_font_error_location { exEnv with defaultFontID := "h" } s0 0 tFormat tLp none tText rfl
    (by simp) rfl ⟨.none, tC 0, []⟩ tRp [] ⟨trivial, by simp, by simp⟩ (by simp [Params.NoRep])
    rfl rfl (by decide)

/-- `format_params_correct` instantiated on shape 1 (font `f` is known). -/
example : ∃ its : List OutItem,
    (parseFormatStringOperator exEnv 1).run
        (st s0 [tFormat, tLp, tText, tC 24, tStr 26 "f", tC 31, tInt 33 "110", tRp]) =
      .ok ((tText, String.ofList (render false its), ""), st s0 [tRp]) ∧
    Disciplined 3 0 its := by
  obtain ⟨its, h, _, hd, _⟩ :=
    format_params_correct exEnv s0 0 tFormat tLp none tText rfl (by simp) rfl exP1 tRp []
      ⟨⟨rfl, rfl, rfl, rfl⟩, by simp [exP1], by simp [exP1]⟩ (by simp [exP1, Params.NoRep]) rfl
      (by decide)
  exact ⟨its, h, hd⟩

/-! ### rejections on concrete token lists -/

/-- `format("…", numLines=1, numLines=2)`: duplicate, at the second `numLines`. -/
example :
    (parseFormatStringOperator exEnv 2).run
        (st s0 [tFormat, tLp, tText, tC 24, tId 26 "numLines", tEq 34, tInt 35 "1", tC 36,
                tId 38 "numLines", tEq 46, tInt 47 "2", tRp]) =
      .error (newParseError (tId 38 "numLines") "duplicate parameter 'numLines'") :=
  reject_duplicate exEnv s0 0 tFormat tLp none tText rfl (by simp) rfl .none (tC 24)
    [named .numLines 26 (tInt 35 "1") (some (tC 36))] .numLines (tId 38 "numLines") (tEq 46)
    [tInt 47 "2", tRp] trivial rfl
    (by intro n hn; simp only [List.mem_singleton] at hn; subst hn
        exact named_wf_int _ _ _ _ _ (by decide) (by intro c hc; cases hc; rfl))
    (by simp) (by simp [Pos.first]) rfl rfl rfl (.inr ⟨named .numLines 26 (tInt 35 "1") (some (tC 36)), by simp, rfl⟩)

/-- `format("…", "f", fontId="f")`: the first positional parameter counts as specified. -/
example :
    (parseFormatStringOperator exEnv 1).run
        (st s0 [tFormat, tLp, tText, tC 24, tStr 26 "f", tC 31, tId 33 "fontId", tEq 39,
                tStr 40 "f", tRp]) =
      .error (newParseError (tId 33 "fontId") "duplicate parameter 'fontId'") :=
  reject_duplicate exEnv s0 0 tFormat tLp none tText rfl (by simp) rfl
    (.font (tC 24) (tStr 26 "f")) (tC 31) [] .fontId (tId 33 "fontId") (tEq 39) [tStr 40 "f", tRp]
    ⟨rfl, rfl⟩ rfl (by simp) (by simp) (by simp) rfl rfl rfl (.inl rfl)

/-- `format("…", lines=3)`: unknown name, at `lines`. -/
example :
    (parseFormatStringOperator exEnv 1).run
        (st s0 [tFormat, tLp, tText, tC 24, tId 26 "lines", tEq 31, tInt 32 "3", tRp]) =
      .error (newParseError (tId 26 "lines") "invalid format() named parameter 'lines'") :=
  reject_unknown_name exEnv s0 0 tFormat tLp none tText rfl (by simp) rfl .none (tC 24) []
    (tId 26 "lines") [tEq 31, tInt 32 "3", tRp] trivial rfl (by simp) (by simp) (by simp) rfl
    (by decide)

/-- `format("…", numLines=1, "f")`: positional after named, at `"f"`. -/
example :
    (parseFormatStringOperator exEnv 1).run
        (st s0 [tFormat, tLp, tText, tC 24, tId 26 "numLines", tEq 34, tInt 35 "1", tC 36,
                tStr 38 "f", tRp]) =
      .error (newParseError (tStr 38 "f") "invalid parameter 'f'. Expected named parameter") :=
  reject_positional_after_named exEnv s0 0 tFormat tLp none tText rfl (by simp) rfl .none (tC 24) []
    (named .numLines 26 (tInt 35 "1") (some (tC 36))) (tC 36) (tStr 38 "f") [tRp] trivial rfl
    (by simp) (by simp) (by simp)
    (named_wf_int _ _ _ _ _ (by decide) (by intro c hc; cases hc; rfl)) rfl
    ⟨by simp [Pos.first], by simp⟩ (by decide) (by decide)

/-- `format("…",)`: at `)`. -/
example :
    (parseFormatStringOperator exEnv 1).run (st s0 [tFormat, tLp, tText, tC 24, tRp]) =
      .error (newParseError tRp "invalid format() parameter ')'") :=
  reject_no_parameter exEnv s0 0 tFormat tLp none tText rfl (by simp) rfl (tC 24) tRp [] rfl
    (by decide) (by decide) (by decide)

/-- `format("…", "f", 70` followed by end of input: missing `)`, at the EOF token (which the
window repeats). -/
example :
    (parseFormatStringOperator exEnv 1).run
        (st s0 [tFormat, tLp, tText, tC 24, tStr 26 "f", tC 31, tInt 33 "110", tk .EOF ""]) =
      .error (newParseError (tk .EOF "") "missing closing parenthesis ')' for format()") :=
  reject_missing_paren exEnv s0 0 tFormat tLp none tText rfl (by simp) rfl exP1 (tk .EOF "") []
    ⟨⟨rfl, rfl, rfl, rfl⟩, by simp [exP1], by simp [exP1]⟩ (by simp [exP1, Params.NoRep])
    (by decide) (by decide) (by decide) trivial

/-! ### the deviations on concrete token lists -/

/-- Deviation 1. `format("aaa bbb ccc ddd", 0)` under `-l 40` with the font's line length 100:
documented resolution 40, the model (and `parser.go`) use 100 (two lines `aaa bbb` / `ccc ddd`;
for 40, as without any parameter, it would be one word per line). -/
theorem deviation_explicit_zero_skips_l :
    (resolve exEnv (Pos.len (tC 24) (tInt 26 "0")).written).maxLineLength = 100 ∧
    (resolveDoc exEnv (Pos.len (tC 24) (tInt 26 "0")).written).maxLineLength = 40 ∧
    (parseFormatStringOperator exEnv 1).run
        (st s0 [tFormat, tLp, tText, tC 24, tInt 26 "0", tRp]) =
      .ok ((tText, "aaa bbb\\n\nccc ddd", ""), st s0 [tRp]) ∧
    (parseFormatStringOperator exEnv 1).run (st s0 [tFormat, tLp, tText, tRp]) =
      .ok ((tText, "aaa\\n\nbbb\\n\nccc\\l\nddd", ""), st s0 [tRp]) := by
  refine ⟨by decide, by decide, ?_, ?_⟩
  · exact (format_params_resolved exEnv s0 0 tFormat tLp none tText rfl (by simp) rfl
      ⟨.len (tC 24) (tInt 26 "0"), tC 0, []⟩ tRp [] ⟨⟨rfl, rfl⟩, by simp, by simp⟩
      (by simp [Params.NoRep]) rfl).trans (by rfl)
  · exact (format_params_resolved exEnv s0 0 tFormat tLp none tText rfl (by simp) rfl
      ⟨.none, tC 0, []⟩ tRp [] ⟨trivial, by simp, by simp⟩ (by simp [Params.NoRep]) rfl).trans
      (by rfl)

/-- Deviation 2. `format("…", "f", 100, maxLineLength=40)`: the second positional parameter is
not recorded as specified, the repetition is accepted and the named value wins. -/
def exP4 : Params :=
  ⟨.fontLen (tC 24) (tStr 26 "f") (tC 31) (tInt 33 "100"), tC 36,
   [named .maxLineLength 38 (tInt 52 "40") none]⟩

theorem deviation_second_positional_overridable :
    exP4.WF ∧ exP4.NoRep ∧ ¬ exP4.NoRepDoc ∧
    (resolve exEnv exP4.written).maxLineLength = 40 ∧
    (parseFormatStringOperator exEnv 2).run
        (st s0 ([tFormat, tLp, tText] ++ exP4.toks ++ [tRp])) =
      .ok ((tText, "aaa\\n\nbbb\\n\nccc\\l\nddd", ""), st s0 [tRp]) := by
  have hwf : exP4.WF := by
    refine ⟨⟨rfl, rfl, rfl, rfl⟩, fun _ => rfl, ?_⟩
    intro n hn
    simp only [exP4, List.mem_singleton] at hn
    subst hn
    exact named_wf_int _ _ _ _ _ (by decide) (by simp)
  have hrep : exP4.NoRep := by
    refine ⟨by simp [exP4], ?_⟩
    intro n hn
    simp only [exP4, List.mem_singleton] at hn
    subst hn
    simp [exP4, Pos.first, named]
  refine ⟨hwf, hrep, by simp [Params.NoRepDoc, exP4, Pos.names, named], by decide, ?_⟩
  exact (format_params_resolved exEnv s0 0 tFormat tLp none tText rfl (by simp) rfl exP4 tRp []
    hwf hrep rfl).trans (by rfl)

/-- Deviation 3. `format("…", numLines=1 cursorOverlapWidth=10,)`: no comma between the named
parameters and a trailing comma — accepted. -/
def exP5 : Params :=
  ⟨.none, tC 24,
   [named .numLines 26 (tInt 35 "1") none,
    named .cursorOverlapWidth 37 (tInt 56 "10") (some (tC 58))]⟩

theorem deviation_optional_commas :
    exP5.toks = [tC 24, tId 26 "numLines", tEq 34, tInt 35 "1", tId 37 "cursorOverlapWidth",
                 tEq 45, tInt 56 "10", tC 58] ∧
    (parseFormatStringOperator exEnv 3).run
        (st s0 ([tFormat, tLp, tText] ++ exP5.toks ++ [tRp])) =
      .ok ((tText, "aaa\\l\nbbb\\l\nccc\\l\nddd", ""), st s0 [tRp]) := by
  have hwf : exP5.WF := by
    refine ⟨trivial, fun _ => rfl, ?_⟩
    intro n hn
    simp only [exP5, List.mem_cons, List.not_mem_nil, or_false] at hn
    rcases hn with rfl | rfl
    · exact named_wf_int _ _ _ _ _ (by decide) (by simp)
    · exact named_wf_int _ _ _ _ _ (by decide) (by intro c hc; cases hc; rfl)
  have hrep : exP5.NoRep := ⟨by simp [exP5, named], by intro n _; simp [exP5, Pos.first]⟩
  refine ⟨rfl, ?_⟩
  exact (format_params_resolved exEnv s0 0 tFormat tLp none tText rfl (by simp) rfl exP5 tRp []
    hwf hrep rfl).trans (by rfl)

/-- A trailing comma after TWO positional parameters is accepted: `format("…", "f", 110,)`
(direct evaluation of the model). -/
example :
    (parseFormatStringOperator exEnv 1).run
        (st s0 [tFormat, tLp, tText, tC 24, tStr 26 "f", tC 31, tInt 33 "110", tC 36, tRp]) =
      .ok ((tText, "aaa bbb ccc\\n\nddd", ""), st s0 [tRp]) := by rfl

/-- … but a trailing comma after ONE positional parameter is rejected: `format("…", "f",)`. -/
example :
    (parseFormatStringOperator exEnv 1).run
        (st s0 [tFormat, tLp, tText, tC 24, tStr 26 "f", tC 31, tRp]) =
      .error (newParseError tRp "invalid format() maxLineLength ')'. Expected integer") :=
  reject_after_font exEnv 1 s0 tFormat tLp none tText rfl (by simp) rfl (tC 24) (tStr 26 "f")
    (tC 31) tRp [] rfl rfl rfl (by decide) (by decide)

end Pory.C07b
