import PoryProofs.ProgramLabels
import PoryProofs.Properties.C06c
import PoryProofs.Properties.C08b
/-
C04c — the label census of a WHOLE program (C04: "in the output of every accepted program every label is
defined exactly once, every label used by a generated jump, case, map-script entry or hoisted text /
movement argument is defined in that output").  Helper module: PoryProofs/ProgramLabels.lean.
Per script this was C04 / C04b; texts C06b / C06c; mapscripts C08 / C08b.  Everything below is proved in
full; nothing is `_partial`.

1. `programLabelDefs o p : List (String × Bool)` / `programLabels o p : List String` (ProgramLabels.lean §1):
   a recursive function of the AST listing, in output order, the labels (with their global flag) the
   output defines: for a script its `C04.labels_of_script` census — entry label, registered sub-labels and
   user label statements in layout order, the chunk table taken from `scriptChunks`, the order from
   `C05.chunkOrder`, the registered targets from `RenderSim.regsOf`, as in C04 (`chunkDefs_eq` restates one
   chunk's contribution in C04's words) —, for movement / mart their name, for mapscripts the header name,
   the inline scripts, then per table its name and the inline scripts of its rows, finally the texts of
   `p.texts`.  `raw` blocks contribute nothing: their content is opaque text for poryscript, a label written
   inside a raw block is invisible to the compiler and to this census.
   `labels_of_program`: `emitProgram o p = .ok ls → labelsOf ls = programLabelDefs o p`.

2. `program_labels_defined_once`: if the census is duplicate-free, every label line of the output occurs
   exactly once (`defCount ls n = 1`), and no name has two label lines.
   `nodup_of_parts`: the census is duplicate-free when
   (a) `NamesDistinct p`: the DECLARED names — names of scripts (top-level and inline), movements, marts,
       mapscripts statements and tables, label statements (as they sit in the chunk tables,
       `userLabelsOf`) — together with the text names are pairwise distinct.  Decidable.  NOT guaranteed by
       the parser: finding F23 (`script A {} script A {}` is accepted, `f23_*` below);
   (b) `NoImitation o p`: no generated sub-label `<script>_<d>` that the output defines
       (`programSubLabels o p`: `d ≠ 0` laid out and registered as a jump target) is a declared name or a text
       name.  Decidable.  This is the premise "user-chosen names do not imitate generated names", stated on
       exactly the generated labels that occur.  `noImitation_of_syntactic`: it follows from the purely
       syntactic `NoImitationSyn p` (no declared / text name reads `<script name>_<digits>`).
   Proved inside, not assumed: sub-labels of one script are distinct (`C05.script_order_perm` +
   `jumpLabel_inj`), sub-labels of different scripts are distinct (`subLabels_cross`: `<name>_<d>`
   determines `name`, `Hoist.suffix_digits_unique`), each label statement / entry label is counted once
   (`count_scriptNames_le`).  The two hypotheses are what the counting argument
   `count_programLabels_le` needs: census ≤ declared + sub-labels + texts, with multiplicity.
   Three sub-cases of (a)/(b) are in fact implied by acceptance — `renderStatements` rejects a label
   statement that equals a chunk label of its own script or a text name: `accepted_label_statements` —; the
   predicates are kept uniform so that they are decidable functions of the program alone.

3. `program_refs_defined`: every label named by a generated `goto` / conditional jump / `case` line
   (`C04.refOf`) of the output is in `programLabels o p` (`closed_emitProgram`: it is even defined among the
   lines of the same script).
   `mapscript_refs_defined`: for a `mapscripts` statement of an accepted program whose inline scripts carry
   the names their entries refer to (`InlineNamed m`; true of every parsed statement:
   `inlineNamed_of_entries`, from C08b), the `map_script TYPE, label` line of every inline entry and of every
   table, and the `map_script_2 …, label` line of every inline row are in the output and their label is in
   `programLabels o p`.  (Plain entries `TYPE: Name` refer to whatever the user wrote: no claim.)
   `patch_refs_defined`: for a PARSED program every patched argument slot (`p.patches`) holds a label of
   `programLabels o p` — the name of a hoisted text or movement (`C06c.parsed_patches_point_to_texts`).
   `program_closed`: the three together with "exactly once" under (a), (b).

Observations about the model (confirmed on the Go binary, `poryscript -i … -lm=false`):
* F23 as recorded.
* NEW (imitation of a generated sub-label by a generated text label): the emitter checks label STATEMENTS
  against the chunk labels of their script and against the text labels, but never chunk labels against text
  / movement / script names.  `script A { msgbox("a") msgbox("b") }  script A_Text { if (flag(F)) { lock }
  release }` is accepted and defines `A_Text_1` twice: once as the continuation chunk of `A_Text`, once as
  the second hoisted text of `A` (`imit_*` below: (a) holds, (b) fails, the census has a duplicate).  Neither
  user-chosen name has the form `<name>_<digits>`; the clash is between two GENERATED labels.  Likewise
  `script A { if … }  text A_1 { … }  movement A_2 { … }` (there a user name does imitate).
-/
namespace Pory.C04c
open Pory Pory.Parser Pory.Emit Pory.RenderSim

/-! ## 1. the census -/

/-- **labels_of_program**: the label lines of the output of an accepted program are exactly the census
`programLabelDefs o p`, in order, with their global flags. -/
theorem labels_of_program (o : Opts) (p : Program) (ls : List Line) (h : emitProgram o p = .ok ls) :
    labelsOf ls = programLabelDefs o p :=
  labelsOf_emitProgram o p ls h

/-- … and their names are `programLabels o p`. -/
theorem label_names_of_program (o : Opts) (p : Program) (ls : List Line) (h : emitProgram o p = .ok ls) :
    (labelsOf ls).map (·.1) = programLabels o p := by
  rw [labels_of_program o p ls h]; rfl

/-- The census of a script is `C04.labels_of_script`'s, with the registered targets made explicit. -/
theorem script_census_is_C04 (o : Opts) (patches : List ((Nat × Nat) × String)) (s : Script)
    (G : List Chunk) (order : List Nat) (hc : scriptChunks s.body = .ok G)
    (ho : C05.chunkOrder o G = .ok order) :
    scriptDefs o patches s = order.flatMap fun id =>
      (if id = 0 ∨ id ∈ regsOf o patches s.name G order then
          [(chunkLabel s.name id, id == 0 && (s.scope == .GLOBAL))] else []) ++
      (match findChunk G id with | some c => stmtLabels c.statements | none => []) := by
  unfold scriptDefs
  simp only [hc, ho]
  congr 1
  funext id
  exact chunkDefs_eq _ _ _ _ _

/-! ## 2. defined exactly once -/

/-- Number of label lines of `ls` that define `n`. -/
def defCount (ls : List Line) (n : String) : Nat :=
  ls.countP fun l => match l with | .labelDef n' _ => n' == n | _ => false

theorem defCount_eq (ls : List Line) (n : String) : defCount ls n = ((labelsOf ls).map (·.1)).count n := by
  induction ls with
  | nil => rfl
  | cons l r ih =>
    unfold defCount at ih ⊢
    rw [List.countP_cons, ih, labelsOf_cons]
    cases l <;> simp [labelOf, List.count_cons]

/-- **program_labels_defined_once**: when the census is duplicate-free, every label line of the output
occurs exactly once — and no name is defined twice. -/
theorem program_labels_defined_once (o : Opts) (p : Program) (ls : List Line)
    (h : emitProgram o p = .ok ls) (hn : (programLabels o p).Nodup) :
    (∀ n g, Line.labelDef n g ∈ ls → defCount ls n = 1) ∧ ∀ n, defCount ls n ≤ 1 := by
  have hc : ∀ n, defCount ls n = (programLabels o p).count n := by
    intro n; rw [defCount_eq, label_names_of_program o p ls h]
  constructor
  · intro n g hm
    rw [hc, hn.count, if_pos]
    rw [← label_names_of_program o p ls h]
    exact List.mem_map.2 ⟨(n, g), List.mem_filterMap.2 ⟨_, hm, rfl⟩, rfl⟩
  · intro n
    rw [hc]
    exact List.nodup_iff_count.1 hn n

/-- (a) The declared names and the text names are pairwise distinct. -/
def NamesDistinct (p : Program) : Prop := (declaredNames p ++ textNames p).Nodup

instance (p : Program) : Decidable (NamesDistinct p) := by unfold NamesDistinct; infer_instance

/-- (b) No generated sub-label the output defines is a declared name or a text name. -/
def NoImitation (o : Opts) (p : Program) : Prop :=
  ∀ x ∈ programSubLabels o p, x ∉ declaredNames p ++ textNames p

instance (o : Opts) (p : Program) : Decidable (NoImitation o p) := by unfold NoImitation; infer_instance

/-- **nodup_of_parts**: distinct declared / text names that do not imitate the generated sub-labels give a
duplicate-free census. -/
theorem nodup_of_parts (o : Opts) (p : Program) (ha : NamesDistinct p) (hb : NoImitation o p) :
    (programLabels o p).Nodup :=
  programLabels_nodup_of o p ha hb

/-- What acceptance already guarantees (the only label checks of the emitter, `renderStatements`): a
label statement of an accepted script is not a text name, not the script's own name and not one of the
script's own sub-labels.  So these sub-cases of (a) / (b) hold for every accepted program; all other
clashes — between statements, or between a generated sub-label and a text / movement / mart / mapscripts /
other script's name — are NOT checked (F23, `imit_*`). -/
theorem accepted_label_statements (o : Opts) (p : Program) (ls : List Line) (h : emitProgram o p = .ok ls)
    (s : Script) (hs : s ∈ scriptsOf p) :
    ∀ n ∈ userLabelsOf s, n ∉ textNames p ∧ n ≠ s.name ∧ n ∉ subLabelsOf o p.patches s := by
  obtain ⟨l, hl, _⟩ := script_accepted o p ls h s hs
  intro n hn
  obtain ⟨h1, h2⟩ := accepted_label_statements_fresh o p.patches _ s l hl n hn
  refine ⟨h1, ?_, ?_⟩
  · intro e
    unfold userLabelsOf at hn
    cases hc : scriptChunks s.body with
    | error e' => rw [hc] at hn; cases hn
    | ok G =>
      obtain ⟨_, h0⟩ := C05.scriptChunks_ids s.body G hc
      obtain ⟨c, hcG, hc0⟩ := List.mem_map.1 h0
      exact h2 G hc c hcG (by simp [chunkLabel, hc0, e])
  · intro hmem
    unfold subLabelsOf at hmem
    cases hc : scriptChunks s.body with
    | error e' => rw [hc] at hmem; cases hmem
    | ok G =>
      rw [hc] at hmem
      simp only at hmem
      cases ho : C05.chunkOrder o G with
      | error e' => rw [ho] at hmem; cases hmem
      | ok order =>
        rw [ho] at hmem
        simp only at hmem
        obtain ⟨d, hd, rfl⟩ := List.mem_map.1 hmem
        obtain ⟨hdo, hdf⟩ := List.mem_filter.1 hd
        simp only [Bool.and_eq_true, bne_iff_ne, ne_eq] at hdf
        obtain ⟨hperm, _, _⟩ := C05.script_order_perm o s G order hc ho
        obtain ⟨c, hcG, hcd⟩ := List.mem_map.1 (hperm.mem_iff.1 hdo)
        exact h2 G hc c hcG (by simp [chunkLabel, jumpLabel, hcd, hdf.1])

/-- `n` reads `<name>_<digits>`. -/
def isSubLabelOf (name n : String) : Bool :=
  (name.toList ++ ['_']).isPrefixOf n.toList &&
    (!(n.toList.drop (name.toList ++ ['_']).length).isEmpty &&
      (n.toList.drop (name.toList ++ ['_']).length).all Char.isDigit)

theorem isSubLabelOf_jumpLabel (name : String) (d : Nat) : isSubLabelOf name (jumpLabel name d) = true := by
  unfold isSubLabelOf
  have e : (jumpLabel name d).toList = (name.toList ++ ['_']) ++ Nat.toDigits 10 d := by
    rw [jumpLabel_toList]; simp
  rw [e, List.drop_left]
  simp only [Bool.and_eq_true, List.isPrefixOf_iff_prefix, Bool.not_eq_true', List.isEmpty_eq_false_iff,
    List.all_eq_true]
  exact ⟨List.prefix_append _ _, Nat.toDigits_ne_nil,
    fun c hc => Nat.isDigit_of_mem_toDigits (by decide) (by decide) hc⟩

/-- The syntactic form of (b): no declared name and no text name reads `<script name>_<digits>`. -/
def NoImitationSyn (p : Program) : Prop :=
  ∀ n ∈ declaredNames p ++ textNames p, ∀ s ∈ scriptsOf p, isSubLabelOf s.name n = false

instance (p : Program) : Decidable (NoImitationSyn p) := by unfold NoImitationSyn; infer_instance

theorem noImitation_of_syntactic (o : Opts) (p : Program) (h : NoImitationSyn p) : NoImitation o p := by
  intro x hx hmem
  unfold programSubLabels at hx
  obtain ⟨s, hs, hxs⟩ := List.mem_flatMap.1 hx
  obtain ⟨d, _, rfl⟩ := mem_subLabelsOf hxs
  have := h _ hmem s hs
  rw [isSubLabelOf_jumpLabel] at this
  cases this

/-! ## 3. references are defined -/

/-- **program_refs_defined** (jumps and cases): every label named by a generated `goto`, conditional jump
or `case` line of the output is defined in the output. -/
theorem program_refs_defined (o : Opts) (p : Program) (ls : List Line) (h : emitProgram o p = .ok ls) :
    ∀ x ∈ C04.refsOf ls, x ∈ programLabels o p := by
  intro x hx
  rw [← label_names_of_program o p ls h]
  exact closed_emitProgram o p ls h x hx

/-- The inline scripts of a `mapscripts` statement carry the names their entries refer to. -/
def InlineNamed (m : MapScripts) : Prop :=
  (∀ ms ∈ m.mapScripts, ∀ s, ms.script = some s → s.name = ms.name) ∧
  (∀ t ∈ m.tables, ∀ e ∈ t.entries, ∀ s, e.script = some s → s.name = e.name)

theorem rowEntries_named (K : List (String × String)) (ms ty : String) :
    ∀ (rows : List MapScriptsParse.Row) (i : Nat), ∀ e ∈ MapScriptsParse.rowEntries K ms ty i rows,
      ∀ s, e.script = some s → s.name = e.name := by
  intro rows
  induction rows with
  | nil => intro i e he; cases he
  | cons r rs ih =>
    intro i e he s hs
    rw [MapScriptsParse.rowEntries] at he
    rcases List.mem_cons.1 he with rfl | he
    · cases r with
      | plain => cases hs
      | inline cs comma vs lb body imp => cases hs; rfl
    · exact ih (i + 1) e he s hs

/-- Every parsed `mapscripts` statement is `InlineNamed` (the lists a parse returns are
`mapScriptsOf` / `tablesOf` of the entries met: `C08b.parse_mapscripts_statement_order`). -/
theorem inlineNamed_of_entries (m : MapScripts) (K : List (String × String))
    (es : List MapScriptsParse.Entry) (hms : m.mapScripts = MapScriptsParse.mapScriptsOf m.name es)
    (htb : m.tables = MapScriptsParse.tablesOf K m.name es) : InlineNamed m := by
  constructor
  · intro ms hm s hs
    rw [hms] at hm
    unfold MapScriptsParse.mapScriptsOf at hm
    obtain ⟨e, _, he⟩ := List.mem_filterMap.1 hm
    cases e with
    | plain ty colon name => cases he; cases hs
    | inline ty lb body imp => cases he; cases hs; rfl
    | table ty lbr rows => cases he
  · intro t ht e hte s hs
    rw [htb] at ht
    unfold MapScriptsParse.tablesOf at ht
    obtain ⟨en, _, hen⟩ := List.mem_filterMap.1 ht
    cases en with
    | plain ty colon name => cases hen
    | inline ty lb body imp => cases hen
    | table ty lbr rows =>
      cases hen
      exact rowEntries_named K m.name ty.lit rows 0 e hte s hs

/-- **mapscript_refs_defined**: in the output of an accepted program, for every `mapscripts` statement `m`
whose inline scripts are named as their entries say: the header line of every inline entry, the header
line of every table and the table line of every inline row are in the output, and the label they name is
defined in the output. -/
theorem mapscript_refs_defined (o : Opts) (p : Program) (ls : List Line) (h : emitProgram o p = .ok ls)
    (m : MapScripts) (hm : Top.mapscripts m ∈ p.tops) (hn : InlineNamed m) :
    (∀ ms ∈ m.mapScripts, ms.script.isSome →
      Line.mapScript ms.type.lit ms.name ∈ ls ∧ ms.name ∈ programLabels o p) ∧
    (∀ t ∈ m.tables,
      Line.mapScript t.type.lit t.name ∈ ls ∧ t.name ∈ programLabels o p ∧
      ∀ e ∈ t.entries, e.script.isSome →
        Line.mapScript2 e.condition.lit e.comparison e.name ∈ ls ∧ e.name ∈ programLabels o p) := by
  obtain ⟨body, i, hb, hls⟩ := C06b.emitProgram_texts o p ls h
  obtain ⟨lt, h1, h2⟩ := emitTops_mem o p.patches _ p.tops 0 body i hb _ hm
  obtain ⟨scripts, tables, e1, e2, rfl⟩ := C08.header_shape o p.patches _ m lt h1
  have hin : ∀ l, l ∈ C08.headerLines o m ++ scripts ++ tables → l ∈ ls := by
    intro l hl; rw [hls]; exact List.mem_append_left _ (h2 l hl)
  have htop := topNames_sub_program o p _ hm
  constructor
  · intro ms hms hsome
    constructor
    · apply hin
      refine List.mem_append_left _ (List.mem_append_left _ ?_)
      unfold C08.headerLines
      simp only [List.mem_append, List.mem_flatMap, List.mem_singleton]
      exact .inl (.inl (.inr ⟨ms, hms, .inr rfl⟩))
    · obtain ⟨s, hs⟩ := Option.isSome_iff_exists.1 hsome
      rw [← hn.1 ms hms s hs]
      apply script_name_defined o p ls h
      unfold scriptsOf
      refine List.mem_flatMap.2 ⟨_, hm, ?_⟩
      simp only [topScripts, List.mem_append]
      exact .inl (mem_optScripts.2 (hs ▸ List.mem_map.2 ⟨ms, hms, rfl⟩))
  · intro t ht
    refine ⟨?_, ?_, ?_⟩
    · apply hin
      refine List.mem_append_left _ (List.mem_append_left _ ?_)
      unfold C08.headerLines
      simp only [List.mem_append, List.mem_flatMap, List.mem_singleton]
      exact .inl (.inr ⟨t, ht, .inr rfl⟩)
    · apply htop
      simp only [topDefs, mapScriptsDefs, List.map_cons, List.map_append, scriptsDefs_eq, tablesDefs_eq,
        List.mem_cons, List.mem_append, List.mem_flatMap]
      exact .inr (.inr ⟨t, ht, .inl rfl⟩)
    · intro e he hsome
      obtain ⟨hhead, _⟩ := emitTables_mem o p.patches _ _ tables e2 t ht
      constructor
      · apply hin
        refine List.mem_append_right _ (hhead _ ?_)
        unfold C08.tableHead
        simp only [List.mem_append, List.mem_flatMap, List.mem_singleton]
        exact .inl (.inr ⟨e, he, .inr rfl⟩)
      · obtain ⟨s, hs⟩ := Option.isSome_iff_exists.1 hsome
        rw [← hn.2 t ht e he s hs]
        apply script_name_defined o p ls h
        unfold scriptsOf
        refine List.mem_flatMap.2 ⟨_, hm, ?_⟩
        simp only [topScripts, List.mem_append, List.mem_flatMap]
        exact .inr ⟨t, ht, mem_optScripts.2 (hs ▸ List.mem_map.2 ⟨e, he, rfl⟩)⟩

/-- **patch_refs_defined**: for a parsed program, every label the parser patches into an argument slot is
the name of a hoisted text or of a hoisted movement of the program, hence defined in the output. -/
theorem patch_refs_defined (env : Env) (toks : List Tok) (p : Program) (h : parseTokens env toks = .ok p)
    (o : Opts) : ∀ q ∈ p.patches, q.2 ∈ programLabels o p := by
  intro q hq
  obtain ⟨hlen, hall⟩ := C06c.parsed_patches_point_to_texts env toks p h
  obtain ⟨i, hi⟩ := List.mem_iff_getElem?.1 hq
  have hlt : i < p.patches.length := by
    obtain ⟨hlt, _⟩ := List.getElem?_eq_some_iff.1 hi
    exact hlt
  obtain ⟨it, hit⟩ := C06c.getElem?_some_of_lt (l := C06c.inlineItemsOf env toks) (i := i) (by omega)
  obtain ⟨_, hdef⟩ := hall i q it hi hit
  obtain ⟨tops, ht, hm⟩ := C06c.parsed_program_shape env toks p h
  cases it with
  | inl t =>
    obtain ⟨⟨x, hx, hname, _⟩, _⟩ := hdef
    apply textNames_sub_program
    unfold textNames
    rw [ht, List.map_append, List.mem_append]
    exact .inl (List.mem_map.2 ⟨x, hx, hname⟩)
  | inr mv =>
    obtain ⟨⟨x, hx, hname, _⟩, _⟩ := hdef
    have hmem : Top.movement x ∈ p.tops := by
      rw [hm, List.mem_append]; exact .inr (List.mem_map.2 ⟨x, hx, rfl⟩)
    apply topNames_sub_program o p _ hmem
    simp [topDefs, hname]

/-- **program_closed**: for a parsed and accepted program whose names satisfy (a) and (b): every label line
occurs exactly once, and every label named by a generated jump / case line or patched into an argument
slot has exactly one label line in the output. -/
theorem program_closed (env : Env) (toks : List Tok) (p : Program) (hp : parseTokens env toks = .ok p)
    (o : Opts) (ls : List Line) (h : emitProgram o p = .ok ls)
    (ha : NamesDistinct p) (hb : NoImitation o p) :
    (∀ n g, Line.labelDef n g ∈ ls → defCount ls n = 1) ∧
    (∀ x ∈ C04.refsOf ls, defCount ls x = 1) ∧ (∀ q ∈ p.patches, defCount ls q.2 = 1) := by
  have hn := nodup_of_parts o p ha hb
  have hc : ∀ n, n ∈ programLabels o p → defCount ls n = 1 := by
    intro n hm
    rw [defCount_eq, label_names_of_program o p ls h, hn.count, if_pos hm]
  exact ⟨(program_labels_defined_once o p ls h hn).1,
    fun x hx => hc x (program_refs_defined o p ls h x hx),
    fun q hq => hc q.2 (patch_refs_defined env toks p hp o q hq)⟩

/-! ## 4. examples -/

def fl (f : String) : BoolExpr :=
  .leaf { operand := { lit := f }, operator := .EQ, cmpValue := "TRUE", type := .FLAG }

/-- `script Main { lock  if (flag(F)) { msgbox("hi")  Inner: }  Done(global):  release }` -/
def sMain : Script :=
  { name := "Main", scope := .GLOBAL,
    body := [ .cmd { id := 1, name := "lock" },
              .ite {} (fl "F") [ .cmd { id := 2, name := "msgbox", args := ["", "MSGBOX_DEFAULT"] },
                                 .label {} "Inner" false ] [] none,
              .label {} "Done" true,
              .cmd { id := 3, name := "release" } ] }
def sAux : Script :=
  { name := "Aux", scope := .LOCAL, body := [ .cmd { id := 4, name := "applymovement", args := ["2", "Walk"] } ] }
def sInl : Script := { name := "M_ON_LOAD", scope := .LOCAL, body := [ .cmd { id := 5, name := "nop" } ] }
def demoMS : MapScripts :=
  { tok := {}, name := "M", scope := .GLOBAL,
    mapScripts := [ ⟨{ lit := "ON_LOAD" }, "M_ON_LOAD", some sInl⟩, ⟨{ lit := "ON_RESUME" }, "Elsewhere", none⟩ ],
    tables := [ ⟨{ lit := "ON_FRAME" }, "M_ON_FRAME", [ ⟨{ lit := "VAR_X" }, "1", "Aux", none⟩ ]⟩ ] }
/-- Two scripts, a raw block, a movement, a mart, a `text` statement, a mapscripts statement with one inline
entry, one plain entry and one table; one hoisted text patched into `msgbox`. -/
def demoProg : Program :=
  { tops := [ .script sMain, .raw {} {} "x", .script sAux,
              .movement { name := "Walk", cmds := [ { lit := "walk_up" } ] },
              .mart {} "Shop" [] ["ITEM_A"] .LOCAL, .text { name := "T", value := "x$" }, .mapscripts demoMS ],
    texts := [ { name := "Main_Text_0", value := "hi$" }, { name := "T", value := "x$", isGlobal := true } ],
    patches := [ ((2, 0), "Main_Text_0") ] }
def oN : Opts := { optimize := false, lineMarkers := false }

/-- the census of `demoProg`, computed -/
theorem demo_census : programLabelDefs oN demoProg =
    [("Main", true), ("Main_1", false), ("Done", true), ("Main_2", false), ("Inner", false),
     ("Main_3", false), ("Aux", false), ("Walk", false), ("Shop", false), ("M", true),
     ("M_ON_LOAD", false), ("M_ON_FRAME", false), ("Main_Text_0", false), ("T", true)] := by decide

def demoLines : List Line := match emitProgram oN demoProg with | .ok ls => ls | .error _ => []
theorem demo_emit : emitProgram oN demoProg = .ok demoLines := rfl

/-- label lines, generated references and map-script lines -/
def isSkel (l : Line) : Bool :=
  (labelOf l).isSome || (C04.refOf l).isSome ||
    match l with | .mapScript _ _ => true | .mapScript2 _ _ _ => true | _ => false

/-- the skeleton of the output (`demoLines` renders to `Main::\n\tlock\n\tgoto Main_3\n\nMain_1:\nDone::\n …`) -/
example : demoLines.filter isSkel =
    [.labelDef "Main" true, .goto_ "Main_3", .labelDef "Main_1" false, .labelDef "Done" true,
     .labelDef "Main_2" false, .labelDef "Inner" false, .goto_ "Main_1", .labelDef "Main_3" false,
     .gotoIfSet "F" "Main_2", .goto_ "Main_1", .labelDef "Aux" false, .labelDef "Walk" false,
     .labelDef "Shop" false, .labelDef "M" true, .mapScript "ON_LOAD" "M_ON_LOAD",
     .mapScript "ON_RESUME" "Elsewhere", .mapScript "ON_FRAME" "M_ON_FRAME", .labelDef "M_ON_LOAD" false,
     .labelDef "M_ON_FRAME" false, .mapScript2 "VAR_X" "1" "Aux", .labelDef "Main_Text_0" false,
     .labelDef "T" true] := by decide

example : labelsOf demoLines = programLabelDefs oN demoProg := labels_of_program oN demoProg _ demo_emit

theorem demo_distinct : NamesDistinct demoProg := by decide
theorem demo_noImitation : NoImitation oN demoProg := by decide
example : NoImitationSyn demoProg := by decide
example : declaredNames demoProg = ["Main", "Inner", "Done", "Aux", "Walk", "Shop", "M", "M_ON_LOAD", "M_ON_FRAME"] ∧
    programSubLabels oN demoProg = ["Main_1", "Main_2", "Main_3"] ∧ textNames demoProg = ["Main_Text_0", "T"] := by
  decide

example : (programLabels oN demoProg).Nodup := nodup_of_parts oN demoProg demo_distinct demo_noImitation

example : (∀ n g, Line.labelDef n g ∈ demoLines → defCount demoLines n = 1) ∧ ∀ n, defCount demoLines n ≤ 1 :=
  program_labels_defined_once oN demoProg _ demo_emit (nodup_of_parts oN demoProg demo_distinct demo_noImitation)

example : C04.refsOf demoLines = ["Main_3", "Main_1", "Main_2", "Main_1"] := by decide
example : ∀ x ∈ C04.refsOf demoLines, x ∈ programLabels oN demoProg :=
  program_refs_defined oN demoProg _ demo_emit

theorem demo_inlineNamed : InlineNamed demoMS := by
  constructor
  · intro ms hm s hs
    simp only [demoMS, List.mem_cons, List.not_mem_nil, or_false] at hm
    rcases hm with rfl | rfl
    · cases hs; rfl
    · cases hs
  · intro t ht e he s hs
    simp only [demoMS, List.mem_cons, List.not_mem_nil, or_false] at ht
    subst ht
    simp only [List.mem_cons, List.not_mem_nil, or_false] at he
    subst he
    cases hs

example := mapscript_refs_defined oN demoProg _ demo_emit demoMS (by simp [demoProg]) demo_inlineNamed

/-- `inlineNamed_of_entries` on the parsed statement of C08b's example. -/
example : InlineNamed C08b.exStmt :=
  inlineNamed_of_entries C08b.exStmt C08b.exK C08b.exEntries rfl rfl

example := accepted_label_statements oN demoProg _ demo_emit sMain
  (by simp [scriptsOf, demoProg, topScripts, optScripts, demoMS])
example : userLabelsOf sMain = ["Inner", "Done"] := by decide

/-! `patch_refs_defined` / `program_closed` on the parsed program of C06c's example (`C06c.exToks`: two
scripts sharing texts and a `moves()`, a `text` statement). -/

def exP : Program := match parseTokens {} C06c.exToks with | .ok p => p | .error _ => {}

theorem exP_parsed : parseTokens {} C06c.exToks = .ok exP := by
  obtain ⟨p, hp⟩ := C06c.ex_parses
  unfold exP
  rw [hp]

def exLs : List Line := match emitProgram oN exP with | .ok ls => ls | .error _ => []

theorem exP_accepted : emitProgram oN exP = .ok exLs := by
  have key : (match emitProgram oN exP with | .ok _ => true | .error _ => false) = true := by
    decide +kernel
  unfold exLs
  cases h : emitProgram oN exP with
  | error e => rw [h] at key; cases key
  | ok ls => rfl

theorem exP_census : programLabels oN exP = ["A", "B", "A_Movement_0", "A_Text_0", "A_Text_1", "B_Text_0", "T"] := by
  decide +kernel
theorem exP_patches : exP.patches.map (·.2) =
    ["A_Text_0", "A_Text_1", "A_Movement_0", "A_Text_0", "B_Text_0", "A_Text_1", "A_Movement_0"] := by
  decide +kernel
theorem exP_distinct : NamesDistinct exP := by decide +kernel
theorem exP_noImitation : NoImitation oN exP := by decide +kernel

example : ∀ q ∈ exP.patches, q.2 ∈ programLabels oN exP := patch_refs_defined {} C06c.exToks exP exP_parsed oN

example : (∀ n g, Line.labelDef n g ∈ exLs → defCount exLs n = 1) ∧
    (∀ x ∈ C04.refsOf exLs, defCount exLs x = 1) ∧ (∀ q ∈ exP.patches, defCount exLs q.2 = 1) :=
  program_closed {} C06c.exToks exP exP_parsed oN exLs exP_accepted exP_distinct exP_noImitation

/-! ### F23: a duplicated top-level name is accepted -/

/-- `script A {} script A {}` -/
def f23 : Program := { tops := [ .script { name := "A" }, .script { name := "A" } ] }

theorem f23_accepted : ∃ ls, emitProgram oN f23 = .ok ls := ⟨_, rfl⟩
theorem f23_not_distinct : ¬ NamesDistinct f23 := by decide
theorem f23_census : programLabels oN f23 = ["A", "A"] := by decide
theorem f23_duplicate : ¬ (programLabels oN f23).Nodup := by decide
/-- (b) holds: the duplicate is due to (a) alone. -/
theorem f23_noImitation : NoImitation oN f23 := by decide

def mkTok (t : TT) (l : String) : Tok := { type := t, lit := l }

/-- The census of the output compiled from a token list (`none` if rejected). -/
def compiledLabels (toks : List Tok) : Option (List String) :=
  match parseTokens {} toks with
  | .error _ => none
  | .ok p => match emitProgram oN p with
    | .ok ls => some ((labelsOf ls).map (·.1))
    | .error _ => none

/-- F23 through parser and emitter: the tokens of `script A {} script A {}` compile, `A` is defined twice. -/
theorem f23_compiled :
    compiledLabels [mkTok .SCRIPT "script", mkTok .IDENT "A", mkTok .LBRACE "{", mkTok .RBRACE "}",
                    mkTok .SCRIPT "script", mkTok .IDENT "A", mkTok .LBRACE "{", mkTok .RBRACE "}", mkTok .EOF ""] =
      some ["A", "A"] := by decide +kernel

/-! ### a generated sub-label equal to a generated text label is accepted -/

/-- `script A { msgbox("a") msgbox("b") }  script A_Text { if (flag(F)) { lock } release }` after parsing:
the two texts of `A` are hoisted as `A_Text_0`, `A_Text_1`. -/
def imit : Program :=
  { tops := [ .script { name := "A",
                        body := [ .cmd { id := 1, name := "msgbox", args := [""] },
                                  .cmd { id := 2, name := "msgbox", args := [""] } ] },
              .script { name := "A_Text",
                        body := [ .ite {} (fl "F") [ .cmd { id := 3, name := "lock" } ] [] none,
                                  .cmd { id := 4, name := "release" } ] } ],
    texts := [ { name := "A_Text_0", value := "a$" }, { name := "A_Text_1", value := "b$" } ],
    patches := [ ((1, 0), "A_Text_0"), ((2, 0), "A_Text_1") ] }

theorem imit_accepted : ∃ ls, emitProgram oN imit = .ok ls := ⟨_, rfl⟩
theorem imit_distinct : NamesDistinct imit := by decide
theorem imit_imitates : ¬ NoImitation oN imit := by decide
theorem imit_census : programLabels oN imit = ["A", "A_Text", "A_Text_1", "A_Text_2", "A_Text_3", "A_Text_0", "A_Text_1"] := by
  decide
theorem imit_duplicate : ¬ (programLabels oN imit).Nodup := by decide

/-- The same through parser and emitter: the tokens of
`script A { msgbox("a") msgbox("b") }  script A_Text { if (flag(F)) { lock } release }` compile, and the output
defines `A_Text_1` twice (as the Go binary does: `A_Text_1:` before `release` and before `.string "b$"`). -/
theorem imit_compiled :
    compiledLabels
      [mkTok .SCRIPT "script", mkTok .IDENT "A", mkTok .LBRACE "{",
       mkTok .IDENT "msgbox", mkTok .LPAREN "(", mkTok .STRING "a", mkTok .RPAREN ")",
       mkTok .IDENT "msgbox", mkTok .LPAREN "(", mkTok .STRING "b", mkTok .RPAREN ")", mkTok .RBRACE "}",
       mkTok .SCRIPT "script", mkTok .IDENT "A_Text", mkTok .LBRACE "{",
       mkTok .IF "if", mkTok .LPAREN "(", mkTok .FLAG "flag", mkTok .LPAREN "(", mkTok .IDENT "F", mkTok .RPAREN ")", mkTok .RPAREN ")",
       mkTok .LBRACE "{", mkTok .IDENT "lock", mkTok .RBRACE "}", mkTok .IDENT "release", mkTok .RBRACE "}", mkTok .EOF ""] =
      some ["A", "A_Text", "A_Text_1", "A_Text_2", "A_Text_3", "A_Text_0", "A_Text_1"] := by decide +kernel

#print axioms labels_of_program
#print axioms program_labels_defined_once
#print axioms nodup_of_parts
#print axioms accepted_label_statements
#print axioms noImitation_of_syntactic
#print axioms program_refs_defined
#print axioms mapscript_refs_defined
#print axioms inlineNamed_of_entries
#print axioms patch_refs_defined
#print axioms program_closed

end Pory.C04c
