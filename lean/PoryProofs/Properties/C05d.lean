import PoryProofs.Properties.C05c
import PoryProofs.Properties.C01d
import PoryProofs.ScopeBridge2
import PoryProofs.ParserLeaves
/-
C05d — the two textual claims of C05 ("no compiler-generated goto targets the label on the very next
line and no generated sub-label is emitted that nothing refers to"), FROM SOURCE TEXT: the AST
hypotheses of PoryProofs/Properties/C05c.lean are discharged from the parser.

For every parser environment `env`, source text `src : List Char`, program `prog` with
`parseTokens env (Lexer.lexAll src) = .ok prog`, every script `s` of the program (`C01d.ScriptOf prog s`:
a `script` statement, or an inline script of a `mapscripts` statement, table entries included), every
option set `o` (both values of `o.optimize`, line markers on or off), patches, text labels and `lines`
with `emitScript o patches tl s = .ok lines`:

1. `wellFormed_of_bodyOK : C20b.BodyOK body → ScopesWellFormed body` — the parser's scoping guarantee
   (`Sem.WellScoped ⟨body, [], []⟩`, C20b) is the worklist's `WFL body [] []`
   (PoryProofs/ScopeBridge2.lean: the two mutual recursions agree, `scopedStmts_iff_WFL`).
   `parsed_scopes : ScopeIdsDistinct s.body ∧ ScopesWellFormed s.body`.
2. `pipeline_no_goto_to_next_label` (and `_idx`): if `lines = pre ++ .goto_ L :: post` then the first
   line of `post` that is neither blank nor a line marker is not `.labelDef L g`.  No hypothesis on the
   AST is left.
3. `parsed_leaves_wf : LeavesL Spec.WellFormedLeaf s.body` and `parsed_leaves_ref : LeavesL RefLeaf s.body`
   — every condition leaf the parser builds is `VAR` with a comparison operator, or `FLAG` / `DEFEATED`
   with `==` / `!=` and `TRUE` / `FALSE` (PoryProofs/ParserLeaves.lean: `leaf_spec` for
   `parseLeafBooleanExpression`, closed under `getNegatedBooleanOperator`, then the 13-function mutual
   induction `leafAll` and the top level `program_leaves`).
   `pipeline_sub_label_referenced`: for every chunk id `id ≠ 0` of the table, if the line `name_id:` is
   among `lines` then some generated jump / `case` line of `lines` names `name_id`.  No hypothesis on
   the AST is left.  `pipeline_every_label_accounted`: every label line is the script's own label, a user
   label statement, or is named by a generated jump / `case` line.
4. By-product (`pipeline_end_to_end_induced`): `C01c.end_to_end_induced` with `LeavesWellFormed` and the
   three static hypotheses discharged — only the configuration hypothesis `PreamblesPlain` remains.

The `…_prog` variants instantiate `patches` / text labels with what `emitProgram` passes.
Nothing is `sorry`; nothing is partial.  Scope as in C05c: one script (`emitScript`); whole programs
(`emitProgram`) are not lifted (see C05c, item 3).
-/
namespace Pory.C05d
open Pory Pory.Parser Pory.Emit Pory.RenderSim Pory.GotoNext Pory.C01d

/-! ### 1. the scoping hypothesis -/

/-- The parser's guarantee for a body implies the worklist's scoping predicate `WFL body [] []`. -/
theorem wellFormed_of_bodyOK {body : List Stmt} (h : C20b.BodyOK body) : ScopesWellFormed body :=
  ScopeBridge.wellFormed_of_bodyOK h

/-- … also from the semantic form of the hypothesis. -/
theorem wellFormed_of_wellScoped {body : List Stmt} (h : Sem.WellScoped ⟨body, [], []⟩) :
    ScopesWellFormed body := ScopeBridge.wellFormed_of_wellScoped h

/-- Both AST hypotheses of `C05c.no_goto_to_next_label` hold for every script of a parsed program. -/
theorem parsed_scopes (env : Env) (src : List Char) (prog : Program)
    (h : parseTokens env (Lexer.lexAll src) = .ok prog) (s : Script) (hs : ScriptOf prog s) :
    ScopeIdsDistinct s.body ∧ ScopesWellFormed s.body :=
  have hb := scriptOf_bodyOK h hs
  ⟨(bodyOK_hyps hb).1, wellFormed_of_bodyOK hb⟩

/-! ### 2. no generated `goto` targets the label on the very next line -/

/-- **Statement 1 of C05c from source text, either chunk order.**  For every script of a parsed
program and every successful `emitScript`: the first line after a generated `goto L` that is neither
blank nor a line marker is not the label line `L:`. -/
theorem pipeline_no_goto_to_next_label (env : Env) (src : List Char) (prog : Program)
    (h : parseTokens env (Lexer.lexAll src) = .ok prog) (s : Script) (hs : ScriptOf prog s)
    (o : Opts) (patches : List ((Nat × Nat) × String)) (tl : List String) (lines : List Line)
    (he : emitScript o patches tl s = .ok lines) :
    ∀ pre post L, lines = pre ++ .goto_ L :: post → ∀ g, nextVisible post ≠ some (.labelDef L g) :=
  have hp := parsed_scopes env src prog h s hs
  C05c.no_goto_to_next_label o patches tl s lines hp.1 hp.2 he

/-- … with line indices. -/
theorem pipeline_no_goto_to_next_label_idx (env : Env) (src : List Char) (prog : Program)
    (h : parseTokens env (Lexer.lexAll src) = .ok prog) (s : Script) (hs : ScriptOf prog s)
    (o : Opts) (patches : List ((Nat × Nat) × String)) (tl : List String) (lines : List Line)
    (he : emitScript o patches tl s = .ok lines) :
    ∀ k L, lines[k]? = some (.goto_ L) → ∀ g, nextVisible (lines.drop (k + 1)) ≠ some (.labelDef L g) :=
  have hp := parsed_scopes env src prog h s hs
  C05c.no_goto_to_next_label_idx o patches tl s lines hp.1 hp.2 he

/-- … with the patches and text labels `emitProgram` really passes to `emitScript`. -/
theorem pipeline_no_goto_to_next_label_prog (env : Env) (src : List Char) (prog : Program)
    (h : parseTokens env (Lexer.lexAll src) = .ok prog) (s : Script) (hs : ScriptOf prog s)
    (o : Opts) (lines : List Line)
    (he : emitScript o prog.patches (prog.texts.map (·.name)) s = .ok lines) :
    ∀ pre post L, lines = pre ++ .goto_ L :: post → ∀ g, nextVisible post ≠ some (.labelDef L g) :=
  pipeline_no_goto_to_next_label env src prog h s hs o prog.patches _ lines he

/-! ### 3. the leaf hypothesis -/

mutual
theorem leavesS_mono {L L' : OpExpr → Prop} (hl : ∀ e, L e → L' e) :
    (x : Stmt) → LeavesS L x → LeavesS L' x
  | .cmd _, _ => trivial
  | .label .., _ => trivial
  | .ite tok c b es e, h => by
    rw [leavesS_ite] at h ⊢
    refine ⟨fun x hx => hl x (h.1 x hx), leavesL_mono hl b h.2.1, leavesE_mono hl es h.2.2.1, ?_⟩
    have h4 := h.2.2.2
    exact match e, h4 with
      | none, _ => trivial
      | some l, h4 => leavesL_mono hl l h4
  | .while_ tok sid c b, h => by
    rw [leavesS_while] at h ⊢
    refine ⟨?_, leavesL_mono hl b h.2⟩
    have h1 := h.1
    exact match c, h1 with
      | none, _ => trivial
      | some c, h1 => fun x hx => hl x (h1 x hx)
  | .doWhile _ _ c b, h => ⟨fun x hx => hl x (h.1 x hx), leavesL_mono hl b h.2⟩
  | .brk .., _ => trivial
  | .cont .., _ => trivial
  | .switch_ _ _ _ cs, h => leavesC_mono hl cs h
theorem leavesL_mono {L L' : OpExpr → Prop} (hl : ∀ e, L e → L' e) :
    (l : List Stmt) → LeavesL L l → LeavesL L' l
  | [], _ => trivial
  | x :: r, h => ⟨leavesS_mono hl x h.1, leavesL_mono hl r h.2⟩
theorem leavesE_mono {L L' : OpExpr → Prop} (hl : ∀ e, L e → L' e) :
    (l : List (BoolExpr × List Stmt)) → LeavesE L l → LeavesE L' l
  | [], _ => trivial
  | (_, b) :: r, h => ⟨fun x hx => hl x (h.1 x hx), leavesL_mono hl b h.2.1, leavesE_mono hl r h.2.2⟩
theorem leavesC_mono {L L' : OpExpr → Prop} (hl : ∀ e, L e → L' e) :
    (l : List SwitchCase) → LeavesC L l → LeavesC L' l
  | [], _ => trivial
  | (_, _, b) :: r, h => ⟨leavesL_mono hl b h.1, leavesC_mono hl r h.2⟩
end

/-- every script of a parsed program has well-formed condition leaves (token-list form) -/
theorem scriptOf_leaves {env : Env} {toks : List Tok} {prog : Program}
    (h : parseTokens env toks = .ok prog) {s : Script} (hs : ScriptOf prog s) :
    LeavesL Spec.WellFormedLeaf s.body := by
  have hall := program_leaves h
  rcases hs with hs | ⟨m, hm, hs⟩
  · exact hall _ hs
  · have hm' : MSLeaves m.mapScripts m.tables := hall _ hm
    rcases hs with ⟨ms, hms, he⟩ | ⟨t, ht, e, he, hes⟩
    · exact hm'.1 ms hms s he
    · exact hm'.2 t ht e he s hes

/-- **Every condition leaf of every script the parser produces is well formed**
(`C01c.LeavesWellFormed`). -/
theorem parsed_leaves_wf (env : Env) (src : List Char) (prog : Program)
    (h : parseTokens env (Lexer.lexAll src) = .ok prog) (s : Script) (hs : ScriptOf prog s) :
    LeavesL Spec.WellFormedLeaf s.body := scriptOf_leaves h hs

/-- … hence renders a conditional jump. -/
theorem parsed_leaves_ref (env : Env) (src : List Char) (prog : Program)
    (h : parseTokens env (Lexer.lexAll src) = .ok prog) (s : Script) (hs : ScriptOf prog s) :
    LeavesL RefLeaf s.body :=
  leavesL_mono wellFormed_refLeaf s.body (parsed_leaves_wf env src prog h s hs)

/-! ### 4. no generated sub-label that nothing refers to -/

/-- **Statement 2 of C05c from source text, either chunk order.**  For every script of a parsed
program and every successful `emitScript`: if the line `name_id:` of a chunk id `id ≠ 0` of the table
is among the emitted lines, some generated jump / `case` line names `name_id`. -/
theorem pipeline_sub_label_referenced (env : Env) (src : List Char) (prog : Program)
    (h : parseTokens env (Lexer.lexAll src) = .ok prog) (s : Script) (hs : ScriptOf prog s)
    (o : Opts) (patches : List ((Nat × Nat) × String)) (tl : List String) (lines : List Line)
    (he : emitScript o patches tl s = .ok lines) :
    ∀ chunks, scriptChunks s.body = .ok chunks →
      ∀ id g, id ≠ 0 → id ∈ chunks.map (·.id) → Line.labelDef (jumpLabel s.name id) g ∈ lines →
        ∃ l ∈ lines, C04.refOf l = some (jumpLabel s.name id) :=
  C05c.sub_label_referenced_wf o patches tl s lines (parsed_leaves_wf env src prog h s hs) he

/-- … with the patches and text labels `emitProgram` really passes to `emitScript`. -/
theorem pipeline_sub_label_referenced_prog (env : Env) (src : List Char) (prog : Program)
    (h : parseTokens env (Lexer.lexAll src) = .ok prog) (s : Script) (hs : ScriptOf prog s)
    (o : Opts) (lines : List Line)
    (he : emitScript o prog.patches (prog.texts.map (·.name)) s = .ok lines) :
    ∀ chunks, scriptChunks s.body = .ok chunks →
      ∀ id g, id ≠ 0 → id ∈ chunks.map (·.id) → Line.labelDef (jumpLabel s.name id) g ∈ lines →
        ∃ l ∈ lines, C04.refOf l = some (jumpLabel s.name id) :=
  pipeline_sub_label_referenced env src prog h s hs o prog.patches _ lines he

/-- Every label line of an emitted script of a parsed program is the script's own label, a label
statement of one of its chunks, or is named by a generated jump / `case` line. -/
theorem pipeline_every_label_accounted (env : Env) (src : List Char) (prog : Program)
    (h : parseTokens env (Lexer.lexAll src) = .ok prog) (s : Script) (hs : ScriptOf prog s)
    (o : Opts) (patches : List ((Nat × Nat) × String)) (tl : List String) (lines : List Line)
    (he : emitScript o patches tl s = .ok lines) :
    ∃ chunks, scriptChunks s.body = .ok chunks ∧
      ∀ L g, Line.labelDef L g ∈ lines →
        L = s.name ∨ (∃ c ∈ chunks, (L, g) ∈ stmtLabels c.statements) ∨
        ∃ l ∈ lines, C04.refOf l = some L :=
  C05c.every_label_accounted o patches tl s lines (parsed_leaves_ref env src prog h s hs) he

/-! ### by-product: `C01c.end_to_end_induced` from source text -/

open Pory.Sem Pory.Asm in
/-- `C01c.end_to_end_induced` with the static hypotheses and `LeavesWellFormed` discharged from the
parser: for the source world induced by an arbitrary assembly world, a finished source run of a script
of a parsed program is matched by the assembly run, and the assembly result is unique.  Only the
configuration hypothesis `PreamblesPlain` remains. -/
theorem pipeline_end_to_end_induced (env : Env) (src : List Char) (prog : Program)
    (h : parseTokens env (Lexer.lexAll src) = .ok prog) (s : Script) (hs : ScriptOf prog s)
    (o : Opts) (patches : List ((Nat × Nat) × String)) (tl : List String) (ls : List Line)
    (hp : PreamblesPlain s.body) (he : emitScript o patches tl s = .ok ls) (aw : AWorld) :
    ∀ (oc : Outcome) (hh : Hist), (∃ n, siter (inducedWorld patches aw) n ⟨s.body, [], []⟩ = .fin oc hh) →
      ∀ (regs : Spec.Regs) (sw : String),
        (∃ m oc', aiter aw ls m ⟨0, [], regs, sw⟩ = .fin oc' (rh patches hh) ∧ ORel patches oc oc') ∧
        ∀ (m : Nat) (oc' : AOutcome) (ah : AHist),
          aiter aw ls m ⟨0, [], regs, sw⟩ = .fin oc' ah → ORel patches oc oc' ∧ ah = rh patches hh := by
  obtain ⟨h1, h2, h3⟩ := parsed_script_hyps env src prog h s hs
  exact C01c.end_to_end_induced o patches tl s ls h1 h2 h3 hp (parsed_leaves_wf env src prog h s hs) he aw

/-! ### non-vacuity: a real source text with an `if` and a `while` -/

/-- kept short: the kernel evaluates lexer, parser and emitter on it -/
def exSrc : List Char := "script S { if (flag(F)) { a } while (var(V) < 3) { b } c }".toList

def pickScript : Top → Option Script
  | .script s => some s
  | _ => none

/-- the text parses; a script of the program is emitted (unoptimised order) to lines whose second line
is `goto S_3` and which contain the sub-label line `S_2:` -/
def exCheck (r : Except PFail Program) : Bool :=
  match r with
  | .ok p => p.tops.any fun t =>
    match pickScript t with
    | some s =>
      (match emitScript { optimize := false } p.patches (p.texts.map Text.name) s with
       | .ok ls => s.name == "S" && ls[1]? == some (.goto_ "S_3") && ls.contains (.labelDef "S_2" false)
       | .error _ => false)
    | none => false
  | .error _ => false

theorem exCheck_ok : exCheck (parseTokens {} (Lexer.lexAll exSrc)) = true := by decide +kernel

/-- The hypotheses of the pipeline theorems hold for the source text `exSrc`, and their conclusions say
something: the emitted lines contain a generated `goto S_3` (the next visible line is therefore not
`S_3:`), and the sub-label line `S_2:` (chunk id 2 — it is therefore named by a generated jump). -/
example : ∃ prog s lines, parseTokens {} (Lexer.lexAll exSrc) = .ok prog ∧ ScriptOf prog s ∧
    emitScript { optimize := false } prog.patches (prog.texts.map (·.name)) s = .ok lines ∧
    lines[1]? = some (.goto_ "S_3") ∧ (∀ g, nextVisible (lines.drop 2) ≠ some (.labelDef "S_3" g)) ∧
    Line.labelDef "S_2" false ∈ lines ∧
    (∀ chunks, scriptChunks s.body = .ok chunks → 2 ∈ chunks.map (·.id) →
      ∃ l ∈ lines, C04.refOf l = some "S_2") := by
  have hk := exCheck_ok
  cases hp : parseTokens {} (Lexer.lexAll exSrc) with
  | error e => rw [hp] at hk; cases hk
  | ok prog =>
    rw [hp] at hk
    simp only [exCheck] at hk
    obtain ⟨t, ht, hts⟩ := List.any_eq_true.1 hk
    cases t with
    | script s =>
      simp only [pickScript] at hts
      cases he : emitScript { optimize := false } prog.patches (prog.texts.map Text.name) s with
      | error e => rw [he] at hts; cases hts
      | ok lines =>
        rw [he] at hts
        simp only [Bool.and_eq_true, beq_iff_eq, List.contains_iff_mem] at hts
        obtain ⟨⟨hn, h1⟩, h2⟩ := hts
        have hs : ScriptOf prog s := .inl ht
        refine ⟨prog, s, lines, rfl, hs, he, h1, ?_, h2, ?_⟩
        · exact pipeline_no_goto_to_next_label_idx {} exSrc prog hp s hs _ _ _ lines he 1 "S_3" h1
        · intro chunks hc hid
          have hj : jumpLabel s.name 2 = "S_2" := by rw [hn]; decide
          have := pipeline_sub_label_referenced {} exSrc prog hp s hs _ _ _ lines he chunks hc 2 false
            (by decide) hid (by rw [hj]; exact h2)
          rwa [hj] at this
    | raw _ _ _ => cases hts
    | text _ => cases hts
    | movement _ => cases hts
    | mart _ _ _ _ _ => cases hts
    | mapscripts _ => cases hts

/-- the same source text, both chunk orders: every hypothesis of the theorems is met as soon as
`emitScript` succeeds -/
example (b : Bool) (prog : Program) (s : Script) (lines : List Line)
    (hp : parseTokens {} (Lexer.lexAll exSrc) = .ok prog) (hs : ScriptOf prog s)
    (he : emitScript { optimize := b } prog.patches (prog.texts.map (·.name)) s = .ok lines) :=
  And.intro (pipeline_no_goto_to_next_label_prog {} exSrc prog hp s hs _ lines he)
    (pipeline_sub_label_referenced_prog {} exSrc prog hp s hs _ lines he)

#print axioms exCheck_ok
#print axioms wellFormed_of_bodyOK
#print axioms parsed_scopes
#print axioms pipeline_no_goto_to_next_label
#print axioms pipeline_no_goto_to_next_label_idx
#print axioms parsed_leaves_wf
#print axioms parsed_leaves_ref
#print axioms pipeline_sub_label_referenced
#print axioms pipeline_every_label_accounted
#print axioms pipeline_end_to_end_induced

end Pory.C05d
