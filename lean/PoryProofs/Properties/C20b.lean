import PoryProofs.ParserScopesTop
/-
C20b — scopes well-formed: the output of the parser satisfies the static scoping hypothesis of
the compiler-correctness theorem.

For every script body the parser produces (script statements and the inline scripts of `mapscripts`
statements, including table entries):
* `Sem.WellScoped ⟨body, [], []⟩` — every `break sid` lies inside a loop or switch with scope id `sid`,
  every `continue sid` inside a loop with scope id `sid` (`PoryProofs/Scoped.lean`; this is the
  hypothesis `wellScoped_stepScoped` / `wellScoped_siter` consume);
* `(bindersL body).Nodup` — the scope ids of the loops and switches of the body are pairwise distinct;
* `OneDefault body` — every `switch` has at most one `default` case.

The underlying invariant of the statement parser (stacks balanced on every successful path, ids fresh
and increasing, `Good` preserved) is `Pory.Parser.specAll` in `PoryProofs/ParserScopes.lean`, proved by
simultaneous induction on fuel over the mutual block; its run-form is `Pory.Parser.ScopesOK`
(`parseStatement_scopes`, `parseBlockStatement_scopes`, …, `ScopesOK.fresh`).

Everything here is proved for all inputs and all fuel values; nothing is partial.  Not proved (and not
claimed): the stronger "the id of a `break` is the *innermost* enclosing scope" — `Scoped.lean` only
needs membership.
-/
namespace Pory.C20b
open Pory Pory.Parser Pory.Sem

/-- C20 for one script body parsed at top level (empty stacks). -/
def BodyOK (body : List Stmt) : Prop :=
  Sem.WellScoped ⟨body, [], []⟩ ∧ (bindersL body).Nodup ∧ OneDefault body

theorem wf_bodyOK {lo hi : Nat} {body : List Stmt} (h : WF [] [] lo hi body) : BodyOK body :=
  ⟨⟨h.sc, trivial⟩, h.nd, h.od⟩

/-- Script statements. -/
theorem script_body_wellscoped {env : Env} {fuel : Nat} {s s' : PState} {scr : Script} {imp : ImpData}
    (h : (parseScriptStatement env fuel).run s = .ok ((scr, imp), s'))
    (hb : s.breakStack = []) (hc : s.continueStack = []) :
    Sem.WellScoped ⟨scr.body, [], []⟩ ∧ (bindersL scr.body).Nodup ∧ OneDefault scr.body := by
  have hs := script_spec env fuel s _ _ h
  rw [hb, hc] at hs
  exact wf_bodyOK hs.2

/-- The stacks are empty again after a script statement, and `nextSid` did not decrease. -/
theorem script_stacks_restored {env : Env} {fuel : Nat} {s s' : PState} {scr : Script} {imp : ImpData}
    (h : (parseScriptStatement env fuel).run s = .ok ((scr, imp), s')) :
    s'.breakStack = s.breakStack ∧ s'.continueStack = s.continueStack ∧ s.nextSid ≤ s'.nextSid :=
  (script_spec env fuel s _ _ h).1

/-- Inline scripts of map-script table entries (`parseTableEntries`). -/
theorem table_entries_wellscoped {env : Env} {ms ty : String} {fuel i : Nat} {s s' : PState}
    {entries : List TableEntry} {imp0 imp : ImpData}
    (h : (parseTableEntries env ms ty fuel i [] imp0).run s = .ok ((entries, imp), s'))
    (hb : s.breakStack = []) (hc : s.continueStack = []) :
    ∀ e ∈ entries, ∀ scr, e.script = some scr → BodyOK scr.body := by
  have hs := tableEntries_spec env ms ty fuel i [] imp0 s s.nextSid (Nat.le_refl _)
    (fun _ h => absurd h List.not_mem_nil) _ _ h
  rw [hb, hc] at hs
  intro e he scr hscr
  exact wf_bodyOK (hs.2 e he scr hscr)

/-- Inline scripts of map scripts and of their tables (`parseMapScriptEntries`). -/
theorem mapscript_entries_wellscoped {env : Env} {ms : String} {fuel : Nat} {s s' : PState}
    {mss : List MapScript} {tables : List TableMapScript} {imp0 imp : ImpData}
    (h : (parseMapScriptEntries env ms fuel [] [] imp0).run s = .ok ((mss, tables, imp), s'))
    (hb : s.breakStack = []) (hc : s.continueStack = []) :
    (∀ m ∈ mss, ∀ scr, m.script = some scr → BodyOK scr.body) ∧
    (∀ t ∈ tables, ∀ e ∈ t.entries, ∀ scr, e.script = some scr → BodyOK scr.body) := by
  have hs := mapScriptEntries_spec env ms fuel [] [] imp0 s s.nextSid (Nat.le_refl _) MSOK.nil _ _ h
  rw [hb, hc] at hs
  exact ⟨fun m hm scr hscr => wf_bodyOK (hs.2.1 m hm scr hscr),
    fun t ht e he scr hscr => wf_bodyOK (hs.2.2 t ht e he scr hscr)⟩

/-- C20 for one top-level statement of a parsed program. -/
def TopBodiesOK : Top → Prop
  | .script scr => BodyOK scr.body
  | .mapscripts m =>
    (∀ ms ∈ m.mapScripts, ∀ scr, ms.script = some scr → BodyOK scr.body) ∧
    (∀ t ∈ m.tables, ∀ e ∈ t.entries, ∀ scr, e.script = some scr → BodyOK scr.body)
  | _ => True

theorem topOK_bodies {lo hi : Nat} {t : Top} (h : TopOK [] [] lo hi t) : TopBodiesOK t := by
  cases t with
  | script scr => exact wf_bodyOK (body := scr.body) h
  | mapscripts m =>
    have h' : MSOK [] [] lo hi m.mapScripts m.tables := h
    exact ⟨fun ms hm scr hscr => wf_bodyOK (h'.1 ms hm scr hscr),
      fun t ht e he scr hscr => wf_bodyOK (h'.2 t ht e he scr hscr)⟩
  | raw _ _ _ => trivial
  | text _ => trivial
  | movement _ => trivial
  | mart _ _ _ _ _ => trivial

/-- **Whole program**: every script body of `ParseProgram`'s result is well scoped, has pairwise
distinct scope ids and at most one `default` per switch. -/
theorem program_wellscoped {env : Env} {toks : List Tok} {prog : Program}
    (h : parseTokens env toks = .ok prog) : ∀ t ∈ prog.tops, TopBodiesOK t := by
  unfold parseTokens at h
  simp only [StateT.run'] at h
  generalize hr : (parseProgramM env (4 * toks.length + 50))
    { toks := toks, eof := toks.getLastD { type := .EOF } } = res at h
  cases res with
  | error e => simp [Functor.map, Except.map] at h
  | ok r =>
    obtain ⟨p, s'⟩ := r
    simp only [Functor.map, Except.map, Except.ok.injEq] at h
    subst h
    intro t ht
    exact topOK_bodies (program_spec env _ _ p s' hr t ht)

/-! ### non-vacuity: `script S { while { break } }` -/
section Example
private def tk (t : TT) (l : String := "") : Tok := { type := t, lit := l }
private def exToks : List Tok :=
  [tk .SCRIPT, tk .IDENT "S", tk .LBRACE, tk .WHILE, tk .LBRACE, tk .BREAK, tk .RBRACE, tk .RBRACE, tk .EOF]

example : ∃ prog, parseTokens {} exToks = .ok prog ∧
    prog.tops.length = 1 ∧ ∀ t ∈ prog.tops, TopBodiesOK t := by
  refine ⟨_, rfl, rfl, ?_⟩
  exact program_wellscoped (env := {}) (toks := exToks) rfl
end Example

end Pory.C20b
