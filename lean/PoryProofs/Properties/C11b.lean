import PoryProofs.AutoVarParse
import PoryProofs.Properties.C11
/-
C11 (parser half) — "A condition that calls a configured AutoVar command runs that command and then
compares the variable the configuration names: the configured variable name, or the command
argument at the configured position." — for the parser model `parseLeafBooleanExpression` /
`peekTokenIsAutoVar` / `expectPeekVarOrAutoVar` (`parseLeafBooleanExpression`,
`expectPeekVarOrAutoVar` of /repo/parser/parser.go).

Reference syntax. The command is written exactly as in C10b (`PoryProofs/CmdParse.lean`):
`printCmd name lp a0 more rp` = `name ( a0 , a1 , … )`, every argument `ArgOK` (non-empty, plain
tokens and balanced parentheses; no string literals / `format` / `moves` — the part C10b covers).
Around it (`Form`, `PoryProofs/AutoVarParse.lean`): nothing (`cmd(…)`), a comparison
`cmd(…) op N` (op ∈ {==, !=, <, <=, >, >=}, N one INT or IDENT token — the tails of the `var(X)`
leaves of BoolParseLeaf.lean), or a leading `!` (`!cmd(…)`). All tokens are arbitrary records (any
positions); `name` is an IDENT token whose literal is configured: `env.autoVars.lookup name.lit =
some av`. `pre` is the token before the leaf (the parser is entered with `cur = pre`), `rest` what
follows (`&&`, `||` or `)` first — nothing is required after a `!` leaf).

Proved (every environment, surrounding parser state `s` incl. constants, fuel ≥ the C10b bound):
* `parse_autovar_leaf`   : the parser returns `autoLeafT …`, no implicit data, stops exactly at `rest`,
                           only `toks` and `nextCmdId` (+1) change in the state;
* `parse_autovar_leaf_spec` : the same spelled out field by field:
    - `e.preamble = some cmd` with `cmd` = `cmdT …` = exactly the command `C10b.parse_command`
      returns (`cmdT_eq_parse_command`): id, name token, arguments in order, constants substituted;
    - `e.type = .VAR`;
    - `e.operand.lit = av.varName` when `av.argPos = none`;
      `e.operand.lit = ` the rendered `k`-th argument when `av.argPos = some k`, `k < n`;
      the operand token is an IDENT token with the positions of the command-name token;
    - operator, comparison value and strictness are those of the `var(X)` leaf with the same
      surroundings (`C02P.leafT` of `Form.varLeaf`): `!= 0` for a bare leaf, `op N` (constant
      substituted) for a comparison, `== 0` after `!`;
* `autovar_bad_position_rejected` : `av.argPos = some pos` with `pos < 0 ∨ pos ≥ n`: the located
  error "auto-var command NAME has an arg position of POS, but only N arguments were provided",
  ranging from the command-name token to the closing `)` — an ordinary `PFail.err`, never a panic
  (finding F14: the Go code indexed the argument slice without this check);
* `non_autovar_command_rejected`(`_not`) : a leaf that starts (after an optional `!`) with a token
  that is not `var` / `flag` / `defeated` and not a configured command name — in particular an
  identifier that is not configured — is rejected with "left side of binary expression must be
  var(), flag(), defeated(), or autovar command. Instead, found 'LIT'", located on that token;
* extras: `parse_autovar_leaf_noargs` (`cmd()`: fine with a configured name, and
  `autovar_bad_position_rejected_noargs`: every configured position is rejected),
  `parse_autovar_leaf_bare` (`cmd` without parentheses and a configured name).
Nothing is partial.

Chain to the emitter side (C11, `PoryProofs/Properties/C11.lean`): `preamble_emitted_before_compare`
below restates `C11.preamble_rendered_as_statement` for the leaf the parser builds here: the
chunk of such a leaf starts with `renderCommand patches (cmdT …)`, i.e. the line C10 proves for the
command as a statement, immediately followed by the compare line on `operandName av args`.
`C11.preamble_once_per_evaluation` then says this happens once per evaluation, in order.

Not covered: arguments with string literals / `format()` / `moves()` (implicit data; not covered
by C10b either), `value(…)` and multi-token comparison values, the auto-var form of `switch`.
-/
namespace Pory.C11b
open Pory Pory.Parser Pory.C02P Pory.C10b

/-- The arguments `C10b.parse_command` returns for `name ( a0 , a1 , … )`. -/
def argsT (s : PState) (a0 : List Tok) (more : List (Tok × List Tok)) : List String :=
  (a0 :: more.map (·.2)).map (renderArg (substC s.constants))

/-- The command `C10b.parse_command` returns for `name ( a0 , a1 , … )`. -/
def cmdT (s : PState) (name : Tok) (a0 : List Tok) (more : List (Tok × List Tok)) : Cmd :=
  { id := s.nextCmdId, tok := name, name := name.lit, args := argsT s a0 more }

@[simp] theorem argsT_length (s : PState) (a0 : List Tok) (more : List (Tok × List Tok)) :
    (argsT s a0 more).length = more.length + 1 := by simp [argsT]

/-- `cmdT` is by definition the result of `C10b.parse_command`. -/
theorem cmdT_eq_parse_command (env : Env) (sn : String) (s : PState) (name lp : Tok) (a0 : List Tok)
    (more : List (Tok × List Tok)) (rp : Tok) (rest : List Tok)
    (hlp : lp.type = .LPAREN) (hrp : rp.type = .RPAREN) (h0 : ArgOK a0)
    (hm : ∀ p ∈ more, p.1.type = .COMMA ∧ ArgOK p.2) (fuel : Nat)
    (hf : a0.length + (printMore more).length + 1 ≤ fuel) :
    (parseCommandStatement env sn fuel).run (st s (printCmd name lp a0 more rp ++ rest)) =
      .ok ((cmdT s name a0 more, {}), st (bump s) (rp :: rest)) :=
  parse_command env sn s name lp a0 more rp rest hlp hrp h0 hm fuel hf

/-- The tokens of an auto-var leaf: `[!] name ( a0 , … ) [op N]`. -/
def printAuto (fm : Form) (name lp : Tok) (a0 : List Tok) (more : List (Tok × List Tok)) (rp : Tok) :
    List Tok :=
  fm.pre ++ (printCmd name lp a0 more rp ++ fm.post)

theorem printAuto_shape (fm : Form) (name lp : Tok) (a0 : List Tok) (more : List (Tok × List Tok))
    (rp : Tok) (rest : List Tok) :
    printAuto fm name lp a0 more rp ++ rest =
      fm.pre ++ name :: (lp :: (a0 ++ (printMore more ++ [rp])) ++ (fm.post ++ rest)) := by
  simp [printAuto, printCmd]

/-- **C11, parser half.** -/
theorem parse_autovar_leaf (env : Env) (sn : String) (s : PState) (pre name lp : Tok) (a0 : List Tok)
    (more : List (Tok × List Tok)) (rp : Tok) (rest : List Tok) (av : AutoVar) (fm : Form)
    (hname : name.type = .IDENT) (hav : env.autoVars.lookup name.lit = some av)
    (hlp : lp.type = .LPAREN) (hrp : rp.type = .RPAREN) (h0 : ArgOK a0)
    (hm : ∀ p ∈ more, p.1.type = .COMMA ∧ ArgOK p.2)
    (hpos : PosOK av (more.length + 1)) (hrest : fm.RestOK rest)
    (fuel : Nat) (hf : a0.length + (printMore more).length + 1 ≤ fuel) :
    (parseLeafBooleanExpression env sn fuel).run
        (st s (pre :: (printAuto fm name lp a0 more rp ++ rest))) =
      .ok ((autoLeafT (substC s.constants) fm (operandName av (argsT s a0 more)) (cmdT s name a0 more), {}),
           st (bump s) rest) := by
  have hc := cmdT_eq_parse_command env sn s name lp a0 more rp (fm.post ++ rest) hlp hrp h0 hm fuel hf
  have hshape : printCmd name lp a0 more rp ++ (fm.post ++ rest) =
      name :: (lp :: (a0 ++ (printMore more ++ [rp])) ++ (fm.post ++ rest)) := by simp [printCmd]
  rw [hshape] at hc
  have h2 : 2 ≤ fuel := by
    have := List.length_pos_iff.mpr h0.nonempty
    omega
  rw [printAuto_shape]
  exact leaf_of_cmd env sn fuel s (bump s) pre name rp _ rest av fm (cmdT s name a0 more) {} hname hav
    hc (by simpa [cmdT] using hpos) hrest h2

/-- The statement of `parse_autovar_leaf` field by field. -/
theorem parse_autovar_leaf_spec (env : Env) (sn : String) (s : PState) (pre name lp : Tok)
    (a0 : List Tok) (more : List (Tok × List Tok)) (rp : Tok) (rest : List Tok) (av : AutoVar)
    (fm : Form)
    (hname : name.type = .IDENT) (hav : env.autoVars.lookup name.lit = some av)
    (hlp : lp.type = .LPAREN) (hrp : rp.type = .RPAREN) (h0 : ArgOK a0)
    (hm : ∀ p ∈ more, p.1.type = .COMMA ∧ ArgOK p.2)
    (hpos : PosOK av (more.length + 1)) (hrest : fm.RestOK rest)
    (fuel : Nat) (hf : a0.length + (printMore more).length + 1 ≤ fuel) :
    ∃ e : OpExpr,
      (parseLeafBooleanExpression env sn fuel).run
          (st s (pre :: (printAuto fm name lp a0 more rp ++ rest))) =
        .ok ((e, {}), st (bump s) rest) ∧
      -- the command runs first: the preamble is exactly the command C10b.parse_command returns
      e.preamble = some (cmdT s name a0 more) ∧
      (∀ rest', (parseCommandStatement env sn fuel).run (st s (printCmd name lp a0 more rp ++ rest')) =
        .ok ((cmdT s name a0 more, {}), st (bump s) (rp :: rest'))) ∧
      -- then a variable is compared
      e.type = .VAR ∧
      -- … the configured one
      (av.argPos = none → e.operand.lit = av.varName) ∧
      -- … or the argument at the configured position
      (∀ k : Nat, av.argPos = some (k : Int) → ∀ hk : k < (a0 :: more.map (·.2)).length,
        e.operand.lit = renderArg (substC s.constants) ((a0 :: more.map (·.2))[k])) ∧
      -- the operand token: an IDENT at the position of the command name
      e.operand = { name with type := .IDENT, lit := operandName av (argsT s a0 more) } ∧
      -- operator / comparison value as for the `var(X)` leaf with the same surroundings
      (∀ ps x, e.operator = (leafT (substC s.constants) (fm.varLeaf ps x)).operator ∧
               e.cmpValue = (leafT (substC s.constants) (fm.varLeaf ps x)).cmpValue ∧
               e.strict = (leafT (substC s.constants) (fm.varLeaf ps x)).strict ∧
               e.type = (leafT (substC s.constants) (fm.varLeaf ps x)).type) ∧
      e.operator = fm.operator ∧ e.cmpValue = fm.cmpValue (substC s.constants) := by
  refine ⟨_, parse_autovar_leaf env sn s pre name lp a0 more rp rest av fm hname hav hlp hrp h0 hm
    hpos hrest fuel hf, rfl, ?_, rfl, ?_, ?_, rfl, ?_, rfl, rfl⟩
  · intro rest'
    exact cmdT_eq_parse_command env sn s name lp a0 more rp rest' hlp hrp h0 hm fuel hf
  · intro h
    exact operandName_none av _ h
  · intro k hk hlt
    show operandName av (argsT s a0 more) = _
    rw [operandName_pos av _ k hk (by simpa [argsT] using hlt)]
    simp only [argsT, List.getElem_map]
  · intro ps x
    rw [autoLeafT_eq_varLeaf (substC s.constants) fm _ _ ps x]
    exact ⟨rfl, rfl, rfl, rfl⟩

/-- `newRangeParseError` is an ordinary located error (not `panic`, not `outOfFuel`). -/
theorem rangeError_is_err (t1 t2 : Tok) (msg : String) :
    ∃ pe : PErr, newRangeParseError t1 t2 msg = .err pe ∧ pe.msg = msg ∧
      pe.lineStart = t1.line ∧ pe.charStart = t1.startChar ∧ pe.utf8Start = t1.startUtf8 ∧
      pe.lineEnd = t2.endLine ∧ pe.charEnd = t2.endChar ∧ pe.utf8End = t2.endUtf8 :=
  ⟨_, rfl, rfl, rfl, rfl, rfl, rfl, rfl, rfl⟩

/-- **F14**: a configured position that does not address one of the `n` written arguments is a
located parse error from the command name to the closing parenthesis — whatever surrounds the
command and whatever follows it. -/
theorem autovar_bad_position_rejected (env : Env) (sn : String) (s : PState) (pre name lp : Tok)
    (a0 : List Tok) (more : List (Tok × List Tok)) (rp : Tok) (rest : List Tok) (av : AutoVar)
    (fm : Form) (pos : Int)
    (hname : name.type = .IDENT) (hav : env.autoVars.lookup name.lit = some av)
    (hlp : lp.type = .LPAREN) (hrp : rp.type = .RPAREN) (h0 : ArgOK a0)
    (hm : ∀ p ∈ more, p.1.type = .COMMA ∧ ArgOK p.2)
    (hp : av.argPos = some pos) (hbad : pos < 0 ∨ pos ≥ ((more.length + 1 : Nat) : Int))
    (fuel : Nat) (hf : a0.length + (printMore more).length + 1 ≤ fuel) :
    (parseLeafBooleanExpression env sn fuel).run
        (st s (pre :: (printAuto fm name lp a0 more rp ++ rest))) =
      .error (newRangeParseError name rp
        s!"auto-var command {name.lit} has an arg position of {pos}, but only {more.length + 1} arguments were provided") := by
  have hc := cmdT_eq_parse_command env sn s name lp a0 more rp (fm.post ++ rest) hlp hrp h0 hm fuel hf
  have hshape : printCmd name lp a0 more rp ++ (fm.post ++ rest) =
      name :: (lp :: (a0 ++ (printMore more ++ [rp])) ++ (fm.post ++ rest)) := by simp [printCmd]
  rw [hshape] at hc
  rw [printAuto_shape]
  have h := leaf_of_cmd_bad env sn fuel s (bump s) pre name rp _ _ av fm (cmdT s name a0 more) {} pos
    hname hav hc hp (by simpa [cmdT] using hbad)
  rw [h]
  simp only [cmdT, argsT_length]
  rfl

/-- The rejection is never a panic and never `outOfFuel`. -/
theorem autovar_bad_position_no_panic (env : Env) (sn : String) (s : PState) (pre name lp : Tok)
    (a0 : List Tok) (more : List (Tok × List Tok)) (rp : Tok) (rest : List Tok) (av : AutoVar)
    (fm : Form) (pos : Int)
    (hname : name.type = .IDENT) (hav : env.autoVars.lookup name.lit = some av)
    (hlp : lp.type = .LPAREN) (hrp : rp.type = .RPAREN) (h0 : ArgOK a0)
    (hm : ∀ p ∈ more, p.1.type = .COMMA ∧ ArgOK p.2)
    (hp : av.argPos = some pos) (hbad : pos < 0 ∨ pos ≥ ((more.length + 1 : Nat) : Int))
    (fuel : Nat) (hf : a0.length + (printMore more).length + 1 ≤ fuel) :
    ∃ pe : PErr, (parseLeafBooleanExpression env sn fuel).run
        (st s (pre :: (printAuto fm name lp a0 more rp ++ rest))) = .error (.err pe) ∧
      pe.lineStart = name.line ∧ pe.charStart = name.startChar ∧ pe.utf8Start = name.startUtf8 ∧
      pe.lineEnd = rp.endLine ∧ pe.charEnd = rp.endChar ∧ pe.utf8End = rp.endUtf8 := by
  rw [autovar_bad_position_rejected env sn s pre name lp a0 more rp rest av fm pos hname hav hlp hrp
    h0 hm hp hbad fuel hf]
  exact ⟨_, rfl, rfl, rfl, rfl, rfl, rfl, rfl⟩

/-- A leaf that starts with a token that is not `var`/`flag`/`defeated`/`!` and not a configured
auto-var command is rejected; the error is located on that token. -/
theorem non_autovar_command_rejected (env : Env) (sn : String) (fuel : Nat) (s : PState)
    (pre x : Tok) (tl : List Tok) (hnot : x.type ≠ .NOT) (hx : NotLeafStart env x) :
    (parseLeafBooleanExpression env sn fuel).run (st s (pre :: x :: tl)) =
      .error (newParseError x
        s!"left side of binary expression must be var(), flag(), defeated(), or autovar command. Instead, found '{x.lit}'") :=
  leaf_reject env sn fuel s pre x tl hnot hx

/-- … the same after a `!` (here `x` may itself be a `!`: `!!flag(A)` is rejected). -/
theorem non_autovar_command_rejected_not (env : Env) (sn : String) (fuel : Nat) (s : PState)
    (pre nt x : Tok) (tl : List Tok) (hnt : nt.type = .NOT) (hx : NotLeafStart env x) :
    (parseLeafBooleanExpression env sn fuel).run (st s (pre :: nt :: x :: tl)) =
      .error (newParseError x
        s!"left side of binary expression must be var(), flag(), defeated(), or autovar command. Instead, found '{x.lit}'") :=
  leaf_reject_not env sn fuel s pre nt x tl hnt hx

/-- The task's wording: an identifier that is not configured. -/
theorem unconfigured_ident_rejected (env : Env) (sn : String) (fuel : Nat) (s : PState)
    (pre x : Tok) (tl : List Tok) (hx : x.type = .IDENT) (hcfg : env.autoVars.lookup x.lit = none) :
    (parseLeafBooleanExpression env sn fuel).run (st s (pre :: x :: tl)) =
      .error (newParseError x
        s!"left side of binary expression must be var(), flag(), defeated(), or autovar command. Instead, found '{x.lit}'") :=
  non_autovar_command_rejected env sn fuel s pre x tl (by simp [hx])
    ⟨by simp [hx], by simp [hx], by simp [hx], fun _ => hcfg⟩

/-! ### `cmd()` and `cmd` without parentheses -/

/-- `[!] name ( ) [op N]`: no arguments; fine when the configuration names the variable. -/
theorem parse_autovar_leaf_noargs (env : Env) (sn : String) (s : PState) (pre name lp rp : Tok)
    (rest : List Tok) (av : AutoVar) (fm : Form)
    (hname : name.type = .IDENT) (hav : env.autoVars.lookup name.lit = some av)
    (hlp : lp.type = .LPAREN) (hrp : rp.type = .RPAREN)
    (hpos : av.argPos = none) (hrest : fm.RestOK rest) (fuel : Nat) (hf : 2 ≤ fuel) :
    (parseLeafBooleanExpression env sn fuel).run
        (st s (pre :: (fm.pre ++ name :: lp :: rp :: (fm.post ++ rest)))) =
      .ok ((autoLeafT (substC s.constants) fm av.varName
              { id := s.nextCmdId, tok := name, name := name.lit, args := [] }, {}),
           st (bump s) rest) := by
  have hc := parse_command_empty_parens env sn s name lp rp (fm.post ++ rest) hlp hrp fuel (by omega)
  have h := leaf_of_cmd env sn fuel s (bump s) pre name rp _ rest av fm _ {} hname hav hc
    (fun p hp => by simp [hpos] at hp) hrest hf
  rw [operandName_none av _ hpos] at h
  exact h

/-- `name()` with a configured position: always rejected (there is no argument). -/
theorem autovar_bad_position_rejected_noargs (env : Env) (sn : String) (s : PState)
    (pre name lp rp : Tok) (tl : List Tok) (av : AutoVar) (fm : Form) (pos : Int)
    (hname : name.type = .IDENT) (hav : env.autoVars.lookup name.lit = some av)
    (hlp : lp.type = .LPAREN) (hrp : rp.type = .RPAREN)
    (hp : av.argPos = some pos) (fuel : Nat) (hf : 1 ≤ fuel) :
    (parseLeafBooleanExpression env sn fuel).run
        (st s (pre :: (fm.pre ++ name :: lp :: rp :: tl))) =
      .error (newRangeParseError name rp
        s!"auto-var command {name.lit} has an arg position of {pos}, but only {0} arguments were provided") := by
  have hc := parse_command_empty_parens env sn s name lp rp tl hlp hrp fuel hf
  rw [leaf_of_cmd_bad env sn fuel s (bump s) pre name rp _ _ av fm _ {} pos hname hav hc hp
    (by simp; omega)]
  rfl

/-- `[!] name [op N]` — the command written without parentheses (as a statement may be). -/
theorem parse_autovar_leaf_bare (env : Env) (sn : String) (s : PState) (pre name : Tok)
    (rest : List Tok) (av : AutoVar) (fm : Form)
    (hname : name.type = .IDENT) (hav : env.autoVars.lookup name.lit = some av)
    (hnx : ((fm.post ++ rest).headD s.eof).type ≠ .LPAREN)
    (hpos : av.argPos = none) (hrest : fm.RestOK rest) (fuel : Nat) (hf : 2 ≤ fuel) :
    (parseLeafBooleanExpression env sn fuel).run
        (st s (pre :: (fm.pre ++ name :: (fm.post ++ rest)))) =
      .ok ((autoLeafT (substC s.constants) fm av.varName
              { id := s.nextCmdId, tok := name, name := name.lit, args := [] }, {}),
           st (bump s) rest) := by
  have hc : (parseCommandStatement env sn fuel).run (st s (name :: (fm.post ++ rest))) =
      .ok (({ id := s.nextCmdId, tok := name, name := name.lit, args := [] }, {}),
           st (bump s) (name :: (fm.post ++ rest))) := by
    rw [parse_command_bare env sn fuel _ (by
      cases h : fm.post ++ rest with
      | nil => simpa [h] using hnx
      | cons a b => simpa [h] using hnx)]
    rfl
  have h := leaf_of_cmd env sn fuel s (bump s) pre name name _ rest av fm _ {} hname hav hc
    (fun p hp => by simp [hpos] at hp) hrest hf
  rw [operandName_none av _ hpos] at h
  exact h

/-! ### chain to the emitter side -/

/-- `C11.preamble_rendered_as_statement` for the leaf built here: the chunk of an auto-var leaf
starts with the line of the command rendered as a statement (the compare line follows; which
variable it compares is `operandName av args`, by `parse_autovar_leaf`). -/
theorem preamble_emitted_before_compare (o : Emit.Opts) (patches : List ((Nat × Nat) × String))
    (chunkName : String) (id truthy : Nat) (f next : Option Nat) (σ : String → String) (fm : Form)
    (operand : String) (cmd : Cmd) :
    (Emit.renderBranching o patches chunkName
        { id := id, branch := .leaf truthy (autoLeafT σ fm operand cmd) f } next).1.head? =
      some (Emit.renderCommand patches cmd) :=
  C11.preamble_rendered_as_statement o patches chunkName id truthy _ f cmd next rfl

/-! ### non-vacuity -/

/-- `random` puts its result into `VAR_RESULT`. -/
def envRandom : Env := { autoVars := [("random", { varName := "VAR_RESULT" })] }
/-- `specialvar` puts its result into its first argument. -/
def envSpecial : Env := { autoVars := [("specialvar", { argPos := some 0 })] }

/-- `( random ( 4 ) == 2 ) {` — cur is the `(` that opens the condition -/
def exRandom : List Tok :=
  [tk .LPAREN "(", tk .IDENT "random", tk .LPAREN "(", tk .INT "4", tk .RPAREN ")", tk .EQ "==",
   tk .INT "2", tk .RPAREN ")", tk .LBRACE "{"]

/-- `( specialvar ( VAR_X , 7 ) != 0 ) {` -/
def exSpecial : List Tok :=
  [tk .LPAREN "(", tk .IDENT "specialvar", tk .LPAREN "(", tk .IDENT "VAR_X", tk .COMMA ",",
   tk .INT "7", tk .RPAREN ")", tk .NEQ "!=", tk .INT "0", tk .RPAREN ")", tk .LBRACE "{"]

-- sanity check (evaluation, not a proof): types and literals of the model lexer's tokens
#guard ((Lexer.lexAll "if (random(4) == 2) {".toList).drop 1 |>.take 9).map (fun t => (t.type, t.lit)) ==
  exRandom.map (fun t => (t.type, t.lit))
#guard ((Lexer.lexAll "if (specialvar(VAR_X, 7) != 0) {".toList).drop 1 |>.take 11).map (fun t => (t.type, t.lit)) ==
  exSpecial.map (fun t => (t.type, t.lit))

theorem exRandom_shape : exRandom =
    tk .LPAREN "(" :: (printAuto (.cmp {} {} "==" .eq ⟨true, "2"⟩) (tk .IDENT "random") (tk .LPAREN "(")
      [tk .INT "4"] [] (tk .RPAREN ")") ++ [tk .RPAREN ")", tk .LBRACE "{"]) := by decide

theorem exSpecial_shape : exSpecial =
    tk .LPAREN "(" :: (printAuto (.cmp {} {} "!=" .neq ⟨true, "0"⟩) (tk .IDENT "specialvar")
      (tk .LPAREN "(") [tk .IDENT "VAR_X"] [(tk .COMMA ",", [tk .INT "7"])] (tk .RPAREN ")") ++
      [tk .RPAREN ")", tk .LBRACE "{"]) := by decide

/-- `random(4) == 2` with `random ↦ VAR_RESULT`: runs `random 4`, compares `VAR_RESULT == 2`. -/
example (s : PState) (fuel : Nat) (hf : 2 ≤ fuel) :
    (parseLeafBooleanExpression envRandom "s" fuel).run (st s exRandom) =
      .ok (({ type := .VAR, operand := tk .IDENT "VAR_RESULT", operator := .EQ,
              cmpValue := substC s.constants "2",
              preamble := some { id := s.nextCmdId, tok := tk .IDENT "random", name := "random",
                                 args := [substC s.constants "4"] } }, {}),
           st (bump s) [tk .RPAREN ")", tk .LBRACE "{"]) := by
  rw [exRandom_shape, parse_autovar_leaf envRandom "s" s _ _ _ _ _ _ _ { varName := "VAR_RESULT" }
    (.cmp {} {} "==" .eq ⟨true, "2"⟩)
    rfl rfl rfl rfl (by decide) (by simp) (by decide)
    (show Follow _ from follow_cons _ _ (Or.inr (Or.inr rfl))) fuel
    (by simpa [printMore] using hf)]
  rfl

/-- `specialvar(VAR_X, 7) != 0` with `specialvar ↦ argument 0`: runs `specialvar VAR_X, 7`,
compares `VAR_X != 0`. -/
example (fuel : Nat) (hf : 4 ≤ fuel) :
    (parseLeafBooleanExpression envSpecial "s" fuel).run (st default exSpecial) =
      .ok (({ type := .VAR, operand := tk .IDENT "VAR_X", operator := .NEQ, cmpValue := "0",
              preamble := some { id := 0, tok := tk .IDENT "specialvar", name := "specialvar",
                                 args := ["VAR_X", "7"] } }, {}),
           st (bump default) [tk .RPAREN ")", tk .LBRACE "{"]) := by
  rw [exSpecial_shape, parse_autovar_leaf envSpecial "s" default _ _ _ _ _ _ _ { argPos := some 0 }
    (.cmp {} {} "!=" .neq ⟨true, "0"⟩)
    rfl rfl rfl rfl (by decide) (by decide) (by decide)
    (show Follow _ from follow_cons _ _ (Or.inr (Or.inr rfl))) fuel
    (by simpa [printMore] using hf)]
  exact congrArg Except.ok (Prod.ext (Prod.ext (by decide) rfl) rfl)

/-- The same two inputs by plain evaluation of the model (agrees with the theorem). -/
example :
    ((parseLeafBooleanExpression envRandom "s" 20).run (st default exRandom)).toOption.map
        (fun r => (r.1.1.operand.lit, r.1.1.operator, r.1.1.cmpValue, r.1.1.preamble.map (·.args))) =
      some ("VAR_RESULT", .EQ, "2", some ["4"]) ∧
    ((parseLeafBooleanExpression envSpecial "s" 20).run (st default exSpecial)).toOption.map
        (fun r => (r.1.1.operand.lit, r.1.1.operator, r.1.1.cmpValue, r.1.1.preamble.map (·.args))) =
      some ("VAR_X", .NEQ, "0", some ["VAR_X", "7"]) := by decide

/-- the error of a failed run -/
def errOf {α} : Except PFail α → Option PFail
  | .error e => some e
  | .ok _ => none

/-- `specialvar(VAR_X, 7) != 0` with the configured position 2: rejected, located from
`specialvar` to the `)`. -/
example (fuel : Nat) (hf : 4 ≤ fuel) :
    (parseLeafBooleanExpression { autoVars := [("specialvar", { argPos := some 2 })] } "s" fuel).run
        (st default exSpecial) =
      .error (newRangeParseError (tk .IDENT "specialvar") (tk .RPAREN ")")
        "auto-var command specialvar has an arg position of 2, but only 2 arguments were provided") := by
  rw [exSpecial_shape, autovar_bad_position_rejected _ "s" default _ _ _ _ _ _ _ { argPos := some 2 }
    (.cmp {} {} "!=" .neq ⟨true, "0"⟩) 2 rfl rfl rfl rfl (by decide) (by decide) rfl (by decide) fuel
    (by simpa [printMore] using hf)]
  refine congrArg (fun m => Except.error (newRangeParseError (tk .IDENT "specialvar") (tk .RPAREN ")") m)) ?_
  decide

/-- … and with the configured position -1. -/
example (fuel : Nat) (hf : 4 ≤ fuel) :
    (parseLeafBooleanExpression { autoVars := [("specialvar", { argPos := some (-1) })] } "s" fuel).run
        (st default exSpecial) =
      .error (newRangeParseError (tk .IDENT "specialvar") (tk .RPAREN ")")
        "auto-var command specialvar has an arg position of -1, but only 2 arguments were provided") := by
  rw [exSpecial_shape, autovar_bad_position_rejected _ "s" default _ _ _ _ _ _ _ { argPos := some (-1) }
    (.cmp {} {} "!=" .neq ⟨true, "0"⟩) (-1) rfl rfl rfl rfl (by decide) (by decide) rfl (by decide) fuel
    (by simpa [printMore] using hf)]
  refine congrArg (fun m => Except.error (newRangeParseError (tk .IDENT "specialvar") (tk .RPAREN ")") m)) ?_
  decide

/-- The same by plain evaluation of the model. -/
example :
    errOf ((parseLeafBooleanExpression { autoVars := [("specialvar", { argPos := some 2 })] } "s" 20).run
        (st default exSpecial)) =
      some (.err { lineStart := 0, lineEnd := 0, charStart := 0, utf8Start := 0, charEnd := 0,
                   utf8End := 0,
                   msg := "auto-var command specialvar has an arg position of 2, but only 2 arguments were provided" }) := by
  decide

/-- `( foo ( 1 ) == 2 )` with `foo` not configured: rejected on `foo`. -/
example (fuel : Nat) (tl : List Tok) :
    (parseLeafBooleanExpression envRandom "s" fuel).run
        (st default (tk .LPAREN "(" :: tk .IDENT "foo" :: tl)) =
      .error (newParseError (tk .IDENT "foo")
        "left side of binary expression must be var(), flag(), defeated(), or autovar command. Instead, found 'foo'") := by
  rw [unconfigured_ident_rejected envRandom "s" fuel default _ _ tl rfl (by decide)]
  refine congrArg (fun m => Except.error (newParseError (tk .IDENT "foo") m)) ?_
  decide

/-- `!random() && …` and `random == 2 )` (no parentheses) -/
example (fuel : Nat) (hf : 2 ≤ fuel) (tl : List Tok) :
    (parseLeafBooleanExpression envRandom "s" fuel).run
        (st default (tk .LPAREN "(" :: tk .NOT "!" :: tk .IDENT "random" :: tk .LPAREN "(" ::
          tk .RPAREN ")" :: tk .AND "&&" :: tl)) =
      .ok (({ type := .VAR, operand := tk .IDENT "VAR_RESULT", operator := .EQ, cmpValue := "0",
              preamble := some { id := 0, tok := tk .IDENT "random", name := "random", args := [] } }, {}),
           st (bump default) (tk .AND "&&" :: tl)) :=
  parse_autovar_leaf_noargs envRandom "s" default _ _ _ _ _ { varName := "VAR_RESULT" } (.neg {} "!")
    rfl rfl rfl rfl rfl trivial fuel hf

#print axioms parse_autovar_leaf
#print axioms parse_autovar_leaf_spec
#print axioms autovar_bad_position_rejected
#print axioms autovar_bad_position_no_panic
#print axioms non_autovar_command_rejected
#print axioms non_autovar_command_rejected_not
#print axioms unconfigured_ident_rejected
#print axioms parse_autovar_leaf_noargs
#print axioms autovar_bad_position_rejected_noargs
#print axioms parse_autovar_leaf_bare
#print axioms preamble_emitted_before_compare

end Pory.C11b
