import PoryProofs.CommandCensusEnd
import PoryProofs.CommandCensusRuns
/-
C10d — COMMAND CENSUS of the emitter, for scripts with arbitrary control flow
(property C10: "commands pass through verbatim … never dropped, duplicated or reordered").

Helper modules: PoryProofs/CensusWeights.lean (generic accounting through the chunk worklist: the total weight
of the chunk table of `scriptChunks body` is the weight of `body`, for any compositional `Weights`),
PoryProofs/CommandCensus.lean (the commands of a body, the census of the chunk table),
PoryProofs/CommandCensusRender.lean (the command lines of rendered output, whole programs),
PoryProofs/CommandCensusEnd.lean (`end` terminators), PoryProofs/CommandCensusRuns.lean (straight-line runs).

Definitions
* `cmdsOf body : List Cmd` — ALL command statements of a body, at any depth (bodies of `if` / `elif` / `else`,
  `while`, `do … while`, `switch` cases), in source order, INCLUDING the AutoVar preamble commands of
  condition leaves (at the place of the condition, leaves left to right = the order of `leavesOf`;
  for `do … while` after the body).
* `emittedCmds body` — the same list without the BLOCK-FINAL `end` / `return` commands: an `end` / `return`
  command statement that is the LAST statement of its block (script body, body of `if` / `elif` / `else` /
  loop / case).  `absorbedCmds body` — exactly those.
  `cmdsOf_perm : cmdsOf body ~ emittedCmds body ++ absorbedCmds body`,
  `emittedCmds_sublist : emittedCmds body <+ cmdsOf body` (source order is kept),
  `absorbedCmds_isTerm` (only `end` / `return` are left out), `emittedCmds_eq_cmdsOf`.
* `cmdLinesOf ls` — the `.command` lines of an output, in order.  `Line.command` is produced by
  `renderCommand` only (command statements and leaf preambles); labels, gotos, `compare` / `goto_if…` /
  `switch` / `case` lines, terminators, markers are other constructors.
* `renderCommand patches c = .command c.name (patchedArgs patches c)`: name verbatim, argument slots
  verbatim except the slots the parser patched (C10 `renderCommand_keeps_name_and_arity`, `unpatched_args`).

Theorems (all proved in full, nothing is `_partial`)
1. `command_census`: `emitScript o patches tl s = .ok ls →
     cmdLinesOf ls ~ (emittedCmds s.body).map (renderCommand patches)` (a `List.Perm`), for both chunk orders
   (`o.optimize` arbitrary).  Every command written in the body — whatever it is nested in — is rendered as
   exactly one command line, and there are no other command lines; the only exception are block-final
   `end` / `return` commands, see below.
   `command_census_all`: `cmdLinesOf ls ++ (absorbedCmds s.body).map render ~ (cmdsOf s.body).map render`.
   `command_line_count`, `no_command_dropped`, `no_command_invented`, `both_orders_same_commands`.
2. DEAD CODE IS KEPT ENTIRELY.  `keepStatementsAfterJump` queues ALL statements after a `break` /
   `continue` as a new chunk (not "from the first label on"); that chunk is rendered like any other (it just
   gets no label unless something jumps to it).  Statements after a user-written `goto(…)` / `end` /
   `return` COMMAND in the middle of a block are ordinary statements of the same chunk.  Hence `cmdsOf` is
   NOT reduced by dead code: `command_census` counts commands after `break` / `continue` / `goto` / `end` /
   `return` like all others (`dead_*` examples below).
3. Block-final `end` / `return` (FINDING, harmless for well-formed scripts): a command statement named `end` or
   `return` that is the last statement of its block is not rendered as a command line: `scanSimple` stops
   there, the chunk is finalised with `useEndTerminator := (name == "end")` and the statement is dropped;
   `renderBranching` then writes the terminator line `end` / `return`.  The terminator is a different `Line`
   constructor (`.terminator`), the ARGUMENTS of such a command are lost (`end(1)` and `end` give the same
   output: `final_end_args_lost`), and for `return` the line is indistinguishable from the `return` the
   compiler adds on its own when a chunk has nowhere to continue.  An `end` / `return` that is NOT the last
   statement of its block is an ordinary command line (`mid_end_is_command`).
   `end_terminator_census`: the number of `end` terminator lines of the output IS the number of block-final
   commands named `end` — so every `end` the user wrote is rendered exactly once, as the command line `end …`
   or as the terminator `end`, and the compiler never adds an `end` of its own.  (NOT stated: a count of the
   `return` terminators — a block-final `return` yields one, but so does every chunk without a continuation, so
   only `≥` holds.)  Confirmed on the Go binary (`poryscript -lm=false`): `if (flag(F)) { a end(1, 2) }` renders
   `a` / `end`, a script ending in `return(5)` renders `return`, `end(3)` followed by `b` renders `end 3` / `b`, and
   `while (…) { break deadcmd }` renders `deadcmd` / `goto …` as an unlabelled chunk at the end.
4. ORDER (`command_order_within_chunk`): commands that are consecutive statements of one block (at any depth),
   with no control statement between them and not ending in the block-final `end` / `return`, are rendered on
   consecutive lines in source order: `stmtLines o patches (cs.map .cmd) <:+: ls` (contiguous sublist: each
   command line preceded by its marker when markers are on, nothing else in between;
   `command_order_no_markers`: `cs.map (renderCommand patches) <:+: ls` when markers are off).  It follows from
   the RUN CENSUS `run_census`: the non-empty statement lists of the chunk table are, as a multiset, exactly
   the straight-line runs `runsOf body` (maximal stretches of command / label statements of the blocks,
   block-final `end` / `return` excluded), and `run_rendered_contiguously`: each run is rendered as one
   contiguous stretch of lines.  ACROSS runs the order is the chunk order (`command_lines_layout`), which is
   what C05 / C01 are about.
5. Whole programs: `program_command_lines`: the command lines of `emitProgram o p` are the concatenation, over
   the scripts of the program in output order (`C04c.scriptsOf p`: top-level scripts; for a `mapscripts`
   statement its inline scripts, then the inline scripts of its table rows), of the per-script command lines
   `scriptCmdLines` (layout order of the chunk table); `program_command_census`: a permutation of the
   rendered `emittedCmds` of all script bodies.  Raw blocks, texts, movements, marts contribute none.
-/
namespace Pory.C10d
open Pory Pory.Emit

/-! ## 1. the census of one script -/

/-- The preamble commands of a condition are listed in the order of `leavesOf` (left to right). -/
theorem condCmds_eq_leaves (c : BoolExpr) : condCmds c = (leavesOf c).filterMap (·.preamble) := by
  induction c with
  | leaf e => cases h : e.preamble <;> simp [condCmds, leavesOf, h]
  | bin l op r ihl ihr => simp [condCmds, leavesOf, ihl, ihr]

/-- **command_census**: the command lines of an emitted script are, as a multiset, the rendered commands of
the body (`emittedCmds`: all commands at any depth incl. leaf preambles, minus block-final `end` /
`return`), whatever the chunk order. -/
theorem command_census (o : Opts) (patches : List ((Nat × Nat) × String)) (tl : List String) (s : Script)
    (ls : List Line) (h : emitScript o patches tl s = .ok ls) :
    (cmdLinesOf ls).Perm ((emittedCmds s.body).map (renderCommand patches)) :=
  cmdLinesOf_emitScript o patches tl s ls h

/-- … in terms of ALL commands: the command lines together with the block-final `end` / `return` commands
(rendered as terminators) account for every command of the body exactly once. -/
theorem command_census_all (o : Opts) (patches : List ((Nat × Nat) × String)) (tl : List String) (s : Script)
    (ls : List Line) (h : emitScript o patches tl s = .ok ls) :
    (cmdLinesOf ls ++ (absorbedCmds s.body).map (renderCommand patches)).Perm
      ((cmdsOf s.body).map (renderCommand patches)) := by
  refine ((command_census o patches tl s ls h).append_right _).trans ?_
  rw [← List.map_append]
  exact (cmdsOf_perm s.body).symm.map _

/-- Every line occurs among the command lines as often as among the rendered commands of the body. -/
theorem command_line_count (o : Opts) (patches : List ((Nat × Nat) × String)) (tl : List String) (s : Script)
    (ls : List Line) (h : emitScript o patches tl s = .ok ls) (l : Line) :
    (cmdLinesOf ls).count l = ((emittedCmds s.body).map (renderCommand patches)).count l :=
  (command_census o patches tl s ls h).count_eq l

/-- No command is dropped: every command of the body (at any depth, dead code included) that is not a
block-final `end` / `return` has its line in the output. -/
theorem no_command_dropped (o : Opts) (patches : List ((Nat × Nat) × String)) (tl : List String) (s : Script)
    (ls : List Line) (h : emitScript o patches tl s = .ok ls) :
    ∀ c ∈ emittedCmds s.body, renderCommand patches c ∈ ls := by
  intro c hc
  have : renderCommand patches c ∈ cmdLinesOf ls :=
    (command_census o patches tl s ls h).mem_iff.2 (List.mem_map.2 ⟨c, hc, rfl⟩)
  exact (List.mem_filter.1 this).1

/-- No command is invented: every command line of the output renders a command of the body. -/
theorem no_command_invented (o : Opts) (patches : List ((Nat × Nat) × String)) (tl : List String) (s : Script)
    (ls : List Line) (h : emitScript o patches tl s = .ok ls) :
    ∀ n args, Line.command n args ∈ ls → ∃ c ∈ cmdsOf s.body, Line.command n args = renderCommand patches c := by
  intro n args hm
  have : Line.command n args ∈ cmdLinesOf ls := List.mem_filter.2 ⟨hm, rfl⟩
  obtain ⟨c, hc, e⟩ := List.mem_map.1 ((command_census o patches tl s ls h).mem_iff.1 this)
  exact ⟨c, (emittedCmds_sublist s.body).subset hc, e.symm⟩

/-- Both chunk orders render the same commands. -/
theorem both_orders_same_commands (o : Opts) (patches : List ((Nat × Nat) × String)) (tl : List String)
    (s : Script) (lsT lsF : List Line)
    (hT : emitScript { o with optimize := true } patches tl s = .ok lsT)
    (hF : emitScript { o with optimize := false } patches tl s = .ok lsF) :
    (cmdLinesOf lsT).Perm (cmdLinesOf lsF) :=
  (command_census _ patches tl s lsT hT).trans (command_census _ patches tl s lsF hF).symm

/-- The exact ORDER of the command lines: chunk by chunk in layout order, within a chunk its command
statements in order, then the preamble of its leaf test. -/
theorem command_lines_layout (o : Opts) (patches : List ((Nat × Nat) × String)) (tl : List String)
    (s : Script) (ls : List Line) (h : emitScript o patches tl s = .ok ls) :
    ∃ G order, scriptChunks s.body = .ok G ∧ C05.chunkOrder o G = .ok order ∧
      cmdLinesOf ls = (order.flatMap fun id => chunkCmds (RenderSim.chunkOf G id)).map (renderCommand patches) :=
  cmdLinesOf_emitScript_layout o patches tl s ls h

/-! ## 2. block-final `end` -/

/-- **end_terminator_census**: the `end` terminator lines of an emitted script are as many as the block-final
command statements named `end`.  (`Line.terminator true` = `end`, `Line.terminator false` = `return`.) -/
theorem end_terminator_census (o : Opts) (patches : List ((Nat × Nat) × String)) (tl : List String) (s : Script)
    (ls : List Line) (h : emitScript o patches tl s = .ok ls) :
    ls.countP isEndLine = (absorbedCmds s.body).countP (fun c => c.name == "end") := by
  have := endLines_emitScript o patches tl s ls h
  rw [endLinesOf, ← List.countP_eq_length_filter] at this
  exact this

/-! ## 3. order -/

/-- **run_census**: the non-empty statement lists of the chunks of the table are, as a multiset, the
straight-line runs of the body. -/
theorem run_census (body : List Stmt) (G : List Chunk) (h : scriptChunks body = .ok G) :
    (chunkRuns G).Perm (runsOf body) :=
  scriptChunks_runs body G h

/-- **run_rendered_contiguously**: every run of the body is rendered as one contiguous stretch of lines. -/
theorem run_rendered_contiguously (o : Opts) (patches : List ((Nat × Nat) × String)) (tl : List String)
    (s : Script) (ls : List Line) (h : emitScript o patches tl s = .ok ls) (R : List Stmt)
    (hR : R ∈ runsOf s.body) : RenderSim.stmtLines o patches R <:+: ls :=
  run_infix_emitScript o patches tl s ls h R hR

theorem getLast?_map_cmd (cs : List Cmd) : (cs.map Stmt.cmd).getLast? = cs.getLast?.map Stmt.cmd := by
  rw [List.getLast?_map]

/-- **command_order_within_chunk**: commands `cs` that are consecutive statements of a block `b` of the body (at
any depth: `b = A ++ cs ++ Z`), the last of them not the block-final `end` / `return` of `b`, are rendered on
consecutive lines, in source order. -/
theorem command_order_within_chunk (o : Opts) (patches : List ((Nat × Nat) × String)) (tl : List String)
    (s : Script) (ls : List Line) (h : emitScript o patches tl s = .ok ls)
    (b : List Stmt) (hb : b ∈ blocksOf s.body) (A Z : List Stmt) (cs : List Cmd)
    (e : b = A ++ cs.map Stmt.cmd ++ Z) (hne : cs ≠ [])
    (hfin : Z ≠ [] ∨ ∀ c, cs.getLast? = some c → isTerm c = false) :
    RenderSim.stmtLines o patches (cs.map Stmt.cmd) <:+: ls := by
  obtain ⟨R, hR, X, Y, hx⟩ := stretch_in_run s.body b hb A (cs.map Stmt.cmd) Z e
    (by intro x hx; obtain ⟨c, _, rfl⟩ := List.mem_map.1 hx; rfl) (by simpa using hne)
    (by
      rcases hfin with hz | hl
      · exact .inl hz
      · refine .inr fun x hx => ?_
        rw [getLast?_map_cmd] at hx
        cases hc : cs.getLast? with
        | none => rw [hc] at hx; cases hx
        | some c => rw [hc] at hx; cases hx; exact hl c hc)
  exact run_part_infix o patches tl s ls h R X _ Y hR hx

theorem stmtLines_cmds_no_markers (o : Opts) (hm : o.markers = false) (patches : List ((Nat × Nat) × String))
    (cs : List Cmd) : RenderSim.stmtLines o patches (cs.map Stmt.cmd) = cs.map (renderCommand patches) := by
  induction cs with
  | nil => rfl
  | cons c r ih => simp [RenderSim.stmtLines, marker, hm, ih]

/-- … without line markers: the command lines themselves are consecutive. -/
theorem command_order_no_markers (o : Opts) (hm : o.markers = false) (patches : List ((Nat × Nat) × String))
    (tl : List String) (s : Script) (ls : List Line) (h : emitScript o patches tl s = .ok ls)
    (b : List Stmt) (hb : b ∈ blocksOf s.body) (A Z : List Stmt) (cs : List Cmd)
    (e : b = A ++ cs.map Stmt.cmd ++ Z) (hne : cs ≠ [])
    (hfin : Z ≠ [] ∨ ∀ c, cs.getLast? = some c → isTerm c = false) :
    cs.map (renderCommand patches) <:+: ls := by
  rw [← stmtLines_cmds_no_markers o hm]
  exact command_order_within_chunk o patches tl s ls h b hb A Z cs e hne hfin

/-! ## 4. whole programs -/

/-- **program_command_lines**: the command lines of a program are the per-script command lines, concatenated
in output order over top-level and inline scripts. -/
theorem program_command_lines (o : Opts) (p : Program) (ls : List Line) (h : emitProgram o p = .ok ls) :
    cmdLinesOf ls = (C04c.scriptsOf p).flatMap (scriptCmdLines o p.patches) :=
  cmdLinesOf_emitProgram o p ls h

theorem perm_flatMap_of_forall {α β : Type} {f g : α → List β} : ∀ (l : List α),
    (∀ a ∈ l, (f a).Perm (g a)) → (l.flatMap f).Perm (l.flatMap g)
  | [], _ => List.Perm.refl _
  | a :: r, h => by
    rw [List.flatMap_cons, List.flatMap_cons]
    exact (h a (by simp)).append (perm_flatMap_of_forall r fun x hx => h x (by simp [hx]))

/-- **program_command_census**: the command lines of a program are, as a multiset, the rendered commands of
all its script bodies (top-level scripts and inline map scripts). -/
theorem program_command_census (o : Opts) (p : Program) (ls : List Line) (h : emitProgram o p = .ok ls) :
    (cmdLinesOf ls).Perm
      (((C04c.scriptsOf p).flatMap fun s => emittedCmds s.body).map (renderCommand p.patches)) := by
  rw [program_command_lines o p ls h, List.map_flatMap]
  apply perm_flatMap_of_forall
  intro s hs
  obtain ⟨l, hl, _⟩ := C04c.script_accepted o p ls h s hs
  exact scriptCmdLines_perm o p.patches _ s l hl

/-! ## 5. non-vacuity and the behaviour on dead code / block-final terminators -/

def cmdS (id : Nat) (n : String) (args : List String := []) : Stmt := .cmd { id := id, name := n, args := args }
def flagE (n : String) : OpExpr := { operand := { lit := n }, operator := .EQ, cmpValue := "TRUE", type := .FLAG }
def varE (v : String) (op : TT) (x : String) : OpExpr :=
  { operand := { lit := v }, operator := op, cmpValue := x, type := .VAR }
/-- the AutoVar leaf `specialvar(VAR_RESULT, GetX) == 1` -/
def autoE : OpExpr :=
  { operand := { lit := "VAR_RESULT" }, operator := .EQ, cmpValue := "1", type := .VAR,
    preamble := some { id := 100, name := "specialvar", args := ["VAR_RESULT", "GetX"] } }

/-- ```
script S {
  lock
  if (flag(F)) { msgbox("…") } elif (specialvar(VAR_RESULT, GetX) == 1 && flag(G)) { setflag(H) return }
  else { clearflag(H) }
  while (var(V) < 3) { addvar(V, 1) break nop }                 // `nop`: dead code after `break`
  switch (var(W)) { case 1: case 2: msgbox("…")                  // shared body
                    case 3: end nop1                             // `end` in the middle of a block
                    default: release end }                       // block-final `end`
  goto(Elsewhere) waitstate end                                  // after a user `goto`; block-final `end`
}
``` -/
def demo : Script :=
  { name := "S",
    body := [ cmdS 1 "lock",
              .ite {} (.leaf (flagE "F")) [cmdS 2 "msgbox" ["?"]]
                [ (.bin (.leaf autoE) .AND (.leaf (flagE "G")), [cmdS 3 "setflag" ["H"], cmdS 4 "return"]) ]
                (some [cmdS 5 "clearflag" ["H"]]),
              .while_ {} 1 (some (.leaf (varE "V" .LT "3")))
                [cmdS 6 "addvar" ["V", "1"], .brk {} 1, cmdS 7 "nop"],
              .switch_ {} 2 { lit := "W" }
                [ ({ lit := "1" }, false, []), ({ lit := "2" }, false, [cmdS 8 "msgbox" ["S_Text_1"]]),
                  ({ lit := "3" }, false, [cmdS 9 "end", cmdS 10 "nop1"]),
                  ({}, true, [cmdS 11 "release", cmdS 12 "end"]) ],
              cmdS 13 "goto" ["Elsewhere"],
              cmdS 14 "waitstate",
              cmdS 15 "end" ] }
/-- the parser patched the text label into slot 0 of command 2 -/
def demoPatches : List ((Nat × Nat) × String) := [((2, 0), "S_Text_0")]

theorem demo_cmdsOf : (cmdsOf demo.body).map (·.id) = [1, 2, 100, 3, 4, 5, 6, 7, 8, 9, 10, 11, 12, 13, 14, 15] := by
  decide
theorem demo_emitted : (emittedCmds demo.body).map (·.id) = [1, 2, 100, 3, 5, 6, 7, 8, 9, 10, 11, 13, 14] := by
  decide
theorem demo_absorbed : (absorbedCmds demo.body).map (·.id) = [4, 12, 15] := by decide

def demoLines (b : Bool) : List Line :=
  match emitScript { optimize := b } demoPatches [] demo with | .ok ls => ls | .error _ => []

theorem demo_table_ids : (scriptChunks demo.body).toOption.map (·.map (·.id)) =
    some [18, 17, 16, 15, 14, 13, 10, 11, 12, 9, 8, 5, 7, 6, 4, 3, 2, 1, 0] := by decide

theorem demo_emit_false : emitScript { optimize := false } demoPatches [] demo = .ok (demoLines false) := by
  have : (emitScript { optimize := false } demoPatches [] demo).isOk = true := by decide
  unfold demoLines
  cases h : emitScript { optimize := false } demoPatches [] demo with
  | ok ls => rfl
  | error e => rw [h] at this; cases this

/-- the command lines of the unoptimised output, computed (chunk ids ascending; the dead `nop` comes last, in
the unlabelled chunk 18) -/
theorem demo_cmdLines_false : cmdLinesOf (demoLines false) =
    [ .command "lock" [], .command "msgbox" ["S_Text_0"], .command "setflag" ["H"], .command "clearflag" ["H"],
      .command "specialvar" ["VAR_RESULT", "GetX"], .command "addvar" ["V", "1"],
      .command "goto" ["Elsewhere"], .command "waitstate" [], .command "msgbox" ["S_Text_1"],
      .command "end" [], .command "nop1" [], .command "release" [], .command "nop" [] ] := by decide

example : (cmdLinesOf (demoLines false)).Perm ((emittedCmds demo.body).map (renderCommand demoPatches)) :=
  command_census { optimize := false } demoPatches [] demo _ demo_emit_false

example := command_census_all { optimize := false } demoPatches [] demo _ demo_emit_false
example := no_command_dropped { optimize := false } demoPatches [] demo _ demo_emit_false
example := no_command_invented { optimize := false } demoPatches [] demo _ demo_emit_false
example := command_lines_layout { optimize := false } demoPatches [] demo _ demo_emit_false
example : condCmds (.bin (.leaf autoE) .AND (.leaf (flagE "G"))) =
    [{ id := 100, name := "specialvar", args := ["VAR_RESULT", "GetX"] }] := by decide

/-! the optimised order -/

/-- the chunk table of `demo`, as the worklist leaves it (newest binding first) -/
def demoTable : List Chunk :=
  [ { id := 18, returnID := some 10, statements := [cmdS 7 "nop"] },
    { id := 17, useEndTerminator := true, statements := [cmdS 11 "release"] },
    { id := 16, returnID := some 13, statements := [cmdS 9 "end", cmdS 10 "nop1"] },
    { id := 15, returnID := some 13, statements := [cmdS 8 "msgbox" ["S_Text_1"]] },
    { id := 14, returnID := some 13,
      branch := .switch_ { lit := "W" } [⟨{ lit := "1" }, 15⟩, ⟨{ lit := "2" }, 15⟩, ⟨{ lit := "3" }, 16⟩] (some 17) none },
    { id := 13, useEndTerminator := true, statements := [cmdS 13 "goto" ["Elsewhere"], cmdS 14 "waitstate"] },
    { id := 10, returnID := some 9, branch := .jump 12 },
    { id := 11, returnID := some 10, statements := [cmdS 6 "addvar" ["V", "1"]], branch := .breakCtx (some 9) },
    { id := 12, branch := .leaf 11 (varE "V" .LT "3") (some 9) },
    { id := 9, returnID := some 13, branch := .jump 14 },
    { id := 8, branch := .leaf 2 (flagE "F") (some 6) },
    { id := 5, branch := .jump 7 },
    { id := 7, branch := .leaf 3 (flagE "G") (some 4) },
    { id := 6, branch := .leaf 5 autoE (some 4) },
    { id := 4, returnID := some 1, statements := [cmdS 5 "clearflag" ["H"]] },
    { id := 3, statements := [cmdS 3 "setflag" ["H"]] },
    { id := 2, returnID := some 1, statements := [cmdS 2 "msgbox" ["?"]] },
    { id := 1, returnID := some 9, branch := .jump 10 },
    { id := 0, returnID := some 1, statements := [cmdS 1 "lock"], branch := .jump 8 } ]

theorem demoTable_ok : scriptChunks demo.body = .ok demoTable := rfl

/-- the block-final `return` (4) and `end` (12, 15) are gone from the table: chunks 3, 17, 13 hold only the
statements before them, 17 and 13 carry `useEndTerminator` -/
example : (tableCmds demoTable).map (·.id) = [7, 11, 9, 10, 8, 13, 14, 6, 100, 5, 3, 2, 1] := by decide

/-- the optimised order differs from the id order -/
theorem demo_order : C05.chunkOrder { optimize := true } demoTable =
    .ok [0, 8, 6, 4, 1, 10, 12, 9, 14, 17, 2, 3, 5, 7, 11, 13, 15, 16, 18] := by
  simp [C05.chunkOrder, optimizeChunkOrder, demoTable, optimizeLoop, optimizeLoop.pick, scanUnvisited,
    findChunk, tailId]

/-- the optimised output of `demo` -/
def demoLinesT : List Line :=
  [ .labelDef "S" true, .command "lock" [], .gotoIfSet "F" "S_2",
    .command "specialvar" ["VAR_RESULT", "GetX"], .compare false "VAR_RESULT" "1", .gotoIfCmp .EQ "S_5",
    .labelDef "S_4" false, .command "clearflag" ["H"],
    .labelDef "S_1" false,
    .labelDef "S_10" false, .compare false "V" "3", .gotoIfCmp .LT "S_11",
    .labelDef "S_9" false, .switch_ "W", .case_ "1" "S_15", .case_ "2" "S_15", .case_ "3" "S_16",
    .command "release" [], .terminator true, .blank,
    .labelDef "S_2" false, .command "msgbox" ["S_Text_0"], .goto_ "S_1", .blank,
    .labelDef "S_3" false, .command "setflag" ["H"], .terminator false, .blank,
    .labelDef "S_5" false, .gotoIfSet "G" "S_3", .goto_ "S_4", .blank,
    .labelDef "S_11" false, .command "addvar" ["V", "1"], .goto_ "S_9", .blank,
    .labelDef "S_13" false, .command "goto" ["Elsewhere"], .command "waitstate" [], .terminator true, .blank,
    .labelDef "S_15" false, .command "msgbox" ["S_Text_1"], .goto_ "S_13", .blank,
    .labelDef "S_16" false, .command "end" [], .command "nop1" [], .goto_ "S_13", .blank,
    .command "nop" [], .goto_ "S_10", .blank ]

set_option maxRecDepth 100000 in
theorem demo_emit_true : emitScript { optimize := true } demoPatches [] demo = .ok demoLinesT := by
  rw [C05.emitScript_eq]
  simp only [demoTable_ok]
  rw [C05.renderChunks_eq, demo_order]
  rfl

theorem demo_cmdLines_true : cmdLinesOf demoLinesT =
    [ .command "lock" [], .command "specialvar" ["VAR_RESULT", "GetX"], .command "clearflag" ["H"],
      .command "release" [], .command "msgbox" ["S_Text_0"], .command "setflag" ["H"],
      .command "addvar" ["V", "1"], .command "goto" ["Elsewhere"], .command "waitstate" [],
      .command "msgbox" ["S_Text_1"], .command "end" [], .command "nop1" [], .command "nop" [] ] := by decide

example : (cmdLinesOf demoLinesT).Perm ((emittedCmds demo.body).map (renderCommand demoPatches)) :=
  command_census { optimize := true } demoPatches [] demo _ demo_emit_true

example : (cmdLinesOf demoLinesT).Perm (cmdLinesOf (demoLines false)) :=
  both_orders_same_commands {} demoPatches [] demo _ _ demo_emit_true demo_emit_false

/-! ### `end` terminators, runs, order on `demo` -/

/-- two block-final `end`s (12, 15) — and two `end` terminator lines; the `end` (9) in the middle of its block
is a command line -/
example : (demoLines false).countP isEndLine = 2 ∧
    (absorbedCmds demo.body).countP (fun c => c.name == "end") = 2 := by decide
example := end_terminator_census { optimize := false } demoPatches [] demo _ demo_emit_false

/-- the runs of `demo` (command ids): the dead `nop` (7) is a run of its own, `end nop1` (9, 10) is one run,
`goto waitstate` (13, 14) is one run without the block-final `end` (15) -/
theorem demo_runs : (runsOf demo.body).map (fun R => (flatCmds R).map (·.id)) =
    [[1], [2], [3], [5], [6], [7], [8], [9, 10], [11], [13, 14]] := by decide

example : (chunkRuns demoTable).Perm (runsOf demo.body) := run_census demo.body demoTable demoTable_ok

/-- the run `end nop1` of `case 3:` is one contiguous stretch of the output -/
example : RenderSim.stmtLines { optimize := true } demoPatches [cmdS 9 "end", cmdS 10 "nop1"] <:+: demoLinesT :=
  run_rendered_contiguously { optimize := true } demoPatches [] demo _ demo_emit_true _
    (by simp [runsOf, demo, blockRuns_cons, blockRuns_nil, stmtRuns_ite, stmtRuns_while, stmtRuns_switch,
      casesRuns_cons, casesRuns_nil, elifsRuns_cons, elifsRuns_nil, simpleB, isTermStmt, isTerm, emitRun, cmdS])

/-- `goto(Elsewhere) waitstate` at the end of the script body (before the block-final `end`) -/
example : [Line.command "goto" ["Elsewhere"], Line.command "waitstate" []] <:+: demoLinesT :=
  command_order_no_markers { optimize := true } rfl demoPatches [] demo _ demo_emit_true demo.body
    (List.mem_cons_self ..) (demo.body.take 4) [cmdS 15 "end"]
    [{ id := 13, name := "goto", args := ["Elsewhere"] }, { id := 14, name := "waitstate" }] rfl (by simp)
    (.inl (by simp))

/-- `end nop1` inside `case 3:` — a nested block; `nop1` is the last statement of the block and not a
terminator -/
example : [Line.command "end" [], Line.command "nop1" []] <:+: demoLinesT :=
  command_order_no_markers { optimize := true } rfl demoPatches [] demo _ demo_emit_true
    [cmdS 9 "end", cmdS 10 "nop1"]
    (by simp [blocksOf, demo, innerBlocks, stmtBlocks, casesBlocks, elifsBlocks, cmdS])
    [] [] [{ id := 9, name := "end" }, { id := 10, name := "nop1" }] rfl (by simp)
    (.inr (by intro c hc; simp at hc; subst hc; rfl))

/-! ### dead code is kept entirely -/

/-- output of a body, `[]` if rejected -/
def linesOfBody (body : List Stmt) : List Line :=
  match emitScript { optimize := false } [] [] { name := "S", body := body } with | .ok ls => ls | .error _ => []

/-- commands after `break` (no label before them): all kept, in an unlabelled chunk -/
theorem dead_after_break :
    cmdLinesOf (linesOfBody [.while_ {} 1 none [.brk {} 1, cmdS 1 "a", cmdS 2 "b", .label {} "L" false, cmdS 3 "c"]]) =
      [.command "a" [], .command "b" [], .command "c" []] := by decide

/-- commands after `continue` -/
theorem dead_after_continue :
    cmdLinesOf (linesOfBody [.doWhile {} 1 (.leaf (flagE "F")) [.cont {} 1, cmdS 1 "a"], cmdS 2 "b"]) =
      [.command "b" [], .command "a" []] := by decide

/-- commands after a user-written `goto` / `return` / `end` command in the middle of a block: same chunk -/
theorem dead_after_goto_return_end :
    linesOfBody [cmdS 1 "goto" ["X"], cmdS 2 "a", cmdS 3 "return", cmdS 4 "b", cmdS 5 "end", cmdS 6 "c"] =
      [.labelDef "S" true, .command "goto" ["X"], .command "a" [], .command "return" [], .command "b" [],
       .command "end" [], .command "c" [], .terminator false, .blank] := by decide

/-- an `end` that is not the last statement of its block is an ordinary command line -/
theorem mid_end_is_command :
    linesOfBody [.ite {} (.leaf (flagE "F")) [cmdS 1 "end", cmdS 2 "a"] [] none] =
      [.labelDef "S" true, .goto_ "S_2", .blank,
       .labelDef "S_1" false, .command "end" [], .command "a" [], .terminator false, .blank,
       .labelDef "S_2" false, .gotoIfSet "F" "S_1", .terminator false, .blank] := by decide

/-! ### block-final `end` / `return` become terminators -/

/-- The block-final `end` of the `if` body and the block-final `return` of the script are rendered as
terminators (`.terminator true` = `end`, `.terminator false` = `return`), not as command lines; the
`return` line of chunk `S_2` is the compiler's own. -/
theorem final_end_is_terminator :
    linesOfBody [.ite {} (.leaf (flagE "F")) [cmdS 1 "a", cmdS 2 "end"] [] none, cmdS 3 "b", cmdS 4 "return"] =
      [.labelDef "S" true, .goto_ "S_3", .blank,
       .labelDef "S_1" false, .command "b" [], .terminator false, .blank,
       .labelDef "S_2" false, .command "a" [], .terminator true, .blank,
       .labelDef "S_3" false, .gotoIfSet "F" "S_2", .goto_ "S_1", .blank] := by decide

/-- FINDING (harmless): the arguments of a block-final `end` / `return` command are lost — the two bodies
`a end(1, 2)` and `a end` give the same output; in the middle of a block they are kept. -/
theorem final_end_args_lost :
    linesOfBody [cmdS 1 "a", cmdS 2 "end" ["1", "2"]] = linesOfBody [cmdS 1 "a", cmdS 2 "end"] ∧
    linesOfBody [cmdS 1 "a", cmdS 2 "end" ["1", "2"]] =
      [.labelDef "S" true, .command "a" [], .terminator true, .blank] ∧
    linesOfBody [cmdS 2 "end" ["1", "2"], cmdS 1 "a"] =
      [.labelDef "S" true, .command "end" ["1", "2"], .command "a" [], .terminator false, .blank] := by decide

example : absorbedCmds [cmdS 1 "a", cmdS 2 "end" ["1", "2"]] = [{ id := 2, name := "end", args := ["1", "2"] }] := by
  decide

/-! ### a whole program -/

def inl : Script := { name := "M_OnLoad", scope := .LOCAL, body := [cmdS 20 "setflag" ["F"], cmdS 21 "end"] }
def row : Script :=
  { name := "M_Frame_0", scope := .LOCAL,
    body := [.ite {} (.leaf autoE) [cmdS 22 "lockall"] [] none, cmdS 23 "releaseall"] }
def demoProg : Program :=
  { tops := [ .script demo, .raw {} {} "x", .movement { name := "Mv", cmds := [{ lit := "walk_up" }] },
              .mapscripts
                { tok := {}, name := "M", scope := .GLOBAL,
                  mapScripts := [ ⟨{ lit := "ON_LOAD" }, "M_OnLoad", some inl⟩, ⟨{ lit := "ON_RESUME" }, "Other", none⟩ ],
                  tables := [ ⟨{ lit := "ON_FRAME" }, "M_Frame", [ ⟨{ lit := "VAR_X" }, "1", "M_Frame_0", some row⟩ ]⟩ ] } ],
    texts := [ { name := "S_Text_0", value := "hi$" } ],
    patches := demoPatches }

def demoProgLines : List Line :=
  match emitProgram { optimize := false } demoProg with | .ok ls => ls | .error _ => []
theorem demoProg_emit : emitProgram { optimize := false } demoProg = .ok demoProgLines := by
  have : (emitProgram { optimize := false } demoProg).isOk = true := by decide
  unfold demoProgLines
  cases h : emitProgram { optimize := false } demoProg with
  | ok ls => rfl
  | error e => rw [h] at this; cases this

example : (C04c.scriptsOf demoProg).map (·.name) = ["S", "M_OnLoad", "M_Frame_0"] := by decide

theorem demoProg_cmdLines : cmdLinesOf demoProgLines =
    cmdLinesOf (demoLines false) ++
      [ .command "setflag" ["F"],                                   -- inline script (its `end` is block-final)
        .command "releaseall" [], .command "lockall" [],            -- inline row script: chunks 0, 1, 2, 3
        .command "specialvar" ["VAR_RESULT", "GetX"] ] := by decide

example := program_command_lines { optimize := false } demoProg _ demoProg_emit
example := program_command_census { optimize := false } demoProg _ demoProg_emit

#print axioms command_census
#print axioms command_census_all
#print axioms no_command_dropped
#print axioms no_command_invented
#print axioms both_orders_same_commands
#print axioms command_lines_layout
#print axioms end_terminator_census
#print axioms run_census
#print axioms run_rendered_contiguously
#print axioms command_order_within_chunk
#print axioms command_order_no_markers
#print axioms program_command_lines
#print axioms program_command_census

end Pory.C10d
