import PoryProofs.EntryPoints
import PoryProofs.Properties.C01c
import PoryProofs.Properties.C15d
import PoryProofs.Properties.C01e
/-
C01f — the ENTRY-POINT clause of C01 in SOURCE vocabulary: "the compiled assembly behaves like the source program
started at the script's name or at any label the author wrote in it".

WHAT WAS THERE BEFORE (read this first).  The end-to-end theorems of C01c / C01d / C01e (`end_to_end`,
`end_to_end_iff`, `end_to_end_diverges`, `pipeline_end_to_end`, `pipeline_end_to_end_config`) are stated for ONE
entry point only: the source configuration `⟨s.body, [], []⟩` against the assembly configuration `⟨0, [], regs, sw⟩`
(line 0 = the script's own label).  No earlier module states entry at a label statement; `C01.C01_equivalence` and
`RenderSim.render_sim` are general in the related configurations, but nothing instantiated them at labels, and there
was no source-level notion of "the source machine started at a label statement".  The only existing "set of names
the author declares" is in chunk-table vocabulary: `C04c.scriptDeclared s = s.name :: C04c.userLabelsOf s` (label
statements as they sit in the chunk table).  This module takes that list as `entryPoints s` and supplies the rest.

Helper module: PoryProofs/EntryPoints.lean (namespace `Pory.Sem`):
* `Pos body cur K` — `⟨cur, K⟩` is a SYNTACTIC POSITION of `body`: `cur` is a (non-empty) suffix of a block at
  any depth (then / elif / else body, `while` / `do … while` body, non-empty `case` body, also behind `break` /
  `continue`), `K` the continuation stack `Sem.sstep` has there (`pushSeq rest`, `whileF`, `doF`, `switchF` frames).
  "The source machine started at the label statement" is `⟨.label tok n g :: rest, K, []⟩` for such a position.
* `pos_impl`: `Impl G cx 0 0 body none → Pos body cur K → ∃ k o ret, Impl G cx k o cur ret ∧ KImpl G cx ret K`
  (the compilation relation the worklist establishes covers every position, dead code included);
  `pos_wellScoped`; `labelPos_iff : (∃ tok rest K, Pos body (.label tok n g :: rest) K) ↔ (n, g) ∈ blockLbls body`
  (every label statement of `C15d.labelStmtsOf` heads a position, and conversely).

Theorems (all proved in full; nothing is `_partial`, nothing is `sorry`)
1. `entry_points_source`: `emitScript o patches tl s = .ok ls →
     (n ∈ entryPoints s ↔ n = s.name ∨ n ∈ (labelStmtsOf s.body).map (·.1))`; `entry_points_perm` (as multisets).
2. `cfg_end_to_end`: the chain E3 + E4 from ARBITRARY related configurations (`R chunks cx sc gc`, `WellScoped sc`,
   `RA … gc a`): finished runs correspond in both directions (history rendered, outcome up to `ORel`), divergence iff.
   `end_to_end_at_position`: for every label-statement OCCURRENCE (a `Pos`) there is a line `q` with
   `ls[q] = Line.labelDef n g` such that assembly from `⟨q, [], regs, sw⟩` ≈ source from
   `⟨.label tok n g :: rest, K, []⟩` (forward, converse, divergence iff), every `Compat`-ible pair of worlds,
   both chunk orders, any marker setting.  Hypotheses: those of `C01c.end_to_end_iff`.
   `end_to_end_source`: the same with the hypothesis `n ∈ (labelStmtsOf s.body).map (·.1)`, plus the clause
   "name written once → `findLabel ls n = some q`".
   `pipeline_end_to_end_source`: from source text + configuration (`parseTokens`, `ScriptOf`, `AutoVarsPlain`),
   induced world, no hypothesis on the AST or the worlds.
   (Entry at the script's name is `C01c.end_to_end_iff` itself: `q = 0`.)
3. `source_label_reachable_line`: the label line exists (`C15d.label_statement_line`), and if the NAME is written
   once in the body, `findLabel ls n = some q` with `ls[q] = Line.labelDef n g` (`findLabel_unique` +
   `C15d.label_statement_name_count`).
   A NAME WRITTEN TWICE (F25, `C15d.duplicate_label_statement`): the emitter accepts it and renders both lines; each
   occurrence still has a line from which the assembly behaves like the source started at THAT occurrence
   (`end_to_end_at_position` has no uniqueness hypothesis), but the interpreter's lookup takes the first line of that
   name: `duplicate_name_lookup_takes_first` — for `a; L:; b; L(global):; c` the source started at the second `L`
   runs `c`, `findLabel` gives the first `L` line and the assembly runs `b; c` from there.  So the `findLabel` clause
   needs "the name occurs once"; the behavioural clause does not.
Non-vacuity (§6): `a  while (flag(F)) { if (flag(G)) { b } else { c; InElse(global): d }  break  e; Dead: f }  g` —
positions of `InElse` (else-branch of the `if` inside the `while`) and `Dead` (dead code behind `break`), all
hypotheses discharged for both chunk orders, and concrete runs (`decide`) from both labels on two worlds, both orders.

Not stated here: that two different occurrences of a label get two different lines (it follows from
`C15d.label_statement_line_count`, not needed), and that the position of a name written once is unique.
Observation about the model: a `case` with an EMPTY body has no position of its own (the machine enters the shared
body of a later case), so `Pos.caseB` asks for a non-empty body; a label statement always sits in a non-empty body.
-/
namespace Pory.C01f
open Pory Pory.Emit Pory.Sem Pory.Asm Pory.RenderSim Pory.C15d Pory.C04c

/-! ## 1. the entry points, in both vocabularies -/

/-- The entry points of a script in CHUNK-TABLE vocabulary (`C04c.scriptDeclared`): the script's name and the
names of the label statements held by its chunk table. -/
def entryPoints (s : Script) : List String := scriptDeclared s

/-- **entry_points_source**: for every script the emitter accepts, the entry points (chunk-table vocabulary)
are the script's name plus the names of the label statements written anywhere in its body. -/
theorem entry_points_source (o : Opts) (patches : List ((Nat × Nat) × String)) (tl : List String) (s : Script)
    (ls : List Line) (he : emitScript o patches tl s = .ok ls) (n : String) :
    n ∈ entryPoints s ↔ n = s.name ∨ n ∈ (labelStmtsOf s.body).map (·.1) := by
  obtain ⟨G, _, hc, _⟩ := C15c.accepted_chunks o patches tl s ls he
  unfold entryPoints scriptDeclared
  rw [List.mem_cons, (label_names_census s G hc).mem_iff]

/-- … as multisets: nothing is counted twice or dropped. -/
theorem entry_points_perm (o : Opts) (patches : List ((Nat × Nat) × String)) (tl : List String) (s : Script)
    (ls : List Line) (he : emitScript o patches tl s = .ok ls) :
    (entryPoints s).Perm (s.name :: (labelStmtsOf s.body).map (·.1)) := by
  obtain ⟨G, _, hc, _⟩ := C15c.accepted_chunks o patches tl s ls he
  exact (label_names_census s G hc).cons _

/-! ## 2. runs from arbitrary related configurations -/

/-- The three links of the chain (E2 is in the hypothesis `R`, E3 = `C01.C01_equivalence`, E4 =
`RenderSim.render_sim`) from ARBITRARY related configurations instead of the initial ones. -/
theorem cfg_end_to_end (o : Opts) (patches : List ((Nat × Nat) × String)) (tl : List String) (s : Script)
    (ls : List Line) (hp : PreamblesPlain s.body) (he : emitScript o patches tl s = .ok ls)
    (chunks : List Chunk) (hc : scriptChunks s.body = .ok chunks) (cx : Ctx) :
    ∃ order, C05.chunkOrder o chunks = .ok order ∧
      (∀ k ∈ chunks.map (·.id), ∀ off h regs sw,
        ∃ pc, RA o patches s.name chunks (s.scope == .GLOBAL) ls order ⟨k, off, h⟩ ⟨pc, rh patches h, regs, sw⟩) ∧
      ∀ (w : SWorld) (aw : AWorld), Compat o patches s.name chunks w aw →
        ∀ (sc : SCfg) (gc : GCfg) (a : ACfg), R chunks cx sc gc → WellScoped sc →
          RA o patches s.name chunks (s.scope == .GLOBAL) ls order gc a →
          (∀ oc h, (∃ n, siter w n sc = .fin oc h) →
            ∃ m oc', aiter aw ls m a = .fin oc' (rh patches h) ∧ ORel patches oc oc') ∧
          (∀ m oc' ah, aiter aw ls m a = .fin oc' ah →
            ∃ n oc h, siter w n sc = .fin oc h ∧ ORel patches oc oc' ∧ ah = rh patches h) ∧
          ((∀ m, ∃ a', aiter aw ls m a = .next a') ↔ (∀ n, ∃ s', siter w n sc = .next s')) := by
  rw [C05.emitScript_eq, hc] at he
  simp only at he
  obtain ⟨hnd, h0, hcl, hpre, hsw⟩ := C01c.table_facts o s.body chunks hp hc
  obtain ⟨order, ho, hra, hsim⟩ :=
    render_sim o patches s.name chunks (s.scope == .GLOBAL) tl ls hnd h0 hcl hpre he
  refine ⟨order, ho, hra, ?_⟩
  intro w aw C sc gc a hR hws hRA
  obtain ⟨_, hstep, hrun⟩ := hsim (hsw order ho) w aw C
  obtain ⟨hfin, hdiv, _⟩ := C01.C01_equivalence w chunks cx sc gc hR hws
  have hond : order.Nodup := (C05.chunkOrder_perm o chunks order h0 ho).1.nodup_iff.2 hnd
  have fwd : ∀ oc h, (∃ n, siter w n sc = .fin oc h) →
      ∃ m oc', aiter aw ls m a = .fin oc' (rh patches h) ∧ ORel patches oc oc' := by
    intro oc h hf
    obtain ⟨m, hg⟩ := (hfin oc h).1 hf
    exact hrun m gc a oc h hRA hg
  have dv : (∀ n, ∃ s', siter w n sc = .next s') → ∀ m, ∃ a', aiter aw ls m a = .next a' := by
    intro hd m
    have hgd : C01c.GDiv w chunks gc := hdiv.1 hd
    exact C01c.asm_survives (aw := aw) hond hstep m gc a hRA hgd m (Nat.le_refl _)
  refine ⟨fwd, ?_, ?_, dv⟩
  · intro m oc' ah hm
    by_cases hf : ∃ n oc h, siter w n sc = .fin oc h
    · obtain ⟨n, oc, h, hn⟩ := hf
      obtain ⟨m1, oc1, hm1, hrel⟩ := fwd oc h ⟨n, hn⟩
      obtain ⟨e1, e2⟩ := C01c.aiter_fin_unique aw ls hm1 hm
      subst e1; subst e2
      exact ⟨n, oc, h, hn, hrel, rfl⟩
    · exfalso
      have hd : ∀ n, ∃ s', siter w n sc = .next s' := by
        intro n
        cases hsn : siter w n sc with
        | next s' => exact ⟨s', rfl⟩
        | fin oc h => exact absurd ⟨n, oc, h, hsn⟩ hf
      obtain ⟨a', ha'⟩ := dv hd m
      rw [hm] at ha'
      cases ha'
  · intro hd n
    cases hsn : siter w n sc with
    | next s' => exact ⟨s', rfl⟩
    | fin oc h =>
      exfalso
      obtain ⟨m1, oc1, hm1, _⟩ := fwd oc h ⟨n, hsn⟩
      obtain ⟨a', ha'⟩ := hd m1
      rw [hm1] at ha'
      cases ha'

/-! ## 3. the label line and the label lookup -/

/-- The interpreter's lookup `findLabel` (first line defining the name) arrives at a given label line when the
name is defined once in the lines. -/
theorem findLabel_unique (n : String) (g : Bool) : ∀ (ls : List Line) (q : Nat),
    ls[q]? = some (.labelDef n g) → defCount ls n = 1 → findLabel ls n = some q
  | [], q, h, _ => by simp at h
  | l :: r, 0, h, _ => by
    simp only [List.getElem?_cons_zero, Option.some.injEq] at h
    subst h
    simp [findLabel]
  | l :: r, q + 1, h, hc => by
    rw [List.getElem?_cons_succ] at h
    have hpos : 0 < defCount r n := by
      unfold defCount
      exact List.countP_pos_iff.2 ⟨_, List.mem_of_getElem? h, by simp⟩
    have ih := fun hc' => findLabel_unique n g r q h hc'
    cases l with
    | labelDef n' g' =>
      by_cases e : n' = n
      · exfalso
        subst e
        unfold defCount at hc hpos
        rw [List.countP_cons_of_pos (by simp)] at hc
        omega
      · have : defCount r n = 1 := by
          unfold defCount at hc ⊢
          simpa [List.countP_cons, e] using hc
        simp [findLabel, e, ih this]
    | _ =>
      have : defCount r n = 1 := by
        unfold defCount at hc ⊢
        simpa [List.countP_cons] using hc
      simp [findLabel, ih this]

/-- **source_label_reachable_line**: every label statement written in the body of an accepted script — at any
depth, also in dead code — has its label line in the output, and when its NAME is written once in the body, the
interpreter's label lookup succeeds and arrives at a line carrying exactly that statement's flag. -/
theorem source_label_reachable_line (o : Opts) (patches : List ((Nat × Nat) × String)) (tl : List String)
    (s : Script) (ls : List Line) (he : emitScript o patches tl s = .ok ls) (n : String) (g : Bool)
    (hm : (n, g) ∈ labelStmtsOf s.body) :
    (∃ q : Nat, ls[q]? = some (Line.labelDef n g)) ∧
    (((labelStmtsOf s.body).map (·.1)).count n = 1 →
      ∃ q : Nat, findLabel ls n = some q ∧ ls[q]? = some (Line.labelDef n g)) := by
  have hl := label_statement_line o patches tl s ls he n g hm
  obtain ⟨q, hq⟩ := List.getElem?_of_mem hl
  refine ⟨⟨q, hq⟩, fun h1 => ⟨q, ?_, hq⟩⟩
  refine findLabel_unique n g ls q hq ?_
  rw [label_statement_name_count o patches tl s ls he n (List.mem_map.2 ⟨(n, g), hm, rfl⟩), h1]

/-! ## 4. the end-to-end theorem from a label statement -/

theorem siter_shift (w : SWorld) {c c' : SCfg} (hs : sstep w c = .next c') (oc : Outcome) (h : Hist) :
    (∃ n, siter w n c = .fin oc h) ↔ (∃ n, siter w n c' = .fin oc h) := by
  constructor
  · rintro ⟨n, hn⟩
    cases n with
    | zero => simp [siter] at hn
    | succ n => rw [siter, hs] at hn; exact ⟨n, hn⟩
  · rintro ⟨n, hn⟩
    exact ⟨n + 1, by rw [siter, hs]; exact hn⟩

theorem siter_shift_div (w : SWorld) {c c' : SCfg} (hs : sstep w c = .next c') :
    (∀ n, ∃ x, siter w n c = .next x) ↔ (∀ n, ∃ x, siter w n c' = .next x) := by
  constructor
  · intro hd n
    have := hd (n + 1)
    rw [siter, hs] at this
    exact this
  · intro hd n
    cases n with
    | zero => exact ⟨c, rfl⟩
    | succ n => rw [siter, hs]; exact hd n

theorem aiter_shift (aw : AWorld) (ls : List Line) {c c' : ACfg} (hs : astep aw ls c = .next c')
    (oc : AOutcome) (h : AHist) :
    (∃ n, aiter aw ls n c = .fin oc h) ↔ (∃ n, aiter aw ls n c' = .fin oc h) := by
  constructor
  · rintro ⟨n, hn⟩
    cases n with
    | zero => simp [aiter] at hn
    | succ n => rw [aiter, hs] at hn; exact ⟨n, hn⟩
  · rintro ⟨n, hn⟩
    exact ⟨n + 1, by rw [aiter, hs]; exact hn⟩

theorem aiter_shift_div (aw : AWorld) (ls : List Line) {c c' : ACfg} (hs : astep aw ls c = .next c') :
    (∀ n, ∃ x, aiter aw ls n c = .next x) ↔ (∀ n, ∃ x, aiter aw ls n c' = .next x) := by
  constructor
  · intro hd n
    have := hd (n + 1)
    rw [aiter, hs] at this
    exact this
  · intro hd n
    cases n with
    | zero => exact ⟨c, rfl⟩
    | succ n => rw [aiter, hs]; exact hd n

/-- **end_to_end_at_position**: for EVERY label statement occurrence of the body, given as a syntactic position
`Pos s.body (.label tok n g :: rest) K` (any nesting depth, dead code included; `K` = the frames of the enclosing
statements), there is a line `q` of the output that is this statement's label line `n:` / `n::`, such that the
assembly machine started AT that line (empty history, arbitrary registers) and the source machine started AT that
label statement finish together (outcome up to `ORel`, history rendered), in both directions, and diverge
together — for either chunk order, any marker setting, every compatible pair of worlds. -/
theorem end_to_end_at_position (o : Opts) (patches : List ((Nat × Nat) × String)) (tl : List String) (s : Script)
    (ls : List Line)
    (hs : ScopeIdsDistinct s.body) (hd : OneDefaultL s.body) (hw : WellScoped ⟨s.body, [], []⟩)
    (hp : PreamblesPlain s.body) (he : emitScript o patches tl s = .ok ls)
    {tok : Tok} {n : String} {g : Bool} {rest : List Stmt} {K : List Frame}
    (hpos : Pos s.body (.label tok n g :: rest) K) :
    ∃ chunks, scriptChunks s.body = .ok chunks ∧
      ∃ q, ls[q]? = some (.labelDef n g) ∧
        ∀ (w : SWorld) (aw : AWorld), Compat o patches s.name chunks w aw →
          ∀ (regs : Spec.Regs) (sw : String),
            (∀ oc h, (∃ k, siter w k ⟨.label tok n g :: rest, K, []⟩ = .fin oc h) →
              ∃ m oc', aiter aw ls m ⟨q, [], regs, sw⟩ = .fin oc' (rh patches h) ∧ ORel patches oc oc') ∧
            (∀ m oc' ah, aiter aw ls m ⟨q, [], regs, sw⟩ = .fin oc' ah →
              ∃ k oc h, siter w k ⟨.label tok n g :: rest, K, []⟩ = .fin oc h ∧ ORel patches oc oc' ∧
                ah = rh patches h) ∧
            ((∀ m, ∃ a', aiter aw ls m ⟨q, [], regs, sw⟩ = .next a') ↔
              (∀ k, ∃ s', siter w k ⟨.label tok n g :: rest, K, []⟩ = .next s')) := by
  obtain ⟨chunks, _, hc, _⟩ := C15c.accepted_chunks o patches tl s ls he
  refine ⟨chunks, hc, ?_⟩
  obtain ⟨cx, himpl⟩ := emit_impl s.body chunks hs hd hc
  obtain ⟨k, off, ret, hi, hk⟩ := pos_impl chunks cx himpl hpos
  obtain ⟨order, ho, hra, hall⟩ := cfg_end_to_end o patches tl s ls hp he chunks hc cx
  cases hi with
  | @label _ _ _ _ _ _ _ ch hG hst hi' =>
    obtain ⟨pc, _, pre, rest', hord, hdrop⟩ := hra k (findChunk_mem_ids hG) off [] {} ""
    have hch : chunkOf chunks k = ch := by unfold chunkOf; rw [hG]; rfl
    obtain ⟨hlt, hget⟩ := List.getElem?_eq_some_iff.1 hst
    have hd1 : ch.statements.drop off = .label tok n g :: ch.statements.drop (off + 1) := by
      rw [List.drop_eq_getElem_cons hlt, hget]
    simp only at hdrop
    rw [hch, hd1] at hdrop
    have hsl : stmtLines o patches (.label tok n g :: ch.statements.drop (off + 1)) =
        marker o tok ++ ([.labelDef n g] ++ stmtLines o patches (ch.statements.drop (off + 1))) := by
      simp [stmtLines]
    rw [hsl] at hdrop
    have hq : ls.drop (pc + (marker o tok).length) = .labelDef n g ::
        (stmtLines o patches (ch.statements.drop (off + 1)) ++
          brTail o patches s.name chunks (s.scope == .GLOBAL) order ch rest') := by
      rw [← List.drop_drop, hdrop, List.append_assoc, List.drop_left]
      rfl
    obtain ⟨hline, hq1⟩ := drop_head hq
    refine ⟨pc + (marker o tok).length, hline, ?_⟩
    intro w aw C regs sw
    have hsstep : sstep w ⟨.label tok n g :: rest, K, []⟩ = .next ⟨rest, K, []⟩ := rfl
    have hastep : astep aw ls ⟨pc + (marker o tok).length, [], regs, sw⟩ =
        .next ⟨pc + (marker o tok).length + 1, [], regs, sw⟩ := by
      rw [astep_of_drop aw ls (c := ⟨pc + (marker o tok).length, [], regs, sw⟩) hq]
      rfl
    have hR : R chunks cx ⟨rest, K, []⟩ ⟨k, off + 1, []⟩ := ⟨rfl, ret, hi', hk⟩
    have hRA : RA o patches s.name chunks (s.scope == .GLOBAL) ls order ⟨k, off + 1, []⟩
        ⟨pc + (marker o tok).length + 1, [], regs, sw⟩ := by
      refine ⟨rfl, pre, rest', hord, ?_⟩
      show ls.drop (pc + (marker o tok).length + 1) = _
      rw [hq1, hch]
    have hws0 := pos_wellScoped hw hpos []
    have hws : WellScoped ⟨rest, K, []⟩ := by
      refine ⟨?_, hws0.2⟩
      have := hws0.1
      simp only [scopedStmts] at this
      exact this.2
    obtain ⟨f1, f2, f3⟩ := hall w aw C _ _ _ hR hws hRA
    refine ⟨?_, ?_, ?_⟩
    · intro oc h hf
      obtain ⟨m, oc', hm, hrel⟩ := f1 oc h ((siter_shift w hsstep oc h).1 hf)
      obtain ⟨m', hm'⟩ := (aiter_shift aw ls hastep oc' _).2 ⟨m, hm⟩
      exact ⟨m', oc', hm', hrel⟩
    · intro m oc' ah hm
      obtain ⟨m', hm'⟩ := (aiter_shift aw ls hastep oc' ah).1 ⟨m, hm⟩
      obtain ⟨k', oc, h, hk', hrel, e⟩ := f2 m' oc' ah hm'
      obtain ⟨k'', hk''⟩ := (siter_shift w hsstep oc h).2 ⟨k', hk'⟩
      exact ⟨k'', oc, h, hk'', hrel, e⟩
    · exact (aiter_shift_div aw ls hastep).trans (f3.trans (siter_shift_div w hsstep).symm)

/-- **end_to_end_source**: `C01c.end_to_end_iff` restated for entry at ANY label the author wrote, in source
vocabulary.  For every name `n` of a label statement of the body (`labelStmtsOf`: any nesting depth, dead code
behind a `break` included) there is a label statement `n:` / `n(global):` with flag `g`, standing at a syntactic
position `⟨.label tok n g :: rest, K⟩` of the body, and a line `q` of the output with `ls[q] = n:` (flag `g`), such
that
* if the name is written once in the body, the interpreter's label lookup arrives there: `findLabel ls n = some q`;
* for every compatible pair of worlds, arbitrary registers and switch variable: the assembly machine started at
  line `q` with empty history and the source machine started at that label statement (continuation `K`) finish
  together — same command history (rendered), same outcome up to `ORel` — in both directions, and one diverges
  iff the other does. -/
theorem end_to_end_source (o : Opts) (patches : List ((Nat × Nat) × String)) (tl : List String) (s : Script)
    (ls : List Line)
    (hs : ScopeIdsDistinct s.body) (hd : OneDefaultL s.body) (hw : WellScoped ⟨s.body, [], []⟩)
    (hp : PreamblesPlain s.body) (he : emitScript o patches tl s = .ok ls)
    (n : String) (hn : n ∈ (labelStmtsOf s.body).map (·.1)) :
    ∃ g tok rest K, (n, g) ∈ labelStmtsOf s.body ∧ Pos s.body (.label tok n g :: rest) K ∧
      ∃ chunks, scriptChunks s.body = .ok chunks ∧
        ∃ q : Nat, ls[q]? = some (Line.labelDef n g) ∧
          (((labelStmtsOf s.body).map (·.1)).count n = 1 → findLabel ls n = some q) ∧
          ∀ (w : SWorld) (aw : AWorld), Compat o patches s.name chunks w aw →
            ∀ (regs : Spec.Regs) (sw : String),
              (∀ oc h, (∃ k, siter w k ⟨.label tok n g :: rest, K, []⟩ = .fin oc h) →
                ∃ m oc', aiter aw ls m ⟨q, [], regs, sw⟩ = .fin oc' (rh patches h) ∧ ORel patches oc oc') ∧
              (∀ m oc' ah, aiter aw ls m ⟨q, [], regs, sw⟩ = .fin oc' ah →
                ∃ k oc h, siter w k ⟨.label tok n g :: rest, K, []⟩ = .fin oc h ∧ ORel patches oc oc' ∧
                  ah = rh patches h) ∧
              ((∀ m, ∃ a', aiter aw ls m ⟨q, [], regs, sw⟩ = .next a') ↔
                (∀ k, ∃ s', siter w k ⟨.label tok n g :: rest, K, []⟩ = .next s')) := by
  obtain ⟨⟨n', g⟩, hm, e⟩ := List.mem_map.1 hn
  simp only at e
  subst e
  obtain ⟨tok, rest, K, hpos⟩ := (labelPos_iff s.body (n', g)).2 hm
  obtain ⟨chunks, hc, q, hline, hall⟩ := end_to_end_at_position o patches tl s ls hs hd hw hp he hpos
  refine ⟨g, tok, rest, K, hm, hpos, chunks, hc, q, hline, ?_, hall⟩
  intro h1
  refine findLabel_unique n' g ls q hline ?_
  rw [label_statement_name_count o patches tl s ls he n' hn, h1]

/-- **pipeline_end_to_end_source**: the same from SOURCE TEXT and CONFIGURATION (C01d / C01e): no hypothesis about
the AST, none about the worlds.  For every environment without AutoVar commands named `end` / `return` / `goto`,
every source text that lexes and parses, every script of the program the emitter accepts, every name `n` of a
label statement of its body, every assembly world `aw` (source world induced by it), registers and switch variable. -/
theorem pipeline_end_to_end_source (env : Parser.Env) (src : List Char) (prog : Program)
    (h : Parser.parseTokens env (Lexer.lexAll src) = .ok prog) (s : Script) (hso : C01d.ScriptOf prog s)
    (o : Opts) (patches : List ((Nat × Nat) × String)) (tl : List String) (ls : List Line)
    (hc : C01e.AutoVarsPlain env) (he : emitScript o patches tl s = .ok ls)
    (n : String) (hn : n ∈ (labelStmtsOf s.body).map (·.1)) :
    ∃ g tok rest K, (n, g) ∈ labelStmtsOf s.body ∧ Pos s.body (.label tok n g :: rest) K ∧
      ∃ q : Nat, ls[q]? = some (Line.labelDef n g) ∧
        (((labelStmtsOf s.body).map (·.1)).count n = 1 → findLabel ls n = some q) ∧
        ∀ (aw : AWorld) (regs : Spec.Regs) (sw : String),
          (∀ oc hh, (∃ k, siter (inducedWorld patches aw) k ⟨.label tok n g :: rest, K, []⟩ = .fin oc hh) →
            ∃ m oc', aiter aw ls m ⟨q, [], regs, sw⟩ = .fin oc' (rh patches hh) ∧ ORel patches oc oc') ∧
          (∀ m oc' ah, aiter aw ls m ⟨q, [], regs, sw⟩ = .fin oc' ah →
            ∃ k oc hh, siter (inducedWorld patches aw) k ⟨.label tok n g :: rest, K, []⟩ = .fin oc hh ∧
              ORel patches oc oc' ∧ ah = rh patches hh) ∧
          ((∀ m, ∃ a', aiter aw ls m ⟨q, [], regs, sw⟩ = .next a') ↔
            (∀ k, ∃ s', siter (inducedWorld patches aw) k ⟨.label tok n g :: rest, K, []⟩ = .next s')) := by
  obtain ⟨h1, h2, h3⟩ := C01d.parsed_script_hyps env src prog h s hso
  have hp := C01e.parsed_preambles_plain hc h hso
  obtain ⟨g, tok, rest, K, hm, hpos, chunks, hck, q, hline, hfl, hall⟩ :=
    end_to_end_source o patches tl s ls h1 h2 h3 hp he n hn
  refine ⟨g, tok, rest, K, hm, hpos, q, hline, hfl, ?_⟩
  intro aw regs sw
  have C : Compat o patches s.name chunks (inducedWorld patches aw) aw :=
    compat_induced o patches s.name chunks aw
      (scriptChunks_leaves s.body chunks (C05d.parsed_leaves_wf env src prog h s hso) hck)
  exact hall _ aw C regs sw

/-! ## 5. a name written twice: the hypothesis "the name occurs once" is needed -/

def cmdN (n : String) : Stmt := .cmd { name := n }
def flagO (f : String) : OpExpr := { type := .FLAG, operator := .EQ, cmpValue := "TRUE", operand := { lit := f } }
def flagL (f : String) : BoolExpr := .leaf (flagO f)

/-- all tests false -/
def wF : SWorld := { test := fun _ _ => false, caseEq := fun _ _ _ => false }
def awF : AWorld :=
  { flag := fun _ _ => false, trainer := fun _ _ => false, cmp := fun _ _ _ => 0, caseEq := fun _ _ _ => false }

def dupBody : List Stmt := [cmdN "a", .label {} "L" false, cmdN "b", .label {} "L" true, cmdN "c"]
def dup : Script := { name := "S", body := dupBody }
def dupLines : List Line :=
  [.labelDef "S" true, .command "a" [], .labelDef "L" false, .command "b" [], .labelDef "L" true,
   .command "c" [], .terminator false, .blank]

def dupTable : List Chunk := [{ id := 0, statements := dupBody }]
theorem dupTable_ok : scriptChunks dup.body = .ok dupTable := rfl
theorem dup_order : C05.chunkOrder { optimize := true } dupTable = .ok [0] := by
  simp [C05.chunkOrder, optimizeChunkOrder, dupTable, optimizeLoop]

theorem dup_emit (b : Bool) : emitScript { optimize := b } [] [] dup = .ok dupLines := by
  cases b
  · rfl
  · rw [C05.emitScript_eq]
    simp only [dupTable_ok]
    rw [C05.renderChunks_eq, dup_order]
    rfl

/-- the second `L` is a position of the body -/
theorem dup_pos2 : Pos dupBody [.label {} "L" true, cmdN "c"] [] :=
  ((Pos.root.tail (by simp)).tail (by simp)).tail (by simp)

/-- **A name written twice (F25)**: the emitter accepts `a; L:; b; L(global):; c` and renders both label lines
(`C15d.duplicate_label_statement`).  The second statement `L(global):` is a position of the body and has its own
line (index 4) from which the assembly behaves like the source (`end_to_end_at_position` applies to it) — but the
interpreter's lookup `findLabel` takes the FIRST line named `L` (index 2), and from there the assembly runs
`b; c` while the source machine started at the second statement runs `c` only.  So the clause
`findLabel ls n = some q` of `end_to_end_source` needs the hypothesis that the name is written once. -/
theorem duplicate_name_lookup_takes_first :
    ((labelStmtsOf dupBody).map (·.1)).count "L" = 2 ∧
    dupLines[4]? = some (Line.labelDef "L" true) ∧ findLabel dupLines "L" = some 2 ∧
    (match siter wF 5 ⟨[.label {} "L" true, cmdN "c"], [], []⟩ with
      | .fin o h => some (o, h.map (·.name)) | .next _ => none) = some (.ret, ["c"]) ∧
    (match aiter awF dupLines 5 ⟨4, [], {}, ""⟩ with
      | .fin o h => some (o, h) | .next _ => none) = some (.ret, [.command "c" []]) ∧
    (match aiter awF dupLines 5 ⟨2, [], {}, ""⟩ with
      | .fin o h => some (o, h) | .next _ => none) = some (.ret, [.command "b" [], .command "c" []]) := by
  decide

/-! ## 6. non-vacuity: a label in the `else` of an `if` inside a `while`, and one in dead code after `break` -/

def elseB : List Stmt := [cmdN "c", .label {} "InElse" true, cmdN "d"]
/-- `if (flag(G)) { b } else { c; InElse(global): d }  break  e; Dead: f` -/
def loopB : List Stmt :=
  [.ite {} (flagL "G") [cmdN "b"] [] (some elseB), .brk {} 1, cmdN "e", .label {} "Dead" false, cmdN "f"]
/-- `a  while (flag(F)) { … }  g` -/
def exBody : List Stmt := [cmdN "a", .while_ {} 1 (some (flagL "F")) loopB, cmdN "g"]
def ex : Script := { name := "S", body := exBody }

/-- the frame of the loop and what follows it -/
def loopK : List Frame := [.whileF 1 (some (flagL "F")) loopB, .seq [cmdN "g"]]

theorem ex_posLoop : Pos exBody loopB loopK := (Pos.root.tail (by simp)).whileB
/-- the position of `InElse(global):` — inside the `else`, inside the `while` -/
theorem ex_posInElse : Pos exBody [.label {} "InElse" true, cmdN "d"]
    (.seq [.brk {} 1, cmdN "e", .label {} "Dead" false, cmdN "f"] :: loopK) :=
  (ex_posLoop.elseB (rest := [.brk {} 1, cmdN "e", .label {} "Dead" false, cmdN "f"])).tail (by simp)
/-- the position of `Dead:` — dead code behind the `break` -/
theorem ex_posDead : Pos exBody [.label {} "Dead" false, cmdN "f"] loopK :=
  ((ex_posLoop.tail (by simp)).tail (by simp)).tail (by simp)

theorem ex_scopes : ScopeIdsDistinct exBody := by unfold ScopeIdsDistinct; decide
theorem ex_oneDefault : OneDefaultL exBody := by
  unfold exBody loopB elseB
  repeat' (first | decide | constructor)
theorem ex_wellScoped : WellScoped ⟨exBody, [], []⟩ := by
  unfold WellScoped exBody loopB elseB
  simp [scopedStmts, scopedStmt, scopedElifs, scopedK, brkScopes, contScopes, cmdN]
theorem ex_plain : PreamblesPlain exBody := by
  unfold PreamblesPlain exBody loopB elseB
  simp [LeavesL, LeavesS, LeavesE, CondLeaves, leavesOf, PlainLeaf, flagL, flagO, cmdN]

def exTable : List Chunk :=
  [ { id := 9, returnID := some 2, statements := [cmdN "e", .label {} "Dead" false, cmdN "f"] },
    { id := 8, branch := .leaf 6 (flagO "G") (some 7) },
    { id := 7, returnID := some 5, statements := elseB },
    { id := 6, returnID := some 5, statements := [cmdN "b"] },
    { id := 5, returnID := some 2, branch := .breakCtx (some 1) },
    { id := 2, returnID := some 1, branch := .jump 4 },
    { id := 3, returnID := some 5, branch := .jump 8 },
    { id := 4, branch := .leaf 3 (flagO "F") (some 1) },
    { id := 1, statements := [cmdN "g"] },
    { id := 0, returnID := some 1, statements := [cmdN "a"], branch := .jump 2 } ]

theorem exTable_ok : scriptChunks ex.body = .ok exTable := rfl

theorem ex_order : C05.chunkOrder { optimize := true } exTable = .ok [0, 2, 4, 1, 3, 8, 7, 5, 6, 9] := by
  simp [C05.chunkOrder, optimizeChunkOrder, exTable, optimizeLoop, optimizeLoop.pick, scanUnvisited,
    findChunk, tailId]

/-- the optimised output: `InElse` is line 11, `Dead` line 21 (its chunk `e  Dead:  f  goto S_2` is laid out last,
unlabelled) -/
def exLinesT : List Line :=
  [ .labelDef "S" true, .command "a" [],
    .labelDef "S_2" false, .gotoIfSet "F" "S_3",
    .labelDef "S_1" false, .command "g" [], .terminator false, .blank,
    .labelDef "S_3" false, .gotoIfSet "G" "S_6", .command "c" [], .labelDef "InElse" true, .command "d" [],
    .labelDef "S_5" false, .goto_ "S_1", .blank,
    .labelDef "S_6" false, .command "b" [], .goto_ "S_5", .blank,
    .command "e" [], .labelDef "Dead" false, .command "f" [], .goto_ "S_2", .blank ]

/-- the unoptimised output: `InElse` is line 27, `Dead` line 36 -/
def exLinesF : List Line :=
  [ .labelDef "S" true, .command "a" [], .goto_ "S_2", .blank,
    .labelDef "S_1" false, .command "g" [], .terminator false, .blank,
    .labelDef "S_2" false, .goto_ "S_4", .blank,
    .labelDef "S_3" false, .goto_ "S_8", .blank,
    .labelDef "S_4" false, .gotoIfSet "F" "S_3", .goto_ "S_1", .blank,
    .labelDef "S_5" false, .goto_ "S_1", .blank,
    .labelDef "S_6" false, .command "b" [], .goto_ "S_5", .blank,
    .labelDef "S_7" false, .command "c" [], .labelDef "InElse" true, .command "d" [], .goto_ "S_5", .blank,
    .labelDef "S_8" false, .gotoIfSet "G" "S_6", .goto_ "S_7", .blank,
    .command "e" [], .labelDef "Dead" false, .command "f" [], .goto_ "S_2", .blank ]

def exLines (b : Bool) : List Line := if b then exLinesT else exLinesF

set_option maxRecDepth 100000 in
theorem ex_emit (b : Bool) : emitScript { optimize := b } [] [] ex = .ok (exLines b) := by
  cases b
  · rfl
  · rw [C05.emitScript_eq]
    simp only [exTable_ok]
    rw [C05.renderChunks_eq, ex_order]
    rfl

example : labelStmtsOf exBody = [("InElse", true), ("Dead", false)] := by decide

/-- item 1 on `ex` -/
example (b : Bool) (n : String) : n ∈ entryPoints ex ↔ n = "S" ∨ n ∈ (labelStmtsOf exBody).map (·.1) :=
  entry_points_source { optimize := b } [] [] ex _ (ex_emit b) n

/-- all hypotheses of `end_to_end_at_position` hold at both labels, for both chunk orders -/
example (b : Bool) := end_to_end_at_position { optimize := b } [] [] ex (exLines b) ex_scopes ex_oneDefault
  ex_wellScoped ex_plain (ex_emit b) ex_posInElse
example (b : Bool) := end_to_end_at_position { optimize := b } [] [] ex (exLines b) ex_scopes ex_oneDefault
  ex_wellScoped ex_plain (ex_emit b) ex_posDead
/-- … and of `end_to_end_source`, including "the name is written once" -/
example (b : Bool) := end_to_end_source { optimize := b } [] [] ex (exLines b) ex_scopes ex_oneDefault
  ex_wellScoped ex_plain (ex_emit b) "Dead" (by decide)
example : ((labelStmtsOf ex.body).map (·.1)).count "Dead" = 1 ∧
    ((labelStmtsOf ex.body).map (·.1)).count "InElse" = 1 := by decide
example (b : Bool) := source_label_reachable_line { optimize := b } [] [] ex (exLines b) (ex_emit b) "InElse" true
  (by decide)

/-- flag `F` set, flag `G` unset (source side / assembly side) -/
def wFG : SWorld := { test := fun _ e => e.operand.lit == "F", caseEq := fun _ _ _ => false }
def awFG : AWorld :=
  { flag := fun _ f => f == "F", trainer := fun _ _ => false, cmp := fun _ _ _ => 0, caseEq := fun _ _ _ => false }

def showS (r : Res SCfg) : Option (Outcome × List String) :=
  match r with | .fin o h => some (o, h.map (·.name)) | .next _ => none
def showA (r : ARes) : Option (AOutcome × AHist) :=
  match r with | .fin o h => some (o, h) | .next _ => none

/-- **entry at `InElse`** (in the `else` of the `if` inside the `while`): the source machine started at the label
statement runs `d`, breaks out of the loop, runs `g` and returns; the assembly started at the label line found by
`findLabel` does the same — both chunk orders. -/
example : showS (siter wFG 20 ⟨[.label {} "InElse" true, cmdN "d"],
      .seq [.brk {} 1, cmdN "e", .label {} "Dead" false, cmdN "f"] :: loopK, []⟩) = some (.ret, ["d", "g"]) ∧
    findLabel exLinesT "InElse" = some 11 ∧ findLabel exLinesF "InElse" = some 27 ∧
    showA (aiter awFG exLinesT 30 ⟨11, [], {}, ""⟩) = some (.ret, [.command "d" [], .command "g" []]) ∧
    showA (aiter awFG exLinesF 30 ⟨27, [], {}, ""⟩) = some (.ret, [.command "d" [], .command "g" []]) := by
  decide

/-- **entry at `Dead`** (dead code behind `break`): the source machine started there runs `f`, re-tests the loop
condition (F holds), runs the `else` branch `c  d`, breaks, runs `g`; so does the assembly — both chunk orders. -/
example : showS (siter wFG 20 ⟨[.label {} "Dead" false, cmdN "f"], loopK, []⟩) = some (.ret, ["f", "c", "d", "g"]) ∧
    findLabel exLinesT "Dead" = some 21 ∧ findLabel exLinesF "Dead" = some 36 ∧
    showA (aiter awFG exLinesT 30 ⟨21, [], {}, ""⟩) =
      some (.ret, [.command "f" [], .command "c" [], .command "d" [], .command "g" []]) ∧
    showA (aiter awFG exLinesF 30 ⟨36, [], {}, ""⟩) =
      some (.ret, [.command "f" [], .command "c" [], .command "d" [], .command "g" []]) := by
  decide

/-- with all tests false the run from `Dead` leaves the loop at once: `f  g` on both sides -/
example : showS (siter wF 20 ⟨[.label {} "Dead" false, cmdN "f"], loopK, []⟩) = some (.ret, ["f", "g"]) ∧
    showA (aiter awF exLinesT 30 ⟨21, [], {}, ""⟩) = some (.ret, [.command "f" [], .command "g" []]) ∧
    showA (aiter awF exLinesF 30 ⟨36, [], {}, ""⟩) = some (.ret, [.command "f" [], .command "g" []]) := by
  decide

#print axioms entry_points_source
#print axioms entry_points_perm
#print axioms cfg_end_to_end
#print axioms source_label_reachable_line
#print axioms end_to_end_at_position
#print axioms end_to_end_source
#print axioms pipeline_end_to_end_source
#print axioms duplicate_name_lookup_takes_first
#print axioms Pory.Sem.pos_impl
#print axioms Pory.Sem.labelPos_iff

end Pory.C01f
