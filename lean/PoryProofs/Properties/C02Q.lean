import PoryProofs.BoolParseAuto
/-
C02 + C11 — AutoVar leaves inside compound conditions.

`C02P.parse_bool_tree` / `parse_bool_correct` cover the condition grammar `SOr` (`!` > `&&` > `||`,
parentheses, De Morgan distribution of `negated`) over the non-AutoVar leaves; `C11b.parse_autovar_leaf`
covers one AutoVar leaf `[!] cmd(args) [op N]` alone.  This module closes the gap: the same grammar over
leaves that may also be AutoVar leaves, anywhere in the expression (also inside `!( … )`).

Reference grammar (`PoryProofs/BoolParseAuto.lean`):
  `AOr ::= AAnd | AAnd '||' AOr ; AAnd ::= AUn | AUn '&&' AAnd ; AUn ::= ALeaf | ['!'] '(' AOr ')'`
  `ALeaf ::= plain (l : C02P.Leaf) | auto (fm : C11b.Form) name lp a0 more rp`   (`C11b.printAuto`)
`printAOr` writes the tokens.  `AWF env g` (decidable) = every AutoVar leaf of `g` satisfies the hypotheses
of `C11b.parse_autovar_leaf` (`AutoWF`: the name is an IDENT token configured in `env.autoVars`, `(`/`)`
tokens, arguments `C10b.ArgOK`, separators `,`, configured argument position `C11b.PosOK`).  No hypothesis on
what follows a leaf is needed: inside the grammar a leaf is followed by `&&`, `||` or `)`, which is what
`Form.RestOK` asks (`restOK_of_follow`).
`treeAOr σ env neg id g` = the expected `BoolExpr`: the shape of `C02P.treeOr` (left-folded `&&` chains,
`||` to the right, `negated` distributed by De Morgan), an AutoVar leaf is `C11b.autoLeafT` with the
preamble command `cmdA σ (id + k) …` where `k` = the number of AutoVar leaves to its left in SOURCE order
(the parser parses leaves left to right, also inside negated parentheses), operand `C11b.operandName`.

Proved (every `env`, script name, `negated`, surrounding tokens, parser state `s` incl. constants and
command id counter, fuel ≥ `needAOr g`, which is ≤ 2·(number of tokens)+1 — `fuel_linear_auto`):
* `parse_bool_tree_auto` : on `pre :: printAOr g ++ rparen :: rest` the parser returns exactly
  `treeAOr (substC s.constants) env negated s.nextCmdId g`, implicit data `{}`, and the state
  `{ s with toks := rparen :: rest, nextCmdId := s.nextCmdId + cntOr g }` (stops at the closing `)`, the
  command id counter advanced by the number of AutoVar leaves, nothing else changed);
* `parse_bool_correct_auto` : the truth-value corollary over the history-aware source semantics
  `Sem.evalCond` (PorySpec/Sem.lean — the semantics C01 / `C11.preamble_once_per_evaluation` relate to the
  chunk graph).  For every game-state world `W : Spec.World`, every rendering `ρ` of executed commands and
  every history `h`, in the induced world `sworld W ρ` (a leaf test = `Spec.leafHolds W` after the rendered
  history):  `evalCond (sworld W ρ) h t = (h', b != negated)` where `(h', b) = evalAOr W ρ σ env id h g` is
  the reference evaluation of the WRITTEN expression: `!` > `&&` > `||`, parentheses override, operands left
  to right with short-circuit, a plain leaf means what the manual says (`C02P.evalLeaf`), an AutoVar leaf
  runs its command (history grows by `cmdA σ (id+k) …`) and then compares the configured variable with the
  written operator / value after that history.  In particular the history — which commands ran, in which
  order — is the same: De Morgan distribution preserves short-circuit behaviour;
* `condition_value_auto` : the `negated = false` case (how `if`/`while`/… call the parser);
* `treeA_shape` : erasing operand and preamble of every leaf, `treeAOr … g` = `C02P.treeOr … (toSOr g)`
  where `toSOr` replaces each AutoVar leaf by the `var(X)` leaf with the same surroundings
  (`Form.varLeaf`) — the precedence shape is the one C02P proves;
* `treeA_preamble_ids` : the command ids of the preambles in the tree, left to right, are
  `id, id+1, …, id + cntOr g - 1`;
* `extends_C02P` / `extends_C02P_eval` / `extends_C11b` : on an expression without AutoVar leaves
  (`ofSOr g`) tree and value are `C02P.treeOr` / `C02P.evalOr` (history unchanged), and a single AutoVar
  leaf gives `.leaf (autoLeafT …)` as in `C11b.parse_autovar_leaf` / `StmtGrammar.elabCond`.
Nothing is partial.

How `SCond` (PoryProofs/StmtGrammar.lean, P1) could be widened with this result: replace the two
constructors by `SCond := AOr` (`plain g` = `ofSOr g`, `auto …` = `.one (.one (.leaf (.auto …)))`),
`printCond := printAOr`, `swfCond` := the token-type part of `wfOr` (everything except the two
configuration-dependent conjuncts of `AutoWF`), `needCond := needAOr` (`fuel_linear_auto` replaces
`needCond_le`), and `elabCond env σ g cid := .ok (treeAOr σ env false cid g, cid + cntOr g)` when `AWF env g`;
`parse_bool_tree_auto` is then the condition case of `parse_block_elab` (the state it returns has exactly
the counter `elabCond` returns).  What is still missing for the error half of `elabCond` is the analogue of
`C11b.autovar_bad_position_rejected` / `unconfigured_ident_rejected` for a leaf inside a compound
expression (first offending leaf in source order); not done here.

Not covered (as in C02P / C11b): arguments with string literals / `format()` / `moves()` (implicit data;
the implicit data of the condition is therefore `{}`), `value(…)` and multi-token comparison values.
-/
namespace Pory.C02Q
open Pory Pory.Parser Pory.Spec Pory.C02P Pory.C10b Pory.C11b

/-- **C02 + C11, parser half.** The parser returns exactly the expected tree `treeAOr`, no implicit data,
stops at the closing parenthesis, advances the command id counter by the number of AutoVar leaves and
leaves everything else in the state unchanged. -/
theorem parse_bool_tree_auto (env : Env) (scriptName : String) (g : AOr) (negated : Bool)
    (pre rparen : Tok) (rest : List Tok) (hrp : rparen.type = .RPAREN) (hwf : AWF env g)
    (s : PState) (htoks : s.toks = pre :: (printAOr g ++ rparen :: rest))
    (fuel : Nat) (hfuel : needAOr g ≤ fuel) :
    (parseBooleanExpression env scriptName false negated fuel).run s =
      .ok ((treeAOr (substC s.constants) env negated s.nextCmdId g, {}),
           { s with toks := rparen :: rest, nextCmdId := s.nextCmdId + cntOr g }) := by
  have h := orF env scriptName s g negated pre rparen rest fuel hwf hfuel hrp
  rw [← htoks, st_self] at h
  exact h

/-- **C02 + C11, truth value.** The tree the parser returns evaluates — in the history-aware source
semantics `Sem.evalCond`, for every world, rendering and history — to the value of the written expression
xor `negated`, with the same resulting history (the same AutoVar commands run, in the same order). -/
theorem parse_bool_correct_auto (env : Env) (scriptName : String) (g : AOr) (negated : Bool)
    (pre rparen : Tok) (rest : List Tok) (hrp : rparen.type = .RPAREN) (hwf : AWF env g)
    (s : PState) (htoks : s.toks = pre :: (printAOr g ++ rparen :: rest))
    (fuel : Nat) (hfuel : needAOr g ≤ fuel) :
    ∃ t, (parseBooleanExpression env scriptName false negated fuel).run s =
          .ok ((t, {}), { s with toks := rparen :: rest, nextCmdId := s.nextCmdId + cntOr g }) ∧
      ∀ (W : World) (ρ : Cmd → String) (h : Sem.Hist),
        Sem.evalCond (sworld W ρ) h t =
          ((evalAOr W ρ (substC s.constants) env s.nextCmdId h g).1,
           (evalAOr W ρ (substC s.constants) env s.nextCmdId h g).2 != negated) :=
  ⟨_, parse_bool_tree_auto env scriptName g negated pre rparen rest hrp hwf s htoks fuel hfuel,
    fun W ρ h => evalAOr_ok W ρ _ env g negated s.nextCmdId h⟩

/-- The way statements call the parser (`negated = false`), without constants. -/
theorem condition_value_auto (env : Env) (scriptName : String) (g : AOr)
    (pre rparen : Tok) (rest : List Tok) (hrp : rparen.type = .RPAREN) (hwf : AWF env g)
    (s : PState) (htoks : s.toks = pre :: (printAOr g ++ rparen :: rest)) (hconst : s.constants = [])
    (fuel : Nat) (hfuel : needAOr g ≤ fuel) :
    ∃ t, (parseBooleanExpression env scriptName false false fuel).run s =
          .ok ((t, {}), { s with toks := rparen :: rest, nextCmdId := s.nextCmdId + cntOr g }) ∧
      ∀ (W : World) (ρ : Cmd → String) (h : Sem.Hist),
        Sem.evalCond (sworld W ρ) h t = evalAOr W ρ id env s.nextCmdId h g := by
  obtain ⟨t, h1, h2⟩ :=
    parse_bool_correct_auto env scriptName g false pre rparen rest hrp hwf s htoks fuel hfuel
  refine ⟨t, h1, fun W ρ h => ?_⟩
  rw [h2 W ρ h, hconst]
  simp [substC_nil]
  rfl

/-- The tree has the precedence shape of `C02P.treeOr`: erasing operand and preamble of every leaf, it is
the tree of the expression with every AutoVar leaf replaced by the `var(X)` leaf with the same
surroundings. -/
theorem treeA_shape (σ : String → String) (env : Env) (g : AOr) (neg : Bool) (id : Nat) :
    mapLeaf eraseLeaf (treeAOr σ env neg id g) = mapLeaf eraseLeaf (treeOr σ neg (toSOr g)) :=
  shapeOr σ env g neg id

/-- Command ids of the AutoVar preambles are assigned left to right, consecutively from `id`. -/
theorem treeA_preamble_ids (σ : String → String) (env : Env) (g : AOr) (neg : Bool) (id : Nat) :
    preambleIds (treeAOr σ env neg id g) = List.range' id (cntOr g) :=
  idsOr σ env g neg id

/-- The fuel bound is linear in the number of tokens of the expression. -/
theorem fuel_linear_auto (g : AOr) : needAOr g ≤ 2 * (printAOr g).length + 1 := needAOr_le g

/-! ### the result extends C02P (no AutoVar leaf) and C11b (one AutoVar leaf) -/

mutual
def ofSOr : SOr → AOr
  | .one a => .one (ofSAnd a)
  | .more a p r => .more (ofSAnd a) p (ofSOr r)
def ofSAnd : SAnd → AAnd
  | .one u => .one (ofSUn u)
  | .more u p r => .more (ofSUn u) p (ofSAnd r)
def ofSUn : SUn → AUn
  | .leaf lf => .leaf (.plain lf)
  | .paren n pn pl pr e => .paren n pn pl pr (ofSOr e)
end

mutual
theorem ofS_or (env : Env) (g : SOr) :
    printAOr (ofSOr g) = printOr g ∧ cntOr (ofSOr g) = 0 ∧ wfOr env (ofSOr g) = true ∧
      needAOr (ofSOr g) = needOr g := by
  cases g with
  | one a => simpa [ofSOr, printAOr, printOr, cntOr, wfOr, needAOr, needOr] using ofS_and env a
  | more a p r =>
    obtain ⟨a1, a2, a3, a4⟩ := ofS_and env a
    obtain ⟨r1, r2, r3, r4⟩ := ofS_or env r
    simp [ofSOr, printAOr, printOr, cntOr, wfOr, needAOr, needOr, a1, a2, a3, a4, r1, r2, r3, r4]
theorem ofS_and (env : Env) (a : SAnd) :
    printAAnd (ofSAnd a) = printAnd a ∧ cntAnd (ofSAnd a) = 0 ∧ wfAnd env (ofSAnd a) = true ∧
      needAAnd (ofSAnd a) = needAnd a := by
  cases a with
  | one u => simpa [ofSAnd, printAAnd, printAnd, cntAnd, wfAnd, needAAnd, needAnd] using ofS_un env u
  | more u p r =>
    obtain ⟨a1, a2, a3, a4⟩ := ofS_un env u
    obtain ⟨r1, r2, r3, r4⟩ := ofS_and env r
    simp [ofSAnd, printAAnd, printAnd, cntAnd, wfAnd, needAAnd, needAnd, a1, a2, a3, a4, r1, r2, r3, r4]
theorem ofS_un (env : Env) (u : SUn) :
    printAUn (ofSUn u) = printUn u ∧ cntUn (ofSUn u) = 0 ∧ wfUn env (ofSUn u) = true ∧
      needAUn (ofSUn u) = needUn u := by
  cases u with
  | leaf lf => exact ⟨rfl, rfl, rfl, rfl⟩
  | paren n pn pl pr e =>
    obtain ⟨r1, r2, r3, r4⟩ := ofS_or env e
    simp [ofSUn, printAUn, printUn, cntUn, wfUn, needAUn, needUn, r1, r2, r3, r4]
end

mutual
theorem ofS_treeOr (σ : String → String) (env : Env) (g : SOr) (neg : Bool) (id : Nat) :
    treeAOr σ env neg id (ofSOr g) = treeOr σ neg g := by
  cases g with
  | one a => simpa [ofSOr, treeAOr, treeOr] using ofS_treeAnd σ env a neg id
  | more a p r =>
    simp [ofSOr, treeAOr, treeOr, ofS_treeAnd σ env a neg id, ofS_treeOr σ env r neg]
theorem ofS_treeAnd (σ : String → String) (env : Env) (a : SAnd) (neg : Bool) (id : Nat) :
    treeAAnd σ env neg id (ofSAnd a) = treeAnd σ neg a := by
  cases a with
  | one u => simpa [ofSAnd, treeAAnd, treeAnd] using ofS_treeUn σ env u neg id
  | more u p r =>
    simp [ofSAnd, treeAAnd, treeAnd, ofS_treeUn σ env u neg id, ofS_treeAcc σ env r neg]
theorem ofS_treeAcc (σ : String → String) (env : Env) (r : SAnd) (neg : Bool) (id : Nat) (left : BoolExpr) :
    treeAAcc σ env neg id left (ofSAnd r) = treeAndAcc σ neg left r := by
  cases r with
  | one u => simp [ofSAnd, treeAAcc, treeAndAcc, ofS_treeUn σ env u neg id]
  | more u p r' =>
    simp [ofSAnd, treeAAcc, treeAndAcc, ofS_treeUn σ env u neg id, ofS_treeAcc σ env r' neg]
theorem ofS_treeUn (σ : String → String) (env : Env) (u : SUn) (neg : Bool) (id : Nat) :
    treeAUn σ env neg id (ofSUn u) = treeUn σ neg u := by
  cases u with
  | leaf lf => simp [ofSUn, treeAUn, treeUn, leafTA]
  | paren n pn pl pr e => simpa [ofSUn, treeAUn, treeUn] using ofS_treeOr σ env e (neg != n) id
end

/-- Without AutoVar leaves, `parse_bool_tree_auto` is `C02P.parse_bool_tree`: same tokens, always
well-formed, same fuel need, no command id consumed, same tree. -/
theorem extends_C02P (σ : String → String) (env : Env) (g : SOr) (neg : Bool) (id : Nat) :
    printAOr (ofSOr g) = printOr g ∧ AWF env (ofSOr g) ∧ needAOr (ofSOr g) = needOr g ∧
    cntOr (ofSOr g) = 0 ∧ treeAOr σ env neg id (ofSOr g) = treeOr σ neg g :=
  ⟨(ofS_or env g).1, (ofS_or env g).2.2.1, (ofS_or env g).2.2.2, (ofS_or env g).2.1,
    ofS_treeOr σ env g neg id⟩

mutual
theorem ofS_evalOr (W : World) (ρ : Cmd → String) (σ : String → String) (env : Env) (g : SOr) (id : Nat)
    (h : Sem.Hist) : evalAOr W ρ σ env id h (ofSOr g) = (h, evalOr σ W (h.map ρ) g) := by
  cases g with
  | one a => simpa [ofSOr, evalAOr, evalOr] using ofS_evalAnd W ρ σ env a id h
  | more a p r =>
    have h1 := ofS_evalAnd W ρ σ env a id h
    have h2 := ofS_evalOr W ρ σ env r (id + cntAnd (ofSAnd a)) h
    cases hb : evalAnd σ W (h.map ρ) a <;> simp [ofSOr, evalAOr, evalOr, h1, h2, hb]
theorem ofS_evalAnd (W : World) (ρ : Cmd → String) (σ : String → String) (env : Env) (a : SAnd) (id : Nat)
    (h : Sem.Hist) : evalAAnd W ρ σ env id h (ofSAnd a) = (h, evalAnd σ W (h.map ρ) a) := by
  cases a with
  | one u => simpa [ofSAnd, evalAAnd, evalAnd] using ofS_evalUn W ρ σ env u id h
  | more u p r =>
    have h1 := ofS_evalUn W ρ σ env u id h
    have h2 := ofS_evalAnd W ρ σ env r (id + cntUn (ofSUn u)) h
    cases hb : evalUn σ W (h.map ρ) u <;> simp [ofSAnd, evalAAnd, evalAnd, h1, h2, hb]
theorem ofS_evalUn (W : World) (ρ : Cmd → String) (σ : String → String) (env : Env) (u : SUn) (id : Nat)
    (h : Sem.Hist) : evalAUn W ρ σ env id h (ofSUn u) = (h, evalUn σ W (h.map ρ) u) := by
  cases u with
  | leaf lf => simp [ofSUn, evalAUn, evalUn, evalALeaf]
  | paren n pn pl pr e => simp [ofSUn, evalAUn, evalUn, ofS_evalOr W ρ σ env e id h]
end

/-- Without AutoVar leaves the history-aware reference evaluation is `C02P.evalOr` on the rendered
history, and the history does not change (short-circuit evaluation is unobservable). -/
theorem extends_C02P_eval (W : World) (ρ : Cmd → String) (σ : String → String) (env : Env) (g : SOr)
    (id : Nat) (h : Sem.Hist) : evalAOr W ρ σ env id h (ofSOr g) = (h, evalOr σ W (h.map ρ) g) :=
  ofS_evalOr W ρ σ env g id h

/-- A single AutoVar leaf: the tree is the leaf of `C11b.parse_autovar_leaf` (and of
`StmtGrammar.elabCond`), one command id is consumed. -/
theorem extends_C11b (s : PState) (env : Env) (av : AutoVar) (fm : Form) (name lp : Tok) (a0 : List Tok)
    (more : List (Tok × List Tok)) (rp : Tok) (hav : env.autoVars.lookup name.lit = some av) :
    treeAOr (substC s.constants) env false s.nextCmdId (.one (.one (.leaf (.auto fm name lp a0 more rp)))) =
        .leaf (autoLeafT (substC s.constants) fm (operandName av (argsT s a0 more)) (cmdT s name a0 more)) ∧
    cntOr (.one (.one (.leaf (.auto fm name lp a0 more rp)))) = 1 ∧
    printAOr (.one (.one (.leaf (.auto fm name lp a0 more rp)))) = printAuto fm name lp a0 more rp := by
  have : avOf env name = av := by simp [avOf, hav]
  refine ⟨?_, rfl, rfl⟩
  simp only [treeAOr, treeAAnd, treeAUn, leafTA, this]
  rfl

/-! ### non-vacuity: `if (flag(A) && random(4) == 2 || !checkitem(ITEM_X)) {`
with `random` and `checkitem` configured for `VAR_RESULT` -/

def envEx : Env :=
  { autoVars := [("random", { varName := "VAR_RESULT" }), ("checkitem", { varName := "VAR_RESULT" })] }

/-- `( flag ( A ) && random ( 4 ) == 2 || ! checkitem ( ITEM_X ) ) {` — cur is the `(` that opens the
condition -/
def exToks : List Tok :=
  [tk .LPAREN "(", tk .FLAG "flag", tk .LPAREN "(", tk .IDENT "A", tk .RPAREN ")", tk .AND "&&",
   tk .IDENT "random", tk .LPAREN "(", tk .INT "4", tk .RPAREN ")", tk .EQ "==", tk .INT "2",
   tk .OR "||", tk .NOT "!", tk .IDENT "checkitem", tk .LPAREN "(", tk .IDENT "ITEM_X", tk .RPAREN ")",
   tk .RPAREN ")", tk .LBRACE "{"]

-- sanity check (evaluation, not a proof): types and literals of the model lexer's tokens
#guard ((Lexer.lexAll "if (flag(A) && random(4) == 2 || !checkitem(ITEM_X)) {".toList).drop 1 |>.take 20).map
    (fun t => (t.type, t.lit)) == exToks.map (fun t => (t.type, t.lit))

/-- `flag(A) && random(4) == 2 || !checkitem(ITEM_X)` -/
def exG : AOr :=
  .more
    (.more (.leaf (.plain (.flagBare (fun _ => {}) false "A"))) {}
      (.one (.leaf (.auto (.cmp {} {} "==" .eq ⟨true, "2"⟩) (tk .IDENT "random") (tk .LPAREN "(")
        [tk .INT "4"] [] (tk .RPAREN ")")))))
    {}
    (.one (.one (.leaf (.auto (.neg {} "!") (tk .IDENT "checkitem") (tk .LPAREN "(")
      [tk .IDENT "ITEM_X"] [] (tk .RPAREN ")")))))

theorem exToks_shape : exToks =
    tk .LPAREN "(" :: (printAOr exG ++ tk .RPAREN ")" :: [tk .LBRACE "{"]) := by decide

theorem exG_wf : AWF envEx exG := by decide

def cmdRandom (id : Nat) : Cmd := { id := id, tok := tk .IDENT "random", name := "random", args := ["4"] }
def cmdCheckitem (id : Nat) : Cmd :=
  { id := id, tok := tk .IDENT "checkitem", name := "checkitem", args := ["ITEM_X"] }

/-- `(flag(A) && VAR_RESULT == 2 [after random 4]) || VAR_RESULT == 0 [after checkitem ITEM_X]` -/
def exTree (id : Nat) : BoolExpr :=
  .bin
    (.bin (.leaf { type := .FLAG, operand := tk .IDENT "A", operator := .EQ, cmpValue := "TRUE" }) .AND
      (.leaf { type := .VAR, operand := tk .IDENT "VAR_RESULT", operator := .EQ, cmpValue := "2",
               preamble := some (cmdRandom id) }))
    .OR
    (.leaf { type := .VAR, operand := tk .IDENT "VAR_RESULT", operator := .EQ, cmpValue := "0",
             preamble := some (cmdCheckitem (id + 1)) })

theorem bin_congr {l l' r r' : BoolExpr} (op : TT) (h1 : l = l') (h2 : r = r') :
    BoolExpr.bin l op r = .bin l' op r' := by subst h1; subst h2; rfl

theorem exTree_eq (id : Nat) : treeAOr (substC []) envEx false id exG = exTree id := by
  have a1 : argsA (substC []) [tk .INT "4"] [] = ["4"] := by decide
  have a2 : operandName (avOf envEx (tk .IDENT "random")) ["4"] = "VAR_RESULT" := by decide
  have a3 : Form.cmpValue (substC []) (.cmp {} {} "==" .eq ⟨true, "2"⟩) = "2" := by decide
  have a4 : argsA (substC []) [tk .IDENT "ITEM_X"] [] = ["ITEM_X"] := by decide
  have a5 : operandName (avOf envEx (tk .IDENT "checkitem")) ["ITEM_X"] = "VAR_RESULT" := by decide
  have c : cntAnd (.more (.leaf (.plain (.flagBare (fun _ => {}) false "A"))) {}
      (.one (.leaf (.auto (.cmp {} {} "==" .eq ⟨true, "2"⟩) (tk .IDENT "random") (tk .LPAREN "(")
        [tk .INT "4"] [] (tk .RPAREN ")"))))) = 1 := by decide
  simp only [exG, treeAOr, treeAAnd, treeAAcc, treeAUn, c, cntUn, cntLeaf, orOp, andOp, exTree,
    Nat.add_zero, Bool.false_eq_true, if_false]
  refine bin_congr _ (bin_congr _ ?_ ?_) ?_
  · rfl
  · refine congrArg BoolExpr.leaf ?_
    simp only [negLeaf, leafTA, autoLeafT, cmdA, cmdRandom, Bool.false_eq_true, if_false, a1, a2, a3]
    rfl
  · refine congrArg BoolExpr.leaf ?_
    simp only [negLeaf, leafTA, autoLeafT, cmdA, cmdCheckitem, Bool.false_eq_true, if_false, a4, a5]
    rfl

/-- Via the theorem: on the example tokens — any command id counter `n` on entry — the parser returns
`exTree n`, stops at the closing `)`, and has advanced the counter by 2. -/
example (sn : String) (n : Nat) (fuel : Nat) (hf : 30 ≤ fuel) :
    let s : PState := { toks := exToks, eof := tk .EOF "", nextCmdId := n }
    (parseBooleanExpression envEx sn false false fuel).run s =
      .ok ((exTree n, {}), { s with toks := [tk .RPAREN ")", tk .LBRACE "{"], nextCmdId := n + 2 }) := by
  intro s
  have h := parse_bool_tree_auto envEx sn exG false _ _ _ rfl exG_wf s exToks_shape fuel
    (Nat.le_trans (by decide : needAOr exG ≤ 30) hf)
  rw [h]
  have e1 : treeAOr (substC s.constants) envEx false s.nextCmdId exG = exTree n := exTree_eq n
  have e2 : cntOr exG = 2 := by decide
  rw [e1, e2]

/-- The same input by plain evaluation of the model (agrees with the theorem): preamble command ids,
names and arguments left to right, the operands compared, the counter and the window afterwards. -/
example :
    let r := (parseBooleanExpression envEx "s" false false 30).run
        { toks := exToks, eof := tk .EOF "", nextCmdId := 5 }
    r.toOption.map (fun r => (leavesOf r.1.1).map (fun e => (e.operand.lit, e.operator, e.cmpValue))) =
      some [("A", .EQ, "TRUE"), ("VAR_RESULT", .EQ, "2"), ("VAR_RESULT", .EQ, "0")] ∧
    r.toOption.map (fun r => (leavesOf r.1.1).map (fun e => e.preamble.map (fun c => (c.id, c.name, c.args)))) =
      some [none, some (5, "random", ["4"]), some (6, "checkitem", ["ITEM_X"])] ∧
    r.toOption.map (fun r => (r.2.nextCmdId, r.2.toks.map (·.lit))) = some (7, [")", "{"]) := by
  decide

/-- Truth value of the example: when `flag(A)` is unset, `random` is NOT run (short-circuit), `checkitem`
is, and the condition holds iff `VAR_RESULT == 0` after it; when `flag(A)` is set, `random 4` runs first and
`checkitem` only if `VAR_RESULT != 2` after it. -/
example (W : World) (ρ : Cmd → String) (h : Sem.Hist) (n : Nat) :
    Sem.evalCond (sworld W ρ) h (exTree n) =
      if W.flag (h.map ρ) "A" then
        if W.cmp (h.map ρ ++ [ρ (cmdRandom n)]) "VAR_RESULT" "2" == 0 then (h ++ [cmdRandom n], true)
        else (h ++ [cmdRandom n, cmdCheckitem (n + 1)],
              W.cmp (h.map ρ ++ [ρ (cmdRandom n), ρ (cmdCheckitem (n + 1))]) "VAR_RESULT" "0" == 0)
      else (h ++ [cmdCheckitem (n + 1)],
            W.cmp (h.map ρ ++ [ρ (cmdCheckitem (n + 1))]) "VAR_RESULT" "0" == 0) := by
  rw [← exTree_eq n, evalAOr_ok W ρ (substC []) envEx exG false n h]
  simp only [substC_nil]
  have h1 : argsA (fun v => v) [tk .INT "4"] [] = ["4"] := by decide
  have h2 : operandName (avOf envEx (tk .IDENT "random")) ["4"] = "VAR_RESULT" := by decide
  have h4 : argsA (fun v => v) [tk .IDENT "ITEM_X"] [] = ["ITEM_X"] := by decide
  have h5 : operandName (avOf envEx (tk .IDENT "checkitem")) ["ITEM_X"] = "VAR_RESULT" := by decide
  have c1 : cmdA (fun v => v) n (tk .IDENT "random") [tk .INT "4"] [] = cmdRandom n := by
    simp only [cmdA, h1]; rfl
  have c2 : cmdA (fun v => v) (n + 1) (tk .IDENT "checkitem") [tk .IDENT "ITEM_X"] [] =
      cmdCheckitem (n + 1) := by
    simp only [cmdA, h4]; rfl
  cases hA : W.flag (h.map ρ) "A"
  · simp [exG, evalAOr, evalAAnd, evalAUn, evalALeaf, evalLeaf, atomVal, cntUn, cntLeaf, cntAnd,
      h4, h5, c2, hA, Form.operator, Form.cmpValue, cmpHolds]
  · cases hR : W.cmp (h.map ρ ++ [ρ (cmdRandom n)]) "VAR_RESULT" "2" == 0 <;>
      simp [exG, evalAOr, evalAAnd, evalAUn, evalALeaf, evalLeaf, atomVal, cntUn, cntLeaf, cntAnd,
        h1, h2, h4, h5, c1, c2, hA, hR, Form.operator, Form.cmpValue, CmpOp.tt, cmpHolds]

/-- De Morgan with AutoVar leaves: `!(random(4) == 2 && flag(A))` parses to
`VAR_RESULT != 2 [after random 4] || flag(A) == FALSE`; `random` always runs, the flag is only looked at
when `VAR_RESULT == 2`. Instance of `parse_bool_correct_auto` with a `!( … )`. -/
example (sn : String) (pre : Tok) (rest : List Tok) (fuel : Nat) (hf : 30 ≤ fuel) :
    let inner : AOr :=
      .one (.more (.leaf (.auto (.cmp {} {} "==" .eq ⟨true, "2"⟩) (tk .IDENT "random") (tk .LPAREN "(")
        [tk .INT "4"] [] (tk .RPAREN ")"))) {} (.one (.leaf (.plain (.flagBare (fun _ => {}) false "A")))))
    let g : AOr := .one (.one (.paren true {} {} {} inner))
    let s : PState := { toks := pre :: (printAOr g ++ tk .RPAREN ")" :: rest), eof := tk .EOF "" }
    ∃ t, (parseBooleanExpression envEx sn false false fuel).run s =
          .ok ((t, {}), { s with toks := tk .RPAREN ")" :: rest, nextCmdId := 1 }) ∧
      ∀ (W : World) (ρ : Cmd → String) (h : Sem.Hist),
        Sem.evalCond (sworld W ρ) h t =
          (h ++ [cmdRandom 0],
           !((W.cmp (h.map ρ ++ [ρ (cmdRandom 0)]) "VAR_RESULT" "2" == 0) &&
             W.flag (h.map ρ ++ [ρ (cmdRandom 0)]) "A")) := by
  intro inner g s
  obtain ⟨t, h1, h2⟩ := condition_value_auto envEx sn g pre (tk .RPAREN ")") rest rfl (by decide) s rfl
    rfl fuel (Nat.le_trans (by decide : needAOr g ≤ 30) hf)
  refine ⟨t, h1, fun W ρ h => ?_⟩
  rw [h2 W ρ h]
  have a1 : argsA id [tk .INT "4"] [] = ["4"] := by decide
  have a2 : operandName (avOf envEx (tk .IDENT "random")) ["4"] = "VAR_RESULT" := by decide
  have c1 : cmdA id 0 (tk .IDENT "random") [tk .INT "4"] [] = cmdRandom 0 := by
    simp only [cmdA, a1]; rfl
  have hs : s.nextCmdId = 0 := rfl
  rw [hs]
  cases hR : W.cmp (h.map ρ ++ [ρ (cmdRandom 0)]) "VAR_RESULT" "2" == 0 <;>
    cases hA : W.flag (h.map ρ ++ [ρ (cmdRandom 0)]) "A" <;>
      simp [g, inner, evalAOr, evalAAnd, evalAUn, evalALeaf, evalLeaf, atomVal, a1, a2, c1, hR,
        hA, Form.operator, Form.cmpValue, CmpOp.tt, cmpHolds]

#print axioms parse_bool_tree_auto
#print axioms parse_bool_correct_auto
#print axioms condition_value_auto
#print axioms treeA_shape
#print axioms treeA_preamble_ids
#print axioms fuel_linear_auto
#print axioms extends_C02P
#print axioms extends_C02P_eval
#print axioms extends_C11b

end Pory.C02Q
