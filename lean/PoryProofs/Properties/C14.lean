import PoryModel.Compile
/-
C14 — movement and mart lists are ordered and terminated exactly once.

Proved (emitter side, for every list, with and without line markers):
* the steps emitted for a movement are the source steps up to (excluding) the first
  terminator, followed by exactly one terminator, and nothing else but line markers;
* the same for mart items with `ITEM_NONE`, preceded by `.align 2`;
* the terminators and the multiplier bound are the documented ones (regenerated facts).
The multiplier expansion (`step * N` ↦ N copies, N outside 1..9999 rejected) is in the parser
model (`parseListValue`) and is covered by correspondence (generator `gen_C14`) — see DESIGN.md.
-/
namespace Pory.C14
open Pory Pory.Emit

def stepLit : Line → Option String
  | .step s => some s
  | _ => none

def itemLit : Line → Option String
  | .twoByte s => some s
  | _ => none

def isMarker : Line → Bool
  | .marker .. => true
  | _ => false

theorem marker_filter (o : Opts) (t : Tok) (f : Line → Option String)
    (hf : ∀ n p, f (.marker n p) = none) : (marker o t).filterMap f = [] := by
  unfold marker; split <;> simp [hf]

/-- Steps of a movement block: source order, cut before the first terminator, one terminator. -/
theorem movement_steps (o : Opts) (cmds : List Tok) :
    (emitMovement.steps o cmds).filterMap stepLit =
      (cmds.map (·.lit)).takeWhile (· != Facts.movementTerminator) ++ [Facts.movementTerminator] := by
  induction cmds with
  | nil => simp [emitMovement.steps, stepLit]
  | cons c r ih =>
    unfold emitMovement.steps
    simp only [List.filterMap_append, marker_filter o c stepLit (fun _ _ => rfl), List.nil_append]
    by_cases h : c.lit = Facts.movementTerminator
    · simp [h, stepLit]
    · simp [h, stepLit, ih]

/-- Every line of a movement block is a step or a line marker. -/
theorem movement_only_steps (o : Opts) (cmds : List Tok) :
    ∀ l ∈ emitMovement.steps o cmds, (stepLit l).isSome ∨ isMarker l = true := by
  induction cmds with
  | nil => simp [emitMovement.steps, stepLit]
  | cons c r ih =>
    unfold emitMovement.steps
    intro l hl
    simp only [List.mem_append] at hl
    rcases hl with (hl | hl) | hl
    · right; unfold marker at hl; split at hl <;> simp_all [isMarker]
    · simp at hl; subst hl; left; simp [stepLit]
    · split at hl
      · simp at hl
      · exact ih l hl

/-- The block is: optional marker, the label (exported iff the scope is `global`), the steps. -/
theorem movement_shape (o : Opts) (m : MovementStmt) :
    emitMovement o m = marker o m.tok ++ [.labelDef m.name (m.scope == .GLOBAL)] ++ emitMovement.steps o m.cmds := rfl

/-- Items of a mart: source order (constants already substituted), cut before the first
`ITEM_NONE`, then exactly one `ITEM_NONE`. -/
theorem mart_items (o : Opts) (toks : List Tok) (items : List String) :
    (emitMart.go o toks items).filterMap itemLit =
      items.takeWhile (· != Facts.martTerminator) ++ [Facts.martTerminator] := by
  induction items generalizing toks with
  | nil => simp [emitMart.go, itemLit]
  | cons i r ih =>
    unfold emitMart.go
    by_cases h : i = Facts.martTerminator
    · simp [h, itemLit]
    · simp [h, itemLit, List.filterMap_append, marker_filter o _ itemLit (fun _ _ => rfl), ih]

theorem mart_shape (o : Opts) (tok : Tok) (name : String) (tis : List Tok) (items : List String) (scope : TT) :
    emitMart o tok name tis items scope =
      [.align2] ++ marker o tok ++ [.labelDef name (scope == .GLOBAL)] ++ emitMart.go o tis items := rfl

/-- Exactly one terminator, and it is the last step. -/
theorem movement_one_terminator (o : Opts) (cmds : List Tok) :
    ((emitMovement.steps o cmds).filterMap stepLit).count Facts.movementTerminator = 1 ∧
    ((emitMovement.steps o cmds).filterMap stepLit).getLast? = some Facts.movementTerminator := by
  rw [movement_steps]
  constructor
  · rw [List.count_append]
    have : List.count Facts.movementTerminator
        ((cmds.map (·.lit)).takeWhile (· != Facts.movementTerminator)) = 0 := by
      rw [List.count_eq_zero]
      intro hmem
      have := List.all_eq_true.mp List.all_takeWhile _ hmem
      simp at this
    simp [this]
  · simp

theorem mart_one_terminator (o : Opts) (toks : List Tok) (items : List String) :
    ((emitMart.go o toks items).filterMap itemLit).count Facts.martTerminator = 1 ∧
    ((emitMart.go o toks items).filterMap itemLit).getLast? = some Facts.martTerminator := by
  rw [mart_items]
  constructor
  · rw [List.count_append]
    have : List.count Facts.martTerminator (items.takeWhile (· != Facts.martTerminator)) = 0 := by
      rw [List.count_eq_zero]
      intro hmem
      have := List.all_eq_true.mp List.all_takeWhile _ hmem
      simp at this
    simp [this]
  · simp

/-- The documented terminators and multiplier bound (tie to the Go constants). -/
theorem documented_constants :
    Facts.movementTerminator = "step_end" ∧ Facts.martTerminator = "ITEM_NONE" ∧ Facts.multiplierMax = 9999 := by
  decide

/-- `step * N` contributes exactly N copies (the expansion used by `parseListValue`). -/
theorem replicate_copies (c : Tok) (n : Nat) : (List.replicate n c).length = n ∧ ∀ x ∈ List.replicate n c, x = c := by
  constructor
  · simp
  · intro x hx; exact (List.mem_replicate.mp hx).2

example : (emitMovement.steps {} [{ lit := "walk_up" }, { lit := "step_end" }, { lit := "walk_down" }]).filterMap stepLit
    = ["walk_up", "step_end"] := by decide

end Pory.C14
