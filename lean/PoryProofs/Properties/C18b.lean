import PoryProofs.LexMono
import PoryProofs.Properties.C18
/-
C18 (support) — token positions are monotone, so located errors are well-formed ranges.

All statements are about `lexAll` of the model `PoryModel/Lexer.lean`, for every source.
`≤` on (line, byte column) pairs is spelled out lexicographically.
* `token_positions_monotone` — for `i < j` the `i`-th token starts at or before the `j`-th;
* `token_start_le_end` — every token (all classes, including `STRING`, `RAWSTRING`, `EOF`) starts
  at or before its reported end;
* `token_start_le_later_end` — for `i ≤ j`, token `i` starts at or before the end of token `j`;
* `range_error_ordered` — hence a range error from an earlier token `t1` to a later token `t2`
  (`newRangeParseError t1 t2 msg`) has start ≤ end.
-/
namespace Pory.C18b
open Pory Pory.Lexer Pory.Parser Pory.LexPos Pory.LexMono

/-- Token start positions are monotone along the token sequence. -/
theorem token_positions_monotone (src : List Char) (i j : Nat) (hij : i < j)
    (hj : j < (lexAll src).length) :
    (lexAll src)[i].line < (lexAll src)[j].line ∨
      ((lexAll src)[i].line = (lexAll src)[j].line ∧
        (lexAll src)[i].startChar ≤ (lexAll src)[j].startChar) :=
  List.pairwise_iff_getElem.1 (lexAll_sorted src).2 i j (Nat.lt_trans hij hj) hj hij

/-- Every token starts at or before its reported end. -/
theorem token_start_le_end (src : List Char) (t : Tok) (ht : t ∈ lexAll src) :
    t.line < t.endLine ∨ (t.line = t.endLine ∧ t.startChar ≤ t.endChar) :=
  (lexAll_sorted src).1 t ht

/-- An earlier token starts at or before the end of a later (or the same) token. -/
theorem token_start_le_later_end (src : List Char) (i j : Nat) (hij : i ≤ j)
    (hj : j < (lexAll src).length) :
    (lexAll src)[i].line < (lexAll src)[j].endLine ∨
      ((lexAll src)[i].line = (lexAll src)[j].endLine ∧
        (lexAll src)[i].startChar ≤ (lexAll src)[j].endChar) := by
  have h2 : le2 (start (lexAll src)[j]) (stop (lexAll src)[j]) :=
    (lexAll_sorted src).1 _ (List.getElem_mem hj)
  rcases Nat.lt_or_eq_of_le hij with h | h
  · have h1 : le2 (start (lexAll src)[i]) (start (lexAll src)[j]) :=
      token_positions_monotone src i j h hj
    exact le2_trans h1 h2
  · subst h
    exact h2

/-- A range error from token number `i` to token number `j ≥ i` of a source is an ordered range:
its start (line, column) is not after its end (line, column). -/
theorem range_error_ordered (src : List Char) (i j : Nat) (hij : i ≤ j)
    (hj : j < (lexAll src).length) (msg : String) (e : PErr)
    (he : newRangeParseError (lexAll src)[i] (lexAll src)[j] msg = .err e) :
    e.lineStart < e.lineEnd ∨ (e.lineStart = e.lineEnd ∧ e.charStart ≤ e.charEnd) := by
  obtain ⟨h1, h2, h3, h4⟩ := C18.range_error_lines _ _ msg e he
  rw [h1, h2, h3, h4]
  exact token_start_le_later_end src i j hij hj

/-- the line numbers alone -/
theorem token_lines_monotone (src : List Char) (i j : Nat) (hij : i ≤ j)
    (hj : j < (lexAll src).length) :
    (lexAll src)[i].line ≤ (lexAll src)[j].line ∧ (lexAll src)[i].line ≤ (lexAll src)[j].endLine := by
  have h2 := token_start_le_later_end src i j hij hj
  rcases Nat.lt_or_eq_of_le hij with h | h
  · have h1 := token_positions_monotone src i j h hj
    constructor
    · rcases h1 with h1 | h1 <;> omega
    · rcases h2 with h2 | h2 <;> omega
  · subst h
    exact ⟨Nat.le_refl _, by rcases h2 with h2 | h2 <;> omega⟩

/-- Non-vacuity: a source with a comment, a two-line string, a raw string (whose reported end column is one past
its closing back-quote): start and end positions of all tokens. -/
example :
    (lexAll "( # c\n\"x\ny\" `r`\n)".toList).map (fun t => (t.type, t.line, t.startChar, t.endLine, t.endChar)) =
      [(.LPAREN, 1, 0, 1, 1), (.STRING, 2, 0, 3, 2), (.RAWSTRING, 3, 3, 3, 7), (.RPAREN, 4, 0, 4, 1),
        (.EOF, 4, 1, 4, 1)] := by decide +kernel

end Pory.C18b
