import PoryProofs.StmtParseErrMS
import PoryProofs.StmtEmbedMS
import PoryProofs.Properties.P1b
import PoryProofs.Properties.C15b
import PoryProofs.Properties.P2d
/-
P1c (statement grammar, the last gap) — "parse ∘ print = elaborate" for script bodies whose command arguments
may contain `moves( … )` with (nested) `poryswitch` elements.

About the model `Pory.Parser.parseBlockStatement` and all 13 functions of the mutually recursive statement block
(PoryModel/ParserStmts.lean), `parseCommandStatement` / `cmdArgsLoop` / `parseMovesOperator` and
`parseListValue env (.movement .RPAREN)` / `parsePoryswitchListStatement` / `parsePoryswitchListCases`
(PoryModel/ParserLists.lean).

COVERED GRAMMAR (`P1c.SStmt`, PoryProofs/StmtGrammarMS.lean) = the WHOLE statement grammar of P1b
(PoryProofs/StmtGrammar2.lean: commands, labels, `if` / `elif` / `else`, `while`, `do … while`, `break`,
`continue`, `switch` on `var( … )` or on an auto-var command, statement-level `poryswitch`, conditions
`BoolGen.GOr CLeaf` with auto-var leaves anywhere, multi-token operands / values, `value( … )`) with ONE change:
the command form is `P1c.CmdM` (PoryProofs/CmdGenMS.lean) instead of `CmdGen.CmdF`:
    `name ( a0 , a1 , … )` | `name ( )` | `name`
  whose arguments are lists of `MElem` = every element of P1b (`MElem.base`: plain tokens, balanced
  parentheses, string literals, typed strings, `moves( step [* N] … )`, inline `format( … )`) PLUS
    `MElem.movesS mv lp items rp`  =  `moves ( items )`  with `items : C14b.Items`, the list grammar of
    PoryProofs/ListSwitch.lean / ListSwitchErr.lean: `step`, `step * N`, `,` and
    `poryswitch ( X ) { key : item | key { items } … }` nested to any depth (`P2d.wfItems false`: token types).
  `CmdM` is used in ALL THREE places a command can stand: as a command statement (`SStmt.cmd`), as the command
  of an auto-var condition leaf (`CLeaf.auto` / `CLeaf.autoV`) and as the operand of `switch ( cmd ) { … }`
  (`SStmt.switchA`) — so `if (applymovement(1, moves(poryswitch(V) {…}))) …` is covered as well.
HOW: the proof of P1b is structured so that the command case enters only through the interface of `CmdF`
(`cmdF_run`, `args_not_label`, `name_ident`, `print_head`, `need_le`); PoryProofs/CmdGenMS.lean proves the same
interface for `CmdM` (`cmdM_run`, `args_not_labelM`, …), and PoryProofs/StmtGrammarMS.lean / StmtParseMS.lean /
StmtParseErrMS.lean RE-RUN the definitions and the 13-function induction of StmtGrammar2 / StmtParse2 /
StmtParseErr2 over `CmdM` (the text of those files with `CmdF` replaced by `CmdM`; the files of P1b are not
touched).
NOT COVERED: nothing of the task is left open.  Grammar gaps of P1b (none documented there) are inherited.  Not
done here: plugging `P1c.SStmt` bodies into the whole-FILE grammar of P2 … P2d (the results here stop at the
script statement: `parse_script_print` / `parse_script_reject`).

REFERENCE ELABORATION (`P1c.elabL`, `elabE`, `elaborate`; command level `CmdM.elabC`): as in P1b.  A `movesS`
element contributes the EMPTY string to its argument (patched later with the label of the hoisted movement) and
one `ImpMovement` to the implicit data, in source order among the texts / movements of the command:
  command id, command token, argument position (= number of commas before it),
  steps = `P2d.elItems env items` — for every poryswitch the case selected by the `-s` value of its switch
          (newest entry with that key, else `_`, else — lint parser only — nothing) spliced in place,
          `step * N` expanded to N copies, commas dropped —, script name.
New located errors (`Violation.moves`, `ListViolation`): `P2d.elItems env items = .error e`, i.e.
`poryswitch` although no `-s` was given (on the `poryswitch` token) / the switch is not defined (on its name) /
no case for the value and no `_` (on the `poryswitch` token) — these three with environment errors on —, and
a multiplier that is not a base-0 literal in 1 … 9999 (on the multiplier token).  ALL cases of a poryswitch
are elaborated: a bad multiplier in a case that is NOT selected is an error of the statement.  The FIRST failing
element of a command in source order decides (inline `format( … )` errors of P1b included).

PROVED (every `env`, script name, start token, surrounding state, tail, fuel ≥ `needL b`,
`needL b ≤ 2 * tokens + 1`) — nothing is partial for the covered grammar:
* `parse_command_moves_switch` : `parseCommandStatement` on every written form of a command `c : CmdM`
  = `c.elabC` (window left on the last token of the command, command id counter advanced), every outcome;
  `moves_arg_imp` / `moves_arg_err`: what a `movesS` element contributes;
* `parse_block_elab'` (both halves in one equation), `parse_block_print`, `parse_block_print_tokens`,
  `parse_block_reject`, `parse_block_reject_none`, `parse_block_reject_documented` / `violations_documented`,
  `break_outside_rejected`, `continue_outside_rejected`, `continue_not_last_rejected`, `parse_script_print`,
  `cond_elab` — the statements of P1 / P1b, for the extended grammar;
* `moves_errors_documented` : every error of a `moves( … )` list is a `ListViolation`;
* `extends_P1b` : the surface syntax of P1b embeds (`ofL`, every command `c : CmdF` ↦ `ofF c : CmdM`), the
  embedding commutes with printing, well-formedness and elaboration (statements, implicit data, counters,
  errors), and `P1b.parse_block_elab` with the fuel bound in tokens is the special case `ofL b` of
  `parse_block_elab` — nothing of P1b (hence of P1) is lost; `command_extends_P1b` : the same at command level.

BEHAVIOUR WORTH KNOWING (model = Go):
* Inside `moves( … )` the cases of a nested poryswitch are `}`-closed lists (`ListKind.nested`): a `key :` case
  is exactly ONE element (which may itself be a poryswitch), a `key { … }` case any number.
* A bad multiplier inside an unselected case rejects the command (`exBadMulUnselected`).
* `moves(poryswitch(V) { … })` selecting nothing with the lint parser (environment errors off) hoists an EMPTY
  movement.
-/
namespace Pory.P1c
open Pory Pory.Parser Pory.C02P Pory.C10b Pory.BoolGen Pory.CmdGen Pory.TextValueParse Pory.LeafGen
open Pory.StmtG (Ctx ctxOf)
open Pory.C14b (Items ItemP Cases Item)

/-- **P1c, command level**: `parseCommandStatement` on every written form of a command whose arguments may
contain `moves( … poryswitch … )`. `rest` = the tokens after the command; for the bare form the next token must
not be `(`. -/
theorem parse_command_moves_switch (env : Env) (sn : String) (s : PState) (c : CmdM) (rest : List Tok)
    (hc : c.ok = true) (hrest : ∀ n, c = .bare n → (rest.headD s.eof).type ≠ .LPAREN) (fuel : Nat)
    (hf : c.need ≤ fuel) :
    (parseCommandStatement env sn fuel).run (st s (c.print ++ rest)) =
      match c.elabC env sn (substC s.constants) s.nextCmdId with
      | .error e => .error e
      | .ok r => .ok (r, st (bump s) (c.last :: rest)) :=
  cmdM_run env sn s c rest hc hrest fuel hf

/-- What a `moves( … )` argument contributes when its list can be elaborated: no error, the EMPTY string as its
part of the argument, and ONE implicit movement holding the selected, multiplier-expanded steps. -/
theorem moves_arg_imp (env : Env) (sn : String) (σ : String → String) (cid : Nat) (cmdTok : Tok) (pos : Nat)
    (mv lp : Tok) (items : Items) (rp : Tok) (out : List Tok) (h : P2d.elItems env items = .ok out) :
    melemErr env (.movesS mv lp items rp) = none ∧
    C10c.partE σ (MElem.movesS mv lp items rp).skel = "" ∧
    impOfM env sn cid cmdTok pos (.movesS mv lp items rp) =
      { movements := [{ cmdId := cid, cmdTok := cmdTok, argPos := pos, movements := out, scriptName := sn }] } := by
  simp [melemErr, impOfM, movImp, stepsD, h, MElem.skel, C10c.partE]

/-- … and when it cannot: the located error of the list. -/
theorem moves_arg_err (env : Env) (mv lp : Tok) (items : Items) (rp : Tok) (e : PFail)
    (h : P2d.elItems env items = .error e) : melemErr env (.movesS mv lp items rp) = some e := by
  simp [melemErr, h]

/-- Every error of a `moves( … )` list is one of the four documented ones. -/
theorem moves_errors_documented (env : Env) (items : Items) (e : PFail) (h : P2d.elItems env items = .error e) :
    ListViolation env e :=
  elItems_error env items e h

/-- **P1c, both halves in one equation.** -/
theorem parse_block_elab' (env : Env) (sn : String) (startTok : Tok) (b : List SStmt) (rb : Tok)
    (rest : List Tok) (hwf : SWF b) (hrb : rb.type = .RBRACE) (s : PState)
    (htoks : s.toks = printStmts b ++ rb :: rest) (fuel : Nat) (hfuel : needL b ≤ fuel) :
    (parseBlockStatement env sn startTok fuel [] {}).run s =
      match elabE env sn (ctxOf s) b with
      | .ok (stmts, imp, c') =>
        .ok ((stmts, imp), { s with toks := rb :: rest, nextSid := c'.nextSid, nextCmdId := c'.nextCmdId })
      | .error e => .error e :=
  parse_block_elab env sn startTok b rb rest hwf hrb s htoks fuel hfuel

/-- **P1c, acceptance: parse ∘ print = elaborate** (restated; proved in PoryProofs/StmtParseMS.lean). -/
theorem parse_block_print' (env : Env) (sn : String) (startTok : Tok) (b : List SStmt) (rb : Tok)
    (rest : List Tok) (hwf : SWF b) (hrb : rb.type = .RBRACE) (s : PState)
    (htoks : s.toks = printStmts b ++ rb :: rest) (fuel : Nat) (hfuel : needL b ≤ fuel)
    (stmts : List Stmt) (imp : ImpData) (c' : Ctx)
    (helab : elaborate env sn (ctxOf s) b = some (stmts, imp, c')) :
    (parseBlockStatement env sn startTok fuel [] {}).run s =
      .ok ((stmts, imp), { s with toks := rb :: rest, nextSid := c'.nextSid, nextCmdId := c'.nextCmdId }) ∧
    c'.breakStack = s.breakStack ∧ c'.continueStack = s.continueStack :=
  parse_block_print env sn startTok b rb rest hwf hrb s htoks fuel hfuel stmts imp c' helab

/-- **P1c, rejection** (restated): the parser fails with the located error of the first violation. -/
theorem parse_block_reject' (env : Env) (sn : String) (startTok : Tok) (b : List SStmt) (rb : Tok)
    (rest : List Tok) (hwf : SWF b) (hrb : rb.type = .RBRACE) (s : PState)
    (htoks : s.toks = printStmts b ++ rb :: rest) (fuel : Nat) (hfuel : needL b ≤ fuel)
    (e : PFail) (helab : elabE env sn (ctxOf s) b = .error e) :
    (parseBlockStatement env sn startTok fuel [] {}).run s = .error e :=
  parse_block_reject env sn startTok b rb rest hwf hrb s htoks fuel hfuel e helab

/-- … with the fuel bound stated in tokens (the model's `ParseProgram` starts with `4 * tokens + 50`). -/
theorem parse_block_print_tokens (env : Env) (sn : String) (startTok : Tok) (b : List SStmt) (rb : Tok)
    (rest : List Tok) (hwf : SWF b) (hrb : rb.type = .RBRACE) (s : PState)
    (htoks : s.toks = printStmts b ++ rb :: rest) (fuel : Nat)
    (hfuel : 2 * (printStmts b).length + 1 ≤ fuel)
    (stmts : List Stmt) (imp : ImpData) (c' : Ctx)
    (helab : elaborate env sn (ctxOf s) b = some (stmts, imp, c')) :
    (parseBlockStatement env sn startTok fuel [] {}).run s =
      .ok ((stmts, imp), { s with toks := rb :: rest, nextSid := c'.nextSid, nextCmdId := c'.nextCmdId }) :=
  (parse_block_print env sn startTok b rb rest hwf hrb s htoks fuel (fuel_of_tokens b fuel hfuel)
    stmts imp c' helab).1

/-- `elaborate = none` ⇒ the parser fails, with one of the documented located errors (`Violation env`: those of
P1b and the `ListViolation`s of a `moves( … )` argument). -/
theorem parse_block_reject_documented (env : Env) (sn : String) (startTok : Tok) (b : List SStmt) (rb : Tok)
    (rest : List Tok) (hwf : SWF b) (hrb : rb.type = .RBRACE) (s : PState)
    (htoks : s.toks = printStmts b ++ rb :: rest) (fuel : Nat) (hfuel : needL b ≤ fuel)
    (helab : elaborate env sn (ctxOf s) b = none) :
    ∃ e, Violation env e ∧ (parseBlockStatement env sn startTok fuel [] {}).run s = .error e := by
  obtain ⟨e, he, hr⟩ := parse_block_reject_none env sn startTok b rb rest hwf hrb s htoks fuel hfuel helab
  exact ⟨e, violations_documented env sn _ b e he, hr⟩

/-- A whole `script [(global|local)] Name { body }` statement. -/
theorem parse_script_print (env : Env) (fuel : Nat) (s : PState) (kw : Tok) (md : TopParse.Mod)
    (name lb : Tok) (b : List SStmt) (rb : Tok) (rest : List Tok) (hmd : md.WF)
    (hname : name.type = .IDENT) (hlb : lb.type = .LBRACE) (hwf : SWF b) (hrb : rb.type = .RBRACE)
    (hfuel : needL b ≤ fuel) (stmts : List Stmt) (imp : ImpData) (c' : Ctx)
    (helab : elaborate env name.lit (ctxOf s) b = some (stmts, imp, c')) :
    (parseScriptStatement env fuel).run
        (st s (kw :: (md.toks ++ name :: lb :: (printStmts b ++ rb :: rest)))) =
      .ok (({ tok := kw, name := name.lit, body := stmts,
              scope := md.scope (defaultScopeOf "parseScriptStatement") }, imp),
           { s with toks := rb :: rest, nextSid := c'.nextSid, nextCmdId := c'.nextCmdId }) := by
  have h := (parse_block_print env name.lit lb b rb rest hwf hrb
    (st s (printStmts b ++ rb :: rest)) rfl fuel hfuel stmts imp c' helab).1
  exact C15b.parse_script_statement_gen env fuel s kw md name lb _ hmd hname hlb _ _ h

/-- … and its rejection half: the script statement fails with the located error of the body. -/
theorem parse_script_reject (env : Env) (fuel : Nat) (s : PState) (kw : Tok) (md : TopParse.Mod)
    (name lb : Tok) (b : List SStmt) (rb : Tok) (rest : List Tok) (hmd : md.WF)
    (hname : name.type = .IDENT) (hlb : lb.type = .LBRACE) (hwf : SWF b) (hrb : rb.type = .RBRACE)
    (hfuel : needL b ≤ fuel) (e : PFail) (helab : elabE env name.lit (ctxOf s) b = .error e) :
    (parseScriptStatement env fuel).run
        (st s (kw :: (md.toks ++ name :: lb :: (printStmts b ++ rb :: rest)))) = .error e := by
  have h := parse_block_reject env name.lit lb b rb rest hwf hrb
    (st s (printStmts b ++ rb :: rest)) rfl fuel hfuel e helab
  unfold parseScriptStatement
  simp [TopParse.scope_mod _ s kw md name (lb :: (printStmts b ++ rb :: rest)) hmd (by simp [hname]), hname, hlb, h]

/-- **Conditions** (restated for the extended command form of auto-var leaves). -/
theorem cond_elab (env : Env) (sn : String) (c : SCond) (negated : Bool) (pre rparen : Tok) (rest : List Tok)
    (hrp : rparen.type = .RPAREN) (hwf : swfCond c = true) (s : PState)
    (htoks : s.toks = pre :: (printCond c ++ rparen :: rest)) (fuel : Nat) (hfuel : needCond c ≤ fuel) :
    (parseBooleanExpression env sn false negated fuel).run s =
      match elabOr (CLeaf.res env sn) (substC s.constants) negated c s.nextCmdId with
      | .error e => .error e
      | .ok (t, m, j) => .ok ((t, m), { s with toks := rparen :: rest, nextCmdId := j }) := by
  have h := orF env sn CLeaf.print CLeaf.wf CLeaf.need (CLeaf.res env sn) cleaf_shape (cleaf_run env sn)
    s c negated pre rparen rest fuel hwf hfuel hrp
  have hs : st s (pre :: (printOr CLeaf.print c ++ rparen :: rest)) = s := by
    show st s (pre :: (printCond c ++ rparen :: rest)) = s
    rw [← htoks]; rfl
  rw [hs] at h
  rw [h]
  cases elabOr (CLeaf.res env sn) (substC s.constants) negated c s.nextCmdId with
  | error e => rfl
  | ok v => obtain ⟨t, m, j⟩ := v; rfl

/-- **Nothing of P1b is lost, command level.** -/
theorem command_extends_P1b (env : Env) (sn : String) (σ : String → String) (cid : Nat) (c : CmdF) :
    (ofF c).print = c.print ∧ (ofF c).ok = c.ok ∧ (ofF c).need = c.need ∧ (ofF c).last = c.last ∧
    (ofF c).elabC env sn σ cid = c.elabC env sn σ cid :=
  ⟨ofF_print c, ofF_ok c, ofF_need c, ofF_last c, ofF_elabC env sn σ cid c⟩

/-- **Nothing of P1b is lost.** The syntax of P1b embeds into the syntax of P1c; printing, the token-type side
conditions and the reference elaboration (statements, implicit data, counters, located errors) commute with the
embedding; and P1b's main equation (fuel bound in tokens) is the instance `ofL b` of `parse_block_elab`. -/
theorem extends_P1b (env : Env) (sn : String) (b : List P1b.SStmt) :
    printStmts (ofL b) = P1b.printStmts b ∧ (SWF (ofL b) ↔ P1b.SWF b) ∧
    (∀ c : Ctx, elabE env sn c (ofL b) = P1b.elabE env sn c b) ∧
    (∀ c : Ctx, elaborate env sn c (ofL b) = P1b.elaborate env sn c b) ∧
    ∀ (startTok rb : Tok) (rest : List Tok) (s : PState) (fuel : Nat), P1b.SWF b → rb.type = .RBRACE →
      s.toks = P1b.printStmts b ++ rb :: rest → 2 * (P1b.printStmts b).length + 1 ≤ fuel →
      (parseBlockStatement env sn startTok fuel [] {}).run s =
        match P1b.elabE env sn (ctxOf s) b with
        | .ok (stmts, imp, c') =>
          .ok ((stmts, imp), { s with toks := rb :: rest, nextSid := c'.nextSid, nextCmdId := c'.nextCmdId })
        | .error e => .error e :=
  ⟨ofL_print b, by unfold SWF P1b.SWF; rw [ofL_swf], fun c => ofL_elabE env sn c b,
    fun c => by unfold elaborate P1b.elaborate; rw [ofL_elabE],
    fun startTok rb rest s fuel hwf hrb htoks hfuel =>
      p1b_special_case env sn startTok b rb rest hwf hrb s htoks fuel hfuel⟩

/-! ### non-vacuity -/
section Example

private def lp : Tok := tk .LPAREN "("
private def rp : Tok := tk .RPAREN ")"
private def lb : Tok := tk .LBRACE "{"
private def rb : Tok := tk .RBRACE "}"
private def colon : Tok := tk .COLON ":"
private def comma : Tok := tk .COMMA ","
private def step (n : String) : ItemP := .plain (.step (tk .IDENT n))
private def tokM (t : TT) (l : String) : MElem := .base (.base (.tok (tk t l)))
/-- the `poryswitch` token of the examples, with a position -/
private def psw : Tok := tkp ⟨3, 33, 33, 3, 43, 43⟩ .PORYSWITCH "poryswitch"

/-- `walk_up poryswitch(V) { A: walk_left * 2 _ { face_down } } walk_down` -/
def exItems : Items :=
  .cons (step "walk_up")
    (.cons (.sw psw lp (tk .IDENT "V") rp lb
        (.colon (tk .IDENT "A") colon (.plain (.stepMul (tk .IDENT "walk_left") (tk .MUL "*") (tk .INT "2")))
          (.brace (tk .IDENT "_") lb (.cons (step "face_down") .nil) rb .nil)) rb)
      (.cons (step "walk_down") .nil))

/-- `applymovement(1, moves(walk_up poryswitch(V) { A: walk_left * 2 _ { face_down } } walk_down))` -/
def exCmd : CmdM :=
  .args (tk .IDENT "applymovement") lp [tokM .INT "1"]
    [(comma, [.movesS (tk .MOVES "moves") lp exItems rp])] rp

def exBody : List SStmt := [.cmd exCmd]

-- sanity check (evaluation, not a proof): the printed tokens are what the model lexer produces
#guard (Lexer.lexAll ("applymovement(1, moves(walk_up poryswitch(V) { A: walk_left * 2 _ { face_down } } walk_down)) }"
    ).toList).map (fun t => (t.type, t.lit)) ==
  (printStmts exBody ++ [rb, tk .EOF ""]).map (fun t => (t.type, t.lit))

theorem exBody_wf : SWF exBody := by decide

/-- `-s V=A` -/
def envA : Env := { switches := [("V", "A")] }
/-- `-s V=B` (no case `B`: the `_` case) -/
def envB : Env := { switches := [("V", "B")] }

/-- the state at the `{` of a script body: seven command ids used -/
def exState : PState := { toks := printStmts exBody ++ [rb], eof := tk .EOF "", nextCmdId := 7 }

/-- The command node: the `moves( … )` argument is EMPTY (patched later with the label of the hoisted movement). -/
def exAst : List Stmt :=
  [.cmd { id := 7, tok := tk .IDENT "applymovement", name := "applymovement", args := ["1", ""] }]

/-- The hoisted movement: command id 7, argument 1, the given steps, script `Main`. -/
def exImp (steps : List String) : ImpData :=
  { movements := [{ cmdId := 7, cmdTok := tk .IDENT "applymovement", argPos := 1,
                    movements := steps.map (tk .IDENT), scriptName := "Main" }] }

theorem exBody_elab_A :
    elaborate envA "Main" (ctxOf exState) exBody =
      some (exAst, exImp ["walk_up", "walk_left", "walk_left", "walk_down"], { nextCmdId := 8 }) := by
  rfl

theorem exBody_elab_B :
    elaborate envB "Main" (ctxOf exState) exBody =
      some (exAst, exImp ["walk_up", "face_down", "walk_down"], { nextCmdId := 8 }) := by
  rfl

/-- what the `decide` examples look at: the commands (id, name, arguments), the implicit movements (command id,
command name, argument position, steps, script name), the number of implicit texts, the number of tokens left,
the next command id -/
structure RV where
  cmds : List (Nat × String × List String)
  moves : List (Nat × String × Nat × List String × String)
  ntexts : Nat
  left : Nat
  nextCmdId : Nat
  deriving DecidableEq, Repr

def resView (r : Except PFail ((List Stmt × ImpData) × PState)) : Option RV :=
  r.toOption.map fun p =>
    { cmds := p.1.1.filterMap (fun | .cmd c => some (c.id, c.name, c.args) | _ => none)
      moves := p.1.2.movements.map (fun m => (m.cmdId, m.cmdTok.lit, m.argPos, m.movements.map (·.lit), m.scriptName))
      ntexts := p.1.2.texts.length
      left := p.2.toks.length
      nextCmdId := p.2.nextCmdId }

/-- **Non-vacuity, by evaluation of the parser model** (`decide`), `-s V=A` and `-s V=B`. -/
theorem exBody_parsed_decide_A :
    resView ((parseBlockStatement envA "Main" lb 100 [] {}).run exState) =
      some ⟨[(7, "applymovement", ["1", ""])],
            [(7, "applymovement", 1, ["walk_up", "walk_left", "walk_left", "walk_down"], "Main")], 0, 1, 8⟩ := by
  decide

theorem exBody_parsed_decide_B :
    resView ((parseBlockStatement envB "Main" lb 100 [] {}).run exState) =
      some ⟨[(7, "applymovement", ["1", ""])],
            [(7, "applymovement", 1, ["walk_up", "face_down", "walk_down"], "Main")], 0, 1, 8⟩ := by
  decide

/-- **Non-vacuity, by the theorem** (any start token, any sufficient fuel): under `-s V=A` the `A` case with its
multiplier expanded is spliced between `walk_up` and `walk_down` … -/
theorem exBody_parsed_theorem_A (startTok : Tok) (fuel : Nat) (hf : 100 ≤ fuel) :
    (parseBlockStatement envA "Main" startTok fuel [] {}).run exState =
      .ok ((exAst, exImp ["walk_up", "walk_left", "walk_left", "walk_down"]),
           { exState with toks := [rb], nextCmdId := 8 }) :=
  (parse_block_print envA "Main" startTok exBody rb [] exBody_wf rfl exState rfl fuel
    (Nat.le_trans (by decide) hf) exAst _ _ exBody_elab_A).1

/-- … under `-s V=B` the `_` case. -/
theorem exBody_parsed_theorem_B (startTok : Tok) (fuel : Nat) (hf : 100 ≤ fuel) :
    (parseBlockStatement envB "Main" startTok fuel [] {}).run exState =
      .ok ((exAst, exImp ["walk_up", "face_down", "walk_down"]),
           { exState with toks := [rb], nextCmdId := 8 }) :=
  (parse_block_print envB "Main" startTok exBody rb [] exBody_wf rfl exState rfl fuel
    (Nat.le_trans (by decide) hf) exAst _ _ exBody_elab_B).1

/-- The same body inside `script Main { … }`, both `-s` values. -/
example (fuel : Nat) (hf : 100 ≤ fuel) :
    (parseScriptStatement envA fuel).run
        (st exState (tk .SCRIPT "script" :: tk .IDENT "Main" :: lb :: (printStmts exBody ++ [rb]))) =
      .ok (({ tok := tk .SCRIPT "script", name := "Main", body := exAst, scope := .GLOBAL },
            exImp ["walk_up", "walk_left", "walk_left", "walk_down"]),
           { exState with toks := [rb], nextCmdId := 8 }) :=
  parse_script_print envA fuel exState (tk .SCRIPT "script") .absent (tk .IDENT "Main") lb exBody rb []
    trivial rfl rfl exBody_wf rfl (Nat.le_trans (by decide) hf) exAst _ _ exBody_elab_A

example (fuel : Nat) (hf : 100 ≤ fuel) :
    (parseScriptStatement envB fuel).run
        (st exState (tk .SCRIPT "script" :: tk .IDENT "Main" :: lb :: (printStmts exBody ++ [rb]))) =
      .ok (({ tok := tk .SCRIPT "script", name := "Main", body := exAst, scope := .GLOBAL },
            exImp ["walk_up", "face_down", "walk_down"]),
           { exState with toks := [rb], nextCmdId := 8 }) :=
  parse_script_print envB fuel exState (tk .SCRIPT "script") .absent (tk .IDENT "Main") lb exBody rb []
    trivial rfl rfl exBody_wf rfl (Nat.le_trans (by decide) hf) exAst _ _ exBody_elab_B

/-- The command alone, through `parse_command_moves_switch`. -/
example (fuel : Nat) (hf : 40 ≤ fuel) :
    (parseCommandStatement envA "Main" fuel).run (st exState (exCmd.print ++ [rb])) =
      .ok (({ id := 7, tok := tk .IDENT "applymovement", name := "applymovement", args := ["1", ""] },
            exImp ["walk_up", "walk_left", "walk_left", "walk_down"]),
           st { exState with nextCmdId := 8 } [rp, rb]) := by
  rw [parse_command_moves_switch envA "Main" exState exCmd [rb] (by decide) (fun n h => by cases h) fuel
    (Nat.le_trans (by decide) hf)]
  rfl

/-- The whole file `script Main { applymovement(1, moves( … )) }` through the model's `parseTokens`
(evaluation): the movement is hoisted to a top-level movement statement with the selected steps. -/
example :
    (parseTokens envA (tk .SCRIPT "script" :: tk .IDENT "Main" :: lb :: (printStmts exBody ++ [rb, tk .EOF ""]))
      ).toOption.map (fun p => p.tops.filterMap (fun | .movement m => some (m.cmds.map (·.lit)) | _ => none)) =
      some [["walk_up", "walk_left", "walk_left", "walk_down"]] := by decide

/-! the error side -/

/-- No `-s` option at all (environment errors on): located on the `poryswitch` token inside `moves( … )`. -/
example (startTok : Tok) :
    (parseBlockStatement {} "Main" startTok 100 [] {}).run exState =
      .error (.err { lineStart := 3, lineEnd := 3, charStart := 33, utf8Start := 33, charEnd := 43, utf8End := 43,
                     msg := "poryswitch used, but no compile switches were specified with the '-s' option" }) :=
  parse_block_reject {} "Main" startTok exBody rb [] exBody_wf rfl exState rfl 100 (by decide) _ rfl

/-- The switch `V` is not defined: located on its name. -/
example (startTok : Tok) :
    (parseBlockStatement { switches := [("W", "1")] } "Main" startTok 100 [] {}).run exState =
      .error (newParseError (tk .IDENT "V") "no poryswitch for 'V' was specified with the '-s' option") :=
  parse_block_reject _ "Main" startTok exBody rb [] exBody_wf rfl exState rfl 100 (by decide) _ rfl

/-- `applymovement(1, moves(poryswitch(V) { A: walk_left * 0  B: walk_right }))` -/
def exBadMulUnselected : List SStmt :=
  [.cmd (.args (tk .IDENT "applymovement") lp [tokM .INT "1"]
    [(comma, [.movesS (tk .MOVES "moves") lp
      (.cons (.sw psw lp (tk .IDENT "V") rp lb
        (.colon (tk .IDENT "A") colon
          (.plain (.stepMul (tk .IDENT "walk_left") (tk .MUL "*") (tkp ⟨3, 60, 60, 3, 61, 61⟩ .INT "0")))
          (.colon (tk .IDENT "B") colon (step "walk_right") .nil)) rb) .nil) rp])] rp)]

/-- `applymovement(1, moves(poryswitch(V) { B: walk_right }))` -/
def exOnlyB : List SStmt :=
  [.cmd (.args (tk .IDENT "applymovement") lp [tokM .INT "1"]
    [(comma, [.movesS (tk .MOVES "moves") lp
      (.cons (.sw psw lp (tk .IDENT "V") rp lb
        (.colon (tk .IDENT "B") colon (step "walk_right") .nil) rb) .nil) rp])] rp)]

/-- No case for `V=C` and no `_`: located on the `poryswitch` token … -/
example (startTok : Tok) :
    (parseBlockStatement { switches := [("V", "C")] } "Main" startTok 100 [] {}).run
        { toks := printStmts exOnlyB ++ [rb], eof := tk .EOF "" } =
      .error (newParseError psw "no poryswitch case found for 'V=C', which was specified with the '-s' option") :=
  parse_block_reject _ "Main" startTok exOnlyB rb [] (by decide) rfl _ rfl 100 (by decide) _ rfl

/-- … and a bad multiplier in the case that is NOT selected (`-s V=B`) rejects the command all the same: located
on the multiplier token. -/
example (startTok : Tok) :
    (parseBlockStatement envB "Main" startTok 100 [] {}).run
        { toks := printStmts exBadMulUnselected ++ [rb], eof := tk .EOF "" } =
      .error (newParseError (tkp ⟨3, 60, 60, 3, 61, 61⟩ .INT "0")
        "movement mulplier must be a positive integer, but got '0' instead") :=
  parse_block_reject envB "Main" startTok exBadMulUnselected rb [] (by decide) rfl _ rfl 100 (by decide) _ rfl

/-- … the same by evaluation of the model. -/
example :
    (parseBlockStatement envB "Main" lb 100 [] {}).run
        { toks := printStmts exBadMulUnselected ++ [rb], eof := tk .EOF "" } =
      .error (newParseError (tkp ⟨3, 60, 60, 3, 61, 61⟩ .INT "0")
        "movement mulplier must be a positive integer, but got '0' instead") := by
  rfl

/-- With the lint parser (environment errors off) and no `-s`: nothing is selected, an EMPTY movement is
hoisted. -/
example (startTok : Tok) (fuel : Nat) (hf : 100 ≤ fuel) :
    (parseBlockStatement { envErrors := false } "Main" startTok fuel [] {}).run
        { toks := printStmts exOnlyB ++ [rb], eof := tk .EOF "" } =
      .ok (([.cmd { id := 0, tok := tk .IDENT "applymovement", name := "applymovement", args := ["1", ""] }],
            { movements := [{ cmdId := 0, cmdTok := tk .IDENT "applymovement", argPos := 1, movements := [],
                              scriptName := "Main" }] }),
           { toks := [rb], eof := tk .EOF "", nextCmdId := 1 }) :=
  (parse_block_print _ "Main" startTok exOnlyB rb [] (by decide) rfl _ rfl fuel
    (Nat.le_trans (by decide) hf) _ _ { nextCmdId := 1 } rfl).1

/-! nested in the statement grammar: `while (flag(F)) { poryswitch (V) { A { applymovement(1, moves( … )) } _: foo } }`
and `if (applymovement(2, moves(poryswitch(V) { A: face_up _: face_left }))) { bar }` with `applymovement` configured
as auto-var command -/

def exNested : List SStmt :=
  [.while_ (tk .WHILE "while") lp (.one (.one (.leaf (.plain (.flagBare (fun _ => {}) false "F"))))) rp lb
    [.pory (tk .PORYSWITCH "poryswitch") lp (tk .IDENT "V") rp lb
      [.brace (tk .IDENT "A") lb [.cmd exCmd] rb,
       .colon (tk .IDENT "_") colon (.cmd (.bare (tk .IDENT "foo")))] rb] rb,
   .ite (tk .IF "if") lp
    (.one (.one (.leaf (.auto (.bare) (.args (tk .IDENT "applymovement") lp [tokM .INT "2"]
      [(comma, [.movesS (tk .MOVES "moves") lp
        (.cons (.sw psw lp (tk .IDENT "V") rp lb
          (.colon (tk .IDENT "A") colon (step "face_up")
            (.colon (tk .IDENT "_") colon (step "face_left") .nil)) rb) .nil) rp])] rp))))) rp lb
    [.cmd (.bare (tk .IDENT "bar"))] rb [] .none]

#guard (Lexer.lexAll ("while (flag(F)) { poryswitch (V) { A { applymovement(1, moves(walk_up poryswitch(V) " ++
    "{ A: walk_left * 2 _ { face_down } } walk_down)) } _: foo } } " ++
    "if (applymovement(2, moves(poryswitch(V) { A: face_up _: face_left }))) { bar } }").toList).map
    (fun t => (t.type, t.lit)) ==
  (printStmts exNested ++ [rb, tk .EOF ""]).map (fun t => (t.type, t.lit))

def envAuto (v : String) : Env :=
  { switches := [("V", v)], autoVars := [("applymovement", { varName := "VAR_RESULT" })] }

/-- Under `-s V=A`: the statement-level poryswitch selects the `applymovement` (id 0; `foo` got id 1 all the
same), the condition command gets id 2 and hoists `face_up`; both movements in source order. -/
example (startTok : Tok) (fuel : Nat) (hf : 200 ≤ fuel) :
    ∃ stmts imp, (parseBlockStatement (envAuto "A") "Main" startTok fuel [] {}).run
        { toks := printStmts exNested ++ [rb], eof := tk .EOF "" } =
      .ok ((stmts, imp), { toks := [rb], eof := tk .EOF "", nextSid := 1, nextCmdId := 4 }) ∧
      imp.movements.map (fun m => (m.cmdId, m.argPos, m.movements.map (·.lit))) =
        [(0, 1, ["walk_up", "walk_left", "walk_left", "walk_down"]), (2, 1, ["face_up"])] :=
  ⟨_, _, (parse_block_print (envAuto "A") "Main" startTok exNested rb [] (by decide) rfl _ rfl fuel
    (Nat.le_trans (by decide) hf) _ _ { nextSid := 1, nextCmdId := 4 } rfl).1, by decide⟩

/-- Under `-s V=B`: `foo` is selected (the movement of the unselected `applymovement` is dropped with its case),
the condition hoists `face_left`. -/
example (startTok : Tok) (fuel : Nat) (hf : 200 ≤ fuel) :
    ∃ stmts imp, (parseBlockStatement (envAuto "B") "Main" startTok fuel [] {}).run
        { toks := printStmts exNested ++ [rb], eof := tk .EOF "" } =
      .ok ((stmts, imp), { toks := [rb], eof := tk .EOF "", nextSid := 1, nextCmdId := 4 }) ∧
      imp.movements.map (fun m => (m.cmdId, m.argPos, m.movements.map (·.lit))) = [(2, 1, ["face_left"])] :=
  ⟨_, _, (parse_block_print (envAuto "B") "Main" startTok exNested rb [] (by decide) rfl _ rfl fuel
    (Nat.le_trans (by decide) hf) _ _ { nextSid := 1, nextCmdId := 4 } rfl).1, by decide⟩

/-- P1b's example body (auto-var leaves inside `&&` / `||`, inline `format( … )`) through the embedding. -/
example : printStmts (ofL P1b.exBody) = P1b.printStmts P1b.exBody ∧ SWF (ofL P1b.exBody) :=
  ⟨(extends_P1b {} "" P1b.exBody).1, (extends_P1b {} "" P1b.exBody).2.1.mpr P1b.exBody_wf⟩

end Example

#print axioms parse_command_moves_switch
#print axioms moves_arg_imp
#print axioms moves_arg_err
#print axioms moves_errors_documented
#print axioms parse_block_elab'
#print axioms parse_block_print'
#print axioms parse_block_reject'
#print axioms parse_block_print_tokens
#print axioms parse_block_reject_none
#print axioms parse_block_reject_documented
#print axioms violations_documented
#print axioms parse_script_print
#print axioms parse_script_reject
#print axioms cond_elab
#print axioms extends_P1b
#print axioms command_extends_P1b
#print axioms break_outside_rejected
#print axioms continue_outside_rejected
#print axioms continue_not_last_rejected
#print axioms exBody_parsed_decide_A
#print axioms exBody_parsed_theorem_A

end Pory.P1c
