import PorySpec.Impl
import PoryProofs.SwitchLemmas
/-
Forward (plus-)simulation between the source machine `sstep` and the chunk-graph machine `gstep`
(`PorySpec/Sem.lean`) under the compilation relation `Impl` (`PorySpec/Impl.lean`).
Everything holds for every world `w`, chunk table `G` and context `cx`; no `sorry`, no extra
hypotheses beyond those shown.

* `cond_sim`   : `ImplCond G e c t f → Star w G (.next ⟨e,0,h⟩) (match evalCond w h c with
                  | (h', true) => .next ⟨t,0,h'⟩ | (h', false) => goto f h')`
* `header_sim` : the same through a loop header chunk (`HeaderOK`, `evalOpt`)
* `pop_sim`    : `KImpl G cx ret K → ∃ rg, Star w G (goto ret h) rg ∧ Match G cx (popK w h K) rg`
* `kimpl_unwind_break`    : `KImpl G cx ret K → unwindBreak sid K = some K' → KImpl G cx (cx.brk sid) K'`
* `kimpl_unwind_continue` : `KImpl G cx ret K → unwindContinue sid K = some (f, K') →
                  ContTarget G cx sid f K'` (header for `whileF`, body start for `doF`)
* `arms_sim`   : if / elif chains (`evalElifs` against `entries` / `bodies` / `armFail`)
* `switch_branch_correct` : the heart of C03 (list lemmas in `PoryProofs/SwitchLemmas.lean`)
* `sim`        : `R G cx s g → StepScoped s → ∃ rg, Plus w G g rg ∧ Match G cx (sstep w s) rg`
                 — all statement forms (cmd incl. end/return/goto and `endLast`, label, if/elif/else,
                 while, bare while, do…while, break, continue, both switch constructors).
Non-vacuity examples for `sim`, `cond_sim`, `switch_branch_correct`: `PoryProofs/SimExample.lean`
(they need `PoryProofs/Scoped.lean`, which imports this file).  Run-level corollaries:
`PoryProofs/Properties/C01.lean`.
-/
namespace Pory.Sem
open Pory Pory.Emit

variable (w : SWorld) (G : List Chunk) (cx : Ctx)

/-! ### Star / Plus -/

theorem Star.trans {a b c : Res GCfg} (h1 : Star w G a b) (h2 : Star w G b c) : Star w G a c := by
  induction h1 with
  | refl => exact h2
  | step _ ih => exact .step (ih h2)

theorem jump_step {k d : Nat} {h : Hist} (hj : jumpChunk G k d) :
    gstep w G ⟨k, 0, h⟩ = .next ⟨d, 0, h⟩ := by
  obtain ⟨ch, hG, hs, hb⟩ := hj
  simp [gstep, hG, hs, hb]

theorem getElem?_len_none {α} (l : List α) (o : Nat) (h : l.length = o) : l[o]? = none := by
  subst h; simp

/-! ### 1. conditions -/

theorem cond_sim {c : BoolExpr} : ∀ {e t f h}, ImplCond G e c t f →
    Star w G (.next ⟨e, 0, h⟩)
      (match evalCond w h c with
        | (h', true) => .next ⟨t, 0, h'⟩
        | (h', false) => goto f h') := by
  induction c with
  | leaf l =>
    intro e t f h hi
    obtain ⟨ch, hG, hs, hb⟩ := hi
    refine .step ?_
    simp only [gstep, hG, hs, hb, evalCond]
    by_cases hw : w.test (runPre h l.preamble) l <;> simp [hw] <;> exact .refl _
  | bin a op b iha ihb =>
    intro e t f h hi
    simp only [ImplCond] at hi
    rcases hi with ⟨hop, s, eb, ha, hj, hb⟩ | ⟨hop, fc, eb, ha, hj, hb⟩
    · subst hop
      have h1 := iha (h := h) ha
      simp only [evalCond, beq_self_eq_true, if_true]
      rcases hev : evalCond w h a with ⟨h1', ba⟩
      rw [hev] at h1
      cases ba with
      | true =>
        simp only at h1 ⊢
        refine h1.trans w G (.step ?_)
        rw [jump_step w G hj]
        exact ihb hb
      | false => simpa using h1
    · subst hop
      have h1 := iha (h := h) ha
      have hne : (TT.OR == TT.AND) = false := by decide
      simp only [evalCond, hne]
      rcases hev : evalCond w h a with ⟨h1', ba⟩
      rw [hev] at h1
      cases ba with
      | true => simpa using h1
      | false =>
        simp only [goto] at h1 ⊢
        refine h1.trans w G (.step ?_)
        rw [jump_step w G hj]
        exact ihb hb

theorem header_sim {hd : Nat} {c : Option BoolExpr} {bId : Nat} {post : Option Nat} {h : Hist}
    (hh : HeaderOK G hd c bId post) :
    Star w G (.next ⟨hd, 0, h⟩)
      (match evalOpt w h c with
        | (h', true) => .next ⟨bId, 0, h'⟩
        | (h', false) => goto post h') := by
  cases c with
  | none =>
    simp only [HeaderOK] at hh
    simp only [evalOpt]
    exact .step (by rw [jump_step w G hh]; exact .refl _)
  | some cc =>
    obtain ⟨e0, hj, hc⟩ := hh
    simp only [evalOpt]
    exact .step (by rw [jump_step w G hj]; exact cond_sim w G hc)

/-! ### 3. popping the continuation stack -/

theorem pop_sim : ∀ {K : List Frame} {ret : Option Nat} {h : Hist}, KImpl G cx ret K →
    ∃ rg, Star w G (goto ret h) rg ∧ Match G cx (popK w h K) rg := by
  intro K
  induction K with
  | nil =>
    intro ret h hk
    simp only [KImpl] at hk
    subst hk
    exact ⟨_, .refl _, by simp [popK, goto, Match]⟩
  | cons f K ih =>
    intro ret h hk
    cases f with
    | seq rest =>
      obtain ⟨p, ret', hr, hi, hk'⟩ := hk
      subst hr
      exact ⟨_, .refl _, by simp only [popK, goto, Match, R]; exact ⟨trivial, ret', hi, hk'⟩⟩
    | whileF sid c b =>
      obtain ⟨hd, post, bId, hr, hb, hc, hi, hh, hk'⟩ := hk
      subst hr
      have hs := header_sim w G (h := h) hh
      simp only [popK, goto]
      rcases hev : evalOpt w h c with ⟨h', bb⟩
      rw [hev] at hs
      cases bb with
      | true =>
        refine ⟨_, hs, ?_⟩
        simp only [Match, R]
        exact ⟨trivial, some hd, hi, hd, post, bId, rfl, hb, hc, hi, hh, hk'⟩
      | false =>
        obtain ⟨rg, hst, hm⟩ := ih (h := h') hk'
        exact ⟨rg, hs.trans w G hst, hm⟩
    | doF sid c b =>
      obtain ⟨hd, post, bId, hr, hb, hc, hi, hh, hk'⟩ := hk
      subst hr
      have hs := header_sim w G (h := h) hh
      simp only [popK, goto]
      simp only [evalOpt] at hs
      rcases hev : evalCond w h c with ⟨h', bb⟩
      rw [hev] at hs
      cases bb with
      | true =>
        refine ⟨_, hs, ?_⟩
        simp only [Match, R]
        exact ⟨trivial, some hd, hi, hd, post, bId, rfl, hb, hc, hi, hh, hk'⟩
      | false =>
        obtain ⟨rg, hst, hm⟩ := ih (h := h') hk'
        exact ⟨rg, hs.trans w G hst, hm⟩
    | switchF sid =>
      obtain ⟨_, hk'⟩ := hk
      simp only [popK]
      exact ih hk'

theorem kimpl_push {rest : List Stmt} {K : List Frame} {post ret : Option Nat} {p : Nat}
    (hp : PostOK rest ret post p)
    (h3 : rest ≠ [] → Impl G cx p 0 rest ret) (hk : KImpl G cx ret K) :
    KImpl G cx post (pushSeq rest K) := by
  cases rest with
  | nil => simp only [pushSeq]; rw [hp.last rfl]; exact hk
  | cons s r =>
    simp only [pushSeq, KImpl]
    exact ⟨p, ret, hp.more (by simp), h3 (by simp), hk⟩

/-! ### 4. break / continue -/

theorem kimpl_unwind_break {sid : Nat} : ∀ {K : List Frame} {ret : Option Nat} {K'},
    KImpl G cx ret K → unwindBreak sid K = some K' → KImpl G cx (cx.brk sid) K' := by
  intro K
  induction K with
  | nil => intro ret K' _ hu; simp [unwindBreak] at hu
  | cons fr K ih =>
    intro ret K' hk hu
    cases fr with
    | seq rest =>
      obtain ⟨p, ret', _, _, hk'⟩ := hk
      exact ih hk' (by simpa [unwindBreak] using hu)
    | whileF s c b =>
      obtain ⟨hd, post, bId, hr, hb, hc, hi, hh, hk'⟩ := hk
      simp only [unwindBreak] at hu
      by_cases hs : s = sid
      · simp only [hs, if_true, Option.some.injEq] at hu
        subst hu; subst hs
        exact hb ▸ hk'
      · simp only [hs, if_false] at hu
        exact ih hk' hu
    | doF s c b =>
      obtain ⟨hd, post, bId, hr, hb, hc, hi, hh, hk'⟩ := hk
      simp only [unwindBreak] at hu
      by_cases hs : s = sid
      · simp only [hs, if_true, Option.some.injEq] at hu
        subst hu; subst hs
        exact hb ▸ hk'
      · simp only [hs, if_false] at hu
        exact ih hk' hu
    | switchF s =>
      obtain ⟨hb, hk'⟩ := hk
      simp only [unwindBreak] at hu
      by_cases hs : s = sid
      · simp only [hs, if_true, Option.some.injEq] at hu
        subst hu; subst hs
        exact hb ▸ hk'
      · simp only [hs, if_false] at hu
        exact ih hk' hu

/-- What the `continue` target implements: for a `while` frame the header chunk (the frame is
re-tested), for a `do…while` frame the start of the body. -/
def ContTarget (G : List Chunk) (cx : Ctx) (sid : Nat) (f : Frame) (K' : List Frame) : Prop :=
  match f with
  | .doF s c b => ∃ bId hd, cx.cont sid = some bId ∧ Impl G cx bId 0 b (some hd) ∧
      KImpl G cx (some hd) (.doF s c b :: K')
  | f => KImpl G cx (cx.cont sid) (f :: K')

theorem kimpl_unwind_continue {sid : Nat} : ∀ {K : List Frame} {ret : Option Nat} {f K'},
    KImpl G cx ret K → unwindContinue sid K = some (f, K') → ContTarget G cx sid f K' := by
  intro K
  induction K with
  | nil => intro ret f K' _ hu; simp [unwindContinue] at hu
  | cons fr K ih =>
    intro ret f K' hk hu
    cases fr with
    | seq rest =>
      obtain ⟨p, ret', _, _, hk'⟩ := hk
      exact ih hk' (by simpa [unwindContinue] using hu)
    | whileF s c b =>
      obtain ⟨hd, post, bId, hr, hb, hc, hi, hh, hk'⟩ := hk
      simp only [unwindContinue] at hu
      by_cases hs : s = sid
      · simp only [hs, if_true, Option.some.injEq, Prod.mk.injEq] at hu
        obtain ⟨rfl, rfl⟩ := hu
        subst hs
        simp only [ContTarget]
        rw [hc]
        exact ⟨hd, post, bId, rfl, hb, hc, hi, hh, hk'⟩
      · simp only [hs, if_false] at hu
        exact ih hk' hu
    | doF s c b =>
      obtain ⟨hd, post, bId, hr, hb, hc, hi, hh, hk'⟩ := hk
      simp only [unwindContinue] at hu
      by_cases hs : s = sid
      · simp only [hs, if_true, Option.some.injEq, Prod.mk.injEq] at hu
        obtain ⟨rfl, rfl⟩ := hu
        subst hs
        simp only [ContTarget]
        exact ⟨bId, hd, hc, hi, hd, post, bId, rfl, hb, hc, hi, hh, hk'⟩
      · simp only [hs, if_false] at hu
        exact ih hk' hu
    | switchF s =>
      obtain ⟨hb, hk'⟩ := hk
      simp only [unwindContinue] at hu
      exact ih hk' hu

/-! ### helper lemmas for single steps -/

theorem nil_step {k o : Nat} {ret : Option Nat} {h : Hist}
    (hi : Impl G cx k o [] ret) : gstep w G ⟨k, o, h⟩ = goto ret h := by
  cases hi with
  | @nil _ _ _ ch hG hl hb hr hu =>
    cases ret with
    | none => simp [gstep, hG, getElem?_len_none _ _ hl, hb, hr, hu, goto]
    | some r => simp [gstep, hG, getElem?_len_none _ _ hl, hb, hr, goto]

theorem after_false {rest : List Stmt} {K : List Frame} {post ret : Option Nat} {p : Nat} {h : Hist}
    (hp : PostOK rest ret post p)
    (h3 : rest ≠ [] → Impl G cx p 0 rest ret) (hk : KImpl G cx ret K) :
    ∃ rg, Star w G (goto post h) rg ∧ Match G cx (contRest w h rest K) rg := by
  cases rest with
  | nil => rw [hp.last rfl]; exact pop_sim w G cx hk
  | cons s r =>
    rw [hp.more (by simp)]
    exact ⟨_, .refl _, by simp only [goto, contRest, Match, R]; exact ⟨trivial, ret, h3 (by simp), hk⟩⟩

/-! ### if / elif chains -/

theorem arms_sim {arms : List (BoolExpr × List Stmt)} {entries bodies : List Nat}
    {elseTarget post : Option Nat}
    (hle : entries.length = arms.length) (hlb : bodies.length = arms.length)
    (hc : ∀ i (hi : i < arms.length), ∀ e b, entries[i]? = some e → bodies[i]? = some b →
          ImplCond G e (arms[i]).1 b (armFail entries elseTarget i))
    (hb : ∀ i (hi : i < arms.length), ∀ b, bodies[i]? = some b → Impl G cx b 0 (arms[i]).2 post) :
    ∀ (n i : Nat) (h : Hist) (e : Nat), i + n = arms.length → entries[i]? = some e →
      ∃ rg, Star w G (.next ⟨e, 0, h⟩) rg ∧
        match evalElifs w h (arms.drop i) with
        | (h', some body) => ∃ bid, rg = .next ⟨bid, 0, h'⟩ ∧ Impl G cx bid 0 body post
        | (h', none) => rg = goto elseTarget h' := by
  intro n
  induction n with
  | zero =>
    intro i h e hin he
    have : i < entries.length := by
      rcases Nat.lt_or_ge i entries.length with h | h
      · exact h
      · rw [List.getElem?_eq_none h] at he; cases he
    omega
  | succ n ih =>
    intro i h e hin he
    have hi : i < arms.length := by omega
    have hbi : bodies[i]? = some bodies[i] := List.getElem?_eq_getElem (by omega)
    have hcs := cond_sim w G (h := h) (hc i hi e _ he hbi)
    rw [List.drop_eq_getElem_cons hi]
    have harm : arms[i] = ((arms[i]).1, (arms[i]).2) := rfl
    rw [harm]
    simp only [evalElifs]
    rcases hev : evalCond w h (arms[i]).1 with ⟨h1, bb⟩
    rw [hev] at hcs
    cases bb with
    | true =>
      exact ⟨_, hcs, bodies[i], rfl, hb i hi _ hbi⟩
    | false =>
      simp only at hcs ⊢
      cases hnx : entries[i + 1]? with
      | some e' =>
        have hf : armFail entries elseTarget i = some e' := by simp [armFail, hnx]
        rw [hf] at hcs
        obtain ⟨rg, hst, hm⟩ := ih (i + 1) h1 e' (by omega) hnx
        exact ⟨rg, hcs.trans w G hst, hm⟩
      | none =>
        have hf : armFail entries elseTarget i = elseTarget := by simp [armFail, hnx]
        rw [hf] at hcs
        have hge : arms.length ≤ i + 1 := by
          have := List.getElem?_eq_none_iff.mp hnx
          omega
        rw [List.drop_eq_nil_of_le hge]
        exact ⟨_, hcs, rfl⟩

/-! ### 2. switch dispatch (the heart of C03) -/

theorem switch_gstep {operand : Tok} {cases : List SwitchCase} {ids : List (Option Nat)}
    {emptyId swId : Nat} {sw : Chunk} {post : Option Nat} {h : Hist}
    (hG : findChunk G swId = some sw) (hs : sw.statements = [])
    (hb : sw.branch = switchBranchOf operand cases ids emptyId post) :
    gstep w G ⟨swId, 0, h⟩ =
      match firstCase w h operand
          (if switchNeedsEmpty cases ids = true then
            switchBranchCases cases ids ++ trailEntries emptyId (switchTrailing cases ids)
           else switchBranchCases cases ids) with
      | some d => .next ⟨d, 0, h⟩
      | none =>
        match switchDefaultDest cases ids with
        | some d => .next ⟨d, 0, h⟩
        | none => goto post h := by
  simp only [gstep, hG, hs, hb, switchBranchOf, List.getElem?_nil, trailEntries]
  cases firstCase w h operand _ with
  | some d => rfl
  | none =>
    cases switchDefaultDest cases ids with
    | some d => rfl
    | none => rfl

/-- Property C03, graph side: under the premises of `Impl.switch_`, one step of the graph machine
from the switch chunk enters a chunk implementing `switchBody w h operand cases` (the first
matching non-default case in source order, its body shared forward; `default`, wherever written,
iff no case matches), or — when that body is empty — reaches the code after the switch. -/
theorem switch_branch_correct {operand : Tok} {cases : List SwitchCase}
    {bodyIds0 : List (Option Nat)} {emptyId swId : Nat} {sw : Chunk} {post : Option Nat} {h : Hist}
    (hlen : bodyIds0.length = cases.length)
    (hnone : ∀ i (hi : i < cases.length), (bodyIds0[i]? = some none ↔ (cases[i]).2.2 = []))
    (hbody : ∀ i (hi : i < cases.length), ∀ b, bodyIds0[i]? = some (some b) →
      Impl G cx b 0 (cases[i]).2.2 post)
    (hone : (cases.filter (·.2.1)).length ≤ 1)
    (hempty : switchNeedsEmpty cases (propagateBack bodyIds0) = true → Impl G cx emptyId 0 [] post)
    (hG : findChunk G swId = some sw) (hs : sw.statements = [])
    (hb : sw.branch = switchBranchOf operand cases (propagateBack bodyIds0) emptyId post) :
    (switchBody w h operand cases ≠ [] ∧ ∃ d, gstep w G ⟨swId, 0, h⟩ = .next ⟨d, 0, h⟩ ∧
        Impl G cx d 0 (switchBody w h operand cases) post) ∨
    (switchBody w h operand cases = [] ∧ Star w G (gstep w G ⟨swId, 0, h⟩) (goto post h)) := by
  have hok : CasesOK (fun b id => Impl G cx id 0 b post) cases bodyIds0 :=
    casesOK_of_indexed cases bodyIds0 hlen hnone hbody
  rw [switch_gstep w G hG hs hb]
  unfold switchBody
  cases hm : matchCase w h operand cases with
  | some cs =>
    simp only
    rcases match_graph w h operand emptyId hok cs hm with ⟨hne, d, hfc, hp⟩ | ⟨hnil, hfc, hft⟩
    · refine .inl ⟨hne, d, ?_, hp⟩
      by_cases hn : switchNeedsEmpty cases (propagateBack bodyIds0) = true
      · simp [hn, firstCase_append, hfc]
      · simp [hn, hfc]
    · refine .inr ⟨hnil, ?_⟩
      by_cases hn : switchNeedsEmpty cases (propagateBack bodyIds0) = true
      · simp only [hn, if_true, firstCase_append, hfc, hft]
        exact .step (by rw [nil_step w G cx (hempty hn)]; exact .refl _)
      · have htr : (switchTrailing cases (propagateBack bodyIds0)).length > 0 := by
          cases htl : switchTrailing cases (propagateBack bodyIds0) with
          | nil => rw [htl] at hft; simp [trailEntries, firstCase] at hft
          | cons a r => simp
        have hdd : switchDefaultDest cases (propagateBack bodyIds0) = none := by
          cases hd : switchDefaultDest cases (propagateBack bodyIds0) with
          | none => rfl
          | some d => exact absurd (by simp [switchNeedsEmpty, hd, htr]) hn
        have hn' : switchNeedsEmpty cases (propagateBack bodyIds0) = false := by simpa using hn
        simp only [hn', Bool.false_eq_true, if_false, hfc, hdd]
        exact .refl _
  | none =>
    have hfn := firstCase_none_of_matchCase_none w h operand emptyId cases
      (propagateBack bodyIds0) hm
    have hL : firstCase w h operand
        (if switchNeedsEmpty cases (propagateBack bodyIds0) = true then
          switchBranchCases cases (propagateBack bodyIds0) ++
            trailEntries emptyId (switchTrailing cases (propagateBack bodyIds0))
         else switchBranchCases cases (propagateBack bodyIds0)) = none := by
      by_cases hn : switchNeedsEmpty cases (propagateBack bodyIds0) = true
      · simp [hn, firstCase_append, hfn.1, hfn.2]
      · simp [hn, hfn.1]
    rw [hL]
    have hdg := default_graph hok hone
    cases hf : fromDefault cases with
    | some cs =>
      rw [hf] at hdg
      simp only at hdg ⊢
      rcases hdg with ⟨hne, d, hdd, hp⟩ | ⟨hnil, hdd⟩
      · exact .inl ⟨hne, d, by rw [hdd], hp⟩
      · exact .inr ⟨hnil, by rw [hdd]; exact .refl _⟩
    | none =>
      rw [hf] at hdg
      simp only at hdg ⊢
      exact .inr ⟨by trivial, by rw [hdg]; exact .refl _⟩

/-! ### 5. the simulation -/

/-- A `break` / `continue` at the head of the current block has a matching frame. -/
def StepScoped (s : SCfg) : Prop :=
  (∀ tok sid rest, s.cur = .brk tok sid :: rest → unwindBreak sid s.K ≠ none) ∧
  (∀ tok sid rest, s.cur = .cont tok sid :: rest → unwindContinue sid s.K ≠ none)

theorem sim {s : SCfg} {g : GCfg} (hR : R G cx s g) (hsc : StepScoped s) :
    ∃ rg, Plus w G g rg ∧ Match G cx (sstep w s) rg := by
  obtain ⟨hh, ret, hi, hk⟩ := hR
  obtain ⟨cur, K, h⟩ := s
  obtain ⟨k, o, h'⟩ := g
  simp only at hh hi hk; subst hh
  cases hi with
  | @nil _ _ _ ch hG hl hb hr hu =>
    have := nil_step w G cx (h := h) (Impl.nil hG hl hb hr hu)
    simp only [Plus, this, sstep]
    exact pop_sim w G cx hk
  | @endLast _ _ _ ch c hG hl hb hr hn hu =>
    have hstep : gstep w G ⟨k, o, h⟩ = .fin (if ch.useEndTerminator then .end_ else .ret) h := by
      simp [gstep, hG, getElem?_len_none _ _ hl, hb, hr]
    simp only [Plus, hstep, sstep]
    refine ⟨_, .refl _, ?_⟩
    rcases hn with hn | hn
    · simp [specialCmd, hn, hu, Match]
    · simp [specialCmd, hn, hu, Match]
  | @cmd _ _ c rest _ ch hG hs hi' =>
    simp only [Plus, sstep]
    cases hsp : specialCmd c with
    | some oc =>
      refine ⟨.fin oc h, ?_, by simp [Match]⟩
      have : gstep w G ⟨k, o, h⟩ = .fin oc h := by simp [gstep, hG, hs, hsp]
      rw [this]; exact .refl _
    | none =>
      refine ⟨.next ⟨k, o+1, h ++ [c]⟩, ?_, ?_⟩
      · have : gstep w G ⟨k, o, h⟩ = .next ⟨k, o+1, h ++ [c]⟩ := by simp [gstep, hG, hs, hsp]
        rw [this]; exact .refl _
      · simp only [Match, R]; exact ⟨trivial, ret, hi', hk⟩
  | @label _ _ tok n gl rest _ ch hG hs hi' =>
    simp only [Plus, sstep]
    refine ⟨.next ⟨k, o+1, h⟩, ?_, ?_⟩
    · have : gstep w G ⟨k, o, h⟩ = .next ⟨k, o+1, h⟩ := by simp [gstep, hG, hs]
      rw [this]; exact .refl _
    · simp only [Match, R]; exact ⟨trivial, ret, hi', hk⟩
  | @ite _ _ tok c t elifs els rest _ ch post p entries bodies elseId elseTarget
      hG hl hp h3 hle hlb hb hcnd hbod hels0 hels1 hels2 =>
    have hepos : 0 < entries.length := by rw [hle]; simp
    have he0 : entries[0]? = some (entries.headD 0) := by
      cases entries with
      | nil => simp at hepos
      | cons a r => simp
    have hstep : gstep w G ⟨k, o, h⟩ = .next ⟨entries.headD 0, 0, h⟩ := by
      simp [gstep, hG, getElem?_len_none _ _ hl, hb]
    obtain ⟨rg, hst, hm⟩ := arms_sim w G cx hle hlb hcnd hbod (((c, t) :: elifs).length) 0 h _
      (by simp) he0
    simp only [List.drop_zero, evalElifs] at hm
    simp only [Plus, hstep, sstep]
    rcases hev : evalCond w h c with ⟨h1, bb⟩
    rw [hev] at hm
    cases bb with
    | true =>
      obtain ⟨bid, rfl, hib⟩ := hm
      refine ⟨_, hst, ?_⟩
      simp only [Match, R]
      exact ⟨trivial, post, hib, kimpl_push G cx hp h3 hk⟩
    | false =>
      simp only at hm ⊢
      rcases hev2 : evalElifs w h1 elifs with ⟨h2, ob⟩
      rw [hev2] at hm
      cases ob with
      | some body =>
        obtain ⟨bid, rfl, hib⟩ := hm
        refine ⟨_, hst, ?_⟩
        simp only [Match, R]
        exact ⟨trivial, post, hib, kimpl_push G cx hp h3 hk⟩
      | none =>
        simp only at hm ⊢
        subst hm
        cases els with
        | none =>
          rw [hels0 rfl] at hst
          obtain ⟨rg, hst2, hm2⟩ := after_false w G cx (h := h2) hp h3 hk
          exact ⟨rg, hst.trans w G hst2, hm2⟩
        | some eb =>
          rw [hels1 eb rfl] at hst
          refine ⟨_, hst, ?_⟩
          simp only [goto, Match, R]
          exact ⟨trivial, post, hels2 eb rfl, kimpl_push G cx hp h3 hk⟩
  | @whileInf _ _ tok sid b rest _ ch hd post bId p hG hl hb hp h3 hbrk hcont hib hj =>
    have hstep : gstep w G ⟨k, o, h⟩ = .next ⟨hd, 0, h⟩ := by
      simp [gstep, hG, getElem?_len_none _ _ hl, hb]
    have hK : KImpl G cx (some hd) (.whileF sid none b :: pushSeq rest K) :=
      ⟨hd, post, bId, rfl, hbrk, hcont, hib, hj, kimpl_push G cx hp h3 hk⟩
    obtain ⟨rg, hst, hm⟩ := pop_sim w G cx (h := h) hK
    refine ⟨rg, by simpa only [Plus, hstep, goto] using hst, ?_⟩
    simpa [sstep, popK, evalOpt] using hm
  | @while_ _ _ tok sid cc b rest _ ch hd post bId e0 p hG hl hb hp h3 hbrk hcont hib hj hc =>
    have hstep : gstep w G ⟨k, o, h⟩ = .next ⟨hd, 0, h⟩ := by
      simp [gstep, hG, getElem?_len_none _ _ hl, hb]
    have hK : KImpl G cx (some hd) (.whileF sid (some cc) b :: pushSeq rest K) :=
      ⟨hd, post, bId, rfl, hbrk, hcont, hib, ⟨e0, hj, hc⟩, kimpl_push G cx hp h3 hk⟩
    obtain ⟨rg, hst, hm⟩ := pop_sim w G cx (h := h) hK
    refine ⟨rg, by simpa only [Plus, hstep, goto] using hst, ?_⟩
    simp only [sstep]
    simp only [popK] at hm
    rcases hev : evalOpt w h (some cc) with ⟨h2', bb⟩
    rw [hev] at hm
    cases bb with
    | true => simpa using hm
    | false =>
      cases rest with
      | nil => simpa [pushSeq, contRest] using hm
      | cons s r => simpa [pushSeq, popK, contRest] using hm
  | @doWhile _ _ tok sid cc b rest _ ch hd post bId e0 p hG hl hb hp h3 hbrk hcont hib hj hc =>
    have hstep : gstep w G ⟨k, o, h⟩ = .next ⟨bId, 0, h⟩ := by
      simp [gstep, hG, getElem?_len_none _ _ hl, hb]
    simp only [Plus, hstep, sstep]
    refine ⟨_, .refl _, ?_⟩
    simp only [Match, R]
    exact ⟨trivial, some hd, hib, hd, post, bId, rfl, hbrk, hcont, hib, ⟨e0, hj, hc⟩,
      kimpl_push G cx hp h3 hk⟩
  | @brk _ _ tok sid rest _ ch p hG hl hb _ =>
    have hstep : gstep w G ⟨k, o, h⟩ = goto (cx.brk sid) h := by
      simp [gstep, hG, getElem?_len_none _ _ hl, hb]
    have hs := hsc.1 tok sid rest rfl
    simp only [Plus, hstep, sstep]
    cases hu : unwindBreak sid K with
    | none => exact absurd hu hs
    | some K' => exact pop_sim w G cx (kimpl_unwind_break G cx hk hu)
  | @cont _ _ tok sid rest _ ch p hG hl hb _ =>
    have hstep : gstep w G ⟨k, o, h⟩ = goto (cx.cont sid) h := by
      simp [gstep, hG, getElem?_len_none _ _ hl, hb]
    have hs := hsc.2 tok sid rest rfl
    simp only [Plus, hstep, sstep]
    cases hu : unwindContinue sid K with
    | none => exact absurd hu hs
    | some fk =>
      obtain ⟨f, K'⟩ := fk
      have hct := kimpl_unwind_continue G cx hk hu
      cases f with
      | doF s' c b =>
        obtain ⟨bId, hd, hc, hib, hkk⟩ := hct
        rw [hc]
        exact ⟨_, .refl _, by simp only [goto, Match, R]; exact ⟨trivial, some hd, hib, hkk⟩⟩
      | seq r => exact pop_sim w G cx hct
      | whileF s' c b => exact pop_sim w G cx hct
      | switchF s' => exact pop_sim w G cx hct
  | @switchEmpty _ _ tok sid operand cases rest _ ch post swId sw p
      hG hl hb hp h3 hbrk hall hGs hss hsb hsr hsu =>
    have hstep : gstep w G ⟨k, o, h⟩ = .next ⟨swId, 0, h⟩ := by
      simp [gstep, hG, getElem?_len_none _ _ hl, hb]
    have hsw : gstep w G ⟨swId, 0, h⟩ = goto post h :=
      nil_step w G cx (Impl.nil hGs (by simp [hss]) hsb hsr hsu)
    simp only [Plus, hstep, sstep, switchBody_allEmpty w h operand hall]
    obtain ⟨rg, hst, hm⟩ := after_false w G cx (h := h) hp h3 hk
    exact ⟨rg, .step (by rw [hsw]; exact hst), hm⟩
  | @switch_ _ _ tok sid operand cases rest _ ch post swId sw bodyIds0 emptyId p
      hG hl hb hp h3 hbrk hlen hnone hbody hex hone hempty hGs hss hsb =>
    have hstep : gstep w G ⟨k, o, h⟩ = .next ⟨swId, 0, h⟩ := by
      simp [gstep, hG, getElem?_len_none _ _ hl, hb]
    simp only [Plus, hstep, sstep]
    rcases switch_branch_correct w G cx (h := h) hlen hnone hbody hone hempty hGs hss hsb with
      ⟨hne, d, hgs, hi⟩ | ⟨hnil, hst⟩
    · cases hsb' : switchBody w h operand cases with
      | nil => exact absurd hsb' hne
      | cons b bs =>
        rw [hsb'] at hi
        refine ⟨.next ⟨d, 0, h⟩, .step (by rw [hgs]; exact .refl _), ?_⟩
        simp only [Match, R]
        exact ⟨trivial, post, hi, hbrk, kimpl_push G cx hp h3 hk⟩
    · rw [hnil]
      obtain ⟨rg, hst2, hm⟩ := after_false w G cx (h := h) hp h3 hk
      exact ⟨rg, .step (hst.trans w G hst2), hm⟩

#print axioms sim

end Pory.Sem
