import PoryProofs.ParserLeaves
/-
Boolean operators as the parser builds them.

Every binary node `.bin l op r` of every condition (`if` / `elif` / `while` / `do…while`) in every script
body the parser produces has `op = AND` or `op = OR` (`Emit.CondOK`), i.e. every parsed body satisfies
`Emit.BoolOpsOK` — the hypothesis under which the emitter's `splitBool` does not hit its nil-chunk panic
(`Emit.scriptChunks_total`).

* `negOp_and_or` — the operator stored by `parseRightSideExpression` (`c.type`, or its negation
  `getNegatedBooleanOperator c.type` under a `!( … )`) is `&&` / `||` when `c.type` is;
* `bo_bool_spec` / `bo_cond_spec` — `parseBooleanExpression` / `parseRightSideExpression`, by induction on
  fuel;
* `boolAll : ∀ n, BoolAll n` — the 13 functions of the mutual statement block, by simultaneous induction
  on fuel (the pattern of `leafAll` in ParserLeaves.lean);
* `bo_script_spec`, … , `bo_program_spec` — the top level;
* `program_boolOps : parseTokens env toks = .ok prog → ∀ t ∈ prog.tops, TopBoolOps t`.
Everything is proved for all inputs and all fuel values; nothing is partial.
-/
namespace Pory.Parser
open Pory Pory.Emit

theorem op_and (t : TT) (h : (t == TT.AND) = true) : t = .AND ∨ t = .OR :=
  .inl (by simpa using h)

theorem op_or (t : TT) (h : (t == TT.OR) = true) : t = .AND ∨ t = .OR :=
  .inr (by simpa using h)

theorem negOp_and (t : TT) (h : (t == TT.AND) = true) :
    getNegatedBooleanOperator t = .AND ∨ getNegatedBooleanOperator t = .OR := by
  have ht : t = .AND := by simpa using h
  subst ht
  exact .inr (by decide)

theorem negOp_or (t : TT) (h : (t == TT.OR) = true) :
    getNegatedBooleanOperator t = .AND ∨ getNegatedBooleanOperator t = .OR := by
  have ht : t = .OR := by simpa using h
  subst ht
  exact .inl (by decide)

theorem condOK_leaf (e : OpExpr) : CondOK (.leaf e) := trivial

theorem condOK_mk {l r : BoolExpr} {op : TT} (ho : op = .AND ∨ op = .OR) (hl : CondOK l) (hr : CondOK r) :
    CondOK (.bin l op r) := ⟨ho, hl, hr⟩

/-! ### conditions -/

theorem bo_bool_spec (env : Env) (sn : String) : ∀ n : Nat,
    (∀ single negated s, wp (parseBooleanExpression env sn single negated n) s
      (fun r _ => CondOK r.1)) ∧
    (∀ left single negated s, CondOK left →
      wp (parseRightSideExpression env sn left single negated n) s (fun r _ => CondOK r.1)) := by
  intro n
  induction n with
  | zero =>
    refine ⟨?_, ?_⟩
    · intro a b s; rw [parseBooleanExpression]; wpsimp
    · intro l a b s _; rw [parseRightSideExpression]; wpsimp
  | succ n ih =>
    obtain ⟨ih1, ih2⟩ := ih
    refine ⟨?_, ?_⟩
    · intro a b s
      rw [parseBooleanExpression]
      wpsimp [wp_spec (ih1 _ _ _), (frame_parseLeafBooleanExpression _ _ _).wp_iff]
      repeat' (first | trivial | (intros; split))
      all_goals first
        | assumption
        | (apply ih2; assumption)
        | exact condOK_leaf _
        | (apply ih2; exact condOK_leaf _)
    · intro l a b s hl
      rw [parseRightSideExpression]
      wpsimp [wp_spec (ih1 _ _ _)]
      repeat' (first | trivial | (intros; split))
      all_goals first
        | assumption
        | (apply ih2; apply condOK_mk (negOp_and _ (by assumption)) <;> assumption)
        | (apply ih2; apply condOK_mk (op_and _ (by assumption)) <;> assumption)
        | (apply condOK_mk (negOp_or _ (by assumption)) <;> assumption)
        | (apply condOK_mk (op_or _ (by assumption)) <;> assumption)

theorem bo_cond_spec (env : Env) (sn : String) (single negated : Bool) (n : Nat) (s : PState) :
    wp (parseBooleanExpression env sn single negated n) s (fun r _ => CondOK r.1) :=
  (bo_bool_spec env sn n).1 single negated s

/-! ### statements -/

abbrev BL (l : List Stmt) : Prop := CondsL l

theorem BL.nil : BL [] := trivial

theorem BL.append {a b : List Stmt} (ha : BL a) (hb : BL b) : BL (a ++ b) :=
  (CondsL_append a b).2 ⟨ha, hb⟩

theorem condsE_snoc {a : List (BoolExpr × List Stmt)} {c : BoolExpr} {b : List Stmt}
    (ha : CondsE a) (hc : CondOK c) (hb : BL b) : CondsE (a ++ [(c, b)]) := by
  induction a with
  | nil => exact ⟨hc, hb, trivial⟩
  | cons x r ih =>
    obtain ⟨c', b'⟩ := x
    rw [List.cons_append, condsE_cons]
    rw [condsE_cons] at ha
    exact ⟨ha.1, ha.2.1, ih ha.2.2⟩

theorem condsC_snoc {a : List SwitchCase} {t : Tok} {d : Bool} {b : List Stmt}
    (ha : CondsC a) (hb : BL b) : CondsC (a ++ [(t, d, b)]) := by
  induction a with
  | nil => exact ⟨hb, trivial⟩
  | cons x r ih =>
    obtain ⟨t', d', b'⟩ := x
    rw [List.cons_append, condsC_cons]
    rw [condsC_cons] at ha
    exact ⟨ha.1, ih ha.2⟩

/-- postcondition of the statement-level functions -/
abbrev BPost : List Stmt × ImpData → PState → Prop := fun r _ => BL r.1

/-- The operator invariant of the whole mutual block at fuel `n`. -/
structure BoolAll (n : Nat) : Prop where
  block : ∀ env sn tok acc imp s, BL acc → wp (parseBlockStatement env sn tok n acc imp) s BPost
  swblock : ∀ env sn tok acc imp s, BL acc → wp (parseSwitchBlockStatement env sn tok n acc imp) s BPost
  stmt : ∀ env sn s, wp (parseStatement env sn n) s BPost
  cond : ∀ env sn req s, wp (parseConditionExpression env sn req n) s
    (fun r _ => (∀ c, r.1 = some c → CondOK c) ∧ BL r.2.1)
  elifs : ∀ env sn acc imp s, CondsE acc →
    wp (parseElifs env sn n acc imp) s (fun r _ => CondsE r.1)
  ifs : ∀ env sn s, wp (parseIfStatement env sn n) s BPost
  whiles : ∀ env sn s, wp (parseWhileStatement env sn n) s BPost
  doWhiles : ∀ env sn s, wp (parseDoWhileStatement env sn n) s BPost
  cases : ∀ env sn tok cs vals hd imp s, CondsC cs →
    wp (parseSwitchCases env sn tok n cs vals hd imp) s (fun r _ => CondsC r.1)
  switch : ∀ env sn s, wp (parseSwitchStatement env sn n) s BPost
  pory : ∀ env sn s, wp (parsePoryswitchStatement env sn n) s BPost
  poryCases : ∀ env sn tok acc s, (∀ e ∈ acc, BL e.2.1) →
    wp (parsePoryswitchStatementCases env sn tok n acc) s (fun r _ => ∀ e ∈ r, BL e.2.1)
  poryStmts : ∀ env sn am acc imp s, BL acc → wp (parsePoryswitchStatements env sn am n acc imp) s BPost

theorem BL.cmd (c : Cmd) : BL [.cmd c] := ⟨trivial, trivial⟩
theorem BL.label (t : Tok) (nm : String) (g : Bool) : BL [.label t nm g] := ⟨trivial, trivial⟩
theorem BL.brk (t : Tok) (sid : Nat) : BL [.brk t sid] := ⟨trivial, trivial⟩
theorem BL.cont (t : Tok) (sid : Nat) : BL [.cont t sid] := ⟨trivial, trivial⟩

theorem BL.while_ (t : Tok) (sid : Nat) {o : Option BoolExpr} {b : List Stmt}
    (ho : ∀ c, o = some c → CondOK c) (hb : BL b) : BL [.while_ t sid o b] := by
  refine ⟨?_, trivial⟩
  rw [condsS_while]
  cases o with
  | none => exact ⟨trivial, hb⟩
  | some c => exact ⟨ho c rfl, hb⟩

theorem BL.doWhile (t : Tok) (sid : Nat) {c : BoolExpr} {b : List Stmt}
    (hc : CondOK c) (hb : BL b) : BL [.doWhile t sid c b] := ⟨⟨hc, hb⟩, trivial⟩

theorem BL.switch_ (t : Tok) (sid : Nat) (op : Tok) {cs : List SwitchCase}
    (hc : CondsC cs) : BL [.switch_ t sid op cs] := ⟨hc, trivial⟩

theorem BL.ite (tok : Tok) {c : BoolExpr} {t : List Stmt} {el : List (BoolExpr × List Stmt)}
    {els : Option (List Stmt)} (hc : CondOK c) (ht : BL t) (hel : CondsE el)
    (hels : ∀ e, els = some e → BL e) : BL [.ite tok c t el els] := by
  refine ⟨?_, trivial⟩
  rw [condsS_ite]
  cases els with
  | none => exact ⟨hc, ht, hel, trivial⟩
  | some e => exact ⟨hc, ht, hel, hels e rfl⟩

theorem bo_while_step {n : Nat} (ih : BoolAll n) (env : Env) (sn : String) (s : PState) :
    wp (parseWhileStatement env sn (n + 1)) s BPost := by
  rw [parseWhileStatement]
  swp [wp_spec (ih.cond _ _ _ _)]
  intro a s' _ h
  exact BL.while_ _ _ h.1 h.2

theorem bo_doWhile_step {n : Nat} (ih : BoolAll n) (env : Env) (sn : String) (s : PState) :
    wp (parseDoWhileStatement env sn (n + 1)) s BPost := by
  rw [parseDoWhileStatement]
  swp [wp_spec (ih.block _ _ _ [] _ _ BL.nil), wp_spec (bo_cond_spec _ _ _ _ _ _)]
  repeat' (first | trivial | (intros; split))
  all_goals (intros; apply BL.doWhile <;> assumption)

theorem bo_stmt_step {n : Nat} (ih : BoolAll n) (env : Env) (sn : String) (s : PState) :
    wp (parseStatement env sn (n + 1)) s BPost := by
  rw [parseStatement]
  swp
  split
  · -- IDENT
    swp [wp_spec (tryParseLabel_spec _)]
    intro a s' _ h
    obtain ⟨⟨l, k, rfl⟩, hl⟩ := h
    cases a with
    | some st =>
      obtain ⟨t, nm, g, rfl⟩ := hl st rfl
      swp
      exact BL.label _ _ _
    | none =>
      swp [(frame_parseCommandStatement _ _ _).wp_iff]
      intro a l k _
      exact BL.cmd _
  · exact ih.ifs env sn s
  · exact ih.whiles env sn s
  · exact ih.doWhiles env sn s
  · -- BREAK
    swp
    split
    · swp
    · swp
      exact BL.brk _ _
  · -- CONTINUE
    swp
    split
    · swp
    · swp
      split
      · trivial
      · exact BL.cont _ _
  · exact ih.switch env sn s
  · exact ih.pory env sn s
  · swp

theorem bo_block_step {n : Nat} (ih : BoolAll n) (env : Env) (sn : String) (tok : Tok) (acc : List Stmt)
    (imp : ImpData) (s : PState) (hacc : BL acc) :
    wp (parseBlockStatement env sn tok (n + 1) acc imp) s BPost := by
  rw [parseBlockStatement]
  swp [wp_spec (ih.stmt _ _ _)]
  split
  · exact hacc
  · split
    · trivial
    · intro a s' _ h
      exact ih.block env sn tok (acc ++ a.1) _ _ (hacc.append h)

theorem bo_swblock_step {n : Nat} (ih : BoolAll n) (env : Env) (sn : String) (tok : Tok) (acc : List Stmt)
    (imp : ImpData) (s : PState) (hacc : BL acc) :
    wp (parseSwitchBlockStatement env sn tok (n + 1) acc imp) s BPost := by
  rw [parseSwitchBlockStatement]
  swp [wp_spec (ih.stmt _ _ _)]
  split
  · exact hacc
  · split
    · trivial
    · intro a s' _ h
      exact ih.swblock env sn tok (acc ++ a.1) _ _ (hacc.append h)

theorem bo_cond_step {n : Nat} (ih : BoolAll n) (env : Env) (sn : String) (req : Bool) (s : PState) :
    wp (parseConditionExpression env sn req (n + 1)) s
      (fun r _ => (∀ c, r.1 = some c → CondOK c) ∧ BL r.2.1) := by
  rw [parseConditionExpression]
  swp [wp_spec (ih.block _ _ _ [] _ _ BL.nil), wp_spec (bo_cond_spec _ _ _ _ _ _)]
  repeat' (first | trivial | (intros; split))
  · intro a s' _ hc _ b s1 _ hb
    exact ⟨fun c hcc => (by cases hcc; exact hc), hb⟩
  · intro _ a s' _ hb
    exact ⟨fun c hcc => (by cases hcc), hb⟩

theorem bo_elifs_step {n : Nat} (ih : BoolAll n) (env : Env) (sn : String)
    (acc : List (BoolExpr × List Stmt)) (imp : ImpData) (s : PState) (hacc : CondsE acc) :
    wp (parseElifs env sn (n + 1) acc imp) s (fun r _ => CondsE r.1) := by
  rw [parseElifs]
  swp [wp_spec (ih.cond _ _ _ _)]
  split
  · exact hacc
  · intro a s' _ h
    split
    · swp
    · rename_i e he
      exact ih.elifs env sn _ _ _ (condsE_snoc hacc (h.1 e he) h.2)

theorem bo_if_step {n : Nat} (ih : BoolAll n) (env : Env) (sn : String) (s : PState) :
    wp (parseIfStatement env sn (n + 1)) s BPost := by
  rw [parseIfStatement]
  swp [wp_spec (ih.cond _ _ _ _)]
  intro a s1 _ h
  split
  · rename_i c hc
    swp [wp_spec (ih.elifs _ _ [] _ _ trivial), wp_spec (ih.block _ _ _ [] _ _ BL.nil)]
    intro b s2 _ hel
    split
    · split
      · intro e s3 _ he
        exact BL.ite _ (h.1 c hc) h.2 hel (fun e' he' => by cases he'; exact he)
      · trivial
    · exact BL.ite _ (h.1 c hc) h.2 hel (fun e' he' => by cases he')
  · swp

theorem bo_cases_step {n : Nat} (ih : BoolAll n) (env : Env) (sn : String) (tok : Tok)
    (cs : List SwitchCase) (vals : List String) (hd : Bool) (imp : ImpData) (s : PState)
    (hcs : CondsC cs) :
    wp (parseSwitchCases env sn tok (n + 1) cs vals hd imp) s (fun r _ => CondsC r.1) := by
  rw [parseSwitchCases]
  swp [(frame_collectUntil _ _ _ _).wp_iff, wp_spec (ih.swblock _ _ _ [] _ _ BL.nil)]
  repeat' (first | trivial | (intros; split))
  all_goals first
    | exact hcs
    | (intros; apply ih.cases; apply condsC_snoc hcs; assumption)

theorem bo_switch_step {n : Nat} (ih : BoolAll n) (env : Env) (sn : String) (s : PState) :
    wp (parseSwitchStatement env sn (n + 1)) s BPost := by
  rw [parseSwitchStatement]
  swp [(frame_expectPeekVarOrAutoVar _ _ _).wp_iff]
  split
  · intro a l k _
    split
    · -- `var(...)` operand
      swp [(frame_switchOperandLoop _ _ _).wp_iff, wp_spec (ih.cases _ _ _ [] [] false _ _ trivial)]
      repeat' (first | trivial | (intros; split))
      all_goals (intros; apply BL.switch_; assumption)
    · -- auto-var operand
      swp [wp_spec (ih.cases _ _ _ [] [] false _ _ trivial)]
      repeat' (first | trivial | (intros; split))
      all_goals (intros; exact (BL.cmd _).append (BL.switch_ _ _ _ (by assumption)))
  · trivial

theorem bo_pory_step {n : Nat} (ih : BoolAll n) (env : Env) (sn : String) (s : PState) :
    wp (parsePoryswitchStatement env sn (n + 1)) s BPost := by
  rw [parsePoryswitchStatement]
  swp [(frame_parsePoryswitchHeader _).wp_iff,
    wp_spec (ih.poryCases _ _ _ [] _ (fun _ he => absurd he List.not_mem_nil))]
  intro hdr l k _ cs s' _ hall
  split
  · rename_i r hr
    swp
    obtain ⟨key, hmem⟩ := selectCase_mem hr
    exact hall _ hmem
  · swp
    split
    · trivial
    · exact BL.nil

theorem bo_poryCases_step {n : Nat} (ih : BoolAll n) (env : Env) (sn : String) (tok : Tok)
    (acc : List (String × List Stmt × ImpData)) (s : PState) (hacc : ∀ e ∈ acc, BL e.2.1) :
    wp (parsePoryswitchStatementCases env sn tok (n + 1) acc) s (fun r _ => ∀ e ∈ r, BL e.2.1) := by
  rw [parsePoryswitchStatementCases]
  swp [wp_spec (ih.poryStmts _ _ _ [] _ _ BL.nil)]
  have hrec : ∀ (lit : String) (a : List Stmt × ImpData) (s'' : PState), BL a.1 →
      wp (parsePoryswitchStatementCases env sn tok n ((lit, a.1, a.2) :: acc)) s''
        (fun r _ => ∀ e ∈ r, BL e.2.1) := by
    intro lit a s'' ha
    apply ih.poryCases
    intro e he
    rcases List.mem_cons.1 he with rfl | he
    · exact ha
    · exact hacc e he
  repeat' (first | trivial | (intros; split))
  all_goals first
    | exact hacc
    | (intros; apply hrec; assumption)

theorem bo_poryStmts_step {n : Nat} (ih : BoolAll n) (env : Env) (sn : String) (am : Bool)
    (acc : List Stmt) (imp : ImpData) (s : PState) (hacc : BL acc) :
    wp (parsePoryswitchStatements env sn am (n + 1) acc imp) s BPost := by
  rw [parsePoryswitchStatements]
  swp [wp_spec (ih.stmt _ _ _), wp_spec (ih.pory _ _ _)]
  repeat' (first | trivial | (intros; split))
  all_goals first
    | exact hacc
    | (intros; apply BL.append hacc; assumption)
    | (intros; apply ih.poryStmts; apply BL.append hacc; assumption)

/-- **The operator invariant** of the statement block, for every fuel. -/
theorem boolAll : ∀ n : Nat, BoolAll n
  | 0 =>
    { block := by intros; rw [parseBlockStatement]; swp
      swblock := by intros; rw [parseSwitchBlockStatement]; swp
      stmt := by intros; rw [parseStatement]; swp
      cond := by intros; rw [parseConditionExpression]; swp
      elifs := by intros; rw [parseElifs]; swp
      ifs := by intros; rw [parseIfStatement]; swp
      whiles := by intros; rw [parseWhileStatement]; swp
      doWhiles := by intros; rw [parseDoWhileStatement]; swp
      cases := by intros; rw [parseSwitchCases]; swp
      switch := by intros; rw [parseSwitchStatement]; swp
      pory := by intros; rw [parsePoryswitchStatement]; swp
      poryCases := by intros; rw [parsePoryswitchStatementCases]; swp
      poryStmts := by intros; rw [parsePoryswitchStatements]; swp }
  | n + 1 =>
    have ih := boolAll n
    { block := bo_block_step ih
      swblock := bo_swblock_step ih
      stmt := bo_stmt_step ih
      cond := bo_cond_step ih
      elifs := bo_elifs_step ih
      ifs := bo_if_step ih
      whiles := bo_while_step ih
      doWhiles := bo_doWhile_step ih
      cases := bo_cases_step ih
      switch := bo_switch_step ih
      pory := bo_pory_step ih
      poryCases := bo_poryCases_step ih
      poryStmts := bo_poryStmts_step ih }

/-! ### top level -/

/-- An optional (inline) script only uses `&&` / `||`. -/
def ScriptBoolOps (o : Option Script) : Prop := ∀ scr, o = some scr → BL scr.body

theorem ScriptBoolOps.none : ScriptBoolOps none := fun _ h => by cases h
theorem ScriptBoolOps.some {scr : Script} (h : BL scr.body) : ScriptBoolOps (some scr) :=
  fun _ hs => by cases hs; exact h

def MSBoolOps (mss : List MapScript) (tables : List TableMapScript) : Prop :=
  (∀ m ∈ mss, ScriptBoolOps m.script) ∧ (∀ t ∈ tables, ∀ e ∈ t.entries, ScriptBoolOps e.script)

theorem MSBoolOps.nil : MSBoolOps [] [] :=
  ⟨fun _ h => absurd h List.not_mem_nil, fun _ h => absurd h List.not_mem_nil⟩

/-- what the operator invariant says about one top-level statement -/
def TopBoolOps : Top → Prop
  | .script scr => BL scr.body
  | .mapscripts m => MSBoolOps m.mapScripts m.tables
  | _ => True

theorem bo_script_spec (env : Env) (fuel : Nat) (s : PState) :
    wp (parseScriptStatement env fuel) s (fun r _ => BL r.1.body) := by
  unfold parseScriptStatement
  swp [(frame_parseScopeModifier _).wp_iff, wp_spec ((boolAll fuel).block _ _ _ [] _ _ BL.nil)]
  vc

theorem bo_tableEntries_spec (env : Env) (ms ty : String) : ∀ (n i : Nat) (acc : List TableEntry)
    (imp : ImpData) (s : PState), (∀ e ∈ acc, ScriptBoolOps e.script) →
    wp (parseTableEntries env ms ty n i acc imp) s (fun r _ => ∀ e ∈ r.1, ScriptBoolOps e.script) := by
  intro n
  induction n with
  | zero => intro i acc imp s _; rw [parseTableEntries]; swp
  | succ n ih =>
    intro i acc imp s hacc
    have hrec : ∀ (e : TableEntry) (s'' : PState) (i' : Nat) (imp' : ImpData), ScriptBoolOps e.script →
        wp (parseTableEntries env ms ty n i' (acc ++ [e]) imp') s''
          (fun r _ => ∀ e ∈ r.1, ScriptBoolOps e.script) := by
      intro e s'' i' imp' he
      apply ih
      intro x hx
      rcases List.mem_append.1 hx with hx | hx
      · exact hacc x hx
      · rw [List.mem_singleton] at hx; subst hx; exact he
    rw [parseTableEntries]
    swp [(frame_tableCollect _ _ _ _).wp_iff, wp_spec ((boolAll n).block _ _ _ [] _ _ BL.nil)]
    repeat' (first | trivial | (intros; split))
    all_goals first
      | exact hacc
      | (intros; apply hrec; exact ScriptBoolOps.none)
      | (intros; apply hrec; apply ScriptBoolOps.some; assumption)

theorem bo_mapScriptEntries_spec (env : Env) (ms : String) : ∀ (n : Nat) (mss : List MapScript)
    (tables : List TableMapScript) (imp : ImpData) (s : PState), MSBoolOps mss tables →
    wp (parseMapScriptEntries env ms n mss tables imp) s (fun r _ => MSBoolOps r.1 r.2.1) := by
  intro n
  induction n with
  | zero => intro mss tables imp s _; rw [parseMapScriptEntries]; swp
  | succ n ih =>
    intro mss tables imp s hacc
    have hrec1 : ∀ (m : MapScript) (s'' : PState) (imp' : ImpData), ScriptBoolOps m.script →
        wp (parseMapScriptEntries env ms n (mss ++ [m]) tables imp') s''
          (fun r _ => MSBoolOps r.1 r.2.1) := by
      intro m s'' imp' hm
      apply ih
      refine ⟨?_, hacc.2⟩
      intro x hx
      rcases List.mem_append.1 hx with hx | hx
      · exact hacc.1 x hx
      · rw [List.mem_singleton] at hx; subst hx; exact hm
    have hrec2 : ∀ (t : TableMapScript) (s'' : PState) (imp' : ImpData),
        (∀ e ∈ t.entries, ScriptBoolOps e.script) →
        wp (parseMapScriptEntries env ms n mss (tables ++ [t]) imp') s''
          (fun r _ => MSBoolOps r.1 r.2.1) := by
      intro t s'' imp' ht
      apply ih
      refine ⟨hacc.1, ?_⟩
      intro x hx e he
      rcases List.mem_append.1 hx with hx | hx
      · exact hacc.2 x hx e he
      · rw [List.mem_singleton] at hx; subst hx; exact ht e he
    rw [parseMapScriptEntries]
    swp [wp_spec ((boolAll n).block _ _ _ [] _ _ BL.nil),
      wp_spec (bo_tableEntries_spec _ _ _ _ _ [] _ _ (fun _ h => absurd h List.not_mem_nil))]
    repeat' (first | trivial | (intros; split))
    all_goals first
      | exact hacc
      | (intros; apply hrec1; exact ScriptBoolOps.none)
      | (intros; apply hrec1; apply ScriptBoolOps.some; assumption)
      | (intros; apply hrec2; assumption)

theorem bo_mapscripts_spec (env : Env) (fuel : Nat) (s : PState) :
    wp (parseMapscriptsStatement env fuel) s (fun r _ => MSBoolOps r.1.mapScripts r.1.tables) := by
  unfold parseMapscriptsStatement
  swp [(frame_parseScopeModifier _).wp_iff, wp_spec (bo_mapScriptEntries_spec _ _ _ [] [] _ _ MSBoolOps.nil)]
  vc

theorem bo_raw (s : PState) : wp parseRawStatement s (fun r _ => TopBoolOps r) := by
  unfold parseRawStatement
  swp
  vc
  all_goals (intros; trivial)

theorem bo_text (env : Env) (n : Nat) (s : PState) :
    wp (parseTextStatement env n) s (fun r _ => TopBoolOps r) := by
  unfold parseTextStatement
  swp [(frame_parseScopeModifier _).wp_iff, (frame_parsePoryswitchTextStatement _ _).wp_iff,
    (frame_parseTextValue _ _).wp_iff, wp_modify]
  vc
  all_goals (intros; trivial)

theorem bo_movement (env : Env) (n : Nat) (s : PState) :
    wp (parseMovementStatement env n) s (fun r _ => TopBoolOps r) := by
  unfold parseMovementStatement
  swp [(frame_parseScopeModifier _).wp_iff, (frame_parseListValue _ _ _ _ _).wp_iff]
  vc
  all_goals (intros; trivial)

theorem bo_mart (env : Env) (n : Nat) (s : PState) :
    wp (parseMartStatement env n) s (fun r _ => TopBoolOps r) := by
  unfold parseMartStatement
  swp [(frame_parseScopeModifier _).wp_iff, (frame_parseListValue _ _ _ _ _).wp_iff,
    (frame_mapM_tryReplace _).wp_iff]
  vc
  all_goals (intros; trivial)

theorem bo_topLevel_spec (env : Env) (fuel : Nat) (s : PState) :
    wp (parseTopLevelStatement env fuel) s (fun r _ => ∀ t, r = some t → TopBoolOps t) := by
  unfold parseTopLevelStatement
  swp
  split
  · -- script
    swp [wp_spec (bo_script_spec _ _ _)]
    intro a s1 _ h
    refine wp_mono (wp_true _ _) ?_
    intro u s2 _
    try swp
    intro t ht; cases ht
    exact h
  · swp [wp_spec (bo_raw s)]
    intro a s' _ h t ht; cases ht; exact h
  · swp [wp_spec (bo_text env fuel s)]
    intro a s' _ h t ht; cases ht; exact h
  · swp [wp_spec (bo_movement env fuel s)]
    intro a s' _ h t ht; cases ht; exact h
  · swp [wp_spec (bo_mart env fuel s)]
    intro a s' _ h t ht; cases ht; exact h
  · -- mapscripts
    swp [wp_spec (bo_mapscripts_spec _ _ _)]
    intro a s1 _ h
    refine wp_mono (wp_true _ _) ?_
    intro u s2 _
    try swp
    intro t ht; cases ht
    exact h
  · swp
    intro a s1 _ t ht
    cases ht
  · swp

theorem bo_topLoop_spec (env : Env) (fuel : Nat) : ∀ (n : Nat) (acc : List Top) (s : PState),
    (∀ t ∈ acc, TopBoolOps t) → wp (topLoop env fuel n acc) s (fun r _ => ∀ t ∈ r, TopBoolOps t) := by
  intro n
  induction n with
  | zero => intro acc s _; rw [topLoop]; swp
  | succ n ih =>
    intro acc s hacc
    rw [topLoop]
    swp [wp_spec (bo_topLevel_spec _ _ _)]
    split
    · exact hacc
    · intro a s' _ h
      apply ih
      intro t ht
      cases a with
      | none => exact hacc t ht
      | some x =>
        rcases List.mem_append.1 ht with ht | ht
        · exact hacc t ht
        · rw [List.mem_singleton] at ht; subst ht
          exact h _ rfl

/-- `ParseProgram`: every condition of every script of the result only uses `&&` / `||`. -/
theorem bo_program_spec (env : Env) (fuel : Nat) (s : PState) :
    wp (parseProgramM env fuel) s (fun r _ => ∀ t ∈ r.tops, TopBoolOps t) := by
  unfold parseProgramM
  swp [wp_spec (bo_topLoop_spec _ _ _ [] _ (fun _ h => absurd h List.not_mem_nil))]
  intro tops s' _ hw
  have key : ∀ t ∈ tops ++ List.map Top.movement s'.inlineMovements, TopBoolOps t := by
    intro t ht
    rcases List.mem_append.1 ht with ht | ht
    · exact hw t ht
    · obtain ⟨m, _, rfl⟩ := List.mem_map.1 ht
      trivial
  repeat' (first | trivial | (intros; split))
  all_goals first | swp | skip
  all_goals first | exact key | skip

theorem program_boolOps {env : Env} {toks : List Tok} {prog : Program}
    (h : parseTokens env toks = .ok prog) : ∀ t ∈ prog.tops, TopBoolOps t := by
  unfold parseTokens at h
  simp only [StateT.run'] at h
  generalize hr : (parseProgramM env (4 * toks.length + 50))
    { toks := toks, eof := toks.getLastD { type := .EOF } } = res at h
  cases res with
  | error e => simp [Functor.map, Except.map] at h
  | ok r =>
    obtain ⟨p, s'⟩ := r
    simp only [Functor.map, Except.map, Except.ok.injEq] at h
    subst h
    exact bo_program_spec env _ _ p s' hr

/-! ### non-vacuity: `script S { if (!(flag(A) && var(B) > 3) || flag(C)) { } }` -/
section Example
private def tk (t : TT) (l : String := "") : Tok := { type := t, lit := l }
private def exToks : List Tok :=
  [tk .SCRIPT, tk .IDENT "S", tk .LBRACE, tk .IF, tk .LPAREN, tk .NOT, tk .LPAREN, tk .FLAG, tk .LPAREN,
   tk .IDENT "A", tk .RPAREN, tk .AND, tk .VAR, tk .LPAREN, tk .IDENT "B", tk .RPAREN, tk .GT, tk .INT "3",
   tk .RPAREN, tk .OR, tk .FLAG, tk .LPAREN, tk .IDENT "C", tk .RPAREN, tk .RPAREN,
   tk .LBRACE, tk .RBRACE, tk .RBRACE, tk .EOF]

example : ∃ prog, parseTokens {} exToks = .ok prog ∧ prog.tops.length = 1 ∧ ∀ t ∈ prog.tops, TopBoolOps t := by
  refine ⟨_, rfl, rfl, ?_⟩
  exact program_boolOps (env := {}) (toks := exToks) rfl
end Example

#print axioms boolAll
#print axioms program_boolOps

end Pory.Parser
