import PoryProofs.ProgramFrameE
import PoryProofs.ProgramIndepMS
/-
P2f helpers (ProgramIndepMS re-run over `P2e.STopE`): the independence theorem (C17) for files whose scripts and inline
`mapscripts` scripts carry bodies of P1c's grammar. The emitter side (`topBlocksM_frame`, `indep_blocksM`,
`labelNamesM`, `mvNames_relM`) is about elaborated programs and is reused unchanged from P2b.

* `uses_allE`, `elabTopsE_self`, `compileFileE_ok_iff`, `indep_parseE`, `IndepE` (decidable), `indep_mainE`.
-/
namespace Pory.P2f
open Pory Pory.Parser Pory.C02P Pory.TopParse Pory.P2 Pory.P2b Pory.P2d Pory.P2e Pory.Emit
open Pory.StmtG (Ctx ctxOf)
open Pory.C12c

theorem uses_allE (env : Env) : ∀ (ts : List STopE) (s : PState), UsesE env domAll ts s
  | [], _ => trivial
  | t :: r, s => by
    refine ⟨?_, ?_⟩
    · cases t with
      | base t =>
        simp only [StepUsesE]
        cases hsel : selTop env t with
        | none => trivial
        | some m => exact (uses_allM env [m] s).1
      | scriptE kw md name lb body rb =>
        refine ⟨fun _ _ => trivial, ?_⟩
        split
        · exact ⟨fun _ _ => ⟨trivial, trivial⟩, fun _ _ => ⟨trivial, trivial⟩⟩
        · trivial
      | mapscriptsE kw md name lb es rb =>
        refine ⟨fun _ _ => trivial, ?_⟩
        split
        · exact ⟨fun _ _ => ⟨trivial, trivial⟩, fun _ _ => ⟨trivial, trivial⟩⟩
        · trivial
    · cases stepTopE env t s with
      | error e => trivial
      | ok q => exact uses_allE env r q.2

theorem elabTopsE_self (env : Env) (henv : env.envErrors = true) (ts : List STopE) (s0 : PState) (hb : s0.breakStack = [])
    (hc : s0.continueStack = []) (tops : List Top) (s : PState) (h : elabTopsE env ts s0 = .ok (tops, s)) :
    s.breakStack = [] ∧ s.continueStack = [] ∧ s0.nextCmdId ≤ s.nextCmdId ∧
      All2 (RelTopM (Rb 0 0 s0.nextCmdId s.nextCmdId)) tops tops ∧
      ∃ Δ, s.patches = s0.patches ++ Δ ∧ ∀ p ∈ Δ, s0.nextCmdId ≤ p.1.1 ∧ p.1.1 < s.nextCmdId := by
  have hf := elabTopsE_frame env henv domAll 0 0 ts (agree_self s0 hb hc) (uses_allE env ts s0)
  rw [h] at hf
  obtain ⟨topsB, b1, hb1, hA, hle, hr, hd⟩ := hf
  simp only [Except.ok.injEq, Prod.mk.injEq] at hb1
  obtain ⟨rfl, rfl⟩ := hb1
  obtain ⟨Δ, Δ', hp, hp', hall⟩ := hd.patches
  have : Δ' = Δ := List.append_cancel_left (hp'.symm.trans hp)
  subst this
  refine ⟨hA.ba, hA.ca, hle, hr, Δ', hp, ?_⟩
  intro p hp
  obtain ⟨x, _, hx⟩ := All2.mem_right hall p hp
  exact ⟨hx.1.2.1, hx.1.2.2⟩

theorem compileFileE_ok_iff (env : Env) (o : Opts) (eofT : Tok) (ts : List STopE) (S : Sections) :
    compileFileE env o eofT ts = .ok S ↔
      ∃ tops s, elabTopsE env ts (initState eofT) = .ok (tops, s) ∧ (textNames s).Nodup ∧
        (allMvNames tops s).Nodup ∧ sectionsOf o tops s = .ok S := by
  unfold compileFileE
  cases h : elabTopsE env ts (initState eofT) with
  | error e => simp
  | ok q =>
    obtain ⟨tops, s⟩ := q
    simp only [Except.ok.injEq, Prod.mk.injEq]
    have hf := finish_ok_iff tops s
    cases hfin : finish tops s with
    | error e =>
      rw [hfin] at hf
      have : ¬ ((textNames s).Nodup ∧ (allMvNames tops s).Nodup) := fun hn => by
        obtain ⟨p, hp⟩ := hf.2 hn; cases hp
      constructor
      · intro hh; cases hh
      · rintro ⟨t, s', ⟨rfl, rfl⟩, h1, h2, _⟩; exact absurd ⟨h1, h2⟩ this
    | ok p =>
      rw [hfin] at hf
      obtain ⟨h1, h2⟩ := hf.1 ⟨p, rfl⟩
      simp only
      constructor
      · intro hh
        refine ⟨tops, s, ⟨rfl, rfl⟩, h1, h2, ?_⟩
        cases hs : sectionsOf o tops s with
        | error e => rw [hs] at hh; cases hh
        | ok S' => rw [hs] at hh; cases hh; rfl
      · rintro ⟨t, s', ⟨rfl, rfl⟩, _, _, hs⟩
        rw [hs]

/-! ### independence, parser side -/

theorem indep_parseE (env : Env) (henv : env.envErrors = true) (eofT : Tok) (ts1 ts2 : List STopE) (tops1 : List Top) (s1 : PState)
    (h1 : elabTopsE env ts1 (initState eofT) = .ok (tops1, s1))
    (hu : UsesE env (domOf s1) ts2 (initState eofT)) :
    match elabTopsE env ts2 (initState eofT) with
    | .error e => elabTopsE env (ts1 ++ ts2) (initState eofT) = .error e
    | .ok (tops2, s2) =>
      ∃ tops2' s12 Δ', elabTopsE env (ts1 ++ ts2) (initState eofT) = .ok (tops1 ++ tops2', s12) ∧
        All2 (RelTopM (Rb s1.nextCmdId s1.nextSid 0 s2.nextCmdId)) tops2' tops2 ∧
        s12.inlineTexts = s1.inlineTexts ++ s2.inlineTexts ∧
        s12.inlineMovements = s1.inlineMovements ++ s2.inlineMovements ∧
        s12.textStatements = s1.textStatements ++ s2.textStatements ∧
        s12.patches = s1.patches ++ Δ' ∧
        All2 (relPatch (Rb s1.nextCmdId s1.nextSid 0 s2.nextCmdId)) Δ' s2.patches := by
  obtain ⟨hb1, hc1, _, _, _⟩ := elabTopsE_self env henv ts1 (initState eofT) rfl rfl tops1 s1 h1
  have hA : Agree (domOf s1) s1.nextCmdId s1.nextSid (initState eofT) s1 :=
    ⟨fun _ hv => hv, rfl, rfl, hb1, hc1, (Nat.zero_add _).symm, (Nat.zero_add _).symm,
      ⟨fun _ hk => hk, fun _ hn => hn.1, fun _ hk => hk, fun _ hn => hn.2⟩⟩
  have hf := elabTopsE_frame env henv (domOf s1) s1.nextCmdId s1.nextSid ts2 hA hu
  rw [elabTopsE_append, h1]
  cases h2 : elabTopsE env ts2 (initState eofT) with
  | error e =>
    rw [h2] at hf
    simp only [hf]
  | ok q =>
    obtain ⟨tops2, s2⟩ := q
    rw [h2] at hf
    obtain ⟨tops2', s12, hb, _, _, hr, hd⟩ := hf
    obtain ⟨Δt, ht1, ht2⟩ := hd.texts
    obtain ⟨Δm, hm1, hm2⟩ := hd.moves
    obtain ⟨Δs, hs1, hs2⟩ := hd.stmts
    obtain ⟨Δ, Δ', hp1, hp2, hall⟩ := hd.patches
    have e1 : Δt = s2.inlineTexts := by rw [ht1]; rfl
    have e2 : Δm = s2.inlineMovements := by rw [hm1]; rfl
    have e3 : Δs = s2.textStatements := by rw [hs1]; rfl
    have e4 : Δ = s2.patches := by rw [hp1]; rfl
    subst e1 e2 e3 e4
    simp only [hb]
    exact ⟨tops2', s12, Δ', rfl, hr, ht2, hm2, hs2, hp2, hall⟩

/-! ### the independence theorem -/

/-- **The side condition of independence** of the two parts of a file `ts1 ++ ts2` of the extended grammar (every
clause is a finite check on the elaborations of the two parts alone; vacuous when a part does not elaborate) —
`P2.Indep` with the `mapscripts` statements taken into account:
* `UsesE … (domOf s1)`: no token of `ts2` (incl. the tokens of its `mapscripts` statements: types, labels, row
  conditions / values, inline bodies) is spelled like a constant defined in `ts1`; the scripts AND THE INLINE
  SCRIPTS of `ts2` hoist only texts / movements that `ts1` has not hoisted, and — if they hoist something — the
  name they hoist under (the script name, resp. the GENERATED name `<Name>_<TYPE>` / `<Name>_<TYPE>_<i>`) is not a
  name under which `ts1` hoisted anything;
* no text name of one part is a text name of the other; no movement name of one part is one of the other;
* no label statement inside a script or INLINE SCRIPT of one part is a text name of the other part
  (`labelNamesM`). -/
def IndepE (env : Env) (eofT : Tok) (ts1 ts2 : List STopE) : Prop :=
  match elabTopsE env ts1 (initState eofT) with
  | .error _ => True
  | .ok (tops1, s1) =>
    UsesE env (domOf s1) ts2 (initState eofT) ∧
    match elabTopsE env ts2 (initState eofT) with
    | .error _ => True
    | .ok (tops2, s2) =>
      (∀ n ∈ textNames s1, n ∉ textNames s2) ∧ (∀ n ∈ allMvNames tops1 s1, n ∉ allMvNames tops2 s2) ∧
      (∀ n ∈ labelNamesM tops1, n ∉ textNames s2) ∧ (∀ n ∈ labelNamesM tops2, n ∉ textNames s1)

/-- **Independence (C17), extended grammar.** -/
theorem indep_mainE (env : Env) (henv : env.envErrors = true) (o : Opts) (eofT : Tok) (ts1 ts2 : List STopE)
    (h : IndepE env eofT ts1 ts2) (S : Sections) :
    compileFileE env o eofT (ts1 ++ ts2) = .ok S ↔
      ∃ S1 S2, compileFileE env o eofT ts1 = .ok S1 ∧ compileFileE env o eofT ts2 = .ok S2 ∧
        S = S1.append S2 := by
  simp only [compileFileE_ok_iff]
  unfold IndepE at h
  cases h1 : elabTopsE env ts1 (initState eofT) with
  | error e =>
    constructor
    · rintro ⟨tops, s, he, _⟩
      rw [elabTopsE_append, h1] at he
      cases he
    · rintro ⟨S1, S2, ⟨tops, s, he, _⟩, _⟩
      cases he
  | ok q1 =>
    obtain ⟨tops1, s1⟩ := q1
    rw [h1] at h
    obtain ⟨hu, h⟩ := h
    have hp := indep_parseE env henv eofT ts1 ts2 tops1 s1 h1 hu
    cases h2 : elabTopsE env ts2 (initState eofT) with
    | error e =>
      rw [h2] at hp
      constructor
      · rintro ⟨tops, s, he, _⟩
        rw [hp] at he
        cases he
      · rintro ⟨S1, S2, _, ⟨tops, s, he, _⟩, _⟩
        cases he
    | ok q2 =>
      obtain ⟨tops2, s2⟩ := q2
      rw [h2] at hp h
      obtain ⟨hn1, hn2, hn3, hn4⟩ := h
      obtain ⟨tops2', s12, Δ', he12, hr2, ht, hm, hs, hpat, hall⟩ := hp
      obtain ⟨_, _, _, hr1, Δ1, hΔ1, hb1⟩ := elabTopsE_self env henv ts1 (initState eofT) rfl rfl tops1 s1 h1
      have hp1 : ∀ p ∈ s1.patches, p.1.1 < s1.nextCmdId := by
        intro p hp
        rw [hΔ1] at hp
        exact (hb1 p (by simpa [initState] using hp)).2
      have hperm : (textNames s12).Perm (textNames s1 ++ textNames s2) := by
        unfold textNames
        rw [ht, hs, ← List.map_append]
        exact (perm_four _ _ _ _).map _
      have hmv : (allMvNames (tops1 ++ tops2') s12).Perm (allMvNames tops1 s1 ++ allMvNames tops2 s2) := by
        unfold allMvNames
        rw [mvNames_append, mvNames_relM hr2, hm, List.map_append]
        exact perm_four _ _ _ _
      have hmem : ∀ n, n ∈ textNames s12 ↔ n ∈ textNames s1 ∨ n ∈ textNames s2 := by
        intro n; rw [hperm.mem_iff, List.mem_append]
      have hsec : sectionsOf o (tops1 ++ tops2') s12 =
          match sectionsOf o tops1 s1 with
          | .error e => .error e
          | .ok S1 =>
            match sectionsOf o tops2 s2 with
            | .error e => .error e
            | .ok S2 => .ok (S1.append S2) := by
        unfold sectionsOf
        rw [indep_blocksM o tops1 tops2 tops2' s1 s2 s12 Δ' s2.nextCmdId hr1 hp1 hr2 hpat hall
          (fun n hn => contains_congr (by rw [hmem]; exact ⟨fun h => h.resolve_right (hn3 n hn), Or.inl⟩))
          (fun n hn => contains_congr (by rw [hmem]; exact ⟨fun h => h.resolve_left (hn4 n hn), Or.inr⟩))]
        cases topBlocks o s1.patches (textNames s1) tops1 with
        | error e => rfl
        | ok b1 =>
          cases topBlocks o s2.patches (textNames s2) tops2 with
          | error e => rfl
          | ok b2 => simp [Sections.append, ht, hm, hs]
      constructor
      · rintro ⟨tops, s, he, hnd1, hnd2, hsS⟩
        rw [he12] at he
        simp only [Except.ok.injEq, Prod.mk.injEq] at he
        obtain ⟨rfl, rfl⟩ := he
        rw [hperm.nodup_iff, nodup_append_iff] at hnd1
        rw [hmv.nodup_iff, nodup_append_iff] at hnd2
        rw [hsec] at hsS
        cases hs1 : sectionsOf o tops1 s1 with
        | error e => rw [hs1] at hsS; cases hsS
        | ok S1 =>
          rw [hs1] at hsS
          cases hs2 : sectionsOf o tops2 s2 with
          | error e => rw [hs2] at hsS; cases hsS
          | ok S2 =>
            rw [hs2] at hsS
            simp only [Except.ok.injEq] at hsS
            exact ⟨S1, S2, ⟨tops1, s1, rfl, hnd1.1, hnd2.1, hs1⟩, ⟨tops2, s2, rfl, hnd1.2.1, hnd2.2.1, hs2⟩,
              hsS.symm⟩
      · rintro ⟨S1, S2, ⟨t1, s1', he1, hd1, hd2, hs1⟩, ⟨t2, s2', he2, hd3, hd4, hs2⟩, rfl⟩
        simp only [Except.ok.injEq, Prod.mk.injEq] at he1 he2
        obtain ⟨rfl, rfl⟩ := he1
        obtain ⟨rfl, rfl⟩ := he2
        refine ⟨tops1 ++ tops2', s12, he12, ?_, ?_, ?_⟩
        · rw [hperm.nodup_iff, nodup_append_iff]; exact ⟨hd1, hd3, hn1⟩
        · rw [hmv.nodup_iff, nodup_append_iff]; exact ⟨hd2, hd4, hn2⟩
        · rw [hsec, hs1, hs2]

/-! ### decidability of the side condition -/

instance (env : Env) (D : Dom) [Dom.Dec D] (t : STopE) (s : PState) : Decidable (StepUsesE env D t s) := by
  cases t with
  | base t =>
    have d : Decidable (match selTop env t with
        | some m => StepUsesM env D m s
        | none => True) := by
      cases selTop env t with
      | none => exact isTrue trivial
      | some m => exact (inferInstance : Decidable (StepUsesM env D m s))
    exact d
  | scriptE kw md name lb body rb =>
    have d2 : Decidable (match P1c.elabE env name.lit (ctxOf s) body with
        | .ok (_, imp, _) => ImpUses D imp
        | .error _ => True) := by
      cases P1c.elabE env name.lit (ctxOf s) body with
      | error e => exact isTrue trivial
      | ok q => obtain ⟨a, imp, c⟩ := q; exact (inferInstance : Decidable (ImpUses D imp))
    exact (inferInstance : Decidable ((∀ tok ∈ printTopE (.scriptE kw md name lb body rb), D.lit tok.lit) ∧
      (match P1c.elabE env name.lit (ctxOf s) body with
        | .ok (_, imp, _) => ImpUses D imp
        | .error _ => True)))
  | mapscriptsE kw md name lb es rb =>
    have d2 : Decidable (match elabEntriesE env name.lit es (ctxOf s) with
        | .ok (_, _, imp, _) => ImpUses D imp
        | .error _ => True) := by
      cases elabEntriesE env name.lit es (ctxOf s) with
      | error e => exact isTrue trivial
      | ok q => obtain ⟨a, b, imp, c⟩ := q; exact (inferInstance : Decidable (ImpUses D imp))
    exact (inferInstance : Decidable ((∀ tok ∈ printTopE (.mapscriptsE kw md name lb es rb), D.lit tok.lit) ∧
      (match elabEntriesE env name.lit es (ctxOf s) with
        | .ok (_, _, imp, _) => ImpUses D imp
        | .error _ => True)))

theorem usesE_cons_ok {env : Env} {D : Dom} {t : STopE} {r : List STopE} {s s1 : PState} {o : Option Top}
    (h : stepTopE env t s = .ok (o, s1)) : UsesE env D (t :: r) s ↔ StepUsesE env D t s ∧ UsesE env D r s1 := by
  simp only [UsesE, h]

theorem usesE_cons_err {env : Env} {D : Dom} {t : STopE} {r : List STopE} {s : PState} {e : PFail}
    (h : stepTopE env t s = .error e) : UsesE env D (t :: r) s ↔ StepUsesE env D t s := by
  simp only [UsesE, h, and_true]

def decUsesE (env : Env) (D : Dom) [Dom.Dec D] : (ts : List STopE) → (s : PState) → Decidable (UsesE env D ts s)
  | [], _ => isTrue trivial
  | t :: r, s =>
    match h : stepTopE env t s with
    | .ok (_, s1) =>
      have := decUsesE env D r s1
      decidable_of_iff _ (usesE_cons_ok h).symm
    | .error _ => decidable_of_iff _ (usesE_cons_err h).symm

instance (env : Env) (D : Dom) [Dom.Dec D] (ts : List STopE) (s : PState) : Decidable (UsesE env D ts s) :=
  decUsesE env D ts s

instance (env : Env) (eofT : Tok) (ts1 ts2 : List STopE) : Decidable (IndepE env eofT ts1 ts2) := by
  unfold IndepE
  cases elabTopsE env ts1 (initState eofT) with
  | error e => exact isTrue trivial
  | ok q1 =>
    obtain ⟨tops1, s1⟩ := q1
    cases elabTopsE env ts2 (initState eofT) with
    | error e =>
      exact (inferInstance : Decidable (UsesE env (domOf s1) ts2 (initState eofT) ∧ True))
    | ok q2 =>
      obtain ⟨tops2, s2⟩ := q2
      exact (inferInstance : Decidable (UsesE env (domOf s1) ts2 (initState eofT) ∧
        (∀ n ∈ textNames s1, n ∉ textNames s2) ∧ (∀ n ∈ allMvNames tops1 s1, n ∉ allMvNames tops2 s2) ∧
        (∀ n ∈ labelNamesM tops1, n ∉ textNames s2) ∧ (∀ n ∈ labelNamesM tops2, n ∉ textNames s1)))

end Pory.P2f
