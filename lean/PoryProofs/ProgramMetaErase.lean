import PoryProofs.ConstExpand
import PoryModel.EmitRender
/-
P2c helpers (C13 for whole files), emitter side: **the emitter never reads `Tok.type`** of a switch operand
token or of a case value token.

`emitScript_erase` : `eraseL body' = eraseL body → emitScript o ps tl { s with body := body' } =
emitScript o ps tl { s with body := body }` (same lines or same error; all options) — by commuting `eraseL`
(C13c's normalisation of elaborated statements) through the worklist of `PoryModel/Emitter.lean`
(`eraseWS`: every chunk of the tables erased) and through `PoryModel/EmitRender.lean`.
-/
namespace Pory.P2c
open Pory Pory.Emit Pory.C13c

/-! ### `eraseL` as maps -/

theorem eraseL_eq_map : ∀ (l : List Stmt), eraseL l = l.map eraseS
  | [] => by rw [eraseL]; rfl
  | x :: r => by rw [eraseL, eraseL_eq_map r]; rfl

theorem eraseElifs_eq_map : ∀ (es : List (BoolExpr × List Stmt)),
    eraseElifs es = es.map fun p => (p.1, p.2.map eraseS)
  | [] => by rw [eraseElifs]; rfl
  | (c, b) :: r => by rw [eraseElifs, eraseElifs_eq_map r, eraseL_eq_map]; rfl

theorem eraseCases_eq_map : ∀ (cs : List SwitchCase),
    eraseCases cs = cs.map fun p => (eraseTy p.1, p.2.1, p.2.2.map eraseS)
  | [] => by rw [eraseCases]; rfl
  | (v, d, b) :: r => by rw [eraseCases, eraseCases_eq_map r, eraseL_eq_map]; rfl

/-! ### erased chunks and worklist states -/

def eraseCaseB (sc : SwitchCaseBranch) : SwitchCaseBranch := { sc with value := eraseTy sc.value }

def eraseBranch : Branch → Branch
  | .switch_ op cases d dest => .switch_ (eraseTy op) (cases.map eraseCaseB) d dest
  | b => b

def eraseChunk (c : Chunk) : Chunk :=
  { c with statements := c.statements.map eraseS, branch := eraseBranch c.branch }

def eraseWS (s : WS) : WS := { s with final := s.final.map eraseChunk, queue := s.queue.map eraseChunk }

/-- the result of a step that can fail -/
def mapOk {α : Type} (f : α → α) : Except EFail α → Except EFail α
  | .error e => .error e
  | .ok a => .ok (f a)

@[simp] theorem mapOk_error {α : Type} (f : α → α) (e : EFail) : mapOk f (.error e) = .error e := rfl
@[simp] theorem mapOk_ok {α : Type} (f : α → α) (a : α) : mapOk f (.ok a) = .ok (f a) := rfl

theorem eraseChunk_id (c : Chunk) : (eraseChunk c).id = c.id := rfl

theorem setFinal_erase (s : WS) (c : Chunk) : (eraseWS s).setFinal (eraseChunk c) = eraseWS (s.setFinal c) := by
  simp only [WS.setFinal, eraseWS, List.map_cons, List.filter_map, eraseChunk_id]
  rfl

theorem splitChunkForBranch_erase (c : Chunk) (i : Nat) (s : WS) :
    splitChunkForBranch (eraseChunk c) i (eraseWS s) =
      (eraseWS (splitChunkForBranch c i s).1, (splitChunkForBranch c i s).2) := by
  unfold splitChunkForBranch
  simp only [eraseChunk, List.length_map]
  split
  · rfl
  · simp only [eraseWS, List.map_append, List.map_cons, List.map_nil, List.map_drop, eraseChunk, eraseBranch]

theorem keepStatementsAfterJump_erase (c : Chunk) (i : Nat) (s : WS) :
    keepStatementsAfterJump (eraseChunk c) i (eraseWS s) = eraseWS (keepStatementsAfterJump c i s) := by
  unfold keepStatementsAfterJump
  simp only [eraseChunk, List.length_map]
  split
  · rfl
  · simp only [eraseWS, List.map_append, List.map_cons, List.map_nil, List.map_drop, eraseChunk, eraseBranch]

theorem eraseWS_counter (s : WS) (n : Nat) : eraseWS { s with counter := n } = { eraseWS s with counter := n } := rfl

/-- unfold the erasure of a worklist state built by appending chunks -/
macro "esimp" : tactic => `(tactic|
  simp only [eraseWS, List.map_append, List.map_cons, List.map_nil, eraseChunk, eraseBranch, mapOk_ok, mapOk_error])

theorem splitBool_erase : ∀ (e : BoolExpr) (succ : Nat) (failure : Option Nat) (s : WS),
    splitBool e succ failure (eraseWS s) =
      mapOk (fun r => (eraseWS r.1, r.2)) (splitBool e succ failure s)
  | .leaf e, succ, failure, s => by
    simp only [splitBool]
    esimp
  | .bin l op r, succ, failure, s => by
    simp only [splitBool]
    have hc : (eraseWS s).counter = s.counter := rfl
    split
    · rw [hc, ← eraseWS_counter, splitBool_erase l]
      cases splitBool l (s.counter + 1) failure { s with counter := s.counter + 1 } with
      | error e => rfl
      | ok q =>
        simp only [mapOk_ok, splitBool_erase r]
        cases splitBool r succ failure q.1 with
        | error e => rfl
        | ok q2 => esimp
    · split
      · rw [hc, ← eraseWS_counter, splitBool_erase l]
        cases splitBool l succ (some (s.counter + 1)) { s with counter := s.counter + 1 } with
        | error e => rfl
        | ok q =>
          simp only [mapOk_ok, splitBool_erase r]
          cases splitBool r succ failure q.1 with
          | error e => rfl
          | ok q2 => esimp
      · rfl

theorem splitElifs_erase : ∀ (elifs : List (BoolExpr × List Stmt)) (ids : List Nat) (lastFail : Option Nat)
    (s : WS),
    splitElifs (elifs.map fun p => (p.1, p.2.map eraseS)) ids lastFail (eraseWS s) =
      mapOk (fun r => (eraseWS r.1, r.2)) (splitElifs elifs ids lastFail s)
  | [], _, _, _ => by simp only [List.map_nil, splitElifs, mapOk_ok]
  | (e, b) :: restE, [], _, _ => by simp only [List.map_cons, splitElifs, mapOk_ok]
  | (e, b) :: restE, id :: restI, lastFail, s => by
    simp only [List.map_cons, splitElifs, splitElifs_erase restE restI lastFail s]
    cases splitElifs restE restI lastFail s with
    | error err => rfl
    | ok q =>
      simp only [mapOk_ok, splitBool_erase]
      cases splitBool e id q.2 q.1 with
      | error err => rfl
      | ok q2 => rfl

theorem foldl_erase {α : Type} (f : α → α) (step : WS × List Nat → α → WS × List Nat)
    (h : ∀ w ids e, step (eraseWS w, ids) (f e) = (eraseWS (step (w, ids) e).1, (step (w, ids) e).2)) :
    ∀ (l : List α) (w : WS) (ids : List Nat),
      (l.map f).foldl step (eraseWS w, ids) =
        (eraseWS (l.foldl step (w, ids)).1, (l.foldl step (w, ids)).2)
  | [], _, _ => rfl
  | x :: r, w, ids => by
    simp only [List.map_cons, List.foldl_cons, h]
    exact foldl_erase f step h r (step (w, ids) x).1 (step (w, ids) x).2

/-! ### `createIf` in named steps -/

/-- allocate an id and queue a chunk with the given statements -/
def allocPush (returnID : Option Nat) (st : List Stmt) (s : WS) : WS × Nat :=
  ({ counter := s.counter + 1, final := s.final,
     queue := s.queue ++ [{ id := s.counter + 1, returnID := returnID, statements := st }],
     brk := s.brk, cont := s.cont }, s.counter + 1)

theorem allocPush_erase (returnID : Option Nat) (st : List Stmt) (s : WS) :
    allocPush returnID (st.map eraseS) (eraseWS s) =
      (eraseWS (allocPush returnID st s).1, (allocPush returnID st s).2) := by
  simp only [allocPush]
  esimp

def elifStep (returnID : Option Nat) (acc : WS × List Nat) (e : BoolExpr × List Stmt) : WS × List Nat :=
  ((allocPush returnID e.2 acc.1).1, acc.2 ++ [(allocPush returnID e.2 acc.1).2])

def elsePart (returnID : Option Nat) (els : Option (List Stmt)) (s : WS) : WS × Option Nat :=
  match els with
  | some st => ((allocPush returnID st s).1, some (allocPush returnID st s).2)
  | none => (s, none)

def ifTail (cond : BoolExpr) (consId : Nat) (returnID : Option Nat) (elifs : List (BoolExpr × List Stmt))
    (elifIds : List Nat) (elseId : Option Nat) (s : WS) : Except EFail (WS × Branch × Option Nat) :=
  match splitElifs elifs elifIds (match elseId with | some id => some id | none => returnID) s with
  | .error e => .error e
  | .ok (s, afterCons) =>
    match splitBool cond consId afterCons s with
    | .error e => .error e
    | .ok (s, entry) => .ok (s, .jump entry, returnID)

theorem createIf_eq (cond : BoolExpr) (body : List Stmt) (elifs : List (BoolExpr × List Stmt))
    (els : Option (List Stmt)) (c : Chunk) (i : Nat) (s : WS) :
    createIf cond body elifs els c i s =
      ifTail cond (allocPush (splitChunkForBranch c i s).2 body (splitChunkForBranch c i s).1).2
        (splitChunkForBranch c i s).2 elifs
        (elifs.foldl (elifStep (splitChunkForBranch c i s).2)
          ((allocPush (splitChunkForBranch c i s).2 body (splitChunkForBranch c i s).1).1, [])).2
        (elsePart (splitChunkForBranch c i s).2 els
          (elifs.foldl (elifStep (splitChunkForBranch c i s).2)
            ((allocPush (splitChunkForBranch c i s).2 body (splitChunkForBranch c i s).1).1, [])).1).2
        (elsePart (splitChunkForBranch c i s).2 els
          (elifs.foldl (elifStep (splitChunkForBranch c i s).2)
            ((allocPush (splitChunkForBranch c i s).2 body (splitChunkForBranch c i s).1).1, [])).1).1 := by
  cases els <;> rfl

theorem createIf_erase (cond : BoolExpr) (body : List Stmt) (elifs : List (BoolExpr × List Stmt))
    (els : Option (List Stmt)) (c : Chunk) (i : Nat) (s : WS) :
    createIf cond (body.map eraseS) (elifs.map fun p => (p.1, p.2.map eraseS)) (els.map (·.map eraseS))
        (eraseChunk c) i (eraseWS s) =
      mapOk (fun r => (eraseWS r.1, r.2)) (createIf cond body elifs els c i s) := by
  rw [createIf_eq, createIf_eq, splitChunkForBranch_erase]
  simp only [allocPush_erase]
  rw [foldl_erase (fun p : BoolExpr × List Stmt => (p.1, p.2.map eraseS)) _
    (fun w ids e => by simp only [elifStep, allocPush_erase]) elifs]
  generalize (elifs.foldl (elifStep (splitChunkForBranch c i s).2)
    ((allocPush (splitChunkForBranch c i s).2 body (splitChunkForBranch c i s).1).1, [])) = F
  have hels : elsePart (splitChunkForBranch c i s).2 (els.map (·.map eraseS)) (eraseWS F.1) =
      (eraseWS (elsePart (splitChunkForBranch c i s).2 els F.1).1,
        (elsePart (splitChunkForBranch c i s).2 els F.1).2) := by
    cases els with
    | none => rfl
    | some st => simp only [Option.map_some, elsePart, allocPush_erase]
  simp only [hels, ifTail, splitElifs_erase]
  cases splitElifs elifs F.2 _ (elsePart (splitChunkForBranch c i s).2 els F.1).1 with
  | error e => rfl
  | ok q =>
    simp only [mapOk_ok, splitBool_erase]
    cases splitBool cond _ q.2 q.1 with
    | error e => rfl
    | ok q2 => rfl

/-! ### `createWhile`, `createDoWhile` -/

def whileTail (cond : Option BoolExpr) (body : List Stmt) (returnID : Option Nat) (headerId consId : Nat)
    (s : WS) : Except EFail (WS × Branch × Option Nat × Nat) :=
  match cond with
  | none =>
    .ok ({ s with queue := s.queue ++ [{ id := consId, returnID := some headerId, statements := body },
            { id := headerId, returnID := returnID, branch := .jump consId }] }, .jump headerId, returnID, headerId)
  | some e =>
    match splitBool e consId returnID s with
    | .error err => .error err
    | .ok (s, entry) =>
      .ok ({ s with queue := s.queue ++ [{ id := consId, returnID := some headerId, statements := body },
              { id := headerId, returnID := returnID, branch := .jump entry }] }, .jump headerId, returnID, headerId)

theorem createWhile_eq (cond : Option BoolExpr) (body : List Stmt) (c : Chunk) (i : Nat) (s : WS) :
    createWhile cond body c i s =
      whileTail cond body (splitChunkForBranch c i s).2 ((splitChunkForBranch c i s).1.counter + 1)
        ((splitChunkForBranch c i s).1.counter + 1 + 1)
        { (splitChunkForBranch c i s).1 with counter := (splitChunkForBranch c i s).1.counter + 1 + 1 } := by
  cases cond <;> rfl

theorem whileTail_erase (cond : Option BoolExpr) (body : List Stmt) (returnID : Option Nat)
    (headerId consId : Nat) (s : WS) :
    whileTail cond (body.map eraseS) returnID headerId consId (eraseWS s) =
      mapOk (fun r => (eraseWS r.1, r.2)) (whileTail cond body returnID headerId consId s) := by
  cases cond with
  | none => simp only [whileTail]; esimp
  | some e =>
    simp only [whileTail, splitBool_erase]
    cases splitBool e consId returnID s with
    | error err => rfl
    | ok q => esimp

theorem createWhile_erase (cond : Option BoolExpr) (body : List Stmt) (c : Chunk) (i : Nat) (s : WS) :
    createWhile cond (body.map eraseS) (eraseChunk c) i (eraseWS s) =
      mapOk (fun r => (eraseWS r.1, r.2)) (createWhile cond body c i s) := by
  rw [createWhile_eq, createWhile_eq, splitChunkForBranch_erase]
  exact whileTail_erase cond body _ _ _
    { (splitChunkForBranch c i s).1 with counter := (splitChunkForBranch c i s).1.counter + 1 + 1 }

def doWhileTail (cond : BoolExpr) (body : List Stmt) (returnID : Option Nat) (headerId consId : Nat)
    (s : WS) : Except EFail (WS × Branch × Option Nat × Nat) :=
  match splitBool cond consId returnID s with
  | .error err => .error err
  | .ok (s, entry) =>
    .ok ({ s with queue := s.queue ++ [{ id := consId, returnID := some headerId, statements := body },
            { id := headerId, returnID := returnID, branch := .jump entry }] }, .jump consId, returnID, consId)

theorem createDoWhile_eq (cond : BoolExpr) (body : List Stmt) (c : Chunk) (i : Nat) (s : WS) :
    createDoWhile cond body c i s =
      doWhileTail cond body (splitChunkForBranch c i s).2 ((splitChunkForBranch c i s).1.counter + 1)
        ((splitChunkForBranch c i s).1.counter + 1 + 1)
        { (splitChunkForBranch c i s).1 with counter := (splitChunkForBranch c i s).1.counter + 1 + 1 } := rfl

theorem doWhileTail_erase (cond : BoolExpr) (body : List Stmt) (returnID : Option Nat)
    (headerId consId : Nat) (s : WS) :
    doWhileTail cond (body.map eraseS) returnID headerId consId (eraseWS s) =
      mapOk (fun r => (eraseWS r.1, r.2)) (doWhileTail cond body returnID headerId consId s) := by
  simp only [doWhileTail, splitBool_erase]
  cases splitBool cond consId returnID s with
  | error err => rfl
  | ok q => esimp

theorem createDoWhile_erase (cond : BoolExpr) (body : List Stmt) (c : Chunk) (i : Nat) (s : WS) :
    createDoWhile cond (body.map eraseS) (eraseChunk c) i (eraseWS s) =
      mapOk (fun r => (eraseWS r.1, r.2)) (createDoWhile cond body c i s) := by
  rw [createDoWhile_eq, createDoWhile_eq, splitChunkForBranch_erase]
  exact doWhileTail_erase cond body _ _ _
    { (splitChunkForBranch c i s).1 with counter := (splitChunkForBranch c i s).1.counter + 1 + 1 }

/-! ### `createSwitch` -/

/-- the erasure of one switch case -/
def ec (p : SwitchCase) : SwitchCase := (eraseTy p.1, p.2.1, p.2.2.map eraseS)

theorem switchBodies_cons (returnID : Option Nat) (v : Tok) (d : Bool) (body : List Stmt) (rest : List SwitchCase)
    (s : WS) :
    switchBodies returnID ((v, d, body) :: rest) s =
      if body.length > 0 then
        ((switchBodies returnID rest (allocPush returnID body s).1).1,
          some (allocPush returnID body s).2 :: (switchBodies returnID rest (allocPush returnID body s).1).2)
      else ((switchBodies returnID rest s).1, none :: (switchBodies returnID rest s).2) := by
  rw [switchBodies]
  split <;> rfl

theorem switchBodies_erase (returnID : Option Nat) : ∀ (cases : List SwitchCase) (s : WS),
    switchBodies returnID (cases.map ec) (eraseWS s) =
      (eraseWS (switchBodies returnID cases s).1, (switchBodies returnID cases s).2)
  | [], s => rfl
  | (v, d, body) :: rest, s => by
    simp only [List.map_cons, ec, switchBodies_cons, List.length_map, allocPush_erase]
    split
    · rw [switchBodies_erase returnID rest]
    · rw [switchBodies_erase returnID rest]

theorem zip_map_ec : ∀ (cases : List SwitchCase) (ids : List (Option Nat)),
    (cases.map ec).zip ids = (cases.zip ids).map fun cb => (ec cb.1, cb.2)
  | [], _ => rfl
  | _ :: _, [] => rfl
  | c :: r, i :: ids => by simp only [List.map_cons, List.zip_cons_cons, zip_map_ec r ids]

theorem switchDefaultDest_erase (cases : List SwitchCase) (ids : List (Option Nat)) :
    switchDefaultDest (cases.map ec) ids = switchDefaultDest cases ids := by
  unfold switchDefaultDest
  rw [zip_map_ec, List.foldl_map]
  rfl

theorem switchBranchCases_erase (cases : List SwitchCase) (ids : List (Option Nat)) :
    switchBranchCases (cases.map ec) ids = (switchBranchCases cases ids).map eraseCaseB := by
  unfold switchBranchCases
  rw [zip_map_ec, List.filterMap_map, List.map_filterMap]
  congr 1
  funext ⟨⟨v, d, b⟩, id⟩
  cases d <;> cases id <;> rfl

theorem switchTrailing_erase (cases : List SwitchCase) (ids : List (Option Nat)) :
    switchTrailing (cases.map ec) ids = (switchTrailing cases ids).map ec := by
  unfold switchTrailing
  rw [zip_map_ec, List.filter_map, List.map_map, List.map_map]
  rfl

theorem switchNeedsEmpty_erase (cases : List SwitchCase) (ids : List (Option Nat)) :
    switchNeedsEmpty (cases.map ec) ids = switchNeedsEmpty cases ids := by
  unfold switchNeedsEmpty
  rw [switchDefaultDest_erase, switchTrailing_erase, List.length_map]

theorem switchBranchOf_erase (operand : Tok) (cases : List SwitchCase) (ids : List (Option Nat)) (eid : Nat)
    (returnID : Option Nat) :
    switchBranchOf (eraseTy operand) (cases.map ec) ids eid returnID =
      eraseBranch (switchBranchOf operand cases ids eid returnID) := by
  unfold switchBranchOf
  simp only [switchDefaultDest_erase, switchBranchCases_erase, switchTrailing_erase, switchNeedsEmpty_erase,
    eraseBranch]
  split
  · simp only [List.map_append, List.map_map]
    rfl
  · rfl

theorem modify_erase (br : Branch) : ∀ (q : List Chunk) (n : Nat),
    (q.map eraseChunk).modify n (fun ch => { ch with branch := eraseBranch br }) =
      (q.modify n (fun ch => { ch with branch := br })).map eraseChunk
  | [], _ => by simp only [List.map_nil, List.modify_nil]
  | c :: r, 0 => by simp only [List.map_cons, List.modify_zero_cons]; rfl
  | c :: r, n + 1 => by simp only [List.map_cons, List.modify_succ_cons, modify_erase br r n]

def switchTail (operand : Tok) (cases : List SwitchCase) (returnID : Option Nat) (switchId qlen : Nat) (s : WS) :
    WS × Branch × Option Nat × Nat :=
  if (switchBodies returnID cases s).2.all (·.isNone) then
    ((switchBodies returnID cases s).1, .jump switchId, returnID, switchId)
  else
    let s1 := (switchBodies returnID cases s).1
    let bodyIds := propagateBack (switchBodies returnID cases s).2
    let se : WS × Nat :=
      if switchNeedsEmpty cases bodyIds then
        ({ counter := s1.counter + 1, final := s1.final,
           queue := s1.queue ++ [{ id := s1.counter + 1, returnID := returnID }], brk := s1.brk, cont := s1.cont },
          s1.counter + 1)
      else (s1, 0)
    ({ se.1 with queue := se.1.queue.modify qlen fun ch =>
        { ch with branch := switchBranchOf operand cases bodyIds se.2 returnID } }, .jump switchId, returnID, switchId)

theorem createSwitch_eq (operand : Tok) (cases : List SwitchCase) (c : Chunk) (i : Nat) (s : WS) :
    createSwitch operand cases c i s =
      switchTail operand cases (splitChunkForBranch c i s).2 ((splitChunkForBranch c i s).1.counter + 1)
        (splitChunkForBranch c i s).1.queue.length
        { counter := (splitChunkForBranch c i s).1.counter + 1, final := (splitChunkForBranch c i s).1.final,
          queue := (splitChunkForBranch c i s).1.queue ++
            [{ id := (splitChunkForBranch c i s).1.counter + 1, returnID := (splitChunkForBranch c i s).2 }],
          brk := (splitChunkForBranch c i s).1.brk, cont := (splitChunkForBranch c i s).1.cont } := by
  rfl

theorem switchTail_erase (operand : Tok) (cases : List SwitchCase) (returnID : Option Nat) (switchId qlen : Nat)
    (s : WS) :
    switchTail (eraseTy operand) (cases.map ec) returnID switchId qlen (eraseWS s) =
      (eraseWS (switchTail operand cases returnID switchId qlen s).1,
        (switchTail operand cases returnID switchId qlen s).2) := by
  unfold switchTail
  simp only [switchBodies_erase, switchNeedsEmpty_erase, switchBranchOf_erase]
  split
  · rfl
  · split
    · have e : ∀ (q : List Chunk) (n : Nat) (r : Option Nat),
          q.map eraseChunk ++ [({ id := n, returnID := r } : Chunk)] =
            (q ++ [({ id := n, returnID := r } : Chunk)]).map eraseChunk := by
        intro q n r; rw [List.map_append]; rfl
      simp only [eraseWS, e, modify_erase]
    · simp only [eraseWS, modify_erase]

theorem createSwitch_erase (operand : Tok) (cases : List SwitchCase) (c : Chunk) (i : Nat) (s : WS) :
    createSwitch (eraseTy operand) (cases.map ec) (eraseChunk c) i (eraseWS s) =
      (eraseWS (createSwitch operand cases c i s).1, (createSwitch operand cases c i s).2) := by
  rw [createSwitch_eq, createSwitch_eq, splitChunkForBranch_erase]
  generalize splitChunkForBranch c i s = p
  have hq : (eraseWS p.1).queue.length = p.1.queue.length := by
    simp only [eraseWS, List.length_map]
  have e :
      (⟨(eraseWS p.1).counter + 1, (eraseWS p.1).final,
        (eraseWS p.1).queue ++ [{ id := (eraseWS p.1).counter + 1, returnID := p.2 }],
        (eraseWS p.1).brk, (eraseWS p.1).cont⟩ : WS) =
      eraseWS ⟨p.1.counter + 1, p.1.final, p.1.queue ++ [{ id := p.1.counter + 1, returnID := p.2 }],
        p.1.brk, p.1.cont⟩ := by
    esimp
  simp only [hq, e]
  exact switchTail_erase operand cases _ _ _ _

/-! ### the worklist -/

theorem eraseS_ite (t : Tok) (c : BoolExpr) (b : List Stmt) (es : List (BoolExpr × List Stmt))
    (e : Option (List Stmt)) :
    eraseS (.ite t c b es e) =
      .ite t c (b.map eraseS) (es.map fun p => (p.1, p.2.map eraseS)) (e.map (·.map eraseS)) := by
  cases e <;> simp [eraseS, eraseL_eq_map, eraseElifs_eq_map]
theorem eraseS_while (t : Tok) (sid : Nat) (c : Option BoolExpr) (b : List Stmt) :
    eraseS (.while_ t sid c b) = .while_ t sid c (b.map eraseS) := by simp [eraseS, eraseL_eq_map]
theorem eraseS_doWhile (t : Tok) (sid : Nat) (c : BoolExpr) (b : List Stmt) :
    eraseS (.doWhile t sid c b) = .doWhile t sid c (b.map eraseS) := by simp [eraseS, eraseL_eq_map]
theorem eraseS_switch (t : Tok) (sid : Nat) (op : Tok) (cs : List SwitchCase) :
    eraseS (.switch_ t sid op cs) = .switch_ t sid (eraseTy op) (cs.map ec) := by
  simp only [eraseS, eraseCases_eq_map]; rfl
theorem eraseS_cmd (c : Cmd) : eraseS (.cmd c) = .cmd c := by simp [eraseS]
theorem eraseS_label (t : Tok) (n : String) (g : Bool) : eraseS (.label t n g) = .label t n g := by simp [eraseS]
theorem eraseS_brk (t : Tok) (sid : Nat) : eraseS (.brk t sid) = .brk t sid := by simp [eraseS]
theorem eraseS_cont (t : Tok) (sid : Nat) : eraseS (.cont t sid) = .cont t sid := by simp [eraseS]

theorem scanSimple_erase : ∀ (l : List Stmt) (i len : Nat),
    scanSimple (l.map eraseS) i len = scanSimple l i len
  | [], _, _ => rfl
  | .cmd c :: r, i, len => by
    simp only [List.map_cons, eraseS_cmd, scanSimple, scanSimple_erase r]
  | .label t n g :: r, i, len => by
    simp only [List.map_cons, eraseS_label, scanSimple, scanSimple_erase r]
  | .ite .. :: r, i, len => by simp only [List.map_cons, eraseS_ite, scanSimple]
  | .while_ .. :: r, i, len => by simp only [List.map_cons, eraseS_while, scanSimple]
  | .doWhile .. :: r, i, len => by simp only [List.map_cons, eraseS_doWhile, scanSimple]
  | .brk .. :: r, i, len => by simp only [List.map_cons, eraseS_brk, scanSimple]
  | .cont .. :: r, i, len => by simp only [List.map_cons, eraseS_cont, scanSimple]
  | .switch_ .. :: r, i, len => by simp only [List.map_cons, eraseS_switch, scanSimple]

/-- the branch a `create…` function returns is a jump: erasing does nothing -/
theorem createIf_jump {cond : BoolExpr} {body : List Stmt} {elifs : List (BoolExpr × List Stmt)}
    {els : Option (List Stmt)} {c : Chunk} {i : Nat} {s : WS} {q : WS × Branch × Option Nat}
    (h : createIf cond body elifs els c i s = .ok q) : eraseBranch q.2.1 = q.2.1 := by
  rw [createIf_eq] at h
  unfold ifTail at h
  split at h
  · cases h
  · split at h
    · cases h
    · cases h; rfl

theorem createWhile_jump {cond : Option BoolExpr} {body : List Stmt} {c : Chunk} {i : Nat} {s : WS}
    {q : WS × Branch × Option Nat × Nat} (h : createWhile cond body c i s = .ok q) :
    eraseBranch q.2.1 = q.2.1 := by
  rw [createWhile_eq] at h
  unfold whileTail at h
  split at h
  · cases h; rfl
  · split at h
    · cases h
    · cases h; rfl

theorem createDoWhile_jump {cond : BoolExpr} {body : List Stmt} {c : Chunk} {i : Nat} {s : WS}
    {q : WS × Branch × Option Nat × Nat} (h : createDoWhile cond body c i s = .ok q) :
    eraseBranch q.2.1 = q.2.1 := by
  rw [createDoWhile_eq] at h
  unfold doWhileTail at h
  split at h
  · cases h
  · cases h; rfl

theorem createSwitch_jump (operand : Tok) (cases : List SwitchCase) (c : Chunk) (i : Nat) (s : WS) :
    eraseBranch (createSwitch operand cases c i s).2.1 = (createSwitch operand cases c i s).2.1 := by
  rw [createSwitch_eq]
  unfold switchTail
  split <;> rfl

theorem eraseWS_brk (s : WS) (b : List (Nat × Option Nat)) (c : List (Nat × Nat)) :
    eraseWS { s with brk := b, cont := c } = { eraseWS s with brk := b, cont := c } := rfl
theorem eraseWS_brk' (s : WS) : (eraseWS s).brk = s.brk := rfl
theorem eraseWS_cont' (s : WS) : (eraseWS s).cont = s.cont := rfl
theorem setFinal_brk (s : WS) (c : Chunk) : (s.setFinal c).brk = s.brk := rfl
theorem setFinal_cont (s : WS) (c : Chunk) : (s.setFinal c).cont = s.cont := rfl

theorem processChunk_erase (cur : Chunk) (s : WS) :
    processChunk (eraseChunk cur) (eraseWS s) = mapOk eraseWS (processChunk cur s) := by
  unfold processChunk
  have hst : (eraseChunk cur).statements = cur.statements.map eraseS := rfl
  simp only [hst, List.length_map, scanSimple_erase, List.getElem?_map]
  generalize scanSimple cur.statements 0 cur.statements.length = sc
  obtain ⟨i, fin⟩ := sc
  cases fin with
  | some isEnd =>
    simp only [mapOk_ok, ← setFinal_erase, eraseChunk, eraseBranch, List.map_take]
  | none =>
    simp only
    split
    · simp only [mapOk_ok, ← setFinal_erase]
    · cases hi : cur.statements[i]? with
      | none => simp only [Option.map_none, mapOk_ok, ← setFinal_erase, eraseChunk, eraseBranch, List.map_take]
      | some st =>
        cases st with
        | cmd c => simp only [Option.map_some, eraseS_cmd, mapOk_ok, ← setFinal_erase, eraseChunk, eraseBranch, List.map_take]
        | label t n g => simp only [Option.map_some, eraseS_label, mapOk_ok, ← setFinal_erase, eraseChunk, eraseBranch, List.map_take]
        | ite t c b es e =>
          simp only [Option.map_some, eraseS_ite, createIf_erase]
          cases hq : createIf c b es e cur i s with
          | error err => rfl
          | ok q =>
            have hj := createIf_jump hq
            simp only [mapOk_ok, ← setFinal_erase, eraseChunk, hj, List.map_take]
        | while_ t sid c b =>
          simp only [Option.map_some, eraseS_while, createWhile_erase]
          cases hq : createWhile c b cur i s with
          | error err => rfl
          | ok q =>
            have hj := createWhile_jump hq
            simp only [mapOk_ok, eraseWS_brk, ← setFinal_erase, eraseChunk, hj, List.map_take, eraseWS_brk',
              eraseWS_cont', setFinal_brk, setFinal_cont]
        | doWhile t sid c b =>
          simp only [Option.map_some, eraseS_doWhile, createDoWhile_erase]
          cases hq : createDoWhile c b cur i s with
          | error err => rfl
          | ok q =>
            have hj := createDoWhile_jump hq
            simp only [mapOk_ok, eraseWS_brk, ← setFinal_erase, eraseChunk, hj, List.map_take, eraseWS_brk',
              eraseWS_cont', setFinal_brk, setFinal_cont]
        | brk t sid =>
          simp only [Option.map_some, eraseS_brk, eraseWS_brk']
          cases s.brk.lookup sid with
          | none => rfl
          | some dest =>
            simp only [mapOk_ok, ← setFinal_erase, ← keepStatementsAfterJump_erase, eraseChunk, eraseBranch, List.map_take]
        | cont t sid =>
          simp only [Option.map_some, eraseS_cont, eraseWS_cont']
          cases s.cont.lookup sid with
          | none => rfl
          | some dest =>
            simp only [mapOk_ok, ← setFinal_erase, ← keepStatementsAfterJump_erase, eraseChunk, eraseBranch, List.map_take]
        | switch_ t sid op cs =>
          have hj := createSwitch_jump op cs cur i s
          simp only [Option.map_some, eraseS_switch, createSwitch_erase]
          simp only [mapOk_ok, eraseWS_brk, ← setFinal_erase,
            eraseChunk, hj, List.map_take, eraseWS_brk', eraseWS_cont', setFinal_brk, setFinal_cont]

theorem runWorklist_erase : ∀ (n : Nat) (s : WS),
    runWorklist n (eraseWS s) = mapOk eraseWS (runWorklist n s)
  | 0, _ => rfl
  | n + 1, s => by
    rw [runWorklist, runWorklist]
    have hq : (eraseWS s).queue = s.queue.map eraseChunk := rfl
    rw [hq]
    cases hs : s.queue with
    | nil => simp only [List.map_nil, mapOk_ok]
    | cons cur rest =>
      simp only [List.map_cons]
      have e : ({ eraseWS s with queue := rest.map eraseChunk } : WS) = eraseWS { s with queue := rest } := rfl
      rw [e, processChunk_erase]
      cases processChunk cur { s with queue := rest } with
      | error err => rfl
      | ok s' => simp only [mapOk_ok, runWorklist_erase n s']

mutual
theorem stmtSize_erase : ∀ (x : Stmt), stmtSize (eraseS x) = stmtSize x
  | .cmd c => by rw [eraseS]
  | .label .. => by rw [eraseS]
  | .ite t c b es e => by
    cases e with
    | none => simp only [eraseS, stmtSize, stmtsSize_erase b, elifsSize_erase es]
    | some l => simp only [eraseS, stmtSize, stmtsSize_erase b, elifsSize_erase es, stmtsSize_erase l]
  | .while_ t sid c b => by simp only [eraseS, stmtSize, stmtsSize_erase b]
  | .doWhile t sid c b => by simp only [eraseS, stmtSize, stmtsSize_erase b]
  | .brk .. => by rw [eraseS]
  | .cont .. => by rw [eraseS]
  | .switch_ t sid op cs => by simp only [eraseS, stmtSize, casesSize_erase cs]
theorem stmtsSize_erase : ∀ (l : List Stmt), stmtsSize (eraseL l) = stmtsSize l
  | [] => by rw [eraseL]
  | x :: r => by simp only [eraseL, stmtsSize, stmtSize_erase x, stmtsSize_erase r]
theorem elifsSize_erase : ∀ (es : List (BoolExpr × List Stmt)), elifsSize (eraseElifs es) = elifsSize es
  | [] => by rw [eraseElifs]
  | (c, b) :: r => by simp only [eraseElifs, elifsSize, stmtsSize_erase b, elifsSize_erase r]
theorem casesSize_erase : ∀ (cs : List SwitchCase), casesSize (eraseCases cs) = casesSize cs
  | [] => by rw [eraseCases]
  | (v, d, b) :: r => by simp only [eraseCases, casesSize, stmtsSize_erase b, casesSize_erase r]
end

/-- **The chunk table of the erased body is the erased chunk table.** -/
theorem scriptChunks_erase (body : List Stmt) :
    scriptChunks (eraseL body) = mapOk (List.map eraseChunk) (scriptChunks body) := by
  unfold scriptChunks
  rw [stmtsSize_erase]
  have e : ({ queue := [{ id := 0, statements := eraseL body }] } : WS) =
      eraseWS { queue := [{ id := 0, statements := body }] } := by
    rw [eraseL_eq_map]; rfl
  rw [e, runWorklist_erase]
  cases runWorklist (2 * stmtsSize body + 4) { queue := [{ id := 0, statements := body }] } with
  | error err => rfl
  | ok s => rfl

/-! ### rendering -/

theorem findChunk_erase (cs : List Chunk) (id : Nat) :
    findChunk (cs.map eraseChunk) id = (findChunk cs id).map eraseChunk := by
  unfold findChunk
  rw [List.find?_map]
  rfl

theorem tailId_erase (c : Chunk) : tailId (eraseChunk c) = tailId c := by
  unfold tailId
  have hb : (eraseChunk c).branch = eraseBranch c.branch := rfl
  have hr : (eraseChunk c).returnID = c.returnID := rfl
  rw [hb, hr]
  cases c.branch with
  | switch_ op cases d dest => cases d <;> rfl
  | _ => rfl

theorem optimizeLoop_erase (cs : List Chunk) (total : Nat) :
    ∀ (n : Nat) (order unv : List Nat) (i : Nat),
      optimizeLoop (cs.map eraseChunk) total n order unv i = optimizeLoop cs total n order unv i
  | 0, _, _, _ => by rw [optimizeLoop, optimizeLoop]
  | n + 1, order, unv, i => by
    have hpick : optimizeLoop.pick (cs.map eraseChunk) total n order unv i =
        optimizeLoop.pick cs total n order unv i := by
      rw [optimizeLoop.pick, optimizeLoop.pick]
      cases scanUnvisited unv total (total + 1) i with
      | mk j i' =>
        cases j with
        | none => rfl
        | some j => simp only [optimizeLoop_erase cs total n]
    rw [optimizeLoop, optimizeLoop]
    cases hlt : decide (order.length < total) with
    | false =>
      simp only [decide_eq_false_iff_not] at hlt
      simp only [hlt, if_false]
    | true =>
      simp only [decide_eq_true_eq] at hlt
      simp only [hlt, if_true]
      cases order.getLast? with
      | none => rfl
      | some last =>
        simp only [findChunk_erase]
        cases findChunk cs last with
        | none => rfl
        | some c => simp only [Option.map_some, tailId_erase, hpick, optimizeLoop_erase cs total n]

theorem optimizeChunkOrder_erase (cs : List Chunk) :
    optimizeChunkOrder (cs.map eraseChunk) = optimizeChunkOrder cs := by
  unfold optimizeChunkOrder
  have hids : (cs.map eraseChunk).map (·.id) = cs.map (·.id) := by
    rw [List.map_map]; rfl
  rw [hids, List.length_map, optimizeLoop_erase]
  cases cs <;> rfl

theorem renderStatements_erase (o : Opts) (ps : List ((Nat × Nat) × String)) (cl tl : List String) :
    ∀ (l : List Stmt), renderStatements o ps cl tl (l.map eraseS) = renderStatements o ps cl tl l
  | [] => rfl
  | .cmd c :: r => by
    simp only [List.map_cons, eraseS_cmd, renderStatements, renderStatements_erase o ps cl tl r]
  | .label t n g :: r => by
    simp only [List.map_cons, eraseS_label, renderStatements, renderStatements_erase o ps cl tl r]
  | .ite .. :: r => by simp only [List.map_cons, eraseS_ite, renderStatements]
  | .while_ .. :: r => by simp only [List.map_cons, eraseS_while, renderStatements]
  | .doWhile .. :: r => by simp only [List.map_cons, eraseS_doWhile, renderStatements]
  | .brk .. :: r => by simp only [List.map_cons, eraseS_brk, renderStatements]
  | .cont .. :: r => by simp only [List.map_cons, eraseS_cont, renderStatements]
  | .switch_ .. :: r => by simp only [List.map_cons, eraseS_switch, renderStatements]

theorem renderBranching_erase (o : Opts) (ps : List ((Nat × Nat) × String)) (scriptName : String) (c : Chunk)
    (next : Option Nat) :
    renderBranching o ps scriptName (eraseChunk c) next = renderBranching o ps scriptName c next := by
  unfold renderBranching
  have hb : (eraseChunk c).branch = eraseBranch c.branch := rfl
  have hr : (eraseChunk c).returnID = c.returnID := rfl
  have hu : (eraseChunk c).useEndTerminator = c.useEndTerminator := rfl
  rw [hb, hr, hu]
  cases c.branch with
  | switch_ op cases d dest =>
    simp only [eraseBranch, List.flatMap_map, List.map_map]
    rfl
  | _ => rfl

theorem renderBodies_erase (o : Opts) (ps : List ((Nat × Nat) × String)) (scriptName : String)
    (cs : List Chunk) (cl tl : List String) :
    ∀ (order : List Nat),
      renderBodies o ps scriptName (cs.map eraseChunk) cl tl order = renderBodies o ps scriptName cs cl tl order
  | [] => by rw [renderBodies, renderBodies]
  | id :: rest => by
    rw [renderBodies, renderBodies, findChunk_erase]
    cases findChunk cs id with
    | none => rfl
    | some c =>
      have hst : (eraseChunk c).statements = c.statements.map eraseS := rfl
      simp only [Option.map_some, hst, renderStatements_erase, renderBranching_erase,
        renderBodies_erase o ps scriptName cs cl tl rest]

theorem renderChunks_erase (o : Opts) (ps : List ((Nat × Nat) × String)) (cs : List Chunk) (scriptName : String)
    (isGlobal : Bool) (tl : List String) :
    renderChunks o ps (cs.map eraseChunk) scriptName isGlobal tl = renderChunks o ps cs scriptName isGlobal tl := by
  unfold renderChunks
  have hids : (cs.map eraseChunk).map (·.id) = cs.map (·.id) := by
    rw [List.map_map]; rfl
  have hlabels : ((cs.map eraseChunk).map fun c => chunkLabel scriptName c.id) =
      (cs.map fun c => chunkLabel scriptName c.id) := by
    rw [List.map_map]; rfl
  simp only [optimizeChunkOrder_erase, hids, hlabels, renderBodies_erase]

/-- `emitScript` on the erased body. -/
theorem emitScript_eraseL (o : Opts) (ps : List ((Nat × Nat) × String)) (tl : List String) (s : Script) :
    emitScript o ps tl { s with body := eraseL s.body } = emitScript o ps tl s := by
  unfold emitScript
  simp only [scriptChunks_erase]
  cases scriptChunks s.body with
  | error e => rfl
  | ok cs => simp only [mapOk_ok, renderChunks_erase]

/-- **The emitter never reads the type of a switch operand token / case value token**: two scripts that agree
up to `eraseL` of their bodies are emitted to the same lines (or the same error). -/
theorem emitScript_erase (o : Opts) (ps : List ((Nat × Nat) × String)) (tl : List String) {s' s : Script}
    (htok : s'.tok = s.tok) (hname : s'.name = s.name) (hscope : s'.scope = s.scope)
    (hbody : eraseL s'.body = eraseL s.body) :
    emitScript o ps tl s' = emitScript o ps tl s := by
  rw [← emitScript_eraseL o ps tl s', ← emitScript_eraseL o ps tl s]
  cases s'; cases s
  simp only at htok hname hscope hbody
  subst htok hname hscope
  rw [hbody]

end Pory.P2c
