import PoryProofs.RetokMS
import PoryProofs.ProgramGrammarPS
/-
L2 helpers, stage 8: the completed file grammar `P2d.STopP` (poryswitch inside movement / mart lists, text
bodies with `format( … )` and poryswitch): position erasure `eTopP` (`eItemP / eCasesP / eItems`, `eParams`,
`eTVal`, `eTCaseV`, `eTBody`), re-decoration `retok_topsP`, well-formedness `twfP_of_shape`, and the reference
elaboration commutes with position erasure (`elabFileP_eTopP`, `elabFileP_shape`).
-/
namespace Pory.L2
open Pory Pory.Parser Pory.C02P Pory.StmtG Pory.TopParse Pory.P2 Pory.P2b Pory.P2d Pory.C07b
open Pory.C14b (Item ItemP Cases Items swVal printItems)
open Pory.TextValueParse (TVal)

/-! ### `format( … )` parameters -/

def eNamed (n : NamedP) : NamedP :=
  { name := n.name, nameTok := erase n.nameTok, eq := erase n.eq, val := erase n.val, sep := n.sep.map erase }

def ePos : Pos → Pos
  | .none => .none
  | .font c f => .font (erase c) (erase f)
  | .len c n => .len (erase c) (erase n)
  | .fontLen c1 f c2 n => .fontLen (erase c1) (erase f) (erase c2) (erase n)
  | .lenFont c1 n c2 f => .lenFont (erase c1) (erase n) (erase c2) (erase f)

def eParams (P : Params) : Params :=
  { pos := ePos P.pos, comma := erase P.comma, named := P.named.map eNamed }

theorem opt_retok (o : Option Tok) (l : List Tok) (h : l.map erase = o.toList.map erase) :
    ∃ o' : Option Tok, o'.toList = l ∧ o'.map erase = o.map erase := by
  cases o with
  | none =>
    have hl : l = [] := st_nil (by simpa using h)
    subst hl
    exact ⟨none, rfl, rfl⟩
  | some t =>
    obtain ⟨t', rfl, ht⟩ := st_single (by simpa using h)
    exact ⟨some t', rfl, by simp only [Option.map_some, ht]⟩

theorem named_retok (n : NamedP) (l : List Tok) (h : l.map erase = n.toks.map erase) :
    ∃ n', n'.toks = l ∧ eNamed n' = eNamed n := by
  obtain ⟨nm, nameTok, eq, val, sep⟩ := n
  simp only [NamedP.toks] at h
  obtain ⟨a1, l1, rfl, e1, k1⟩ := st_cons h
  obtain ⟨a2, l2, rfl, e2, k2⟩ := st_cons k1
  obtain ⟨a3, l3, rfl, e3, k3⟩ := st_cons k2
  obtain ⟨sep', rfl, e4⟩ := opt_retok sep l3 k3
  exact ⟨⟨nm, a1, a2, a3, sep'⟩, rfl, by simp only [eNamed, e1, e2, e3, e4]⟩

theorem nameds_retok : ∀ (ns : List NamedP) (l : List Tok), l.map erase = (printNamed ns).map erase →
    ∃ ns', printNamed ns' = l ∧ ns'.map eNamed = ns.map eNamed
  | [], l, h => by
    have hl : l = [] := st_nil (by simpa [printNamed] using h)
    subst hl
    exact ⟨[], rfl, rfl⟩
  | n :: r, l, h => by
    simp only [printNamed] at h
    obtain ⟨l1, l2, rfl, k1, k2⟩ := st_append h
    obtain ⟨n', rfl, e1⟩ := named_retok n l1 k1
    obtain ⟨r', rfl, e2⟩ := nameds_retok r l2 k2
    exact ⟨n' :: r', rfl, by simp only [List.map_cons, e1, e2]⟩

theorem pos_retok (p : Pos) (l : List Tok) (h : l.map erase = p.toks.map erase) :
    ∃ p', p'.toks = l ∧ ePos p' = ePos p := by
  cases p with
  | none =>
    have hl : l = [] := st_nil (by simpa [Pos.toks] using h)
    subst hl
    exact ⟨.none, rfl, rfl⟩
  | font c f =>
    simp only [Pos.toks] at h
    obtain ⟨a1, l1, rfl, e1, k1⟩ := st_cons h
    obtain ⟨a2, rfl, e2⟩ := st_single k1
    exact ⟨.font a1 a2, rfl, by simp only [ePos, e1, e2]⟩
  | len c n =>
    simp only [Pos.toks] at h
    obtain ⟨a1, l1, rfl, e1, k1⟩ := st_cons h
    obtain ⟨a2, rfl, e2⟩ := st_single k1
    exact ⟨.len a1 a2, rfl, by simp only [ePos, e1, e2]⟩
  | fontLen c1 f c2 n =>
    simp only [Pos.toks] at h
    obtain ⟨a1, l1, rfl, e1, k1⟩ := st_cons h
    obtain ⟨a2, l2, rfl, e2, k2⟩ := st_cons k1
    obtain ⟨a3, l3, rfl, e3, k3⟩ := st_cons k2
    obtain ⟨a4, rfl, e4⟩ := st_single k3
    exact ⟨.fontLen a1 a2 a3 a4, rfl, by simp only [ePos, e1, e2, e3, e4]⟩
  | lenFont c1 n c2 f =>
    simp only [Pos.toks] at h
    obtain ⟨a1, l1, rfl, e1, k1⟩ := st_cons h
    obtain ⟨a2, l2, rfl, e2, k2⟩ := st_cons k1
    obtain ⟨a3, l3, rfl, e3, k3⟩ := st_cons k2
    obtain ⟨a4, rfl, e4⟩ := st_single k3
    exact ⟨.lenFont a1 a2 a3 a4, rfl, by simp only [ePos, e1, e2, e3, e4]⟩

theorem params_retok (P : Params) (l : List Tok) (h : l.map erase = P.toks.map erase) :
    ∃ P', P'.toks = l ∧ eParams P' = eParams P := by
  obtain ⟨pos, comma, named⟩ := P
  simp only [Params.toks] at h
  obtain ⟨l1, l2, rfl, k1, k2⟩ := st_append h
  obtain ⟨pos', rfl, e1⟩ := pos_retok pos l1 k1
  cases named with
  | nil =>
    have hl : l2 = [] := st_nil (by simpa using k2)
    subst hl
    exact ⟨⟨pos', comma, []⟩, by simp [Params.toks], by simp only [eParams, e1, List.map_nil]⟩
  | cons n r =>
    simp only at k2
    obtain ⟨comma', l3, rfl, e2, k3⟩ := st_cons k2
    obtain ⟨ns', rfl, e3⟩ := nameds_retok (n :: r) l3 k3
    cases ns' with
    | nil => cases e3
    | cons n' r' =>
      exact ⟨⟨pos', comma', n' :: r'⟩, rfl, by simp only [eParams, e1, e2, e3]⟩

/-! ### text values and bodies -/

def eTVal : TVal → TVal
  | .plain s => .plain (erase s)
  | .typed ty s => .typed (erase ty) (erase s)
  | .format fm lp sty text P rp =>
      .format (erase fm) (erase lp) (sty.map erase) (erase text) (eParams P) (erase rp)

theorem tval_retok (v : TVal) (l : List Tok) (h : l.map erase = v.toks.map erase) :
    ∃ v', v'.toks = l ∧ eTVal v' = eTVal v := by
  cases v with
  | plain s =>
    simp only [TVal.toks] at h
    obtain ⟨a1, rfl, e1⟩ := st_single h
    exact ⟨.plain a1, rfl, by simp only [eTVal, e1]⟩
  | typed ty s =>
    simp only [TVal.toks] at h
    obtain ⟨a1, l1, rfl, e1, k1⟩ := st_cons h
    obtain ⟨a2, rfl, e2⟩ := st_single k1
    exact ⟨.typed a1 a2, rfl, by simp only [eTVal, e1, e2]⟩
  | format fm lp sty text P rp =>
    simp only [TVal.toks] at h
    obtain ⟨a1, l1, rfl, e1, k1⟩ := st_cons h
    obtain ⟨a2, l2, rfl, e2, k2⟩ := st_cons k1
    obtain ⟨l3, l4, rfl, k3, k4⟩ := st_append k2
    obtain ⟨sty', rfl, e3⟩ := opt_retok sty l3 k3
    obtain ⟨a4, l5, rfl, e4, k5⟩ := st_cons k4
    obtain ⟨l6, l7, rfl, k6, k7⟩ := st_append k5
    obtain ⟨P', rfl, e5⟩ := params_retok P l6 k6
    obtain ⟨a6, rfl, e6⟩ := st_single k7
    exact ⟨.format a1 a2 sty' a4 P' a6, rfl, by simp only [eTVal, e1, e2, e3, e4, e5, e6]⟩

def eTCaseV : TCaseV → TCaseV
  | .colon key c v => .colon (erase key) (erase c) (eTVal v)
  | .brace key lb v rb => .brace (erase key) (erase lb) (eTVal v) (erase rb)

theorem tcase_retok (c : TCaseV) (l : List Tok) (h : l.map erase = c.toks.map erase) :
    ∃ c', c'.toks = l ∧ eTCaseV c' = eTCaseV c := by
  cases c with
  | colon key c v =>
    simp only [TCaseV.toks] at h
    obtain ⟨a1, l1, rfl, e1, k1⟩ := st_cons h
    obtain ⟨a2, l2, rfl, e2, k2⟩ := st_cons k1
    obtain ⟨v', rfl, e3⟩ := tval_retok v l2 k2
    exact ⟨.colon a1 a2 v', rfl, by simp only [eTCaseV, e1, e2, e3]⟩
  | brace key lb v rb =>
    simp only [TCaseV.toks] at h
    obtain ⟨a1, l1, rfl, e1, k1⟩ := st_cons h
    obtain ⟨a2, l2, rfl, e2, k2⟩ := st_cons k1
    obtain ⟨l3, l4, rfl, k3, k4⟩ := st_append k2
    obtain ⟨v', rfl, e3⟩ := tval_retok v l3 k3
    obtain ⟨a4, rfl, e4⟩ := st_single k4
    exact ⟨.brace a1 a2 v' a4, rfl, by simp only [eTCaseV, e1, e2, e3, e4]⟩

theorem tcases_retok : ∀ (cs : List TCaseV) (l : List Tok), l.map erase = (printCasesV cs).map erase →
    ∃ cs', printCasesV cs' = l ∧ cs'.map eTCaseV = cs.map eTCaseV
  | [], l, h => by
    have hl : l = [] := st_nil (by simpa [printCasesV] using h)
    subst hl
    exact ⟨[], rfl, rfl⟩
  | c :: r, l, h => by
    simp only [printCasesV] at h
    obtain ⟨l1, l2, rfl, k1, k2⟩ := st_append h
    obtain ⟨c', rfl, e1⟩ := tcase_retok c l1 k1
    obtain ⟨r', rfl, e2⟩ := tcases_retok r l2 k2
    exact ⟨c' :: r', rfl, by simp only [List.map_cons, e1, e2]⟩

def eTBody : TBody → TBody
  | .val v => .val (eTVal v)
  | .sw psw lp x rp lb cases rb =>
      .sw (erase psw) (erase lp) (erase x) (erase rp) (erase lb) (cases.map eTCaseV) (erase rb)

theorem tbody_retok (b : TBody) (l : List Tok) (h : l.map erase = b.toks.map erase) :
    ∃ b', b'.toks = l ∧ eTBody b' = eTBody b := by
  cases b with
  | val v =>
    obtain ⟨v', h1, h2⟩ := tval_retok v l (by simpa only [TBody.toks] using h)
    exact ⟨.val v', by simpa only [TBody.toks] using h1, by simp only [eTBody, h2]⟩
  | sw psw lp x rp lb cases rb =>
    simp only [TBody.toks] at h
    obtain ⟨a1, l1, rfl, e1, k1⟩ := st_cons h
    obtain ⟨a2, l2, rfl, e2, k2⟩ := st_cons k1
    obtain ⟨a3, l3, rfl, e3, k3⟩ := st_cons k2
    obtain ⟨a4, l4, rfl, e4, k4⟩ := st_cons k3
    obtain ⟨a5, l5, rfl, e5, k5⟩ := st_cons k4
    obtain ⟨l6, l7, rfl, k6, k7⟩ := st_append k5
    obtain ⟨cs', rfl, e6⟩ := tcases_retok cases l6 k6
    obtain ⟨a7, rfl, e7⟩ := st_single k7
    exact ⟨.sw a1 a2 a3 a4 a5 cs' a7, rfl, by simp only [eTBody, e1, e2, e3, e4, e5, e6, e7]⟩

/-! ### lists with poryswitch -/

mutual
def eItemP : ItemP → ItemP
  | .plain i => .plain (eItem i)
  | .sw psw lp x rp lb cases rb =>
      .sw (erase psw) (erase lp) (erase x) (erase rp) (erase lb) (eCasesP cases) (erase rb)
def eCasesP : Cases → Cases
  | .nil => .nil
  | .colon v c e rest => .colon (erase v) (erase c) (eItemP e) (eCasesP rest)
  | .brace v lb items rb rest => .brace (erase v) (erase lb) (eItems items) (erase rb) (eCasesP rest)
def eItems : Items → Items
  | .nil => .nil
  | .cons i r => .cons (eItemP i) (eItems r)
end

theorem item_retok (i : Item) (l : List Tok) (h : l.map erase = i.toks.map erase) :
    ∃ i', i'.toks = l ∧ eItem i' = eItem i := by
  obtain ⟨is', h1, h2⟩ := items_retok [i] l (by simpa [printItems] using h)
  cases is' with
  | nil => cases h2
  | cons i' r =>
    cases r with
    | nil =>
      simp only [List.map_cons, List.map_nil, List.cons.injEq, and_true] at h2
      exact ⟨i', by simpa [printItems] using h1, h2⟩
    | cons _ _ => simp at h2

mutual
theorem itemP_retok : ∀ (i : ItemP) (l : List Tok), l.map erase = i.toks.map erase →
    ∃ i', i'.toks = l ∧ eItemP i' = eItemP i
  | .plain i, l, h => by
    obtain ⟨i', h1, h2⟩ := item_retok i l (by simpa only [ItemP.toks] using h)
    exact ⟨.plain i', by simpa only [ItemP.toks] using h1, by simp only [eItemP, h2]⟩
  | .sw psw lp x rp lb cases rb, l, h => by
    simp only [ItemP.toks] at h
    obtain ⟨a1, l1, rfl, e1, k1⟩ := st_cons h
    obtain ⟨a2, l2, rfl, e2, k2⟩ := st_cons k1
    obtain ⟨a3, l3, rfl, e3, k3⟩ := st_cons k2
    obtain ⟨a4, l4, rfl, e4, k4⟩ := st_cons k3
    obtain ⟨a5, l5, rfl, e5, k5⟩ := st_cons k4
    obtain ⟨l6, l7, rfl, k6, k7⟩ := st_append k5
    obtain ⟨cs', rfl, e6⟩ := casesP_retok cases l6 k6
    obtain ⟨a7, rfl, e7⟩ := st_single k7
    exact ⟨.sw a1 a2 a3 a4 a5 cs' a7, by simp only [ItemP.toks],
      by simp only [eItemP, e1, e2, e3, e4, e5, e6, e7]⟩
theorem casesP_retok : ∀ (cs : Cases) (l : List Tok), l.map erase = cs.toks.map erase →
    ∃ cs', cs'.toks = l ∧ eCasesP cs' = eCasesP cs
  | .nil, l, h => by
    have hl : l = [] := st_nil (by simpa only [Cases.toks] using h)
    subst hl
    exact ⟨.nil, by simp only [Cases.toks], rfl⟩
  | .colon v c e rest, l, h => by
    simp only [Cases.toks] at h
    obtain ⟨a1, l1, rfl, e1, k1⟩ := st_cons h
    obtain ⟨a2, l2, rfl, e2, k2⟩ := st_cons k1
    obtain ⟨l3, l4, rfl, k3, k4⟩ := st_append k2
    obtain ⟨e', rfl, e3⟩ := itemP_retok e l3 k3
    obtain ⟨rest', rfl, e4⟩ := casesP_retok rest l4 k4
    exact ⟨.colon a1 a2 e' rest', by simp only [Cases.toks], by simp only [eCasesP, e1, e2, e3, e4]⟩
  | .brace v lb items rb rest, l, h => by
    simp only [Cases.toks] at h
    obtain ⟨a1, l1, rfl, e1, k1⟩ := st_cons h
    obtain ⟨a2, l2, rfl, e2, k2⟩ := st_cons k1
    obtain ⟨l3, l4, rfl, k3, k4⟩ := st_append k2
    obtain ⟨items', rfl, e3⟩ := itemsP_retok items l3 k3
    obtain ⟨a4, l5, rfl, e4, k5⟩ := st_cons k4
    obtain ⟨rest', rfl, e5⟩ := casesP_retok rest l5 k5
    exact ⟨.brace a1 a2 items' a4 rest', by simp only [Cases.toks],
      by simp only [eCasesP, e1, e2, e3, e4, e5]⟩
theorem itemsP_retok : ∀ (is : Items) (l : List Tok), l.map erase = is.toks.map erase →
    ∃ is', is'.toks = l ∧ eItems is' = eItems is
  | .nil, l, h => by
    have hl : l = [] := st_nil (by simpa only [Items.toks] using h)
    subst hl
    exact ⟨.nil, by simp only [Items.toks], rfl⟩
  | .cons i r, l, h => by
    simp only [Items.toks] at h
    obtain ⟨l1, l2, rfl, k1, k2⟩ := st_append h
    obtain ⟨i', rfl, e1⟩ := itemP_retok i l1 k1
    obtain ⟨r', rfl, e2⟩ := itemsP_retok r l2 k2
    exact ⟨.cons i' r', by simp only [Items.toks], by simp only [eItems, e1, e2]⟩
end

/-! ### files -/

/-- Position erasure of a top-level statement of the completed grammar. -/
def eTopP : STopP → STopP
  | .base t => .base (eTopM t)
  | .movementP kw md name lb items rb =>
      .movementP (erase kw) (eMod md) (erase name) (erase lb) (eItems items) (erase rb)
  | .martP kw md name lb items rb =>
      .martP (erase kw) (eMod md) (erase name) (erase lb) (eItems items) (erase rb)
  | .textP kw md name lb b rb => .textP (erase kw) (eMod md) (erase name) (erase lb) (eTBody b) (erase rb)

def SameShapeP (ts' ts : List STopP) : Prop := ts'.map eTopP = ts.map eTopP

theorem retokTopP (t : STopP) (l : List Tok) (h : l.map erase = (printTopP t).map erase) :
    ∃ t', printTopP t' = l ∧ eTopP t' = eTopP t := by
  cases t with
  | base t =>
    obtain ⟨t', h1, h2⟩ := retokTopM t l (by simpa only [printTopP] using h)
    exact ⟨.base t', by simpa only [printTopP] using h1, by simp only [eTopP, h2]⟩
  | movementP kw md name lb items rb =>
    simp only [printTopP] at h
    obtain ⟨kw', l1, rfl, e1, k1⟩ := st_cons h
    obtain ⟨l2, l3, rfl, k2, k3⟩ := st_append k1
    obtain ⟨md', rfl, e2⟩ := mod_retok md l2 k2
    obtain ⟨name', l4, rfl, e3, k4⟩ := st_cons k3
    obtain ⟨lb', l5, rfl, e4, k5⟩ := st_cons k4
    obtain ⟨l6, l7, rfl, k6, k7⟩ := st_append k5
    obtain ⟨items', rfl, e5⟩ := itemsP_retok items l6 k6
    obtain ⟨rb', rfl, e6⟩ := st_single k7
    exact ⟨.movementP kw' md' name' lb' items' rb', rfl, by simp only [eTopP, e1, e2, e3, e4, e5, e6]⟩
  | martP kw md name lb items rb =>
    simp only [printTopP] at h
    obtain ⟨kw', l1, rfl, e1, k1⟩ := st_cons h
    obtain ⟨l2, l3, rfl, k2, k3⟩ := st_append k1
    obtain ⟨md', rfl, e2⟩ := mod_retok md l2 k2
    obtain ⟨name', l4, rfl, e3, k4⟩ := st_cons k3
    obtain ⟨lb', l5, rfl, e4, k5⟩ := st_cons k4
    obtain ⟨l6, l7, rfl, k6, k7⟩ := st_append k5
    obtain ⟨items', rfl, e5⟩ := itemsP_retok items l6 k6
    obtain ⟨rb', rfl, e6⟩ := st_single k7
    exact ⟨.martP kw' md' name' lb' items' rb', rfl, by simp only [eTopP, e1, e2, e3, e4, e5, e6]⟩
  | textP kw md name lb b rb =>
    simp only [printTopP] at h
    obtain ⟨kw', l1, rfl, e1, k1⟩ := st_cons h
    obtain ⟨l2, l3, rfl, k2, k3⟩ := st_append k1
    obtain ⟨md', rfl, e2⟩ := mod_retok md l2 k2
    obtain ⟨name', l4, rfl, e3, k4⟩ := st_cons k3
    obtain ⟨lb', l5, rfl, e4, k5⟩ := st_cons k4
    obtain ⟨l6, l7, rfl, k6, k7⟩ := st_append k5
    obtain ⟨b', rfl, e5⟩ := tbody_retok b l6 k6
    obtain ⟨rb', rfl, e6⟩ := st_single k7
    exact ⟨.textP kw' md' name' lb' b' rb', rfl, by simp only [eTopP, e1, e2, e3, e4, e5, e6]⟩

theorem retokTopsP : ∀ (ts : List STopP) (l : List Tok), l.map erase = (printTopsP ts).map erase →
    ∃ ts', printTopsP ts' = l ∧ SameShapeP ts' ts
  | [], l, h => by
    have hl : l = [] := st_nil (by simpa [printTopsP] using h)
    subst hl
    exact ⟨[], rfl, rfl⟩
  | t :: r, l, h => by
    simp only [printTopsP] at h
    obtain ⟨l1, l2, rfl, k1, k2⟩ := st_append h
    obtain ⟨t', rfl, e1⟩ := retokTopP t l1 k1
    obtain ⟨r', rfl, e2⟩ := retokTopsP r l2 k2
    exact ⟨t' :: r', rfl, by unfold SameShapeP at e2 ⊢; simp only [List.map_cons, e1, e2]⟩


/-! ### well-formedness -/

theorem namedWF_e (n : NamedP) : (eNamed n).WF ↔ n.WF := by
  obtain ⟨nm, nameTok, eq, val, sep⟩ := n
  cases sep with
  | none => simp [NamedP.WF, eNamed]
  | some c => simp [NamedP.WF, eNamed]

theorem posWF_e (p : Pos) : (ePos p).WF ↔ p.WF := by cases p <;> exact Iff.rfl

theorem posFirst_e (p : Pos) : (ePos p).first = p.first := by cases p <;> rfl

theorem paramsWF_e (P : Params) : (eParams P).WF ↔ P.WF := by
  simp only [Params.WF, eParams, posWF_e, ne_eq, List.map_eq_nil_iff, erase_type',
    forall_mem_map eNamed NamedP.WF namedWF_e]

theorem paramsNoRep_e (P : Params) : (eParams P).NoRep ↔ P.NoRep := by
  simp only [Params.NoRep, eParams, posFirst_e, List.map_map]
  have h1 : ((fun x : NamedP => x.name) ∘ eNamed) = fun x => x.name := rfl
  rw [h1, forall_mem_map eNamed (fun n => P.pos.first ≠ some n.name) (fun _ => Iff.rfl)]

theorem tvalWF_e (v : TVal) : (eTVal v).WF ↔ v.WF := by
  cases v with
  | plain s => exact Iff.rfl
  | typed ty s => exact Iff.rfl
  | format fm lp sty text P rp =>
    cases sty with
    | none => simp [TVal.WF, eTVal, paramsWF_e, paramsNoRep_e]
    | some t => simp [TVal.WF, eTVal, paramsWF_e, paramsNoRep_e]

theorem tcaseWF_e (c : TCaseV) : (eTCaseV c).WF ↔ c.WF := by
  cases c <;> simp only [eTCaseV, TCaseV.WF, erase_type', tvalWF_e]

theorem tbodyWF_e (b : TBody) : (eTBody b).WF ↔ b.WF := by
  cases b with
  | val v => exact tvalWF_e v
  | sw psw lp x rp lb cases rb =>
    simp only [eTBody, TBody.WF, erase_type', forall_mem_map eTCaseV TCaseV.WF tcaseWF_e]

theorem plainWF_e (m : Bool) (i : Item) : P2d.plainWF m (eItem i) ↔ P2d.plainWF m i := by
  cases i <;> exact Iff.rfl

mutual
theorem wfItem_e (m : Bool) : ∀ i : ItemP, P2d.wfItem m (eItemP i) ↔ P2d.wfItem m i
  | .plain i => by simp only [eItemP, P2d.wfItem, plainWF_e]
  | .sw psw lp x rp lb cases rb => by simp only [eItemP, P2d.wfItem, erase_type', wfCases_e m cases]
theorem wfCases_e (m : Bool) : ∀ cs : Cases, P2d.wfCases m (eCasesP cs) ↔ P2d.wfCases m cs
  | .nil => by simp only [eCasesP, P2d.wfCases]
  | .colon v c e rest => by simp only [eCasesP, P2d.wfCases, erase_type', wfItem_e m e, wfCases_e m rest]
  | .brace v lb items rb rest => by
    simp only [eCasesP, P2d.wfCases, erase_type', wfItems_e m items, wfCases_e m rest]
theorem wfItems_e (m : Bool) : ∀ is : Items, P2d.wfItems m (eItems is) ↔ P2d.wfItems m is
  | .nil => by simp only [eItems, P2d.wfItems]
  | .cons i r => by simp only [eItems, P2d.wfItems, wfItem_e m i, wfItems_e m r]
end

theorem topWFP_e (t : STopP) : TopWFP (eTopP t) ↔ TopWFP t := by
  cases t with
  | base t => exact topWFM_eTopM t
  | movementP kw md name lb items rb => simp only [eTopP, TopWFP, erase_type', modWF_eMod, wfItems_e]
  | martP kw md name lb items rb => simp only [eTopP, TopWFP, erase_type', modWF_eMod, wfItems_e]
  | textP kw md name lb b rb => simp only [eTopP, TopWFP, erase_type', modWF_eMod, tbodyWF_e]

theorem isConst_eTopP (t : STopP) : (eTopP t).isConst = t.isConst := by
  cases t with
  | base t => exact isConst_eTopM t
  | _ => rfl

theorem twfP_map : ∀ ts : List STopP, TWFP (ts.map eTopP) ↔ TWFP ts
  | [] => Iff.rfl
  | t :: r => by
    simp only [List.map_cons, TWFP, topWFP_e, isConst_eTopP, twfP_map r, ne_eq, List.map_eq_nil_iff]

theorem twfP_of_shape {ts ts' : List STopP} (h : SameShapeP ts' ts) (hwf : TWFP ts) : TWFP ts' := by
  rw [← twfP_map, h, twfP_map]
  exact hwf

/-- **retok for the completed file grammar.** -/
theorem retok_topsP (ts : List STopP) (l : List Tok) (h : SameText l (printTopsP ts)) :
    ∃ ts', printTopsP ts' = l ∧ SameShapeP ts' ts ∧ (TWFP ts → TWFP ts') := by
  obtain ⟨ts', h1, h2⟩ := retokTopsP ts l h
  exact ⟨ts', h1, h2, twfP_of_shape h2⟩

end Pory.L2
