import PoryProofs.ProgramIndep
import PoryProofs.ProgramInsert
/-
P2 helpers: the side conditions of the independence theorems are decidable.
-/
namespace Pory.P2
open Pory Pory.Parser Pory.C02P Pory.StmtG Pory.TopParse Pory.Emit
open Pory.C12c

/-- A domain with decidable membership. -/
class Dom.Dec (D : Dom) where
  lit : DecidablePred D.lit
  kt : DecidablePred D.kt
  km : DecidablePred D.km
  n : DecidablePred D.n

instance (D : Dom) [d : Dom.Dec D] : DecidablePred D.lit := d.lit
instance (D : Dom) [d : Dom.Dec D] : DecidablePred D.kt := d.kt
instance (D : Dom) [d : Dom.Dec D] : DecidablePred D.km := d.km
instance (D : Dom) [d : Dom.Dec D] : DecidablePred D.n := d.n

instance (D : Dom) [Dom.Dec D] (imp : ImpData) : Decidable (ImpUses D imp) := by
  unfold ImpUses; exact inferInstance

instance (env : Env) (D : Dom) [Dom.Dec D] (t : STop) (s : PState) : Decidable (StepUses env D t s) := by
  have d2 : Decidable (match t with
      | .script _ _ name _ body _ =>
          match elabE env name.lit (ctxOf s) body with
          | .ok (_, imp, _) => ImpUses D imp
          | .error _ => True
      | _ => True) := by
    cases t with
    | script kw md name lb body rb =>
      show Decidable (match elabE env name.lit (ctxOf s) body with
        | .ok (_, imp, _) => ImpUses D imp
        | .error _ => True)
      cases elabE env name.lit (ctxOf s) body with
      | error e => exact isTrue trivial
      | ok q => obtain ⟨a, imp, c⟩ := q; exact (inferInstance : Decidable (ImpUses D imp))
    | raw => exact isTrue trivial
    | const => exact isTrue trivial
    | movement => exact isTrue trivial
    | mart => exact isTrue trivial
    | text => exact isTrue trivial
  unfold StepUses
  exact inferInstance

theorem uses_cons_ok {env : Env} {D : Dom} {t : STop} {r : List STop} {s s1 : PState} {o : Option Top}
    (h : stepTop env t s = .ok (o, s1)) : Uses env D (t :: r) s ↔ StepUses env D t s ∧ Uses env D r s1 := by
  simp only [Uses, h]

theorem uses_cons_err {env : Env} {D : Dom} {t : STop} {r : List STop} {s : PState} {e : PFail}
    (h : stepTop env t s = .error e) : Uses env D (t :: r) s ↔ StepUses env D t s := by
  simp only [Uses, h, and_true]

def decUses (env : Env) (D : Dom) [Dom.Dec D] : (ts : List STop) → (s : PState) → Decidable (Uses env D ts s)
  | [], _ => isTrue trivial
  | t :: r, s =>
    match h : stepTop env t s with
    | .ok (_, s1) =>
      have := decUses env D r s1
      decidable_of_iff _ (uses_cons_ok h).symm
    | .error _ => decidable_of_iff _ (uses_cons_err h).symm

instance (env : Env) (D : Dom) [Dom.Dec D] (ts : List STop) (s : PState) : Decidable (Uses env D ts s) :=
  decUses env D ts s

instance (s1 : PState) : Dom.Dec (domOf s1) where
  lit := fun v => inferInstanceAs (Decidable (s1.constants.lookup v = none))
  kt := fun k => inferInstanceAs (Decidable (s1.inlineTextsSet.lookup k = none))
  km := fun k => inferInstanceAs (Decidable (s1.inlineMovementsSet.lookup k = none))
  n := fun n => inferInstanceAs
    (Decidable (lookupD s1.inlineTextCounts n = 0 ∧ lookupD s1.inlineMovementCounts n = 0))

instance (env : Env) (eofT : Tok) (ts1 ts2 : List STop) : Decidable (Indep env eofT ts1 ts2) := by
  unfold Indep
  cases elabTops env ts1 (initState eofT) with
  | error e => exact isTrue trivial
  | ok q1 =>
    obtain ⟨tops1, s1⟩ := q1
    cases elabTops env ts2 (initState eofT) with
    | error e =>
      exact (inferInstance : Decidable (Uses env (domOf s1) ts2 (initState eofT) ∧ True))
    | ok q2 =>
      obtain ⟨tops2, s2⟩ := q2
      exact (inferInstance : Decidable (Uses env (domOf s1) ts2 (initState eofT) ∧
        (∀ n ∈ textNames s1, n ∉ textNames s2) ∧ (∀ n ∈ allMvNames tops1 s1, n ∉ allMvNames tops2 s2) ∧
        (∀ n ∈ labelNames tops1, n ∉ textNames s2) ∧ (∀ n ∈ labelNames tops2, n ∉ textNames s1)))

instance (s st : PState) : Dom.Dec (domBetween s st) where
  lit := fun _ => isTrue trivial
  kt := fun k => inferInstanceAs (Decidable (st.inlineTextsSet.lookup k = s.inlineTextsSet.lookup k))
  km := fun k => inferInstanceAs (Decidable (st.inlineMovementsSet.lookup k = s.inlineMovementsSet.lookup k))
  n := fun n => inferInstanceAs
    (Decidable (lookupD st.inlineTextCounts n = lookupD s.inlineTextCounts n ∧
      lookupD st.inlineMovementCounts n = lookupD s.inlineMovementCounts n))

instance (env : Env) (eofT : Tok) (pre : List STop) (t : STop) (post : List STop) :
    Decidable (Unrelated env eofT pre t post) := by
  unfold Unrelated
  cases elabTops env pre (initState eofT) with
  | error e => exact isTrue trivial
  | ok q1 =>
    obtain ⟨topsP, s⟩ := q1
    dsimp only
    cases stepTop env t s with
    | error e => exact isTrue trivial
    | ok q2 =>
      obtain ⟨ot, st⟩ := q2
      dsimp only
      cases elabTops env post s with
      | error e =>
        exact (inferInstance : Decidable (t.isConst = false ∧ Uses env (domBetween s st) post s ∧ True))
      | ok q3 =>
        obtain ⟨topsQ, a1⟩ := q3
        exact (inferInstance : Decidable (t.isConst = false ∧ Uses env (domBetween s st) post s ∧
          ∀ n ∈ labelNames (topsP ++ topsQ), n ∈ textNames st → n ∈ textNames s))

end Pory.P2
