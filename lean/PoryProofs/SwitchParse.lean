import PoryProofs.ParserConsts
import PoryProofs.TopParse
/-
Helpers for C03b / C20 (parser side): the case loop of a `switch` statement (`parseSwitchCases`) and
`parseSwitchStatement`.  Property theorems: PoryProofs/Properties/C03b.lean.

* run form (`rsimp`, equational, errors included): `collect_run` / `collect_inv` (the value tokens of a
  `case`), `oploop_run` / `oploop_inv` (the operand tokens of `var(…)`);
* reference syntax of a case header `Hdr`; one loop iteration: `step` (accepted / rejected header),
  `step_done`, `step_bad`, `step_second_default`, and the converse `step_inv`;
* the loop as a trace of segments: `Iter` (exact fuel), `run_of_iter` (loop along a trace = loop from the end
  of the trace, errors included), `iter_of_ok` (every successful run is a trace), `Accepted` /
  `accepted_iff` (acceptance = new, pairwise distinct values and at most one default), `CasesOf` (the
  fuel-free reading);
* the statement: `OperandAt`, `SwitchRun`, `switch_wp` (every successful parse has that shape),
  `switch_run` (the statement on a known shape hands on the result of the loop), `epv_wp`
  (`expectPeekVarOrAutoVar`).
The bodies of the cases are abstract: whatever `parseSwitchBlockStatement` parses; the only facts used
about it are that it keeps the constants (PoryProofs/ParserConsts.lean) and the end-of-input token
(`sdecAll`, ParserFuel4.lean).
-/
namespace Pory.SwitchParse
open Pory Pory.Parser Pory.C02P Pory.TopParse

theorem beq_false_of_ne {a b : TT} (h : a ≠ b) : (a == b) = false := beq_eq_false_iff_ne.mpr h
theorem beq_true_of_eq {a b : TT} (h : a = b) : (a == b) = true := beq_iff_eq.mpr h

theorem run_pure {α} (a : α) (s : PState) : (pure a : PM α).run s = .ok (a, s) := id rfl

/-- Symbolic execution of the parser monad in run form (equational, errors included). -/
syntax "rsimp" (" [" Lean.Parser.Tactic.simpLemma,* "]")? (Lean.Parser.Tactic.location)? : tactic
macro_rules
  | `(tactic| rsimp) => `(tactic| simp only [StateT.run_bind, run_pure, run_cur, run_peek, run_peek2, run_nextToken,
      run_curIs, run_peekIs, run_peek2Is, run_tryReplace, run_expectPeek, run_fail, run_throw, run_modify, run_get,
      ex_bind_ok, ex_bind_err, ex_pure, ex_map_ok, ex_map_err, st_toks, st_eof, st_constants, st_st,
      List.headD_cons, List.headD_nil, List.tail_cons, List.tail_nil, getD_one, getD_two, Bool.false_eq_true,
      if_true, if_false, Bool.not_true, Bool.not_false, Bool.or_false, Bool.or_true, Bool.false_or, Bool.true_or,
      List.nil_append, List.cons_append])
  | `(tactic| rsimp [$ts,*]) => `(tactic| simp only [StateT.run_bind, run_pure, run_cur, run_peek, run_peek2, run_nextToken,
      run_curIs, run_peekIs, run_peek2Is, run_tryReplace, run_expectPeek, run_fail, run_throw, run_modify, run_get,
      ex_bind_ok, ex_bind_err, ex_pure, ex_map_ok, ex_map_err, st_toks, st_eof, st_constants, st_st,
      List.headD_cons, List.headD_nil, List.tail_cons, List.tail_nil, getD_one, getD_two, Bool.false_eq_true,
      if_true, if_false, Bool.not_true, Bool.not_false, Bool.or_false, Bool.or_true, Bool.false_or, Bool.true_or,
      List.nil_append, List.cons_append, $ts,*])
  | `(tactic| rsimp $loc:location) => `(tactic| simp only [StateT.run_bind, run_pure, run_cur, run_peek, run_peek2, run_nextToken,
      run_curIs, run_peekIs, run_peek2Is, run_tryReplace, run_expectPeek, run_fail, run_throw, run_modify, run_get,
      ex_bind_ok, ex_bind_err, ex_pure, ex_map_ok, ex_map_err, st_toks, st_eof, st_constants, st_st,
      List.headD_cons, List.headD_nil, List.tail_cons, List.tail_nil, getD_one, getD_two, Bool.false_eq_true,
      if_true, if_false, Bool.not_true, Bool.not_false, Bool.or_false, Bool.or_true, Bool.false_or, Bool.true_or,
      List.nil_append, List.cons_append] $loc)
  | `(tactic| rsimp [$ts,*] $loc:location) => `(tactic| simp only [StateT.run_bind, run_pure, run_cur, run_peek, run_peek2, run_nextToken,
      run_curIs, run_peekIs, run_peek2Is, run_tryReplace, run_expectPeek, run_fail, run_throw, run_modify, run_get,
      ex_bind_ok, ex_bind_err, ex_pure, ex_map_ok, ex_map_err, st_toks, st_eof, st_constants, st_st,
      List.headD_cons, List.headD_nil, List.tail_cons, List.tail_nil, getD_one, getD_two, Bool.false_eq_true,
      if_true, if_false, Bool.not_true, Bool.not_false, Bool.or_false, Bool.or_true, Bool.false_or, Bool.true_or,
      List.nil_append, List.cons_append, $ts,*] $loc)

/-- `collectUntil` up to the first `:` on a known token list. -/
theorem collect_run (onEOF : PFail) (s : PState) (colon : Tok) (rest : List Tok)
    (hcolon : colon.type = .COLON) :
    ∀ (vs : List Tok) (n : Nat) (parts : List String),
      (∀ v ∈ vs, v.type ≠ .COLON) → (∀ v ∈ vs.tail, v.type ≠ .EOF) → vs.length < n →
      (collectUntil (fun t => t.type == .COLON) onEOF n parts).run (st s (vs ++ colon :: rest)) =
        .ok (parts ++ vs.map (fun v => substC s.constants v.lit), st s (colon :: rest)) := by
  intro vs
  induction vs with
  | nil =>
    intro n parts _ _ hn
    obtain ⟨n, rfl⟩ : ∃ k, n = k + 1 := ⟨n - 1, by simp at hn; omega⟩
    rw [collectUntil]
    rsimp [beq_true_of_eq hcolon, List.map_nil, List.append_nil]
  | cons v vs ih =>
    intro n parts h1 h2 hn
    obtain ⟨n, rfl⟩ : ∃ k, n = k + 1 := ⟨n - 1, by simp at hn; omega⟩
    rw [collectUntil]
    have hv : (v.type == TT.COLON) = false := beq_false_of_ne (h1 v (by simp))
    have hnext : (((vs ++ colon :: rest).headD s.eof).type == TT.EOF) = false := by
      cases vs with
      | nil => simp [hcolon]
      | cons w ws => simpa using h2 w (by simp)
    have := ih n (parts ++ [substC s.constants v.lit]) (fun x hx => h1 x (by simp [hx]))
      (fun x hx => h2 x (by simp only [List.tail_cons]; exact List.mem_of_mem_tail hx))
      (by simp at hn; omega)
    rsimp [hv, hnext, this, List.map_cons, List.append_assoc]

theorem ok_inj {ε α} {a b : α} (h : (Except.ok a : Except ε α) = .ok b) : a = b := by
  injection h

/-- Converse of `collect_run`: a successful `collectUntil` has read exactly the tokens before the first `:`. -/
theorem collect_inv (onEOF : PFail) :
    ∀ (n : Nat) (parts : List String) (s : PState) (r : List String) (s' : PState),
      s.eof.type = .EOF →
      (collectUntil (fun t => t.type == .COLON) onEOF n parts).run s = .ok (r, s') →
      ∃ vs colon rest, s.toks = vs ++ colon :: rest ∧ (∀ v ∈ vs, v.type ≠ .COLON) ∧ colon.type = .COLON ∧
        (∀ v ∈ vs.tail, v.type ≠ .EOF) ∧ vs.length < n ∧
        r = parts ++ vs.map (fun v => substC s.constants v.lit) ∧ s' = st s (colon :: rest) := by
  intro n
  induction n with
  | zero =>
    intro parts s r s' _ h
    rw [collectUntil] at h
    rsimp at h
    cases h
  | succ n ih =>
    intro parts s r s' he h
    rw [collectUntil] at h
    rsimp at h
    by_cases hc : ((s.toks.headD s.eof).type == TT.COLON) = true
    · rsimp [hc] at h
      have h := ok_inj h
      cases htk : s.toks with
      | nil => rw [htk] at hc; simp [he] at hc
      | cons c tl =>
        rw [htk] at hc
        refine ⟨[], c, tl, rfl, by simp, by simpa using hc, by simp, by simp, ?_, ?_⟩
        · simp [← (Prod.mk.inj h).1]
        · rw [← (Prod.mk.inj h).2, ← htk]; rfl
    · rsimp [hc] at h
      by_cases hn : ((s.toks.tail.headD s.eof).type == TT.EOF) = true
      · rsimp [hn] at h
        cases h
      · rsimp [hn] at h
        obtain ⟨vs, colon, rest, h1, h2, h3, h4, h5, h6, h7⟩ := ih _ _ _ _ (by exact he) h
        cases htk : s.toks with
        | nil => rw [htk] at h1; simp at h1
        | cons c tl =>
          rw [htk] at hc h1 hn
          simp only [st_toks, List.tail_cons] at h1
          simp only [List.tail_cons] at hn
          refine ⟨c :: vs, colon, rest, by rw [h1]; rfl, ?_, h3, ?_, by simp; omega, ?_, ?_⟩
          · intro v hv
            rcases List.mem_cons.1 hv with rfl | hv
            · simpa using hc
            · exact h2 v hv
          · intro v hv
            simp only [List.tail_cons] at hv
            cases vs with
            | nil => simp at hv
            | cons w ws =>
              rcases List.mem_cons.1 hv with rfl | hv
              · rw [h1] at hn; simpa using hn
              · exact h4 v (by simpa using hv)
          · rw [h6]; simp [htk]
          · rw [h7]; rfl

/-! ### reference syntax of a case header -/

/-- Message of the duplicate-case error. -/
def dupMsg (v : String) : String := s!"duplicate switch cases detected for case '{v}'"
/-- Message of the second-default error. -/
def multiDefaultMsg : String :=
  "multiple `default` cases found in switch statement. Only one `default` case is allowed"

/-- A case header: `case v₁ … vₖ :` or `default :`. -/
inductive Hdr
  | case (c : Tok) (vs : List Tok) (colon : Tok)
  | dflt (d colon : Tok)
  deriving Repr

namespace Hdr

/-- The tokens of the header, in source order. -/
def toks : Hdr → List Tok
  | .case c vs colon => c :: (vs ++ [colon])
  | .dflt d colon => [d, colon]

/-- Token types: the value tokens of a `case` are exactly the tokens before the first `:`; the loop reports
`missing ':' after 'case'` when the end of input follows a value token. -/
def WF : Hdr → Prop
  | .case c vs colon => c.type = .CASE ∧ (∀ v ∈ vs, v.type ≠ .COLON) ∧ (∀ v ∈ vs.tail, v.type ≠ .EOF) ∧
      colon.type = .COLON
  | .dflt d colon => d.type = .DEFAULT ∧ colon.type = .COLON

def isDefault : Hdr → Bool
  | .case .. => false
  | .dflt .. => true

/-- The keyword token (`case` / `default`). -/
def first : Hdr → Tok
  | .case c _ _ => c
  | .dflt d _ => d

/-- The value of the case: literals of the value tokens, constants substituted, joined by single spaces. -/
def value (σ : String → String) : Hdr → String
  | .case _ vs _ => joinSp (vs.map fun v => σ v.lit)
  | .dflt .. => ""

/-- The token stored in the case list: the first value token (the `:` when there is none) carrying the
value; the zero token for `default`. -/
def tok (σ : String → String) : Hdr → Tok
  | .case _ vs colon => { vs.headD colon with lit := joinSp (vs.map fun v => σ v.lit) }
  | .dflt .. => {}

/-- Fuel the header itself needs (the token-collecting loop of a `case`). -/
def need : Hdr → Nat
  | .case _ vs _ => vs.length + 1
  | .dflt .. => 0

/-- The values seen so far, after this header. -/
def vals (σ : String → String) (seen : List String) : Hdr → List String
  | h@(.case ..) => h.value σ :: seen
  | .dflt .. => seen

/-- The error, if any, with which the loop rejects the header given the values seen so far and whether a
`default` was seen. -/
def reject (σ : String → String) (seen : List String) (hd : Bool) : Hdr → Option PFail
  | h@(.case c _ colon) =>
    if seen.contains (h.value σ) then
      some (newRangeParseError c colon (dupMsg (h.value σ)))
    else none
  | .dflt d _ =>
    if hd then some (newParseError d multiDefaultMsg) else none

theorem reject_case (σ : String → String) (seen : List String) (hd : Bool) (c : Tok) (vs : List Tok)
    (colon : Tok) :
    (Hdr.case c vs colon).reject σ seen hd =
      if seen.contains (joinSp (vs.map fun v => σ v.lit)) then
        some (newRangeParseError c colon (dupMsg (joinSp (vs.map fun v => σ v.lit))))
      else none := rfl

theorem reject_dflt (σ : String → String) (seen : List String) (hd : Bool) (d colon : Tok) :
    (Hdr.dflt d colon).reject σ seen hd = if hd then some (newParseError d multiDefaultMsg) else none := rfl

end Hdr

/-- What the loop does once the body of a case has been parsed. -/
def afterBody (env : Env) (sn : String) (brace : Tok) (n : Nat) (cases : List SwitchCase) (seen : List String)
    (hd : Bool) (imp : ImpData) (σ : String → String) (h : Hdr)
    (r : Except PFail ((List Stmt × ImpData) × PState)) :
    Except PFail ((List SwitchCase × Bool × ImpData) × PState) :=
  match r with
  | .ok ((body, bimp), s1) =>
    (parseSwitchCases env sn brace n (cases ++ [(h.tok σ, h.isDefault, body)]) (h.vals σ seen)
      (hd || h.isDefault) (imp.add bimp)).run s1
  | .error e => .error e

/-- One iteration of the case loop on a `case` header. -/
theorem step_case (env : Env) (sn : String) (brace : Tok) (n : Nat) (cases : List SwitchCase)
    (seen : List String) (hd : Bool) (imp : ImpData) (s : PState) (c : Tok) (vs : List Tok) (colon : Tok)
    (rest : List Tok) (hwf : (Hdr.case c vs colon).WF) (hn : vs.length < n) :
    (parseSwitchCases env sn brace (n + 1) cases seen hd imp).run (st s (c :: (vs ++ colon :: rest))) =
      match (Hdr.case c vs colon).reject (substC s.constants) seen hd with
      | some e => .error e
      | none => afterBody env sn brace n cases seen hd imp (substC s.constants) (.case c vs colon)
          ((parseSwitchBlockStatement env sn brace n [] {}).run (st s rest)) := by
  obtain ⟨hc, h1, h2, h3⟩ := hwf
  rw [parseSwitchCases]
  have hc1 : (c.type == TT.RBRACE) = false := by rw [hc]; decide
  have hc2 : (c.type == TT.CASE) = true := by rw [hc]; decide
  rsimp [hc1, hc2, collect_run _ s colon rest h3 vs n [] h1 h2 hn]
  rw [Hdr.reject_case]
  by_cases hdup : seen.contains (joinSp (vs.map fun v => substC s.constants v.lit)) = true
  · rw [if_pos hdup, if_pos hdup]
    rsimp
    rfl
  · rw [if_neg hdup, if_neg hdup]
    rsimp
    cases hb : (parseSwitchBlockStatement env sn brace n [] {}).run (st s rest) with
    | error e => rfl
    | ok r =>
      obtain ⟨⟨body, bimp⟩, s1⟩ := r
      simp only [afterBody, ex_bind_ok, Hdr.tok, Hdr.isDefault, Hdr.vals, Hdr.value, Bool.or_false]
      cases vs <;> rfl

/-- One iteration of the case loop on a `default` header. -/
theorem step_dflt (env : Env) (sn : String) (brace : Tok) (n : Nat) (cases : List SwitchCase)
    (seen : List String) (hd : Bool) (imp : ImpData) (s : PState) (d colon : Tok)
    (rest : List Tok) (hwf : (Hdr.dflt d colon).WF) :
    (parseSwitchCases env sn brace (n + 1) cases seen hd imp).run (st s (d :: colon :: rest)) =
      match (Hdr.dflt d colon).reject (substC s.constants) seen hd with
      | some e => .error e
      | none => afterBody env sn brace n cases seen hd imp (substC s.constants) (.dflt d colon)
          ((parseSwitchBlockStatement env sn brace n [] {}).run (st s rest)) := by
  obtain ⟨hd0, h3⟩ := hwf
  rw [parseSwitchCases]
  have hc1 : (d.type == TT.RBRACE) = false := by rw [hd0]; decide
  have hc2 : (d.type == TT.CASE) = false := by rw [hd0]; decide
  have hc3 : (d.type == TT.DEFAULT) = true := by rw [hd0]; decide
  have hc4 : (colon.type == TT.COLON) = true := by rw [h3]; decide
  rw [Hdr.reject_dflt]
  cases hd with
  | true =>
    rsimp [hc1, hc2, hc3]
    rfl
  | false =>
    rsimp [hc1, hc2, hc3, hc4]
    cases hb : (parseSwitchBlockStatement env sn brace n [] {}).run (st s rest) with
    | error e => rfl
    | ok r =>
      obtain ⟨⟨body, bimp⟩, s1⟩ := r
      rfl

/-- One iteration of the case loop on any header. -/
theorem step (env : Env) (sn : String) (brace : Tok) (n : Nat) (cases : List SwitchCase)
    (seen : List String) (hd : Bool) (imp : ImpData) (s : PState) (h : Hdr) (rest : List Tok)
    (hwf : h.WF) (hn : h.need ≤ n) :
    (parseSwitchCases env sn brace (n + 1) cases seen hd imp).run (st s (h.toks ++ rest)) =
      match h.reject (substC s.constants) seen hd with
      | some e => .error e
      | none => afterBody env sn brace n cases seen hd imp (substC s.constants) h
          ((parseSwitchBlockStatement env sn brace n [] {}).run (st s rest)) := by
  cases h with
  | case c vs colon =>
    have := step_case env sn brace n cases seen hd imp s c vs colon rest hwf hn
    simpa [Hdr.toks] using this
  | dflt d colon => exact step_dflt env sn brace n cases seen hd imp s d colon rest hwf

/-- The loop ends at `}`. -/
theorem step_done (env : Env) (sn : String) (brace : Tok) (n : Nat) (cases : List SwitchCase)
    (seen : List String) (hd : Bool) (imp : ImpData) (s : PState)
    (h : (s.toks.headD s.eof).type = .RBRACE) :
    (parseSwitchCases env sn brace (n + 1) cases seen hd imp).run s = .ok ((cases, hd, imp), s) := by
  rw [parseSwitchCases]
  rsimp [beq_true_of_eq h]

/-- Message of the error for a token that starts neither a case nor ends the switch. -/
def badStartMsg (lit : String) : String := s!"invalid start of switch case '{lit}'. Expected 'case' or 'default'"

/-- Anything else than `}`, `case`, `default` is rejected, the error located on that token. -/
theorem step_bad (env : Env) (sn : String) (brace : Tok) (n : Nat) (cases : List SwitchCase)
    (seen : List String) (hd : Bool) (imp : ImpData) (s : PState)
    (h1 : (s.toks.headD s.eof).type ≠ .RBRACE) (h2 : (s.toks.headD s.eof).type ≠ .CASE)
    (h3 : (s.toks.headD s.eof).type ≠ .DEFAULT) :
    (parseSwitchCases env sn brace (n + 1) cases seen hd imp).run s =
      .error (newParseError (s.toks.headD s.eof) (badStartMsg (s.toks.headD s.eof).lit)) := by
  rw [parseSwitchCases]
  rsimp [beq_false_of_ne h1, beq_false_of_ne h2, beq_false_of_ne h3]
  rfl

theorem st_eq_of_toks {s : PState} {l : List Tok} (h : s.toks = l) : s = st s l := by
  rw [← h]; rfl

/-- Converse of `step` / `step_done`: every successful iteration is one of them. -/
theorem step_inv (env : Env) (sn : String) (brace : Tok) (n : Nat) (cases : List SwitchCase)
    (seen : List String) (hd : Bool) (imp : ImpData) (s : PState) (he : s.eof.type = .EOF)
    (res : List SwitchCase × Bool × ImpData) (s' : PState)
    (hr : (parseSwitchCases env sn brace (n + 1) cases seen hd imp).run s = .ok (res, s')) :
    ((s.toks.headD s.eof).type = .RBRACE ∧ res = (cases, hd, imp) ∧ s' = s) ∨
    ∃ (h : Hdr) (rest : List Tok), s.toks = h.toks ++ rest ∧ h.WF ∧ h.need ≤ n ∧
      h.reject (substC s.constants) seen hd = none ∧
      afterBody env sn brace n cases seen hd imp (substC s.constants) h
        ((parseSwitchBlockStatement env sn brace n [] {}).run (st s rest)) = .ok (res, s') := by
  by_cases h1 : (s.toks.headD s.eof).type = .RBRACE
  · left
    rw [step_done _ _ _ _ _ _ _ _ _ h1] at hr
    have := ok_inj hr
    exact ⟨h1, (Prod.mk.inj this).1.symm, (Prod.mk.inj this).2.symm⟩
  right
  by_cases h2 : (s.toks.headD s.eof).type = .CASE
  · cases htk : s.toks with
    | nil => rw [htk] at h2; simp [he] at h2
    | cons c tl =>
      rw [htk] at h2
      simp only [List.headD_cons] at h2
      have hr0 := hr
      rw [parseSwitchCases, st_eq_of_toks htk] at hr
      rsimp [beq_true_of_eq h2, show (c.type == TT.RBRACE) = false by rw [h2]; decide] at hr
      cases hcol : (collectUntil (fun t => t.type == TT.COLON)
          (newParseError c "missing `:` after 'case'") n []).run (st s tl) with
      | error e => rw [hcol] at hr; rsimp at hr; cases hr
      | ok r =>
        obtain ⟨parts, s2⟩ := r
        obtain ⟨vs, colon, rest, e1, e2, e3, e4, e5, -, -⟩ := collect_inv _ _ _ _ _ _ (by exact he) hcol
        simp only [st_toks] at e1
        have hwf : (Hdr.case c vs colon).WF := ⟨h2, e2, e4, e3⟩
        have hs : s = st s (c :: (vs ++ colon :: rest)) := st_eq_of_toks (by rw [htk, e1])
        rw [hs, step_case env sn brace n cases seen hd imp s c vs colon rest hwf e5] at hr0
        refine ⟨.case c vs colon, rest, by simp [Hdr.toks, e1], hwf, e5, ?_, ?_⟩
        · cases hrej : (Hdr.case c vs colon).reject (substC s.constants) seen hd with
          | none => rfl
          | some e => rw [hrej] at hr0; cases hr0
        · cases hrej : (Hdr.case c vs colon).reject (substC s.constants) seen hd with
          | none => rw [hrej] at hr0; exact hr0
          | some e => rw [hrej] at hr0; cases hr0
  by_cases h3 : (s.toks.headD s.eof).type = .DEFAULT
  · cases htk : s.toks with
    | nil => rw [htk] at h3; simp [he] at h3
    | cons d tl =>
      rw [htk] at h3
      simp only [List.headD_cons] at h3
      have hb1 : (d.type == TT.RBRACE) = false := by rw [h3]; decide
      have hb2 : (d.type == TT.CASE) = false := by rw [h3]; decide
      have hb3 : (d.type == TT.DEFAULT) = true := by rw [h3]; decide
      have key : ∃ colon rest, tl = colon :: rest ∧ colon.type = .COLON := by
        cases tl with
        | nil =>
          rw [parseSwitchCases, st_eq_of_toks htk] at hr
          cases hd <;>
            rsimp [hb1, hb2, hb3, List.getD_cons_succ, List.getD_nil,
              show (s.eof.type == TT.COLON) = false by rw [he]; decide] at hr <;> cases hr
        | cons colon rest =>
          by_cases hcol : colon.type = .COLON
          · exact ⟨colon, rest, rfl, hcol⟩
          · rw [parseSwitchCases, st_eq_of_toks htk] at hr
            cases hd <;> rsimp [hb1, hb2, hb3, beq_false_of_ne hcol] at hr <;> cases hr
      obtain ⟨colon, rest, rfl, hcol⟩ := key
      have hwf : (Hdr.dflt d colon).WF := ⟨h3, hcol⟩
      rw [st_eq_of_toks htk, step_dflt env sn brace n cases seen hd imp s d colon rest hwf] at hr
      refine ⟨.dflt d colon, rest, by simp [Hdr.toks], hwf, Nat.zero_le _, ?_, ?_⟩
      · cases hrej : (Hdr.dflt d colon).reject (substC s.constants) seen hd with
        | none => rfl
        | some e => rw [hrej] at hr; cases hr
      · cases hrej : (Hdr.dflt d colon).reject (substC s.constants) seen hd with
        | none => rw [hrej] at hr; exact hr
        | some e => rw [hrej] at hr; cases hr
  · rw [step_bad _ _ _ _ _ _ _ _ _ h1 h2 h3] at hr
    cases hr

/-! ### the loop as a sequence of segments `header body` -/

/-- One iteration of the loop: the header met, the body parsed after it (with its implicit data). -/
structure Seg where
  hdr : Hdr
  body : List Stmt
  imp : ImpData

/-- The entry of the case list built from a segment. -/
def Seg.case (σ : String → String) (g : Seg) : SwitchCase := (g.hdr.tok σ, g.hdr.isDefault, g.body)

/-- `Iter n s segs m s'`: started with fuel `n` in state `s`, the loop meets the headers of `segs` one after
the other, each followed by a body that `parseSwitchBlockStatement` parses (with the fuel the loop gives it),
and is then in state `s'` with fuel `m`.  Nothing is said about duplicates here (`Accepted`). -/
inductive Iter (env : Env) (sn : String) (brace : Tok) : Nat → PState → List Seg → Nat → PState → Prop
  | nil (n : Nat) (s : PState) : Iter env sn brace n s [] n s
  | cons {n : Nat} {s : PState} {g : Seg} {rest : List Tok} {s1 : PState} {segs : List Seg} {m : Nat}
      {s2 : PState} :
      s.toks = g.hdr.toks ++ rest → g.hdr.WF → g.hdr.need ≤ n →
      (parseSwitchBlockStatement env sn brace n [] {}).run (st s rest) = .ok ((g.body, g.imp), s1) →
      Iter env sn brace n s1 segs m s2 → Iter env sn brace (n + 1) s (g :: segs) m s2

/-- The list of values seen, after the segments. -/
def seenAfter (σ : String → String) : List String → List Seg → List String
  | seen, [] => seen
  | seen, g :: r => seenAfter σ (g.hdr.vals σ seen) r

/-- Whether a `default` was seen, after the segments. -/
def hdAfter : Bool → List Seg → Bool
  | hd, [] => hd
  | hd, g :: r => hdAfter (hd || g.hdr.isDefault) r

/-- The implicit data collected, after the segments. -/
def impAfter : ImpData → List Seg → ImpData
  | imp, [] => imp
  | imp, g :: r => impAfter (imp.add g.imp) r

/-- No header of the segments is rejected (duplicate value, second `default`). -/
def Accepted (σ : String → String) : List String → Bool → List Seg → Prop
  | _, _, [] => True
  | seen, hd, g :: r =>
    g.hdr.reject σ seen hd = none ∧ Accepted σ (g.hdr.vals σ seen) (hd || g.hdr.isDefault) r

theorem swblock_keeps {env : Env} {sn : String} {brace : Tok} {n : Nat} {s s1 : PState}
    {r : List Stmt × ImpData}
    (h : (parseSwitchBlockStatement env sn brace n [] {}).run s = .ok (r, s1)) :
    s1.constants = s.constants ∧ s1.eof = s.eof :=
  ⟨kc_parseSwitchBlockStatement env sn brace n [] {} s r s1 h,
   ((sdecAll n).swblock env sn brace [] {} s r s1 h).1⟩

theorem Iter.keeps {env : Env} {sn : String} {brace : Tok} {n m : Nat} {s s' : PState} {segs : List Seg}
    (h : Iter env sn brace n s segs m s') : s'.constants = s.constants ∧ s'.eof = s.eof := by
  induction h with
  | nil => exact ⟨rfl, rfl⟩
  | cons _ _ _ hb _ ih =>
    have := swblock_keeps hb
    exact ⟨ih.1.trans this.1, ih.2.trans this.2⟩

theorem Iter.fuel {env : Env} {sn : String} {brace : Tok} {n m : Nat} {s s' : PState} {segs : List Seg}
    (h : Iter env sn brace n s segs m s') : n = m + segs.length := by
  induction h with
  | nil => simp
  | cons _ _ _ _ _ ih => simp [ih]; omega

/-- **The loop along a trace.**  Running the loop from the start of the trace equals running it from the end
of the trace with the accumulators the segments produce: no fuel slack, errors included. -/
theorem run_of_iter {env : Env} {sn : String} {brace : Tok} {n m : Nat} {s s' : PState} {segs : List Seg}
    (h : Iter env sn brace n s segs m s') :
    ∀ (cases : List SwitchCase) (seen : List String) (hd : Bool) (imp : ImpData),
      Accepted (substC s.constants) seen hd segs →
      (parseSwitchCases env sn brace n cases seen hd imp).run s =
        (parseSwitchCases env sn brace m (cases ++ segs.map (Seg.case (substC s.constants)))
          (seenAfter (substC s.constants) seen segs) (hdAfter hd segs) (impAfter imp segs)).run s' := by
  induction h with
  | nil => intro cases seen hd imp _; simp [seenAfter, hdAfter, impAfter]
  | @cons n s g rest s1 segs m s2 htk hwf hn hb _ ih =>
    intro cases seen hd imp hacc
    obtain ⟨hrej, hacc⟩ := hacc
    rw [st_eq_of_toks htk, step env sn brace n cases seen hd imp s g.hdr rest hwf hn, hrej]
    simp only [hb, afterBody]
    have hk := (swblock_keeps hb).1
    simp only [st_constants] at hk
    rw [← hk] at hacc
    have ih' := ih (cases ++ [(g.hdr.tok (substC s1.constants), g.hdr.isDefault, g.body)]) _ _
      (imp.add g.imp) hacc
    rw [hk] at ih'
    rw [ih']
    simp [seenAfter, hdAfter, impAfter, Seg.case]

/-- **Every successful run of the loop is a trace** ending at `}` whose headers were all accepted; the
result is read off the trace. -/
theorem iter_of_ok (env : Env) (sn : String) (brace : Tok) :
    ∀ (n : Nat) (cases : List SwitchCase) (seen : List String) (hd : Bool) (imp : ImpData) (s : PState)
      (res : List SwitchCase × Bool × ImpData) (s' : PState), s.eof.type = .EOF →
      (parseSwitchCases env sn brace n cases seen hd imp).run s = .ok (res, s') →
      ∃ (segs : List Seg) (m : Nat), Iter env sn brace n s segs (m + 1) s' ∧
        (s'.toks.headD s'.eof).type = .RBRACE ∧ Accepted (substC s.constants) seen hd segs ∧
        res = (cases ++ segs.map (Seg.case (substC s.constants)), hdAfter hd segs, impAfter imp segs) := by
  intro n
  induction n with
  | zero =>
    intro cases seen hd imp s res s' _ hr
    rw [parseSwitchCases] at hr
    cases hr
  | succ n ih =>
    intro cases seen hd imp s res s' he hr
    rcases step_inv env sn brace n cases seen hd imp s he res s' hr with ⟨h1, rfl, rfl⟩ | ⟨h, rest, htk, hwf, hn, hrej, hab⟩
    · exact ⟨[], n, Iter.nil _ _, h1, trivial, by simp [hdAfter, impAfter]⟩
    · cases hb : (parseSwitchBlockStatement env sn brace n [] {}).run (st s rest) with
      | error e => rw [hb] at hab; cases hab
      | ok r =>
        obtain ⟨⟨body, bimp⟩, s1⟩ := r
        rw [hb] at hab
        simp only [afterBody] at hab
        have hk := swblock_keeps hb
        simp only [st_constants, st_eof] at hk
        obtain ⟨segs, m, hit, hend, hacc, hres⟩ := ih _ _ _ _ s1 res s' (by rw [hk.2]; exact he) hab
        rw [hk.1] at hacc hres
        refine ⟨⟨h, body, bimp⟩ :: segs, m, Iter.cons htk hwf hn hb hit, hend, ⟨hrej, hacc⟩, ?_⟩
        rw [hres]
        simp [hdAfter, impAfter, Seg.case]

/-! ### what acceptance means: pairwise distinct values, at most one `default` -/

/-- The values of the `case` headers of the segments, in source order. -/
def caseValues (σ : String → String) : List Seg → List String
  | [] => []
  | g :: r => (if g.hdr.isDefault then [] else [g.hdr.value σ]) ++ caseValues σ r

/-- Number of `default` headers among the segments. -/
def numDflt : List Seg → Nat
  | [] => 0
  | g :: r => (if g.hdr.isDefault then 1 else 0) + numDflt r

theorem seenAfter_eq (σ : String → String) : ∀ (segs : List Seg) (seen : List String),
    seenAfter σ seen segs = (caseValues σ segs).reverse ++ seen := by
  intro segs
  induction segs with
  | nil => intro seen; rfl
  | cons g r ih =>
    intro seen
    cases hg : g.hdr with
    | case c vs colon => simp [seenAfter, caseValues, hg, Hdr.vals, Hdr.isDefault, ih]
    | dflt d colon => simp [seenAfter, caseValues, hg, Hdr.vals, Hdr.isDefault, ih]

theorem hdAfter_eq : ∀ (segs : List Seg) (hd : Bool), hdAfter hd segs = (hd || decide (0 < numDflt segs)) := by
  intro segs
  induction segs with
  | nil => intro hd; simp [hdAfter, numDflt]
  | cons g r ih =>
    intro hd
    cases hg : g.hdr.isDefault <;> cases hd <;> simp [hdAfter, numDflt, hg, ih] <;> omega

theorem reject_none_iff (σ : String → String) (seen : List String) (hd : Bool) (h : Hdr) :
    h.reject σ seen hd = none ↔
      (h.isDefault = false → h.value σ ∉ seen) ∧ (h.isDefault = true → hd = false) := by
  cases h with
  | case c vs colon =>
    rw [Hdr.reject_case]
    by_cases hm : joinSp (vs.map fun v => σ v.lit) ∈ seen
    · simp [hm, Hdr.isDefault, Hdr.value]
    · simp [hm, Hdr.isDefault, Hdr.value]
  | dflt d colon =>
    rw [Hdr.reject_dflt]
    cases hd <;> simp [Hdr.isDefault]

/-- Acceptance of all headers = the case values are new and pairwise distinct, and there is at most one
`default` (none when one was seen before). -/
theorem accepted_iff (σ : String → String) : ∀ (segs : List Seg) (seen : List String) (hd : Bool),
    Accepted σ seen hd segs ↔
      (caseValues σ segs).Nodup ∧ (∀ v ∈ caseValues σ segs, v ∉ seen) ∧
      numDflt segs + (if hd then 1 else 0) ≤ 1 := by
  intro segs
  induction segs with
  | nil => intro seen hd; cases hd <;> simp [Accepted, caseValues, numDflt]
  | cons g r ih =>
    intro seen hd
    simp only [Accepted, reject_none_iff, ih]
    cases hg : g.hdr with
    | case c vs colon =>
      simp only [Hdr.isDefault, Hdr.vals, caseValues, numDflt, hg, Bool.false_eq_true, if_false,
        List.singleton_append, List.nodup_cons, List.mem_cons, Bool.or_false, Nat.zero_add,
        forall_eq_or_imp, true_implies, false_implies, and_true, not_or]
      constructor
      · rintro ⟨h1, h2, h3, h4⟩
        exact ⟨⟨fun hm => (h3 _ hm).1 rfl, h2⟩, ⟨h1, fun v hv => (h3 v hv).2⟩, h4⟩
      · rintro ⟨⟨h1, h2⟩, ⟨h3, h4⟩, h5⟩
        exact ⟨h3, h2, fun v hv => ⟨fun e => h1 (e ▸ hv), h4 v hv⟩, h5⟩
    | dflt d colon =>
      simp only [Hdr.isDefault, Hdr.vals, caseValues, numDflt, hg, if_true, List.nil_append,
        Bool.or_true, true_implies, Bool.true_eq_false, false_implies, true_and]
      cases hd <;> simp <;> omega

/-- The case values and defaults, read off the case list the loop returns. -/
def nonDefaultValues (cases : List SwitchCase) : List String :=
  (cases.filter fun c => !c.2.1).map fun c => c.1.lit

theorem nonDefaultValues_map (σ : String → String) : ∀ segs : List Seg,
    nonDefaultValues (segs.map (Seg.case σ)) = caseValues σ segs := by
  intro segs
  induction segs with
  | nil => rfl
  | cons g r ih =>
    unfold nonDefaultValues at ih ⊢
    cases hg : g.hdr with
    | case c vs colon => simp [Seg.case, caseValues, hg, Hdr.isDefault, Hdr.tok, Hdr.value, ih]
    | dflt d colon => simp [Seg.case, caseValues, hg, Hdr.isDefault, ih]

theorem numDefaults_map (σ : String → String) : ∀ segs : List Seg,
    numDefaults (segs.map (Seg.case σ)) = numDflt segs := by
  intro segs
  induction segs with
  | nil => rfl
  | cons g r ih =>
    unfold numDefaults at ih ⊢
    cases hg : g.hdr.isDefault <;> simp [Seg.case, numDflt, hg, ih] <;> omega

/-! ### the fuel-free reading of a trace -/

/-- `CasesOf env sn brace s segs s'`: from `s` the token window reads `header₁ body₁ header₂ body₂ …` where
the headers are those of `segs` (well formed) and each body is what `parseSwitchBlockStatement` parses
(with some fuel) right after its header; `s'` is the state after the last body. -/
def CasesOf (env : Env) (sn : String) (brace : Tok) : PState → List Seg → PState → Prop
  | s, [], s' => s' = s
  | s, g :: r, s' => ∃ (rest : List Tok) (n : Nat) (s1 : PState),
      s.toks = g.hdr.toks ++ rest ∧ g.hdr.WF ∧
      (parseSwitchBlockStatement env sn brace n [] {}).run (st s rest) = .ok ((g.body, g.imp), s1) ∧
      CasesOf env sn brace s1 r s'

theorem Iter.casesOf {env : Env} {sn : String} {brace : Tok} {n m : Nat} {s s' : PState} {segs : List Seg}
    (h : Iter env sn brace n s segs m s') : CasesOf env sn brace s segs s' := by
  induction h with
  | nil => rfl
  | cons htk hwf _ hb _ ih => exact ⟨_, _, _, htk, hwf, hb, ih⟩

/-! ### the operand loop of `switch (var(…))` -/

/-- `switchOperandLoop` up to the first `)` on a known token list. -/
theorem oploop_run (ot : Tok) (s : PState) (rp : Tok) (rest : List Tok) (hrp : rp.type = .RPAREN) :
    ∀ (ops : List Tok) (n : Nat) (parts : List String),
      (∀ o ∈ ops, o.type ≠ .RPAREN ∧ o.type ≠ .EOF) → ops.length < n →
      (parseSwitchStatement.switchOperandLoop ot n parts).run (st s (ops ++ rp :: rest)) =
        .ok (parts ++ ops.map (fun o => substC s.constants o.lit), st s (rp :: rest)) := by
  intro ops
  induction ops with
  | nil =>
    intro n parts _ hn
    obtain ⟨n, rfl⟩ : ∃ k, n = k + 1 := ⟨n - 1, by simp at hn; omega⟩
    rw [parseSwitchStatement.switchOperandLoop]
    rsimp [beq_true_of_eq hrp, List.map_nil, List.append_nil]
  | cons o ops ih =>
    intro n parts h1 hn
    obtain ⟨n, rfl⟩ : ∃ k, n = k + 1 := ⟨n - 1, by simp at hn; omega⟩
    rw [parseSwitchStatement.switchOperandLoop]
    have ho := h1 o (by simp)
    have := ih n (parts ++ [substC s.constants o.lit]) (fun x hx => h1 x (by simp [hx])) (by simp at hn; omega)
    rsimp [beq_false_of_ne ho.1, beq_false_of_ne ho.2, this, List.map_cons, List.append_assoc]

/-- Converse of `oploop_run`. -/
theorem oploop_inv (ot : Tok) :
    ∀ (n : Nat) (parts : List String) (s : PState) (r : List String) (s' : PState),
      s.eof.type = .EOF →
      (parseSwitchStatement.switchOperandLoop ot n parts).run s = .ok (r, s') →
      ∃ ops rp rest, s.toks = ops ++ rp :: rest ∧ (∀ o ∈ ops, o.type ≠ .RPAREN ∧ o.type ≠ .EOF) ∧
        rp.type = .RPAREN ∧ ops.length < n ∧
        r = parts ++ ops.map (fun o => substC s.constants o.lit) ∧ s' = st s (rp :: rest) := by
  intro n
  induction n with
  | zero =>
    intro parts s r s' _ h
    rw [parseSwitchStatement.switchOperandLoop] at h
    cases h
  | succ n ih =>
    intro parts s r s' he h
    rw [parseSwitchStatement.switchOperandLoop] at h
    rsimp at h
    by_cases hc : ((s.toks.headD s.eof).type == TT.RPAREN) = true
    · rsimp [hc] at h
      have h := ok_inj h
      cases htk : s.toks with
      | nil => rw [htk] at hc; simp [he] at hc
      | cons c tl =>
        rw [htk] at hc
        refine ⟨[], c, tl, rfl, by simp, by simpa using hc, by simp, ?_, ?_⟩
        · simp [← (Prod.mk.inj h).1]
        · rw [← (Prod.mk.inj h).2, ← htk]; rfl
    · rsimp [hc] at h
      by_cases hn : ((s.toks.headD s.eof).type == TT.EOF) = true
      · rsimp [hn] at h
        cases h
      · rsimp [hn] at h
        obtain ⟨ops, rp, rest, h1, h2, h3, h5, h6, h7⟩ := ih _ _ _ _ (by exact he) h
        cases htk : s.toks with
        | nil => rw [htk] at h1; simp at h1
        | cons c tl =>
          rw [htk] at hc h1 hn
          simp only [st_toks, List.tail_cons] at h1
          simp only [List.headD_cons] at hn hc
          refine ⟨c :: ops, rp, rest, by rw [h1]; rfl, ?_, h3, by simp; omega, ?_, ?_⟩
          · intro v hv
            rcases List.mem_cons.1 hv with rfl | hv
            · exact ⟨by simpa using hc, by simpa using hn⟩
            · exact h2 v hv
          · rw [h6]; simp [htk]
          · rw [h7]; rfl

/-! ### the `switch` statement -/

/-- The state after `newSid; pushBreak sid` at the start of a `switch`. -/
def enter (s : PState) : PState := setB (setSid s (s.nextSid + 1)) (s.nextSid :: s.breakStack)
/-- The state after `popBreak`. -/
def leave (s : PState) : PState := setB s s.breakStack.tail

theorem oploop_wp (ot : Tok) (n : Nat) (parts : List String) (s : PState) :
    wp (parseSwitchStatement.switchOperandLoop ot n parts) s (fun r s' => s.eof.type = .EOF →
      ∃ ops rp rest, s.toks = ops ++ rp :: rest ∧ (∀ o ∈ ops, o.type ≠ .RPAREN ∧ o.type ≠ .EOF) ∧
        rp.type = .RPAREN ∧ ops.length < n ∧
        r = parts ++ ops.map (fun o => substC s.constants o.lit) ∧ s' = st s (rp :: rest)) :=
  fun r s' hr he => oploop_inv ot n parts s r s' he hr

theorem cases_wp (env : Env) (sn : String) (brace : Tok) (n : Nat) (s : PState) :
    wp (parseSwitchCases env sn brace n [] [] false {}) s (fun res s' => s.eof.type = .EOF →
      ∃ (segs : List Seg) (m : Nat), Iter env sn brace n s segs (m + 1) s' ∧
        (s'.toks.headD s'.eof).type = .RBRACE ∧ Accepted (substC s.constants) [] false segs ∧
        res = (segs.map (Seg.case (substC s.constants)), hdAfter false segs, impAfter {} segs)) :=
  fun res s' hr he => by simpa using iter_of_ok env sn brace n [] [] false {} s res s' he hr

/-- What `expectPeekVarOrAutoVar` returns: `none` after `var (`; for a configured auto-var command the
command is parsed and the operand is the configured variable name or the configured argument. -/
def EpvPost (env : Env) (sn : String) (n : Nat) (s : PState) (r : Option (String × Cmd × ImpData))
    (s' : PState) : Prop :=
  match r with
  | none => (s.toks.getD 1 s.eof).type = .VAR ∧ (s.toks.getD 2 s.eof).type = .LPAREN ∧
      s' = upd s s.toks.tail.tail s.nextCmdId
  | some (name, cmd, imp) =>
    (s.toks.getD 1 s.eof).type ≠ .VAR ∧ ∃ av, env.autoVars.lookup (s.toks.getD 1 s.eof).lit = some av ∧
      (parseCommandStatement env sn n).run (upd s s.toks.tail s.nextCmdId) = .ok ((cmd, imp), s') ∧
      name = (match av.argPos with | none => av.varName | some pos => cmd.args.getD pos.toNat "") ∧
      (∀ pos, av.argPos = some pos → 0 ≤ pos ∧ pos ≤ (cmd.args.length : Int) - 1) ∧
      ∃ l k, s' = upd s l k

theorem epv_wp (env : Env) (sn : String) (n : Nat) (s : PState) :
    wp (expectPeekVarOrAutoVar env sn n) s (EpvPost env sn n s) := by
  unfold expectPeekVarOrAutoVar
  wpsimp [(frame_parseCommandStatement _ _ _).wp_iff]
  split
  · rename_i hv
    split
    · rename_i hl
      simp only [EpvPost]
      exact ⟨by simpa using hv, by simpa using hl, trivial⟩
    · trivial
  · rename_i hv
    have hv' : (s.toks.getD 1 s.eof).type ≠ TT.VAR := by simpa using hv
    split
    · rename_i av hav
      wpsimp [(frame_parseCommandStatement _ _ _).wp_iff]
      intro a l k hrun
      split
      · rename_i hpos
        wpsimp
        simp only [EpvPost]
        refine ⟨hv', av, hav, hrun, by rw [hpos], ?_, _, _, rfl⟩
        intro pos hp; rw [hpos] at hp; cases hp
      · rename_i pos hpos
        wpsimp
        split
        · trivial
        · rename_i hb
          simp only [EpvPost]
          refine ⟨hv', av, hav, hrun, by rw [hpos], ?_, _, _, rfl⟩
          intro p hp
          rw [hpos] at hp
          cases hp
          simp only [Bool.or_eq_true, decide_eq_true_eq, not_or, Int.not_lt, Int.not_lt] at hb
          omega
    · wpsimp

/-- How the operand of a `switch` is written.  `s0` is the state whose current token is the `(` after
`switch`; the relation gives the operand token, the statements put in front of the switch, their implicit
data, and the state whose current token is the last one before `{`.

* `var`: `( var ( o₁ … oₖ ) x` — the operand is the first operand token carrying the space-joined,
  constant-substituted literals; the token `x` after the `)` is skipped unchecked.
* `auto`: `( cmd … )` for an auto-var command: `expectPeekVarOrAutoVar` parses the command (see
  `EpvPost`); the operand is the command token retyped `IDENT` carrying the variable name; the command
  itself is put in front of the switch. -/
inductive OperandAt (env : Env) (sn : String) (n : Nat) (s0 : PState) :
    Tok → List Stmt → ImpData → PState → Prop
  | var {lp v lp2 : Tok} {ops : List Tok} {rp x : Tok} {tl : List Tok} :
      s0.toks = lp :: v :: lp2 :: (ops ++ rp :: x :: tl) → v.type = .VAR → lp2.type = .LPAREN →
      (∀ o ∈ ops, o.type ≠ .RPAREN ∧ o.type ≠ .EOF) → rp.type = .RPAREN → ops.length < n →
      OperandAt env sn n s0
        { ops.headD rp with lit := joinSp (ops.map fun o => substC s0.constants o.lit) } [] {}
        (st s0 (x :: tl))
  | auto {name : String} {cmd : Cmd} {aimp : ImpData} {s1 : PState} {last rp : Tok} {tl : List Tok} :
      (expectPeekVarOrAutoVar env sn n).run s0 = .ok (some (name, cmd, aimp), s1) →
      s1.toks = last :: rp :: tl → rp.type = .RPAREN →
      OperandAt env sn n s0 { cmd.tok with type := .IDENT, lit := name } [.cmd cmd] aimp (st s1 (rp :: tl))

/-- **The shape of every successful parse of a `switch` statement.** -/
inductive SwitchRun (env : Env) (sn : String) (n : Nat) (s : PState) : List Stmt × ImpData → PState → Prop
  | intro {sw lp : Tok} {tl : List Tok} {operand : Tok} {pre : List Stmt} {oimp : ImpData} {sO : PState}
      {x lb : Tok} {ctoks : List Tok} {segs : List Seg} {m : Nat} {se : PState} :
      s.toks = sw :: lp :: tl → lp.type = .LPAREN →
      OperandAt env sn n (st (enter s) (lp :: tl)) operand pre oimp sO →
      sO.toks = x :: lb :: ctoks → lb.type = .LBRACE →
      Iter env sn lb n (st sO ctoks) segs (m + 1) se → (se.toks.headD se.eof).type = .RBRACE →
      Accepted (substC s.constants) [] false segs → segs ≠ [] →
      SwitchRun env sn n s
        (pre ++ [.switch_ sw s.nextSid operand (segs.map (Seg.case (substC s.constants)))],
          (({} : ImpData).add oimp).add (impAfter {} segs))
        (leave se)

theorem toks_two {l : List Tok} {e : Tok} {t : TT} (he : e.type = .EOF) (ht : t ≠ .EOF)
    (h : (l.getD 1 e).type = t) : ∃ a x tl, l = a :: x :: tl ∧ x.type = t := by
  cases l with
  | nil => exact absurd (he.symm.trans h).symm ht
  | cons a l =>
    cases l with
    | nil => exact absurd (he.symm.trans h).symm ht
    | cons x tl => exact ⟨a, x, tl, rfl, h⟩

theorem headD_append_cons (ops : List Tok) (rp : Tok) (r : List Tok) (e : Tok) :
    (ops ++ rp :: r).headD e = ops.headD rp := by cases ops <;> rfl

/-- Every successful parse of a `switch` statement has the shape `SwitchRun`. -/
theorem switch_wp (env : Env) (sn : String) (n : Nat) (s : PState) (he : s.eof.type = .EOF) :
    wp (parseSwitchStatement env sn (n + 1)) s (SwitchRun env sn n s) := by
  rw [parseSwitchStatement]
  swp [wp_spec (epv_wp _ _ _ _)]
  split
  · rename_i hlp
    obtain ⟨sw, lp, tl, htk, hlp⟩ := toks_two he (by decide) (beq_iff_eq.mp hlp)
    intro a s0 hrun hpost
    split
    · -- `var ( … )`
      simp only [EpvPost, upd_toks, upd_eof, setB_eof, setSid_eof, htk, List.tail_cons] at hpost
      obtain ⟨hv, hlp2, rfl⟩ := hpost
      obtain ⟨v, tl2, rfl⟩ : ∃ v tl2, tl = v :: tl2 := by
        cases tl with
        | nil => simp [he] at hv
        | cons v tl2 => exact ⟨v, tl2, rfl⟩
      obtain ⟨lp2, tl3, rfl⟩ : ∃ v tl3, tl2 = v :: tl3 := by
        cases tl2 with
        | nil => simp [he] at hlp2
        | cons v tl3 => exact ⟨v, tl3, rfl⟩
      simp only [getD_one, getD_two] at hv hlp2
      swp [wp_spec (oploop_wp _ _ _ _), wp_spec (cases_wp _ _ _ _ _)]
      intro parts s1 _ hop
      obtain ⟨ops, rp, rest, rfl, hops, hrp, hlen, rfl, rfl⟩ := hop he
      simp only [st_toks, st_eof, upd_eof, setB_eof, setSid_eof, List.tail_cons, st_constants, upd_constants,
        setB_constants, setSid_constants]
      split
      · rename_i hlb0
        obtain ⟨x, lb, ctoks, rfl, hlb⟩ := toks_two he (by decide) (beq_iff_eq.mp hlb0)
        simp only [List.tail_cons, List.headD_cons]
        intro res se _ hcs
        obtain ⟨segs, m, hit, hend, hacc, rfl⟩ := hcs he
        split
        · trivial
        · rename_i hne
          rw [htk]
          have := @SwitchRun.intro env sn n s sw lp _ _ _ _ _ x lb ctoks segs m se htk hlp
            (OperandAt.var (x := x) (tl := lb :: ctoks) rfl hv hlp2 hops hrp hlen) rfl hlb hit hend hacc
            (by intro h; subst h; simp at hne)
          simp only [List.headD_cons, headD_append_cons, List.nil_append]
          exact this
      · trivial
    · -- auto-var command
      rename_i name cmd aimp
      have hs0 : s0.eof = s.eof := by
        obtain ⟨_, _, _, _, _, _, l, k, rfl⟩ := hpost
        rfl
      have hc0 : s0.constants = s.constants := by
        obtain ⟨_, _, _, _, _, _, l, k, rfl⟩ := hpost
        rfl
      have he0 : s0.eof.type = .EOF := by rw [hs0]; exact he
      swp [wp_spec (cases_wp _ _ _ _ _)]
      split
      · rename_i hrp0
        obtain ⟨last, rp, tl1, htk1, hrp⟩ := toks_two he0 (by decide) (beq_iff_eq.mp hrp0)
        simp only [htk1, List.tail_cons]
        split
        · rename_i hlb0
          obtain ⟨rp', lb, ctoks, hrl, hlb⟩ := toks_two he0 (by decide) (beq_iff_eq.mp hlb0)
          cases hrl
          simp only [List.tail_cons, List.headD_cons]
          intro res se _ hcs
          obtain ⟨segs, m, hit, hend, hacc, rfl⟩ := hcs he0
          split
          · trivial
          · rename_i hne
            rw [hc0] at hacc
            simp only [hc0]
            have := @SwitchRun.intro env sn n s sw lp tl _ _ _ _ rp lb ctoks segs m se htk hlp
              (OperandAt.auto (last := last) (rp := rp) (tl := lb :: ctoks) (by rw [htk] at hrun; exact hrun) htk1 hrp)
              rfl hlb hit hend hacc (by intro h; subst h; simp at hne)
            rw [htk]
            exact this
        · trivial
      · trivial
  · trivial

/-! ### forward direction: the statement on a known shape -/

theorem run_newSid (s : PState) : newSid.run s = .ok (s.nextSid, setSid s (s.nextSid + 1)) := id rfl
theorem run_pushBreak (sid : Nat) (s : PState) :
    (pushBreak sid).run s = .ok ((), setB s (sid :: s.breakStack)) := id rfl
theorem run_popBreak (s : PState) : popBreak.run s = .ok ((), leave s) := id rfl
theorem enter_toks (s : PState) : (enter s).toks = s.toks := id rfl
theorem enter_eof (s : PState) : (enter s).eof = s.eof := id rfl
theorem enter_constants (s : PState) : (enter s).constants = s.constants := id rfl
theorem leave_toks (s : PState) : (leave s).toks = s.toks := id rfl
theorem leave_eof (s : PState) : (leave s).eof = s.eof := id rfl
theorem enter_def (s : PState) : setB (setSid s (s.nextSid + 1)) (s.nextSid :: s.breakStack) = enter s := rfl

/-- What `parseSwitchStatement` does with the result of the case loop. -/
def finishSwitch (sw : Tok) (sid : Nat) (operand : Tok) (pre : List Stmt) (oimp : ImpData)
    (r : Except PFail ((List SwitchCase × Bool × ImpData) × PState)) :
    Except PFail ((List Stmt × ImpData) × PState) :=
  match r with
  | .error e => .error e
  | .ok ((cases, _, cimp), se) =>
    if cases.isEmpty then
      .error (newRangeParseError sw (se.toks.headD se.eof) "switch statement has no cases or default case")
    else .ok ((pre ++ [.switch_ sw sid operand cases], (({} : ImpData).add oimp).add cimp), leave se)

theorem epv_var_run (env : Env) (sn : String) (n : Nat) (s0 : PState) (lp v lp2 : Tok) (r : List Tok)
    (hv : v.type = .VAR) (hlp2 : lp2.type = .LPAREN) :
    (expectPeekVarOrAutoVar env sn n).run (st s0 (lp :: v :: lp2 :: r)) = .ok (none, st s0 (lp2 :: r)) := by
  unfold expectPeekVarOrAutoVar
  rsimp [beq_true_of_eq hv, beq_true_of_eq hlp2]

/-- **The `switch` statement along its shape**: operand read, then the result of the case loop is passed on
(errors included). -/
theorem switch_run {env : Env} {sn : String} {n : Nat} {s : PState} {sw lp : Tok} {tl : List Tok}
    {operand : Tok} {pre : List Stmt} {oimp : ImpData} {sO : PState} {x lb : Tok} {ctoks : List Tok}
    (htk : s.toks = sw :: lp :: tl) (hlp : lp.type = .LPAREN)
    (hop : OperandAt env sn n (st (enter s) (lp :: tl)) operand pre oimp sO)
    (hO : sO.toks = x :: lb :: ctoks) (hlb : lb.type = .LBRACE) :
    (parseSwitchStatement env sn (n + 1)).run s =
      finishSwitch sw s.nextSid operand pre oimp
        ((parseSwitchCases env sn lb n [] [] false {}).run (st sO ctoks)) := by
  rw [parseSwitchStatement]
  rsimp [run_newSid, run_pushBreak, setSid_breakStack, enter_def, enter_toks, enter_eof, htk,
    beq_true_of_eq hlp]
  cases hop with
  | @var lp' v lp2 ops rp x' tl' h0 hv hlp2 hops hrp hlen =>
    simp only [st_toks, List.cons.injEq] at h0
    obtain ⟨rfl, rfl⟩ := h0
    simp only [st_toks, List.cons.injEq] at hO
    obtain ⟨rfl, rfl⟩ := hO
    rsimp [epv_var_run _ _ _ _ _ _ _ _ hv hlp2, oploop_run _ _ rp _ hrp ops n [] hops hlen,
      beq_true_of_eq hlb, enter_constants]
    simp only [headD_append_cons]
    cases hc : (parseSwitchCases env sn lb n [] [] false {}).run (st (enter s) ctoks) with
    | error e => rfl
    | ok r =>
      obtain ⟨⟨cases, hd, cimp⟩, se⟩ := r
      rsimp [run_popBreak, finishSwitch, leave_toks, leave_eof]
      cases cases with
      | nil => rfl
      | cons c cs => rfl
  | @auto name cmd aimp s1 last rp tl' hrun h1 hrp =>
    simp only [st_toks, List.cons.injEq] at hO
    obtain ⟨rfl, rfl⟩ := hO
    have hrun' : (expectPeekVarOrAutoVar env sn n).run (st (enter s) (lp :: tl)) =
        .ok (some (name, cmd, oimp), st s1 (last :: rp :: lb :: ctoks)) := by
      rw [hrun, st_eq_of_toks h1]; rfl
    rsimp [hrun', beq_true_of_eq hrp, beq_true_of_eq hlb]
    cases hc : (parseSwitchCases env sn lb n [] [] false {}).run (st s1 ctoks) with
    | error e => rfl
    | ok r =>
      obtain ⟨⟨cases, hd, cimp⟩, se⟩ := r
      rsimp [run_popBreak, finishSwitch, leave_toks, leave_eof]
      cases cases with
      | nil => rfl
      | cons c cs => rfl

/-- A `default` when one was already seen is rejected before anything else is looked at, the error located
on the `default` token. -/
theorem step_second_default (env : Env) (sn : String) (brace : Tok) (n : Nat) (cases : List SwitchCase)
    (seen : List String) (imp : ImpData) (s : PState) (h : (s.toks.headD s.eof).type = .DEFAULT) :
    (parseSwitchCases env sn brace (n + 1) cases seen true imp).run s =
      .error (newParseError (s.toks.headD s.eof) multiDefaultMsg) := by
  rw [parseSwitchCases]
  have h1 : ((s.toks.headD s.eof).type == TT.RBRACE) = false := by rw [h]; decide
  have h2 : ((s.toks.headD s.eof).type == TT.CASE) = false := by rw [h]; decide
  have h3 : ((s.toks.headD s.eof).type == TT.DEFAULT) = true := by rw [h]; decide
  rsimp [h1, h2, h3]
  rfl

/-- Reading the operand keeps the constants and the end-of-input token. -/
theorem OperandAt.keeps {env : Env} {sn : String} {n : Nat} {s0 sO : PState} {operand : Tok}
    {pre : List Stmt} {oimp : ImpData} (h : OperandAt env sn n s0 operand pre oimp sO) :
    sO.constants = s0.constants ∧ sO.eof = s0.eof := by
  cases h with
  | var => exact ⟨rfl, rfl⟩
  | auto hrun _ _ =>
    obtain ⟨l, k, rfl⟩ := frame_expectPeekVarOrAutoVar env sn n s0 _ _ hrun
    exact ⟨rfl, rfl⟩

/-- **Errors of the case loop along a trace.**  If the loop, after the segments of an accepted trace, fails
with `e` for the accumulators the trace produces, the whole loop fails with `e`. -/
theorem error_of_iter {env : Env} {sn : String} {brace : Tok} {n m : Nat} {s sm : PState} {segs : List Seg}
    (h : Iter env sn brace n s segs m sm) (cases : List SwitchCase) (seen : List String) (hd : Bool)
    (imp : ImpData) (hacc : Accepted (substC s.constants) seen hd segs) (e : PFail)
    (herr : ∀ cases' imp', (parseSwitchCases env sn brace m cases' (seenAfter (substC s.constants) seen segs)
        (hdAfter hd segs) imp').run sm = .error e) :
    (parseSwitchCases env sn brace n cases seen hd imp).run s = .error e := by
  rw [run_of_iter h cases seen hd imp hacc]
  exact herr _ _

end Pory.SwitchParse
