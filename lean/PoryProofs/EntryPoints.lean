import PoryProofs.Sim
import PoryProofs.Scoped
import PoryProofs.LabelCensus
/-
Entry points in SOURCE vocabulary (helper module of PoryProofs/Properties/C01f.lean).

`Pos body cur K` — "`⟨cur, K⟩` is a syntactic position of `body`": the statement list `cur` is a suffix of a
block of `body` at any nesting depth (then / elif / else body, loop body, non-empty case body; also BEHIND a
`break` / `continue`, i.e. dead code) and `K` is the continuation stack the source machine `Sem.sstep` has when it
stands there (the frames pushed by the enclosing statements).  It mentions no chunk, no id, no worklist.

* `pos_impl`   : the compilation relation covers every position: from `Impl G cx 0 0 body none` (what the worklist
                 establishes, `Emit.emit_impl`) every position has a graph location `(k, o)` and a return id with
                 `Impl G cx k o cur ret ∧ KImpl G cx ret K` — i.e. `R G cx ⟨cur, K, h⟩ ⟨k, o, h⟩` for every history.
* `pos_scoped` : every position of a well-scoped body is a well-scoped configuration.
* `pos_lbls`   : the label statements of a position are label statements of the body (`C15d.blockLbls`).
* `block_lbls_pos` / `labelPos_iff` : conversely every label statement `(n, g)` of the body (any depth, dead code
                 included) is the head of a position `⟨.label tok n g :: rest, K⟩`:
                 `LabelPos body a ↔ a ∈ blockLbls body`.
  (`Pos.tail` only steps to a NON-EMPTY rest — the empty position behind a block-final `end` / `return` has no
  chunk offset of its own (`Impl.endLast`); `Pos.caseB` asks for a non-empty case body — an empty case shares the
  body of a later case.)
-/
namespace Pory.Sem
open Pory Pory.Emit

inductive Pos (body : List Stmt) : List Stmt → List Frame → Prop
  | root : Pos body body []
  | tail {x rest K} : Pos body (x :: rest) K → rest ≠ [] → Pos body rest K
  | thenB {tok c t elifs els rest K} :
      Pos body (.ite tok c t elifs els :: rest) K → Pos body t (pushSeq rest K)
  | elifB {tok c t elifs els rest K cb} :
      Pos body (.ite tok c t elifs els :: rest) K → cb ∈ elifs → Pos body cb.2 (pushSeq rest K)
  | elseB {tok c t elifs eb rest K} :
      Pos body (.ite tok c t elifs (some eb) :: rest) K → Pos body eb (pushSeq rest K)
  | whileB {tok sid c b rest K} :
      Pos body (.while_ tok sid c b :: rest) K → Pos body b (.whileF sid c b :: pushSeq rest K)
  | doB {tok sid c b rest K} :
      Pos body (.doWhile tok sid c b :: rest) K → Pos body b (.doF sid c b :: pushSeq rest K)
  | caseB {tok sid op cases rest K cs} :
      Pos body (.switch_ tok sid op cases :: rest) K → cs ∈ cases → cs.2.2 ≠ [] →
      Pos body cs.2.2 (.switchF sid :: pushSeq rest K)

variable (G : List Chunk) (cx : Ctx)

/-- stepping over the first statement of a block that continues: same return id -/
theorem impl_tail {k o : Nat} {x : Stmt} {rest : List Stmt} {ret : Option Nat}
    (hi : Impl G cx k o (x :: rest) ret) (hne : rest ≠ []) : ∃ k' o', Impl G cx k' o' rest ret := by
  cases hi with
  | endLast => exact absurd rfl hne
  | cmd _ _ h => exact ⟨_, _, h⟩
  | label _ _ h => exact ⟨_, _, h⟩
  | ite _ _ _ h3 => exact ⟨_, _, h3 hne⟩
  | whileInf _ _ _ _ h3 => exact ⟨_, _, h3 hne⟩
  | while_ _ _ _ _ h3 => exact ⟨_, _, h3 hne⟩
  | doWhile _ _ _ _ h3 => exact ⟨_, _, h3 hne⟩
  | brk _ _ _ h3 => exact ⟨_, _, h3 hne⟩
  | cont _ _ _ h3 => exact ⟨_, _, h3 hne⟩
  | switchEmpty _ _ _ _ h3 => exact ⟨_, _, h3 hne⟩
  | switch_ _ _ _ _ h3 => exact ⟨_, _, h3 hne⟩

/-- **The compilation relation covers every syntactic position of the body.** -/
theorem pos_impl {body : List Stmt} (h0 : Impl G cx 0 0 body none) {cur : List Stmt} {K : List Frame}
    (hp : Pos body cur K) : ∃ k o ret, Impl G cx k o cur ret ∧ KImpl G cx ret K := by
  induction hp with
  | root => exact ⟨0, 0, none, h0, rfl⟩
  | tail _ hne ih =>
    obtain ⟨k, o, ret, hi, hk⟩ := ih
    obtain ⟨k', o', hi'⟩ := impl_tail G cx hi hne
    exact ⟨k', o', ret, hi', hk⟩
  | @thenB tok c t elifs els rest K _ ih =>
    obtain ⟨k, o, ret, hi, hk⟩ := ih
    cases hi with
    | @ite _ _ _ _ _ _ _ _ _ _ post p entries bodies elseId elseTarget hG hl hpo h3 he hb hbr hcond hbod =>
      have hlen : 0 < bodies.length := by rw [hb]; simp
      have hb0 : bodies[0]? = some bodies[0] := List.getElem?_eq_getElem hlen
      exact ⟨_, 0, post, hbod 0 (by simp) _ hb0, kimpl_push G cx hpo h3 hk⟩
  | @elifB tok c t elifs els rest K cb _ hmem ih =>
    obtain ⟨k, o, ret, hi, hk⟩ := ih
    cases hi with
    | @ite _ _ _ _ _ _ _ _ _ _ post p entries bodies elseId elseTarget hG hl hpo h3 he hb hbr hcond hbod =>
      obtain ⟨i, hi', hget⟩ := List.mem_iff_getElem.1 hmem
      have hlen : i + 1 < bodies.length := by rw [hb]; simp; omega
      have hbi : bodies[i + 1]? = some bodies[i + 1] := List.getElem?_eq_getElem hlen
      have := hbod (i + 1) (by simp; omega) _ hbi
      simp only [List.getElem_cons_succ] at this
      rw [hget] at this
      exact ⟨_, 0, post, this, kimpl_push G cx hpo h3 hk⟩
  | @elseB tok c t elifs eb rest K _ ih =>
    obtain ⟨k, o, ret, hi, hk⟩ := ih
    cases hi with
    | @ite _ _ _ _ _ _ _ _ _ _ post p entries bodies elseId elseTarget hG hl hpo h3 he hb hbr hcond hbod
        hels0 hels1 hels2 =>
      exact ⟨elseId, 0, post, hels2 eb rfl, kimpl_push G cx hpo h3 hk⟩
  | @whileB tok sid c b rest K _ ih =>
    obtain ⟨k, o, ret, hi, hk⟩ := ih
    cases hi with
    | whileInf hG hl hb hpo h3 hbrk hcont hib hj =>
      exact ⟨_, 0, _, hib, _, _, _, rfl, hbrk, hcont, hib, hj, kimpl_push G cx hpo h3 hk⟩
    | while_ hG hl hb hpo h3 hbrk hcont hib hj hc =>
      exact ⟨_, 0, _, hib, _, _, _, rfl, hbrk, hcont, hib, ⟨_, hj, hc⟩, kimpl_push G cx hpo h3 hk⟩
  | @doB tok sid c b rest K _ ih =>
    obtain ⟨k, o, ret, hi, hk⟩ := ih
    cases hi with
    | doWhile hG hl hb hpo h3 hbrk hcont hib hj hc =>
      exact ⟨_, 0, _, hib, _, _, _, rfl, hbrk, hcont, hib, ⟨_, hj, hc⟩, kimpl_push G cx hpo h3 hk⟩
  | @caseB tok sid op cases rest K cs _ hmem hne ih =>
    obtain ⟨k, o, ret, hi, hk⟩ := ih
    cases hi with
    | switchEmpty hG hl hb hpo h3 hbrk hall => exact absurd (hall cs hmem) hne
    | @switch_ _ _ _ _ _ _ _ _ _ post swId sw bodyIds0 emptyId p hG hl hb hpo h3 hbrk hlen hnone hbod =>
      obtain ⟨i, hi', hget⟩ := List.mem_iff_getElem.1 hmem
      have hl' : i < bodyIds0.length := by rw [hlen]; exact hi'
      have hbi : bodyIds0[i]? = some bodyIds0[i] := List.getElem?_eq_getElem hl'
      cases hv : bodyIds0[i] with
      | none =>
        rw [hv] at hbi
        have := (hnone i hi').1 hbi
        rw [hget] at this
        exact absurd this hne
      | some bid =>
        rw [hv] at hbi
        have := hbod i hi' bid hbi
        rw [hget] at this
        exact ⟨bid, 0, post, this, hbrk, kimpl_push G cx hpo h3 hk⟩

/-! ### positions are well scoped -/

theorem scopedElifs_mem {B C : List Nat} : ∀ {elifs : List (BoolExpr × List Stmt)} {cb : BoolExpr × List Stmt},
    scopedElifs B C elifs → cb ∈ elifs → scopedStmts B C cb.2
  | [], _, _, hm => by cases hm
  | (c, b) :: r, cb, hs, hm => by
    simp only [scopedElifs] at hs
    rcases List.mem_cons.1 hm with e | hm'
    · subst e; exact hs.1
    · exact scopedElifs_mem hs.2 hm'

theorem scopedCases_mem {B C : List Nat} : ∀ {cases : List SwitchCase} {cs : SwitchCase},
    scopedCases B C cases → cs ∈ cases → scopedStmts B C cs.2.2
  | [], _, _, hm => by cases hm
  | (v, d, b) :: r, cs, hs, hm => by
    simp only [scopedCases] at hs
    rcases List.mem_cons.1 hm with e | hm'
    · subst e; exact hs.1
    · exact scopedCases_mem hs.2 hm'

/-- **Every syntactic position of a well-scoped body is a well-scoped configuration.** -/
theorem pos_scoped {body : List Stmt} (h0 : scopedStmts [] [] body) {cur : List Stmt} {K : List Frame}
    (hp : Pos body cur K) : scopedStmts (brkScopes K) (contScopes K) cur ∧ scopedK K := by
  induction hp with
  | root => exact ⟨h0, trivial⟩
  | tail _ _ ih =>
    obtain ⟨hs, hk⟩ := ih
    simp only [scopedStmts] at hs
    exact ⟨hs.2, hk⟩
  | @thenB tok c t elifs els rest K _ ih =>
    obtain ⟨hs, hk⟩ := ih
    simp only [scopedStmts] at hs
    rw [brkScopes_pushSeq, contScopes_pushSeq]
    exact ⟨((scopedStmt_ite _ _ _ _ _ _ _).1 hs.1).1, scopedK_pushSeq hs.2 hk⟩
  | @elifB tok c t elifs els rest K cb _ hmem ih =>
    obtain ⟨hs, hk⟩ := ih
    simp only [scopedStmts] at hs
    rw [brkScopes_pushSeq, contScopes_pushSeq]
    exact ⟨scopedElifs_mem ((scopedStmt_ite _ _ _ _ _ _ _).1 hs.1).2.1 hmem, scopedK_pushSeq hs.2 hk⟩
  | @elseB tok c t elifs eb rest K _ ih =>
    obtain ⟨hs, hk⟩ := ih
    simp only [scopedStmts] at hs
    rw [brkScopes_pushSeq, contScopes_pushSeq]
    exact ⟨((scopedStmt_ite _ _ _ _ _ _ _).1 hs.1).2.2, scopedK_pushSeq hs.2 hk⟩
  | @whileB tok sid c b rest K _ ih =>
    obtain ⟨hs, hk⟩ := ih
    simp only [scopedStmts, scopedStmt] at hs
    simp only [brkScopes, contScopes, scopedK, brkScopes_pushSeq, contScopes_pushSeq]
    exact ⟨hs.1, hs.1, scopedK_pushSeq hs.2 hk⟩
  | @doB tok sid c b rest K _ ih =>
    obtain ⟨hs, hk⟩ := ih
    simp only [scopedStmts, scopedStmt] at hs
    simp only [brkScopes, contScopes, scopedK, brkScopes_pushSeq, contScopes_pushSeq]
    exact ⟨hs.1, hs.1, scopedK_pushSeq hs.2 hk⟩
  | @caseB tok sid op cases rest K cs _ hmem hne ih =>
    obtain ⟨hs, hk⟩ := ih
    simp only [scopedStmts, scopedStmt] at hs
    simp only [brkScopes, contScopes, scopedK, brkScopes_pushSeq, contScopes_pushSeq]
    exact ⟨scopedCases_mem hs.1 hmem, scopedK_pushSeq hs.2 hk⟩

theorem pos_wellScoped {body : List Stmt} (h0 : WellScoped ⟨body, [], []⟩) {cur : List Stmt} {K : List Frame}
    (hp : Pos body cur K) (h : Hist) : WellScoped ⟨cur, K, h⟩ :=
  pos_scoped h0.1 hp

/-! ### positions and the label census -/
open Pory.C15d

theorem elifsLbls_mem : ∀ {elifs : List (BoolExpr × List Stmt)} {cb : BoolExpr × List Stmt},
    cb ∈ elifs → ∀ a ∈ blockLbls cb.2, a ∈ elifsLbls elifs
  | [], _, hm => by cases hm
  | (c, b) :: r, cb, hm => by
    intro a ha
    rw [elifsLbls_cons]
    rcases List.mem_cons.1 hm with e | hm'
    · subst e; exact List.mem_append_left _ ha
    · exact List.mem_append_right _ (elifsLbls_mem hm' a ha)

theorem casesLbls_mem : ∀ {cases : List SwitchCase} {cs : SwitchCase},
    cs ∈ cases → ∀ a ∈ blockLbls cs.2.2, a ∈ casesLbls cases
  | [], _, hm => by cases hm
  | (v, d, b) :: r, cs, hm => by
    intro a ha
    rw [casesLbls_cons]
    rcases List.mem_cons.1 hm with e | hm'
    · subst e; exact List.mem_append_left _ ha
    · exact List.mem_append_right _ (casesLbls_mem hm' a ha)

/-- The label statements below a position are label statements of the body. -/
theorem pos_lbls {body : List Stmt} {cur : List Stmt} {K : List Frame} (hp : Pos body cur K) :
    ∀ a ∈ blockLbls cur, a ∈ blockLbls body := by
  induction hp with
  | root => exact fun a ha => ha
  | tail _ _ ih =>
    intro a ha
    exact ih a (by rw [blockLbls_cons]; exact List.mem_append_right _ ha)
  | thenB _ ih =>
    intro a ha
    refine ih a ?_
    rw [blockLbls_cons, stmtLbls_ite]
    exact List.mem_append_left _ (List.mem_append_left _ (List.mem_append_left _ ha))
  | elifB _ hmem ih =>
    intro a ha
    refine ih a ?_
    rw [blockLbls_cons, stmtLbls_ite]
    exact List.mem_append_left _ (List.mem_append_left _ (List.mem_append_right _ (elifsLbls_mem hmem a ha)))
  | elseB _ ih =>
    intro a ha
    refine ih a ?_
    rw [blockLbls_cons, stmtLbls_ite]
    exact List.mem_append_left _ (List.mem_append_right _ ha)
  | whileB _ ih =>
    intro a ha
    refine ih a ?_
    rw [blockLbls_cons, stmtLbls_while]
    exact List.mem_append_left _ ha
  | doB _ ih =>
    intro a ha
    refine ih a ?_
    rw [blockLbls_cons, stmtLbls_doWhile]
    exact List.mem_append_left _ ha
  | caseB _ hmem _ ih =>
    intro a ha
    refine ih a ?_
    rw [blockLbls_cons, stmtLbls_switch]
    exact List.mem_append_left _ (casesLbls_mem hmem a ha)

/-- A label statement at the head of a position is a label statement of the body. -/
theorem pos_label_mem {body : List Stmt} {tok : Tok} {n : String} {g : Bool} {rest : List Stmt} {K : List Frame}
    (hp : Pos body (.label tok n g :: rest) K) : (n, g) ∈ blockLbls body :=
  pos_lbls hp (n, g) (by rw [blockLbls_cons, stmtLbls_label]; simp)

/-! ### the converse: every label statement of the body heads a position -/

/-- "the label statement `a = (name, flag)` is the head of some position of `body`" -/
def LabelPos (body : List Stmt) (a : String × Bool) : Prop :=
  ∃ tok rest K, Pos body (.label tok a.1 a.2 :: rest) K

mutual
theorem stmt_lbls_pos (body : List Stmt) : ∀ (x : Stmt) (rest : List Stmt) (K : List Frame),
    Pos body (x :: rest) K → ∀ a ∈ stmtLbls x, LabelPos body a
  | .cmd _, _, _, _, a, ha => by rw [stmtLbls_cmd] at ha; cases ha
  | .label tok n g, rest, K, hp, a, ha => by
    rw [stmtLbls_label] at ha
    have e : a = (n, g) := by simpa using ha
    subst e
    exact ⟨tok, rest, K, hp⟩
  | .ite tok c t es e, rest, K, hp, a, ha => by
    rw [stmtLbls_ite] at ha
    rcases List.mem_append.1 ha with h1 | h1
    · rcases List.mem_append.1 h1 with h2 | h2
      · exact block_lbls_pos body t (pushSeq rest K) hp.thenB a h2
      · exact elifs_lbls_pos body es (pushSeq rest K) (fun cb hcb => hp.elifB hcb) a h2
    · match e, hp, h1 with
      | some l, hp, h1 => exact block_lbls_pos body l (pushSeq rest K) hp.elseB a h1
      | none, _, h1 => cases h1
  | .while_ tok sid c b, rest, K, hp, a, ha => by
    rw [stmtLbls_while] at ha
    exact block_lbls_pos body b _ hp.whileB a ha
  | .doWhile tok sid c b, rest, K, hp, a, ha => by
    rw [stmtLbls_doWhile] at ha
    exact block_lbls_pos body b _ hp.doB a ha
  | .brk _ _, _, _, _, a, ha => by rw [stmtLbls_brk] at ha; cases ha
  | .cont _ _, _, _, _, a, ha => by rw [stmtLbls_cont] at ha; cases ha
  | .switch_ tok sid op cs, rest, K, hp, a, ha => by
    rw [stmtLbls_switch] at ha
    exact cases_lbls_pos body cs (.switchF sid :: pushSeq rest K) (fun c hc hne => hp.caseB hc hne) a ha
theorem block_lbls_pos (body : List Stmt) : ∀ (cur : List Stmt) (K : List Frame),
    Pos body cur K → ∀ a ∈ blockLbls cur, LabelPos body a
  | [], _, _, a, ha => by rw [blockLbls_nil] at ha; cases ha
  | x :: r, K, hp, a, ha => by
    rw [blockLbls_cons] at ha
    rcases List.mem_append.1 ha with h | h
    · exact stmt_lbls_pos body x r K hp a h
    · have hne : r ≠ [] := by
        intro e; subst e; rw [blockLbls_nil] at h; cases h
      exact block_lbls_pos body r K (hp.tail hne) a h
theorem elifs_lbls_pos (body : List Stmt) : ∀ (es : List (BoolExpr × List Stmt)) (K : List Frame),
    (∀ cb ∈ es, Pos body cb.2 K) → ∀ a ∈ elifsLbls es, LabelPos body a
  | [], _, _, a, ha => by rw [elifsLbls_nil] at ha; cases ha
  | (c, b) :: r, K, hall, a, ha => by
    rw [elifsLbls_cons] at ha
    rcases List.mem_append.1 ha with h | h
    · exact block_lbls_pos body b K (hall (c, b) (List.mem_cons_self ..)) a h
    · exact elifs_lbls_pos body r K (fun cb hcb => hall cb (List.mem_cons_of_mem _ hcb)) a h
theorem cases_lbls_pos (body : List Stmt) : ∀ (cs : List SwitchCase) (K : List Frame),
    (∀ c ∈ cs, c.2.2 ≠ [] → Pos body c.2.2 K) → ∀ a ∈ casesLbls cs, LabelPos body a
  | [], _, _, a, ha => by rw [casesLbls_nil] at ha; cases ha
  | (v, d, b) :: r, K, hall, a, ha => by
    rw [casesLbls_cons] at ha
    rcases List.mem_append.1 ha with h | h
    · have hne : b ≠ [] := by
        intro e; subst e; rw [blockLbls_nil] at h; cases h
      exact block_lbls_pos body b K (hall (v, d, b) (List.mem_cons_self ..) hne) a h
    · exact cases_lbls_pos body r K (fun c hc => hall c (List.mem_cons_of_mem _ hc)) a h
end

/-- **Every label statement of the body — any depth, dead code included — heads a position**, and conversely. -/
theorem labelPos_iff (body : List Stmt) (a : String × Bool) : LabelPos body a ↔ a ∈ blockLbls body :=
  ⟨fun ⟨_, _, _, hp⟩ => pos_label_mem hp, fun h => block_lbls_pos body body [] .root a h⟩

end Pory.Sem
