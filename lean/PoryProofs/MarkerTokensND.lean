import PoryModel.EmitRender
import PoryProofs.WorklistBuild
/-
Copy of `PoryProofs/MarkerTokens.lean` (helpers for C16b) with ONE change: the value token of a
`default` case of a switch statement is NOT counted among the tokens of a statement
(`casesToks`: `(v, d, b) :: r => (if d then [] else [v]) ++ …`).  The parser stores the zero token
`{}` (line 0) there, and the emitter never writes a marker for it (`switchBranchCases` and
`switchTrailing` only take the non-default cases).  With this change the token sets are exactly
what C16c (`PoryProofs/Properties/C16c.lean`) proves to stand at positions of input tokens.

Proofs changed w.r.t. the original: `CsOK.head`, `CsOK.value`, `switchBranchOf_toks` (the value of
a case is only used when the case is not the default one).
-/
namespace Pory.C16nd
open Pory Pory.Emit

/-- Operand tokens of the leaves of a condition. -/
def condToks : BoolExpr → List Tok
  | .leaf e => [e.operand]
  | .bin l _ r => condToks l ++ condToks r

mutual
/-- Tokens the emitter may write a marker for: command tokens, label tokens, leaf operand tokens,
switch operand and case value tokens (recursively). -/
def stmtToks : Stmt → List Tok
  | .cmd c => [c.tok]
  | .label tok _ _ => [tok]
  | .ite _ c b es e =>
    condToks c ++ stmtsToks b ++ elifsToks es ++ (match e with | some l => stmtsToks l | none => [])
  | .while_ _ _ c b => (match c with | some e => condToks e | none => []) ++ stmtsToks b
  | .doWhile _ _ c b => condToks c ++ stmtsToks b
  | .brk .. => []
  | .cont .. => []
  | .switch_ _ _ op cs => op :: casesToks cs
def stmtsToks : List Stmt → List Tok
  | [] => []
  | s :: r => stmtToks s ++ stmtsToks r
def elifsToks : List (BoolExpr × List Stmt) → List Tok
  | [] => []
  | (c, b) :: r => condToks c ++ stmtsToks b ++ elifsToks r
def casesToks : List SwitchCase → List Tok
  | [] => []
  | (v, d, b) :: r => (if d then [] else [v]) ++ (stmtsToks b ++ casesToks r)
end

theorem stmtsToks_append (a b : List Stmt) : stmtsToks (a ++ b) = stmtsToks a ++ stmtsToks b := by
  induction a with
  | nil => simp [stmtsToks]
  | cons s r ih => simp [stmtsToks, ih]

theorem mem_stmtsToks_take {t : Tok} {ss : List Stmt} (i : Nat) (h : t ∈ stmtsToks (ss.take i)) :
    t ∈ stmtsToks ss := by
  rw [← List.take_append_drop i ss, stmtsToks_append]
  exact List.mem_append_left _ h

theorem mem_stmtsToks_drop {t : Tok} {ss : List Stmt} (i : Nat) (h : t ∈ stmtsToks (ss.drop i)) :
    t ∈ stmtsToks ss := by
  rw [← List.take_append_drop i ss, stmtsToks_append]
  exact List.mem_append_right _ h

theorem mem_stmtsToks_get {t : Tok} : ∀ {ss : List Stmt} {i : Nat} {x : Stmt}, ss[i]? = some x →
    t ∈ stmtToks x → t ∈ stmtsToks ss
  | [], _, _, h, _ => by simp at h
  | a :: r, 0, x, h, ht => by
    simp at h; subst h
    simp [stmtsToks, ht]
  | a :: r, i + 1, x, h, ht => by
    simp at h
    simp [stmtsToks, mem_stmtsToks_get h ht]

/-! Membership in the tokens of a compound statement. (`simp [stmtToks]` on `.ite … e` with a
variable `e` produces a proof term the kernel rejects — the equations of `stmtToks` are split on
`e` — hence the `cases e` first.) -/
theorem mem_ite_cond {t tok : Tok} {c b es e} (ht : t ∈ condToks c) :
    t ∈ stmtToks (.ite tok c b es e) := by
  cases e <;> simp [stmtToks, ht]
theorem mem_ite_body {t tok : Tok} {c b es e} (ht : t ∈ stmtsToks b) :
    t ∈ stmtToks (.ite tok c b es e) := by
  cases e <;> simp [stmtToks, ht]
theorem mem_ite_elifs {t tok : Tok} {c b es e} (ht : t ∈ elifsToks es) :
    t ∈ stmtToks (.ite tok c b es e) := by
  cases e <;> simp [stmtToks, ht]
theorem mem_ite_else {t tok : Tok} {c b es l} (ht : t ∈ stmtsToks l) :
    t ∈ stmtToks (.ite tok c b es (some l)) := by
  simp [stmtToks, ht]
theorem mem_while_cond {t tok : Tok} {sid e b} (ht : t ∈ condToks e) :
    t ∈ stmtToks (.while_ tok sid (some e) b) := by
  simp [stmtToks, ht]
theorem mem_while_body {t tok : Tok} {sid c b} (ht : t ∈ stmtsToks b) :
    t ∈ stmtToks (.while_ tok sid c b) := by
  cases c <;> simp [stmtToks, ht]

/-! ### predicates -/
section
variable (Q : Nat → Prop)

/-- Every token of the statements lies on a line satisfying `Q`. -/
def SOK (ss : List Stmt) : Prop := ∀ t ∈ stmtsToks ss, Q t.line
def COK (c : BoolExpr) : Prop := ∀ t ∈ condToks c, Q t.line

/-- Tokens of a branch behaviour. -/
def branchToks : Branch → List Tok
  | .leaf _ e _ => [e.operand]
  | .switch_ op cases _ _ => op :: cases.map (·.value)
  | _ => []

def ChunkOK (c : Chunk) : Prop := SOK Q c.statements ∧ ∀ t ∈ branchToks c.branch, Q t.line
def ChunksOK (q : List Chunk) : Prop := ∀ c ∈ q, ChunkOK Q c

/-- A builder leaves `final` alone and keeps the queue invariant. -/
structure Step (s s' : WS) : Prop where
  final : s'.final = s.final
  queue : ChunksOK Q s.queue → ChunksOK Q s'.queue

variable {Q}

theorem Step.refl (s : WS) : Step Q s s := ⟨rfl, id⟩
theorem Step.trans {a b c : WS} (h1 : Step Q a b) (h2 : Step Q b c) : Step Q a c :=
  ⟨h2.final.trans h1.final, fun h => h2.queue (h1.queue h)⟩

theorem ChunksOK.snoc {q : List Chunk} {c : Chunk} (h : ChunksOK Q q) (hc : ChunkOK Q c) :
    ChunksOK Q (q ++ [c]) := by
  intro x hx
  rcases List.mem_append.mp hx with hx | hx
  · exact h x hx
  · simp at hx; subst hx; exact hc

theorem ChunksOK.append {q r : List Chunk} (h : ChunksOK Q q) (hr : ChunksOK Q r) :
    ChunksOK Q (q ++ r) := by
  intro x hx
  rcases List.mem_append.mp hx with hx | hx
  · exact h x hx
  · exact hr x hx

theorem chunkOK_code {id : Nat} {ret : Option Nat} {ss : List Stmt} (h : SOK Q ss) :
    ChunkOK Q { id := id, returnID := ret, statements := ss } := ⟨h, by simp [branchToks]⟩

theorem chunkOK_jump {id : Nat} {ret : Option Nat} {d : Nat} :
    ChunkOK Q { id := id, returnID := ret, branch := .jump d } :=
  ⟨by simp [SOK, stmtsToks], by simp [branchToks]⟩

theorem SOK.drop {ss : List Stmt} (h : SOK Q ss) (i : Nat) : SOK Q (ss.drop i) :=
  fun t ht => h t (mem_stmtsToks_drop i ht)
theorem SOK.take {ss : List Stmt} (h : SOK Q ss) (i : Nat) : SOK Q (ss.take i) :=
  fun t ht => h t (mem_stmtsToks_take i ht)
theorem SOK.nil : SOK Q [] := by simp [SOK, stmtsToks]

/-! ### the builders -/

theorem step_push (s : WS) (k : Nat) (c : Chunk) (hc : ChunkOK Q c) :
    Step Q s { s with counter := k, queue := s.queue ++ [c] } := ⟨rfl, fun h => h.snoc hc⟩

theorem step_push' (s : WS) (c : Chunk) (hc : ChunkOK Q c) :
    Step Q s { s with queue := s.queue ++ [c] } := ⟨rfl, fun h => h.snoc hc⟩

theorem step_counter (s : WS) (k : Nat) : Step Q s { s with counter := k } := ⟨rfl, id⟩

theorem splitChunk_step (c : Chunk) (i : Nat) (s : WS) (hc : SOK Q c.statements) :
    Step Q s (splitChunkForBranch c i s).1 := by
  unfold splitChunkForBranch
  split
  · exact Step.refl s
  · exact step_push s _ _ (chunkOK_code (hc.drop _))

theorem keep_step (c : Chunk) (i : Nat) (s : WS) (hc : SOK Q c.statements) :
    Step Q s (keepStatementsAfterJump c i s) := by
  unfold keepStatementsAfterJump
  split
  · exact Step.refl s
  · exact step_push s _ _ (chunkOK_code (hc.drop _))

theorem splitBool_step (e : BoolExpr) : ∀ (succ : Nat) (fail : Option Nat) (s s' : WS) (id : Nat),
    COK Q e → splitBool e succ fail s = .ok (s', id) → Step Q s s' := by
  induction e with
  | leaf e =>
    intro succ fail s s' id he h
    simp only [splitBool, Except.ok.injEq, Prod.mk.injEq] at h
    rw [← h.1]
    exact step_push s _ _ ⟨SOK.nil, by simpa [branchToks, COK, condToks] using he⟩
  | bin l op r ihl ihr =>
    intro succ fail s s' id he h
    have hl : COK Q l := fun t ht => he t (by simp [condToks, ht])
    have hr : COK Q r := fun t ht => he t (by simp [condToks, ht])
    rw [splitBool] at h
    split at h
    · simp only at h
      split at h
      · simp at h
      · next s1 le h1 =>
        split at h
        · simp at h
        · next s2 re h2 =>
          simp only [Except.ok.injEq, Prod.mk.injEq] at h
          rw [← h.1]
          exact ((step_counter s _).trans ((ihl _ _ _ _ _ hl h1).trans (ihr _ _ _ _ _ hr h2))).trans
            (step_push' _ _ chunkOK_jump)
    · split at h
      · simp only at h
        split at h
        · simp at h
        · next s1 le h1 =>
          split at h
          · simp at h
          · next s2 re h2 =>
            simp only [Except.ok.injEq, Prod.mk.injEq] at h
            rw [← h.1]
            exact ((step_counter s _).trans ((ihl _ _ _ _ _ hl h1).trans (ihr _ _ _ _ _ hr h2))).trans
              (step_push' _ _ chunkOK_jump)
      · simp at h


def EOK (Q : Nat → Prop) (es : List (BoolExpr × List Stmt)) : Prop := ∀ t ∈ elifsToks es, Q t.line
def CsOK (Q : Nat → Prop) (cs : List SwitchCase) : Prop := ∀ t ∈ casesToks cs, Q t.line

theorem EOK.head {e : BoolExpr × List Stmt} {r : List (BoolExpr × List Stmt)} (h : EOK Q (e :: r)) :
    COK Q e.1 ∧ SOK Q e.2 ∧ EOK Q r := by
  obtain ⟨c, b⟩ := e
  refine ⟨fun t ht => h t ?_, fun t ht => h t ?_, fun t ht => h t ?_⟩ <;> simp [elifsToks, ht]

theorem CsOK.head {c : SwitchCase} {r : List SwitchCase} (h : CsOK Q (c :: r)) :
    (c.2.1 = false → Q c.1.line) ∧ SOK Q c.2.2 ∧ CsOK Q r := by
  obtain ⟨v, d, b⟩ := c
  refine ⟨fun hd => h v ?_, fun t ht => h t ?_, fun t ht => h t ?_⟩
  · simp only at hd; subst hd; simp [casesToks]
  · simp [casesToks, ht]
  · simp [casesToks, ht]

theorem CsOK.value {cs : List SwitchCase} (h : CsOK Q cs) : ∀ c ∈ cs, c.2.1 = false → Q c.1.line := by
  induction cs with
  | nil => simp
  | cons c r ih =>
    intro x hx
    rcases List.mem_cons.mp hx with rfl | hx
    · exact h.head.1
    · exact ih h.head.2.2 x hx

theorem splitElifs_step : ∀ (elifs : List (BoolExpr × List Stmt)) (ids : List Nat)
    (lastFail : Option Nat) (s s' : WS) (r : Option Nat), EOK Q elifs →
    splitElifs elifs ids lastFail s = .ok (s', r) → Step Q s s' := by
  intro elifs
  induction elifs with
  | nil =>
    intro ids lastFail s s' r _ h
    simp [splitElifs] at h
    rw [← h.1]; exact Step.refl s
  | cons e rest ih =>
    intro ids lastFail s s' r he h
    obtain ⟨c, b⟩ := e
    cases ids with
    | nil =>
      simp [splitElifs] at h
      rw [← h.1]; exact Step.refl s
    | cons id restI =>
      rw [splitElifs] at h
      split at h
      · simp at h
      · next s1 ne h1 =>
        split at h
        · simp at h
        · next s2 en h2 =>
          simp only [Except.ok.injEq, Prod.mk.injEq] at h
          rw [← h.1]
          exact (ih _ _ _ _ _ he.head.2.2 h1).trans (splitBool_step c _ _ _ _ _ he.head.1 h2)

theorem pushNew_step (s : WS) (ret : Option Nat) (st : List Stmt) (h : SOK Q st) :
    Step Q s (pushNew s ret st) := step_push s _ _ (chunkOK_code h)

theorem armChunks_ok (ret : Option Nat) : ∀ (arms : List (BoolExpr × List Stmt)) (n : Nat),
    EOK Q arms → ChunksOK Q (armChunks ret n arms) := by
  intro arms
  induction arms with
  | nil => intro n _ c hc; simp [armChunks] at hc
  | cons e r ih =>
    intro n he c hc
    simp only [armChunks, List.mem_cons] at hc
    rcases hc with rfl | hc
    · exact chunkOK_code he.head.2.1
    · exact ih _ he.head.2.2 c hc

theorem foldl_armStep_step (ret : Option Nat) (arms : List (BoolExpr × List Stmt)) (s : WS)
    (acc : List Nat) (he : EOK Q arms) : Step Q s (arms.foldl (armStep ret) (s, acc)).1 := by
  rw [foldl_armStep]
  exact ⟨rfl, fun h => h.append (armChunks_ok ret arms _ he)⟩

theorem elseStep_step (post : Option Nat) (a : WS) (els : Option (List Stmt))
    (h : ∀ l, els = some l → SOK Q l) : Step Q a (elseStep post a els).1 := by
  cases els with
  | none => exact Step.refl a
  | some l => exact pushNew_step a post l (h l rfl)

theorem createIf_step (cond : BoolExpr) (body : List Stmt) (elifs : List (BoolExpr × List Stmt))
    (els : Option (List Stmt)) (c : Chunk) (i : Nat) (s s' : WS) (br : Branch) (ret : Option Nat)
    (hc : SOK Q c.statements) (hcond : COK Q cond) (hbody : SOK Q body) (hel : EOK Q elifs)
    (hels : ∀ l, els = some l → SOK Q l)
    (h : createIf cond body elifs els c i s = .ok (s', br, ret)) :
    Step Q s s' ∧ branchToks br = [] := by
  rw [createIf_eq] at h
  unfold ifTail at h
  split at h
  · simp at h
  · next s1 ac h1 =>
    split at h
    · simp at h
    · next s2 en h2 =>
      simp only [Except.ok.injEq, Prod.mk.injEq] at h
      refine ⟨?_, by rw [← h.2.1]; rfl⟩
      rw [← h.1]
      exact ((((splitChunk_step c i s hc).trans (pushNew_step _ _ body hbody)).trans
        (foldl_armStep_step _ elifs _ [] hel)).trans (elseStep_step _ _ els hels)).trans
        ((splitElifs_step _ _ _ _ _ _ hel h1).trans (splitBool_step cond _ _ _ _ _ hcond h2))

theorem createWhile_step (cond : Option BoolExpr) (body : List Stmt) (c : Chunk) (i : Nat)
    (s s' : WS) (br : Branch) (ret : Option Nat) (cid : Nat)
    (hc : SOK Q c.statements) (hcond : ∀ e, cond = some e → COK Q e) (hbody : SOK Q body)
    (h : createWhile cond body c i s = .ok (s', br, ret, cid)) :
    Step Q s s' ∧ branchToks br = [] := by
  unfold createWhile at h
  simp only [alloc] at h
  have h0 := splitChunk_step c i s hc
  generalize splitChunkForBranch c i s = sp at h h0
  obtain ⟨s0, ret0⟩ := sp
  simp only at h h0
  cases cond with
  | none =>
    simp only [Except.ok.injEq, Prod.mk.injEq] at h
    refine ⟨?_, by rw [← h.2.1]; rfl⟩
    rw [← h.1]
    refine h0.trans ⟨rfl, fun hq => ?_⟩
    exact hq.append (by
      intro x hx
      simp at hx
      rcases hx with rfl | rfl
      · exact chunkOK_code hbody
      · exact chunkOK_jump)
  | some e =>
    simp only at h
    split at h
    · simp at h
    · next s1 en h1 =>
      simp only [Except.ok.injEq, Prod.mk.injEq] at h
      refine ⟨?_, by rw [← h.2.1]; rfl⟩
      rw [← h.1]
      refine (h0.trans ((step_counter _ _).trans (splitBool_step e _ _ _ _ _ (hcond e rfl) h1))).trans
        ⟨rfl, fun hq => ?_⟩
      exact hq.append (by
        intro x hx
        simp at hx
        rcases hx with rfl | rfl
        · exact chunkOK_code hbody
        · exact chunkOK_jump)

theorem createDoWhile_step (cond : BoolExpr) (body : List Stmt) (c : Chunk) (i : Nat)
    (s s' : WS) (br : Branch) (ret : Option Nat) (cid : Nat)
    (hc : SOK Q c.statements) (hcond : COK Q cond) (hbody : SOK Q body)
    (h : createDoWhile cond body c i s = .ok (s', br, ret, cid)) :
    Step Q s s' ∧ branchToks br = [] := by
  unfold createDoWhile at h
  simp only [alloc] at h
  have h0 := splitChunk_step c i s hc
  generalize splitChunkForBranch c i s = sp at h h0
  obtain ⟨s0, ret0⟩ := sp
  simp only at h h0
  split at h
  · simp at h
  · next s1 en h1 =>
    simp only [Except.ok.injEq, Prod.mk.injEq] at h
    refine ⟨?_, by rw [← h.2.1]; rfl⟩
    rw [← h.1]
    refine (h0.trans ((step_counter _ _).trans (splitBool_step cond _ _ _ _ _ hcond h1))).trans
      ⟨rfl, fun hq => ?_⟩
    exact hq.append (by
      intro x hx
      simp at hx
      rcases hx with rfl | rfl
      · exact chunkOK_code hbody
      · exact chunkOK_jump)

theorem switchBodies_step (ret : Option Nat) : ∀ (cases : List SwitchCase) (s : WS), CsOK Q cases →
    Step Q s (switchBodies ret cases s).1 := by
  intro cases
  induction cases with
  | nil => intro s _; exact Step.refl s
  | cons c r ih =>
    intro s hcs
    obtain ⟨v, d, body⟩ := c
    rw [switchBodies]
    split
    · simp only [alloc]
      exact (step_push s _ _ (chunkOK_code hcs.head.2.1)).trans (ih _ hcs.head.2.2)
    · exact ih _ hcs.head.2.2

theorem switchBranchOf_toks (operand : Tok) (cases : List SwitchCase) (ids : List (Option Nat))
    (eid : Nat) (ret : Option Nat) (hop : Q operand.line) (hcs : CsOK Q cases) :
    ∀ t ∈ branchToks (switchBranchOf operand cases ids eid ret), Q t.line := by
  have hv := hcs.value
  have h1 : ∀ b ∈ switchBranchCases cases ids, Q b.value.line := by
    intro b hb
    simp only [switchBranchCases, List.mem_filterMap] at hb
    obtain ⟨cb, hcb, hb⟩ := hb
    split at hb
    · simp at hb
    · rename_i hnd
      cases hd : cb.2 with
      | none => simp [hd] at hb
      | some d =>
        simp [hd] at hb; subst hb
        exact hv _ (List.of_mem_zip hcb).1 (by simpa using hnd)
  have h2 : ∀ sc ∈ switchTrailing cases ids, Q sc.1.line := by
    intro sc hsc
    simp only [switchTrailing, List.mem_map, List.mem_filter] at hsc
    obtain ⟨cb, ⟨hcb, hflt⟩, rfl⟩ := hsc
    simp only [Bool.and_eq_true, Bool.not_eq_eq_eq_not, Bool.not_true] at hflt
    exact hv _ (List.of_mem_zip hcb).1 hflt.1
  intro t ht
  simp only [switchBranchOf, branchToks, List.mem_cons, List.mem_map] at ht
  rcases ht with rfl | ⟨b, hb, rfl⟩
  · exact hop
  · split at hb
    · rcases List.mem_append.mp hb with hb | hb
      · exact h1 b hb
      · simp only [List.mem_map] at hb
        obtain ⟨sc, hsc, rfl⟩ := hb
        exact h2 sc hsc
    · exact h1 b hb

theorem chunksOK_modify {q : List Chunk} (h : ChunksOK Q q) (n : Nat) (br : Branch)
    (hbr : ∀ t ∈ branchToks br, Q t.line) :
    ChunksOK Q (q.modify n fun ch => { ch with branch := br }) := by
  induction q generalizing n with
  | nil => simpa using h
  | cons a r ih =>
    cases n with
    | zero =>
      intro x hx
      simp only [List.modify_zero_cons, List.mem_cons] at hx
      rcases hx with rfl | hx
      · exact ⟨(h a (by simp)).1, hbr⟩
      · exact h x (by simp [hx])
    | succ n =>
      intro x hx
      simp only [List.modify_succ_cons, List.mem_cons] at hx
      rcases hx with rfl | hx
      · exact h x (by simp)
      · exact ih (fun y hy => h y (by simp [hy])) n x hx

theorem createSwitch_step (operand : Tok) (cases : List SwitchCase) (c : Chunk) (i : Nat) (s : WS)
    (hc : SOK Q c.statements) (hop : Q operand.line) (hcs : CsOK Q cases) :
    Step Q s (createSwitch operand cases c i s).1 ∧
      branchToks (createSwitch operand cases c i s).2.1 = [] := by
  rw [createSwitch_eq]
  have h0 := splitChunk_step c i s hc
  generalize splitChunkForBranch c i s = sp at h0 ⊢
  obtain ⟨s0, ret0⟩ := sp
  simp only at h0 ⊢
  have h1 : Step Q s0 (pushEmpty s0 ret0) := step_push s0 _ _ (chunkOK_code SOK.nil)
  have h2 := switchBodies_step ret0 cases (pushEmpty s0 ret0) hcs
  generalize switchBodies ret0 cases (pushEmpty s0 ret0) = sb at h2 ⊢
  unfold switchTail
  split
  · exact ⟨(h0.trans h1).trans h2, rfl⟩
  · refine ⟨((h0.trans h1).trans h2).trans ?_, rfl⟩
    simp only
    have h3 : Step Q sb.1 (emptyStep ret0 (switchNeedsEmpty cases (propagateBack sb.2)) sb.1).1 := by
      unfold emptyStep
      split
      · exact step_push _ _ _ (chunkOK_code SOK.nil)
      · exact Step.refl _
    refine h3.trans ⟨rfl, fun hq => ?_⟩
    exact chunksOK_modify hq _ _ (switchBranchOf_toks operand cases _ _ _ hop hcs)

/-! ### the worklist -/

/-- Invariant of the worklist state. -/
def WSOK (Q : Nat → Prop) (s : WS) : Prop := ChunksOK Q s.final ∧ ChunksOK Q s.queue

theorem WSOK.step {s s' : WS} (h : WSOK Q s) (hs : Step Q s s') : WSOK Q s' :=
  ⟨by rw [hs.final]; exact h.1, hs.queue h.2⟩

theorem WSOK.setFinal {s : WS} (h : WSOK Q s) (c : Chunk) (hc : ChunkOK Q c) : WSOK Q (s.setFinal c) := by
  refine ⟨?_, h.2⟩
  intro x hx
  simp only [WS.setFinal, List.mem_cons, List.mem_filter] at hx
  rcases hx with rfl | hx
  · exact hc
  · exact h.1 x hx.1

theorem processChunk_ok (cur : Chunk) (s s' : WS) (hcur : ChunkOK Q cur) (hs : WSOK Q s)
    (h : processChunk cur s = .ok s') : WSOK Q s' := by
  unfold processChunk at h
  rcases hsc : scanSimple cur.statements 0 cur.statements.length with ⟨i, fin⟩
  rw [hsc] at h
  have hpre : SOK Q (cur.statements.take i) := hcur.1.take i
  cases fin with
  | some isEnd =>
    simp only [Except.ok.injEq] at h
    rw [← h]
    exact hs.setFinal _ ⟨hpre, by simp [branchToks]⟩
  | none =>
    simp only at h
    by_cases hlen : (i == cur.statements.length) = true
    · simp only [hlen, if_true, Except.ok.injEq] at h
      rw [← h]; exact hs.setFinal _ hcur
    · simp only [hlen, Bool.false_eq_true, if_false] at h
      cases hget : cur.statements[i]? with
      | none =>
        simp only [hget, Except.ok.injEq] at h
        rw [← h]
        exact hs.setFinal _ ⟨hpre, by simp [branchToks]⟩
      | some x =>
        have hx : ∀ t ∈ stmtToks x, Q t.line := fun t ht => hcur.1 t (mem_stmtsToks_get hget ht)
        cases x with
        | cmd c =>
          simp only [hget, Except.ok.injEq] at h
          rw [← h]
          exact hs.setFinal _ ⟨hpre, by simp [branchToks]⟩
        | label tok name g =>
          simp only [hget, Except.ok.injEq] at h
          rw [← h]
          exact hs.setFinal _ ⟨hpre, by simp [branchToks]⟩
        | ite tok cond body elifs els =>
          simp only [hget] at h
          cases h1 : createIf cond body elifs els cur i s with
          | error e => simp [h1] at h
          | ok r =>
            obtain ⟨s1, br, ret⟩ := r
            simp only [h1, Except.ok.injEq] at h
            rw [← h]
            obtain ⟨hst, hbr⟩ := createIf_step cond body elifs els cur i s s1 br ret hcur.1
              (fun t ht => hx t (mem_ite_cond ht))
              (fun t ht => hx t (mem_ite_body ht))
              (fun t ht => hx t (mem_ite_elifs ht))
              (fun l hl t ht => hx t (by rw [hl]; exact mem_ite_else ht)) h1
            exact (hs.step hst).setFinal _ ⟨hpre, by simp [hbr]⟩
        | while_ tok sid cond body =>
          simp only [hget] at h
          cases h1 : createWhile cond body cur i s with
          | error e => simp [h1] at h
          | ok r =>
            obtain ⟨s1, br, ret, cid⟩ := r
            simp only [h1, Except.ok.injEq] at h
            rw [← h]
            obtain ⟨hst, hbr⟩ := createWhile_step cond body cur i s s1 br ret cid hcur.1
              (fun e he t ht => hx t (by rw [he]; exact mem_while_cond ht))
              (fun t ht => hx t (mem_while_body ht)) h1
            have := (hs.step hst).setFinal
              { id := cur.id, returnID := ret, statements := cur.statements.take i, branch := br }
              ⟨hpre, by simp [hbr]⟩
            exact ⟨this.1, this.2⟩
        | doWhile tok sid cond body =>
          simp only [hget] at h
          cases h1 : createDoWhile cond body cur i s with
          | error e => simp [h1] at h
          | ok r =>
            obtain ⟨s1, br, ret, cid⟩ := r
            simp only [h1, Except.ok.injEq] at h
            rw [← h]
            obtain ⟨hst, hbr⟩ := createDoWhile_step cond body cur i s s1 br ret cid hcur.1
              (fun t ht => hx t (by simp [stmtToks, ht]))
              (fun t ht => hx t (by simp [stmtToks, ht])) h1
            have := (hs.step hst).setFinal
              { id := cur.id, returnID := ret, statements := cur.statements.take i, branch := br }
              ⟨hpre, by simp [hbr]⟩
            exact ⟨this.1, this.2⟩
        | brk tok sid =>
          simp only [hget] at h
          cases hl : s.brk.lookup sid with
          | none => simp [hl] at h
          | some dest =>
            simp only [hl, Except.ok.injEq] at h
            rw [← h]
            exact (hs.step (keep_step cur i s hcur.1)).setFinal _ ⟨hpre, by simp [branchToks]⟩
        | cont tok sid =>
          simp only [hget] at h
          cases hl : s.cont.lookup sid with
          | none => simp [hl] at h
          | some dest =>
            simp only [hl, Except.ok.injEq] at h
            rw [← h]
            exact (hs.step (keep_step cur i s hcur.1)).setFinal _ ⟨hpre, by simp [branchToks]⟩
        | switch_ tok sid operand cases =>
          simp only [hget] at h
          obtain ⟨hst, hbr⟩ := createSwitch_step operand cases cur i s hcur.1
            (hx operand (by simp [stmtToks])) (fun t ht => hx t (by simp [stmtToks, ht]))
          rcases hcs : createSwitch operand cases cur i s with ⟨s1, br, ret, swId⟩
          rw [hcs] at h hst hbr
          simp only [Except.ok.injEq] at h
          rw [← h]
          have := (hs.step hst).setFinal
            { id := cur.id, returnID := ret, statements := cur.statements.take i, branch := br }
            ⟨hpre, by simp at hbr; simp [hbr]⟩
          exact ⟨this.1, this.2⟩

theorem runWorklist_ok : ∀ (n : Nat) (s s' : WS), WSOK Q s → runWorklist n s = .ok s' → WSOK Q s' := by
  intro n
  induction n with
  | zero => intro s s' _ h; simp [runWorklist] at h
  | succ n ih =>
    intro s s' hs h
    rw [runWorklist] at h
    split at h
    · simp only [Except.ok.injEq] at h; rw [← h]; exact hs
    · next cur rest hq =>
      split at h
      · simp at h
      · next s1 h1 =>
        have hcur : ChunkOK Q cur := hs.2 cur (by rw [hq]; simp)
        have hs0 : WSOK Q { s with queue := rest } :=
          ⟨hs.1, fun c hc => hs.2 c (by rw [hq]; simp [hc])⟩
        exact ih _ _ (processChunk_ok cur _ s1 hcur hs0 h1) h

/-- **Token provenance of chunks.** Every token of every chunk of a script — statements and
branch behaviour — is a token of the script body. -/
theorem scriptChunks_ok (body : List Stmt) (chunks : List Chunk) (hb : SOK Q body)
    (h : scriptChunks body = .ok chunks) : ChunksOK Q chunks := by
  unfold scriptChunks at h
  split at h
  · simp at h
  · next s hr =>
    simp only [Except.ok.injEq] at h
    rw [← h]
    refine (runWorklist_ok _ _ s ⟨by intro c hc; simp at hc, ?_⟩ hr).1
    intro c hc
    simp at hc; subst hc
    exact chunkOK_code hb

end

/-! ## part 2: the marker lines of rendered output -/

/-- The (line, path) of a marker line. -/
def markOf : Line → List (Nat × String)
  | .marker n p => [(n, p)]
  | _ => []

def markers (ls : List Line) : List (Nat × String) := ls.flatMap markOf

theorem mem_markers {n : Nat} {p : String} {ls : List Line} :
    (n, p) ∈ markers ls ↔ Line.marker n p ∈ ls := by
  simp only [markers, List.mem_flatMap]
  constructor
  · rintro ⟨l, hl, hm⟩
    cases l <;> simp [markOf] at hm
    obtain ⟨rfl, rfl⟩ := hm
    exact hl
  · intro h
    exact ⟨_, h, by simp [markOf]⟩

/-- Every marker line of `ls` carries the input path and a line number satisfying `Q`. -/
def MarkOK (o : Opts) (Q : Nat → Prop) (ls : List Line) : Prop :=
  ∀ x ∈ markers ls, x.2 = o.inputPath ∧ Q x.1

section
variable {o : Opts} {Q : Nat → Prop}

@[simp] theorem markOK_nil : MarkOK o Q [] := by simp [MarkOK, markers]

@[simp] theorem markOK_append (a b : List Line) :
    MarkOK o Q (a ++ b) ↔ MarkOK o Q a ∧ MarkOK o Q b := by
  simp only [MarkOK, markers, List.flatMap_append, List.mem_append]
  constructor
  · intro h; exact ⟨fun x hx => h x (Or.inl hx), fun x hx => h x (Or.inr hx)⟩
  · rintro ⟨h1, h2⟩ x (hx | hx)
    · exact h1 x hx
    · exact h2 x hx

theorem markOK_cons (l : Line) (r : List Line) :
    MarkOK o Q (l :: r) ↔ (∀ x ∈ markOf l, x.2 = o.inputPath ∧ Q x.1) ∧ MarkOK o Q r := by
  have : l :: r = [l] ++ r := rfl
  rw [this, markOK_append]
  simp [MarkOK, markers]

theorem markOK_marker (t : Tok) : MarkOK o Q (marker o t) ↔ (o.markers = true → Q t.line) := by
  unfold marker
  split
  · next h => simp [markOK_cons, markOf, h]
  · next h => simp [h]

theorem markOK_marker_of {t : Tok} (h : Q t.line) : MarkOK o Q (marker o t) :=
  (markOK_marker t).mpr fun _ => h

theorem markOK_flatMap {α} (xs : List α) (f : α → List Line) (h : ∀ x ∈ xs, MarkOK o Q (f x)) :
    MarkOK o Q (xs.flatMap f) := by
  induction xs with
  | nil => simp
  | cons x r ih =>
    rw [List.flatMap_cons, markOK_append]
    exact ⟨h x (by simp), ih fun y hy => h y (by simp [hy])⟩

theorem markOK_of_no_markers (ls : List Line) (h : ∀ l ∈ ls, markOf l = []) : MarkOK o Q ls := by
  intro x hx
  simp only [markers, List.mem_flatMap] at hx
  obtain ⟨l, hl, hm⟩ := hx
  rw [h l hl] at hm
  cases hm

/-! ### bottom-up over the emit functions -/

theorem renderBranchComparison_mark (n : String) (t : Nat) (e : OpExpr) (h : Q e.operand.line) :
    MarkOK o Q (renderBranchComparison o n t e) := by
  unfold renderBranchComparison
  simp only [markOK_append, markOK_marker_of h, true_and]
  split
  · simp only [markOK_cons, markOK_nil, and_true]
    split <;> simp [markOf]
  · simp only [markOK_append]
    refine ⟨by simp [markOK_cons, markOf], ?_⟩
    split <;> simp [markOK_cons, markOf]
  · simp [markOK_cons, markOf]
  · simp

theorem renderStatements_mark (ps : List ((Nat × Nat) × String)) (cl tl : List String) :
    ∀ (ss : List Stmt) (ls : List Line), SOK Q ss → renderStatements o ps cl tl ss = .ok ls →
      MarkOK o Q ls := by
  intro ss
  induction ss with
  | nil => intro ls _ h; simp [renderStatements] at h; subst h; simp
  | cons s r ih =>
    intro ls hs h
    have hr : SOK Q r := fun t ht => hs t (by simp [stmtsToks, ht])
    cases s with
    | cmd c =>
      rw [renderStatements] at h
      split at h
      · simp at h
      · next ls' h' =>
        simp only [Except.ok.injEq] at h; subst h
        have hc : Q c.tok.line := hs c.tok (by simp [stmtsToks, stmtToks])
        simp [markOK_marker_of hc, markOK_cons, markOf, renderCommand, ih ls' hr h']
    | label tok name g =>
      rw [renderStatements] at h
      split at h
      · simp at h
      · split at h
        · simp at h
        · split at h
          · simp at h
          · next ls' h' =>
            simp only [Except.ok.injEq] at h; subst h
            have hc : Q tok.line := hs tok (by simp [stmtsToks, stmtToks])
            simp [markOK_marker_of hc, markOK_cons, markOf, ih ls' hr h']
    | ite _ _ _ _ _ => simp [renderStatements] at h
    | while_ _ _ _ _ => simp [renderStatements] at h
    | doWhile _ _ _ _ => simp [renderStatements] at h
    | brk _ _ => simp [renderStatements] at h
    | cont _ _ => simp [renderStatements] at h
    | switch_ _ _ _ _ => simp [renderStatements] at h

theorem caseLines_mark (n : String) (cases : List SwitchCaseBranch) (h : ∀ b ∈ cases, Q b.value.line) :
    MarkOK o Q (cases.flatMap fun sc =>
      marker o sc.value ++ [Line.case_ sc.value.lit (jumpLabel n sc.dest)]) :=
  markOK_flatMap _ _ fun b hb => by simp [markOK_marker_of (h b hb), markOK_cons, markOf]

theorem renderBranching_mark (ps : List ((Nat × Nat) × String)) (n : String) (c : Chunk)
    (next : Option Nat) (hc : ChunkOK Q c) : MarkOK o Q (renderBranching o ps n c next).1 := by
  unfold renderBranching
  have hb := hc.2
  cases hbr : c.branch with
  | none =>
    simp only
    split
    · simp [markOK_cons, markOf]
    · split <;> simp [markOK_cons, markOf]
  | jump d => simp only; split <;> simp [markOK_cons, markOf]
  | breakCtx d =>
    simp only
    split
    · simp [markOK_cons, markOf]
    · split <;> simp [markOK_cons, markOf]
  | leaf t e f =>
    simp only
    rw [hbr] at hb
    have hcmp := renderBranchComparison_mark (o := o) n t e (hb e.operand (by simp [branchToks]))
    cases e.preamble <;> simp only
    · split
      · simp [markOK_cons, markOf, hcmp]
      · split <;> simp [markOK_cons, markOf, hcmp]
    · split
      · simp [markOK_cons, markOf, hcmp, renderCommand]
      · split <;> simp [markOK_cons, markOf, hcmp, renderCommand]
  | switch_ operand cases dflt dest =>
    simp only
    rw [hbr] at hb
    have hop : Q operand.line := hb operand (by simp [branchToks])
    have hcl := caseLines_mark (o := o) n cases (fun b hb' => hb b.value (by
      simp only [branchToks, List.mem_cons, List.mem_map]; exact Or.inr ⟨b, hb', rfl⟩))
    split
    · split <;> simp [markOK_cons, markOf, hcl, markOK_marker_of hop]
    · split
      · split <;> simp [markOK_cons, markOf, hcl, markOK_marker_of hop]
      · simp [markOK_cons, markOf, hcl, markOK_marker_of hop]

theorem renderBodies_mark (ps : List ((Nat × Nat) × String)) (n : String) (chunks : List Chunk)
    (cl tl : List String) (hch : ChunksOK Q chunks) :
    ∀ (order : List Nat) (bodies : List (Nat × List Line)) (regs : List Nat),
      renderBodies o ps n chunks cl tl order = .ok (bodies, regs) → ∀ b ∈ bodies, MarkOK o Q b.2 := by
  intro order
  induction order with
  | nil => intro bodies regs h; simp [renderBodies] at h; simp [h.1]
  | cons id rest ih =>
    intro bodies regs h
    rw [renderBodies] at h
    split at h
    · simp at h
    · next c hf =>
      have hc : ChunkOK Q c := hch c (by unfold findChunk at hf; exact List.mem_of_find?_eq_some hf)
      split at h
      · simp at h
      · next sl hsl =>
        have hbm := renderBranching_mark (o := o) ps n c rest.head? hc
        generalize renderBranching o ps n c rest.head? = rb at h hbm
        obtain ⟨bl, reg, fall⟩ := rb
        simp only at h hbm
        split at h
        · simp at h
        · next bodies' regs' hrec =>
          simp only [Except.ok.injEq, Prod.mk.injEq] at h
          rw [← h.1]
          intro b hb
          rcases List.mem_cons.mp hb with rfl | hb
          · simp only [markOK_append]
            refine ⟨⟨renderStatements_mark ps cl tl _ _ hc.1 hsl, hbm⟩, ?_⟩
            cases fall <;> simp [markOK_cons, markOf]
          · exact ih _ _ hrec b hb

theorem renderChunks_mark (ps : List ((Nat × Nat) × String)) (chunks : List Chunk) (n : String)
    (g : Bool) (tl : List String) (hch : ChunksOK Q chunks) (ls : List Line)
    (h : renderChunks o ps chunks n g tl = .ok ls) : MarkOK o Q ls := by
  unfold renderChunks at h
  simp only at h
  split at h
  · simp at h
  · next order _ =>
    split at h
    · simp at h
    · next bodies jumps hb =>
      simp only [Except.ok.injEq] at h
      rw [← h]
      refine markOK_flatMap _ _ fun b hbm => ?_
      have := renderBodies_mark (o := o) ps n chunks _ tl hch order bodies jumps hb b hbm
      obtain ⟨id, bl⟩ := b
      simp only [markOK_append]
      refine ⟨?_, this⟩
      split <;> simp [markOK_cons, markOf]

theorem emitScript_mark (ps : List ((Nat × Nat) × String)) (tl : List String) (s : Script)
    (hs : SOK Q s.body) (ls : List Line) (h : emitScript o ps tl s = .ok ls) : MarkOK o Q ls := by
  unfold emitScript at h
  split at h
  · simp at h
  · next chunks hc => exact renderChunks_mark ps chunks _ _ tl (scriptChunks_ok s.body chunks hs hc) ls h

theorem emitText_mark (t : Text) (h : Q t.tok.line) : MarkOK o Q (emitText o t) := by
  unfold emitText
  simp only [markOK_append, markOK_marker_of h, and_true]
  refine ⟨by simp [markOK_cons, markOf], markOK_of_no_markers _ ?_⟩
  intro l hl
  simp only [List.mem_map] at hl
  obtain ⟨x, _, rfl⟩ := hl
  rfl

theorem emitRaw_mark (vt : Tok) (v : String)
    (h : ∀ i, i < (splitLines v.toList).length → Q (vt.line + i)) : MarkOK o Q (emitRaw o vt v) := by
  unfold emitRaw
  refine markOK_flatMap _ _ fun i hi => ?_
  simp only [List.mem_range] at hi
  simp only [markOK_append]
  refine ⟨?_, by simp [markOK_cons, markOf]⟩
  split
  · simp [markOK_cons, markOf, h i hi]
  · simp

theorem emitMovement_steps_mark (cs : List Tok) (h : ∀ c ∈ cs, Q c.line) :
    MarkOK o Q (emitMovement.steps o cs) := by
  induction cs with
  | nil => simp [emitMovement.steps, markOK_cons, markOf]
  | cons c r ih =>
    rw [emitMovement.steps]
    have hc : Q c.line := h c (by simp)
    have hr := ih fun x hx => h x (by simp [hx])
    split <;> simp [markOK_marker_of hc, markOK_cons, markOf, hr]

theorem emitMovement_mark (m : MovementStmt) (h1 : Q m.tok.line) (h2 : ∀ c ∈ m.cmds, Q c.line) :
    MarkOK o Q (emitMovement o m) := by
  unfold emitMovement
  simp [markOK_marker_of h1, markOK_cons, markOf, emitMovement_steps_mark m.cmds h2]

theorem emitMart_go_mark (items : List String) : ∀ (ts : List Tok), (∀ t ∈ ts, Q t.line) →
    items.length ≤ ts.length → MarkOK o Q (emitMart.go o ts items) := by
  induction items with
  | nil => intro ts _ _; simp [emitMart.go, markOK_cons, markOf]
  | cons it r ih =>
    intro ts hts hlen
    cases ts with
    | nil => simp at hlen
    | cons a ts' =>
      rw [emitMart.go]
      have ha : Q a.line := hts a (by simp)
      have hr := ih ts' (fun x hx => hts x (by simp [hx])) (by simpa using hlen)
      split <;> simp [markOK_marker_of ha, markOK_cons, markOf, hr]

theorem emitMart_mark (tok : Tok) (name : String) (tis : List Tok) (items : List String) (scope : TT)
    (h1 : Q tok.line) (h2 : ∀ t ∈ tis, Q t.line) (h3 : items.length ≤ tis.length) :
    MarkOK o Q (emitMart o tok name tis items scope) := by
  unfold emitMart
  simp [markOK_marker_of h1, markOK_cons, markOf, emitMart_go_mark items tis h2 h3]

/-- An optional inline script. -/
def OptOK (Q : Nat → Prop) : Option Script → Prop
  | some s => SOK Q s.body
  | none => True

theorem emitScripts_mark (ps : List ((Nat × Nat) × String)) (tl : List String) :
    ∀ (ss : List (Option Script)) (ls : List Line), (∀ s ∈ ss, OptOK Q s) →
      emitScripts o ps tl ss = .ok ls → MarkOK o Q ls := by
  intro ss
  induction ss with
  | nil => intro ls _ h; simp [emitScripts] at h; subst h; simp
  | cons s r ih =>
    intro ls hs h
    have hr : ∀ x ∈ r, OptOK Q x := fun x hx => hs x (by simp [hx])
    cases s with
    | none => rw [emitScripts] at h; exact ih ls hr h
    | some sc =>
      rw [emitScripts] at h
      split at h
      · simp at h
      · next l1 h1 =>
        split at h
        · simp at h
        · next l2 h2 =>
          simp only [Except.ok.injEq] at h; subst h
          have hsc : SOK Q sc.body := hs (some sc) (by simp)
          simp [emitScript_mark ps tl sc hsc l1 h1, ih l2 hr h2]

def TableOK (Q : Nat → Prop) (t : TableMapScript) : Prop :=
  Q t.type.line ∧ ∀ e ∈ t.entries, Q e.condition.line ∧ OptOK Q e.script

theorem emitTables_mark (ps : List ((Nat × Nat) × String)) (tl : List String) :
    ∀ (ts : List TableMapScript) (ls : List Line), (∀ t ∈ ts, TableOK Q t) →
      emitTables o ps tl ts = .ok ls → MarkOK o Q ls := by
  intro ts
  induction ts with
  | nil => intro ls _ h; simp [emitTables] at h; subst h; simp
  | cons t r ih =>
    intro ls hts h
    have ht := hts t (by simp)
    rw [emitTables] at h
    split at h
    · simp at h
    · next l1 h1 =>
      split at h
      · simp at h
      · next l2 h2 =>
        simp only [Except.ok.injEq] at h; subst h
        have he : MarkOK o Q (t.entries.flatMap fun e =>
            marker o e.condition ++ [Line.mapScript2 e.condition.lit e.comparison e.name]) :=
          markOK_flatMap _ _ fun e hem => by
            simp [markOK_marker_of (ht.2 e hem).1, markOK_cons, markOf]
        have hs := emitScripts_mark (o := o) ps tl (t.entries.map (·.script)) l1 (by
          intro s hs
          simp only [List.mem_map] at hs
          obtain ⟨e, hem, rfl⟩ := hs
          exact (ht.2 e hem).2) h1
        simp [markOK_cons, markOf, he, hs, ih l2 (fun x hx => hts x (by simp [hx])) h2]

def MSOK (Q : Nat → Prop) (m : MapScripts) : Prop :=
  (∀ ms ∈ m.mapScripts, Q ms.type.line ∧ OptOK Q ms.script) ∧ ∀ t ∈ m.tables, TableOK Q t

theorem emitMapScripts_mark (ps : List ((Nat × Nat) × String)) (tl : List String) (m : MapScripts)
    (hm : MSOK Q m) (ls : List Line) (h : emitMapScripts o ps tl m = .ok ls) : MarkOK o Q ls := by
  unfold emitMapScripts at h
  simp only at h
  split at h
  · simp at h
  · next l1 h1 =>
    split at h
    · simp at h
    · next l2 h2 =>
      simp only [Except.ok.injEq] at h; subst h
      have h3 : MarkOK o Q (m.mapScripts.flatMap fun ms =>
          marker o ms.type ++ [Line.mapScript ms.type.lit ms.name]) :=
        markOK_flatMap _ _ fun ms hms => by
          simp [markOK_marker_of (hm.1 ms hms).1, markOK_cons, markOf]
      have h4 : MarkOK o Q (m.tables.flatMap fun t =>
          marker o t.type ++ [Line.mapScript t.type.lit t.name]) :=
        markOK_flatMap _ _ fun t ht => by
          simp [markOK_marker_of (hm.2 t ht).1, markOK_cons, markOf]
      have hs := emitScripts_mark (o := o) ps tl (m.mapScripts.map (·.script)) l1 (by
        intro s hs
        simp only [List.mem_map] at hs
        obtain ⟨ms, hms, rfl⟩ := hs
        exact (hm.1 ms hms).2) h1
      simp [markOK_cons, markOf, h3, h4, hs, emitTables_mark ps tl m.tables l2 hm.2 h2]

/-- What the emitter needs of a top-level statement. -/
def TopOK (Q : Nat → Prop) : Top → Prop
  | .script s => SOK Q s.body
  | .raw _ vtok v => ∀ i, i < (splitLines v.toList).length → Q (vtok.line + i)
  | .text _ => True
  | .movement m => Q m.tok.line ∧ ∀ c ∈ m.cmds, Q c.line
  | .mart tok _ tis items _ => Q tok.line ∧ (∀ t ∈ tis, Q t.line) ∧ items.length ≤ tis.length
  | .mapscripts m => MSOK Q m

theorem emitTops_mark (ps : List ((Nat × Nat) × String)) (tl : List String) :
    ∀ (ts : List Top) (i : Nat) (ls : List Line) (k : Nat), (∀ t ∈ ts, TopOK Q t) →
      emitTops o ps tl ts i = .ok (ls, k) → MarkOK o Q ls := by
  intro ts
  induction ts with
  | nil => intro i ls k _ h; simp [emitTops] at h; obtain ⟨rfl, _⟩ := h; simp
  | cons t r ih =>
    intro i ls k hts h
    have ht := hts t (by simp)
    have hr : ∀ x ∈ r, TopOK Q x := fun x hx => hts x (by simp [hx])
    have hsep : MarkOK o Q (if i > 0 then [Line.blank] else []) := by
      split <;> simp [markOK_cons, markOf]
    cases t with
    | text t => rw [emitTops] at h; exact ih i ls k hr h
    | script s =>
      rw [emitTops] at h
      split at h
      · simp at h
      · next l1 h1 =>
        split at h
        · simp at h
        · next l2 k2 h2 =>
          simp only [Except.ok.injEq, Prod.mk.injEq] at h
          rw [← h.1]
          simp [hsep, emitScript_mark ps tl s ht l1 h1, ih _ l2 k2 hr h2]
    | mapscripts m =>
      rw [emitTops] at h
      split at h
      · simp at h
      · next l1 h1 =>
        split at h
        · simp at h
        · next l2 k2 h2 =>
          simp only [Except.ok.injEq, Prod.mk.injEq] at h
          rw [← h.1]
          simp [hsep, emitMapScripts_mark ps tl m ht l1 h1, ih _ l2 k2 hr h2]
    | raw tok vt v =>
      rw [emitTops] at h
      split at h
      · simp at h
      · next l2 k2 h2 =>
        simp only [Except.ok.injEq, Prod.mk.injEq] at h
        rw [← h.1]
        simp [hsep, emitRaw_mark vt v ht, ih _ l2 k2 hr h2]
    | movement m =>
      rw [emitTops] at h
      split at h
      · simp at h
      · next l2 k2 h2 =>
        simp only [Except.ok.injEq, Prod.mk.injEq] at h
        rw [← h.1]
        simp [hsep, emitMovement_mark m ht.1 ht.2, ih _ l2 k2 hr h2]
    | mart tok name tis items scope =>
      rw [emitTops] at h
      split at h
      · simp at h
      · next l2 k2 h2 =>
        simp only [Except.ok.injEq, Prod.mk.injEq] at h
        rw [← h.1]
        simp [hsep, emitMart_mark tok name tis items scope ht.1 ht.2.1 ht.2.2, ih _ l2 k2 hr h2]

theorem emitProgram_mark (p : Program) (htops : ∀ t ∈ p.tops, TopOK Q t)
    (htexts : ∀ t ∈ p.texts, Q t.tok.line) (ls : List Line) (h : emitProgram o p = .ok ls) :
    MarkOK o Q ls := by
  unfold emitProgram at h
  simp only at h
  split at h
  · simp at h
  · next l1 k h1 =>
    simp only [Except.ok.injEq] at h
    rw [← h, markOK_append]
    refine ⟨emitTops_mark _ _ p.tops 0 l1 k htops h1, markOK_flatMap _ _ fun j hj => ?_⟩
    simp only [List.mem_range] at hj
    rw [markOK_append]
    refine ⟨by split <;> simp [markOK_cons, markOf], emitText_mark _ (htexts _ ?_)⟩
    rw [List.getD_eq_getElem?_getD, List.getElem?_eq_getElem hj]
    exact List.getElem_mem hj

end
end Pory.C16nd
