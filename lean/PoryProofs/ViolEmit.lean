import PoryProofs.ViolStmt
import PoryProofs.Properties.C05e
import PoryProofs.Properties.C18e
/-
C20c helper, stage 3: the violations the parser's POST-PASSES and the EMITTER report.

Post-passes (`ParseProgram` after the top-level loop):
* `FirstDupText texts t` — `t` is the first text of `texts` (hoisted texts in hoisting order, then the `text`
  statements in source order) whose name occurred before it; `firstDuplicateText_iff`: that is what the model's
  scan returns.
* `FirstDupMovement ms tok name` — some movement of `ms` (the `movement` statements in source order, then the
  hoisted movements) is the first one whose name `name` occurred before; `tok` is the token of the EARLIER
  movement of that name (Go reports `existingStmt.Token`); `firstDuplicateMovement_iff`.

Emitter:
* `LViol` — `labelChunk tok name` (a label statement `name:` with `name` a generated chunk label of its script,
  the script's own name included), `labelText tok name` (a label statement named like a text of the program);
  `tok` = the label's token.  `LViol.err` = the emitter's error.
* `labelClash cl tl stmts` — the first clashing label statement of a chunk; `scriptClash o tl s` — the clash of
  the first chunk of the LAYOUT ORDER of script `s` (`C05.chunkOrder o`: depends on `-optimize`, cf. C05e) that
  has one; `blocksClash` / `progClash o p` — that of the first script of the program in output order.
* `emitScript_clash`, `emitProgram_clash` : for programs with the parser's guarantees (`C18e.ParserGuarantees`)
  `emitProgram o p` fails exactly with `LViol.err` of `progClash o p`, and succeeds iff there is none.
* `progClash_none_iff`-style consequence `no_clash_labels` : if there is no clash, NO label statement of any
  chunk of any script of the program is named like a chunk label of its script or like a text.
-/
namespace Pory.C20c
open Pory Pory.Parser Pory.Emit
open Pory.C05e (Block assemble progBlocks seq2 errOf chunkErr)

/-! ### post-passes: duplicate text names -/

/-- `t` is the first text whose name occurred before it. -/
def FirstDupText (texts : List Text) (t : Text) : Prop :=
  ∃ pre post, texts = pre ++ t :: post ∧ (pre.map (·.name)).Nodup ∧ t.name ∈ pre.map (·.name)

theorem firstDuplicateText_gen (texts : List Text) (seen : List String) (t : Text) :
    firstDuplicateText texts seen = some t ↔
      ∃ pre post, texts = pre ++ t :: post ∧ (pre.map (·.name)).Nodup ∧ (∀ x ∈ pre, x.name ∉ seen) ∧
        (t.name ∈ seen ∨ t.name ∈ pre.map (·.name)) := by
  induction texts generalizing seen with
  | nil => simp [firstDuplicateText]
  | cons x r ih =>
    unfold firstDuplicateText
    by_cases hc : seen.contains x.name = true
    · simp only [hc, if_true, Option.some.injEq]
      have hm : x.name ∈ seen := by simpa using hc
      constructor
      · rintro rfl
        exact ⟨[], r, rfl, by simp, by simp, .inl hm⟩
      · rintro ⟨pre, post, he, _, hns, _⟩
        cases pre with
        | nil => simp only [List.nil_append, List.cons.injEq] at he; exact he.1
        | cons y pre' =>
          simp only [List.cons_append, List.cons.injEq] at he
          have := hns y (by simp)
          rw [← he.1] at this
          exact absurd hm this
    · have hc' : seen.contains x.name = false := by simpa using hc
      have hm : x.name ∉ seen := by simpa using hc
      simp only [hc', Bool.false_eq_true, if_false]
      rw [ih]
      constructor
      · rintro ⟨pre, post, he, hnd, hns, hor⟩
        refine ⟨x :: pre, post, by simp [he], ?_, ?_, ?_⟩
        · simp only [List.map_cons, List.nodup_cons]
          refine ⟨?_, hnd⟩
          intro hmem
          obtain ⟨y, hy, hye⟩ := List.mem_map.1 hmem
          have := hns y hy
          simp [hye] at this
        · intro y hy
          rcases List.mem_cons.1 hy with rfl | hy
          · exact hm
          · have := hns y hy
            simp at this
            exact this.2
        · rcases hor with hor | hor
          · rcases List.mem_cons.1 hor with h | h
            · right; simp [h]
            · left; exact h
          · right; simp only [List.map_cons, List.mem_cons]; right; exact hor
      · rintro ⟨pre, post, he, hnd, hns, hor⟩
        cases pre with
        | nil =>
          simp only [List.nil_append, List.cons.injEq] at he
          rcases hor with hor | hor
          · rw [← he.1] at hor; exact absurd hor hm
          · simp at hor
        | cons y pre' =>
          simp only [List.cons_append, List.cons.injEq] at he
          obtain ⟨rfl, he⟩ := he
          simp only [List.map_cons, List.nodup_cons] at hnd
          refine ⟨pre', post, he, hnd.2, ?_, ?_⟩
          · intro z hz
            simp only [List.mem_cons, not_or]
            refine ⟨?_, hns z (List.mem_cons_of_mem _ hz)⟩
            intro hze
            exact hnd.1 (List.mem_map.2 ⟨z, hz, hze⟩)
          · rcases hor with hor | hor
            · left; exact List.mem_cons_of_mem _ hor
            · simp only [List.map_cons, List.mem_cons] at hor
              rcases hor with hor | hor
              · left; simp [hor]
              · right; exact hor

/-- **The model's scan returns the first text whose name occurred before.** -/
theorem firstDuplicateText_iff (texts : List Text) (t : Text) :
    firstDuplicateText texts [] = some t ↔ FirstDupText texts t := by
  rw [firstDuplicateText_gen]
  unfold FirstDupText
  constructor
  · rintro ⟨pre, post, he, hnd, _, hor⟩
    rcases hor with hor | hor
    · cases hor
    · exact ⟨pre, post, he, hnd, hor⟩
  · rintro ⟨pre, post, he, hnd, hor⟩
    exact ⟨pre, post, he, hnd, by simp, .inr hor⟩

/-! ### post-passes: duplicate movement names -/

/-- The `movement` statements among the top-level statements, in order. -/
def movementsOf : List Top → List MovementStmt
  | [] => []
  | .movement m :: r => m :: movementsOf r
  | _ :: r => movementsOf r

theorem movementsOf_append : ∀ (a b : List Top), movementsOf (a ++ b) = movementsOf a ++ movementsOf b
  | [], _ => rfl
  | t :: r, b => by cases t <;> simp [movementsOf, movementsOf_append r b]

theorem movementsOf_movements : ∀ (ms : List MovementStmt), movementsOf (ms.map Top.movement) = ms
  | [] => rfl
  | m :: r => by simp [movementsOf, movementsOf_movements r]

/-- Some movement is the first one whose name (`name`) occurred before; `tok` = the token of the earlier movement
of that name. -/
def FirstDupMovement (ms : List MovementStmt) (tok : Tok) (name : String) : Prop :=
  ∃ pre m post m0, ms = pre ++ m :: post ∧ (pre.map (·.name)).Nodup ∧ m0 ∈ pre ∧ m0.name = m.name ∧
    tok = m0.tok ∧ name = m.name

/-- the scan on a list of movements -/
def dupMv : List MovementStmt → List (String × Tok) → Option (Tok × String)
  | [], _ => none
  | m :: r, seen =>
    match seen.lookup m.name with
    | some t => some (t, m.name)
    | none => dupMv r ((m.name, m.tok) :: seen)

theorem firstDuplicateMovement_dupMv : ∀ (tops : List Top) (seen : List (String × Tok)),
    firstDuplicateMovement tops seen = dupMv (movementsOf tops) seen
  | [], _ => rfl
  | .movement m :: r, seen => by
    simp only [firstDuplicateMovement, movementsOf, dupMv]
    cases seen.lookup m.name with
    | some t => rfl
    | none => exact firstDuplicateMovement_dupMv r _
  | .script _ :: r, seen => by simp only [firstDuplicateMovement, movementsOf, firstDuplicateMovement_dupMv r]
  | .raw .. :: r, seen => by simp only [firstDuplicateMovement, movementsOf, firstDuplicateMovement_dupMv r]
  | .text _ :: r, seen => by simp only [firstDuplicateMovement, movementsOf, firstDuplicateMovement_dupMv r]
  | .mart .. :: r, seen => by simp only [firstDuplicateMovement, movementsOf, firstDuplicateMovement_dupMv r]
  | .mapscripts _ :: r, seen => by
    simp only [firstDuplicateMovement, movementsOf, firstDuplicateMovement_dupMv r]

theorem lookup_none_of_not_mem {β : Type} (k : String) : ∀ (l : List (String × β)),
    k ∉ l.map (·.1) → l.lookup k = none
  | [], _ => rfl
  | (a, b) :: r, h => by
    simp only [List.map_cons, List.mem_cons, not_or] at h
    have : (k == a) = false := by simpa using h.1
    simp only [List.lookup_cons, this]
    exact lookup_none_of_not_mem k r h.2

theorem mem_of_lookup_some {β : Type} (k : String) (v : β) : ∀ (l : List (String × β)),
    l.lookup k = some v → (k, v) ∈ l
  | [], h => by cases h
  | (a, b) :: r, h => by
    simp only [List.lookup_cons] at h
    cases hk : k == a with
    | true =>
      rw [hk] at h
      have : k = a := by simpa using hk
      cases h
      simp [this]
    | false =>
      rw [hk] at h
      exact List.mem_cons_of_mem _ (mem_of_lookup_some k v r h)

/-- `seen` holds the (name, token) of the movements in `done`, newest first. -/
theorem dupMv_gen : ∀ (ms done : List MovementStmt) (tok : Tok) (name : String),
    (done.map (·.name)).Nodup →
    (dupMv ms (done.reverse.map fun m => (m.name, m.tok)) = some (tok, name) ↔
      ∃ pre m post m0, ms = pre ++ m :: post ∧ ((done ++ pre).map (·.name)).Nodup ∧ m0 ∈ done ++ pre ∧
        m0.name = m.name ∧ tok = m0.tok ∧ name = m.name)
  | [], done, tok, name, _ => by simp [dupMv]
  | m :: r, done, tok, name, hnd => by
    simp only [dupMv]
    cases hl : (done.reverse.map fun m => (m.name, m.tok)).lookup m.name with
    | some t =>
      have hmem := mem_of_lookup_some _ _ _ hl
      obtain ⟨m0, hm0, hm0e⟩ := List.mem_map.1 hmem
      simp only [Prod.mk.injEq] at hm0e
      have hm0d : m0 ∈ done := by simpa using hm0
      simp only [Option.some.injEq, Prod.mk.injEq]
      constructor
      · rintro ⟨rfl, rfl⟩
        exact ⟨[], m, r, m0, rfl, by simpa using hnd, by simpa using hm0d, hm0e.1, hm0e.2.symm, rfl⟩
      · rintro ⟨pre, m', post, m1, he, hnd', hm1, hm1e, rfl, rfl⟩
        cases pre with
        | nil =>
          simp only [List.nil_append, List.cons.injEq] at he
          obtain ⟨rfl, -⟩ := he
          simp only [List.append_nil] at hm1 hnd'
          -- m0 and m1 are both in `done` with the same name: equal tokens
          have : m1 = m0 := by
            have h1 : m1.name = m0.name := hm1e.trans hm0e.1.symm
            exact nodup_map_inj hnd' hm1 hm0d h1
          subst this
          exact ⟨hm0e.2.symm, rfl⟩
        | cons y pre' =>
          simp only [List.cons_append, List.cons.injEq] at he
          obtain ⟨rfl, -⟩ := he
          -- y.name is in done: contradiction with Nodup (done ++ y :: pre')
          exfalso
          simp only [List.map_append, List.map_cons] at hnd'
          have := (List.nodup_append.1 hnd').2.2 m0.name (List.mem_map.2 ⟨m0, hm0d, rfl⟩) m.name (by simp)
          exact this hm0e.1
    | none =>
      have hnot : m.name ∉ done.map (·.name) := by
        intro hmem
        obtain ⟨m0, hm0, hm0e⟩ := List.mem_map.1 hmem
        have : (m.name, m0.tok) ∈ (done.reverse.map fun m => (m.name, m.tok)) :=
          List.mem_map.2 ⟨m0, by simpa using hm0, by simp [hm0e]⟩
        have hk : m.name ∈ (done.reverse.map fun m => (m.name, m.tok)).map (·.1) :=
          List.mem_map.2 ⟨_, this, rfl⟩
        have h2 : ∀ (l : List (String × Tok)), l.lookup m.name = none → m.name ∉ l.map (·.1) := by
          intro l
          induction l with
          | nil => simp
          | cons p q ih =>
            obtain ⟨a, b⟩ := p
            simp only [List.lookup_cons, List.map_cons, List.mem_cons, not_or]
            cases hk : m.name == a with
            | true => simp
            | false =>
              intro h
              exact ⟨by simpa using hk, ih h⟩
        exact h2 _ hl hk
      have hnd2 : ((done ++ [m]).map (·.name)).Nodup := by
        simp only [List.map_append, List.map_cons, List.map_nil]
        refine List.nodup_append.2 ⟨hnd, by simp, ?_⟩
        intro a ha b hb
        simp only [List.mem_singleton] at hb
        subst hb
        intro h; subst h; exact hnot ha
      have hseen : ((m.name, m.tok) :: (done.reverse.map fun m => (m.name, m.tok))) =
          ((done ++ [m]).reverse.map fun m => (m.name, m.tok)) := by simp
      rw [hseen, dupMv_gen r (done ++ [m]) tok name hnd2]
      constructor
      · rintro ⟨pre, m', post, m1, he, hnd', hm1, hm1e, rfl, rfl⟩
        refine ⟨m :: pre, m', post, m1, by simp [he], ?_, ?_, hm1e, rfl, rfl⟩
        · simpa using hnd'
        · simpa using hm1
      · rintro ⟨pre, m', post, m1, he, hnd', hm1, hm1e, rfl, rfl⟩
        cases pre with
        | nil =>
          simp only [List.nil_append, List.cons.injEq] at he
          obtain ⟨rfl, -⟩ := he
          simp only [List.append_nil] at hm1
          exact absurd (List.mem_map.2 ⟨m1, hm1, hm1e⟩) hnot
        | cons y pre' =>
          simp only [List.cons_append, List.cons.injEq] at he
          obtain ⟨rfl, rfl⟩ := he
          refine ⟨pre', m', post, m1, rfl, ?_, ?_, hm1e, rfl, rfl⟩
          · simpa using hnd'
          · simpa using hm1
where
  nodup_map_inj {l : List MovementStmt} {a b : MovementStmt} (hnd : (l.map (·.name)).Nodup) (ha : a ∈ l)
      (hb : b ∈ l) (h : a.name = b.name) : a = b := by
    induction l with
    | nil => cases ha
    | cons x r ih =>
      simp only [List.map_cons, List.nodup_cons] at hnd
      rcases List.mem_cons.1 ha with rfl | ha' <;> rcases List.mem_cons.1 hb with rfl | hb'
      · rfl
      · exact absurd (List.mem_map.2 ⟨b, hb', h.symm⟩) hnd.1
      · exact absurd (List.mem_map.2 ⟨a, ha', h⟩) hnd.1
      · exact ih hnd.2 ha' hb'

/-- **The model's movement scan returns the token of the earlier movement and the duplicated name.** -/
theorem firstDuplicateMovement_iff (tops : List Top) (tok : Tok) (name : String) :
    firstDuplicateMovement tops [] = some (tok, name) ↔ FirstDupMovement (movementsOf tops) tok name := by
  rw [firstDuplicateMovement_dupMv]
  have := dupMv_gen (movementsOf tops) [] tok name (by simp)
  simpa [FirstDupMovement] using this

/-! ### emitter: label clashes -/

inductive LViol where
  /-- a label statement named like a generated chunk label of its script -/
  | labelChunk (tok : Tok) (name : String)
  /-- a label statement named like a text (hoisted or `text` statement) -/
  | labelText (tok : Tok) (name : String)
  deriving DecidableEq, Repr

def LViol.err : LViol → EFail
  | .labelChunk tok name =>
    .perr tok s!"duplicate script label '{name}'. Choose a unique label that won't clash with the auto-generated script labels"
  | .labelText tok name =>
    .perr tok s!"duplicate text label '{name}'. Choose a unique label that won't clash with the auto-generated text labels"

def LViol.tok : LViol → Tok
  | .labelChunk tok _ => tok
  | .labelText tok _ => tok

/-- The first clashing label statement of a chunk's statements (`cl` = the chunk labels of the script, `tl` = the
text names of the program). -/
def labelClash (cl tl : List String) : List Stmt → Option LViol
  | [] => none
  | .label tok name _ :: rest =>
    if cl.contains name then some (.labelChunk tok name)
    else if tl.contains name then some (.labelText tok name)
    else labelClash cl tl rest
  | _ :: rest => labelClash cl tl rest

theorem renderStatements_clash (o : Opts) (ps : List ((Nat × Nat) × String)) (cl tl : List String) :
    ∀ (ss : List Stmt), (∀ x ∈ ss, IsSimple x) →
      errOf (renderStatements o ps cl tl ss) = (labelClash cl tl ss).map LViol.err := by
  intro ss
  induction ss with
  | nil => intro _; rfl
  | cons x r ih =>
    intro hs
    have ih' := ih (fun y hy => hs y (List.mem_cons_of_mem _ hy))
    cases x with
    | cmd c =>
      rw [renderStatements]
      simp only [labelClash]
      rw [← ih']
      cases renderStatements o ps cl tl r <;> rfl
    | label tok name g =>
      rw [renderStatements]
      simp only [labelClash]
      split
      · rfl
      · split
        · rfl
        · rw [← ih']
          cases renderStatements o ps cl tl r <;> rfl
    | ite _ _ _ _ _ => exact absurd (hs _ List.mem_cons_self) (by simp [IsSimple])
    | while_ _ _ _ _ => exact absurd (hs _ List.mem_cons_self) (by simp [IsSimple])
    | doWhile _ _ _ _ => exact absurd (hs _ List.mem_cons_self) (by simp [IsSimple])
    | brk _ _ => exact absurd (hs _ List.mem_cons_self) (by simp [IsSimple])
    | cont _ _ => exact absurd (hs _ List.mem_cons_self) (by simp [IsSimple])
    | switch_ _ _ _ _ => exact absurd (hs _ List.mem_cons_self) (by simp [IsSimple])

/-- The clash of chunk `id` of a table. -/
def chunkClash (cl tl : List String) (chunks : List Chunk) (id : Nat) : Option LViol :=
  match findChunk chunks id with
  | none => none
  | some c => labelClash cl tl c.statements

/-- **The first clash of a script**: that of the first chunk of its layout order that has one. -/
def scriptClash (o : Opts) (tl : List String) (s : Script) : Option LViol :=
  match scriptChunks s.body with
  | .error _ => none
  | .ok chunks =>
    match C05.chunkOrder o chunks with
    | .error _ => none
    | .ok ord => ord.findSome? (chunkClash (chunks.map fun c => chunkLabel s.name c.id) tl chunks)

theorem findSome?_map_congr {α β γ : Type} (g : β → γ) (f : α → Option γ) (f' : α → Option β) :
    ∀ (l : List α), (∀ x ∈ l, f x = (f' x).map g) → l.findSome? f = (l.findSome? f').map g
  | [], _ => rfl
  | x :: r, h => by
    rw [List.findSome?_cons, List.findSome?_cons, h x List.mem_cons_self]
    cases f' x with
    | some v => rfl
    | none => exact findSome?_map_congr g f f' r (fun y hy => h y (List.mem_cons_of_mem _ hy))

/-- **`emitScript` fails exactly with the first clash of the script** (bodies with the parser's guarantees). -/
theorem emitScript_clash (o : Opts) (ps : List ((Nat × Nat) × String)) (tl : List String) (s : Script)
    (hw : ScopesWellFormed s.body) (hb : BoolOpsOK s.body) :
    errOf (emitScript o ps tl s) = (scriptClash o tl s).map LViol.err := by
  obtain ⟨chunks, hc⟩ := scriptChunks_total s.body hw hb
  rcases C05e.emitScript_first_error (o₁ := o) (o₂ := o) rfl rfl ps tl s with
    ⟨e, he, _, _⟩ | ⟨chunks', ord, _, hc', ho, _, _, hperm, h1, _⟩
  · rw [hc] at he; cases he
  · rw [hc] at hc'
    injection hc' with hc'
    subst hc'
    rw [h1]
    unfold scriptClash
    rw [hc]
    simp only [ho]
    apply findSome?_map_congr
    intro id hid
    obtain ⟨c, hfc, hcm⟩ := findChunk_of_mem chunks id (hperm.mem_iff.1 hid)
    simp only [chunkErr, chunkClash, hfc]
    exact renderStatements_clash o ps _ tl c.statements ((scriptChunks_simple s.body chunks hc c hcm).1)

/-- The first clash among the script blocks of a block list, in output order. -/
def blocksClash (o : Opts) (tl : List String) : List Block → Option LViol
  | [] => none
  | .data _ :: r => blocksClash o tl r
  | .code s :: r => orV (scriptClash o tl s) (blocksClash o tl r)

theorem assemble_clash (o : Opts) (tl : List String) (f : Script → Except EFail (List Line)) :
    ∀ (bs : List Block), (∀ s, Block.code s ∈ bs → errOf (f s) = (scriptClash o tl s).map LViol.err) →
      errOf (assemble f bs) = (blocksClash o tl bs).map LViol.err
  | [], _ => rfl
  | .data ls :: r, h => by
    have ih := assemble_clash o tl f r (fun s hs => h s (List.mem_cons_of_mem _ hs))
    simp only [assemble, blocksClash]
    rw [← ih]
    cases assemble f r <;> rfl
  | .code s :: r, h => by
    have ih := assemble_clash o tl f r (fun s hs => h s (List.mem_cons_of_mem _ hs))
    have h0 := h s List.mem_cons_self
    simp only [assemble, blocksClash]
    cases hf : f s with
    | error e =>
      rw [hf] at h0
      cases hsc : scriptClash o tl s with
      | none => rw [hsc] at h0; cases h0
      | some v => rw [hsc] at h0; simpa [seq2, errOf] using h0
    | ok a =>
      rw [hf] at h0
      cases hsc : scriptClash o tl s with
      | some v => rw [hsc] at h0; cases h0
      | none =>
        simp only [orV_none_left]
        rw [← ih]
        cases assemble f r <;> rfl

/-- **The first label clash of a program**, in output order. -/
def progClash (o : Opts) (p : Program) : Option LViol :=
  blocksClash o (p.texts.map (·.name)) (progBlocks o p)

/-- **`emitProgram` fails exactly with the first label clash** (programs with the parser's guarantees). -/
theorem emitProgram_clash (o : Opts) (p : Program) (hp : C18e.ParserGuarantees p) :
    errOf (emitProgram o p) = (progClash o p).map LViol.err := by
  rw [C05e.emitProgram_eq_assemble]
  apply assemble_clash
  intro s hs
  have := hp s (C05e.mem_progBlocks.1 hs)
  exact emitScript_clash o _ _ s this.1 this.2

/-! ### no clash ⇒ no label statement anywhere clashes -/

theorem labelClash_none {cl tl : List String} : ∀ {ss : List Stmt}, labelClash cl tl ss = none →
    ∀ tok name g, Stmt.label tok name g ∈ ss → name ∉ cl ∧ name ∉ tl
  | [], _, _, _, _, hm => by cases hm
  | x :: r, h, tok, name, g, hm => by
    cases x with
    | label tok' name' g' =>
      simp only [labelClash] at h
      split at h
      · cases h
      · split at h
        · cases h
        · rename_i h1 h2
          rcases List.mem_cons.1 hm with he | hm
          · cases he
            exact ⟨by simpa using h1, by simpa using h2⟩
          · exact labelClash_none h tok name g hm
    | cmd c =>
      simp only [labelClash] at h
      rcases List.mem_cons.1 hm with he | hm
      · cases he
      · exact labelClash_none h tok name g hm
    | ite _ _ _ _ _ =>
      simp only [labelClash] at h
      rcases List.mem_cons.1 hm with he | hm
      · cases he
      · exact labelClash_none h tok name g hm
    | while_ _ _ _ _ =>
      simp only [labelClash] at h
      rcases List.mem_cons.1 hm with he | hm
      · cases he
      · exact labelClash_none h tok name g hm
    | doWhile _ _ _ _ =>
      simp only [labelClash] at h
      rcases List.mem_cons.1 hm with he | hm
      · cases he
      · exact labelClash_none h tok name g hm
    | brk _ _ =>
      simp only [labelClash] at h
      rcases List.mem_cons.1 hm with he | hm
      · cases he
      · exact labelClash_none h tok name g hm
    | cont _ _ =>
      simp only [labelClash] at h
      rcases List.mem_cons.1 hm with he | hm
      · cases he
      · exact labelClash_none h tok name g hm
    | switch_ _ _ _ _ =>
      simp only [labelClash] at h
      rcases List.mem_cons.1 hm with he | hm
      · cases he
      · exact labelClash_none h tok name g hm

theorem blocksClash_none {o : Opts} {tl : List String} : ∀ {bs : List Block}, blocksClash o tl bs = none →
    ∀ s, Block.code s ∈ bs → scriptClash o tl s = none
  | [], _, _, hm => by cases hm
  | .data _ :: r, h, s, hm => by
    rcases List.mem_cons.1 hm with he | hm
    · cases he
    · exact blocksClash_none (bs := r) h s hm
  | .code s' :: r, h, s, hm => by
    simp only [blocksClash] at h
    obtain ⟨h1, h2⟩ := orV_eq_none.1 h
    rcases List.mem_cons.1 hm with he | hm
    · cases he; exact h1
    · exact blocksClash_none h2 s hm

/-- **No clash: no label statement of any chunk of any script is named like a chunk label of its script or like
a text of the program.** -/
theorem no_clash_labels (o : Opts) (p : Program) (h : progClash o p = none) (s : Script)
    (hs : C01d.ScriptOf p s) (chunks : List Chunk) (hc : scriptChunks s.body = .ok chunks) (c : Chunk)
    (hcm : c ∈ chunks) (tok : Tok) (name : String) (g : Bool) (hl : Stmt.label tok name g ∈ c.statements) :
    name ∉ (chunks.map fun c => chunkLabel s.name c.id) ∧ name ∉ p.texts.map (·.name) := by
  have h1 := blocksClash_none h s (C05e.mem_progBlocks.2 hs)
  unfold scriptClash at h1
  rw [hc] at h1
  simp only at h1
  obtain ⟨ord, ho⟩ := C05e.chunkOrder_total o s.body chunks hc
  rw [ho] at h1
  simp only at h1
  have h0 := (C05.scriptChunks_ids s.body chunks hc)
  have hperm := (C05.chunkOrder_perm o chunks ord h0.2 ho).1
  have hid : c.id ∈ ord := hperm.mem_iff.2 (List.mem_map.2 ⟨c, hcm, rfl⟩)
  have h2 := (List.findSome?_eq_none_iff.1 h1) c.id hid
  obtain ⟨c', hfc, hcm'⟩ := findChunk_of_mem chunks c.id (List.mem_map.2 ⟨c, hcm, rfl⟩)
  -- ids are distinct: the chunk found is `c`
  have hcc : c' = c := by
    have hid' : c'.id = c.id := by
      have := List.find?_some hfc
      simpa using this
    exact nodup_id_inj h0.1 hcm' hcm hid'
  subst hcc
  simp only [chunkClash, hfc] at h2
  exact labelClash_none h2 tok name g hl
where
  nodup_id_inj {l : List Chunk} {a b : Chunk} (hnd : (l.map (·.id)).Nodup) (ha : a ∈ l)
      (hb : b ∈ l) (h : a.id = b.id) : a = b := by
    induction l with
    | nil => cases ha
    | cons x r ih =>
      simp only [List.map_cons, List.nodup_cons] at hnd
      rcases List.mem_cons.1 ha with rfl | ha' <;> rcases List.mem_cons.1 hb with rfl | hb'
      · rfl
      · exact absurd (List.mem_map.2 ⟨b, hb', h.symm⟩) hnd.1
      · exact absurd (List.mem_map.2 ⟨a, ha', h⟩) hnd.1
      · exact ih hnd.2 ha' hb'

end Pory.C20c
