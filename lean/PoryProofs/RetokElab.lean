import PoryProofs.RetokStmt
/-
L2 helpers, stage 4: **the reference elaboration of statements commutes with position erasure**.

`elabL env sn σ B C last (eL b) sid cid = peEx … (elabL env sn σ B C last b sid cid)`: elaborating the erased
block gives the erased statements (`peL`), the erased implicit data (`peImp`), the same counters — or the same
error with its positions erased (`pePFail`: same message).  Consequently two blocks of the same shape
(`eL b' = eL b`) elaborate to statements that differ only in the positions of their token records, with the
same ids, or fail with the same message (`elabL_shape`).
-/
namespace Pory.L2
open Pory Pory.Parser Pory.C02P Pory.C10b Pory.C10c Pory.StmtG Pory.SwitchParse
open Pory.C14b (Item printItems expand swVal)
open Pory.C11b (Form printAuto operandName autoLeafT)

/-! ### erasure of errors, implicit data, results -/

/-- The positions of a located error erased (the message stays). -/
def pePFail : PFail → PFail
  | .err e => .err { lineStart := 0, lineEnd := 0, charStart := 0, utf8Start := 0, charEnd := 0, utf8End := 0,
                     msg := e.msg }
  | f => f

def peImpText (t : ImpText) : ImpText := { t with text := pe t.text }
def peImpMov (m : ImpMovement) : ImpMovement :=
  { m with cmdTok := pe m.cmdTok, movements := m.movements.map pe }
def peImp (d : ImpData) : ImpData :=
  { texts := d.texts.map peImpText, movements := d.movements.map peImpMov }

theorem peImp_add (a b : ImpData) : peImp (a.add b) = (peImp a).add (peImp b) := by
  simp [peImp, ImpData.add]

@[simp] theorem peImp_empty : peImp {} = {} := rfl

/-- Erasure of a result. -/
def peEx {α : Type} (f : α → α) : Except PFail α → Except PFail α
  | .error e => .error (pePFail e)
  | .ok a => .ok (f a)

@[simp] theorem peEx_ok {α : Type} (f : α → α) (a : α) : peEx f (.ok a) = .ok (f a) := rfl
@[simp] theorem peEx_error {α : Type} (f : α → α) (e : PFail) : peEx f (.error e) = .error (pePFail e) := rfl

theorem pe_erase (t : Tok) : erase t = pe t := rfl

@[simp] theorem newParseError_erase (t : Tok) (m : String) :
    newParseError (erase t) m = pePFail (newParseError t m) := rfl
@[simp] theorem newRangeParseError_erase (a b : Tok) (m : String) :
    newRangeParseError (erase a) (erase b) m = pePFail (newRangeParseError a b m) := rfl

/-! ### conditions -/

theorem leafT_eLeaf (σ : String → String) (lf : Leaf) : leafT σ (eLeaf lf) = peOp (leafT σ lf) := by
  cases lf <;> rfl

theorem negLeaf_pe (neg : Bool) (e : OpExpr) : negLeaf neg (peOp e) = peOp (negLeaf neg e) := by
  cases neg <;> rfl

mutual
theorem treeOr_eOr (σ : String → String) (neg : Bool) : ∀ g : SOr, treeOr σ neg (eOr g) = peBool (treeOr σ neg g)
  | .one a => by simp only [eOr, treeOr, treeAnd_eAnd σ neg a]
  | .more a _ r => by simp only [eOr, treeOr, treeAnd_eAnd σ neg a, treeOr_eOr σ neg r, peBool]
theorem treeAnd_eAnd (σ : String → String) (neg : Bool) :
    ∀ a : SAnd, treeAnd σ neg (eAnd a) = peBool (treeAnd σ neg a)
  | .one u => by simp only [eAnd, treeAnd, treeUn_eUn σ neg u]
  | .more u _ r => by simp only [eAnd, treeAnd, treeUn_eUn σ neg u, treeAndAcc_eAnd σ neg r]
theorem treeAndAcc_eAnd (σ : String → String) (neg : Bool) :
    ∀ (a : SAnd) (left : BoolExpr), treeAndAcc σ neg (peBool left) (eAnd a) = peBool (treeAndAcc σ neg left a)
  | .one u, left => by simp only [eAnd, treeAndAcc, treeUn_eUn σ neg u, peBool]
  | .more u _ r, left => by
    simp only [eAnd, treeAndAcc, treeUn_eUn σ neg u]
    rw [← treeAndAcc_eAnd σ neg r]
    simp only [peBool]
theorem treeUn_eUn (σ : String → String) (neg : Bool) : ∀ u : SUn, treeUn σ neg (eUn u) = peBool (treeUn σ neg u)
  | .leaf lf => by simp only [eUn, treeUn, leafT_eLeaf, negLeaf_pe, peBool]
  | .paren n _ _ _ e => by simp only [eUn, treeUn, treeOr_eOr σ (neg != n) e]
end

theorem renderArg_erase (σ : String → String) (a : List Tok) : renderArg σ (a.map erase) = renderArg σ a := by
  unfold renderArg
  rw [List.map_map]
  rfl

theorem args_erase (σ : String → String) (a0 : List Tok) (more : List (Tok × List Tok)) :
    (a0.map erase :: (eMore more).map (·.2)).map (renderArg σ) = (a0 :: more.map (·.2)).map (renderArg σ) := by
  simp only [eMore, List.map_cons, List.map_map, renderArg_erase]
  congr 1
  apply List.map_congr_left
  intro p _
  simp only [Function.comp, renderArg_erase]

theorem form_operator_e (fm : Form) : (eForm fm).operator = fm.operator := by cases fm <;> rfl
theorem form_cmpValue_e (σ : String → String) (fm : Form) : (eForm fm).cmpValue σ = fm.cmpValue σ := by
  cases fm <;> rfl

theorem elabCond_eCond (env : Env) (σ : String → String) (c : SCond) (cid : Nat) :
    elabCond env σ (eCond c) cid = peEx (fun r => (peBool r.1, r.2)) (elabCond env σ c cid) := by
  cases c with
  | plain g => simp only [eCond, elabCond, treeOr_eOr, peEx_ok]
  | auto fm name lp a0 more rp =>
    simp only [eCond, elabCond, erase_lit', eMore_length, args_erase]
    cases env.autoVars.lookup name.lit with
    | none => simp only [notLeafErr, erase_lit', newParseError_erase, peEx_error]
    | some av =>
      simp only
      cases autoPosBad av (more.length + 1) with
      | some pos =>
        simp only [badPosErr, erase_lit', newRangeParseError_erase, peEx_error]
      | none =>
        simp only [peEx_ok, peBool, autoLeafT, form_operator_e, form_cmpValue_e]
        rfl

/-! ### command arguments with strings / moves -/

theorem partE_e (σ : String → String) (e : AElem) : partE σ (eAElem e) = partE σ e := by
  cases e <;> rfl

theorem renderArgE_e (σ : String → String) (a : List AElem) : renderArgE σ (a.map eAElem) = renderArgE σ a := by
  unfold renderArgE
  rw [List.map_map]
  congr 1
  apply List.map_congr_left
  intro e _
  exact partE_e σ e

theorem argsE_erase (σ : String → String) (a0 : List AElem) (more : List (Tok × List AElem)) :
    (a0.map eAElem :: (eMoreE more).map (·.2)).map (renderArgE σ) = (a0 :: more.map (·.2)).map (renderArgE σ) := by
  simp only [eMoreE, List.map_cons, List.map_map, renderArgE_e]
  congr 1
  apply List.map_congr_left
  intro p _
  simp only [Function.comp, renderArgE_e]

theorem argsE_map (σ : String → String) (as : List (List AElem)) :
    (as.map (List.map eAElem)).map (renderArgE σ) = as.map (renderArgE σ) := by
  rw [List.map_map]
  apply List.map_congr_left
  intro a _
  exact renderArgE_e σ a

theorem impOf_e (sn : String) (cid : Nat) (ct : Tok) (pos : Nat) (e : AElem) :
    impOf sn cid (erase ct) pos (eAElem e) = peImp (impOf sn cid ct pos e) := by
  cases e with
  | tok t => rfl
  | str t => rfl
  | tstr ty t => rfl
  | moves mv lp items rp =>
    simp only [eAElem, impOf, expand_eItem, peImp, List.map_cons, List.map_nil, peImpMov]
    cases expand items <;> rfl

theorem impArg_e (sn : String) (cid : Nat) (ct : Tok) (pos : Nat) :
    ∀ a : List AElem, impArg sn cid (erase ct) pos (a.map eAElem) = peImp (impArg sn cid ct pos a)
  | [] => rfl
  | e :: r => by simp only [List.map_cons, impArg, impOf_e, impArg_e sn cid ct pos r, peImp_add]

theorem impArgs_e (sn : String) (cid : Nat) (ct : Tok) :
    ∀ (pos : Nat) (as : List (List AElem)),
      impArgs sn cid (erase ct) pos (as.map (List.map eAElem)) = peImp (impArgs sn cid ct pos as)
  | _, [] => rfl
  | pos, a :: r => by simp only [List.map_cons, impArgs, impArg_e, impArgs_e sn cid ct (pos + 1) r, peImp_add]

theorem moreE_snd (more : List (Tok × List AElem)) :
    (eMoreE more).map (·.2) = (more.map (·.2)).map (List.map eAElem) := by
  simp [eMoreE, List.map_map, Function.comp_def]

/-! ### tables of a poryswitch -/

theorem lookup_map_snd {α : Type} (f : α → α) (k : String) :
    ∀ l : List (String × α), (l.map fun p => (p.1, f p.2)).lookup k = (l.lookup k).map f
  | [] => rfl
  | (a, b) :: r => by
    simp only [List.map_cons, List.lookup_cons]
    cases k == a
    · exact lookup_map_snd f k r
    · rfl

theorem selectCase_map {α : Type} (f : α → α) (env : Env) (l : List (String × α)) (v : String) :
    selectCase env (l.map fun p => (p.1, f p.2)) v = (selectCase env l v).map f := by
  unfold selectCase
  rw [lookup_map_snd, lookup_map_snd]
  cases l.lookup v <;> rfl

def peTab (T : List (String × List Stmt × ImpData)) : List (String × List Stmt × ImpData) :=
  T.map fun p => (p.1, (fun q : List Stmt × ImpData => (peL q.1, peImp q.2)) p.2)

/-! ### switch pieces -/

theorem headD_map_erase (vs : List Tok) (d : Tok) : (vs.map erase).headD (erase d) = erase (vs.headD d) := by
  cases vs <;> rfl

theorem caseValue_erase (σ : String → String) (vs : List Tok) : caseValue σ (vs.map erase) = caseValue σ vs := by
  unfold caseValue
  rw [List.map_map]
  rfl

theorem caseTok_erase (σ : String → String) (vs : List Tok) (colon : Tok) :
    caseTok σ (vs.map erase) (erase colon) = pe (caseTok σ vs colon) := by
  unfold caseTok
  rw [headD_map_erase, caseValue_erase]
  rfl

theorem operandOf_erase (σ : String → String) (ops : List Tok) (rp2 : Tok) :
    operandOf σ (ops.map erase) (erase rp2) = pe (operandOf σ ops rp2) := by
  unfold operandOf
  rw [headD_map_erase, List.map_map]
  rfl

/-! ### statements -/

/-- erasure of the result of a statement list -/
abbrev peR4 : Except PFail (List Stmt × ImpData × Nat × Nat) → Except PFail (List Stmt × ImpData × Nat × Nat) :=
  peEx fun r => (peL r.1, peImp r.2.1, r.2.2)

theorem isEmpty_eL (r : List SStmt) : (eL r).isEmpty = r.isEmpty := by cases r <;> rfl
theorem isEmpty_eCases (r : List SCase) : (eCases r).isEmpty = r.isEmpty := by cases r <;> rfl
theorem isEmpty_ePCases (r : List SPCase) : (ePCases r).isEmpty = r.isEmpty := by cases r <;> rfl

mutual
theorem elabS_eS (env : Env) (sn : String) (σ : String → String) :
    ∀ (x : SStmt) (B C : List Nat) (nx : Bool) (sid cid : Nat),
      elabS env sn σ B C nx (eS x) sid cid = peR4 (elabS env sn σ B C nx x sid cid)
  | .cmd name lp a0 more rp, B, C, nx, sid, cid => by
    simp only [eS, elabS, args_erase, peEx_ok, peImp_empty]
    rfl
  | .cmdI name lp a0 more rp, B, C, nx, sid, cid => by
    have h1 : (a0.map eAElem :: (eMoreE more).map (·.2)) = (a0 :: more.map (·.2)).map (List.map eAElem) := by
      simp only [moreE_snd, List.map_cons]
    simp only [eS, elabS, h1, argsE_map, impArgs_e, peEx_ok]
    rfl
  | .cmdE name lp rp, B, C, nx, sid, cid => rfl
  | .cmd0 name, B, C, nx, sid, cid => rfl
  | .label name colon, B, C, nx, sid, cid => rfl
  | .labelS name lp sc rp colon, B, C, nx, sid, cid => rfl
  | .ite i lp c rp lb body rb elifs els, B, C, nx, sid, cid => by
    simp only [eS, elabS, elabCond_eCond]
    cases elabCond env σ c cid with
    | error e => rfl
    | ok q =>
      simp only [peEx_ok, elabL_eL env sn σ body]
      cases elabL env sn σ B C true body sid q.2 with
      | error e => rfl
      | ok q1 =>
        simp only [peEx_ok, elabElifs_eElifs env sn σ elifs]
        cases elabElifs env sn σ B C elifs q1.2.2.1 q1.2.2.2 with
        | error e => rfl
        | ok q2 =>
          simp only [peEx_ok, elabElse_eElse env sn σ els]
          cases elabElse env sn σ B C els q2.2.2.1 q2.2.2.2 with
          | error e => rfl
          | ok q3 =>
            obtain ⟨el, m3, s3, c3⟩ := q3
            cases el <;> simp only [peEx_ok, peImp_add, peL, peS, peElse] <;> rfl
  | .while_ w lp c rp lb body rb, B, C, nx, sid, cid => by
    simp only [eS, elabS, elabCond_eCond]
    cases elabCond env σ c cid with
    | error e => rfl
    | ok q =>
      simp only [peEx_ok, elabL_eL env sn σ body]
      cases elabL env sn σ (sid :: B) (sid :: C) true body (sid + 1) q.2 with
      | error e => rfl
      | ok q1 => rfl
  | .whileInf w lb body rb, B, C, nx, sid, cid => by
    simp only [eS, elabS, elabL_eL env sn σ body]
    cases elabL env sn σ (sid :: B) (sid :: C) true body (sid + 1) cid with
    | error e => rfl
    | ok q1 => rfl
  | .doWhile d lb body rb w lp c rp, B, C, nx, sid, cid => by
    simp only [eS, elabS, elabL_eL env sn σ body]
    cases elabL env sn σ (sid :: B) (sid :: C) true body (sid + 1) cid with
    | error e => rfl
    | ok q1 =>
      simp only [peEx_ok, elabCond_eCond]
      cases elabCond env σ c q1.2.2.2 with
      | error e => rfl
      | ok q => rfl
  | .brk t, B, C, nx, sid, cid => by
    cases B <;> rfl
  | .cont t, B, C, nx, sid, cid => by
    cases C with
    | nil => rfl
    | cons c r => cases nx <;> rfl
  | .switch_ sw lp v lp2 ops rp2 rp lb cases rb, B, C, nx, sid, cid => by
    simp only [eS, elabS, elabCases_eCases env sn σ cases]
    cases elabCases env sn σ (sid :: B) C cases [] false (sid + 1) cid with
    | error e => rfl
    | ok q =>
      simp only [peEx_ok, peCases_isEmpty, operandOf_erase]
      cases q.1.isEmpty <;> rfl
  | .switchA sw lp name lp2 a0 more rp2 rp lb cases rb, B, C, nx, sid, cid => by
    simp only [eS, elabS, erase_lit', eMore_length, args_erase]
    cases env.autoVars.lookup name.lit with
    | none => rfl
    | some av =>
      simp only
      cases autoPosBad av (more.length + 1) with
      | some pos => rfl
      | none =>
        simp only [elabCases_eCases env sn σ cases]
        cases elabCases env sn σ (sid :: B) C cases [] false (sid + 1) (cid + 1) with
        | error e => rfl
        | ok q =>
          simp only [peEx_ok, peCases_isEmpty]
          cases q.1.isEmpty <;> rfl
  | .pory ps lp x rp lb cases rb, B, C, nx, sid, cid => by
    have h := elabPCases_ePCases env sn σ cases B C [] sid cid
    simp only [peTab, List.map_nil] at h
    simp only [eS, elabS]
    rw [show (erase x).lit = x.lit from rfl, h]
    cases (env.envErrors && env.switches.isEmpty) with
    | true => rfl
    | false =>
      cases (env.envErrors && (env.switches.lookup x.lit).isNone) with
      | true => rfl
      | false =>
        simp only [Bool.false_eq_true, if_false]
        cases elabPCases env sn σ B C cases [] sid cid with
        | error e => rfl
        | ok q =>
          simp only [peEx_ok]
          rw [show selectCase env (List.map (fun p => (p.fst, peL p.snd.fst, peImp p.snd.snd)) q.fst)
              (swVal env x.lit) = _ from
            selectCase_map (fun r : List Stmt × ImpData => (peL r.1, peImp r.2)) env q.1 (swVal env x.lit)]
          cases selectCase env q.1 (swVal env x.lit) with
          | some r => rfl
          | none => cases env.envErrors <;> rfl
theorem elabL_eL (env : Env) (sn : String) (σ : String → String) :
    ∀ (b : List SStmt) (B C : List Nat) (last : Bool) (sid cid : Nat),
      elabL env sn σ B C last (eL b) sid cid = peR4 (elabL env sn σ B C last b sid cid)
  | [], B, C, last, sid, cid => rfl
  | x :: r, B, C, last, sid, cid => by
    simp only [eL, elabL, isEmpty_eL, elabS_eS env sn σ x]
    cases elabS env sn σ B C (r.isEmpty && last) x sid cid with
    | error e => rfl
    | ok q =>
      simp only [peEx_ok, elabL_eL env sn σ r]
      cases elabL env sn σ B C last r q.2.2.1 q.2.2.2 with
      | error e => rfl
      | ok q1 => simp only [peEx_ok, peL_append, peImp_add]
theorem elabElifs_eElifs (env : Env) (sn : String) (σ : String → String) :
    ∀ (es : List SElif) (B C : List Nat) (sid cid : Nat),
      elabElifs env sn σ B C (eElifs es) sid cid =
        peEx (fun r => (peElifs r.1, peImp r.2.1, r.2.2)) (elabElifs env sn σ B C es sid cid)
  | [], B, C, sid, cid => rfl
  | .mk e lp c rp lb body rb :: r, B, C, sid, cid => by
    simp only [eElifs, eElif, elabElifs, elabCond_eCond]
    cases elabCond env σ c cid with
    | error e => rfl
    | ok q =>
      simp only [peEx_ok, elabL_eL env sn σ body]
      cases elabL env sn σ B C true body sid q.2 with
      | error e => rfl
      | ok q1 =>
        simp only [peEx_ok, elabElifs_eElifs env sn σ r]
        cases elabElifs env sn σ B C r q1.2.2.1 q1.2.2.2 with
        | error e => rfl
        | ok q2 => simp only [peEx_ok, peImp_add, peElifs]
theorem elabElse_eElse (env : Env) (sn : String) (σ : String → String) :
    ∀ (e : SElse) (B C : List Nat) (sid cid : Nat),
      elabElse env sn σ B C (eElse e) sid cid =
        peEx (fun r => (peElse r.1, peImp r.2.1, r.2.2)) (elabElse env sn σ B C e sid cid)
  | .none, B, C, sid, cid => rfl
  | .some e lb body rb, B, C, sid, cid => by
    simp only [eElse, elabElse, elabL_eL env sn σ body]
    cases elabL env sn σ B C true body sid cid with
    | error e => rfl
    | ok q1 => rfl
theorem elabCases_eCases (env : Env) (sn : String) (σ : String → String) :
    ∀ (cs : List SCase) (B C : List Nat) (seen : List String) (hd : Bool) (sid cid : Nat),
      elabCases env sn σ B C (eCases cs) seen hd sid cid =
        peEx (fun r => (peCases r.1, peImp r.2.1, r.2.2)) (elabCases env sn σ B C cs seen hd sid cid)
  | [], B, C, seen, hd, sid, cid => rfl
  | .case c vs colon body :: r, B, C, seen, hd, sid, cid => by
    simp only [eCases, eCase, elabCases, caseValue_erase, isEmpty_eCases]
    split
    · rfl
    · simp only [elabL_eL env sn σ body]
      cases elabL env sn σ B C r.isEmpty body sid cid with
      | error e => rfl
      | ok q1 =>
        simp only [peEx_ok, elabCases_eCases env sn σ r]
        cases elabCases env sn σ B C r (caseValue σ vs :: seen) hd q1.2.2.1 q1.2.2.2 with
        | error e => rfl
        | ok q2 => simp only [peEx_ok, peImp_add, peCases, caseTok_erase]
  | .dflt d colon body :: r, B, C, seen, hd, sid, cid => by
    simp only [eCases, eCase, elabCases, isEmpty_eCases]
    split
    · rfl
    · simp only [elabL_eL env sn σ body]
      cases elabL env sn σ B C r.isEmpty body sid cid with
      | error e => rfl
      | ok q1 =>
        simp only [peEx_ok, elabCases_eCases env sn σ r]
        cases elabCases env sn σ B C r seen true q1.2.2.1 q1.2.2.2 with
        | error e => rfl
        | ok q2 => simp only [peEx_ok, peImp_add, peCases, pe_default]
theorem elabPCases_ePCases (env : Env) (sn : String) (σ : String → String) :
    ∀ (cs : List SPCase) (B C : List Nat) (acc : List (String × List Stmt × ImpData)) (sid cid : Nat),
      elabPCases env sn σ B C (ePCases cs) (peTab acc) sid cid =
        peEx (fun r => (peTab r.1, r.2)) (elabPCases env sn σ B C cs acc sid cid)
  | [], B, C, acc, sid, cid => rfl
  | .colon key c x :: r, B, C, acc, sid, cid => by
    simp only [ePCases, ePCase, elabPCases, isEmpty_ePCases, elabS_eS env sn σ x]
    cases elabS env sn σ B C r.isEmpty x sid cid with
    | error e => rfl
    | ok q =>
      simp only [peEx_ok, erase_lit']
      exact elabPCases_ePCases env sn σ r B C ((key.lit, q.1, q.2.1) :: acc) q.2.2.1 q.2.2.2
  | .brace key lb body rb :: r, B, C, acc, sid, cid => by
    simp only [ePCases, ePCase, elabPCases, elabL_eL env sn σ body]
    cases elabL env sn σ B C true body sid cid with
    | error e => rfl
    | ok q =>
      simp only [peEx_ok, erase_lit']
      exact elabPCases_ePCases env sn σ r B C ((key.lit, q.1, q.2.1) :: acc) q.2.2.1 q.2.2.2
end

end Pory.L2
