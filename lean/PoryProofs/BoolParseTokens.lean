import PoryProofs.BoolParse
/-
Helpers for C02 (precedence half), part 3: from the position-decorated reference grammar to plain
token sequences. If a token list `ts` reads like a printed expression `g` (same token types and
literals, arbitrary positions) then `ts` *is* the print of a re-decorated `g'` with the same value.
-/
namespace Pory.C02P
open Pory Pory.Parser Pory.Spec

/-- Forget the positions of a token. -/
def erase (t : Tok) : Tok := tk t.type t.lit
/-- The positions of a token. -/
def posOf (t : Tok) : TPos := ⟨t.line, t.startChar, t.startUtf8, t.endLine, t.endChar, t.endUtf8⟩

/-- `ts` and `us` are the same text: same token types and literals. -/
def SameText (ts us : List Tok) : Prop := ts.map erase = us.map erase

@[simp] theorem erase_tkp (p : TPos) (ty : TT) (l : String) : erase (tkp p ty l) = tk ty l := rfl

theorem tok_of_erase {t : Tok} {ty : TT} {l : String} (h : erase t = tk ty l) :
    tkp (posOf t) ty l = t := by
  cases t
  simp only [erase, tk, tkp, Tok.mk.injEq] at h
  obtain ⟨rfl, rfl, -⟩ := h
  rfl

theorem leaf_retok (lf : Leaf) (ts : List Tok) (h : SameText ts (printLeaf lf)) :
    ∃ lf', printLeaf lf' = ts ∧ ∀ σ w hh, evalLeaf σ w hh lf' = evalLeaf σ w hh lf := by
  unfold SameText at h
  cases lf with
  | flagBare ps d x =>
    cases d <;>
    · simp [printLeaf, kindTok, operandToks, List.map_eq_cons_iff] at h
      obtain ⟨t0, l0, rfl, h0, t1, l1, rfl, h1, t2, l2, rfl, h2, t3, rfl, h3⟩ := h
      refine ⟨.flagBare (fun k => posOf ([t0, t1, t2, t3].getD k default)) _ x, ?_, fun _ _ _ => rfl⟩
      simp [printLeaf, kindTok, operandToks, tok_of_erase h0, tok_of_erase h1, tok_of_erase h2,
        tok_of_erase h3]
  | flagNot ps d x =>
    cases d <;>
    · simp [printLeaf, kindTok, operandToks, List.map_eq_cons_iff] at h
      obtain ⟨t0, l0, rfl, h0, t1, l1, rfl, h1, t2, l2, rfl, h2, t3, l3, rfl, h3, t4, rfl, h4⟩ := h
      refine ⟨.flagNot (fun k => posOf ([t0, t1, t2, t3, t4].getD k default)) _ x, ?_, fun _ _ _ => rfl⟩
      simp [printLeaf, kindTok, operandToks, tok_of_erase h0, tok_of_erase h1, tok_of_erase h2,
        tok_of_erase h3, tok_of_erase h4]
  | flagCmp ps d x eqv tv =>
    cases d <;>
    · simp [printLeaf, kindTok, operandToks, List.map_eq_cons_iff] at h
      obtain ⟨t0, l0, rfl, h0, t1, l1, rfl, h1, t2, l2, rfl, h2, t3, l3, rfl, h3, t4, l4, rfl, h4,
        t5, rfl, h5⟩ := h
      refine ⟨.flagCmp (fun k => posOf ([t0, t1, t2, t3, t4, t5].getD k default)) _ x eqv tv, ?_,
        fun _ _ _ => rfl⟩
      simp [printLeaf, kindTok, operandToks, tok_of_erase h0, tok_of_erase h1, tok_of_erase h2,
        tok_of_erase h3, tok_of_erase h4, tok_of_erase h5]
  | varBare ps x =>
    simp [printLeaf, operandToks, List.map_eq_cons_iff] at h
    obtain ⟨t0, l0, rfl, h0, t1, l1, rfl, h1, t2, l2, rfl, h2, t3, rfl, h3⟩ := h
    refine ⟨.varBare (fun k => posOf ([t0, t1, t2, t3].getD k default)) x, ?_, fun _ _ _ => rfl⟩
    simp [printLeaf, operandToks, tok_of_erase h0, tok_of_erase h1, tok_of_erase h2,
      tok_of_erase h3]
  | varNot ps x =>
    simp [printLeaf, operandToks, List.map_eq_cons_iff] at h
    obtain ⟨t0, l0, rfl, h0, t1, l1, rfl, h1, t2, l2, rfl, h2, t3, l3, rfl, h3, t4, rfl, h4⟩ := h
    refine ⟨.varNot (fun k => posOf ([t0, t1, t2, t3, t4].getD k default)) x, ?_, fun _ _ _ => rfl⟩
    simp [printLeaf, operandToks, tok_of_erase h0, tok_of_erase h1, tok_of_erase h2,
      tok_of_erase h3, tok_of_erase h4]
  | varCmp ps x op n =>
    simp [printLeaf, operandToks, Val.tok, List.map_eq_cons_iff] at h
    obtain ⟨t0, l0, rfl, h0, t1, l1, rfl, h1, t2, l2, rfl, h2, t3, l3, rfl, h3, t4, l4, rfl, h4,
      t5, rfl, h5⟩ := h
    refine ⟨.varCmp (fun k => posOf ([t0, t1, t2, t3, t4, t5].getD k default)) x op n, ?_,
      fun _ _ _ => rfl⟩
    simp [printLeaf, operandToks, Val.tok, tok_of_erase h0, tok_of_erase h1, tok_of_erase h2,
      tok_of_erase h3, tok_of_erase h4, tok_of_erase h5]

mutual
theorem or_retok (g : SOr) (ts : List Tok) (h : SameText ts (printOr g)) :
    ∃ g', printOr g' = ts ∧ ∀ σ w hh, evalOr σ w hh g' = evalOr σ w hh g := by
  cases g with
  | one a =>
    obtain ⟨a', h1, h2⟩ := and_retok a ts (by simpa [printOr] using h)
    exact ⟨.one a', by simpa [printOr] using h1, fun σ w hh => by simp [evalOr, h2]⟩
  | more a p r =>
    unfold SameText at h
    simp only [printOr, List.map_append, List.map_cons, List.map_eq_append_iff,
      List.map_eq_cons_iff, erase_tkp] at h
    obtain ⟨l1, l2, rfl, ha, t, l3, rfl, ht, hr⟩ := h
    obtain ⟨a', h1, h2⟩ := and_retok a l1 ha
    obtain ⟨r', h3, h4⟩ := or_retok r l3 hr
    exact ⟨.more a' (posOf t) r', by simp [printOr, h1, h3, tok_of_erase ht],
      fun σ w hh => by simp [evalOr, h2, h4]⟩
theorem and_retok (a : SAnd) (ts : List Tok) (h : SameText ts (printAnd a)) :
    ∃ a', printAnd a' = ts ∧ ∀ σ w hh, evalAnd σ w hh a' = evalAnd σ w hh a := by
  cases a with
  | one u =>
    obtain ⟨u', h1, h2⟩ := un_retok u ts (by simpa [printAnd] using h)
    exact ⟨.one u', by simpa [printAnd] using h1, fun σ w hh => by simp [evalAnd, h2]⟩
  | more u p r =>
    unfold SameText at h
    simp only [printAnd, List.map_append, List.map_cons, List.map_eq_append_iff,
      List.map_eq_cons_iff, erase_tkp] at h
    obtain ⟨l1, l2, rfl, hu, t, l3, rfl, ht, hr⟩ := h
    obtain ⟨u', h1, h2⟩ := un_retok u l1 hu
    obtain ⟨r', h3, h4⟩ := and_retok r l3 hr
    exact ⟨.more u' (posOf t) r', by simp [printAnd, h1, h3, tok_of_erase ht],
      fun σ w hh => by simp [evalAnd, h2, h4]⟩
theorem un_retok (u : SUn) (ts : List Tok) (h : SameText ts (printUn u)) :
    ∃ u', printUn u' = ts ∧ ∀ σ w hh, evalUn σ w hh u' = evalUn σ w hh u := by
  cases u with
  | leaf lf =>
    obtain ⟨lf', h1, h2⟩ := leaf_retok lf ts (by simpa [printUn] using h)
    exact ⟨.leaf lf', by simpa [printUn] using h1, fun σ w hh => by simp [evalUn, h2]⟩
  | paren n pn pl pr e =>
    unfold SameText at h
    cases n with
    | false =>
      simp only [printUn, Bool.false_eq_true, if_false, List.nil_append, List.map_append,
        List.map_cons, List.map_nil, List.map_eq_append_iff, List.map_eq_cons_iff, erase_tkp] at h
      obtain ⟨t1, l1, rfl, h1, l2, l3, rfl, he, t2, l4, rfl, h2, hnil⟩ := h
      obtain ⟨e', h3, h4⟩ := or_retok e l2 he
      have : l4 = [] := by simpa using hnil
      subst this
      exact ⟨.paren false {} (posOf t1) (posOf t2) e',
        by simp [printUn, h3, tok_of_erase h1, tok_of_erase h2], fun σ w hh => by simp [evalUn, h4]⟩
    | true =>
      simp only [printUn, if_true, List.cons_append, List.nil_append, List.map_append,
        List.map_cons, List.map_nil, List.map_eq_append_iff, List.map_eq_cons_iff, erase_tkp] at h
      obtain ⟨t0, l0, rfl, h0, t1, l1, rfl, h1, l2, l3, rfl, he, t2, l4, rfl, h2, hnil⟩ := h
      obtain ⟨e', h3, h4⟩ := or_retok e l2 he
      have : l4 = [] := by simpa using hnil
      subst this
      exact ⟨.paren true (posOf t0) (posOf t1) (posOf t2) e',
        by simp [printUn, h3, tok_of_erase h0, tok_of_erase h1, tok_of_erase h2],
        fun σ w hh => by simp [evalUn, h4]⟩
end

end Pory.C02P
