import PoryProofs.ProgramIdsE
import PoryProofs.ProgramConstE
import PoryProofs.ProgramFrameMS
import PoryProofs.ProgramParseE
/-
P2f helpers (ProgramFrame / ProgramFrameMS re-run over the file grammar `P2e.STopE`): the frame lemma of the file
elaboration for files whose `script` statements and inline `mapscripts` scripts carry bodies of P1c's grammar.

* `body_frameE`     : a P1c body elaborated from two agreeing contexts (`elabL_shiftE`, `elabL_idsE`, `elabL_congrE`);
* `rows_frameE`, `entries_frameE` : the row / entry loops of `mapscriptsE` (text of ProgramFrameMS over `SRowE` / `SEntryE`);
* `StepUsesE`, `UsesE`, `stepTopE_frame`, `elabTopsE_frame` : one statement / a file. A `base` statement (grammar of
  P2d) is read through its hand-selected plain statement `P2d.selTop` (when it has none it fails with a located
  error that does not depend on the state: `selTop_none_errU`; this is where `env.envErrors = true` is used).
-/
namespace Pory.P2f
open Pory Pory.Parser Pory.C02P Pory.TopParse Pory.P2 Pory.P2b Pory.P2d Pory.P2e
open Pory.StmtG (Ctx ctxOf)
open Pory.MapScriptsParse (collVal rowName entryName)
open Pory.C12c

/-! ### a body of P1c from two agreeing contexts -/

theorem elabE_idsE (env : Env) (sn : String) (c : Ctx) (b : List P1c.SStmt) (stmts : List Stmt) (imp : ImpData)
    (c' : Ctx) (h : P1c.elabE env sn c b = .ok (stmts, imp, c')) :
    c.nextCmdId ≤ c'.nextCmdId ∧ RelL (Rid c.nextCmdId c'.nextCmdId) stmts stmts ∧
      relImp (Rid c.nextCmdId c'.nextCmdId) imp imp := by
  unfold P1c.elabE at h
  cases hl : P1c.elabL env sn (substC c.consts) c.breakStack c.continueStack true b c.nextSid c.nextCmdId with
  | error e => simp [hl] at h
  | ok q =>
    obtain ⟨a, m, s1, c1⟩ := q
    simp only [hl, Except.ok.injEq, Prod.mk.injEq] at h
    obtain ⟨rfl, rfl, rfl⟩ := h
    exact elabL_idsE env sn _ b _ _ _ _ _ _ _ _ _ hl

theorem elabE_frameCE (env : Env) (sn : String) {D : Dom} {dc ds : Nat} {a b : Ctx} (h : AgreeC D dc ds a b)
    (body : List P1c.SStmt) (hl : ∀ tok ∈ P1c.printL body, D.lit tok.lit) :
    P1c.elabE env sn b body =
      match P1c.elabE env sn a body with
      | .error e => .error e
      | .ok (stmts, imp, c') =>
        .ok (mapL (· + dc) (· + ds) stmts, mapImp (· + dc) imp,
             { b with nextSid := c'.nextSid + ds, nextCmdId := c'.nextCmdId + dc }) := by
  unfold P1c.elabE
  simp only [h.ba, h.ca, h.bb, h.cb, h.cid, h.sid]
  rw [elabL_congrE env sn body (substC_agreeC h hl)]
  have hs := elabL_shiftE env sn (substC a.consts) ds dc body [] [] true a.nextSid a.nextCmdId
  simp only [List.map_nil] at hs
  rw [hs]
  cases P1c.elabL env sn (substC a.consts) [] [] true body a.nextSid a.nextCmdId with
  | error e => rfl
  | ok q => obtain ⟨x, m, s1, c1⟩ := q; rfl

/-- A body of P1c elaborated from two agreeing contexts: the same error, or the same statements / implicit data up
to the shift, the resulting contexts agree again. -/
theorem body_frameE (env : Env) (sn : String) {D : Dom} {dc ds : Nat} {a b : Ctx} (h : AgreeC D dc ds a b)
    (body : List P1c.SStmt) (hl : ∀ tok ∈ P1c.printL body, D.lit tok.lit) :
    match P1c.elabE env sn a body with
    | .error e => P1c.elabE env sn b body = .error e
    | .ok (stmts, imp, a') =>
      ∃ stmts' imp' b', P1c.elabE env sn b body = .ok (stmts', imp', b') ∧ AgreeC D dc ds a' b' ∧
        a.nextCmdId ≤ a'.nextCmdId ∧ RelL (Rb dc ds a.nextCmdId a'.nextCmdId) stmts' stmts ∧
        relImp (Rb dc ds a.nextCmdId a'.nextCmdId) imp' imp := by
  rw [elabE_frameCE env sn h body hl]
  cases he : P1c.elabE env sn a body with
  | error e => rfl
  | ok q =>
    obtain ⟨stmts, imp, a'⟩ := q
    obtain ⟨hle, hr, hi⟩ := elabE_idsE env sn a body stmts imp a' he
    obtain ⟨h1, h2, h3⟩ := P1c.elabE_stacks he
    refine ⟨_, _, _, rfl, ⟨?_, ?_, ?_, h.bb, h.cb, rfl, rfl⟩, hle, RelL.shift dc ds _ _ hr,
      relImp_shift dc ds _ _ hi⟩
    · rw [h3]; exact h.consts
    · rw [h1]; exact h.ba
    · rw [h2]; exact h.ca

/-! ### rows and entries from two agreeing contexts -/

theorem rows_frameE (env : Env) (ms ty : String) {D : Dom} {dc ds : Nat} :
    ∀ (rows : List SRowE) (i : Nat) {a b : Ctx}, AgreeC D dc ds a b →
      (∀ tok ∈ printRowsE rows, D.lit tok.lit) →
      match elabRowsE env ms ty rows i a with
      | .error e => elabRowsE env ms ty rows i b = .error e
      | .ok (es, imp, a') =>
        ∃ es' imp' b', elabRowsE env ms ty rows i b = .ok (es', imp', b') ∧ AgreeC D dc ds a' b' ∧
          a.nextCmdId ≤ a'.nextCmdId ∧ All2 (RelTE (Rb dc ds a.nextCmdId a'.nextCmdId)) es' es ∧
          relImp (Rb dc ds a.nextCmdId a'.nextCmdId) imp' imp
  | [], i, a, b, hA, _ => by
    simp only [elabRowsE]
    exact ⟨_, _, _, rfl, hA, Nat.le_refl _, trivial, relImp.nil _⟩
  | .plain cs comma vs colon name :: rs, i, a, b, hA, hl => by
    have hcs : collVal b.consts cs = collVal a.consts cs :=
      collVal_agree hA (fun tok ht => hl tok (by simp [printRowsE, printRowE, ht]))
    have hvs : collVal b.consts vs = collVal a.consts vs :=
      collVal_agree hA (fun tok ht => hl tok (by simp [printRowsE, printRowE, ht]))
    have hct : condTok b.consts cs comma = condTok a.consts cs comma := by unfold condTok; rw [hcs]
    have ih := rows_frameE env ms ty rs (i + 1) hA (fun tok ht => hl tok (by simp [printRowsE, ht]))
    simp only [elabRowsE, hcs, hvs, hct]
    by_cases h1 : collVal a.consts cs = ""
    · simp only [h1, if_true]
    · by_cases h2 : collVal a.consts vs = ""
      · simp only [h1, h2, if_true, if_false]
      · simp only [h1, h2, if_false]
        cases hr : elabRowsE env ms ty rs (i + 1) a with
        | error e => rw [hr] at ih; simp only [ih]
        | ok q =>
          obtain ⟨es, imp, a'⟩ := q
          rw [hr] at ih
          obtain ⟨es', imp', b', hb, hA', hle, hes, himp⟩ := ih
          simp only [hb]
          exact ⟨_, _, _, rfl, hA', hle, ⟨⟨rfl, rfl, rfl, trivial⟩, hes⟩, himp⟩
  | .inline cs comma vs lb body rb :: rs, i, a, b, hA, hl => by
    have hcs : collVal b.consts cs = collVal a.consts cs :=
      collVal_agree hA (fun tok ht => hl tok (by simp [printRowsE, printRowE, ht]))
    have hvs : collVal b.consts vs = collVal a.consts vs :=
      collVal_agree hA (fun tok ht => hl tok (by simp [printRowsE, printRowE, ht]))
    have hct : condTok b.consts cs comma = condTok a.consts cs comma := by unfold condTok; rw [hcs]
    have hbf := body_frameE env (rowName ms ty i) hA body
      (fun tok ht => hl tok (by simp [printRowsE, printRowE, P1c.printStmts, ht]))
    simp only [elabRowsE, hcs, hvs, hct]
    by_cases h1 : collVal a.consts cs = ""
    · simp only [h1, if_true]
    · by_cases h2 : collVal a.consts vs = ""
      · simp only [h1, h2, if_true, if_false]
      · simp only [h1, h2, if_false]
        cases he : P1c.elabE env (rowName ms ty i) a body with
        | error e => rw [he] at hbf; simp only [hbf]
        | ok q0 =>
          obtain ⟨stmts, bimp, a1⟩ := q0
          rw [he] at hbf
          obtain ⟨stmts', bimp', b1, hb1, hA1, hle1, hrl, hri⟩ := hbf
          simp only [hb1]
          have ih := rows_frameE env ms ty rs (i + 1) hA1 (fun tok ht => hl tok (by simp [printRowsE, ht]))
          cases hr : elabRowsE env ms ty rs (i + 1) a1 with
          | error e => rw [hr] at ih; simp only [ih]
          | ok q =>
            obtain ⟨es, imp, a'⟩ := q
            rw [hr] at ih
            obtain ⟨es', imp', b', hb, hA', hle2, hes, himp⟩ := ih
            simp only [hb]
            have s1 : (Rb dc ds a.nextCmdId a1.nextCmdId).Sub (Rb dc ds a.nextCmdId a'.nextCmdId) :=
              Rb_sub (Nat.le_refl _) hle2
            have s2 : (Rb dc ds a1.nextCmdId a'.nextCmdId).Sub (Rb dc ds a.nextCmdId a'.nextCmdId) :=
              Rb_sub hle1 (Nat.le_refl _)
            exact ⟨_, _, _, rfl, hA', Nat.le_trans hle1 hle2,
              ⟨⟨rfl, rfl, rfl, ⟨rfl, rfl, rfl, RelL.mono s1 hrl⟩⟩, All2.imp (fun _ _ h => h.mono s2) hes⟩,
              relImp.add (hri.mono s1) (himp.mono s2)⟩

theorem entries_frameE (env : Env) (ms : String) {D : Dom} {dc ds : Nat} :
    ∀ (es : List SEntryE) {a b : Ctx}, AgreeC D dc ds a b →
      (∀ tok ∈ printEntriesE es, D.lit tok.lit) →
      match elabEntriesE env ms es a with
      | .error e => elabEntriesE env ms es b = .error e
      | .ok (mss, tbs, imp, a') =>
        ∃ mss' tbs' imp' b', elabEntriesE env ms es b = .ok (mss', tbs', imp', b') ∧ AgreeC D dc ds a' b' ∧
          a.nextCmdId ≤ a'.nextCmdId ∧ All2 (RelMS (Rb dc ds a.nextCmdId a'.nextCmdId)) mss' mss ∧
          All2 (RelTbl (Rb dc ds a.nextCmdId a'.nextCmdId)) tbs' tbs ∧
          relImp (Rb dc ds a.nextCmdId a'.nextCmdId) imp' imp
  | [], a, b, hA, _ => by
    simp only [elabEntriesE]
    exact ⟨_, _, _, _, rfl, hA, Nat.le_refl _, trivial, trivial, relImp.nil _⟩
  | .plain ty colon name :: es, a, b, hA, hl => by
    have ih := entries_frameE env ms es hA (fun tok ht => hl tok (by simp [printEntriesE, ht]))
    simp only [elabEntriesE]
    cases hr : elabEntriesE env ms es a with
    | error e => rw [hr] at ih; simp only [ih]
    | ok q =>
      obtain ⟨mss, tbs, imp, a'⟩ := q
      rw [hr] at ih
      obtain ⟨mss', tbs', imp', b', hb, hA', hle, hms, htb, himp⟩ := ih
      simp only [hb]
      exact ⟨_, _, _, _, rfl, hA', hle, ⟨⟨rfl, rfl, trivial⟩, hms⟩, htb, himp⟩
  | .inline ty lb body rb :: es, a, b, hA, hl => by
    have hbf := body_frameE env (entryName ms ty.lit) hA body
      (fun tok ht => hl tok (by simp [printEntriesE, printEntryE, P1c.printStmts, ht]))
    simp only [elabEntriesE]
    cases he : P1c.elabE env (entryName ms ty.lit) a body with
    | error e => rw [he] at hbf; simp only [hbf]
    | ok q0 =>
      obtain ⟨stmts, bimp, a1⟩ := q0
      rw [he] at hbf
      obtain ⟨stmts', bimp', b1, hb1, hA1, hle1, hrl, hri⟩ := hbf
      simp only [hb1]
      have ih := entries_frameE env ms es hA1 (fun tok ht => hl tok (by simp [printEntriesE, ht]))
      cases hr : elabEntriesE env ms es a1 with
      | error e => rw [hr] at ih; simp only [ih]
      | ok q =>
        obtain ⟨mss, tbs, imp, a'⟩ := q
        rw [hr] at ih
        obtain ⟨mss', tbs', imp', b', hb, hA', hle2, hms, htb, himp⟩ := ih
        simp only [hb]
        have s1 : (Rb dc ds a.nextCmdId a1.nextCmdId).Sub (Rb dc ds a.nextCmdId a'.nextCmdId) :=
          Rb_sub (Nat.le_refl _) hle2
        have s2 : (Rb dc ds a1.nextCmdId a'.nextCmdId).Sub (Rb dc ds a.nextCmdId a'.nextCmdId) :=
          Rb_sub hle1 (Nat.le_refl _)
        exact ⟨_, _, _, _, rfl, hA', Nat.le_trans hle1 hle2,
          ⟨⟨rfl, rfl, ⟨rfl, rfl, rfl, RelL.mono s1 hrl⟩⟩, All2.imp (fun _ _ h => h.mono s2) hms⟩,
          All2.imp (fun _ _ h => h.mono s2) htb, relImp.add (hri.mono s1) (himp.mono s2)⟩
  | .table ty lbr rows rbr :: es, a, b, hA, hl => by
    have hrf := rows_frameE env ms ty.lit rows 0 hA
      (fun tok ht => hl tok (by simp [printEntriesE, printEntryE, ht]))
    simp only [elabEntriesE]
    cases he : elabRowsE env ms ty.lit rows 0 a with
    | error e => rw [he] at hrf; simp only [hrf]
    | ok q0 =>
      obtain ⟨entries, rimp, a1⟩ := q0
      rw [he] at hrf
      obtain ⟨entries', rimp', b1, hb1, hA1, hle1, hre, hri⟩ := hrf
      simp only [hb1]
      have ih := entries_frameE env ms es hA1 (fun tok ht => hl tok (by simp [printEntriesE, ht]))
      cases hr : elabEntriesE env ms es a1 with
      | error e => rw [hr] at ih; simp only [ih]
      | ok q =>
        obtain ⟨mss, tbs, imp, a'⟩ := q
        rw [hr] at ih
        obtain ⟨mss', tbs', imp', b', hb, hA', hle2, hms, htb, himp⟩ := ih
        simp only [hb]
        have s1 : (Rb dc ds a.nextCmdId a1.nextCmdId).Sub (Rb dc ds a.nextCmdId a'.nextCmdId) :=
          Rb_sub (Nat.le_refl _) hle2
        have s2 : (Rb dc ds a1.nextCmdId a'.nextCmdId).Sub (Rb dc ds a.nextCmdId a'.nextCmdId) :=
          Rb_sub hle1 (Nat.le_refl _)
        exact ⟨_, _, _, _, rfl, hA', Nat.le_trans hle1 hle2, All2.imp (fun _ _ h => h.mono s2) hms,
          ⟨⟨rfl, rfl, All2.imp (fun _ _ h => h.mono s1) hre⟩, All2.imp (fun _ _ h => h.mono s2) htb⟩,
          relImp.add (hri.mono s1) (himp.mono s2)⟩

/-! ### the frame lemma for one statement and for a file -/

/-- A statement of P2d's grammar without hand-selected form fails with ONE located error, whatever the state
(environment errors on) — `P2d.selTop_none_err` with the quantifiers the other way round. -/
theorem selTop_none_errU (env : Env) (henv : env.envErrors = true) (t : STopP) (h : selTop env t = none) :
    ∃ e, ∀ s, stepTopP env t s = .error e := by
  cases t with
  | base t => simp [selTop] at h
  | movementP kw md name lb items rb =>
    simp only [selTop] at h
    cases he : elItems env items with
    | error e => exact ⟨e, fun s => by simp [stepTopP, he]⟩
    | ok out => rw [he] at h; cases h
  | martP kw md name lb items rb =>
    simp only [selTop] at h
    cases he : elItems env items with
    | error e => exact ⟨e, fun s => by simp [stepTopP, he]⟩
    | ok out => rw [he] at h; cases h
  | textP kw md name lb b rb =>
    simp only [selTop] at h
    cases he : elBody env b with
    | error e => exact ⟨e, fun s => by simp [stepTopP, he]⟩
    | ok v =>
      rw [he] at h
      dsimp only at h
      rcases elBody_term he with ht | ⟨hf, _⟩
      · rw [if_pos ht] at h; cases h
      · rw [henv] at hf; cases hf

/-- The literals of the tokens of `t` and the implicit data of its scripts stay inside the domain. A statement of
P2d's grammar is read on its hand-selected plain statement. -/
def StepUsesE (env : Env) (D : Dom) (t : STopE) (s : PState) : Prop :=
  match t with
  | .base t =>
      match selTop env t with
      | some m => StepUsesM env D m s
      | none => True
  | .scriptE kw md name lb body rb =>
      (∀ tok ∈ printTopE (.scriptE kw md name lb body rb), D.lit tok.lit) ∧
      match P1c.elabE env name.lit (ctxOf s) body with
      | .ok (_, imp, _) => ImpUses D imp
      | .error _ => True
  | .mapscriptsE kw md name lb es rb =>
      (∀ tok ∈ printTopE (.mapscriptsE kw md name lb es rb), D.lit tok.lit) ∧
      match elabEntriesE env name.lit es (ctxOf s) with
      | .ok (_, _, imp, _) => ImpUses D imp
      | .error _ => True

def UsesE (env : Env) (D : Dom) : List STopE → PState → Prop
  | [], _ => True
  | t :: r, s =>
      StepUsesE env D t s ∧
        match stepTopE env t s with
        | .ok (_, s1) => UsesE env D r s1
        | .error _ => True

theorem stepTopE_frame (env : Env) (henv : env.envErrors = true) (D : Dom) (dc ds : Nat) (t : STopE) {a b : PState}
    (hA : Agree D dc ds a b) (hU : StepUsesE env D t a) :
    match stepTopE env t a with
    | .error e => stepTopE env t b = .error e
    | .ok (o, a1) =>
      ∃ o' b1, stepTopE env t b = .ok (o', b1) ∧ Agree D dc ds a1 b1 ∧ a.nextCmdId ≤ a1.nextCmdId ∧
        All2 (RelTopM (Rb dc ds a.nextCmdId a1.nextCmdId)) (optTop o') (optTop o) ∧
        Delta (Rb dc ds a.nextCmdId a1.nextCmdId) a b a1 b1 := by
  cases t with
  | base t =>
    simp only [stepTopE]
    cases hsel : selTop env t with
    | none =>
      obtain ⟨e, he⟩ := selTop_none_errU env henv t hsel
      simp only [he a, he b]
    | some m =>
      simp only [StepUsesE, hsel] at hU
      rw [stepTopP_sel env t m hsel a, stepTopP_sel env t m hsel b]
      exact stepTopM_frame env D dc ds m hA hU
  | scriptE kw md name lb body rb =>
    obtain ⟨hlit, hU⟩ := hU
    have hbf := body_frameE env name.lit (agree_toC hA) body
      (fun tok ht => hlit tok (by simp [printTopE, P1c.printStmts, ht]))
    simp only [stepTopE]
    cases he : P1c.elabE env name.lit (ctxOf a) body with
    | error e => rw [he] at hbf; simp only [hbf]
    | ok q =>
      obtain ⟨stmts, imp, a'⟩ := q
      rw [he] at hbf hU
      simp only at hU
      obtain ⟨stmts', imp', b', hb, hA', hle, hrl, himp⟩ := hbf
      have hlo : (ctxOf a).nextCmdId = a.nextCmdId := rfl
      rw [hlo] at hle hrl himp
      have hH0 : Hoist D { a with nextSid := a'.nextSid, nextCmdId := a'.nextCmdId }
          { b with nextSid := b'.nextSid, nextCmdId := b'.nextCmdId } :=
        ⟨hA.hoist.ts, hA.hoist.tc, hA.hoist.ms, hA.hoist.mc⟩
      obtain ⟨hH1, hD1⟩ := addImp_frame (R := Rb dc ds a.nextCmdId a'.nextCmdId) hH0 himp hU
      have hhi : (afterScript a imp a').nextCmdId = a'.nextCmdId := by
        unfold afterScript; rw [addImp_nextCmdId]
      simp only [hb]
      refine ⟨_, _, rfl, ?_, ?_, ?_, ?_⟩
      · unfold afterScript
        exact ⟨by rw [addImp_constants, addImp_constants]; exact hA.consts,
          by rw [addImp_breakStack]; exact hA.ba, by rw [addImp_continueStack]; exact hA.ca,
          by rw [addImp_breakStack]; exact hA.bb, by rw [addImp_continueStack]; exact hA.cb,
          by rw [addImp_nextCmdId, addImp_nextCmdId]; exact hA'.cid,
          by rw [addImp_nextSid, addImp_nextSid]; exact hA'.sid, hH1⟩
      · rw [hhi]; exact hle
      · rw [hhi]
        exact ⟨.base (.script rfl rfl rfl hrl), trivial⟩
      · rw [hhi]
        obtain ⟨d1, d2, d3, d4⟩ := hD1
        exact ⟨d1, d2, d3, d4⟩
  | mapscriptsE kw md name lb es rb =>
    obtain ⟨hlit, hU⟩ := hU
    have hef := entries_frameE env name.lit es (agree_toC hA)
      (fun tok ht => hlit tok (by simp [printTopE, ht]))
    simp only [stepTopE]
    cases he : elabEntriesE env name.lit es (ctxOf a) with
    | error e => rw [he] at hef; simp only [hef]
    | ok q =>
      obtain ⟨mss, tbs, imp, a'⟩ := q
      rw [he] at hef hU
      simp only at hU
      obtain ⟨mss', tbs', imp', b', hb, hA', hle, hms, htb, himp⟩ := hef
      have hlo : (ctxOf a).nextCmdId = a.nextCmdId := rfl
      rw [hlo] at hle hms htb himp
      have hH0 : Hoist D { a with nextSid := a'.nextSid, nextCmdId := a'.nextCmdId }
          { b with nextSid := b'.nextSid, nextCmdId := b'.nextCmdId } :=
        ⟨hA.hoist.ts, hA.hoist.tc, hA.hoist.ms, hA.hoist.mc⟩
      obtain ⟨hH1, hD1⟩ := addImp_frame (R := Rb dc ds a.nextCmdId a'.nextCmdId) hH0 himp hU
      have hhi : (afterScript a imp a').nextCmdId = a'.nextCmdId := by
        unfold afterScript; rw [addImp_nextCmdId]
      simp only [hb]
      refine ⟨_, _, rfl, ?_, ?_, ?_, ?_⟩
      · unfold afterScript
        exact ⟨by rw [addImp_constants, addImp_constants]; exact hA.consts,
          by rw [addImp_breakStack]; exact hA.ba, by rw [addImp_continueStack]; exact hA.ca,
          by rw [addImp_breakStack]; exact hA.bb, by rw [addImp_continueStack]; exact hA.cb,
          by rw [addImp_nextCmdId, addImp_nextCmdId]; exact hA'.cid,
          by rw [addImp_nextSid, addImp_nextSid]; exact hA'.sid, hH1⟩
      · rw [hhi]; exact hle
      · rw [hhi]
        exact ⟨.mapscripts rfl rfl rfl hms htb, trivial⟩
      · rw [hhi]
        obtain ⟨d1, d2, d3, d4⟩ := hD1
        exact ⟨d1, d2, d3, d4⟩

/-- **The frame lemma of the file elaboration**, files with P1c bodies. -/
theorem elabTopsE_frame (env : Env) (henv : env.envErrors = true) (D : Dom) (dc ds : Nat) :
    ∀ (ts : List STopE) {a b : PState}, Agree D dc ds a b → UsesE env D ts a →
    match elabTopsE env ts a with
    | .error e => elabTopsE env ts b = .error e
    | .ok (topsA, a1) =>
      ∃ topsB b1, elabTopsE env ts b = .ok (topsB, b1) ∧ Agree D dc ds a1 b1 ∧ a.nextCmdId ≤ a1.nextCmdId ∧
        All2 (RelTopM (Rb dc ds a.nextCmdId a1.nextCmdId)) topsB topsA ∧
        Delta (Rb dc ds a.nextCmdId a1.nextCmdId) a b a1 b1
  | [], a, b, hA, _ => ⟨[], b, rfl, hA, Nat.le_refl _, trivial, Delta.refl _ _ _⟩
  | t :: r, a, b, hA, hU => by
    have hs := stepTopE_frame env henv D dc ds t hA hU.1
    have hU2 := hU.2
    simp only [elabTopsE]
    cases h1 : stepTopE env t a with
    | error e =>
      rw [h1] at hs
      simp only [hs]
    | ok q =>
      obtain ⟨o, a1⟩ := q
      rw [h1] at hs hU2
      obtain ⟨o', b1, hb, hA1, hle1, hr1, hd1⟩ := hs
      have ih := elabTopsE_frame env henv D dc ds r hA1 hU2
      simp only [hb]
      cases h2 : elabTopsE env r a1 with
      | error e =>
        rw [h2] at ih
        simp only [ih]
      | ok q2 =>
        obtain ⟨topsA, a2⟩ := q2
        rw [h2] at ih
        obtain ⟨topsB, b2, hb2, hA2, hle2, hr2, hd2⟩ := ih
        simp only [hb2]
        have s1 : (Rb dc ds a.nextCmdId a1.nextCmdId).Sub (Rb dc ds a.nextCmdId a2.nextCmdId) :=
          Rb_sub (Nat.le_refl _) hle2
        have s2 : (Rb dc ds a1.nextCmdId a2.nextCmdId).Sub (Rb dc ds a.nextCmdId a2.nextCmdId) :=
          Rb_sub hle1 (Nat.le_refl _)
        exact ⟨_, _, rfl, hA2, Nat.le_trans hle1 hle2,
          All2.append (All2.imp (fun _ _ h => h.mono s1) hr1) (All2.imp (fun _ _ h => h.mono s2) hr2),
          (hd1.mono s1).trans (hd2.mono s2)⟩

end Pory.P2f
