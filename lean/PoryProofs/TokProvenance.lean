import PoryProofs.ParserScopesTop
import PoryProofs.ParserFuel4
import PoryProofs.MarkerTokensND
/-
Token provenance in the parser (C16, parser side), part 1: predicates, the calculus and the
functions below the statement level.

`I` is a fixed list of tokens (the input token list together with its end-of-input token).
* `Pos I t`  : `t` agrees with a token of `I` in all six position fields;
* `Pool I l e` : every token of the window `l` and the end-of-input token `e` are tokens of `I`;
* `Stored I s` : every token stored in the parser state (inline texts, text statements, inline
  movements and their steps) satisfies `Pos I`;
* `Inv I s := Pool I s.toks s.eof ∧ Stored I s`;
* `Prov I m R` : from a state satisfying `Inv I`, a successful run of `m` ends in a state satisfying
  `Inv I` with a result satisfying `R`.
-/
namespace Pory.Parser
open Pory

/-- The six position fields of a token. -/
def tpos (t : Tok) : Nat × Nat × Nat × Nat × Nat × Nat :=
  (t.line, t.endLine, t.startChar, t.endChar, t.startUtf8, t.endUtf8)

/-- `t` stands at the position of a token of `I`. -/
def Pos (I : List Tok) (t : Tok) : Prop := ∃ t0 ∈ I, tpos t = tpos t0

theorem Pos.of_mem {I : List Tok} {t : Tok} (h : t ∈ I) : Pos I t := ⟨t, h, rfl⟩

theorem Pos_lit (I : List Tok) (t : Tok) (x : String) : Pos I { t with lit := x } ↔ Pos I t := Iff.rfl
theorem Pos_type_lit (I : List Tok) (t : Tok) (ty : TT) (x : String) :
    Pos I { t with type := ty, lit := x } ↔ Pos I t := Iff.rfl

/-- Window and end-of-input token consist of tokens of `I`. -/
structure Pool (I : List Tok) (l : List Tok) (e : Tok) : Prop where
  mem : ∀ t ∈ l, t ∈ I
  eof : e ∈ I

theorem Pool.tail {I l e} (h : Pool I l e) : Pool I l.tail e :=
  ⟨fun t ht => h.mem t (List.mem_of_mem_tail ht), h.eof⟩

theorem Pool.headD {I l e} (h : Pool I l e) : l.headD e ∈ I := by
  cases l with
  | nil => exact h.eof
  | cons a r => exact h.mem a List.mem_cons_self

theorem Pool.getD {I l e} (h : Pool I l e) (n : Nat) : l.getD n e ∈ I := by
  rcases getD_cases l n e with hlt | he
  · have : l.getD n e = l[n] := by simp [List.getD, hlt]
    rw [this]; exact h.mem _ (List.getElem_mem hlt)
  · rw [he]; exact h.eof

theorem Pool.drop {I l e} (h : Pool I l e) (k : Nat) : Pool I (l.drop k) e :=
  ⟨fun t ht => h.mem t (List.mem_of_mem_drop ht), h.eof⟩

theorem Pool.pos_headD {I l e} (h : Pool I l e) : Pos I (l.headD e) := Pos.of_mem h.headD
theorem Pool.pos_getD {I l e} (h : Pool I l e) (n : Nat) : Pos I (l.getD n e) := Pos.of_mem (h.getD n)

/-- Everything a pool gives, as rewrite rules for `simp` (window positions written with `drop`). -/
theorem Pool.facts {I l e} (h : Pool I l e) :
    (Pool I l e ↔ True) ∧ (Pos I (l.headD e) ↔ True) ∧ (∀ n, Pos I (l.getD n e) ↔ True) ∧
    (∀ k, Pool I (l.drop k) e ↔ True) ∧ (∀ k, Pos I ((l.drop k).headD e) ↔ True) ∧
    (∀ k n, Pos I ((l.drop k).getD n e) ↔ True) ∧
    (l.headD e ∈ I ↔ True) ∧ (∀ n, l.getD n e ∈ I ↔ True) ∧
    (∀ k, (l.drop k).headD e ∈ I ↔ True) ∧ (∀ k n, (l.drop k).getD n e ∈ I ↔ True) :=
  ⟨iff_true_intro h, iff_true_intro h.pos_headD, fun n => iff_true_intro (h.pos_getD n),
   fun k => iff_true_intro (h.drop k), fun k => iff_true_intro (h.drop k).pos_headD,
   fun k n => iff_true_intro ((h.drop k).pos_getD n),
   iff_true_intro h.headD, fun n => iff_true_intro (h.getD n),
   fun k => iff_true_intro (h.drop k).headD, fun k n => iff_true_intro ((h.drop k).getD n)⟩

/-- All tokens of a list stand at input positions. -/
def AllPos (I : List Tok) (l : List Tok) : Prop := ∀ t ∈ l, Pos I t

theorem AllPos_nil (I : List Tok) : AllPos I [] ↔ True :=
  iff_true_intro (fun _ h => absurd h List.not_mem_nil)
theorem AllPos_append (I : List Tok) (a b : List Tok) : AllPos I (a ++ b) ↔ AllPos I a ∧ AllPos I b := by
  simp only [AllPos, List.mem_append]
  exact ⟨fun h => ⟨fun t ht => h t (Or.inl ht), fun t ht => h t (Or.inr ht)⟩,
    fun h t ht => ht.elim (h.1 t) (h.2 t)⟩
theorem AllPos_cons (I : List Tok) (a : Tok) (b : List Tok) : AllPos I (a :: b) ↔ Pos I a ∧ AllPos I b := by
  simp only [AllPos, List.mem_cons]
  exact ⟨fun h => ⟨h a (Or.inl rfl), fun t ht => h t (Or.inr ht)⟩,
    fun h t ht => ht.elim (fun e => e ▸ h.1) (h.2 t)⟩
theorem AllPos_replicate (I : List Tok) (n : Nat) (c : Tok) (h : Pos I c) : AllPos I (List.replicate n c) ↔ True :=
  iff_true_intro (fun t ht => (List.eq_of_mem_replicate ht) ▸ h)

/-- Every entry of a poryswitch case table satisfies `P`. -/
def CasesOK {α} (P : α → Prop) (cs : List (String × α)) : Prop := ∀ e ∈ cs, P e.2

theorem CasesOK_nil {α} (P : α → Prop) : CasesOK P [] ↔ True :=
  iff_true_intro (fun _ h => absurd h List.not_mem_nil)
theorem CasesOK_cons {α} (P : α → Prop) (k : String) (v : α) (cs : List (String × α)) :
    CasesOK P ((k, v) :: cs) ↔ P v ∧ CasesOK P cs := by
  simp only [CasesOK, List.mem_cons]
  exact ⟨fun h => ⟨h (k, v) (Or.inl rfl), fun e he => h e (Or.inr he)⟩,
    fun h e he => he.elim (fun x => x ▸ h.1) (h.2 e)⟩
theorem CasesOK.lookup {α} {P : α → Prop} {cs : List (String × α)} {k : String} {v : α}
    (h : CasesOK P cs) (hl : cs.lookup k = some v) : P v := h _ (lookup_mem hl)
theorem CasesOK.select {α} {P : α → Prop} {env : Env} {cs : List (String × α)} {k : String} {v : α}
    (h : CasesOK P cs) (hl : selectCase env cs k = some v) : P v := by
  obtain ⟨key, hm⟩ := selectCase_mem hl
  exact h _ hm

/-- Tokens stored in the parser state. -/
structure Stored (I : List Tok) (s : PState) : Prop where
  texts : ∀ x ∈ s.inlineTexts, Pos I x.tok
  stmts : ∀ x ∈ s.textStatements, Pos I x.tok
  moves : ∀ m ∈ s.inlineMovements, Pos I m.tok ∧ ∀ c ∈ m.cmds, Pos I c

theorem Stored_upd (I : List Tok) (s : PState) (l : List Tok) (k : Nat) :
    Stored I (upd s l k) ↔ Stored I s := ⟨fun h => ⟨h.1, h.2, h.3⟩, fun h => ⟨h.1, h.2, h.3⟩⟩
theorem Stored_setSid (I : List Tok) (s : PState) (n : Nat) : Stored I (setSid s n) ↔ Stored I s :=
  ⟨fun h => ⟨h.1, h.2, h.3⟩, fun h => ⟨h.1, h.2, h.3⟩⟩
theorem Stored_setB (I : List Tok) (s : PState) (B : List Nat) : Stored I (setB s B) ↔ Stored I s :=
  ⟨fun h => ⟨h.1, h.2, h.3⟩, fun h => ⟨h.1, h.2, h.3⟩⟩
theorem Stored_setC (I : List Tok) (s : PState) (C : List Nat) : Stored I (setC s C) ↔ Stored I s :=
  ⟨fun h => ⟨h.1, h.2, h.3⟩, fun h => ⟨h.1, h.2, h.3⟩⟩

def Inv (I : List Tok) (s : PState) : Prop := Pool I s.toks s.eof ∧ Stored I s

/-- Tokens of implicit texts / movements collected while parsing statements. -/
structure ImpOK (I : List Tok) (d : ImpData) : Prop where
  texts : ∀ x ∈ d.texts, Pos I x.text
  moves : ∀ m ∈ d.movements, Pos I m.cmdTok ∧ ∀ c ∈ m.movements, Pos I c

theorem ImpOK.empty (I : List Tok) : ImpOK I {} :=
  ⟨fun _ h => absurd h List.not_mem_nil, fun _ h => absurd h List.not_mem_nil⟩

theorem ImpOK.add {I a b} (ha : ImpOK I a) (hb : ImpOK I b) : ImpOK I (a.add b) := by
  refine ⟨fun x hx => ?_, fun m hm => ?_⟩
  · rcases List.mem_append.1 hx with h | h
    · exact ha.1 x h
    · exact hb.1 x h
  · rcases List.mem_append.1 hm with h | h
    · exact ha.2 m h
    · exact hb.2 m h

theorem ImpOK.addText {I : List Tok} {d : ImpData} (hd : ImpOK I d) {x : ImpText} (hx : Pos I x.text) :
    ImpOK I { d with texts := d.texts ++ [x] } := by
  refine ⟨fun y hy => ?_, hd.2⟩
  rcases List.mem_append.1 hy with h | h
  · exact hd.1 y h
  · rw [List.mem_singleton] at h; subst h; exact hx

theorem ImpOK.addMovement {I : List Tok} {d : ImpData} (hd : ImpOK I d) {x : ImpMovement}
    (h1 : Pos I x.cmdTok) (h2 : ∀ c ∈ x.movements, Pos I c) :
    ImpOK I { d with movements := d.movements ++ [x] } := by
  refine ⟨hd.1, fun y hy => ?_⟩
  rcases List.mem_append.1 hy with h | h
  · exact hd.2 y h
  · rw [List.mem_singleton] at h; subst h; exact ⟨h1, h2⟩

theorem ImpOK_empty (I : List Tok) : ImpOK I {} ↔ True := iff_true_intro (ImpOK.empty I)
theorem ImpOK_mk_nil (I : List Tok) : ImpOK I { texts := [], movements := [] } ↔ True :=
  iff_true_intro (ImpOK.empty I)
theorem ImpOK_add (I : List Tok) (a b : ImpData) : ImpOK I (a.add b) ↔ ImpOK I a ∧ ImpOK I b := by
  refine ⟨fun h => ⟨⟨fun x hx => h.1 x (List.mem_append.2 (Or.inl hx)),
      fun m hm => h.2 m (List.mem_append.2 (Or.inl hm))⟩,
    ⟨fun x hx => h.1 x (List.mem_append.2 (Or.inr hx)), fun m hm => h.2 m (List.mem_append.2 (Or.inr hm))⟩⟩,
    fun h => h.1.add h.2⟩
theorem ImpOK_addText (I : List Tok) (d : ImpData) (x : ImpText) :
    ImpOK I { texts := d.texts ++ [x], movements := d.movements } ↔ ImpOK I d ∧ Pos I x.text :=
  ⟨fun h => ⟨⟨fun y hy => h.1 y (List.mem_append.2 (Or.inl hy)), h.2⟩,
    h.1 x (List.mem_append.2 (Or.inr (List.mem_singleton.2 rfl)))⟩, fun h => h.1.addText h.2⟩
theorem ImpOK_addMovement (I : List Tok) (d : ImpData) (x : ImpMovement) :
    ImpOK I { texts := d.texts, movements := d.movements ++ [x] } ↔
      ImpOK I d ∧ Pos I x.cmdTok ∧ AllPos I x.movements :=
  ⟨fun h => ⟨⟨h.1, fun y hy => h.2 y (List.mem_append.2 (Or.inl hy))⟩,
    h.2 x (List.mem_append.2 (Or.inr (List.mem_singleton.2 rfl)))⟩, fun h => h.1.addMovement h.2.1 h.2.2⟩

/-- From `Inv I`, a successful run re-establishes `Inv I` and returns a result satisfying `R`. -/
def Prov {α} (I : List Tok) (m : PM α) (R : α → Prop) : Prop :=
  ∀ s, Inv I s → wp m s (fun r s' => Inv I s' ∧ R r)

theorem Prov.wp_iff {α} {I : List Tok} {m : PM α} {R : α → Prop} (h : Prov I m R) (s : PState)
    (Q : α → PState → Prop) :
    wp m s Q ↔ ∀ a s', m.run s = .ok (a, s') → (Inv I s → Inv I s' ∧ R a) → Q a s' :=
  ⟨fun hq a s' hr _ => hq a s' hr, fun hq a s' hr => hq a s' hr (fun hi => h s hi a s' hr)⟩

theorem Prov.mono {α} {I : List Tok} {m : PM α} {R R' : α → Prop} (h : Prov I m R)
    (hr : ∀ a, R a → R' a) : Prov I m R' :=
  fun s hi a s' hrun => ⟨(h s hi a s' hrun).1, hr a (h s hi a s' hrun).2⟩

/-- Symbolic execution for provenance goals. -/
syntax "psimp" (" [" Lean.Parser.Tactic.simpLemma,* "]")? : tactic
macro_rules
  | `(tactic| psimp) => `(tactic| swp [Inv, Stored_upd, Stored_setSid, Stored_setB, Stored_setC, Pos_lit,
      Pos_type_lit, AllPos_nil, AllPos_append, AllPos_cons, CasesOK_nil, CasesOK_cons, ImpOK_empty, ImpOK_mk_nil, ImpOK_add, ImpOK_addText,
      ImpOK_addMovement, ← List.drop_one, List.drop_drop, ite_iff_and, true_implies, false_implies, not_false_eq_true, not_true_eq_false])
  | `(tactic| psimp [$ts,*]) => `(tactic| swp [Inv, Stored_upd, Stored_setSid, Stored_setB, Stored_setC,
      Pos_lit, Pos_type_lit, AllPos_nil, AllPos_append, AllPos_cons, CasesOK_nil, CasesOK_cons, ImpOK_empty, ImpOK_mk_nil, ImpOK_add,
      ImpOK_addText, ImpOK_addMovement, ← List.drop_one, List.drop_drop, ite_iff_and, true_implies, false_implies, not_false_eq_true, not_true_eq_false,
      $ts,*])

/-- Break a verification condition into its leaves. -/
syntax "pvc" (" [" Lean.Parser.Tactic.simpLemma,* "]")? : tactic
macro_rules
  | `(tactic| pvc) => `(tactic| repeat' (first | (exact True.intro) | (apply And.intro) | (with_reducible intro _) | (psimp) | (split)))
  | `(tactic| pvc [$ts,*]) => `(tactic| repeat' (first | (exact True.intro) | (apply And.intro) | (with_reducible intro _) | (psimp [$ts,*]) | (split)))

/-- Close a leaf. -/
syntax "pfin" (" [" Lean.Parser.Tactic.grindParam,* "]")? : tactic
macro_rules
  | `(tactic| pfin) => `(tactic| grind [Pool.tail, Pool.pos_headD, Pool.pos_getD, Pool.headD, Pool.getD, Pool.drop,
      Pos.of_mem, AllPos_replicate, CasesOK.lookup, CasesOK.select])
  | `(tactic| pfin [$ts,*]) => `(tactic| grind [Pool.tail, Pool.pos_headD, Pool.pos_getD, Pool.headD, Pool.getD,
      Pool.drop, Pos.of_mem, AllPos_replicate, CasesOK.lookup, CasesOK.select, $ts,*])

/-! ### below the statement level -/

theorem prov_parseScopeModifier (I : List Tok) (d : TT) : Prov I (parseScopeModifier d) (fun _ => True) := by
  intro s hi
  obtain ⟨hp, hs⟩ := hi
  have hf := hp.facts
  have hs' := iff_true_intro hs
  unfold parseScopeModifier
  pvc [hf, hs']

theorem prov_parsePoryswitchHeader (I : List Tok) (env : Env) :
    Prov I (parsePoryswitchHeader env) (fun _ => True) := by
  intro s hi
  obtain ⟨hp, hs⟩ := hi
  have hf := hp.facts
  have hs' := iff_true_intro hs
  unfold parsePoryswitchHeader
  pvc [hf, hs']

theorem prov_formatNamedParams (I : List Tok) :
    ∀ (n : Nat) (fp : FmtParams), Prov I (formatNamedParams n fp) (fun _ => True) := by
  intro n
  induction n with
  | zero => intro fp s hi; rw [formatNamedParams]; wpsimp
  | succ n ih =>
    intro fp s hi
    obtain ⟨hp, hs⟩ := hi
    have hf := hp.facts
    have hs' := iff_true_intro hs
    rw [formatNamedParams]
    pvc [(ih _).wp_iff, hf, hs']
    all_goals pfin

theorem prov_parseFormatStringOperator (I : List Tok) (env : Env) (n : Nat) :
    Prov I (parseFormatStringOperator env n) (fun r => Pos I r.1) := by
  intro s hi
  obtain ⟨hp, hs⟩ := hi
  have hf := hp.facts
  have hs' := iff_true_intro hs
  unfold parseFormatStringOperator
  pvc [(prov_formatNamedParams I _ _).wp_iff, wp_fmtMatch, hf, hs']
  all_goals pfin

theorem prov_parseTextValue (I : List Tok) (env : Env) (n : Nat) :
    Prov I (parseTextValue env n) (fun _ => True) := by
  intro s hi
  obtain ⟨hp, hs⟩ := hi
  have hf := hp.facts
  have hs' := iff_true_intro hs
  unfold parseTextValue
  pvc [(prov_parseFormatStringOperator I _ _).wp_iff, hf, hs']
  all_goals pfin

theorem prov_poryswitchTextCases (I : List Tok) (env : Env) (tok : Tok) :
    ∀ (n : Nat) (acc : List (String × String × String)),
      Prov I (poryswitchTextCases env tok n acc) (fun _ => True) := by
  intro n
  induction n with
  | zero => intro acc s hi; rw [poryswitchTextCases]; wpsimp
  | succ n ih =>
    intro acc s hi
    obtain ⟨hp, hs⟩ := hi
    have hf := hp.facts
    have hs' := iff_true_intro hs
    rw [poryswitchTextCases]
    pvc [(ih _).wp_iff, (prov_parseTextValue I _ _).wp_iff, hf, hs']
    all_goals pfin

theorem prov_parsePoryswitchTextStatement (I : List Tok) (env : Env) (n : Nat) :
    Prov I (parsePoryswitchTextStatement env n) (fun _ => True) := by
  intro s hi
  obtain ⟨hp, hs⟩ := hi
  have hf := hp.facts
  have hs' := iff_true_intro hs
  unfold parsePoryswitchTextStatement
  pvc [(prov_parsePoryswitchHeader I _).wp_iff, (prov_poryswitchTextCases I _ _ _ _).wp_iff, hf, hs']
  all_goals pfin

/-! ### movement / mart lists -/

theorem prov_listBlock (I : List Tok) (env : Env) : ∀ n : Nat,
    (∀ kind am acc, Prov I (parseListValue env kind am n acc) (fun r => AllPos I acc → AllPos I r)) ∧
    (∀ kind, Prov I (parsePoryswitchListStatement env kind n) (fun r => AllPos I r)) ∧
    (∀ kind tok acc, Prov I (parsePoryswitchListCases env kind tok n acc)
      (fun r => CasesOK (AllPos I) acc → CasesOK (AllPos I) r)) := by
  intro n
  induction n with
  | zero =>
    refine ⟨?_, ?_, ?_⟩
    · intro kind am acc s hi; rw [parseListValue]; wpsimp
    · intro kind s hi; rw [parsePoryswitchListStatement]; wpsimp
    · intro kind tok acc s hi; rw [parsePoryswitchListCases]; wpsimp
  | succ n ih =>
    obtain ⟨ih1, ih2, ih3⟩ := ih
    refine ⟨?_, ?_, ?_⟩
    · intro kind am acc s hi
      obtain ⟨hp, hs⟩ := hi
      have hf := hp.facts
      have hs' := iff_true_intro hs
      rw [parseListValue]
      cases kind <;> pvc [(ih1 _ _ _).wp_iff, (ih2 _).wp_iff, hf, hs']
      all_goals pfin
    · intro kind s hi
      obtain ⟨hp, hs⟩ := hi
      have hf := hp.facts
      have hs' := iff_true_intro hs
      rw [parsePoryswitchListStatement]
      pvc [(ih3 _ _ _).wp_iff, (prov_parsePoryswitchHeader I _).wp_iff, hf, hs']
      all_goals pfin
    · intro kind tok acc s hi
      obtain ⟨hp, hs⟩ := hi
      have hf := hp.facts
      have hs' := iff_true_intro hs
      rw [parsePoryswitchListCases]
      pvc [(ih1 _ _ _).wp_iff, (ih3 _ _ _).wp_iff, hf, hs']
      all_goals pfin

end Pory.Parser
