import PoryProofs.ParserScopesTop
import PoryProofs.ParserFuel4
import PoryProofs.MarkerTokens
/-
Token provenance in the parser (C16, parser side), part 1: predicates, the calculus and the
functions below the statement level.

`I` is a fixed list of tokens (the input token list together with its end-of-input token).
* `Pos I t`  : `t` agrees with a token of `I` in all six position fields;
* `Pool I l e` : every token of the window `l` and the end-of-input token `e` are tokens of `I`;
* `Stored I s` : every token stored in the parser state (inline texts, text statements, inline
  movements and their steps) satisfies `Pos I`;
* `Inv I s := Pool I s.toks s.eof ∧ Stored I s`;
* `Prov I m R` : from a state satisfying `Inv I`, a successful run of `m` ends in a state satisfying
  `Inv I` with a result satisfying `R`.
-/
namespace Pory.Parser
open Pory

/-- The six position fields of a token. -/
def tpos (t : Tok) : Nat × Nat × Nat × Nat × Nat × Nat :=
  (t.line, t.endLine, t.startChar, t.endChar, t.startUtf8, t.endUtf8)

/-- `t` stands at the position of a token of `I`. -/
def Pos (I : List Tok) (t : Tok) : Prop := ∃ t0 ∈ I, tpos t = tpos t0

theorem Pos.of_mem {I : List Tok} {t : Tok} (h : t ∈ I) : Pos I t := ⟨t, h, rfl⟩

theorem Pos_lit (I : List Tok) (t : Tok) (x : String) : Pos I { t with lit := x } ↔ Pos I t := Iff.rfl
theorem Pos_type_lit (I : List Tok) (t : Tok) (ty : TT) (x : String) :
    Pos I { t with type := ty, lit := x } ↔ Pos I t := Iff.rfl

/-- Window and end-of-input token consist of tokens of `I`. -/
structure Pool (I : List Tok) (l : List Tok) (e : Tok) : Prop where
  mem : ∀ t ∈ l, t ∈ I
  eof : e ∈ I

theorem Pool.tail {I l e} (h : Pool I l e) : Pool I l.tail e :=
  ⟨fun t ht => h.mem t (List.mem_of_mem_tail ht), h.eof⟩

theorem Pool.headD {I l e} (h : Pool I l e) : l.headD e ∈ I := by
  cases l with
  | nil => exact h.eof
  | cons a r => exact h.mem a List.mem_cons_self

theorem Pool.getD {I l e} (h : Pool I l e) (n : Nat) : l.getD n e ∈ I := by
  rcases getD_cases l n e with hlt | he
  · have : l.getD n e = l[n] := by simp [List.getD, hlt]
    rw [this]; exact h.mem _ (List.getElem_mem hlt)
  · rw [he]; exact h.eof

theorem Pool.pos_headD {I l e} (h : Pool I l e) : Pos I (l.headD e) := Pos.of_mem h.headD
theorem Pool.pos_getD {I l e} (h : Pool I l e) (n : Nat) : Pos I (l.getD n e) := Pos.of_mem (h.getD n)

/-- Tokens stored in the parser state. -/
structure Stored (I : List Tok) (s : PState) : Prop where
  texts : ∀ x ∈ s.inlineTexts, Pos I x.tok
  stmts : ∀ x ∈ s.textStatements, Pos I x.tok
  moves : ∀ m ∈ s.inlineMovements, Pos I m.tok ∧ ∀ c ∈ m.cmds, Pos I c

theorem Stored_upd (I : List Tok) (s : PState) (l : List Tok) (k : Nat) :
    Stored I (upd s l k) ↔ Stored I s := ⟨fun h => ⟨h.1, h.2, h.3⟩, fun h => ⟨h.1, h.2, h.3⟩⟩
theorem Stored_setSid (I : List Tok) (s : PState) (n : Nat) : Stored I (setSid s n) ↔ Stored I s :=
  ⟨fun h => ⟨h.1, h.2, h.3⟩, fun h => ⟨h.1, h.2, h.3⟩⟩
theorem Stored_setB (I : List Tok) (s : PState) (B : List Nat) : Stored I (setB s B) ↔ Stored I s :=
  ⟨fun h => ⟨h.1, h.2, h.3⟩, fun h => ⟨h.1, h.2, h.3⟩⟩
theorem Stored_setC (I : List Tok) (s : PState) (C : List Nat) : Stored I (setC s C) ↔ Stored I s :=
  ⟨fun h => ⟨h.1, h.2, h.3⟩, fun h => ⟨h.1, h.2, h.3⟩⟩

def Inv (I : List Tok) (s : PState) : Prop := Pool I s.toks s.eof ∧ Stored I s

/-- Tokens of implicit texts / movements collected while parsing statements. -/
structure ImpOK (I : List Tok) (d : ImpData) : Prop where
  texts : ∀ x ∈ d.texts, Pos I x.text
  moves : ∀ m ∈ d.movements, Pos I m.cmdTok ∧ ∀ c ∈ m.movements, Pos I c

theorem ImpOK.empty (I : List Tok) : ImpOK I {} :=
  ⟨fun _ h => absurd h List.not_mem_nil, fun _ h => absurd h List.not_mem_nil⟩

theorem ImpOK.add {I a b} (ha : ImpOK I a) (hb : ImpOK I b) : ImpOK I (a.add b) := by
  refine ⟨fun x hx => ?_, fun m hm => ?_⟩
  · rcases List.mem_append.1 hx with h | h
    · exact ha.1 x h
    · exact hb.1 x h
  · rcases List.mem_append.1 hm with h | h
    · exact ha.2 m h
    · exact hb.2 m h

theorem ImpOK.addText {I : List Tok} {d : ImpData} (hd : ImpOK I d) {x : ImpText} (hx : Pos I x.text) :
    ImpOK I { d with texts := d.texts ++ [x] } := by
  refine ⟨fun y hy => ?_, hd.2⟩
  rcases List.mem_append.1 hy with h | h
  · exact hd.1 y h
  · rw [List.mem_singleton] at h; subst h; exact hx

theorem ImpOK.addMovement {I : List Tok} {d : ImpData} (hd : ImpOK I d) {x : ImpMovement}
    (h1 : Pos I x.cmdTok) (h2 : ∀ c ∈ x.movements, Pos I c) :
    ImpOK I { d with movements := d.movements ++ [x] } := by
  refine ⟨hd.1, fun y hy => ?_⟩
  rcases List.mem_append.1 hy with h | h
  · exact hd.2 y h
  · rw [List.mem_singleton] at h; subst h; exact ⟨h1, h2⟩

/-- From `Inv I`, a successful run re-establishes `Inv I` and returns a result satisfying `R`. -/
def Prov {α} (I : List Tok) (m : PM α) (R : α → Prop) : Prop :=
  ∀ s, Inv I s → wp m s (fun r s' => Inv I s' ∧ R r)

theorem Prov.wp_iff {α} {I : List Tok} {m : PM α} {R : α → Prop} (h : Prov I m R) (s : PState)
    (Q : α → PState → Prop) :
    wp m s Q ↔ ∀ a s', m.run s = .ok (a, s') → (Inv I s → Inv I s' ∧ R a) → Q a s' :=
  ⟨fun hq a s' hr _ => hq a s' hr, fun hq a s' hr => hq a s' hr (fun hi => h s hi a s' hr)⟩

theorem Prov.mono {α} {I : List Tok} {m : PM α} {R R' : α → Prop} (h : Prov I m R)
    (hr : ∀ a, R a → R' a) : Prov I m R' :=
  fun s hi a s' hrun => ⟨(h s hi a s' hrun).1, hr a (h s hi a s' hrun).2⟩

/-- Symbolic execution for provenance goals. -/
syntax "psimp" (" [" Lean.Parser.Tactic.simpLemma,* "]")? : tactic
macro_rules
  | `(tactic| psimp) => `(tactic| swp [Inv, Stored_upd, Stored_setSid, Stored_setB, Stored_setC, Pos_lit,
      Pos_type_lit, ite_iff_and, true_implies, false_implies, not_false_eq_true, not_true_eq_false])
  | `(tactic| psimp [$ts,*]) => `(tactic| swp [Inv, Stored_upd, Stored_setSid, Stored_setB, Stored_setC,
      Pos_lit, Pos_type_lit, ite_iff_and, true_implies, false_implies, not_false_eq_true, not_true_eq_false,
      $ts,*])

/-- Break a verification condition into its leaves. -/
syntax "pvc" (" [" Lean.Parser.Tactic.simpLemma,* "]")? : tactic
macro_rules
  | `(tactic| pvc) => `(tactic| repeat' (first | (exact True.intro) | (apply And.intro) | (with_reducible intro _) | (psimp) | (split)))
  | `(tactic| pvc [$ts,*]) => `(tactic| repeat' (first | (exact True.intro) | (apply And.intro) | (with_reducible intro _) | (psimp [$ts,*]) | (split)))

end Pory.Parser
