import PoryProofs.ProgramGrammarPS
/-
P2d (whole-file grammar completed), stage 2: the parser model on printed files of the completed grammar.

* `parse_movement_statement_err`, `parse_mart_statement_err` : a failing list is the failure of the statement;
* `top_movementP`, `top_martP`, `top_textP` : `parseTopLevelStatement` on a printed statement of the three new
  forms = `stepTopP` (result, state, or located error);
* `parse_top_step_ps` : one statement of the completed grammar (old kinds through `P2b.parse_top_step_ms`);
* `topLoopP_elab`, `parseProgramM_elabP`, `parseTokens_elabP` : the loop, the post-passes, the model's fuel.
-/
namespace Pory.P2d
open Pory Pory.Parser Pory.C02P Pory.StmtG Pory.TopParse Pory.P2 Pory.P2b
open Pory.C14b (Items)

/-! ### failing bodies -/

theorem parse_movement_statement_err (env : Env) (fuel : Nat) (s : PState) (kw : Tok) (md : Mod)
    (name lb : Tok) (body : List Tok) (hmd : md.WF) (hname : name.type = .IDENT)
    (hlb : lb.type = .LBRACE) (e : PFail)
    (hbody : (parseListValue env (.movement .RBRACE) true fuel []).run (st s body) = .error e) :
    (parseMovementStatement env fuel).run (st s (kw :: (md.toks ++ name :: lb :: body))) = .error e := by
  unfold parseMovementStatement
  simp [scope_mod _ s kw md name (lb :: body) hmd (by simp [hname]), hname, hlb, hbody]

theorem parse_mart_statement_err (env : Env) (fuel : Nat) (s : PState) (kw : Tok) (md : Mod)
    (name lb : Tok) (body : List Tok) (hmd : md.WF) (hname : name.type = .IDENT)
    (hlb : lb.type = .LBRACE) (e : PFail)
    (hbody : (parseListValue env .mart true fuel []).run (st s body) = .error e) :
    (parseMartStatement env fuel).run (st s (kw :: (md.toks ++ name :: lb :: body))) = .error e := by
  unfold parseMartStatement
  simp [scope_mod _ s kw md name (lb :: body) hmd (by simp [hname]), hname, hlb, hbody]

/-! ### the three new statements -/

theorem top_movementP (env : Env) (fuel : Nat) (s : PState) (kw : Tok) (md : Mod) (name lb : Tok)
    (items : Items) (rb : Tok) (rest : List Tok) (hkw : kw.type = .MOVEMENT) (hmd : md.WF)
    (hname : name.type = .IDENT) (hlb : lb.type = .LBRACE) (hwf : wfItems false items)
    (hrb : rb.type = .RBRACE) (hf : items.toks.length + 1 ≤ fuel) :
    (parseTopLevelStatement env fuel).run
        (st s (kw :: (md.toks ++ name :: lb :: (items.toks ++ rb :: rest)))) =
      match stepTopP env (.movementP kw md name lb items rb) s with
      | .error e => .error e
      | .ok (o, s') => .ok (o, st s' (rb :: rest)) := by
  have hb := parse_list_ps env (.movement .RBRACE) good_movement_rbrace s items rb rest hwf hrb [] fuel hf
  unfold parseTopLevelStatement stepTopP
  cases he : elItems env items with
  | error e =>
    rw [he] at hb
    have := parse_movement_statement_err env fuel s kw md name lb _ hmd hname hlb e hb
    simp [hkw, this, he]
  | ok out =>
    rw [he] at hb
    have := C15b.parse_movement_statement_gen env fuel s kw md name lb _ hmd hname hlb _ _ hb
    simp [hkw, this, he]

theorem top_martP (env : Env) (fuel : Nat) (s : PState) (kw : Tok) (md : Mod) (name lb : Tok)
    (items : Items) (rb : Tok) (rest : List Tok) (hkw : kw.type = .MART) (hmd : md.WF)
    (hname : name.type = .IDENT) (hlb : lb.type = .LBRACE) (hwf : wfItems true items)
    (hrb : rb.type = .RBRACE) (hf : items.toks.length + 1 ≤ fuel) :
    (parseTopLevelStatement env fuel).run
        (st s (kw :: (md.toks ++ name :: lb :: (items.toks ++ rb :: rest)))) =
      match stepTopP env (.martP kw md name lb items rb) s with
      | .error e => .error e
      | .ok (o, s') => .ok (o, st s' (rb :: rest)) := by
  have hb := parse_list_ps env .mart good_mart s items rb rest hwf hrb [] fuel hf
  unfold parseTopLevelStatement stepTopP
  cases he : elItems env items with
  | error e =>
    rw [he] at hb
    have := parse_mart_statement_err env fuel s kw md name lb _ hmd hname hlb e hb
    simp [hkw, this, he]
  | ok out =>
    rw [he] at hb
    have := C15b.parse_mart_statement_gen env fuel s kw md name lb _ hmd hname hlb _ _ hb
    simp [hkw, this, he]

theorem top_textP (env : Env) (fuel : Nat) (s : PState) (kw : Tok) (md : Mod) (name lb : Tok)
    (b : TBody) (rb : Tok) (rest : List Tok) (hkw : kw.type = .TEXT) (hmd : md.WF)
    (hname : name.type = .IDENT) (hlb : lb.type = .LBRACE) (hb : b.WF) (hrb : rb.type = .RBRACE)
    (hf : b.need ≤ fuel) :
    (parseTopLevelStatement env fuel).run
        (st s (kw :: (md.toks ++ name :: lb :: (b.toks ++ rb :: rest)))) =
      match stepTopP env (.textP kw md name lb b rb) s with
      | .error e => .error e
      | .ok (o, s') => .ok (o, st s' (rb :: rest)) := by
  have hbody := body_run env fuel s b (rb :: rest) hb hf
  unfold parseTopLevelStatement stepTopP
  cases he : elBody env b with
  | error e =>
    rw [he] at hbody
    have := TextValueParse.text_statement_err env fuel s kw md name lb _ hmd hname hlb e hbody
    simp [hkw, this, he]
  | ok v =>
    rw [he] at hbody
    have := C15b.parse_text_statement_gen env fuel s kw md name lb _ hmd hname hlb v b.last rb rest hrb hbody
    simp [hkw, this, he]
    rfl

/-- **One top-level statement of the completed grammar.** `parseTopLevelStatement` on the printed statement
followed by `nx :: rest` (after a `const`: `nx` a top-level keyword) is `stepTopP`; the window is left on the
statement's last token. -/
theorem parse_top_step_ps (env : Env) (fuel : Nat) (t : STopP) (s : PState) (nx : Tok) (rest : List Tok)
    (hwf : TopWFP t) (hnx : t.isConst = true → nx.type ∈ Facts.topLevelTokens) (hf : needTopP t ≤ fuel) :
    (parseTopLevelStatement env fuel).run (st s (printTopP t ++ nx :: rest)) =
      match stepTopP env t s with
      | .error e => .error e
      | .ok (o, s') => .ok (o, st s' (t.last :: nx :: rest)) := by
  cases t with
  | base t => exact parse_top_step_ms env fuel t s nx rest hwf hnx hf
  | movementP kw md name lb items rb =>
    obtain ⟨h1, h2, h3, h4, h5, h6⟩ := hwf
    have := top_movementP env fuel s kw md name lb items rb (nx :: rest) h1 h2 h3 h4 h5 h6 hf
    simpa [printTopP, STopP.last] using this
  | martP kw md name lb items rb =>
    obtain ⟨h1, h2, h3, h4, h5, h6⟩ := hwf
    have := top_martP env fuel s kw md name lb items rb (nx :: rest) h1 h2 h3 h4 h5 h6 hf
    simpa [printTopP, STopP.last] using this
  | textP kw md name lb b rb =>
    obtain ⟨h1, h2, h3, h4, h5, h6⟩ := hwf
    have := top_textP env fuel s kw md name lb b rb (nx :: rest) h1 h2 h3 h4 h5 h6 hf
    simpa [printTopP, STopP.last] using this

/-! ### the top-level loop -/

theorem printTopP_head (t : STopP) : ∃ tl, printTopP t = t.kw :: tl := by
  cases t with
  | base t => exact printTopM_head t
  | movementP => exact ⟨_, rfl⟩
  | martP => exact ⟨_, rfl⟩
  | textP => exact ⟨_, rfl⟩

/-- **The top-level loop on a printed file of the completed grammar** is its reference elaboration. -/
theorem topLoopP_elab (env : Env) (fuel : Nat) (eofT : Tok) (tl : List Tok) (heof : eofT.type = .EOF) :
    ∀ (ts : List STopP) (n : Nat) (acc : List Top) (s : PState), TWFP ts → ts.length + 1 ≤ n →
      (∀ t ∈ ts, needTopP t ≤ fuel) →
      (topLoop env fuel n acc).run (st s (printTopsP ts ++ eofT :: tl)) =
        match elabTopsP env ts s with
        | .error e => .error e
        | .ok (tops, s') => .ok (acc ++ tops, st s' (eofT :: tl))
  | [], n, acc, s, _, hn, _ => by
    obtain ⟨m, rfl⟩ : ∃ m, n = m + 1 := ⟨n - 1, by simp at hn; omega⟩
    rw [topLoop_succ]
    simp [printTopsP, elabTopsP, heof]
  | t :: r, n, acc, s, hwf, hn, hf => by
    obtain ⟨m, rfl⟩ : ∃ m, n = m + 1 := ⟨n - 1, by simp at hn; omega⟩
    obtain ⟨h1, h2, h3⟩ := hwf
    obtain ⟨nx, rest, hw, hnx⟩ : ∃ nx rest, printTopsP r ++ eofT :: tl = nx :: rest ∧
        (t.isConst = true → nx.type ∈ Facts.topLevelTokens) := by
      cases r with
      | nil => exact ⟨eofT, tl, rfl, fun hc => absurd rfl (h2 hc)⟩
      | cons t2 r2 =>
        obtain ⟨tl2, htl2⟩ := printTopP_head t2
        refine ⟨t2.kw, tl2 ++ (printTopsP r2 ++ eofT :: tl), by simp [printTopsP, htl2], fun _ => h3.1.kw_top⟩
    have hstep := parse_top_step_ps env fuel t s nx rest h1 hnx (hf t (by simp))
    obtain ⟨tl1, htl1⟩ := printTopP_head t
    have hkw : (t.kw.type == TT.EOF) = false := by
      have := h1.kw_top
      cases hk : t.kw.type <;> simp_all [Facts.topLevelTokens]
    have hwin : printTopsP (t :: r) ++ eofT :: tl = printTopP t ++ nx :: rest := by
      simp [printTopsP, hw]
    rw [topLoop_succ, hwin]
    simp only [StateT.run_bind, run_curIs, ex_bind_ok, st_toks, htl1, List.cons_append, List.headD_cons, hkw,
      Bool.false_eq_true, if_false]
    rw [← List.cons_append, ← htl1, hstep]
    simp only [elabTopsP]
    cases hs : stepTopP env t s with
    | error e => simp
    | ok q =>
      obtain ⟨o, s1⟩ := q
      have ih := topLoopP_elab env fuel eofT tl heof r m (acc ++ optTop o) s1 h3 (by simp at hn; omega)
        (fun x hx => hf x (by simp [hx]))
      simp only [ex_bind_ok, run_nextToken, st_toks, List.tail_cons, st_st, acc_optTop]
      rw [← hw, ih]
      cases elabTopsP env r s1 with
      | error e => rfl
      | ok q2 => obtain ⟨tops, s2⟩ := q2; simp

/-! ### `ParseProgram` -/

theorem parseProgramM_elabP (env : Env) (fuel : Nat) (eofT : Tok) (tl : List Tok) (heof : eofT.type = .EOF)
    (ts : List STopP) (s : PState) (hwf : TWFP ts) (hn : ts.length + 1 ≤ fuel)
    (hf : ∀ t ∈ ts, needTopP t ≤ fuel) :
    (parseProgramM env fuel).run (st s (printTopsP ts ++ eofT :: tl)) =
      match elabTopsP env ts s with
      | .error e => .error e
      | .ok (tops, s') =>
        match finish tops s' with
        | .error e => .error e
        | .ok p => .ok (p, st s' (eofT :: tl)) := by
  unfold parseProgramM
  simp only [StateT.run_bind, topLoopP_elab env fuel eofT tl heof ts fuel [] s hwf hn hf, List.nil_append]
  cases elabTopsP env ts s with
  | error e => simp
  | ok q =>
    obtain ⟨tops, s'⟩ := q
    simp only [ex_bind_ok, run_get, finish, dupTextErr, dupMovementErr]
    have h1 : (st s' (eofT :: tl)).inlineTexts = s'.inlineTexts := rfl
    have h2 : (st s' (eofT :: tl)).textStatements = s'.textStatements := rfl
    have h3 : (st s' (eofT :: tl)).inlineMovements = s'.inlineMovements := rfl
    have h4 : (st s' (eofT :: tl)).patches = s'.patches := rfl
    simp only [h1, h2, h3, h4]
    cases firstDuplicateText (s'.inlineTexts ++ s'.textStatements) [] with
    | some t => simp
    | none =>
      dsimp only
      cases firstDuplicateMovement (tops ++ List.map Top.movement s'.inlineMovements) [] with
      | some q => obtain ⟨tok, name⟩ := q; simp
      | none => simp

theorem length_le_printTopsP : ∀ (ts : List STopP), ts.length ≤ (printTopsP ts).length
  | [] => Nat.le_refl _
  | t :: r => by
    obtain ⟨tl, h⟩ := printTopP_head t
    have := length_le_printTopsP r
    simp only [printTopsP, List.length_cons, List.length_append, h]
    omega

theorem printTopP_length_le {t : STopP} :
    ∀ {ts : List STopP}, t ∈ ts → (printTopP t).length ≤ (printTopsP ts).length
  | x :: r, h => by
    simp only [printTopsP, List.length_append]
    rcases List.mem_cons.1 h with rfl | h
    · omega
    · have := printTopP_length_le h; omega

/-- **`parseTokens` on a printed file of the completed grammar**, with the model's own fuel `4 * tokens + 50`. -/
theorem parseTokens_elabP (env : Env) (eofT : Tok) (heof : eofT.type = .EOF) (ts : List STopP) (hwf : TWFP ts) :
    parseTokens env (printTopsP ts ++ [eofT]) = elabFileP env ts (initState eofT) := by
  unfold parseTokens elabFileP
  have hl : (printTopsP ts ++ [eofT]).getLastD { type := .EOF } = eofT := by simp
  have hs : ({ toks := printTopsP ts ++ [eofT], eof := eofT } : PState) =
      st (initState eofT) (printTopsP ts ++ [eofT]) := rfl
  have hlen := length_le_printTopsP ts
  simp only [hl, hs, StateT.run']
  have h := parseProgramM_elabP env (4 * (printTopsP ts ++ [eofT]).length + 50) eofT [] heof ts (initState eofT)
    hwf (by simp only [List.length_append, List.length_cons, List.length_nil]; omega)
    (fun t ht => by
      have h1 := needTopP_le t
      have h2 := printTopP_length_le ht
      simp only [List.length_append, List.length_cons, List.length_nil]; omega)
  unfold StateT.run at h
  rw [h]
  cases elabTopsP env ts (initState eofT) with
  | error e => rfl
  | ok q =>
    obtain ⟨tops, s'⟩ := q
    simp only
    cases finish tops s' <;> rfl

end Pory.P2d
