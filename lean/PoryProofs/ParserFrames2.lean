import PoryProofs.ParserFrames
/-
Frame lemmas, part 2: conditions (leaf, boolean block), labels, the switch operand loop.
-/
namespace Pory.Parser
open Pory

/-- Finish a symbolic execution: alternate `wpsimp` with introducing binders and splitting `if`/`match`. -/
syntax "wpfin" (" [" Lean.Parser.Tactic.simpLemma,* "]")? : tactic
macro_rules
  | `(tactic| wpfin) => `(tactic| repeat' (first | trivial | wpsimp | (intros; split)))
  | `(tactic| wpfin [$ts,*]) => `(tactic| repeat' (first | trivial | wpsimp [$ts,*] | (intros; split)))

theorem frame_peekTokenIsAutoVar (env : Env) : Frame (peekTokenIsAutoVar env) := by
  intro s
  unfold peekTokenIsAutoVar
  wpsimp

theorem frame_collectUntil (stop : Tok → Bool) (onEOF : PFail) :
    ∀ (n : Nat) (parts : List String), Frame (collectUntil stop onEOF n parts) := by
  intro n
  induction n with
  | zero => intro parts s; rw [collectUntil]; wpsimp
  | succ n ih => intro parts s; rw [collectUntil]; wpsimp [(ih _).wp_iff]

theorem frame_valueLoop (vt : Tok) :
    ∀ (n k : Nat) (parts : List String), Frame (valueLoop vt n k parts) := by
  intro n
  induction n with
  | zero => intro k parts s; rw [valueLoop]; wpsimp
  | succ n ih => intro k parts s; rw [valueLoop]; wpsimp [(ih _ _).wp_iff]

theorem frame_collectUntilRange (st : Tok) :
    ∀ (n : Nat) (parts : List String), Frame (parseConditionVarOperator.collectUntilRange st n parts) := by
  intro n
  induction n with
  | zero => intro parts s; rw [parseConditionVarOperator.collectUntilRange]; wpsimp
  | succ n ih => intro parts s; rw [parseConditionVarOperator.collectUntilRange]; wpsimp [(ih _).wp_iff]

theorem frame_parseConditionVarOperator (e : OpExpr) (n : Nat) : Frame (parseConditionVarOperator e n) := by
  intro s
  unfold parseConditionVarOperator
  wpsimp [(frame_valueLoop _ _ _ _).wp_iff, (frame_collectUntilRange _ _ _).wp_iff]

theorem frame_parseConditionFlagLikeOperator (e : OpExpr) (nm : String) :
    Frame (parseConditionFlagLikeOperator e nm) := by
  intro s
  unfold parseConditionFlagLikeOperator
  wpsimp

theorem frame_parseLeafBooleanExpression (env : Env) (sn : String) (n : Nat) :
    Frame (parseLeafBooleanExpression env sn n) := by
  intro s
  unfold parseLeafBooleanExpression
  wpsimp [(frame_peekTokenIsAutoVar _).wp_iff, (frame_collectUntil _ _ _ _).wp_iff,
    (frame_expectPeekVarOrAutoVar _ _ _).wp_iff, (frame_parseConditionVarOperator _ _).wp_iff,
    (frame_parseConditionFlagLikeOperator _ _).wp_iff]
  wpfin [(frame_parseConditionVarOperator _ _).wp_iff, (frame_parseConditionFlagLikeOperator _ _).wp_iff,
    (frame_expectPeekVarOrAutoVar _ _ _).wp_iff]

theorem frame_boolBlock (env : Env) (sn : String) : ∀ n : Nat,
    (∀ single negated, Frame (parseBooleanExpression env sn single negated n)) ∧
    (∀ left single negated, Frame (parseRightSideExpression env sn left single negated n)) := by
  intro n
  induction n with
  | zero =>
    refine ⟨?_, ?_⟩
    · intro a b s; rw [parseBooleanExpression]; wpsimp
    · intro l a b s; rw [parseRightSideExpression]; wpsimp
  | succ n ih =>
    obtain ⟨ih1, ih2⟩ := ih
    refine ⟨?_, ?_⟩
    · intro a b s
      rw [parseBooleanExpression]
      wpsimp [(ih1 _ _).wp_iff, (ih2 _ _ _).wp_iff, (frame_parseLeafBooleanExpression _ _ _).wp_iff]
    · intro l a b s
      rw [parseRightSideExpression]
      wpsimp [(ih1 _ _).wp_iff, (ih2 _ _ _).wp_iff]

theorem frame_parseBooleanExpression (env : Env) (sn : String) (single negated : Bool) (n : Nat) :
    Frame (parseBooleanExpression env sn single negated n) := (frame_boolBlock env sn n).1 single negated

theorem frame_tryParseLabelStatement : Frame tryParseLabelStatement := by
  intro s
  unfold tryParseLabelStatement
  wpsimp

theorem frame_switchOperandLoop (ot : Tok) :
    ∀ (n : Nat) (parts : List String), Frame (parseSwitchStatement.switchOperandLoop ot n parts) := by
  intro n
  induction n with
  | zero => intro parts s; rw [parseSwitchStatement.switchOperandLoop]; wpsimp
  | succ n ih => intro parts s; rw [parseSwitchStatement.switchOperandLoop]; wpsimp [(ih _).wp_iff]

end Pory.Parser
